import OdxVerif.Spec.Variant
/-! Lemmas for C14: the request loop driven against a deterministic ECU computes the short-circuit
    reference evaluation `evalVariants` (cache on or off), which agrees with the specification whenever it
    does not end in an exception; trace invariants (fresh keys, no duplicates, only ident requests). -/
deriving instance DecidableEq for Except

namespace OdxVerif.Variant

/-! ### cache -/

theorem cacheGet_cacheSet_self (c : Cache) (k : Req) (v : Bytes) : cacheGet (cacheSet c k v) k = some v := by
  induction c with
  | nil => simp [cacheSet, cacheGet]
  | cons a c ih =>
    obtain ⟨k', v'⟩ := a
    by_cases h : k' = k
    · subst h; simp [cacheSet, cacheGet]
    · have h' : (k == k') = false := by simpa using fun e => h e.symm
      simp only [cacheSet, if_neg h, cacheGet, List.lookup, h']
      exact ih

theorem cacheGet_cacheSet_ne (c : Cache) (k k' : Req) (v : Bytes) (h : k' ≠ k) :
    cacheGet (cacheSet c k v) k' = cacheGet c k' := by
  induction c with
  | nil =>
    have : (k' == k) = false := by simpa using h
    simp [cacheSet, cacheGet, List.lookup, this]
  | cons a c ih =>
    obtain ⟨k2, v2⟩ := a
    by_cases h2 : k2 = k
    · subst h2
      have : (k' == k2) = false := by simpa using h
      simp [cacheSet, cacheGet, List.lookup, this]
    · simp only [cacheSet, if_neg h2, cacheGet, List.lookup]
      cases (k' == k2) with
      | true => rfl
      | false => exact ih

/-- every cached answer is the ECU's answer -/
def CacheOk (ecu : Req → Bytes) (c : Cache) : Prop := ∀ k v, cacheGet c k = some v → v = ecu k

theorem CacheOk.nil (ecu : Req → Bytes) : CacheOk ecu [] := by
  intro k v h; simp [cacheGet, List.lookup] at h

theorem CacheOk.set {ecu : Req → Bytes} {c : Cache} (h : CacheOk ecu c) (k : Req) :
    CacheOk ecu (cacheSet c k (ecu k)) := by
  intro k' v hv
  by_cases e : k' = k
  · subst e; rw [cacheGet_cacheSet_self] at hv; cases hv; rfl
  · rw [cacheGet_cacheSet_ne _ _ _ _ e] at hv; exact h _ _ hv

/-! ### running a bind -/

theorem run_bind {α β} (ecu : Req → Bytes) (p : Prog α) (f : α → MState → Prog β) :
    (p.bind f).run ecu =
      match (p.run ecu).result with
      | .ok a => ⟨(p.run ecu).trace ++ ((f a (p.run ecu).final).run ecu).trace,
                  ((f a (p.run ecu).final).run ecu).result, ((f a (p.run ecu).final).run ecu).final⟩
      | .error e => ⟨(p.run ecu).trace, .error e, (p.run ecu).final⟩ := by
  induction p with
  | ret a s => simp [Prog.bind, Prog.run]
  | fail e s => simp [Prog.bind, Prog.run]
  | ask ph r s k ih =>
    simp only [Prog.bind, Prog.run]
    rw [ih]
    cases h : ((k (some (ecu (ph, r)))).run ecu).result <;> simp

/-! ### the simulation invariant -/

/-- what one stretch of the loop, started in state `s` with a consistent cache, does -/
structure Sim {α} (c : Config) (ecu : Req → Bytes) (s : MState) (x : Run α) (ref : Except Err α) : Prop where
  res : x.result = ref
  ok : CacheOk ecu x.final.cache
  mono : ∀ r, (cacheGet s.cache r).isSome = true → (cacheGet x.final.cache r).isSome = true
  fresh : c.useCache = true → ∀ r ∈ x.trace, cacheGet s.cache r = none ∧ (cacheGet x.final.cache r).isSome = true
  nodup : c.useCache = true → x.trace.Nodup

/-- the inner loops do not touch `_state` and `_matching_variant` -/
structure Frame {α} (s : MState) (x : Run α) : Prop where
  st : x.final.state = s.state
  mt : x.final.matching = s.matching

theorem Sim.ret {α} (c : Config) (ecu : Req → Bytes) (s : MState) (h : CacheOk ecu s.cache) (a : α) :
    Sim c ecu s ((Prog.ret a s).run ecu) (.ok a) :=
  ⟨rfl, h, fun _ h => h, fun _ r hr => by simp [Prog.run] at hr, fun _ => by simp [Prog.run]⟩

theorem Sim.fail {α} (c : Config) (ecu : Req → Bytes) (s : MState) (h : CacheOk ecu s.cache) (e : Err) :
    Sim c ecu s ((Prog.fail e s : Prog α).run ecu) (.error e) :=
  ⟨rfl, h, fun _ h => h, fun _ r hr => by simp [Prog.run] at hr, fun _ => by simp [Prog.run]⟩

theorem Sim.bind {α β} {c : Config} {ecu : Req → Bytes} {s : MState} {p : Prog α} {f : α → MState → Prog β}
    {r1 : Except Err α} {r2 : α → Except Err β}
    (hp : Sim c ecu s (p.run ecu) r1)
    (hf : ∀ a s', CacheOk ecu s'.cache → Sim c ecu s' ((f a s').run ecu) (r2 a)) :
    Sim c ecu s ((p.bind f).run ecu) (r1.bind r2) := by
  rw [run_bind]
  have hres := hp.res
  cases hr : (p.run ecu).result with
  | error e =>
    rw [hr] at hres; subst hres
    exact ⟨rfl, hp.ok, hp.mono, hp.fresh, hp.nodup⟩
  | ok a =>
    rw [hr] at hres; subst hres
    have h2 := hf a (p.run ecu).final hp.ok
    refine ⟨h2.res, h2.ok, fun r h => h2.mono r (hp.mono r h), ?_, ?_⟩
    · intro hc r hr
      rcases List.mem_append.mp hr with h | h
      · exact ⟨(hp.fresh hc r h).1, h2.mono r (hp.fresh hc r h).2⟩
      · refine ⟨?_, (h2.fresh hc r h).2⟩
        cases hg : cacheGet s.cache r with
        | none => rfl
        | some v =>
          have := hp.mono r (by simp [hg])
          rw [(h2.fresh hc r h).1] at this; simp at this
    · intro hc
      refine List.nodup_append.mpr ⟨hp.nodup hc, h2.nodup hc, ?_⟩
      intro a ha b hb hab
      subst hab
      have h1 := (hp.fresh hc a ha).2
      rw [(h2.fresh hc a hb).1] at h1; simp at h1

theorem Frame.ret {α} (ecu : Req → Bytes) (s : MState) (a : α) : Frame s ((Prog.ret a s).run ecu) := ⟨rfl, rfl⟩
theorem Frame.fail {α} (ecu : Req → Bytes) (s : MState) (e : Err) : Frame s ((Prog.fail e s : Prog α).run ecu) :=
  ⟨rfl, rfl⟩

theorem Frame.bind {α β} {ecu : Req → Bytes} {s : MState} {p : Prog α} {f : α → MState → Prog β}
    (hp : Frame s (p.run ecu)) (hf : ∀ a s', Frame s' ((f a s').run ecu)) :
    Frame s ((p.bind f).run ecu) := by
  rw [run_bind]
  cases hr : (p.run ecu).result with
  | error e => exact ⟨hp.st, hp.mt⟩
  | ok a =>
    have h2 := hf a (p.run ecu).final
    exact ⟨h2.st.trans hp.st, h2.mt.trans hp.mt⟩

/-! ### reference evaluation: the nested loops without matcher state, cache or requests -/

/-- stop at the first element that is not `true` -/
def allE {α} (f : α → Except Err Bool) : List α → Except Err Bool
  | [] => .ok true
  | x :: xs => match f x with
    | .error e => .error e
    | .ok false => .ok false
    | .ok true => allE f xs

def evalParam (strict : Bool) (ecu : Req → Bytes) (v : Variant) (p : MParam) : Except Err Bool :=
  match identService strict v p with
  | .error e => .error e
  | .ok svc => match svc.req with
    | .error e => .error e
    | .ok rb => identResponseMatches strict p svc (ecu (p.phys, rb))

def evalParams (strict : Bool) (ecu : Req → Bytes) (v : Variant) : List MParam → Except Err Bool :=
  allE (evalParam strict ecu v)

def evalPatterns (strict : Bool) (ecu : Req → Bytes) (v : Variant) : List Pattern → Except Err Bool :=
  anyE (evalParams strict ecu v)

def evalVariants (strict : Bool) (ecu : Req → Bytes) (i : Nat) : List Variant → Except Err (Option Nat)
  | [] => .ok none
  | v :: rest => match v.patterns? with
    | none => if strict then .error .odx else .ok none
    | some pats => match evalPatterns strict ecu v pats with
      | .error e => .error e
      | .ok true => .ok (some i)
      | .ok false => evalVariants strict ecu (i + 1) rest

theorem finishParam_sim (c : Config) (ecu : Req → Bytes) (p : MParam) (svc : Service) (resp : Bytes) (s : MState)
    (h : CacheOk ecu s.cache) :
    Sim c ecu s ((finishParam c p svc resp s).run ecu) (identResponseMatches c.strict p svc resp) := by
  unfold finishParam
  cases hr : identResponseMatches c.strict p svc resp with
  | error e => exact Sim.fail c ecu s h e
  | ok b => exact Sim.ret c ecu s h b

theorem finishParam_frame (c : Config) (ecu : Req → Bytes) (p : MParam) (svc : Service) (resp : Bytes) (s : MState) :
    Frame s ((finishParam c p svc resp s).run ecu) := by
  unfold finishParam
  cases identResponseMatches c.strict p svc resp with
  | error e => exact Frame.fail ecu s e
  | ok b => exact Frame.ret ecu s b

theorem paramStep_sim (c : Config) (ecu : Req → Bytes) (v : Variant) (p : MParam) (s : MState)
    (h : CacheOk ecu s.cache) :
    Sim c ecu s ((paramStep c v p s).run ecu) (evalParam c.strict ecu v p) := by
  unfold paramStep evalParam
  cases hs : identService c.strict v p with
  | error e => exact Sim.fail c ecu s h e
  | ok svc =>
    dsimp only
    cases hq : svc.req with
    | error e => exact Sim.fail c ecu s h e
    | ok rb =>
      dsimp only
      cases hc : (if c.useCache = true then cacheGet s.cache (p.phys, rb) else none) with
      | some resp =>
        dsimp only
        have hu : c.useCache = true := by
          cases hh : c.useCache with
          | true => rfl
          | false => rw [hh] at hc; simp at hc
        rw [hu] at hc; simp only [if_true] at hc
        have : resp = ecu (p.phys, rb) := h _ _ hc
        subst this
        exact finishParam_sim c ecu p svc _ s h
      | none =>
        simp only [Prog.run, evaluate, getIdentResponse]
        have hok : CacheOk ecu (updateCache c.useCache { s with recent := some (ecu (p.phys, rb)) } (p.phys, rb)
            (ecu (p.phys, rb))).cache := by
          unfold updateCache
          cases c.useCache with
          | true => exact h.set _
          | false => exact h
        have hf := finishParam_sim c ecu p svc (ecu (p.phys, rb)) _ hok
        refine ⟨hf.res, hf.ok, ?_, ?_, ?_⟩
        · intro r hr
          apply hf.mono
          unfold updateCache
          cases c.useCache with
          | false => exact hr
          | true =>
            simp only [if_true]
            by_cases e : r = (p.phys, rb)
            · subst e; rw [cacheGet_cacheSet_self]; rfl
            · rw [cacheGet_cacheSet_ne _ _ _ _ e]; exact hr
        · intro hu r hr
          rw [hu] at hc; simp only [if_true] at hc
          rcases List.mem_cons.mp hr with e | hr'
          · subst e
            refine ⟨hc, ?_⟩
            apply hf.mono
            simp [updateCache, hu, cacheGet_cacheSet_self]
          · have := (hf.fresh hu r hr').1
            refine ⟨?_, (hf.fresh hu r hr').2⟩
            by_cases e : r = (p.phys, rb)
            · subst e; exact hc
            · simpa [updateCache, hu, cacheGet_cacheSet_ne _ _ _ _ e] using this
        · intro hu
          refine List.nodup_cons.mpr ⟨?_, hf.nodup hu⟩
          intro hm
          have := (hf.fresh hu _ hm).1
          simp [updateCache, hu, cacheGet_cacheSet_self] at this

theorem paramStep_frame (c : Config) (ecu : Req → Bytes) (v : Variant) (p : MParam) (s : MState) :
    Frame s ((paramStep c v p s).run ecu) := by
  unfold paramStep
  cases hs : identService c.strict v p with
  | error e => exact Frame.fail ecu s e
  | ok svc =>
    dsimp only
    cases hq : svc.req with
    | error e => exact Frame.fail ecu s e
    | ok rb =>
      dsimp only
      cases hc : (if c.useCache = true then cacheGet s.cache (p.phys, rb) else none) with
      | some resp => exact finishParam_frame c ecu p svc resp s
      | none =>
        simp only [Prog.run, evaluate, getIdentResponse]
        have hf := finishParam_frame c ecu p svc (ecu (p.phys, rb))
          (updateCache c.useCache { s with recent := some (ecu (p.phys, rb)) } (p.phys, rb) (ecu (p.phys, rb)))
        refine ⟨hf.st.trans ?_, hf.mt.trans ?_⟩ <;> (unfold updateCache; cases c.useCache <;> rfl)

/-! ### the three loops -/

theorem paramsLoop_sim (c : Config) (ecu : Req → Bytes) (v : Variant) (ps : List MParam) :
    ∀ s, CacheOk ecu s.cache → Sim c ecu s ((paramsLoop c v ps s).run ecu) (evalParams c.strict ecu v ps) := by
  induction ps with
  | nil => intro s h; exact Sim.ret c ecu s h true
  | cons p rest ih =>
    intro s h
    have hb := Sim.bind (f := fun b s => if b then paramsLoop c v rest s else .ret false s)
      (r2 := fun b => if b then evalParams c.strict ecu v rest else .ok false)
      (paramStep_sim c ecu v p s h)
      (by intro b s' h'
          cases b with
          | true => exact ih s' h'
          | false => exact Sim.ret c ecu s' h' false)
    have e : evalParams c.strict ecu v (p :: rest)
        = (evalParam c.strict ecu v p).bind fun b => if b then evalParams c.strict ecu v rest else .ok false := by
      simp only [evalParams, allE]
      cases evalParam c.strict ecu v p with
      | error e => rfl
      | ok b => cases b <;> rfl
    rw [e]; exact hb

theorem paramsLoop_frame (c : Config) (ecu : Req → Bytes) (v : Variant) (ps : List MParam) :
    ∀ s, Frame s ((paramsLoop c v ps s).run ecu) := by
  induction ps with
  | nil => intro s; exact Frame.ret ecu s true
  | cons p rest ih =>
    intro s
    exact Frame.bind (f := fun b s => if b then paramsLoop c v rest s else .ret false s) (paramStep_frame c ecu v p s)
      (by intro b s'
          cases b with
          | true => exact ih s'
          | false => exact Frame.ret ecu s' false)

theorem patternsLoop_sim (c : Config) (ecu : Req → Bytes) (v : Variant) (pats : List Pattern) :
    ∀ s, CacheOk ecu s.cache → Sim c ecu s ((patternsLoop c v pats s).run ecu) (evalPatterns c.strict ecu v pats) := by
  induction pats with
  | nil => intro s h; exact Sim.ret c ecu s h false
  | cons pat rest ih =>
    intro s h
    have hb := Sim.bind (f := fun b s => if b then .ret true s else patternsLoop c v rest s)
      (r2 := fun b => if b then .ok true else evalPatterns c.strict ecu v rest)
      (paramsLoop_sim c ecu v pat s h)
      (by intro b s' h'
          cases b with
          | true => exact Sim.ret c ecu s' h' true
          | false => exact ih s' h')
    have e : evalPatterns c.strict ecu v (pat :: rest)
        = (evalParams c.strict ecu v pat).bind fun b => if b then .ok true else evalPatterns c.strict ecu v rest := by
      simp only [evalPatterns, anyE]
      cases evalParams c.strict ecu v pat with
      | error e => rfl
      | ok b => cases b <;> rfl
    rw [e]; exact hb

theorem patternsLoop_frame (c : Config) (ecu : Req → Bytes) (v : Variant) (pats : List Pattern) :
    ∀ s, Frame s ((patternsLoop c v pats s).run ecu) := by
  induction pats with
  | nil => intro s; exact Frame.ret ecu s false
  | cons pat rest ih =>
    intro s
    exact Frame.bind (f := fun b s => if b then .ret true s else patternsLoop c v rest s) (paramsLoop_frame c ecu v pat s)
      (by intro b s'
          cases b with
          | true => exact Frame.ret ecu s' true
          | false => exact ih s')


theorem Sim.ret' {α} (c : Config) (ecu : Req → Bytes) (s s' : MState) (h : CacheOk ecu s.cache)
    (hc : s'.cache = s.cache) (a : α) :
    Sim c ecu s ((Prog.ret a s').run ecu) (.ok a) :=
  ⟨rfl, by simpa [Prog.run, hc] using h, fun _ h => by simpa [Prog.run, hc] using h,
   fun _ r hr => by simp [Prog.run] at hr, fun _ => by simp [Prog.run]⟩

theorem finishLoop_cache (s : MState) : (finishLoop s).cache = s.cache := by
  unfold finishLoop; split <;> rfl

theorem variantsLoop_sim (c : Config) (ecu : Req → Bytes) (cands : List Variant) :
    ∀ i s, CacheOk ecu s.cache →
      Sim c ecu s ((variantsLoop c i cands s).run ecu) ((evalVariants c.strict ecu i cands).map fun _ => ()) := by
  induction cands with
  | nil => intro i s h; exact Sim.ret' c ecu s _ h (finishLoop_cache s) ()
  | cons v rest ih =>
    intro i s h
    unfold variantsLoop evalVariants
    cases hp : v.patterns? with
    | none =>
      dsimp only
      cases c.strict with
      | true => simp only [if_true]; exact Sim.fail c ecu s h .odx
      | false => simp only [Bool.false_eq_true, if_false]; exact Sim.ret' c ecu s { s with state := .noMatch } h rfl ()
    | some pats =>
      dsimp only
      have hb := Sim.bind
        (f := fun b s => if b then .ret () (finishLoop { s with state := .matched, matching := some i })
                         else variantsLoop c (i + 1) rest s)
        (r2 := fun b => if b then .ok () else (evalVariants c.strict ecu (i + 1) rest).map fun _ => ())
        (patternsLoop_sim c ecu v pats s h)
        (by intro b s' h'
            cases b with
            | true => exact Sim.ret' c ecu s' _ h' (by rw [finishLoop_cache]) ()
            | false => exact ih (i + 1) s' h')
      revert hb
      cases evalPatterns c.strict ecu v pats with
      | error e => intro hb; exact hb
      | ok b => cases b <;> (intro hb; exact hb)

/-- how `request_loop` ends, in terms of the reference evaluation -/
def Outcome (x : Run Unit) : Except Err (Option Nat) → Prop
  | .error e => x.result = .error e ∧ x.final.state = .pending ∧ x.final.matching = none
  | .ok none => x.result = .ok () ∧ x.final.state = .noMatch ∧ x.final.matching = none
  | .ok (some i) => x.result = .ok () ∧ x.final.state = .matched ∧ x.final.matching = some i

theorem variantsLoop_outcome (c : Config) (ecu : Req → Bytes) (cands : List Variant) :
    ∀ i s, CacheOk ecu s.cache → s.state = .pending → s.matching = none →
      Outcome ((variantsLoop c i cands s).run ecu) (evalVariants c.strict ecu i cands) := by
  induction cands with
  | nil =>
    intro i s _ hs hm
    simp [variantsLoop, evalVariants, Outcome, Prog.run, finishLoop, hs, hm]
  | cons v rest ih =>
    intro i s h hs hm
    unfold variantsLoop evalVariants
    cases hp : v.patterns? with
    | none =>
      dsimp only
      cases c.strict with
      | true => simp [Outcome, Prog.run, hs, hm]
      | false => simp [Outcome, Prog.run, hm]
    | some pats =>
      dsimp only
      rw [run_bind]
      have h1 := patternsLoop_sim c ecu v pats s h
      have h2 := patternsLoop_frame c ecu v pats s
      rw [h1.res]
      cases he : evalPatterns c.strict ecu v pats with
      | error e => simp [Outcome, h2.st, h2.mt, hs, hm]
      | ok b =>
        cases b with
        | true => simp [Outcome, Prog.run, finishLoop]
        | false =>
          have := ih (i + 1) _ h1.ok (h2.st.trans hs) (h2.mt.trans hm)
          simp only [Bool.false_eq_true, if_false]
          cases hv : evalVariants c.strict ecu (i + 1) rest with
          | error e => rw [hv] at this; exact this
          | ok m => rw [hv] at this; cases m <;> exact this

open Spec

theorem anyE_spec {α} (f : α → Except Err Bool) (g : α → Bool) (xs : List α)
    (h : ∀ x ∈ xs, ∀ b, f x = .ok b → b = g x) : ∀ b, anyE f xs = .ok b → b = xs.any g := by
  induction xs with
  | nil => intro b hb; simp [anyE] at hb; simp [hb]
  | cons x xs ih =>
    intro b hb
    simp only [anyE] at hb
    cases hx : f x with
    | error e => rw [hx] at hb; simp at hb
    | ok bx =>
      have := h x (List.mem_cons_self ..) bx hx
      rw [hx] at hb
      cases bx with
      | true => simp at hb; simp [← this, ← hb]
      | false =>
        simp only at hb
        have := ih (fun y hy => h y (List.mem_cons_of_mem _ hy)) b hb
        simp [← ‹false = g x›, this]

theorem allE_spec {α} (f : α → Except Err Bool) (g : α → Bool) (xs : List α)
    (h : ∀ x ∈ xs, ∀ b, f x = .ok b → b = g x) : ∀ b, allE f xs = .ok b → b = xs.all g := by
  induction xs with
  | nil => intro b hb; simp [allE] at hb; simp [hb]
  | cons x xs ih =>
    intro b hb
    simp only [allE] at hb
    cases hx : f x with
    | error e => rw [hx] at hb; simp at hb
    | ok bx =>
      have := h x (List.mem_cons_self ..) bx hx
      rw [hx] at hb
      cases bx with
      | false => simp at hb; subst hb; simp [← this]
      | true =>
        simp only at hb
        have := ih (fun y hy => h y (List.mem_cons_of_mem _ hy)) b hb
        simp [← ‹true = g x›, this]

theorem leafMatches_spec (strict : Bool) (exp : Str) (v : PVal) (b : Bool)
    (h : leafMatches strict exp v = .ok b) : b = leafEq exp v := by
  cases v <;> simp_all [leafMatches, leafEq, odxraise] <;> (cases strict <;> simp_all)

theorem subMatch_spec (strict : Bool) (exp : Str) (rest : List Str)
    (ih : ∀ v b, matchesAt strict exp rest v = .ok b → b = (leaves rest v).any (leafEq exp)) (y : PVal) (b : Bool)
    (h : (match y with
          | .list _ xs => anyE (matchesAt strict exp rest) xs
          | s => matchesAt strict exp rest s) = .ok b) :
    b = ((items y).flatMap (leaves rest)).any (leafEq exp) := by
  cases y with
  | list r xs =>
    simp only at h
    simp only [items, List.any_flatMap]
    exact anyE_spec _ _ xs (fun x _ b hb => ih x b hb) b h
  | _ => simp only at h; simpa [items] using ih _ b h

theorem matchesAt_spec (strict : Bool) (exp : Str) (path : List Str) :
    ∀ v b, matchesAt strict exp path v = .ok b → b = (leaves path v).any (leafEq exp) := by
  induction path with
  | nil => intro v b h; simp [matchesAt] at h; simp [leaves, leafMatches_spec strict exp v b h]
  | cons c rest ih =>
    intro v b h
    cases v with
    | dict kv =>
      simp only [matchesAt] at h
      simp only [leaves]
      cases hl : kv.lookup c with
      | none => rw [hl] at h; simp at h; simp [h]
      | some sub =>
        rw [hl] at h
        cases sub with
        | none => simp at h; simp [h]
        | tuple r ys =>
          match ys with
          | [] => exact subMatch_spec strict exp rest ih _ b h
          | [_] => exact subMatch_spec strict exp rest ih _ b h
          | [_, y] => exact subMatch_spec strict exp rest ih y b h
          | _ :: _ :: _ :: _ => exact subMatch_spec strict exp rest ih _ b h
        | _ => exact subMatch_spec strict exp rest ih _ b h
    | _ => cases strict <;> simp_all [matchesAt, odxraise, leaves]

theorem anyE_total {α} (f : α → Except Err Bool) (xs : List α) (h : ∀ x ∈ xs, ∃ b, f x = .ok b) :
    ∃ b, anyE f xs = .ok b := by
  induction xs with
  | nil => exact ⟨false, rfl⟩
  | cons x xs ih =>
    obtain ⟨bx, hx⟩ := h x (List.mem_cons_self ..)
    simp only [anyE, hx]
    cases bx with
    | true => exact ⟨true, rfl⟩
    | false => exact ih (fun y hy => h y (List.mem_cons_of_mem _ hy))

theorem allE_total {α} (f : α → Except Err Bool) (xs : List α) (h : ∀ x ∈ xs, ∃ b, f x = .ok b) :
    ∃ b, allE f xs = .ok b := by
  induction xs with
  | nil => exact ⟨true, rfl⟩
  | cons x xs ih =>
    obtain ⟨bx, hx⟩ := h x (List.mem_cons_self ..)
    simp only [allE, hx]
    cases bx with
    | false => exact ⟨false, rfl⟩
    | true => exact ih (fun y hy => h y (List.mem_cons_of_mem _ hy))

theorem subMatch_total (exp : Str) (rest : List Str)
    (ih : ∀ v, ∃ b, matchesAt false exp rest v = .ok b) (y : PVal) :
    ∃ b : Bool, (match y with
          | .list _ xs => anyE (matchesAt false exp rest) xs
          | s => matchesAt false exp rest s) = Except.ok b := by
  cases y with
  | list r xs => exact anyE_total _ xs (fun x _ => ih x)
  | _ => exact ih _

theorem matchesAt_total (exp : Str) (path : List Str) :
    ∀ v, ∃ b, matchesAt false exp path v = .ok b := by
  induction path with
  | nil => intro v; cases v <;> simp [matchesAt, leafMatches, odxraise]
  | cons c rest ih =>
    intro v
    cases v with
    | dict kv =>
      simp only [matchesAt]
      cases hl : kv.lookup c with
      | none => exact ⟨false, rfl⟩
      | some sub =>
        cases sub with
        | none => exact ⟨false, rfl⟩
        | tuple r ys =>
          rcases ys with _ | ⟨y1, _ | ⟨y2, _ | ⟨y3, ys⟩⟩⟩
          · exact ih _
          · exact ih _
          · exact subMatch_total exp rest ih y2
          · exact ih _
        | list r xs => exact anyE_total _ xs (fun x _ => ih x)
        | _ => exact ih _
    | _ => simp [matchesAt, odxraise]

/-! ### from the reference evaluation to the specification -/

theorem paramMatches_spec (strict : Bool) (p : MParam) (v : PVal) (b : Bool)
    (h : paramMatches strict p v = .ok b) : b = valueMatches p v := by
  unfold paramMatches at h
  unfold valueMatches path?
  cases h1 : p.snref with
  | some r => rw [h1] at h; exact matchesAt_spec strict _ _ v b h
  | none =>
    rw [h1] at h
    cases h2 : p.snpathref with
    | some pr => rw [h2] at h; exact matchesAt_spec strict _ _ v b h
    | none => rw [h2] at h; cases strict <;> simp_all [odxraise]

theorem paramMatches_total (p : MParam) (v : PVal) : ∃ b, paramMatches false p v = .ok b := by
  unfold paramMatches
  cases p.snref with
  | some r => exact matchesAt_total _ _ v
  | none =>
    cases p.snpathref with
    | some pr => exact matchesAt_total _ _ v
    | none => exact ⟨false, rfl⟩

/-- the specification's reading of one decode outcome -/
def outcomeMatches (p : MParam) : DecOutcome → Bool
  | .val x => valueMatches p x
  | _ => false

theorem anyResponse_spec (strict : Bool) (p : MParam) (outs : List DecOutcome) :
    ∀ b, anyResponse strict p outs = .ok b → b = outs.any (outcomeMatches p) := by
  induction outs with
  | nil => intro b h; simp [anyResponse] at h; simp [h]
  | cons o rest ih =>
    intro b h
    cases o with
    | decodeError => simp only [anyResponse] at h; simpa [outcomeMatches] using ih b h
    | raises e => simp [anyResponse] at h
    | val x =>
      simp only [anyResponse] at h
      cases hm : paramMatches strict p x with
      | error e => rw [hm] at h; simp at h
      | ok bx =>
        have := paramMatches_spec strict p x bx hm
        rw [hm] at h
        cases bx with
        | true => simp at h; subst h; simp [outcomeMatches, ← this]
        | false => simp only at h; simp [outcomeMatches, ← this, ih b h]

theorem anyResponse_total (p : MParam) (outs : List DecOutcome) (h : ∀ o ∈ outs, ∀ e, o ≠ .raises e) :
    ∃ b, anyResponse false p outs = .ok b := by
  induction outs with
  | nil => exact ⟨false, rfl⟩
  | cons o rest ih =>
    have ih := ih (fun o ho => h o (List.mem_cons_of_mem _ ho))
    cases o with
    | decodeError => exact ih
    | raises e => exact absurd rfl (h _ (List.mem_cons_self ..) e)
    | val x =>
      obtain ⟨bx, hx⟩ := paramMatches_total p x
      simp only [anyResponse, hx]
      cases bx with
      | true => exact ⟨true, rfl⟩
      | false => exact ih

theorem identService_find (strict : Bool) (v : Variant) (p : MParam) (svc : Service)
    (h : identService strict v p = .ok svc) : v.services.find? (fun s => s.name == p.svc) = some svc := by
  unfold identService at h
  rw [← List.head?_filter]
  cases hf : v.services.filter (fun s => s.name == p.svc) with
  | nil => rw [hf] at h; cases strict <;> simp at h
  | cons a t =>
    rw [hf] at h
    cases t with
    | nil => simp at h; simp [h]
    | cons a2 t2 => cases strict <;> simp at h; simp [h]

theorem evalParam_spec (c : Config) (ecu : Req → Bytes) (v : Variant) (p : MParam) (b : Bool)
    (h : evalParam c.strict ecu v p = .ok b) : b = Spec.paramMatches ecu v p := by
  unfold evalParam at h
  cases hs : identService c.strict v p with
  | error e => rw [hs] at h; simp at h
  | ok svc =>
    rw [hs] at h
    dsimp only at h
    cases hq : svc.req with
    | error e => rw [hq] at h; simp at h
    | ok rb =>
      rw [hq] at h
      simp only [identResponseMatches] at h
      have := anyResponse_spec c.strict p _ b h
      simp only [Spec.paramMatches, identRequest?, identService_find _ _ _ _ hs, hq]
      rw [this]
      congr 1

theorem evalParams_spec (c : Config) (ecu : Req → Bytes) (v : Variant) (ps : List MParam) (b : Bool)
    (h : evalParams c.strict ecu v ps = .ok b) : b = ps.all (Spec.paramMatches ecu v) :=
  allE_spec _ _ ps (fun p _ b hb => evalParam_spec c ecu v p b hb) b h

theorem evalPatterns_spec (c : Config) (ecu : Req → Bytes) (v : Variant) (pats : List Pattern) (b : Bool)
    (h : evalPatterns c.strict ecu v pats = .ok b) : b = pats.any fun pat => pat.all (Spec.paramMatches ecu v) :=
  anyE_spec _ _ pats (fun ps _ b hb => evalParams_spec c ecu v ps b hb) b h

theorem evalVariants_spec (c : Config) (ecu : Req → Bytes) (cands : List Variant) :
    ∀ i m, evalVariants c.strict ecu i cands = .ok m →
      m = (identify ecu (cands.takeWhile fun v => v.patterns?.isSome)).map (· + i) := by
  induction cands with
  | nil => intro i m h; simp [evalVariants] at h; simp [identify, ← h]
  | cons v rest ih =>
    intro i m h
    unfold evalVariants at h
    cases hp : v.patterns? with
    | none =>
      rw [hp] at h
      cases hst : c.strict <;> simp [hst] at h
      simp [identify, List.takeWhile, hp, ← h]
    | some pats =>
      rw [hp] at h
      simp only at h
      cases he : evalPatterns c.strict ecu v pats with
      | error e => rw [he] at h; simp at h
      | ok b =>
        have hb := evalPatterns_spec c ecu v pats b he
        rw [he] at h
        have hv : variantMatches ecu v = b := by simp [variantMatches, hp, hb]
        cases b with
        | true =>
          simp at h
          simp [identify, List.takeWhile, hp, List.findIdx?_cons, hv, ← h]
        | false =>
          simp only at h
          have := ih (i + 1) m h
          simp only [identify, List.takeWhile, hp, Option.isSome_some, List.findIdx?_cons, hv] 
          rw [this]
          simp [identify, Option.map_map, Function.comp_def, Nat.add_comm, Nat.add_left_comm]



/-! ### totality in non-strict mode -/

theorem identService_of_find (v : Variant) (p : MParam) (svc : Service)
    (h : v.services.find? (fun s => s.name == p.svc) = some svc) : identService false v p = .ok svc := by
  unfold identService
  rw [← List.head?_filter] at h
  cases hf : v.services.filter (fun s => s.name == p.svc) with
  | nil => rw [hf] at h; simp at h
  | cons a t =>
    rw [hf] at h; simp at h; subst h
    cases t <;> simp

theorem evalVariants_total (c : Config) (hc : c.strict = false) (ecu : Req → Bytes) (cands : List Variant)
    (ht : Tame cands) : ∀ i, ∃ m, evalVariants c.strict ecu i cands = .ok m := by
  induction cands with
  | nil => intro i; exact ⟨none, rfl⟩
  | cons v rest ih =>
    intro i
    have ih := ih (fun w hw => ht w (List.mem_cons_of_mem _ hw))
    unfold evalVariants
    cases hp : v.patterns? with
    | none => simp [hc]
    | some pats =>
      have hpat : ∃ b, evalPatterns c.strict ecu v pats = .ok b := by
        apply anyE_total
        intro pat hpat
        apply allE_total
        intro p hp'
        obtain ⟨svc, rb, h1, h2, h3⟩ := ht v (List.mem_cons_self ..) pat (by simpa [hp] using hpat) p hp'
        unfold evalParam
        rw [hc, identService_of_find v p svc h1]
        simp only [h2, identResponseMatches]
        exact anyResponse_total p _ (h3 _)
      obtain ⟨b, hb⟩ := hpat
      simp only [hb]
      cases b with
      | true => exact ⟨some i, rfl⟩
      | false => exact ih (i + 1)

/-! ### which requests can be yielded at all (any caller, not only a deterministic ECU) -/

inductive AllAsks {α} (P : Req → Prop) : Prog α → Prop
  | ret (a : α) (s : MState) : AllAsks P (.ret a s)
  | fail (e : Err) (s : MState) : AllAsks P (.fail e s)
  | ask (ph : Bool) (r : Bytes) (s : MState) (k : Option Bytes → Prog α) :
      P (ph, r) → (∀ i, AllAsks P (k i)) → AllAsks P (.ask ph r s k)

theorem AllAsks.mono {α} {P Q : Req → Prop} (h : ∀ r, P r → Q r) {p : Prog α} (hp : AllAsks P p) : AllAsks Q p := by
  induction hp with
  | ret a s => exact .ret a s
  | fail e s => exact .fail e s
  | ask ph r s k h1 _ ih => exact .ask ph r s k (h _ h1) ih

theorem AllAsks.bind {α β} {P : Req → Prop} {p : Prog α} {f : α → MState → Prog β}
    (hp : AllAsks P p) (hf : ∀ a s, AllAsks P (f a s)) : AllAsks P (p.bind f) := by
  induction hp with
  | ret a s => exact hf a s
  | fail e s => exact .fail e s
  | ask ph r s k h1 _ ih => exact .ask ph r s _ h1 ih

theorem AllAsks.run_trace {α} {P : Req → Prop} {p : Prog α} (hp : AllAsks P p) (ecu : Req → Bytes) :
    ∀ r ∈ (p.run ecu).trace, P r := by
  induction hp with
  | ret a s => intro r hr; simp [Prog.run] at hr
  | fail e s => intro r hr; simp [Prog.run] at hr
  | ask ph r s k h1 _ ih =>
    intro q hq
    simp only [Prog.run, List.mem_cons] at hq
    rcases hq with e | hq
    · subst e; exact h1
    · exact ih _ q hq

theorem AllAsks.runScript_trace {α} {P : Req → Prop} {p : Prog α} (hp : AllAsks P p) :
    ∀ script, ∀ r ∈ (p.runScript script).trace, P r := by
  induction hp with
  | ret a s => intro sc r hr; simp [Prog.runScript] at hr
  | fail e s => intro sc r hr; simp [Prog.runScript] at hr
  | ask ph r s k h1 _ ih =>
    intro sc q hq
    cases sc with
    | nil => simp [Prog.runScript] at hq; subst hq; exact h1
    | cons i is =>
      simp only [Prog.runScript, List.mem_cons] at hq
      rcases hq with e | hq
      · subst e; exact h1
      · exact ih i is q hq

theorem finishParam_asks (P : Req → Prop) (c : Config) (p : MParam) (svc : Service) (resp : Bytes) (s : MState) :
    AllAsks P (finishParam c p svc resp s) := by
  unfold finishParam
  cases identResponseMatches c.strict p svc resp with
  | error e => exact .fail e s
  | ok b => exact .ret b s

theorem paramStep_asks (c : Config) (v : Variant) (p : MParam) (s : MState) :
    AllAsks (fun r => ∃ svc, identRequest? v p = some (svc, r)) (paramStep c v p s) := by
  unfold paramStep
  cases hs : identService c.strict v p with
  | error e => exact .fail e s
  | ok svc =>
    dsimp only
    cases hq : svc.req with
    | error e => exact .fail e s
    | ok rb =>
      dsimp only
      cases (if c.useCache = true then cacheGet s.cache (p.phys, rb) else none) with
      | some resp => exact finishParam_asks _ c p svc resp s
      | none =>
        refine .ask _ _ _ _ ⟨svc, ?_⟩ ?_
        · simp [identRequest?, identService_find _ _ _ _ hs, hq]
        · intro i
          cases getIdentResponse (evaluate s i) with
          | error e => exact .fail e _
          | ok resp => exact finishParam_asks _ c p svc resp _

theorem paramsLoop_asks (c : Config) (v : Variant) (ps : List MParam) :
    ∀ s, AllAsks (fun r => ∃ p ∈ ps, ∃ svc, identRequest? v p = some (svc, r)) (paramsLoop c v ps s) := by
  induction ps with
  | nil => intro s; exact .ret true s
  | cons p rest ih =>
    intro s
    refine AllAsks.bind ((paramStep_asks c v p s).mono ?_) ?_
    · intro r ⟨svc, h⟩; exact ⟨p, List.mem_cons_self .., svc, h⟩
    · intro b s'
      cases b with
      | true => exact (ih s').mono (fun r ⟨q, hq, h⟩ => ⟨q, List.mem_cons_of_mem _ hq, h⟩)
      | false => exact .ret false s'

theorem patternsLoop_asks (c : Config) (v : Variant) (pats : List Pattern) :
    ∀ s, AllAsks (fun r => ∃ pat ∈ pats, ∃ p ∈ pat, ∃ svc, identRequest? v p = some (svc, r))
      (patternsLoop c v pats s) := by
  induction pats with
  | nil => intro s; exact .ret false s
  | cons pat rest ih =>
    intro s
    refine AllAsks.bind ((paramsLoop_asks c v pat s).mono ?_) ?_
    · intro r h; exact ⟨pat, List.mem_cons_self .., h⟩
    · intro b s'
      cases b with
      | true => exact .ret true s'
      | false => exact (ih s').mono (fun r ⟨q, hq, h⟩ => ⟨q, List.mem_cons_of_mem _ hq, h⟩)

theorem variantsLoop_asks (c : Config) (cands : List Variant) :
    ∀ i s, AllAsks (IsIdentRequest cands) (variantsLoop c i cands s) := by
  induction cands with
  | nil => intro i s; exact .ret () _
  | cons v rest ih =>
    intro i s
    unfold variantsLoop
    cases hp : v.patterns? with
    | none =>
      dsimp only
      cases c.strict with
      | true => exact .fail .odx s
      | false => exact .ret () _
    | some pats =>
      dsimp only
      refine AllAsks.bind ((patternsLoop_asks c v pats s).mono ?_) ?_
      · intro r h; exact ⟨v, List.mem_cons_self .., by simpa [hp] using h⟩
      · intro b s'
        cases b with
        | true => exact .ret () _
        | false =>
          exact (ih (i + 1) s').mono (fun r ⟨w, hw, h⟩ => ⟨w, List.mem_cons_of_mem _ hw, h⟩)

theorem requestLoop_asks (c : Config) (cands : List Variant) (s : MState) :
    AllAsks (IsIdentRequest cands) (requestLoop c cands s) := by
  unfold requestLoop
  split
  · exact .ret () s
  · exact variantsLoop_asks c cands 0 _



/-! ### a fresh matcher -/

theorem takeWhile_all {α} (p : α → Bool) (l : List α) (h : ∀ x ∈ l, p x = true) : l.takeWhile p = l := by
  induction l with
  | nil => rfl
  | cons a l ih =>
    simp only [List.takeWhile, h a (List.mem_cons_self ..)]
    rw [ih (fun x hx => h x (List.mem_cons_of_mem _ hx))]

theorem runMatcher_eq (c : Config) (cands : List Variant) (ecu : Req → Bytes) :
    runMatcher c cands ecu = (variantsLoop c 0 cands {}).run ecu := by
  simp [runMatcher, requestLoop]

theorem runMatcher_outcome (c : Config) (cands : List Variant) (ecu : Req → Bytes) :
    Outcome (runMatcher c cands ecu) (evalVariants c.strict ecu 0 cands) := by
  rw [runMatcher_eq]
  exact variantsLoop_outcome c ecu cands 0 {} (CacheOk.nil ecu) rfl rfl

theorem runMatcher_sim (c : Config) (cands : List Variant) (ecu : Req → Bytes) :
    Sim c ecu {} (runMatcher c cands ecu) ((evalVariants c.strict ecu 0 cands).map fun _ => ()) := by
  rw [runMatcher_eq]
  exact variantsLoop_sim c ecu cands 0 {} (CacheOk.nil ecu)

theorem Outcome.unique {x y : Run Unit} {r : Except Err (Option Nat)} (hx : Outcome x r) (hy : Outcome y r) :
    x.result = y.result ∧ x.final.state = y.final.state ∧ x.final.matching = y.final.matching := by
  cases r with
  | error e => exact ⟨hx.1.trans hy.1.symm, hx.2.1.trans hy.2.1.symm, hx.2.2.trans hy.2.2.symm⟩
  | ok m =>
    cases m with
    | none => exact ⟨hx.1.trans hy.1.symm, hx.2.1.trans hy.2.1.symm, hx.2.2.trans hy.2.2.symm⟩
    | some i => exact ⟨hx.1.trans hy.1.symm, hx.2.1.trans hy.2.1.symm, hx.2.2.trans hy.2.2.symm⟩

end OdxVerif.Variant
