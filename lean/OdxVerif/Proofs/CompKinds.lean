import OdxVerif.Proofs.CompMux
/-! Compositional components (task W8), further parameter kinds as components:
    VALUE with PHYSICAL-DEFAULT-VALUE (supplied, or omitted and defaulted), PHYS-CONST over a standard-length DOP with the
    identical compu method (supplied or omitted).  What "round trip" means for them: the decoded dictionary has an entry
    for the parameter although none was supplied (`Comp.sup = none`, `Comp.pair.val` = the default / the constant). -/
namespace OdxVerif.Codec
open OdxVerif.Bits OdxVerif.OdxM

/-! ### VALUE parameters with a PHYSICAL-DEFAULT-VALUE -/

/-- an omitted value is replaced by the default -/
theorem encodeParam_default_none (f : Nat) (n : String) (bp bitp : Option Nat) (dop : Dop) (dv : PVal) (s : EncState) (st : Bool) :
    encodeParam f (.mk n bp bitp (.value dop (some dv))) none s st =
      encodeParam f (.mk n bp bitp (.value dop none)) (some dv) s st := by
  cases f with
  | zero => rfl
  | succ f => simp only [encodeParam]

/-- a supplied value wins over the default -/
theorem encodeParam_default_some (f : Nat) (n : String) (bp bitp : Option Nat) (dop : Dop) (dv p : PVal) (s : EncState) (st : Bool) :
    encodeParam f (.mk n bp bitp (.value dop (some dv))) (some p) s st =
      encodeParam f (.mk n bp bitp (.value dop none)) (some p) s st := by
  cases f with
  | zero => rfl
  | succ f => simp only [encodeParam]

/-- the decoder does not look at the default -/
theorem decodeParam_default (f : Nat) (n : String) (bp bitp : Option Nat) (dop : Dop) (dv : Option PVal) (d : DecState) (st : Bool) :
    decodeParam f (.mk n bp bitp (.value dop dv)) d st = decodeParam f (.mk n bp bitp (.value dop none)) d st := by
  cases f with
  | zero => rfl
  | succ f => simp only [decodeParam]

/-- the VALUE parameter of `g` (which has no default and whose value is supplied) with the PHYSICAL-DEFAULT-VALUE `dv`
    added; `omitted`: the value is not supplied (it then must be the default for `g` to describe what is encoded) -/
def Comp.withDefault (g : Comp) (n : String) (bp bitp : Option Nat) (dop : Dop) (dv : PVal) (omitted : Bool) : Comp :=
  { g with param := .mk n bp bitp (.value dop (some dv)), sup := if omitted then none else g.sup }

theorem Comp.withDefault_ok (g : Comp) (hg : g.Ok) (n : String) (bp bitp : Option Nat) (dop : Dop) (dv : PVal) (omitted : Bool)
    (hp : g.param = .mk n bp bitp (.value dop none)) (hom : omitted = true → g.sup = some dv) :
    (g.withDefault n bp bitp dop dv omitted).Ok where
  good := hg.good
  notKey := rfl
  supplied := fun h => by cases h
  sup_ne_none := by
    have := hg.sup_ne_none
    cases omitted <;> simp [Comp.withDefault, this]
  encode_eq := by
    intro fuel hf s heop
    obtain ⟨s', hrun, hcore⟩ := hg.encode_eq fuel hf s heop
    refine ⟨s', ?_, hcore⟩
    rw [hp] at hrun
    have hsome : g.sup.isSome = true := hg.supplied (by rw [hp]; rfl)
    cases omitted with
    | true =>
      rw [hom rfl] at hrun
      simp only [Comp.withDefault, if_true]
      rw [encodeParam_default_none]
      exact hrun
    | false =>
      cases hs : g.sup with
      | none => rw [hs] at hsome; cases hsome
      | some p =>
        rw [hs] at hrun
        simp only [Comp.withDefault, Bool.false_eq_true, if_false, hs]
        rw [encodeParam_default_some]
        exact hrun
  enc_cursor := hg.enc_cursor
  cur_shift := hg.cur_shift
  dec_cursorBit := hg.dec_cursorBit
  dec_msg := hg.dec_msg
  dec_origin := hg.dec_origin
  decode_eq := by
    intro fuel hf d hcb hfit hpre
    have := hg.decode_eq fuel hf d hcb hfit hpre
    rw [hp] at this
    simp only [Comp.withDefault]
    rw [decodeParam_default]
    exact this

theorem Comp.withDefault_endOk (g : Comp) (hg : g.EndOk) (n : String) (bp bitp : Option Nat) (dop : Dop) (dv : PVal) (omitted : Bool) :
    (g.withDefault n bp bitp dop dv omitted).EndOk := ⟨hg.of_end, hg.trivial⟩

/-- VALUE parameter over a standard-length DOP with PHYSICAL-DEFAULT-VALUE `dv`: `sup = some v` → `v` is supplied and
    encoded, `sup = none` → nothing is supplied, the default is encoded and the decoder returns it -/
def Comp.ofObjDefault (o : Obj) (dv : IVal) (sup : Option IVal) : Comp :=
  (Comp.ofObjValue o (sup.getD dv)).withDefault o.name o.bytePos o.bitPos
    (.simple (.std o.bt o.enc o.hl o.bl none false) o.bt .identical) (.atom dv) sup.isNone

theorem Comp.ofObjDefault_ok (o : Obj) (dv : IVal) (sup : Option IVal) (ho : o.ok) (hr : o.inRange (sup.getD dv)) :
    (Comp.ofObjDefault o dv sup).Ok :=
  Comp.withDefault_ok _ (Comp.ofObjValue_ok o _ ho hr) _ _ _ _ _ _ rfl (by
    intro h
    cases sup with
    | none => rfl
    | some v => cases h)

theorem Comp.ofObjDefault_endOk (o : Obj) (dv : IVal) (sup : Option IVal) : (Comp.ofObjDefault o dv sup).EndOk :=
  Comp.withDefault_endOk _ (Comp.ofObjValue_endOk o _) _ _ _ _ _ _

/-! ### PHYS-CONST -/

theorem pvalEq_atom_self (v : IVal) : pvalEq (.atom v) (.atom v) = true := by
  simp [pvalEq]

/-- a PHYS-CONST parameter whose value is omitted or supplied correctly encodes like the VALUE parameter with that value -/
theorem encodeParam_physConst (f : Nat) (n : String) (bp bitp : Option Nat) (dop : Dop) (value : PVal) (pv : Option PVal)
    (hpv : pv = none ∨ ∃ p, pv = some p ∧ pvalEq p value = true) (s : EncState) (st : Bool) :
    encodeParam f (.mk n bp bitp (.physConst dop value)) pv s st =
      encodeParam f (.mk n bp bitp (.value dop none)) (some value) s st := by
  cases f with
  | zero => rfl
  | succ f =>
    rcases hpv with rfl | ⟨p, rfl, hp⟩
    · simp only [encodeParam, bind, pure, run_bind, run_pure]
    · simp only [encodeParam, hp, Bool.not_true, Bool.false_eq_true, if_false, bind, pure, run_bind, run_pure]

/-- one unfolding of `decodeParam` for a PHYS-CONST parameter when the DOP decodes to `x` -/
theorem decodeParam_physConst_of_value (f : Nat) (n : String) (bp bitp : Option Nat) (dop : Dop) (value : PVal) (d : DecState)
    (x : PVal) (d' : DecState) (h : decodeParam f (.mk n bp bitp (.value dop none)) d true = .ok (x, d'))
    (heq : pvalEq x value = true) :
    decodeParam f (.mk n bp bitp (.physConst dop value)) d true = .ok (x, d') := by
  cases f with
  | zero => simp [decodeParam, raise] at h
  | succ f =>
    simp only [decodeParam, bind, pure, run_bind, run_modifyS, run_pure] at h ⊢
    generalize decodeDop f dop _ true = r at h ⊢
    cases r with
    | error e => simp at h
    | ok q =>
      obtain ⟨v, d1⟩ := q
      simp only [Except.ok.injEq, Prod.mk.injEq] at h
      obtain ⟨hv, hd⟩ := h
      subst hv
      simp only [heq, Bool.not_true, Bool.false_eq_true, if_false, run_pure, hd]

/-- PHYS-CONST parameter over a standard-length DOP with the identical compu method and constant `v`; the value may be
    supplied (it must then be the constant) or omitted; the decoder returns the constant (it raises if the wire disagrees:
    `guard`) -/
def Comp.ofObjPhysConst (o : Obj) (v : IVal) (supplied : Bool) : Comp where
  param := .mk o.name o.bytePos o.bitPos (.physConst (.simple (.std o.bt o.enc o.hl o.bl none false) o.bt .identical) (.atom v))
  pair := ((Pair.ofObj o v).guard (· = v)).map PVal.atom
  sup := if supplied then some (.atom v) else none
  need := 2
  cur := fun org c => o.pos org c + o.k

theorem Comp.ofObjPhysConst_ok (o : Obj) (v : IVal) (b : Bool) (ho : o.ok) (hr : o.inRange v) : (Comp.ofObjPhysConst o v b).Ok where
  good := by
    have h1 : Good ((Pair.ofObj o v).guard (· = v)) := (Good.ofObj o ho v hr).guard _ rfl
    exact h1.map _
  notKey := rfl
  supplied := fun h => by cases h
  sup_ne_none := by cases b <;> simp [Comp.ofObjPhysConst]
  encode_eq := by
    intro fuel hf s _
    obtain ⟨f, rfl⟩ : ∃ f, fuel = f + 2 := ⟨fuel - 2, by simp only [Comp.ofObjPhysConst] at hf; omega⟩
    refine ⟨encStep o v s, ?_, SameCore.refl _⟩
    simp only [Comp.ofObjPhysConst]
    rw [encodeParam_physConst _ _ _ _ _ _ _ (by
      cases b
      · left; rfl
      · right; exact ⟨_, rfl, pvalEq_atom_self v⟩)]
    exact encodeParam_obj o ho v hr f s
  enc_cursor := fun _ => rfl
  cur_shift := by
    intro org c p
    simp only [Comp.ofObjPhysConst, Obj.pos_shift]
    omega
  dec_cursorBit := fun _ _ => rfl
  dec_msg := fun _ => rfl
  dec_origin := fun _ => rfl
  decode_eq := by
    intro fuel hf d _ hfit _
    obtain ⟨f, rfl⟩ : ∃ f, fuel = f + 2 := ⟨fuel - 2, by simp only [Comp.ofObjPhysConst] at hf; omega⟩
    have hfit' : o.fitsIn d ∧ (decStep o d).1 = v := hfit
    have h := decodeParam_obj o ho f d hfit'.1.1 hfit'.1.2
    have heq : pvalEq (PVal.atom (decStep o d).1) (PVal.atom v) = true := by rw [hfit'.2]; exact pvalEq_atom_self v
    exact decodeParam_physConst_of_value _ _ _ _ _ _ _ _ _ h heq

theorem Comp.ofObjPhysConst_endOk (o : Obj) (v : IVal) (b : Bool) : (Comp.ofObjPhysConst o v b).EndOk :=
  Comp.endOk_of_plain _ rfl

end OdxVerif.Codec
