import OdxVerif.Proofs.CompKeyLeaves
import OdxVerif.Proofs.CompKeyFreeDec
/-! LENGTH-KEY / PARAM-LENGTH-INFO-TYPE (task W13): the parameters of a structure as a list of *items* — components
    (through the semantic interface `Comp.KOk`: every `Comp.Ok ∧ EndOk` component of the compositional framework that does not
    touch the key dictionaries, `Comp.KeyFree` / `Comp.keyFree_of_noKeys`; nested key structures, `Proofs/CompKeyNest.lean`),
    LENGTH-KEY parameters (through the interface `KeyDop`) and PARAM-LENGTH-INFO-TYPE users — and the refinement of the model's
    two encoding passes and of its decoder:
    * every item is a `Comp` (`KItem.toComp`): a key's pair is the hole of `Proofs/CompKeyBase.lean`, a user's pair the payload;
      so the first pass is the pure encoder `Comps.pair`, a `Good` pair (`KItems.good`);
    * `KItems.encode1`: the model's first loop = that pure encoder, together with what it leaves in `length_keys` and in the
      recorded key positions;  `KItems.encode2`: the model's second loop = `enc2` on the cells of the keys;
    * `KItems.decode_eq`: the model's decoder = the pure decoder, given the items' decoder preconditions (`Comps.decPre`: the
      cell of a key holds its value, the dictionary knows the key of a user, END-OF-PDU conditions of the components);
    * `KItems.decPre_intro`: these preconditions hold on every message that agrees with the result of BOTH passes on the claimed
      bits (the state-passing induction: the rest of the first pass and the second pass are a *framing* continuation). -/
set_option linter.unusedSimpArgs false
set_option linter.unusedVariables false
namespace OdxVerif.Codec
open OdxVerif.Bits OdxVerif.OdxM

/-! ### framing continuations -/

/-- what the rest of an encoding run does to the bits claimed so far: nothing, unless it warns -/
structure Framing (K : EncState → EncState) : Prop where
  warn_mono : ∀ s, s.warn ≤ (K s).warn
  frame : ∀ s, (K s).warn = s.warn → ∀ a, getBit s.used a = true →
    getBit (K s).msg a = getBit s.msg a ∧ getBit (K s).used a = true
  len_mono : ∀ s, s.msg.length ≤ (K s).msg.length

theorem Framing.ofGood {α : Type} {c : Pair α} (h : Good c) : Framing c.enc := ⟨h.warn_mono, h.frame, h.len_mono⟩

theorem Framing.enc2 (cs : List Cell) : Framing (enc2 cs) := ⟨enc2_warn_ge cs, enc2_frame cs, enc2_len cs⟩

theorem Framing.comp {K J : EncState → EncState} (hK : Framing K) (hJ : Framing J) : Framing (fun s => K (J s)) where
  warn_mono := fun s => Nat.le_trans (hJ.warn_mono s) (hK.warn_mono _)
  frame := by
    intro s hw a hu
    have h1 := hJ.warn_mono s
    have h2 := hK.warn_mono (J s)
    have hw' : (K (J s)).warn = s.warn := hw
    obtain ⟨m1, u1⟩ := hJ.frame s (by omega) a hu
    obtain ⟨m2, u2⟩ := hK.frame (J s) (by omega) a u1
    exact ⟨by show getBit (K (J s)).msg a = _; rw [m2, m1], u2⟩
  len_mono := fun s => Nat.le_trans (hJ.len_mono s) (hK.len_mono _)

/-! ### components that leave the key dictionaries alone -/

/-- the component neither reads nor writes `length_keys` / the recorded key positions: no LENGTH-KEY parameter and no
    PARAM-LENGTH-INFO-TYPE object inside -/
structure Comp.KeyFree (g : Comp) : Prop where
  enc_keys : ∀ (fuel : Nat), g.need ≤ fuel → ∀ (s s' : EncState), encodeParam fuel g.param g.sup s true = .ok ((), s') →
    s'.lengthKeys = s.lengthKeys ∧ s'.keyPos = s.keyPos
  dec_keys : ∀ (d : DecState), d.cursorBit = 0 → g.pair.fits d → g.decPre d → (g.pair.dec d).2.lengthKeys = d.lengthKeys

/-- **the syntactic criterion**: a component whose parameter contains no LENGTH-KEY parameter and no PARAM-LENGTH-INFO-TYPE
    diag-coded type (`Param.noKeys`, decidable by evaluation) leaves the key dictionaries alone (`encKeeps` / `decKeeps`) -/
theorem Comp.keyFree_of_noKeys (g : Comp) (hok : g.Ok) (h : g.param.noKeys = true) : g.KeyFree where
  enc_keys := by
    intro fuel _ s s' hrun
    have := ((encKeeps fuel).param s.maps g.param g.sup h).run s true rfl
    rw [hrun] at this
    have h2 : (s'.lengthKeys, s'.keyPos) = (s.lengthKeys, s.keyPos) := this
    exact ⟨(Prod.mk.inj h2).1, (Prod.mk.inj h2).2⟩
  dec_keys := by
    intro d hcb hfit hpre
    have hrun := hok.decode_eq g.need (Nat.le_refl _) d hcb hfit hpre
    have := ((decKeeps g.need).param d.keys g.param h).run d true rfl
    rw [hrun] at this
    exact this

theorem Comp.ofObjValue_keyFree (o : Obj) (v : IVal) (ho : o.ok) (hr : o.inRange v) : (Comp.ofObjValue o v).KeyFree where
  enc_keys := by
    intro fuel hf s s' h
    obtain ⟨f, rfl⟩ : ∃ f, fuel = f + 2 := ⟨fuel - 2, by simp only [Comp.ofObjValue] at hf; omega⟩
    have h' : encodeParam (f + 2) o.toParam (some (.atom v)) s true = .ok ((), s') := h
    rw [encodeParam_obj o ho v hr f s] at h'
    simp only [Except.ok.injEq, Prod.mk.injEq, true_and] at h'
    subst h'
    exact ⟨rfl, rfl⟩
  dec_keys := fun _ _ _ _ => rfl

theorem Comp.ofObjConst_keyFree (o : Obj) (v : IVal) (b : Bool) (ho : o.ok) (hr : o.inRange v) :
    (Comp.ofObjConst o v b).KeyFree where
  enc_keys := by
    intro fuel hf s s' h
    obtain ⟨f, rfl⟩ : ∃ f, fuel = f + 1 := ⟨fuel - 1, by simp only [Comp.ofObjConst] at hf; omega⟩
    have h' : encodeParam (f + 1) (o.toConstParam v) (if b then some (.atom v) else none) s true = .ok ((), s') := h
    rw [encodeParam_const_obj o ho v hr _ (by cases b <;> simp) f s] at h'
    simp only [Except.ok.injEq, Prod.mk.injEq, true_and] at h'
    subst h'
    exact ⟨rfl, rfl⟩
  dec_keys := fun _ _ _ _ => rfl

/-- the decoder half of `Comp.Ok` -/
structure Comp.DecOk (g : Comp) : Prop where
  dec_cursorBit : ∀ (d : DecState), d.cursorBit = 0 → (g.pair.dec d).2.cursorBit = 0
  dec_msg : ∀ (d : DecState), (g.pair.dec d).2.msg = d.msg
  decode_eq : ∀ (fuel : Nat), g.need ≤ fuel → ∀ (d : DecState), d.cursorBit = 0 → g.pair.fits d → g.decPre d →
    decodeParam fuel g.param d true = .ok ((g.pair.dec d).1, (g.pair.dec d).2)

/-- **a component in the presence of keys**, relative to the assignment `W` of final key values: what the items' proofs need of
    a parameter that is neither a LENGTH-KEY nor a user.  `touched`: the names whose recorded key positions it may change.
    Instances: every `Comp.Ok ∧ EndOk ∧ KeyFree` component (`Comp.KOk.ofKeyFree`, `touched = []`) and a nested structure that has
    LENGTH-KEYs of its own (`Comp.kstruct_kok`, `Proofs/CompKeyNest.lean`). -/
structure Comp.KOk (W : String → Option Int) (g : Comp) (touched : List String) : Prop where
  good : Good g.pair
  notKey : g.param.kind.isKey = false
  supplied : g.param.kind.required = true → g.sup.isSome = true
  sup_ne_none : g.sup ≠ some PVal.none
  decOk : g.DecOk
  /-- from any state whose `length_keys` is consistent with `W`: the model's encoder = the pure one, the dictionary stays
      consistent and only grows, recorded positions change at most at `touched` -/
  enc_step : ∀ (fuel : Nat), g.need ≤ fuel → ∀ (s : EncState), (g.eopOnly = true → s.isEndOfPdu = true) →
    (∀ n x, lookup n s.lengthKeys = some x → W n = some x) →
    ∃ s1, encodeParam fuel g.param g.sup s true = .ok ((), s1) ∧ SameCore s1 (g.pair.enc s) ∧
      (∀ n x, lookup n s1.lengthKeys = some x → W n = some x) ∧
      (∀ n x, lookup n s.lengthKeys = some x → lookup n s1.lengthKeys = some x) ∧
      (∀ n, n ∉ touched → lookup n s1.keyPos = lookup n s.keyPos)
  /-- the decoder keeps what the dictionary says consistently with `W` -/
  dec_keys : ∀ (d : DecState), d.cursorBit = 0 → g.pair.fits d → g.decPre d →
    ∀ n, lookup n d.lengthKeys = W n → lookup n (g.pair.dec d).2.lengthKeys = W n
  /-- its decoder precondition holds on every message that agrees with the result of the rest of the run (a framing
      continuation `K`) on the claimed bits -/
  pre_intro : ∀ (K : EncState → EncState), Framing K → ∀ (s : EncState) (d : DecState), AllBytes s.msg →
    (K (g.pair.enc s)).warn = s.warn → d.origin = s.origin → d.cursorByte = s.cursorByte → d.cursorBit = 0 → AllBytes d.msg →
    (K (g.pair.enc s)).msg.length ≤ d.msg.length →
    (∀ a, getBit (K (g.pair.enc s)).used a = true → getBit d.msg a = getBit (K (g.pair.enc s)).msg a) →
    (g.eopOnly = true → (g.pair.dec d).2.cursorByte = d.msg.length) → g.decPre d

theorem Comp.KOk.ofKeyFree (W : String → Option Int) (g : Comp) (hok : g.Ok) (hend : g.EndOk) (hkf : g.KeyFree) : g.KOk W [] where
  good := hok.good
  notKey := hok.notKey
  supplied := hok.supplied
  sup_ne_none := hok.sup_ne_none
  decOk := ⟨hok.dec_cursorBit, hok.dec_msg, hok.decode_eq⟩
  enc_step := by
    intro fuel hf s heop hinv
    obtain ⟨s1, hrun, hc1⟩ := hok.encode_eq fuel hf s heop
    obtain ⟨hk1, hk2⟩ := hkf.enc_keys fuel hf _ _ hrun
    refine ⟨s1, hrun, hc1, ?_, ?_, ?_⟩
    · intro n x h; rw [hk1] at h; exact hinv n x h
    · intro n x h; rw [hk1]; exact h
    · intro n _; rw [hk2]
  dec_keys := by
    intro d hcb hfit hpre n h
    rw [hkf.dec_keys d hcb hfit hpre]; exact h
  pre_intro := by
    intro K _ s d _ _ _ _ _ _ _ _ heop
    cases he : g.eopOnly with
    | false => exact hend.trivial he d
    | true => exact hend.of_end d (heop he)

/-! ### items -/

/-- a parameter of a structure with LENGTH-KEYs -/
inductive KItem where
  | comp (g : Comp) (touched : List String)       -- a component (`Comp.KOk W g touched`)
  | key (kd : Dop) (o : Obj) (v i : Int) (supplied : Bool)   -- LENGTH-KEY with DOP `kd` over the unsigned object `o` (`KeyDop kd o v i`);
                                                  -- final value `v`, coded `i`; specified by the caller?
  | user (u : PLUser)                             -- VALUE parameter over a PARAM-LENGTH-INFO-TYPE DOP: byte field / string payload
  | ouser (o : Obj) (v : IVal) (key : String)     -- VALUE parameter over a PARAM-LENGTH-INFO-TYPE DOP: the object `o` of `W key` ≥ 1 bits

def KItem.toComp : KItem → Comp
  | .comp g _ => g
  | .key kd o v i sup =>
    { param := o.toKeyParamD kd, pair := Pair.hole o v, sup := if sup then some (.atom (.int v)) else none, need := 2,
      cur := fun org c => o.pos org c + o.k,
      decPre := fun d => (decStep o d).1 = .int i }
  | .user u =>
    { param := u.toParam, pair := u.pair, sup := some (.atom u.v), need := 2,
      cur := fun org c => posOf u.bytePos org c + u.raw.length,
      decPre := fun d => lookup u.key d.lengthKeys = some u.bits }
  | .ouser o v ky =>
    { param := o.toPLParam ky, pair := (Pair.ofObj o v).map PVal.atom, sup := some (.atom v), need := 2,
      cur := fun org c => o.pos org c + o.k,
      decPre := fun d => lookup ky d.lengthKeys = some (o.bl : Int) }

def KItem.ok (W : String → Option Int) : KItem → Prop
  | .comp g nm => g.KOk W nm
  | .key kd o v i _ => KeyDop kd o v i
  | .user u => u.ok
  | .ouser o v _ => o.ok ∧ o.inRange v

/-- the names whose recorded key positions the item changes -/
def KItem.touches : KItem → List String
  | .comp _ nm => nm
  | .key _ o _ _ _ => [o.name]
  | _ => []

/-- a key's name is not touched by any LATER item (sibling names are distinct anyway; this is about the keys INSIDE later
    components: the recorded positions are global to the PDU) -/
def KItems.apart : List KItem → Prop
  | [] => True
  | .key _ o _ _ _ :: rest => (∀ it ∈ rest, o.name ∉ it.touches) ∧ KItems.apart rest
  | _ :: rest => KItems.apart rest

variable {W : String → Option Int}

/-- the key an item refers to and the number of bits it needs it to say -/
def KItem.ref : KItem → Option (String × Int)
  | .user u => some (u.key, u.bits)
  | .ouser o _ ky => some (ky, (o.bl : Int))
  | _ => none

def KItems.comps (its : List KItem) : List Comp := its.map KItem.toComp

theorem KItems.comps_cons (it : KItem) (its : List KItem) : KItems.comps (it :: its) = it.toComp :: KItems.comps its := rfl

/-- the keys and their users are consistent with the assignment `W` of final values: a key's final value is `W` of its name;
    a user refers to a key that is listed BEFORE it (`seen`) and needs `W key` bits; an object user whose length is not
    what the encoder would derive from its value (`plDerived`: e.g. a 16-bit A_UINT32 holding 5) refers to a key that is
    `known` when the encoder reaches it — specified by the caller or already derived for an earlier user -/
def KItems.refsOk (W : String → Option Int) : List String → List String → List KItem → Prop
  | _, _, [] => True
  | seen, known, .comp _ _ :: rest => KItems.refsOk W seen known rest
  | seen, known, .key _ o v _ sup :: rest =>
    W o.name = some v ∧ KItems.refsOk W (o.name :: seen) (if sup then o.name :: known else known) rest
  | seen, known, .user u :: rest => u.key ∈ seen ∧ W u.key = some u.bits ∧ KItems.refsOk W seen (u.key :: known) rest
  | seen, known, .ouser o v key :: rest =>
    key ∈ seen ∧ W key = some (o.bl : Int) ∧ (key ∈ known ∨ plDerived o.bt v = some (o.bl : Int)) ∧
    KItems.refsOk W seen (key :: known) rest

/-- a key that the caller does not specify is the key of some user (otherwise the encoder has no value for it) -/
def KItems.covered (its : List KItem) : Prop :=
  ∀ kd o v i, KItem.key kd o v i false ∈ its → ∃ it ∈ its, ∃ b, it.ref = some (o.name, b)

theorem KItems.refsOk_key (W : String → Option Int) : (seen known : List String) → (its : List KItem) →
    KItems.refsOk W seen known its → ∀ kd o v i b, KItem.key kd o v i b ∈ its → W o.name = some v
  | _, _, [], _, _, _, _, _, _, h => by cases h
  | seen, known, .comp g nm :: rest, hr, kd, o, v, i, b, h => by
    cases h with
    | tail _ hm => exact KItems.refsOk_key W seen known rest hr kd o v i b hm
  | seen, known, .key kd' o' v' i' b' :: rest, hr, kd, o, v, i, b, h => by
    cases h with
    | head => exact hr.1
    | tail _ hm => exact KItems.refsOk_key W _ _ rest hr.2 kd o v i b hm
  | seen, known, .user u :: rest, hr, kd, o, v, i, b, h => by
    cases h with
    | tail _ hm => exact KItems.refsOk_key W seen _ rest hr.2.2 kd o v i b hm
  | seen, known, .ouser o' v' k' :: rest, hr, kd, o, v, i, b, h => by
    cases h with
    | tail _ hm => exact KItems.refsOk_key W seen _ rest hr.2.2.2 kd o v i b hm

theorem KItems.refsOk_ref (W : String → Option Int) : (seen known : List String) → (its : List KItem) →
    KItems.refsOk W seen known its → ∀ it ∈ its, ∀ k b, it.ref = some (k, b) → W k = some b
  | _, _, [], _, _, h, _, _, _ => by cases h
  | seen, known, .comp g nm :: rest, hr, it, h, k, b, hk => by
    cases h with
    | head => cases hk
    | tail _ hm => exact KItems.refsOk_ref W seen known rest hr it hm k b hk
  | seen, known, .key kd' o' v' i' b' :: rest, hr, it, h, k, b, hk => by
    cases h with
    | head => cases hk
    | tail _ hm => exact KItems.refsOk_ref W _ _ rest hr.2 it hm k b hk
  | seen, known, .user u' :: rest, hr, it, h, k, b, hk => by
    cases h with
    | head =>
      simp only [KItem.ref, Option.some.injEq, Prod.mk.injEq] at hk
      rw [← hk.1, ← hk.2]; exact hr.2.1
    | tail _ hm => exact KItems.refsOk_ref W seen _ rest hr.2.2 it hm k b hk
  | seen, known, .ouser o' v' k' :: rest, hr, it, h, k, b, hk => by
    cases h with
    | head =>
      simp only [KItem.ref, Option.some.injEq, Prod.mk.injEq] at hk
      rw [← hk.1, ← hk.2]; exact hr.2.1
    | tail _ hm => exact KItems.refsOk_ref W seen _ rest hr.2.2.2 it hm k b hk

/-! ### every item's pair composes -/

theorem KItem.good (it : KItem) (h : it.ok W) : Good it.toComp.pair := by
  cases it with
  | comp g nm => exact h.good
  | key kd o v i b => exact Good.hole o v
  | user u => exact u.good h
  | ouser o v key => exact (Good.ofObj o h.1 v h.2).map _

theorem KItems.good : (its : List KItem) → (∀ it ∈ its, it.ok W) → Good (Comps.pair (KItems.comps its))
  | [], _ => Good.nil _
  | it :: its, h =>
    ((it.good (h it (List.mem_cons_self ..))).seq (KItems.good its (fun x hx => h x (List.mem_cons_of_mem _ hx)))).map _

theorem KItem.eopOnly_of_not_comp (it : KItem) (h : ∀ g nm, it ≠ .comp g nm) : it.toComp.eopOnly = false := by
  cases it with
  | comp g nm => exact absurd rfl (h g nm)
  | key kd o v i b => rfl
  | user u => rfl
  | ouser o v key => rfl

/-! ### the cells of the keys: where the first pass leaves the holes -/

def KItem.cell : KItem → EncState → List Cell
  | .key _ o _ i _, s => [(o, i, o.pos s.origin s.cursorByte)]
  | _, _ => []

def KItems.cells : List KItem → EncState → List Cell
  | [], _ => []
  | it :: rest, s => it.cell s ++ KItems.cells rest (it.toComp.pair.enc s)

theorem KItem.cell_sameCore (it : KItem) (s t : EncState) (h : SameCore s t) : it.cell s = it.cell t := by
  cases it with
  | comp g nm => rfl
  | key kd o v i b => simp only [KItem.cell, h.2.2.2.1, h.2.2.2.2]
  | user u => rfl
  | ouser o v key => rfl

theorem KItems.cells_sameCore : (its : List KItem) → (∀ it ∈ its, it.ok W) → ∀ (s t : EncState), SameCore s t →
    KItems.cells its s = KItems.cells its t
  | [], _, _, _, _ => rfl
  | it :: rest, hok, s, t, h => by
    simp only [KItems.cells]
    rw [it.cell_sameCore s t h, KItems.cells_sameCore rest (fun x hx => hok x (List.mem_cons_of_mem _ hx)) _ _
      ((it.good (hok it (List.mem_cons_self ..))).core s t h)]

theorem KItems.cells_ok : (its : List KItem) → (∀ it ∈ its, it.ok W) → ∀ (s : EncState), ∀ c ∈ KItems.cells its s, c.ok
  | [], _, _, c, hc => by cases hc
  | it :: rest, hok, s, c, hc => by
    simp only [KItems.cells, List.mem_append] at hc
    rcases hc with hc | hc
    · cases it with
      | comp g nm => cases hc
      | user u => cases hc
      | ouser o v key => cases hc
      | key kd o v i b =>
        simp only [KItem.cell, List.mem_singleton] at hc
        subst hc
        have : KeyDop kd o v i := hok _ (List.mem_cons_self ..)
        exact ⟨this.obj.1.2, this.obj.2⟩
    · exact KItems.cells_ok rest (fun x hx => hok x (List.mem_cons_of_mem _ hx)) _ c hc

/-- the cells as the second pass finds them: the positions come from the recorded dictionary -/
def KItems.cells2 (KP : List (String × Nat)) : List KItem → List Cell
  | [] => []
  | .key _ o _ i _ :: rest => (o, i, (lookup o.name KP).getD 0) :: KItems.cells2 KP rest
  | _ :: rest => KItems.cells2 KP rest

theorem KItems.cells2_eq (KP : List (String × Nat)) : (its : List KItem) → (s : EncState) →
    (∀ c ∈ KItems.cells its s, lookup c.1.name KP = some c.2.2) → KItems.cells2 KP its = KItems.cells its s
  | [], _, _ => rfl
  | .comp g nm :: rest, s, h => by
    simp only [KItems.cells2, KItems.cells, KItem.cell, List.nil_append]
    exact KItems.cells2_eq KP rest _ (fun c hc => h c (by simp only [KItems.cells, KItem.cell, List.nil_append]; exact hc))
  | .user u :: rest, s, h => by
    simp only [KItems.cells2, KItems.cells, KItem.cell, List.nil_append]
    exact KItems.cells2_eq KP rest _ (fun c hc => h c (by simp only [KItems.cells, KItem.cell, List.nil_append]; exact hc))
  | .ouser o v key :: rest, s, h => by
    simp only [KItems.cells2, KItems.cells, KItem.cell, List.nil_append]
    exact KItems.cells2_eq KP rest _ (fun c hc => h c (by simp only [KItems.cells, KItem.cell, List.nil_append]; exact hc))
  | .key kd o v i b :: rest, s, h => by
    have h0 := h (o, i, o.pos s.origin s.cursorByte) (by simp [KItems.cells, KItem.cell])
    simp only [KItems.cells2, KItems.cells, KItem.cell, List.singleton_append, h0, Option.getD_some]
    rw [KItems.cells2_eq KP rest _ (fun c hc => h c (by simp only [KItems.cells, KItem.cell, List.singleton_append]; exact List.mem_cons_of_mem _ hc))]

/-! ### what is supplied for the items -/

theorem KItem.supOk (it : KItem) (h : it.ok W) :
    (it.toComp.param.kind.required = true → it.toComp.sup.isSome = true) ∧ it.toComp.sup ≠ some PVal.none := by
  cases it with
  | comp g nm => exact ⟨h.supplied, h.sup_ne_none⟩
  | key kd o v i b => cases b <;> simp [KItem.toComp, Obj.toKeyParamD, Param.kind, PKind.required]
  | user u => simp [KItem.toComp]
  | ouser o v key => simp [KItem.toComp]

theorem KItems.lookupV_values (its : List KItem) (hok : ∀ it ∈ its, it.ok W) (hn : Comps.namesOk (KItems.comps its))
    (g : Comp) (hg : g ∈ KItems.comps its) :
    lookupV g.name (Comps.values (KItems.comps its)) = g.sup ∧
    (g.param.kind.required = true → (lookup g.name (Comps.values (KItems.comps its))).isNone = false) := by
  have hl := Comps.lookup_values _ hn g hg
  obtain ⟨it, hit, rfl⟩ := List.mem_map.mp hg
  obtain ⟨h1, h2⟩ := it.supOk (hok it hit)
  constructor
  · unfold lookupV
    rw [hl]
    cases hv : it.toComp.sup with
    | none => rfl
    | some v => cases v <;> simp_all
  · intro hr
    rw [hl]
    have := h1 hr
    cases hv : it.toComp.sup <;> simp_all

/-! ### the first pass -/

/-- one step of the first encoding loop for a LENGTH-KEY parameter -/
theorem encodeParams_cons_key (eop : Bool) (values : List (String × PVal)) (f : Nat) (o : Obj) (kd : Dop) (rest : List Param)
    (s : EncState) :
    encodeParams eop values (f + 1) (o.toKeyParamD kd :: rest) s true =
      (match encodeKeyPlaceholder o.name o.bytePos o.bitPos kd (lookupV o.name values)
          (if rest.isEmpty then { s with isEndOfPdu := eop } else s) true with
       | .ok (_, s1) => encodeParams eop values f rest s1 true
       | .error e => .error e) := by
  simp only [Obj.toKeyParamD, encodeParams, bind]
  by_cases hre : rest.isEmpty = true
  · simp only [hre, if_true, run_bind, run_modifyS]
    generalize encodeKeyPlaceholder _ _ _ _ _ _ true = r
    cases r with
    | error e => rfl
    | ok q => cases q; rfl
  · have hre' : rest.isEmpty = false := by simpa using hre
    simp only [hre', Bool.false_eq_true, if_false, run_bind, pure, run_pure]
    generalize encodeKeyPlaceholder _ _ _ _ _ _ true = r
    cases r with
    | error e => rfl
    | ok q => cases q; rfl

/-- what the first pass establishes -/
structure Pass1 (W : String → Option Int) (its : List KItem) (s s' : EncState) : Prop where
  core : SameCore s' ((Comps.pair (KItems.comps its)).enc s)
  cursorBit : s.cursorBit = 0 → s'.cursorBit = 0
  inv : ∀ n x, lookup n s'.lengthKeys = some x → W n = some x
  mono : ∀ n x, lookup n s.lengthKeys = some x → lookup n s'.lengthKeys = some x
  supplied : ∀ kd o v i, KItem.key kd o v i true ∈ its → lookup o.name s'.lengthKeys = some v
  used : ∀ it ∈ its, ∀ k b, it.ref = some (k, b) → lookup k s'.lengthKeys = some b
  pos : ∀ c ∈ KItems.cells its s, lookup c.1.name s'.keyPos = some c.2.2
  posOther : ∀ n, (∀ it ∈ its, n ∉ it.touches) → lookup n s'.keyPos = lookup n s.keyPos

theorem eopState_sameCore (b : Bool) (eop : Bool) (s : EncState) :
    SameCore (if b then { s with isEndOfPdu := eop } else s) s := by
  split
  · exact ⟨rfl, rfl, rfl, rfl, rfl⟩
  · exact SameCore.refl s

theorem eopState_fields (b : Bool) (eop : Bool) (s : EncState) :
    (if b then { s with isEndOfPdu := eop } else s).lengthKeys = s.lengthKeys ∧
    (if b then { s with isEndOfPdu := eop } else s).keyPos = s.keyPos ∧
    (if b then { s with isEndOfPdu := eop } else s).cursorBit = s.cursorBit := by
  split <;> exact ⟨rfl, rfl, rfl⟩

/-- **the first loop of `composite_codec_encode_into_pdu` on a list of items** = the pure encoder of the list (holes for the
    keys), and the dictionaries it leaves behind -/
theorem KItems.encode1 (W : String → Option Int) : (its : List KItem) → (∀ it ∈ its, it.ok W) →
    Comps.eopLast (KItems.comps its) → KItems.apart its → ∀ (seen known : List String),
    KItems.refsOk W seen known its → ∀ (values : List (String × PVal)),
    (∀ g ∈ KItems.comps its, lookupV g.name values = g.sup ∧ (g.param.kind.required = true → (lookup g.name values).isNone = false)) →
    ∀ (fuel : Nat), Comps.need (KItems.comps its) ≤ fuel → ∀ (eop : Bool), (Comps.anyEop (KItems.comps its) = true → eop = true) →
    ∀ (s : EncState), (∀ n x, lookup n s.lengthKeys = some x → W n = some x) →
    (∀ n ∈ known, (lookup n s.lengthKeys).isSome = true) →
    ∃ s', encodeParams eop values fuel (Comps.toParams (KItems.comps its)) s true = .ok ((), s') ∧ Pass1 W its s s'
  | [], _, _, _, _, _, _, values, _, fuel, hf, eop, _, s, hinv, _ => by
    simp only [KItems.comps, List.map_nil, Comps.need] at hf
    obtain ⟨f, rfl⟩ : ∃ f, fuel = f + 1 := ⟨fuel - 1, by omega⟩
    refine ⟨s, by simp [KItems.comps, Comps.toParams, encodeParams, pure, run_pure], ?_⟩
    exact ⟨SameCore.refl _, id, hinv, fun _ _ h => h, fun _ _ _ _ h => (by cases h), fun _ h => (by cases h),
      fun _ h => (by cases h), fun _ _ => rfl⟩
  | it :: its, hok, hlast, hap, seen, known, hrefs, values, hlook, fuel, hf, eop, heop, s, hinv, hknown => by
    have hokit := hok it (List.mem_cons_self ..)
    have hokr : ∀ x ∈ its, x.ok W := fun x hx => hok x (List.mem_cons_of_mem _ hx)
    have hapr : KItems.apart its := by cases it <;> first | exact hap | exact hap.2
    rw [KItems.comps_cons] at hlast hlook hf heop
    simp only [Comps.need] at hf
    obtain ⟨f, rfl⟩ : ∃ f, fuel = f + 1 := ⟨fuel - 1, by omega⟩
    obtain ⟨hl, hreq⟩ := hlook it.toComp (List.mem_cons_self ..)
    have hlastr := Comps.eopLast_tail _ _ hlast
    have hlookr : ∀ g ∈ KItems.comps its, lookupV g.name values = g.sup ∧
        (g.param.kind.required = true → (lookup g.name values).isNone = false) :=
      fun g hg => hlook g (List.mem_cons_of_mem _ hg)
    have heopr : Comps.anyEop (KItems.comps its) = true → eop = true :=
      fun h => heop (by simp only [Comps.anyEop, List.any_cons] at h ⊢; simp [h])
    have hemp : (Comps.toParams (KItems.comps its)).isEmpty = (KItems.comps its).isEmpty := by
      simp only [Comps.toParams]; cases (KItems.comps its) <;> rfl
    have hsm := eopState_sameCore (KItems.comps its).isEmpty eop s
    obtain ⟨hsmL, hsmK, hsmB⟩ := eopState_fields (KItems.comps its).isEmpty eop s
    have hsmE : (KItems.comps its).isEmpty = true → eop = true →
        (if (KItems.comps its).isEmpty then { s with isEndOfPdu := eop } else s).isEndOfPdu = true := by
      intro h1 h2; simp [h1, h2]
    generalize hsmdef : (if (KItems.comps its).isEmpty then { s with isEndOfPdu := eop } else s) = sm at hsm hsmL hsmK hsmB hsmE
    have hgood := it.good hokit
    have hgoodr := KItems.good its hokr
    -- the step of the head item: the state behind it, and what it does to the dictionaries
    have hstep : ∃ s1 seen' known', encodeParams eop values (f + 1) (Comps.toParams (it.toComp :: KItems.comps its)) s true =
          encodeParams eop values f (Comps.toParams (KItems.comps its)) s1 true ∧
        SameCore s1 (it.toComp.pair.enc s) ∧ (s.cursorBit = 0 → s1.cursorBit = 0) ∧
        (∀ n x, lookup n s1.lengthKeys = some x → W n = some x) ∧
        (∀ n x, lookup n s.lengthKeys = some x → lookup n s1.lengthKeys = some x) ∧
        (∀ kd o v i, it = KItem.key kd o v i true → lookup o.name s1.lengthKeys = some v) ∧
        (∀ k b, it.ref = some (k, b) → lookup k s1.lengthKeys = some b) ∧
        (∀ c ∈ it.cell s, lookup c.1.name s1.keyPos = some c.2.2) ∧
        (∀ n, n ∉ it.touches → lookup n s1.keyPos = lookup n s.keyPos) ∧
        KItems.refsOk W seen' known' its ∧ (∀ n ∈ known', (lookup n s1.lengthKeys).isSome = true) := by
      cases it with
      | comp g nm =>
        have hgok : g.KOk W nm := hokit
        have hsmEop : g.eopOnly = true → sm.isEndOfPdu = true := by
          intro he
          cases hc : KItems.comps its with
          | nil =>
            have : eop = true := heop (by simp [Comps.anyEop, KItem.toComp, he])
            exact hsmE (by rw [hc]; rfl) this
          | cons g2 rest2 =>
            rw [hc] at hlast
            have := hlast.1
            simp only [KItem.toComp] at this
            rw [this] at he; cases he
        obtain ⟨s1, hrun, hc1, hi1, hm1, hp1⟩ := hgok.enc_step f (by simp only [KItem.toComp] at hf; omega) sm hsmEop
          (by intro n x h; rw [hsmL] at h; exact hinv n x h)
        have hcb1 : s1.cursorBit = 0 := encodeParam_cursorBit _ _ _ _ _ _ hrun
        refine ⟨s1, seen, known, ?_, hc1.trans (hgok.good.core _ _ hsm), fun _ => hcb1, ?_, ?_, fun _ _ _ _ h => (by cases h),
          fun _ _ h => (by cases h), fun _ h => (by cases h), ?_, hrefs, ?_⟩
        · simp only [Comps.toParams, List.map_cons, KItem.toComp]
          rw [encodeParams_cons_nonkey eop values f g.param hgok.notKey _ s hreq]
          have hemp' : (List.map Comp.param (KItems.comps its)).isEmpty = (KItems.comps its).isEmpty := hemp
          have hl' : lookupV g.param.name values = g.sup := hl
          rw [hemp', hsmdef, hl', hrun]
        · exact hi1
        · intro n x h; exact hm1 n x (by rw [hsmL]; exact h)
        · intro n hn; rw [hp1 n hn, hsmK]
        · intro n hn
          have := hknown n hn
          cases hl : lookup n s.lengthKeys with
          | none => rw [hl] at this; cases this
          | some x => rw [hm1 n x (by rw [hsmL]; exact hl)]; rfl
      | user u =>
        have huok : u.ok := hokit
        obtain ⟨hin, hW, hrefs'⟩ := hrefs
        have hk : lookup u.key s.lengthKeys = none ∨ lookup u.key s.lengthKeys = some u.bits := by
          cases hlk : lookup u.key s.lengthKeys with
          | none => exact Or.inl rfl
          | some x =>
            have := hinv _ _ hlk
            rw [hW] at this
            exact Or.inr (by rw [Option.some.inj this])
        obtain ⟨f2, rfl⟩ : ∃ f2, f = f2 + 2 := ⟨f - 2, by simp only [KItem.toComp] at hf; omega⟩
        have hk' : lookup u.key sm.lengthKeys = none ∨ lookup u.key sm.lengthKeys = some u.bits := by
          rw [hsmL]; exact hk
        have hrun := u.encodeParam_eq huok f2 sm hk'
        have hnk : u.toParam.kind.isKey = false := rfl
        -- the dictionary behind the user
        have hafter : ∀ n, lookup n (u.keysAfter s.lengthKeys) =
            if n = u.key then some u.bits else lookup n s.lengthKeys := by
          intro n
          unfold PLUser.keysAfter
          rcases hk with hk | hk
          · rw [hk]
            by_cases hne : n = u.key
            · subst hne; simp [lookup_insertKV_self]
            · simp [hne, lookup_insertKV_ne _ _ _ _ hne]
          · rw [hk]
            by_cases hne : n = u.key
            · subst hne; simp [hk]
            · simp [hne]
        refine ⟨{ (Pair.bytesAt u.raw).enc { sm with cursorByte := posOf u.bytePos sm.origin sm.cursorByte, cursorBit := 0,
                                                     lengthKeys := u.keysAfter sm.lengthKeys } with cursorBit := 0 },
          seen, u.key :: known, ?_, ?_, ?_, ?_, ?_, fun _ _ _ _ h => (by cases h), ?_, fun _ h => (by cases h), ?_, hrefs', ?_⟩
        · simp only [Comps.toParams, List.map_cons, KItem.toComp]
          rw [encodeParams_cons_nonkey eop values (f2 + 2) u.toParam hnk _ s hreq]
          have hemp' : (List.map Comp.param (KItems.comps its)).isEmpty = (KItems.comps its).isEmpty := hemp
          have hl' : lookupV u.toParam.name values = some (.atom u.v) := hl
          rw [hemp', hsmdef, hl', hrun]
        · -- SameCore with the payload at the parameter's position
          have hgb := Good.bytesAt u.raw huok.1.1
          have h1 : SameCore
              { sm with cursorByte := posOf u.bytePos sm.origin sm.cursorByte, cursorBit := 0,
                        lengthKeys := u.keysAfter sm.lengthKeys }
              { s with cursorByte := posOf u.bytePos s.origin s.cursorByte } := by
            obtain ⟨a1, a2, a3, a4, a5⟩ := hsm
            exact ⟨a1, a2, a3, by simp only; rw [a4, a5], a5⟩
          have h2 := hgb.core _ _ h1
          exact ⟨h2.1, h2.2.1, h2.2.2.1, h2.2.2.2.1, h2.2.2.2.2⟩
        · intro _; rfl
        · intro n x h
          simp only [bytesAt_enc_lengthKeys, hsmL] at h
          rw [hafter n] at h
          by_cases hne : n = u.key
          · subst hne
            simp only [if_true, Option.some.injEq] at h
            rw [← h]; exact hW
          · simp only [hne, if_false] at h; exact hinv n x h
        · intro n x h
          simp only [bytesAt_enc_lengthKeys, hsmL]
          rw [hafter n]
          by_cases hne : n = u.key
          · subst hne
            simp only [if_true]
            have := hinv _ _ h
            rw [hW] at this
            exact this
          · simp only [hne, if_false]; exact h
        · intro k b hkb
          simp only [KItem.ref, Option.some.injEq, Prod.mk.injEq] at hkb
          rw [← hkb.1, ← hkb.2]
          simp only [bytesAt_enc_lengthKeys, hsmL]
          rw [hafter]; simp
        · intro n _
          simp only [bytesAt_enc_keyPos, hsmK]
        · intro n hn
          simp only [bytesAt_enc_lengthKeys, hsmL]
          rw [hafter n]
          by_cases hne : n = u.key
          · simp [hne]
          · simp only [hne, if_false]
            cases hn with
            | head => exact absurd rfl hne
            | tail _ hm => exact hknown n hm
      | ouser o v key =>
        obtain ⟨hook, hor⟩ := hokit
        obtain ⟨hin, hW, hder, hrefs'⟩ := hrefs
        have hk : lookup key s.lengthKeys = some (o.bl : Int) ∨
            (lookup key s.lengthKeys = none ∧ plDerived o.bt v = some (o.bl : Int)) := by
          cases hlk : lookup key s.lengthKeys with
          | none =>
            rcases hder with hkn | hd
            · have := hknown key hkn
              rw [hlk] at this; cases this
            · exact Or.inr ⟨rfl, hd⟩
          | some x =>
            have := hinv _ _ hlk
            rw [hW] at this
            exact Or.inl (by rw [Option.some.inj this])
        obtain ⟨f2, rfl⟩ : ∃ f2, f = f2 + 2 := ⟨f - 2, by simp only [KItem.toComp] at hf; omega⟩
        have hk' : lookup key sm.lengthKeys = some (o.bl : Int) ∨
            (lookup key sm.lengthKeys = none ∧ plDerived o.bt v = some (o.bl : Int)) := by
          rw [hsmL]; exact hk
        have hrun := o.encodeParam_pl hook v hor key f2 sm hk'
        have hnk : (o.toPLParam key).kind.isKey = false := rfl
        have hafter : ∀ n, lookup n (keysAfterObj key o.bl s.lengthKeys) =
            if n = key then some (o.bl : Int) else lookup n s.lengthKeys := by
          intro n
          unfold keysAfterObj
          rcases hk with hk | ⟨hk, _⟩
          · rw [hk]
            by_cases hne : n = key
            · subst hne; simp [hk]
            · simp [hne]
          · rw [hk]
            by_cases hne : n = key
            · subst hne; simp [lookup_insertKV_self]
            · simp [hne, lookup_insertKV_ne _ _ _ _ hne]
        refine ⟨encStep o v { sm with lengthKeys := keysAfterObj key o.bl sm.lengthKeys },
          seen, key :: known, ?_, ?_, ?_, ?_, ?_, fun _ _ _ _ h => (by cases h), ?_, fun _ h => (by cases h), ?_, hrefs', ?_⟩
        · simp only [Comps.toParams, List.map_cons, KItem.toComp]
          rw [encodeParams_cons_nonkey eop values (f2 + 2) (o.toPLParam key) hnk _ s hreq]
          have hemp' : (List.map Comp.param (KItems.comps its)).isEmpty = (KItems.comps its).isEmpty := hemp
          have hl' : lookupV (o.toPLParam key).name values = some (.atom v) := hl
          rw [hemp', hsmdef, hl', hrun]
        · exact encStep_sameCore o v _ _ ⟨hsm.1, hsm.2.1, hsm.2.2.1, hsm.2.2.2.1, hsm.2.2.2.2⟩
        · intro _; rfl
        · intro n x h
          simp only [encStep_lengthKeys, hsmL] at h
          rw [hafter n] at h
          by_cases hne : n = key
          · subst hne
            simp only [if_true, Option.some.injEq] at h
            rw [← h]; exact hW
          · simp only [hne, if_false] at h; exact hinv n x h
        · intro n x h
          simp only [encStep_lengthKeys, hsmL]
          rw [hafter n]
          by_cases hne : n = key
          · subst hne
            simp only [if_true]
            have := hinv _ _ h
            rw [hW] at this
            exact this
          · simp only [hne, if_false]; exact h
        · intro k b hkb
          simp only [KItem.ref, Option.some.injEq, Prod.mk.injEq] at hkb
          rw [← hkb.1, ← hkb.2]
          simp only [encStep_lengthKeys, hsmL]
          rw [hafter]; simp
        · intro n _
          simp only [encStep_keyPos, hsmK]
        · intro n hn
          simp only [encStep_lengthKeys, hsmL]
          rw [hafter n]
          by_cases hne : n = key
          · simp [hne]
          · simp only [hne, if_false]
            cases hn with
            | head => exact absurd rfl hne
            | tail _ hm => exact hknown n hm
      | key kd o v i b =>
        have hkd : KeyDop kd o v i := hokit
        obtain ⟨hW, hrefs'⟩ := hrefs
        have hk : lookup o.name s.lengthKeys = none ∨ lookup o.name s.lengthKeys = some v := by
          cases hlk : lookup o.name s.lengthKeys with
          | none => exact Or.inl rfl
          | some x =>
            have := hinv _ _ hlk
            rw [hW] at this
            exact Or.inr (by rw [Option.some.inj this])
        have hcore : SameCore (holeStep o sm) (holeStep o s) := holeStep_sameCore o _ _ hsm
        have hpos : o.pos sm.origin sm.cursorByte = o.pos s.origin s.cursorByte := by
          rw [hsm.2.2.2.1, hsm.2.2.2.2]
        have hl' : lookupV o.name values = if b then some (.atom (.int v)) else none := hl
        have hemp' : (List.map Comp.param (KItems.comps its)).isEmpty = (KItems.comps its).isEmpty := hemp
        cases b with
        | false =>
          simp only [Bool.false_eq_true, if_false] at hl'
          refine ⟨{ holeStep o sm with keyPos := insertKV o.name (o.pos sm.origin sm.cursorByte) sm.keyPos },
            o.name :: seen, known, ?_, ?_, ?_, ?_, ?_, fun _ _ _ _ h => (by cases h), fun _ _ h => (by cases h), ?_, ?_, hrefs', ?_⟩
          · simp only [Comps.toParams, List.map_cons, KItem.toComp]
            rw [encodeParams_cons_key, hemp', hsmdef, hl', hkd.placeholder_none]
          · exact ⟨hcore.1, hcore.2.1, hcore.2.2.1, hcore.2.2.2.1, hcore.2.2.2.2⟩
          · intro _; rfl
          · intro n x h
            simp only [holeStep_lengthKeys, hsmL] at h
            exact hinv n x h
          · intro n x h
            simp only [holeStep_lengthKeys, hsmL]
            exact h
          · intro c hc
            simp only [KItem.cell, List.mem_singleton] at hc
            subst hc
            simp only [hpos, lookup_insertKV_self]
          · intro n hne
            have : n ≠ o.name := fun e => hne (by simp [KItem.touches, e])
            simp only [lookup_insertKV_ne _ _ _ _ this, holeStep_keyPos, hsmK]
          · intro n hn
            simp only [holeStep_lengthKeys, hsmL]
            exact hknown n hn
        | true =>
          simp only [if_true] at hl'
          have hk' : lookup o.name sm.lengthKeys = none ∨ lookup o.name sm.lengthKeys = some v := by
            rw [hsmL]; exact hk
          refine ⟨{ holeStep o sm with keyPos := insertKV o.name (o.pos sm.origin sm.cursorByte) sm.keyPos,
                                       lengthKeys := insertKV o.name v sm.lengthKeys },
            o.name :: seen, o.name :: known, ?_, ?_, ?_, ?_, ?_, ?_, fun _ _ h => (by cases h), ?_, ?_, hrefs', ?_⟩
          · simp only [Comps.toParams, List.map_cons, KItem.toComp]
            rw [encodeParams_cons_key, hemp', hsmdef, hl', hkd.placeholder_some _ hk']
          · exact ⟨hcore.1, hcore.2.1, hcore.2.2.1, hcore.2.2.2.1, hcore.2.2.2.2⟩
          · intro _; rfl
          · intro n x h
            simp only [hsmL] at h
            by_cases hne : n = o.name
            · subst hne
              rw [lookup_insertKV_self] at h
              rw [← Option.some.inj h]; exact hW
            · rw [lookup_insertKV_ne _ _ _ _ hne] at h
              exact hinv n x h
          · intro n x h
            simp only [hsmL]
            by_cases hne : n = o.name
            · subst hne
              rw [lookup_insertKV_self]
              have := hinv _ _ h
              rw [hW] at this
              exact this
            · rw [lookup_insertKV_ne _ _ _ _ hne]; exact h
          · intro kd' o' v' i' h
            cases h
            simp only [lookup_insertKV_self]
          · intro c hc
            simp only [KItem.cell, List.mem_singleton] at hc
            subst hc
            simp only [hpos, lookup_insertKV_self]
          · intro n hne
            have : n ≠ o.name := fun e => hne (by simp [KItem.touches, e])
            simp only [lookup_insertKV_ne _ _ _ _ this, holeStep_keyPos, hsmK]
          · intro n hn
            simp only [hsmL]
            by_cases hne : n = o.name
            · subst hne; rw [lookup_insertKV_self]; rfl
            · rw [lookup_insertKV_ne _ _ _ _ hne]
              cases hn with
              | head => exact absurd rfl hne
              | tail _ hm => exact hknown n hm
    obtain ⟨s1, seen', known', hrun1, hc1, hcb1, hinv1, hmono1, hsup1, huse1, hpos1, hoth1, hrefs1, hknown1⟩ := hstep
    obtain ⟨s2, hrun2, hp2⟩ := KItems.encode1 W its hokr hlastr hapr seen' known' hrefs1 values hlookr f (by omega) eop heopr s1
      hinv1 hknown1
    refine ⟨s2, by rw [KItems.comps_cons, hrun1]; exact hrun2, ?_⟩
    have hcells : KItems.cells its s1 = KItems.cells its (it.toComp.pair.enc s) := KItems.cells_sameCore its hokr _ _ hc1
    refine ⟨?_, fun h => hp2.cursorBit (hcb1 h), hp2.inv, fun n x h => hp2.mono n x (hmono1 n x h), ?_, ?_, ?_, ?_⟩
    · simp only [KItems.comps_cons, Comps.pair, Pair.map, Pair.seq]
      exact hp2.core.trans (hgoodr.core _ _ hc1)
    · intro kd o v i hm
      cases hm with
      | head => exact hp2.mono _ _ (hsup1 kd o v i rfl)
      | tail _ hm => exact hp2.supplied kd o v i hm
    · intro it' hm k b hkb
      cases hm with
      | head => exact hp2.mono _ _ (huse1 k b hkb)
      | tail _ hm => exact hp2.used it' hm k b hkb
    · intro c hc
      simp only [KItems.cells, List.mem_append] at hc
      rcases hc with hc | hc
      · have h1 := hpos1 c hc
        -- the head is a key; the rest does not touch its position
        cases it with
        | comp g nm => cases hc
        | user u => cases hc
        | ouser o v key => cases hc
        | key kd o v i b =>
          simp only [KItem.cell, List.mem_singleton] at hc
          rw [hp2.posOther c.1.name (by
            intro it' hm
            subst hc
            exact hap.1 it' hm)]
          exact h1
      · rw [← hcells] at hc
        exact hp2.pos c hc
    · intro n hne
      rw [hp2.posOther n (fun it' hm => hne it' (List.mem_cons_of_mem _ hm))]
      exact hoth1 n (hne it (List.mem_cons_self ..))

/-! ### the second pass -/

theorem encodeKeyValues_cons_nonkey (p : Param) (hp : p.kind.isKey = false) (f : Nat) (rest : List Param) (s : EncState)
    (st : Bool) : encodeKeyValues (f + 1) (p :: rest) s st = encodeKeyValues f rest s st := by
  obtain ⟨name, bp, bitp, kind⟩ := p
  cases kind with
  | lengthKey dop => simp [Param.kind, PKind.isKey] at hp
  | _ => simp only [encodeKeyValues]

theorem cellStep_lengthKeys (c : Cell) (s : EncState) : (cellStep c s).lengthKeys = s.lengthKeys := rfl
theorem cellStep_keyPos (c : Cell) (s : EncState) : (cellStep c s).keyPos = s.keyPos := rfl

theorem encodeKeyValues_cons_key {kd : Dop} {o : Obj} {v i : Int} (hkd : KeyDop kd o v i) (pos : Nat) (f : Nat)
    (rest : List Param) (s : EncState) (hl : lookup o.name s.lengthKeys = some v) (hp : lookup o.name s.keyPos = some pos) :
    encodeKeyValues (f + 2) (o.toKeyParamD kd :: rest) s true = encodeKeyValues (f + 1) rest (cellStep (o, i, pos) s) true := by
  have hrun := hkd.enc f pos s
  have hrep := hkd.repr s
  simp only [Obj.toKeyParamD, encodeKeyValues, bind, run_bind, run_getS, hl, hp, hrep, pure, run_pure, run_modifyS]
  rw [hrun]

/-- **the second loop of `composite_codec_encode_into_pdu`** = `enc2` on the keys' cells, taken from the recorded positions -/
theorem KItems.encode2 : (its : List KItem) → (∀ it ∈ its, it.ok W) → ∀ (fuel : Nat), Comps.need (KItems.comps its) ≤ fuel →
    ∀ (s : EncState),
    (∀ kd o v i b, KItem.key kd o v i b ∈ its → lookup o.name s.lengthKeys = some v ∧ (lookup o.name s.keyPos).isSome = true) →
    encodeKeyValues fuel (Comps.toParams (KItems.comps its)) s true = .ok ((), enc2 (KItems.cells2 s.keyPos its) s)
  | [], _, fuel, hf, s, _ => by
    simp only [KItems.comps, List.map_nil, Comps.need] at hf
    obtain ⟨f, rfl⟩ : ∃ f, fuel = f + 1 := ⟨fuel - 1, by omega⟩
    simp [KItems.comps, Comps.toParams, encodeKeyValues, pure, run_pure, KItems.cells2, enc2]
  | it :: its, hok, fuel, hf, s, hkeys => by
    have hokit := hok it (List.mem_cons_self ..)
    have hokr : ∀ x ∈ its, x.ok W := fun x hx => hok x (List.mem_cons_of_mem _ hx)
    rw [KItems.comps_cons] at hf
    simp only [Comps.need] at hf
    have hkeysr : ∀ kd o v i b, KItem.key kd o v i b ∈ its →
        lookup o.name s.lengthKeys = some v ∧ (lookup o.name s.keyPos).isSome = true :=
      fun kd o v i b hm => hkeys kd o v i b (List.mem_cons_of_mem _ hm)
    simp only [KItems.comps_cons, Comps.toParams, List.map_cons]
    cases it with
    | comp g nm =>
      obtain ⟨f, rfl⟩ : ∃ f, fuel = f + 1 := ⟨fuel - 1, by omega⟩
      simp only [KItem.toComp]
      rw [encodeKeyValues_cons_nonkey g.param (Comp.KOk.notKey hokit) f]
      exact KItems.encode2 its hokr f (by omega) s hkeysr
    | user u =>
      obtain ⟨f, rfl⟩ : ∃ f, fuel = f + 1 := ⟨fuel - 1, by omega⟩
      simp only [KItem.toComp]
      rw [encodeKeyValues_cons_nonkey u.toParam (by rfl) f]
      exact KItems.encode2 its hokr f (by omega) s hkeysr
    | ouser o v key =>
      obtain ⟨f, rfl⟩ : ∃ f, fuel = f + 1 := ⟨fuel - 1, by omega⟩
      simp only [KItem.toComp]
      rw [encodeKeyValues_cons_nonkey (o.toPLParam key) (by rfl) f]
      exact KItems.encode2 its hokr f (by omega) s hkeysr
    | key kd o v i b =>
      obtain ⟨f, rfl⟩ : ∃ f, fuel = f + 2 := ⟨fuel - 2, by simp only [KItem.toComp] at hf; omega⟩
      obtain ⟨h1, h2⟩ := hkeys kd o v i b (List.mem_cons_self ..)
      obtain ⟨pos, hpos⟩ := Option.isSome_iff_exists.mp h2
      simp only [KItem.toComp]
      rw [encodeKeyValues_cons_key (show KeyDop kd o v i from hokit) pos f _ s h1 hpos]
      have := KItems.encode2 its hokr (f + 1) (by simp only [KItem.toComp] at hf; omega) (cellStep (o, i, pos) s) hkeysr
      simp only [Comps.toParams] at this
      rw [this]
      simp only [KItems.cells2, hpos, Option.getD_some, enc2, cellStep_keyPos]

/-! ### the decoder -/

theorem KItem.decOk (it : KItem) (h : it.ok W) : it.toComp.DecOk := by
  cases it with
  | comp g nm => exact Comp.KOk.decOk h
  | key kd o v i b =>
    refine ⟨fun _ _ => rfl, fun _ => rfl, ?_⟩
    intro fuel hf d _ hfit hpre
    obtain ⟨f, rfl⟩ : ∃ f, fuel = f + 2 := ⟨fuel - 2, by simp only [KItem.toComp] at hf; omega⟩
    exact KeyDop.decodeParam_eq (show KeyDop kd o v i from h) f d hfit hpre
  | user u =>
    refine ⟨fun _ _ => rfl, fun _ => rfl, ?_⟩
    intro fuel hf d _ hfit hpre
    obtain ⟨f, rfl⟩ : ∃ f, fuel = f + 2 := ⟨fuel - 2, by simp only [KItem.toComp] at hf; omega⟩
    exact u.decodeParam_eq h f d hfit hpre
  | ouser o v key =>
    refine ⟨fun _ _ => rfl, fun _ => rfl, ?_⟩
    intro fuel hf d _ hfit hpre
    obtain ⟨f, rfl⟩ : ∃ f, fuel = f + 2 := ⟨fuel - 2, by simp only [KItem.toComp] at hf; omega⟩
    exact o.decodeParam_pl h.1 key f d hfit.1 hfit.2 hpre

theorem KItems.dec_cursorBit : (its : List KItem) → (∀ it ∈ its, it.ok W) → ∀ (d : DecState), d.cursorBit = 0 →
    ((Comps.pair (KItems.comps its)).dec d).2.cursorBit = 0
  | [], _, _, h => h
  | it :: its, hok, d, h => by
    simp only [KItems.comps_cons, Comps.pair, Pair.map, Pair.seq]
    exact KItems.dec_cursorBit its (fun x hx => hok x (List.mem_cons_of_mem _ hx)) _
      ((it.decOk (hok it (List.mem_cons_self ..))).dec_cursorBit d h)

/-- **the model's decoder on a list of items** = the pure decoder, given the items' decoder preconditions -/
theorem KItems.decode_eq : (its : List KItem) → (∀ it ∈ its, it.ok W) → ∀ (fuel : Nat), Comps.need (KItems.comps its) ≤ fuel →
    ∀ (d : DecState), d.cursorBit = 0 → (Comps.pair (KItems.comps its)).fits d → Comps.decPre (KItems.comps its) d →
    decodeParams fuel (Comps.toParams (KItems.comps its)) d true =
      .ok (((Comps.pair (KItems.comps its)).dec d).1, ((Comps.pair (KItems.comps its)).dec d).2)
  | [], _, fuel, hf, d, _, _, _ => by
    simp only [KItems.comps, List.map_nil, Comps.need] at hf
    obtain ⟨f, rfl⟩ : ∃ f, fuel = f + 1 := ⟨fuel - 1, by omega⟩
    simp [KItems.comps, Comps.toParams, decodeParams, pure, run_pure, Comps.pair, Pair.nil]
  | it :: its, hok, fuel, hf, d, hcb, hfit, hpre => by
    have hd := it.decOk (hok it (List.mem_cons_self ..))
    rw [KItems.comps_cons] at hf hfit hpre
    simp only [Comps.need] at hf
    obtain ⟨f, rfl⟩ : ∃ f, fuel = f + 1 := ⟨fuel - 1, by omega⟩
    have hfit' : it.toComp.pair.fits d ∧ (Comps.pair (KItems.comps its)).fits (it.toComp.pair.dec d).2 := hfit
    have h1 := hd.decode_eq f (by omega) d hcb hfit'.1 hpre.1
    have h2 := KItems.decode_eq its (fun x hx => hok x (List.mem_cons_of_mem _ hx)) f (by omega) (it.toComp.pair.dec d).2
      (hd.dec_cursorBit d hcb) hfit'.2 hpre.2
    have h2' : decodeParams f (List.map Comp.param (KItems.comps its)) (it.toComp.pair.dec d).2 true = _ := h2
    simp only [KItems.comps_cons, Comps.toParams, List.map_cons, decodeParams, bind, run_bind, h1, h2', pure, run_pure]
    rfl

end OdxVerif.Codec
