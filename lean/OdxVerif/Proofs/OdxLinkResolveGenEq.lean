import OdxVerif.Gen.OdxLinkResolve
import OdxVerif.Proofs.PyRt
/-! # The generated `OdxLinkDatabase.resolve` / `resolve_lenient` equal the hand-written `resolve` / `resolveLenient`

    `Gen/OdxLinkResolve.lean` is regenerated from `odxtools/odxlink.py` by `harness/extract/py2lean.py` (a loop over
    `reversed(ref.ref_docs)` with `continue`, an assignment expression in an `if` test, `odxassert(isinstance(…))`, an early
    `return`, `odxraise(…, KeyError)`); `dict.get` is the model's `dget`, `isinstance` the model's `Obj.isInst`. The rendering
    is the strict mode of `odxtools.exceptions`, so the equations are with the model at `strict := true`. -/
namespace OdxVerif.OdxLink
open OdxVerif Py

/-- the exception classes of the hand-written model as Python exceptions of the rendering -/
def errOfLink : OdxLink.Err → Py.Err
  | .key => .keyError
  | .odx => .odxError

@[simp] theorem unwrapAttr_some {α : Type} (a : α) : unwrapAttr (some a) = pure a := rfl

set_option linter.unusedSimpArgs false in
theorem gen_resolve_eq (db : Db) (r : Ref) (exp : Option String) :
    Gen.resolveE db r exp = Py.call errOfLink (resolve db r exp true) := by
  unfold Gen.resolveE resolve
  dsimp only
  generalize r.docs.reverse = l
  induction l with
  | nil => simp [findIn, Py.call, errOfLink] <;> rfl
  | cons f fs ih =>
    cases hd : dget db f with
    | none => simpa [List.forIn_cons, findIn, hd, py_rt] using ih
    | some fd =>
      cases ho : dget fd r.refId with
      | none => simpa [List.forIn_cons, findIn, hd, ho, py_rt] using ih
      | some o =>
        cases exp with
        | none => simp [List.forIn_cons, findIn, hd, ho, py_rt, typed, Obj.isInst, Py.call] <;> rfl
        | some c =>
          by_cases hc : c ∈ o.classes <;>
            simp [List.forIn_cons, findIn, hd, ho, py_rt, typed, Obj.isInst, Py.call, errOfLink, hc] <;> rfl

set_option linter.unusedSimpArgs false in
theorem gen_resolveLenient_eq (db : Db) (r : Ref) (exp : Option String) :
    Gen.resolveLenientE db r exp = Py.call errOfLink (resolveLenient db r exp true) := by
  unfold Gen.resolveLenientE resolveLenient
  dsimp only
  generalize r.docs.reverse = l
  induction l with
  | nil => simp [findIn, Py.call, errOfLink] <;> rfl
  | cons f fs ih =>
    cases hd : dget db f with
    | none => simpa [List.forIn_cons, findIn, hd, py_rt] using ih
    | some fd =>
      cases ho : dget fd r.refId with
      | none => simpa [List.forIn_cons, findIn, hd, ho, py_rt] using ih
      | some o =>
        cases exp with
        | none => simp [List.forIn_cons, findIn, hd, ho, py_rt, typed, Obj.isInst, Py.call] <;> rfl
        | some c =>
          by_cases hc : c ∈ o.classes <;>
            simp [List.forIn_cons, findIn, hd, ho, py_rt, typed, Obj.isInst, Py.call, errOfLink, hc] <;> rfl

set_option linter.unusedSimpArgs false in
/-- `resolve_snref`: the candidate list (a list comprehension with a condition), the three `odxraise` branches (the last one
    behind a short-circuit `and` whose second operand indexes the list) and `return candidates[0]` -/
theorem gen_resolveSnref_eq (name : String) (items : List Obj) (exp : Option String) :
    Gen.resolveSnrefE name items exp = Py.call errOfLink (resolveSnref name items exp true) := by
  unfold Gen.resolveSnrefE resolveSnref
  dsimp only
  rcases hf : items.filter (fun x => decide (x.name = name)) with _ | ⟨c, _ | ⟨c2, rest⟩⟩
  · simp [hf, Py.call, errOfLink] <;> rfl
  · cases exp with
    | none => simp [hf, py_rt, Py.getItem, typed, Obj.isInst, Py.call] <;> rfl
    | some t =>
      by_cases hc : t ∈ c.classes <;>
        simp [hf, py_rt, Py.getItem, typed, Obj.isInst, Py.call, errOfLink, hc] <;> rfl
  · simp [hf, Py.call, errOfLink] <;> rfl

end OdxVerif.OdxLink
