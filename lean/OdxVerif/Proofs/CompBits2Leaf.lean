import OdxVerif.Proofs.CompBits2
/-! Bit-exactness for the round-6 constructors (task W17), part 2: the footprints of the primitive encoders —
    the old ones relabelled (`Foot2.obj`, `.padTo`, `.touch`), `emplace_bytes(t)` (`rawStep`: terminator, request echo),
    the byte payload (`Pair.bytesAt`), the MIN-MAX-LENGTH / LEADING-LENGTH leaves, MATCHING-REQUEST-PARAM, and the SILENT padding
    of a STRUCTURE with BYTE-SIZE (`Foot2.sizePad`, `foot2_structBS`). -/
namespace OdxVerif.Codec
open OdxVerif.Bits OdxVerif.OdxM

/-! ### the old primitives -/

/-- one leaf object at its positional-rule position, under the name `name` -/
def Lay2.obj (role : Role2) (name : String) (o : Obj) (raw : Nat) : Lay2 where
  ents := fun org c => [⟨role, name, o.pos org c, o.k, o.hl, o.bp, o.bl, raw⟩]
  cur := fun org c => o.pos org c + o.k
  ext := fun org c => o.pos org c + o.k

theorem Foot2.obj (role : Role2) (name : String) (o : Obj) (v : IVal) (ho : o.ok) (hr : o.inRange v) :
    Foot2 (encStep o v) (Lay2.obj role name o (o.specRepr v)) :=
  (foot_leaf .value o v ho hr).to2 _ (fun _ _ => rfl) (fun _ _ => rfl) (fun _ _ => rfl)

/-- `m` zero bytes from byte `p` -/
def Ent2.pad (role : Role2) (p m : Nat) : Ent2 := ⟨role, "", p, m, true, 0, 8 * m, 0⟩

def Lay2.padTo (n : Nat) : Lay2 where
  ents := fun org c => if c < org + n then [Ent2.pad .itemPadding c (org + n - c)] else []
  cur := fun org _ => org + n
  ext := fun org c => if c < org + n then org + n else 0

theorem Foot2.padTo (n : Nat) : Foot2 (Pair.padTo n).enc (Lay2.padTo n) :=
  (Foot.padTo n).to2 _ (fun org c => by simp only [Lay2.E, Lay2.padTo, Lay.padTo]; split <;> rfl) (fun _ _ => rfl) (fun _ _ => rfl)

def Lay2.touch : Lay2 := { ents := fun _ _ => [], cur := fun _ c => c, ext := fun _ c => c }

theorem Foot2.touch : Foot2 Pair.touch.enc Lay2.touch := Foot.touch.to2 _ (fun _ _ => rfl) (fun _ _ => rfl) (fun _ _ => rfl)

/-- the items behind OFFSET of a dynamic-length field -/
def Lay2.dynBody (isEmpty : Bool) (l : Lay2) : Lay2 := if isEmpty then Lay2.touch else l

/-- a skipped object -/
def Lay2.skip (o : Obj) : Lay2 where
  ents := fun _ _ => []
  cur := fun org c => o.pos org c + o.k
  ext := fun org c => o.pos org c + o.k

/-! ### `emplace_bytes(t)` -/

theorem rawStep_getBit_msg (t : Bytes) (s : EncState) (a : Nat) :
    getBit (rawStep t s).msg a =
      if s.cursorByte ≤ a / 8 ∧ a / 8 < s.cursorByte + t.length then (t.getD (a / 8 - s.cursorByte) 0).testBit (a % 8)
      else getBit s.msg a := by
  have hlenm : s.cursorByte ≤ (padTo s.msg (s.cursorByte + t.length)).length := by rw [padTo_length]; omega
  unfold getBit
  simp only [rawStep]
  split
  · rename_i hin
    rw [getD_splice_inside_at (padTo s.msg (s.cursorByte + t.length)) t s.cursorByte (a / 8) hlenm hin.1 hin.2]
  · rename_i hout
    have := getD_splice_outside (padTo s.msg (s.cursorByte + t.length)) t s.cursorByte (a / 8)
      (by by_cases h : a / 8 < s.cursorByte
          · exact Or.inl ⟨h, by omega⟩
          · exact Or.inr ⟨by omega, hlenm⟩)
    rw [this, getD_padTo]

theorem rawStep_U_length (t : Bytes) (s : EncState) (h : UsedOk s) :
    (s.used ++ List.replicate ((padTo s.msg (s.cursorByte + t.length)).length - s.msg.length) 0).length =
      max s.msg.length (s.cursorByte + t.length) := by
  simp only [List.length_append, List.length_replicate, padTo_length, h.1]
  omega

theorem rawStep_getBit_used (t : Bytes) (s : EncState) (h : UsedOk s) (a : Nat) :
    getBit (rawStep t s).used a = if s.cursorByte ≤ a / 8 ∧ a / 8 < s.cursorByte + t.length then true else getBit s.used a := by
  have hU := rawStep_U_length t s h
  unfold getBit
  simp only [rawStep]
  split
  · rename_i hin
    have := getD_splice_inside_at (s.used ++ List.replicate ((padTo s.msg (s.cursorByte + t.length)).length - s.msg.length) 0)
      (List.replicate t.length 255) s.cursorByte (a / 8) (by rw [hU]; omega) hin.1 (by rw [List.length_replicate]; exact hin.2)
    rw [List.length_replicate] at this
    rw [this, getD_replicate_in t.length 255 _ (by omega)]
    have h8 : a % 8 < 8 := Nat.mod_lt _ (by decide)
    rw [show (255 : Nat) = 2 ^ 8 - 1 from rfl, Nat.testBit_two_pow_sub_one]
    simp [h8]
  · rename_i hout
    have := getD_splice_outside (s.used ++ List.replicate ((padTo s.msg (s.cursorByte + t.length)).length - s.msg.length) 0)
      (List.replicate t.length 255) s.cursorByte (a / 8)
      (by rw [List.length_replicate]
          by_cases h' : a / 8 < s.cursorByte
          · exact Or.inl ⟨h', by rw [hU]; omega⟩
          · exact Or.inr ⟨by omega, by rw [hU]; omega⟩)
    rw [List.length_replicate] at this
    rw [this, getD_append_zeros]

theorem rawStep_usedOk (t : Bytes) (s : EncState) (h : UsedOk s) : UsedOk (rawStep t s) := by
  have hU := rawStep_U_length t s h
  constructor
  · rw [rawStep_length]
    simp only [rawStep, List.length_append, List.length_take, List.length_replicate, List.length_drop, hU]
    omega
  · have hUall : AllBytes (s.used ++ List.replicate ((padTo s.msg (s.cursorByte + t.length)).length - s.msg.length) 0) :=
      allBytes_append _ _ h.2 (allBytes_replicate_zero _)
    simp only [rawStep]
    refine allBytes_append _ _ (allBytes_append _ _ (fun x hx => hUall x (List.mem_of_mem_take hx)) ?_)
      (fun x hx => hUall x (List.mem_of_mem_drop hx))
    intro x hx
    rw [List.mem_replicate] at hx
    omega

/-- `emplace_bytes(t)` raises no overlap warning ⇔ none of its bytes was claimed -/
theorem rawStep_nowarn_iff (t : Bytes) (s : EncState) (h : UsedOk s) :
    (rawStep t s).warn = s.warn ↔ ∀ a, (s.cursorByte ≤ a / 8 ∧ a / 8 < s.cursorByte + t.length) → getBit s.used a = false := by
  have hU := rawStep_U_length t s h
  have hw : (rawStep t s).warn = s.warn + (if (((s.used ++ List.replicate ((padTo s.msg (s.cursorByte + t.length)).length - s.msg.length) 0).drop
      s.cursorByte).take t.length).any (· ≠ 0) then 1 else 0) := rfl
  have hbyte : ∀ i, i < t.length → (((s.used ++ List.replicate ((padTo s.msg (s.cursorByte + t.length)).length - s.msg.length) 0).drop
      s.cursorByte).take t.length).getD i 0 = s.used.getD (s.cursorByte + i) 0 := by
    intro i hi
    rw [getD_take_drop' _ _ _ _ hi, getD_append_zeros]
  have hlen : (((s.used ++ List.replicate ((padTo s.msg (s.cursorByte + t.length)).length - s.msg.length) 0).drop
      s.cursorByte).take t.length).length = t.length := by
    rw [List.length_take, List.length_drop, hU]; omega
  constructor
  · intro hnw a hin
    have hany : (((s.used ++ List.replicate ((padTo s.msg (s.cursorByte + t.length)).length - s.msg.length) 0).drop
        s.cursorByte).take t.length).any (· ≠ 0) = false := by
      cases hh : (((s.used ++ List.replicate ((padTo s.msg (s.cursorByte + t.length)).length - s.msg.length) 0).drop
        s.cursorByte).take t.length).any (· ≠ 0) with
      | false => rfl
      | true => rw [hw, hh] at hnw; simp at hnw
    rw [List.any_eq_false] at hany
    have hi : a / 8 - s.cursorByte < t.length := by omega
    have hb := hbyte (a / 8 - s.cursorByte) hi
    rw [show s.cursorByte + (a / 8 - s.cursorByte) = a / 8 by omega] at hb
    have hmem : (((s.used ++ List.replicate ((padTo s.msg (s.cursorByte + t.length)).length - s.msg.length) 0).drop
        s.cursorByte).take t.length).getD (a / 8 - s.cursorByte) 0 ∈ (((s.used ++ List.replicate ((padTo s.msg (s.cursorByte + t.length)).length - s.msg.length) 0).drop
        s.cursorByte).take t.length) := by
      rw [List.getD_eq_getElem?_getD, List.getElem?_eq_getElem (by rw [hlen]; exact hi)]
      exact List.getElem_mem _
    have h0 := hany _ hmem
    rw [hb] at h0
    unfold getBit
    have : s.used.getD (a / 8) 0 = 0 := by simpa using h0
    rw [this]
    simp
  · intro hfree
    have hany : (((s.used ++ List.replicate ((padTo s.msg (s.cursorByte + t.length)).length - s.msg.length) 0).drop
        s.cursorByte).take t.length).any (· ≠ 0) = false := by
      rw [List.any_eq_false]
      intro x hx
      obtain ⟨i, hi, hxi⟩ := List.getElem_of_mem hx
      rw [hlen] at hi
      have hb := hbyte i hi
      rw [List.getD_eq_getElem?_getD, List.getElem?_eq_getElem (by rw [hlen]; exact hi), hxi] at hb
      simp only [Option.getD_some] at hb
      have hx256 : x < 256 := by
        have hUall : AllBytes (s.used ++ List.replicate ((padTo s.msg (s.cursorByte + t.length)).length - s.msg.length) 0) :=
          allBytes_append _ _ h.2 (allBytes_replicate_zero _)
        exact hUall x (List.mem_of_mem_drop (List.mem_of_mem_take hx))
      have : x = 0 := by
        apply byte_zero_of_bits x hx256
        intro j hj
        have := hfree (8 * (s.cursorByte + i) + j) (by omega)
        unfold getBit at this
        rw [show (8 * (s.cursorByte + i) + j) / 8 = s.cursorByte + i by omega,
          show (8 * (s.cursorByte + i) + j) % 8 = j by omega, ← hb] at this
        exact this
      simp [this]
    rw [hw, hany]
    simp

/-- the byte string `t` from byte `p`, as one big-endian number -/
def Ent.bytes (p : Nat) (t : Bytes) : Ent := ⟨.value, "", p, t.length, true, 0, 8 * t.length, ofBytesBE t⟩

theorem Ent.bytes_claims (p : Nat) (t : Bytes) (a : Nat) : (Ent.bytes p t).claims a ↔ (p ≤ a / 8 ∧ a / 8 < p + t.length) :=
  Ent.pad_claims p t.length a

/-- `emplace_bytes(t)` at the cursor: one entry (claiming nothing if `t` is empty) -/
def Lay.raw1 (t : Bytes) : Lay where
  ents := fun _ c => [Ent.bytes c t]
  cur := fun _ c => c + t.length
  ext := fun _ c => c + t.length

theorem Foot.raw1 (t : Bytes) (ht : AllBytes t) : Foot (rawStep t) (Lay.raw1 t) where
  cursor := fun _ => rfl
  origin := fun _ => rfl
  warn_mono := rawStep_warn_ge t
  inv := rawStep_usedOk t
  inside := by
    intro s _ _ e he j hj
    simp only [Lay.raw1, List.mem_cons, List.mem_nil_iff, or_false] at he
    subst he
    have hj' : j < 8 * t.length := hj
    have hc : (Ent.bytes s.cursorByte t).claims ((Ent.bytes s.cursorByte t).abs j) := ⟨j, hj, rfl⟩
    rw [rawStep_getBit_msg, if_pos ((Ent.bytes_claims _ _ _).mp hc)]
    show _ = (ofBytesBE t).testBit j
    rw [testBit_ofBytesBE t ht j]
    have habs : (Ent.bytes s.cursorByte t).abs j = 8 * (s.cursorByte + (t.length - 1 - j / 8)) + j % 8 := by
      show absBit s.cursorByte t.length true (j + 0) = _
      unfold absBit
      simp only [if_true, Nat.add_zero]
    rw [habs, show (8 * (s.cursorByte + (t.length - 1 - j / 8)) + j % 8) / 8 = s.cursorByte + (t.length - 1 - j / 8) by omega,
      show (8 * (s.cursorByte + (t.length - 1 - j / 8)) + j % 8) % 8 = j % 8 by omega,
      show s.cursorByte + (t.length - 1 - j / 8) - s.cursorByte = t.length - 1 - j / 8 by omega]
    simp [hj']
  outside := by
    intro s a hno
    rw [rawStep_getBit_msg, if_neg]
    intro hin
    exact hno ((LClaims_single _ a).mpr ((Ent.bytes_claims _ _ _).mpr hin))
  used_iff := by
    intro s hu a
    show _ ↔ (_ ∨ LClaims [Ent.bytes s.cursorByte t] a)
    rw [rawStep_getBit_used t s hu, LClaims_single, Ent.bytes_claims]
    by_cases hin : s.cursorByte ≤ a / 8 ∧ a / 8 < s.cursorByte + t.length
    · simp [hin]
    · simp [hin]
  nowarn_iff := by
    intro s hu
    show _ ↔ (LDisj [Ent.bytes s.cursorByte t] ∧ LFree s.used [Ent.bytes s.cursorByte t])
    rw [rawStep_nowarn_iff t s hu, LFree_single]
    constructor
    · intro h
      exact ⟨LDisj_single _, fun a hc => h a ((Ent.bytes_claims _ _ _).mp hc)⟩
    · intro h a hin
      exact h.2 a ((Ent.bytes_claims _ _ _).mpr hin)
  length := rawStep_length t
  within := by
    intro org c e he
    simp only [Lay.raw1, List.mem_cons, List.mem_nil_iff, or_false] at he
    subst he
    exact ⟨Ent.pad_wf c t.length, Nat.le_refl _⟩

def Ent2.bytes (role : Role2) (name : String) (p : Nat) (t : Bytes) : Ent2 :=
  ⟨role, name, p, t.length, true, 0, 8 * t.length, ofBytesBE t⟩

/-- a byte string at the cursor — `role`: `value` (payload), `terminator`, `echo`; no entry for the empty string -/
def Lay2.bytes (role : Role2) (name : String) (t : Bytes) : Lay2 where
  ents := fun _ c => if t = [] then [] else [Ent2.bytes role name c t]
  cur := fun _ c => c + t.length
  ext := fun _ c => c + t.length

theorem rawStep_nil : rawStep [] = Pair.touch.enc := rfl

theorem Foot2.rawBytes (role : Role2) (name : String) (t : Bytes) (ht : AllBytes t) :
    Foot2 (rawStep t) (Lay2.bytes role name t) := by
  by_cases hne : t = []
  · subst hne
    rw [rawStep_nil]
    exact Foot.touch.to2 _ (fun _ _ => rfl) (fun _ _ => rfl) (fun _ _ => rfl)
  · exact (Foot.raw1 t ht).to2 _ (fun _ _ => by simp only [Lay2.E, Lay2.bytes, if_neg hne]; rfl) (fun _ _ => rfl) (fun _ _ => rfl)

theorem bytesObj_specRepr (bs : Bytes) : (bytesObj bs.length).specRepr (.bytes bs) = ofBytesBE bs := by
  show bs.foldl (fun acc x => 256 * acc + x) 0 = _
  rw [foldl_eq_ofBytesBE]
  simp

/-- the byte payload (`emplace_atomic_value` of `8·n` bits of `A_BYTEFIELD` at a byte-aligned cursor) -/
theorem Foot2.bytesAt (role : Role2) (name : String) (bs : Bytes) (hall : AllBytes bs) :
    Foot2 (Pair.bytesAt bs).enc (Lay2.bytes role name bs) := by
  by_cases hne : bs = []
  · subst hne
    exact Foot2.rawBytes role name [] (fun _ h => nomatch h)
  · have hn : 1 ≤ bs.length := by
      cases bs with
      | nil => exact absurd rfl hne
      | cons b bs => simp
    have henc : (Pair.bytesAt bs).enc = encStep (bytesObj bs.length) (.bytes bs) := by
      funext s; simp [Pair.bytesAt, hne]
    rw [henc]
    refine (foot_leaf .value (bytesObj bs.length) (.bytes bs) (bytesObj_ok bs.length hn) ⟨rfl, hall⟩).to2 _ ?_ ?_ ?_
    · intro org c
      simp only [Lay2.E, Lay2.bytes, if_neg hne, Lay.obj, List.map_cons, List.map_nil, Ent2.geo, Ent2.bytes, Ent.geo, Ent.ofObj,
        bytesObj_k, bytesObj_specRepr]
      rfl
    · intro org c
      show c + bs.length = c + (bytesObj bs.length).k
      rw [bytesObj_k]
    · intro org c
      show c + bs.length = c + (bytesObj bs.length).k
      rw [bytesObj_k]

/-! ### MIN-MAX-LENGTH-TYPE / LEADING-LENGTH-INFO-TYPE leaves, MATCHING-REQUEST-PARAM -/

/-- payload, then the termination sequence -/
def MMLeaf.layMid (l : MMLeaf) : Lay2 :=
  ((Lay2.bytes .value l.name l.raw).seq (Lay2.bytes .terminator l.name l.tseq)).atPos l.bytePos
/-- the payload alone (value of MAX-LENGTH bytes, or at the end of the PDU) -/
def MMLeaf.layEnd (l : MMLeaf) : Lay2 := (Lay2.bytes .value l.name l.raw).atPos l.bytePos

theorem MMLeaf.footMid (l : MMLeaf) (h : l.okBase) : Foot2 (Comp.ofMinMaxMid l).pair.enc l.layMid :=
  Foot2.atPos l.bytePos (Foot2.seq (ea := (Pair.bytesAt l.raw).enc) (eb := rawStep l.tseq)
    (Foot2.bytesAt .value l.name l.raw h.1.1) (Foot2.rawBytes .terminator l.name l.tseq (termSeq_allBytes _ _)))

theorem MMLeaf.footFull (l : MMLeaf) (h : l.okBase) : Foot2 (Comp.ofMinMaxFull l).pair.enc l.layEnd :=
  Foot2.atPos l.bytePos (Foot2.bytesAt .value l.name l.raw h.1.1)

theorem MMLeaf.footLast (l : MMLeaf) (h : l.okBase) : Foot2 (Comp.ofMinMaxLast l).pair.enc l.layEnd :=
  Foot2.atPos l.bytePos (Foot2.bytesAt .value l.name l.raw h.1.1)

/-- the length prefix (value = the payload's byte length), then the payload -/
def LeadLeaf.lay (l : LeadLeaf) : Lay2 :=
  (Lay2.obj .lengthPrefix l.name l.lenObj (l.lenObj.specRepr (.int l.raw.length))).seq (Lay2.bytes .value l.name l.raw)

theorem LeadLeaf.foot (l : LeadLeaf) (h : l.ok) : Foot2 (Comp.ofLeading l).pair.enc l.lay :=
  Foot2.seq (ea := encStep l.lenObj (.int l.raw.length)) (eb := (Pair.bytesAt l.raw).enc)
    (Foot2.obj .lengthPrefix l.name l.lenObj _ (l.lenObj_ok h) (l.len_inRange h)) (Foot2.bytesAt .value l.name l.raw h.2.2.2.1.1)

/-- on clean states `fixUsed` does nothing -/
theorem Foot2.fixUsed {enc : EncState → EncState} {l : Lay2} (h : Foot2 enc l) : Foot2 (fun s => enc (fixUsed s)) l := by
  have hfix : ∀ s, Clean s → OdxVerif.Codec.fixUsed s = s := fun s hs => fixUsed_of_covers s (Nat.le_of_eq hs.1.1.symm)
  exact {
    cursor := fun s => h.cursor (OdxVerif.Codec.fixUsed s)
    origin := fun s => h.origin (OdxVerif.Codec.fixUsed s)
    warn_mono := fun s => h.warn_mono (OdxVerif.Codec.fixUsed s)
    inv := fun s hs => by rw [hfix s hs]; exact h.inv s hs
    inside := fun s hs => by rw [hfix s hs]; exact h.inside s hs
    outside := fun s => h.outside (OdxVerif.Codec.fixUsed s)
    used_iff := fun s hs => by rw [hfix s hs]; exact h.used_iff s hs
    nowarn_of := fun s hs => by rw [hfix s hs]; exact h.nowarn_of s hs
    disj_of := fun s hs => by rw [hfix s hs]; exact h.disj_of s hs
    length := fun s => h.length (OdxVerif.Codec.fixUsed s)
    within := h.within }

/-- MATCHING-REQUEST-PARAM: the echoed bytes of the triggering request -/
def Lay2.matching (n : String) (bp : Option Nat) (reqPos byteLen : Nat) (t : Bytes) : Lay2 :=
  (Lay2.bytes .echo n (echoBytes t reqPos byteLen)).atPos bp

theorem foot2_matching (n : String) (bp : Option Nat) (reqPos byteLen : Nat) (t : Bytes) (ht : AllBytes t) :
    Foot2 (Comp.matchingReq n bp reqPos byteLen t).pair.enc (Lay2.matching n bp reqPos byteLen t) :=
  Foot2.atPos bp (Foot2.fixUsed (Foot2.rawBytes .echo n (echoBytes t reqPos byteLen) (allBytes_take_drop t ht reqPos byteLen)))

/-! ### the padding of a STRUCTURE with BYTE-SIZE: claimed silently -/

/-- seen from inside the structure (`origin` = its first byte): pad up to BYTE-SIZE if the content ended before it -/
def padStep (bs : Nat) (t : EncState) : EncState := if t.cursorByte - t.origin < bs then bsPad t.origin bs t else t

def Lay2.sizePad (bs : Nat) : Lay2 where
  ents := fun org c => if c - org < bs then [Ent2.pad .sizePadding (org + (c - org)) (bs - (c - org))] else []
  cur := fun org c => if c - org < bs then org + bs else c
  ext := fun org c => if c - org < bs then org + bs else 0

theorem bsPad_getBit_msg (p bs : Nat) (s : EncState) (a : Nat) : getBit (bsPad p bs s).msg a = getBit s.msg a := by
  unfold getBit
  simp only [bsPad]
  rw [getD_append_zeros]

theorem bsPad_U_length (p bs : Nat) (s : EncState) (h : UsedOk s) :
    (s.used ++ List.replicate (p + bs - s.msg.length) 0).length = max s.msg.length (p + bs) := by
  simp only [List.length_append, List.length_replicate, h.1]
  omega

theorem bsPad_getBit_used (p bs : Nat) (s : EncState) (h : UsedOk s) (hlt : s.cursorByte - p < bs) (a : Nat) :
    getBit (bsPad p bs s).used a =
      if p + (s.cursorByte - p) ≤ a / 8 ∧ a / 8 < p + (s.cursorByte - p) + (bs - (s.cursorByte - p)) then true else getBit s.used a := by
  have hU := bsPad_U_length p bs s h
  have he : p + bs = p + (s.cursorByte - p) + (List.replicate (bs - (s.cursorByte - p)) 255).length := by
    rw [List.length_replicate]; omega
  unfold getBit
  simp only [bsPad]
  rw [he]
  split
  · rename_i hin
    have := getD_splice_inside_at (s.used ++ List.replicate (p + (s.cursorByte - p) + (List.replicate (bs - (s.cursorByte - p)) 255).length - s.msg.length) 0)
      (List.replicate (bs - (s.cursorByte - p)) 255) (p + (s.cursorByte - p)) (a / 8)
      (by rw [← he, hU]; omega) hin.1 (by rw [List.length_replicate]; exact hin.2)
    rw [this, getD_replicate_in _ 255 _ (by omega)]
    have h8 : a % 8 < 8 := Nat.mod_lt _ (by decide)
    rw [show (255 : Nat) = 2 ^ 8 - 1 from rfl, Nat.testBit_two_pow_sub_one]
    simp [h8]
  · rename_i hout
    have := getD_splice_outside (s.used ++ List.replicate (p + (s.cursorByte - p) + (List.replicate (bs - (s.cursorByte - p)) 255).length - s.msg.length) 0)
      (List.replicate (bs - (s.cursorByte - p)) 255) (p + (s.cursorByte - p)) (a / 8)
      (by rw [List.length_replicate]
          by_cases h' : a / 8 < p + (s.cursorByte - p)
          · exact Or.inl ⟨h', by simp only [List.length_append, List.length_replicate, h.1]; omega⟩
          · exact Or.inr ⟨by omega, by simp only [List.length_append, List.length_replicate, h.1]; omega⟩)
    rw [this, getD_append_zeros]

theorem bsPad_usedOk (p bs : Nat) (s : EncState) (h : UsedOk s) (hlt : s.cursorByte - p < bs) : UsedOk (bsPad p bs s) := by
  have hU := bsPad_U_length p bs s h
  constructor
  · rw [bsPad_length]
    simp only [bsPad, List.length_append, List.length_take, List.length_replicate, List.length_drop, h.1]
    omega
  · have hUall : AllBytes (s.used ++ List.replicate (p + bs - s.msg.length) 0) :=
      allBytes_append _ _ h.2 (allBytes_replicate_zero _)
    simp only [bsPad]
    refine allBytes_append _ _ (allBytes_append _ _ (fun x hx => hUall x (List.mem_of_mem_take hx)) ?_)
      (fun x hx => hUall x (List.mem_of_mem_drop hx))
    intro x hx
    rw [List.mem_replicate] at hx
    omega

theorem Ent2.pad_claims (role : Role2) (p m a : Nat) : (Ent2.pad role p m).claims a ↔ (p ≤ a / 8 ∧ a / 8 < p + m) :=
  Ent.pad_claims p m a

theorem Foot2.sizePad (bs : Nat) : Foot2 (padStep bs) (Lay2.sizePad bs) where
  cursor := by
    intro s
    simp only [padStep, Lay2.sizePad]
    split <;> rfl
  origin := by
    intro s
    simp only [padStep]
    split <;> rfl
  warn_mono := by
    intro s
    simp only [padStep]
    split
    · exact Nat.le_refl _
    · exact Nat.le_refl _
  inv := by
    intro s hs
    simp only [padStep]
    split
    · rename_i hlt
      refine ⟨bsPad_usedOk _ _ s hs.1 hlt, ?_⟩
      intro a ha
      rw [bsPad_getBit_msg]
      rw [bsPad_getBit_used _ _ s hs.1 hlt] at ha
      split at ha
      · cases ha
      · exact hs.2 a ha
    · exact hs
  inside := by
    intro s hs _ hf e he j hj
    simp only [padStep, Lay2.E, Lay2.sizePad] at he hf ⊢
    by_cases hlt : s.cursorByte - s.origin < bs
    · rw [if_pos hlt] at he hf ⊢
      simp only [List.map_cons, List.map_nil, List.mem_cons, List.mem_nil_iff, or_false] at he
      subst he
      rw [bsPad_getBit_msg]
      have hfree := hf _ (List.mem_cons_self ..) _ ⟨j, hj, rfl⟩
      rw [hs.2 _ hfree]
      show false = (0 : Nat).testBit j
      simp
    · rw [if_neg hlt] at he
      cases he
  outside := by
    intro s a _
    simp only [padStep]
    split
    · exact bsPad_getBit_msg _ _ s a
    · rfl
  used_iff := by
    intro s hs a
    simp only [padStep, Lay2.E, Lay2.sizePad]
    by_cases hlt : s.cursorByte - s.origin < bs
    · rw [if_pos hlt, if_pos hlt, bsPad_getBit_used _ _ s hs.1 hlt]
      simp only [List.map_cons, List.map_nil]
      rw [LClaims_single]
      have := Ent2.pad_claims .sizePadding (s.origin + (s.cursorByte - s.origin)) (bs - (s.cursorByte - s.origin)) a
      unfold Ent2.claims at this
      rw [this]
      by_cases hin : s.origin + (s.cursorByte - s.origin) ≤ a / 8 ∧
          a / 8 < s.origin + (s.cursorByte - s.origin) + (bs - (s.cursorByte - s.origin))
      · simp [hin]
      · simp [hin]
    · rw [if_neg hlt, if_neg hlt]
      exact ⟨Or.inl, fun h => h.elim id (fun h => absurd h (LClaims_nil a))⟩
  nowarn_of := by
    intro s _ _ _
    simp only [padStep]
    split <;> rfl
  disj_of := by
    intro s _ _ hp
    simp only [Lay2.E, Lay2.sizePad] at hp ⊢
    by_cases hlt : s.cursorByte - s.origin < bs
    · rw [if_pos hlt] at hp ⊢
      simp only [List.map_cons, List.map_nil]
      refine ⟨LDisj_single _, ?_⟩
      rw [LFree_single]
      intro a hc
      rw [getBit_false_iff]
      exact hp.1 rfl a hc
    · rw [if_neg hlt]
      exact ⟨List.Pairwise.nil, fun e he => by cases he⟩
  length := by
    intro s
    simp only [padStep, Lay2.sizePad]
    by_cases hlt : s.cursorByte - s.origin < bs
    · rw [if_pos hlt, if_pos hlt, bsPad_length]
    · rw [if_neg hlt, if_neg hlt]
      show s.msg.length = max s.msg.length 0
      omega
  within := by
    intro org c e he
    simp only [Lay2.E, Lay2.sizePad] at he ⊢
    by_cases hlt : c - org < bs
    · rw [if_pos hlt] at he ⊢
      simp only [List.map_cons, List.map_nil, List.mem_cons, List.mem_nil_iff, or_false] at he
      subst he
      refine ⟨Ent.pad_wf (org + (c - org)) (bs - (c - org)), ?_⟩
      show org + (c - org) + (bs - (c - org)) ≤ org + bs
      omega
    · rw [if_neg hlt] at he
      cases he

/-- the content of a STRUCTURE (origin = its first byte), then the silent padding up to BYTE-SIZE -/
def Lay2.sized (bso : Option Nat) (l : Lay2) : Lay2 :=
  match bso with
  | none => l.inOrigin
  | some bs => (l.seq (Lay2.sizePad bs)).inOrigin

/-- **STRUCTURE with optional BYTE-SIZE** over components whose parameter list has the footprint `l` -/
theorem foot2_structO (bso : Option Nat) (gs : List Comp) (l : Lay2) (h : Foot2 (Comps.pair gs).enc l) :
    Foot2 (DComp.structO bso gs).pair.enc (Lay2.sized bso l) := by
  cases bso with
  | none => exact Foot2.inOrigin h
  | some bs =>
    refine (Foot2.inOrigin (Foot2.seq (ea := (Comps.pair gs).enc) (eb := padStep bs) h (Foot2.sizePad bs))).congr ?_
    intro s
    have ho := h.origin { s with origin := s.cursorByte }
    show (if ((Comps.pair gs).enc { s with origin := s.cursorByte }).cursorByte - s.cursorByte < bs
          then bsPad s.cursorByte bs { (Comps.pair gs).enc { s with origin := s.cursorByte } with origin := s.origin }
          else { (Comps.pair gs).enc { s with origin := s.cursorByte } with origin := s.origin }) =
        { padStep bs ((Comps.pair gs).enc { s with origin := s.cursorByte }) with origin := s.origin }
    unfold padStep
    rw [ho]
    split <;> rfl

end OdxVerif.Codec
