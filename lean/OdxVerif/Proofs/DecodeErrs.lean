import OdxVerif.Proofs.SimCodec
/-! Error classes of the decoder model: whatever it ends with is a decode error (or an `OdxError` raised about an
    ill-formed description, or the model giving up) — never a foreign exception. -/
namespace OdxVerif.Codec
open OdxVerif.OdxM OdxVerif.Bits

/-- every error a computation can end with satisfies `P` (in either mode) -/
def ErrsIn {σ α : Type} (P : Err → Prop) (m : OdxM σ α) : Prop := ∀ s st e s', m s st = .error (e, s') → P e

theorem errsIn_pure {σ α} (P : Err → Prop) (a : α) : ErrsIn P (Pure.pure a : OdxM σ α) := by
  intro s st e s' h; cases h
theorem errsIn_pure' {σ α} (P : Err → Prop) (a : α) : ErrsIn P (OdxM.pure a : OdxM σ α) := by
  intro s st e s' h; cases h
theorem errsIn_getS {σ} (P : Err → Prop) : ErrsIn P (getS : OdxM σ σ) := by intro s st e s' h; cases h
theorem errsIn_setS {σ} (P : Err → Prop) (x : σ) : ErrsIn P (setS x : OdxM σ Unit) := by intro s st e s' h; cases h
theorem errsIn_modifyS {σ} (P : Err → Prop) (f : σ → σ) : ErrsIn P (modifyS f : OdxM σ Unit) := by
  intro s st e s' h; cases h
theorem errsIn_raise {σ α} (P : Err → Prop) (e : Err) (h : P e) : ErrsIn P (raise e : OdxM σ α) := by
  intro s st e' s' h'; simp [raise] at h'; rw [← h'.1]; exact h
theorem errsIn_odxraise {σ} (P : Err → Prop) (e : Err) (h : P e) : ErrsIn P (odxraise e : OdxM σ Unit) := by
  intro s st e' s' h'
  cases st <;> simp [odxraise] at h'
  rw [← h'.1]; exact h
theorem errsIn_odxassert {σ} (P : Err → Prop) (c : Bool) (h : P .odx) : ErrsIn P (odxassert c : OdxM σ Unit) := by
  unfold odxassert; split
  · exact errsIn_pure' P ()
  · exact errsIn_odxraise P _ h
theorem errsIn_bind' {σ α β} (P : Err → Prop) (m : OdxM σ α) (f : α → OdxM σ β) (hm : ErrsIn P m)
    (hf : ∀ a, ErrsIn P (f a)) : ErrsIn P (OdxM.bind m f) := by
  intro s st e s' h
  unfold OdxM.bind at h
  cases hms : m s st with
  | error x =>
    obtain ⟨e0, s0⟩ := x
    rw [hms] at h
    simp only [Except.error.injEq, Prod.mk.injEq] at h
    rw [← h.1]
    exact hm s st e0 s0 hms
  | ok p => obtain ⟨a, s1⟩ := p; rw [hms] at h; exact hf a s1 st e s' h
theorem errsIn_bind {σ α β} (P : Err → Prop) (m : OdxM σ α) (f : α → OdxM σ β) (hm : ErrsIn P m)
    (hf : ∀ a, ErrsIn P (f a)) : ErrsIn P (m >>= f) := errsIn_bind' P m f hm hf
theorem errsIn_ite {σ α} (P : Err → Prop) (c : Prop) [Decidable c] (a b : OdxM σ α) (ha : ErrsIn P a) (hb : ErrsIn P b) :
    ErrsIn P (if c then a else b) := by split <;> assumption
theorem errsIn_tryCatch {σ α} (P : Err → Prop) (m : OdxM σ α) (handles : Err → Bool) (h : Err → OdxM σ α)
    (hm : ErrsIn P m) (hh : ∀ e, ErrsIn P (h e)) : ErrsIn P (OdxM.tryCatch m handles h) := by
  intro s st e s' he
  unfold OdxM.tryCatch at he
  cases hms : m s st with
  | ok r => rw [hms] at he; cases he
  | error x =>
    obtain ⟨e0, s0⟩ := x
    rw [hms] at he
    simp only at he
    split at he
    · exact hh e0 s0 st e s' he
    · simp only [Except.error.injEq, Prod.mk.injEq] at he
      rw [← he.1]; exact hm s st e0 s0 hms

attribute [irreducible] ErrsIn

/-- the error classes the *decoder* may end with: the library's decode errors, a plain `OdxError` only via
    an `odxraise`/`odxassert` about an ill-formed description, or the model giving up (`unmodelled`) -/
def DecErr (e : Err) : Prop := e = .decode ∨ e = .mismatch ∨ e = .odx ∨ e = .unmodelled

macro "errs_step" : tactic =>
  `(tactic| first
    | exact errsIn_pure _ _ | exact errsIn_pure' _ _ | exact errsIn_getS _ | exact errsIn_setS _ _ | exact errsIn_modifyS _ _
    | exact errsIn_raise _ _ (by simp [DecErr]) | exact errsIn_odxraise _ _ (by simp [DecErr])
    | exact errsIn_odxassert _ _ (by simp [DecErr])
    | assumption
    | apply errsIn_bind | apply errsIn_bind' | apply errsIn_ite
    | intro _)

theorem errs_convertRaw (bt : BaseType) (enc : Option Enc) (hl : Bool) (bl raw : Nat) :
    ErrsIn DecErr (convertRaw bt enc hl bl raw) := by
  unfold convertRaw
  cases bt <;> simp only [] <;> repeat (first | split | errs_step)

theorem errs_extractCore (bl : Nat) (bt : BaseType) (enc : Option Enc) (hl : Bool) :
    ErrsIn DecErr (extractCore bl bt enc hl) := by
  unfold extractCore
  apply errsIn_bind
  · exact errsIn_getS _
  · intro s
    dsimp only
    repeat (first | exact errs_convertRaw _ _ _ _ _ | split | errs_step)

theorem errs_extractAtomic (bl : Nat) (bt : BaseType) (enc : Option Enc) (hl : Bool) :
    ErrsIn DecErr (extractAtomic bl bt enc hl) := by
  unfold extractAtomic
  repeat (first | exact errs_extractCore _ _ _ _ | split | errs_step)

theorem errs_unapplyMask {σ : Type} (m : Nat) (c : Bool) (v : IVal) : ErrsIn DecErr (unapplyMask m c v : OdxM σ IVal) := by
  unfold unapplyMask
  cases v <;> simp only [] <;> repeat (first | split | errs_step)

macro "errs1" : tactic => `(tactic| first
    | exact errs_extractAtomic _ _ _ _ | exact errs_unapplyMask _ _ _ | split | errs_step | dsimp only
    | (simp only [Nat.succ_eq_add_one, Nat.add_right_cancel_iff] at *; subst_vars))
macro "errs" : tactic => `(tactic| repeat errs1)

theorem errs_decodeDct (dct : Dct) : ErrsIn DecErr (decodeDct dct) := by
  unfold decodeDct
  cases dct with
  | std bt enc hl bl mask c => cases mask <;> simp only [] <;> errs
  | minmax bt enc hl mn mx t => simp only []; errs
  | leading bt enc hl bl => simp only []; errs
  | paramLen bt enc hl key => simp only []; errs

/-- `convert_internal_to_physical` of LINEAR / TEXTTABLE / IDENTICAL ends in the decode errors of its `odxraise` sites, or in
    what the call site makes of a ZeroDivisionError -/
theorem errs_methodI2P {σ : Type} (arith : Err) (h : DecErr arith) (m : Compu.Method) (i : Compu.Val) :
    ErrsIn DecErr (methodI2P arith m i : OdxM σ (Option Compu.Val)) := by
  unfold methodI2P
  cases m <;> simp only [] <;> repeat (first | exact errsIn_raise _ _ h | split | errs_step)

theorem errs_dopI2P {σ : Type} (m : Compu.Method) (v : IVal) : ErrsIn DecErr (dopI2P m v : OdxM σ (Option IVal)) := by
  unfold dopI2P
  repeat (first | exact errs_methodI2P _ (by simp [DecErr]) _ _ | split | errs_step)

set_option maxHeartbeats 1600000 in
/-- every decoding function of the model, by induction on the fuel -/
theorem errs_decode_all (fuel : Nat) :
    (∀ d, ErrsIn DecErr (decodeDop fuel d)) ∧
    (∀ item sz n, ErrsIn DecErr (decodeStaticItems item sz fuel n)) ∧
    (∀ item n, ErrsIn DecErr (decodeNItems item fuel n)) ∧
    (∀ item, ErrsIn DecErr (decodeToEnd item fuel)) ∧
    (∀ tv td item, ErrsIn DecErr (decodeUntilMarker tv td item fuel)) ∧
    (∀ p, ErrsIn DecErr (decodeParam fuel p)) ∧
    (∀ ps, ErrsIn DecErr (decodeParams fuel ps)) ∧
    (∀ ps, ErrsIn DecErr (decodeComposite fuel ps)) := by
  induction fuel with
  | zero =>
    refine ⟨?_, ?_, ?_, ?_, ?_, ?_, ?_, ?_⟩ <;> intros
    · unfold decodeDop; exact errsIn_raise _ _ (by simp [DecErr])
    · unfold decodeStaticItems; exact errsIn_raise _ _ (by simp [DecErr])
    · unfold decodeNItems; exact errsIn_raise _ _ (by simp [DecErr])
    · unfold decodeToEnd; exact errsIn_raise _ _ (by simp [DecErr])
    · unfold decodeUntilMarker; exact errsIn_raise _ _ (by simp [DecErr])
    · unfold decodeParam; exact errsIn_raise _ _ (by simp [DecErr])
    · unfold decodeParams; exact errsIn_raise _ _ (by simp [DecErr])
    · unfold decodeComposite; exact errsIn_raise _ _ (by simp [DecErr])
  | succ fuel ih =>
    obtain ⟨ihDop, ihStatic, ihN, ihEnd, ihMark, ihParam, ihParams, ihComp⟩ := ih
    refine ⟨?_, ?_, ?_, ?_, ?_, ?_, ?_, ?_⟩
    · intro d
      cases d <;> unfold decodeDop <;>
        repeat (first
          | exact ihDop _ | exact ihStatic _ _ _ | exact ihN _ _ | exact ihEnd _ | exact ihMark _ _ _ | exact ihComp _
          | exact ihParam _ | exact errs_decodeDct _ | exact errs_dopI2P _ _
          | exact errs_methodI2P _ (by simp [DecErr]) _ _ | errs1)
    · intro item sz n
      unfold decodeStaticItems
      repeat (first | exact ihDop _ | exact ihStatic _ _ _ | errs1)
    · intro item n
      unfold decodeNItems
      repeat (first | exact ihDop _ | exact ihN _ _ | errs1)
    · intro item
      unfold decodeToEnd
      repeat (first | exact ihDop _ | exact ihEnd _ | errs1)
    · intro tv td item
      unfold decodeUntilMarker
      repeat (first
        | exact ihDop _ | exact ihMark _ _ _
        | (apply errsIn_tryCatch)
        | errs1)
    · intro p
      cases p with
      | mk name bytePos bitPos kind =>
        unfold decodeParam
        cases kind <;>
        repeat (first | exact ihDop _ | exact errs_decodeDct _ | errs1)
    · intro ps
      unfold decodeParams
      repeat (first | exact ihParam _ | exact ihParams _ | errs1)
    · intro ps
      unfold decodeComposite
      repeat (first | exact ihParams _ | errs1)

end OdxVerif.Codec
