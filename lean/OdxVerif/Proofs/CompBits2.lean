import OdxVerif.Proofs.CompBitsSkip
import OdxVerif.Proofs.CompExtDescribed
/-! Bit-exactness for the round-6 constructors (task W17), part 1: entries with the extended set of roles (`Role2`, `Ent2`,
    `Lay2`) and the **second footprint law** `Foot2`.

    Why a second law.  `Foot` (`Proofs/CompBits.lean`) says: *no overlap warning ⇔ the entries are pairwise disjoint and hit no
    bit claimed before*.  The padding of a STRUCTURE with BYTE-SIZE (`bsPad`, `BasicStructure.encode_into_pdu`) violates the
    direction ⇒: it claims its bytes in the used-mask WITHOUT an overlap check and without writing them.  `Foot2` therefore
    * is stated for *clean* states (`Clean`: the used-mask is as long as the message, and every unclaimed bit is zero — kept by
      every encoder with a footprint), so that the unwritten padding bytes are known to be zero when they were unclaimed;
    * splits the overlap clause: `nowarn_of` (entries disjoint and free ⇒ no warning) and `disj_of` (no warning ⇒ entries disjoint
      and free, PROVIDED no *silent* entry — role `sizePadding` — hits a bit claimed before it: `PadOk`);
    * `inside` is stated from disjointness rather than from the absence of a warning.
    Every `Foot` gives a `Foot2` (`Foot.to2`, any relabelling of the entries), and `Foot2` is closed under the combinators
    (`Foot2.seq`, `.inOrigin`, `.atPos`, `.peek`). -/
namespace OdxVerif.Codec
open OdxVerif.Bits OdxVerif.OdxM

/-- what a layout entry is — `Role` extended by the derived objects of the round-6 constructors -/
inductive Role2 where
  | value | default | codedConst | physConst
  | count          -- number of items of a DYNAMIC-LENGTH-FIELD
  | switchKey      -- switch key of a MULTIPLEXER
  | itemPadding    -- zero bytes behind a STATIC-FIELD item up to ITEM-BYTE-SIZE (`emplace_bytes`: overlap-checked)
  | terminator     -- termination sequence of a MIN-MAX-LENGTH-TYPE object
  | lengthPrefix   -- length prefix of a LEADING-LENGTH-INFO-TYPE object
  | echo           -- bytes of the triggering request (MATCHING-REQUEST-PARAM)
  | marker         -- TERMINATION-VALUE of a DYNAMIC-ENDMARKER-FIELD
  | sizePadding    -- bytes behind the content of a STRUCTURE up to BYTE-SIZE: claimed SILENTLY (no overlap check, not written)
deriving Repr, DecidableEq, Inhabited

def Role2.ofRole : Role → Role2
  | .value => .value | .default => .default | .codedConst => .codedConst | .physConst => .physConst
  | .count => .count | .switchKey => .switchKey | .padding => .itemPadding

/-- a positioned bit field with an extended role (fields as in `Ent`) -/
structure Ent2 where
  role : Role2
  name : String
  pos : Nat
  k : Nat
  hl : Bool
  bp : Nat
  bl : Nat
  raw : Nat
deriving Repr, DecidableEq

/-- the geometry of an entry: role and name forgotten -/
def Ent2.geo (e : Ent2) : Ent := ⟨.value, "", e.pos, e.k, e.hl, e.bp, e.bl, e.raw⟩
def Ent.geo (e : Ent) : Ent := ⟨.value, "", e.pos, e.k, e.hl, e.bp, e.bl, e.raw⟩
def Ent.to2 (e : Ent) : Ent2 := ⟨Role2.ofRole e.role, e.name, e.pos, e.k, e.hl, e.bp, e.bl, e.raw⟩
def Ent2.claims (e : Ent2) (a : Nat) : Prop := e.geo.claims a
/-- claimed without overlap check -/
def Ent2.silent (e : Ent2) : Prop := e.role = .sizePadding

instance Ent2.decSilent (e : Ent2) : Decidable e.silent := by unfold Ent2.silent; infer_instance

theorem LClaims_geo (L : List Ent) (a : Nat) : LClaims (L.map Ent.geo) a ↔ LClaims L a := by
  unfold LClaims
  constructor
  · rintro ⟨e, he, hc⟩
    obtain ⟨x, hx, rfl⟩ := List.mem_map.mp he
    exact ⟨x, hx, hc⟩
  · rintro ⟨e, he, hc⟩
    exact ⟨e.geo, List.mem_map.mpr ⟨e, he, rfl⟩, hc⟩

theorem LDisj_geo (L : List Ent) : LDisj (L.map Ent.geo) ↔ LDisj L := by
  unfold LDisj
  rw [List.pairwise_map]
  exact Iff.rfl

theorem LFree_geo (u : Bytes) (L : List Ent) : LFree u (L.map Ent.geo) ↔ LFree u L := by
  unfold LFree
  constructor
  · intro h e he a hc
    exact h e.geo (List.mem_map.mpr ⟨e, he, rfl⟩) a hc
  · intro h e he a hc
    obtain ⟨x, hx, rfl⟩ := List.mem_map.mp he
    exact h x hx a hc

/-- the layout of a component over extended entries -/
structure Lay2 where
  ents : Nat → Nat → List Ent2
  cur : Nat → Nat → Nat
  ext : Nat → Nat → Nat

/-- the geometry of the entries -/
def Lay2.E (l : Lay2) (org c : Nat) : List Ent := (l.ents org c).map Ent2.geo

/-- **no silent entry hits a bit claimed before it** (`U`: the bits claimed before the first entry) -/
def PadOk : List Ent2 → (Nat → Prop) → Prop
  | [], _ => True
  | e :: L, U => (e.silent → ∀ a, e.claims a → ¬ U a) ∧ PadOk L (fun a => U a ∨ e.claims a)

theorem PadOk_congr : (L : List Ent2) → (U V : Nat → Prop) → (∀ a, U a ↔ V a) → (PadOk L U ↔ PadOk L V)
  | [], _, _, _ => Iff.rfl
  | e :: L, U, V, h => by
    simp only [PadOk]
    rw [PadOk_congr L (fun a => U a ∨ e.claims a) (fun a => V a ∨ e.claims a) (fun a => by rw [h a])]
    constructor
    · rintro ⟨h1, h2⟩; exact ⟨fun hs a hc hv => h1 hs a hc ((h a).mpr hv), h2⟩
    · rintro ⟨h1, h2⟩; exact ⟨fun hs a hc hu => h1 hs a hc ((h a).mp hu), h2⟩

theorem PadOk_append : (A B : List Ent2) → (U : Nat → Prop) →
    (PadOk (A ++ B) U ↔ PadOk A U ∧ PadOk B (fun a => U a ∨ LClaims (A.map Ent2.geo) a))
  | [], B, U => by
    simp only [List.nil_append, PadOk, true_and, List.map_nil]
    exact PadOk_congr B _ _ (fun a => ⟨Or.inl, fun h => h.elim id (fun h => absurd h (LClaims_nil a))⟩)
  | e :: A, B, U => by
    simp only [List.cons_append, PadOk, List.map_cons]
    rw [PadOk_append A B, and_assoc]
    have : ∀ a, ((U a ∨ e.claims a) ∨ LClaims (A.map Ent2.geo) a) ↔ (U a ∨ LClaims (e.geo :: A.map Ent2.geo) a) := by
      intro a
      rw [show e.geo :: A.map Ent2.geo = [e.geo] ++ A.map Ent2.geo from rfl, LClaims_append, LClaims_single]
      exact or_assoc
    rw [PadOk_congr B _ _ this]

theorem PadOk_of_noSilent : (L : List Ent2) → (U : Nat → Prop) → (∀ e ∈ L, ¬ e.silent) → PadOk L U
  | [], _, _ => trivial
  | e :: L, U, h =>
    ⟨fun hs => absurd hs (h e (List.mem_cons_self ..)), PadOk_of_noSilent L _ (fun x hx => h x (List.mem_cons_of_mem _ hx))⟩

/-- disjoint and free entries are in particular `PadOk` -/
theorem PadOk_of_disj : (L : List Ent2) → (U : Nat → Prop) → LDisj (L.map Ent2.geo) →
    (∀ e ∈ L.map Ent2.geo, ∀ a, e.claims a → ¬ U a) → PadOk L U
  | [], _, _, _ => trivial
  | e :: L, U, hd, hf => by
    have hd' : LDisj ([e.geo] ++ L.map Ent2.geo) := hd
    rw [LDisj_append] at hd'
    refine ⟨fun _ a hc => hf e.geo (List.mem_cons_self ..) a hc, PadOk_of_disj L _ hd'.2.1 ?_⟩
    intro x hx a hc hu
    rcases hu with hu | hu
    · exact hf x (List.mem_cons_of_mem _ hx) a hc hu
    · exact hd'.2.2 a ⟨(LClaims_single _ a).mpr hu, x, hx, hc⟩

/-- a **clean** state: `UsedOk`, and every unclaimed bit of the message is zero -/
def Clean (s : EncState) : Prop := UsedOk s ∧ ∀ a, getBit s.used a = false → getBit s.msg a = false

theorem clean_empty : Clean {} := ⟨usedOk_empty, fun a _ => getBit_nil a⟩

/-- **the second footprint law** -/
structure Foot2 (enc : EncState → EncState) (l : Lay2) : Prop where
  cursor : ∀ s, (enc s).cursorByte = l.cur s.origin s.cursorByte
  origin : ∀ s, (enc s).origin = s.origin
  warn_mono : ∀ s, s.warn ≤ (enc s).warn
  inv : ∀ s, Clean s → Clean (enc s)
  /-- disjoint entries that hit no bit claimed before hold the prescribed pattern -/
  inside : ∀ s, Clean s → LDisj (l.E s.origin s.cursorByte) → LFree s.used (l.E s.origin s.cursorByte) →
    ∀ e ∈ l.E s.origin s.cursorByte, ∀ j, j < e.bl → getBit (enc s).msg (e.abs j) = e.raw.testBit j
  outside : ∀ s a, ¬ LClaims (l.E s.origin s.cursorByte) a → getBit (enc s).msg a = getBit s.msg a
  used_iff : ∀ s, Clean s → ∀ a, getBit (enc s).used a = true ↔ (getBit s.used a = true ∨ LClaims (l.E s.origin s.cursorByte) a)
  /-- entries disjoint and free ⇒ no overlap warning -/
  nowarn_of : ∀ s, Clean s → LDisj (l.E s.origin s.cursorByte) → LFree s.used (l.E s.origin s.cursorByte) → (enc s).warn = s.warn
  /-- no overlap warning ⇒ entries disjoint and free — unless a silent entry hits a bit claimed before it -/
  disj_of : ∀ s, Clean s → (enc s).warn = s.warn → PadOk (l.ents s.origin s.cursorByte) (fun a => getBit s.used a = true) →
    LDisj (l.E s.origin s.cursorByte) ∧ LFree s.used (l.E s.origin s.cursorByte)
  length : ∀ s, (enc s).msg.length = max s.msg.length (l.ext s.origin s.cursorByte)
  within : ∀ org c, ∀ e ∈ l.E org c, e.wf ∧ e.pos + e.k ≤ l.ext org c

/-- a footprint in the sense of `Foot` keeps states clean -/
theorem Foot.clean {enc : EncState → EncState} {l : Lay} (h : Foot enc l) (s : EncState) (hs : Clean s) : Clean (enc s) := by
  refine ⟨h.inv s hs.1, ?_⟩
  intro a ha
  have hiff := h.used_iff s hs.1 a
  have hnot : ¬ (getBit s.used a = true ∨ LClaims (l.ents s.origin s.cursorByte) a) := by
    intro hc
    rw [hiff.mpr hc] at ha
    cases ha
  rw [h.outside s a (fun hc => hnot (Or.inr hc))]
  apply hs.2
  rw [getBit_false_iff]
  exact fun hc => hnot (Or.inl hc)

/-- **every `Foot` is a `Foot2`**, for any labelling of its entries -/
theorem Foot.to2 {enc : EncState → EncState} {l : Lay} (h : Foot enc l) (l2 : Lay2)
    (hE : ∀ org c, l2.E org c = (l.ents org c).map Ent.geo) (hcur : ∀ org c, l2.cur org c = l.cur org c)
    (hext : ∀ org c, l2.ext org c = l.ext org c) : Foot2 enc l2 where
  cursor := fun s => by rw [hcur]; exact h.cursor s
  origin := h.origin
  warn_mono := h.warn_mono
  inv := h.clean
  inside := by
    intro s hs hd hf e he j hj
    rw [hE, LDisj_geo] at hd
    rw [hE, LFree_geo] at hf
    rw [hE] at he
    obtain ⟨x, hx, rfl⟩ := List.mem_map.mp he
    exact h.inside s hs.1 ((h.nowarn_iff s hs.1).mpr ⟨hd, hf⟩) x hx j hj
  outside := by
    intro s a hno
    rw [hE, LClaims_geo] at hno
    exact h.outside s a hno
  used_iff := by
    intro s hs a
    rw [hE, LClaims_geo]
    exact h.used_iff s hs.1 a
  nowarn_of := by
    intro s hs hd hf
    rw [hE, LDisj_geo] at hd
    rw [hE, LFree_geo] at hf
    exact (h.nowarn_iff s hs.1).mpr ⟨hd, hf⟩
  disj_of := by
    intro s hs hw _
    rw [hE, LDisj_geo, LFree_geo]
    exact (h.nowarn_iff s hs.1).mp hw
  length := fun s => by rw [hext]; exact h.length s
  within := by
    intro org c e he
    rw [hE] at he
    obtain ⟨x, hx, rfl⟩ := List.mem_map.mp he
    rw [hext]
    exact h.within org c x hx

/-! ### combinators -/

def Lay2.nil : Lay2 := { ents := fun _ _ => [], cur := fun _ c => c, ext := fun _ _ => 0 }

def Lay2.seq (a b : Lay2) : Lay2 where
  ents := fun org c => a.ents org c ++ b.ents org (a.cur org c)
  cur := fun org c => b.cur org (a.cur org c)
  ext := fun org c => max (a.ext org c) (b.ext org (a.cur org c))

def Lay2.inOrigin (l : Lay2) : Lay2 where
  ents := fun _ c => l.ents c c
  cur := fun _ c => l.cur c c
  ext := fun _ c => l.ext c c

def Lay2.atPos (bp : Option Nat) (l : Lay2) : Lay2 where
  ents := fun org c => l.ents org (posOf bp org c)
  cur := fun org c => l.cur org (posOf bp org c)
  ext := fun org c => l.ext org (posOf bp org c)

/-- the cursor is put back where it was (`Pair.peek`) -/
def Lay2.peek (l : Lay2) : Lay2 := { l with cur := fun _ c => c }

theorem Foot2.nil : Foot2 id Lay2.nil := Foot.nil.to2 Lay2.nil (fun _ _ => rfl) (fun _ _ => rfl) (fun _ _ => rfl)

theorem Lay2.seq_E (a b : Lay2) (org c : Nat) : (a.seq b).E org c = a.E org c ++ b.E org (a.cur org c) := by
  simp only [Lay2.E, Lay2.seq, List.map_append]

theorem Foot2.seq {ea eb : EncState → EncState} {la lb : Lay2} (ha : Foot2 ea la) (hb : Foot2 eb lb) :
    Foot2 (fun s => eb (ea s)) (la.seq lb) := by
  have hposE : ∀ s, lb.E (ea s).origin (ea s).cursorByte = lb.E s.origin (la.cur s.origin s.cursorByte) := by
    intro s; rw [ha.origin, ha.cursor]
  have hpos : ∀ s, lb.ents (ea s).origin (ea s).cursorByte = lb.ents s.origin (la.cur s.origin s.cursorByte) := by
    intro s; rw [ha.origin, ha.cursor]
  have hsplit : ∀ s, (eb (ea s)).warn = s.warn ↔ ((ea s).warn = s.warn ∧ (eb (ea s)).warn = (ea s).warn) := by
    intro s
    have h1 := ha.warn_mono s
    have h2 := hb.warn_mono (ea s)
    constructor
    · intro h; constructor <;> omega
    · intro h; omega
  -- disjoint and free for the whole ⇒ for the parts (the second part relative to the state behind the first)
  have hparts : ∀ s, Clean s → LDisj (la.E s.origin s.cursorByte ++ lb.E s.origin (la.cur s.origin s.cursorByte)) →
      LFree s.used (la.E s.origin s.cursorByte ++ lb.E s.origin (la.cur s.origin s.cursorByte)) →
      (LDisj (la.E s.origin s.cursorByte) ∧ LFree s.used (la.E s.origin s.cursorByte)) ∧
      (LDisj (lb.E s.origin (la.cur s.origin s.cursorByte)) ∧ LFree (ea s).used (lb.E s.origin (la.cur s.origin s.cursorByte))) ∧
      (∀ a, ¬ (LClaims (la.E s.origin s.cursorByte) a ∧ LClaims (lb.E s.origin (la.cur s.origin s.cursorByte)) a)) := by
    intro s hs hd hf
    rw [LDisj_append] at hd
    rw [LFree_append] at hf
    obtain ⟨hda, hdb, hcr⟩ := hd
    obtain ⟨hfa, hfb⟩ := hf
    refine ⟨⟨hda, hfa⟩, ⟨hdb, ?_⟩, hcr⟩
    intro e he a hc
    rw [getBit_false_iff]
    intro h
    rcases (ha.used_iff s hs a).mp h with h | h
    · have := hfb e he a hc
      rw [this] at h; cases h
    · exact hcr a ⟨h, e, he, hc⟩
  exact {
    cursor := fun s => by show (eb (ea s)).cursorByte = _; rw [hb.cursor, ha.origin, ha.cursor]; rfl
    origin := fun s => by show (eb (ea s)).origin = _; rw [hb.origin, ha.origin]
    warn_mono := fun s => Nat.le_trans (ha.warn_mono s) (hb.warn_mono _)
    inv := fun s h => hb.inv _ (ha.inv s h)
    inside := by
      intro s hs hd hf e he j hj
      rw [Lay2.seq_E] at hd hf he
      obtain ⟨⟨hda, hfa⟩, ⟨hdb, hfb⟩, hcr⟩ := hparts s hs hd hf
      rcases List.mem_append.mp he with h | h
      · have h1 := ha.inside s hs hda hfa e h j hj
        have hcl : LClaims (la.E s.origin s.cursorByte) (e.abs j) := ⟨e, h, j, hj, rfl⟩
        have hno : ¬ LClaims (lb.E (ea s).origin (ea s).cursorByte) (e.abs j) := by
          rw [hposE]; exact fun hc => hcr _ ⟨hcl, hc⟩
        show getBit (eb (ea s)).msg (e.abs j) = _
        rw [hb.outside (ea s) _ hno, h1]
      · rw [← hposE] at h hdb hfb
        exact hb.inside (ea s) (ha.inv s hs) hdb hfb e h j hj
    outside := by
      intro s a hno
      rw [Lay2.seq_E, LClaims_append] at hno
      show getBit (eb (ea s)).msg a = _
      rw [hb.outside (ea s) a (by rw [hposE]; exact fun h => hno (Or.inr h)), ha.outside s a (fun h => hno (Or.inl h))]
    used_iff := by
      intro s hs a
      show getBit (eb (ea s)).used a = true ↔ _
      rw [hb.used_iff (ea s) (ha.inv s hs) a, ha.used_iff s hs a, hposE, Lay2.seq_E, LClaims_append]
      exact or_assoc
    nowarn_of := by
      intro s hs hd hf
      rw [Lay2.seq_E] at hd hf
      obtain ⟨⟨hda, hfa⟩, ⟨hdb, hfb⟩, _⟩ := hparts s hs hd hf
      rw [← hposE] at hdb hfb
      exact (hsplit s).mpr ⟨ha.nowarn_of s hs hda hfa, hb.nowarn_of (ea s) (ha.inv s hs) hdb hfb⟩
    disj_of := by
      intro s hs hw hp
      obtain ⟨hwa, hwb⟩ := (hsplit s).mp hw
      have hp' : PadOk (la.ents s.origin s.cursorByte ++ lb.ents s.origin (la.cur s.origin s.cursorByte))
          (fun a => getBit s.used a = true) := hp
      rw [PadOk_append] at hp'
      obtain ⟨hda, hfa⟩ := ha.disj_of s hs hwa hp'.1
      have hpb : PadOk (lb.ents (ea s).origin (ea s).cursorByte) (fun a => getBit (ea s).used a = true) := by
        rw [hpos]
        exact (PadOk_congr _ _ _ (fun a => (ha.used_iff s hs a).symm)).mp hp'.2
      obtain ⟨hdb, hfb⟩ := hb.disj_of (ea s) (ha.inv s hs) hwb hpb
      rw [hposE] at hdb hfb
      rw [Lay2.seq_E, LDisj_append, LFree_append]
      have hcr : ∀ a, ¬ (LClaims (la.E s.origin s.cursorByte) a ∧ LClaims (lb.E s.origin (la.cur s.origin s.cursorByte)) a) := by
        rintro a ⟨h1, e, he, hc⟩
        have := hfb e he a hc
        rw [getBit_false_iff] at this
        exact this ((ha.used_iff s hs a).mpr (Or.inr h1))
      refine ⟨⟨hda, hdb, hcr⟩, hfa, ?_⟩
      intro e he a hc
      have := hfb e he a hc
      rw [getBit_false_iff] at this ⊢
      exact fun h => this ((ha.used_iff s hs a).mpr (Or.inl h))
    length := by
      intro s
      show (eb (ea s)).msg.length = max s.msg.length (max (la.ext s.origin s.cursorByte) (lb.ext s.origin (la.cur s.origin s.cursorByte)))
      rw [hb.length, ha.length, ha.origin, ha.cursor]
      omega
    within := by
      intro org c e he
      rw [Lay2.seq_E] at he
      show e.wf ∧ e.pos + e.k ≤ max (la.ext org c) (lb.ext org (la.cur org c))
      rcases List.mem_append.mp he with h | h
      · have := ha.within org c e h
        exact ⟨this.1, by omega⟩
      · have := hb.within org (la.cur org c) e h
        exact ⟨this.1, by omega⟩ }

theorem Foot2.inOrigin {enc : EncState → EncState} {l : Lay2} (h : Foot2 enc l) :
    Foot2 (fun s => { enc { s with origin := s.cursorByte } with origin := s.origin }) l.inOrigin where
  cursor := fun s => h.cursor { s with origin := s.cursorByte }
  origin := fun _ => rfl
  warn_mono := fun s => h.warn_mono { s with origin := s.cursorByte }
  inv := fun s hu => h.inv { s with origin := s.cursorByte } hu
  inside := fun s hu => h.inside { s with origin := s.cursorByte } hu
  outside := fun s => h.outside { s with origin := s.cursorByte }
  used_iff := fun s hu => h.used_iff { s with origin := s.cursorByte } hu
  nowarn_of := fun s hu => h.nowarn_of { s with origin := s.cursorByte } hu
  disj_of := fun s hu => h.disj_of { s with origin := s.cursorByte } hu
  length := fun s => h.length { s with origin := s.cursorByte }
  within := fun _ c => h.within c c

theorem Foot2.atPos (bp : Option Nat) {enc : EncState → EncState} {l : Lay2} (h : Foot2 enc l) :
    Foot2 (fun s => enc { s with cursorByte := posOf bp s.origin s.cursorByte }) (l.atPos bp) where
  cursor := fun s => h.cursor { s with cursorByte := posOf bp s.origin s.cursorByte }
  origin := fun s => h.origin { s with cursorByte := posOf bp s.origin s.cursorByte }
  warn_mono := fun s => h.warn_mono { s with cursorByte := posOf bp s.origin s.cursorByte }
  inv := fun s hu => h.inv { s with cursorByte := posOf bp s.origin s.cursorByte } hu
  inside := fun s hu => h.inside { s with cursorByte := posOf bp s.origin s.cursorByte } hu
  outside := fun s => h.outside { s with cursorByte := posOf bp s.origin s.cursorByte }
  used_iff := fun s hu => h.used_iff { s with cursorByte := posOf bp s.origin s.cursorByte } hu
  nowarn_of := fun s hu => h.nowarn_of { s with cursorByte := posOf bp s.origin s.cursorByte } hu
  disj_of := fun s hu => h.disj_of { s with cursorByte := posOf bp s.origin s.cursorByte } hu
  length := fun s => h.length { s with cursorByte := posOf bp s.origin s.cursorByte }
  within := fun org c => h.within org (posOf bp org c)

theorem Foot2.peek {enc : EncState → EncState} {l : Lay2} (h : Foot2 enc l) :
    Foot2 (fun s => { enc s with cursorByte := s.cursorByte }) l.peek where
  cursor := fun _ => rfl
  origin := h.origin
  warn_mono := h.warn_mono
  inv := fun s hu => h.inv s hu
  inside := fun s hu => h.inside s hu
  outside := fun s => h.outside s
  used_iff := fun s hu => h.used_iff s hu
  nowarn_of := fun s hu => h.nowarn_of s hu
  disj_of := fun s hu => h.disj_of s hu
  length := fun s => h.length s
  within := fun org c => h.within org c

/-- equal encoders have the same footprint -/
theorem Foot2.congr {e1 e2 : EncState → EncState} {l : Lay2} (h : Foot2 e1 l) (he : ∀ s, e2 s = e1 s) : Foot2 e2 l := by
  have : e2 = e1 := funext he
  rw [this]; exact h

end OdxVerif.Codec
