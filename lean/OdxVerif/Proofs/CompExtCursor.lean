import OdxVerif.Proofs.CompDescribed
/-! Compositional components, extension W11 (1): **"decoding consumes the whole PDU"**.  The message-level round trip of
    `Proofs/CompCore.lean` once more, with the cursor `decodeMessage` returns made explicit: it is the encoder's final
    cursor (`DComp.size` / `Comps.cur gs 0 0`, a function of the description and the values alone: `Good.rt` hands the
    decoder's cursor back).  Whether that is `pdu.length` is a property of the *layout*: explicitly positioned parameters
    may be listed out of wire order (the cursor stays behind the LAST LISTED parameter).  `Comps.cur gs 0 0 = pdu.length`
    ("the last listed parameter ends last") is therefore the exact condition — it is automatically true when a parameter
    needs the end of the PDU (`hend`).  Core Lean only. -/
namespace OdxVerif.Codec
open OdxVerif.Bits OdxVerif.OdxM

/-- the message-level argument, from exactly what it uses: the pair composes, the model's encoder equals it from the initial
    state of `Request.encode` / `Response.encode`, the model's decoder equals it on the PDU, and the decoder's extra
    precondition holds once the decoder is known to stop where the encoder stopped -/
theorem roundtrip_msg_core (c : DComp) (bs : Option Nat) (ps : List Param) (hdop : c.dop = .struct bs ps)
    (trig : Option Bytes) (pdu : Bytes) (hg : Good c.pair)
    (henc_eq : ∃ s', encodeDop modelFuel c.dop c.sup { trig := trig, isEndOfPdu := true } true = .ok ((), s') ∧
      SameCore s' (c.pair.enc { trig := trig, isEndOfPdu := true }))
    (hcur : (c.pair.enc { trig := trig, isEndOfPdu := true }).cursorByte = c.size)
    (hdec : c.pair.fits { msg := pdu } → c.decPre { msg := pdu } →
      decodeDop modelFuel c.dop { msg := pdu } true = .ok ((c.pair.dec { msg := pdu }).1, (c.pair.dec { msg := pdu }).2))
    (hpre : (c.pair.dec { msg := pdu }).2.cursorByte = c.size → c.decPre { msg := pdu })
    (henc : encodeMessage bs ps c.sup trig true = .ok (pdu, 0)) :
    decodeMessage bs ps pdu true = .ok (c.pair.val, c.size) ∧ pdu = (c.pair.enc { trig := trig, isEndOfPdu := true }).msg := by
  let s0 : EncState := { trig := trig, isEndOfPdu := true }
  obtain ⟨s1, hrun, hcore⟩ := henc_eq
  rw [hdop] at hrun
  have hrun' : encodeDop modelFuel (.struct bs ps) c.sup { trig := trig, isEndOfPdu := true } true = .ok ((), s1) := hrun
  unfold encodeMessage at henc
  rw [hrun'] at henc
  simp only [Except.ok.injEq, Prod.mk.injEq] at henc
  obtain ⟨hpdu, hwarn⟩ := henc
  have hall : AllBytes s0.msg := by intro b hb; cases hb
  have hm : (c.pair.enc s0).msg = pdu := by rw [← hcore.1]; exact hpdu
  have hw : (c.pair.enc s0).warn = s0.warn := by rw [← hcore.2.2.1]; exact hwarn
  obtain ⟨hv, hcur', _, _, hfit⟩ := hg.rt s0 { msg := pdu } hall hw rfl rfl
    (by rw [← hm]; exact hg.allBytes s0 hall) (by rw [hm]; exact Nat.le_refl _) (by intro a _; rw [hm])
  have hsize : (c.pair.dec { msg := pdu }).2.cursorByte = c.size := by rw [hcur']; exact hcur
  have hdec' := hdec hfit (hpre hsize)
  rw [hdop] at hdec'
  refine ⟨?_, hm.symm⟩
  unfold decodeMessage
  rw [hdec', hv]
  simp only [hsize]

/-- `dcomp_roundtrip_msg` with the returned cursor: the decoder stops where the encoder stopped, `c.size` bytes behind the
    first byte.  Also for a stand-alone STRUCTURE with BYTE-SIZE (`bs`). -/
theorem dcomp_roundtrip_msg_cur (c : DComp) (hok : c.Ok) (bs : Option Nat) (ps : List Param) (hdop : c.dop = .struct bs ps)
    (hneed : c.need ≤ modelFuel) (trig : Option Bytes) (pdu : Bytes) (hpre : c.decPre { msg := pdu })
    (henc : encodeMessage bs ps c.sup trig true = .ok (pdu, 0)) :
    decodeMessage bs ps pdu true = .ok (c.pair.val, c.size) ∧ pdu = (c.pair.enc { trig := trig, isEndOfPdu := true }).msg := by
  obtain ⟨s1, hrun, hcore, _⟩ := hok.encode_eq modelFuel hneed { trig := trig, isEndOfPdu := true } rfl (fun _ => rfl)
  refine roundtrip_msg_core c bs ps hdop trig pdu hok.good ⟨s1, hrun, hcore⟩ ?_
    (fun hfit hp => hok.decode_eq modelFuel hneed { msg := pdu } rfl hfit hp) (fun _ => hpre) henc
  rw [hok.enc_cursor]
  show 0 + c.size = c.size
  omega

/-- the encoder's cursor behind a list of components, run from the empty state -/
theorem Comps.cur_eq_enc (gs : List Comp) (hok : Comps.okAll gs) : ((Comps.pair gs).enc {}).cursorByte = Comps.cur gs 0 0 :=
  Comps.enc_cursor gs hok {}

/-- `comps_roundtrip_msg_pre` with the cursor: `Comps.cur gs 0 0`, the position behind the last listed parameter -/
theorem comps_roundtrip_msg_pre_cur (gs : List Comp) (hneed : Comps.need gs + 2 ≤ modelFuel) (hok : Comps.okAll gs)
    (hlast : Comps.eopLast gs) (hn : Comps.namesOk gs) (trig : Option Bytes) (pdu : Bytes)
    (hpre : Comps.decPre gs { msg := pdu })
    (henc : encodeMessage none (Comps.toParams gs) (.dict (Comps.values gs)) trig true = .ok (pdu, 0)) :
    decodeMessage none (Comps.toParams gs) pdu true = .ok (.dict (Comps.pair gs).val, Comps.cur gs 0 0) :=
  (dcomp_roundtrip_msg_cur (DComp.struct gs) (DComp.struct_ok gs hok hn hlast) none _ rfl hneed trig pdu hpre henc).1

/-- the decoder preconditions of the END-OF-PDU kind on the PDU, from `hend` (as in `comps_roundtrip_msg`) -/
theorem Comps.decPre_of_hend (gs : List Comp) (hneed : Comps.need gs + 2 ≤ modelFuel) (hok : Comps.okAll gs)
    (hendOk : Comps.endOkAll gs) (hlast : Comps.eopLast gs) (hn : Comps.namesOk gs) (trig : Option Bytes) (pdu : Bytes)
    (hend : Comps.anyEop gs = true → Comps.cur gs 0 0 = pdu.length)
    (henc : encodeMessage none (Comps.toParams gs) (.dict (Comps.values gs)) trig true = .ok (pdu, 0)) :
    Comps.decPre gs { msg := pdu } := by
  have hok' := DComp.struct_ok gs hok hn hlast
  let s0 : EncState := { trig := trig, isEndOfPdu := true }
  obtain ⟨s1, hrun, hcore, _⟩ := hok'.encode_eq modelFuel hneed s0 rfl (fun _ => rfl)
  have hrun' : encodeDop modelFuel (.struct none (Comps.toParams gs)) (.dict (Comps.values gs))
      { trig := trig, isEndOfPdu := true } true = .ok ((), s1) := hrun
  have henc' := henc
  unfold encodeMessage at henc'
  rw [hrun'] at henc'
  simp only [Except.ok.injEq, Prod.mk.injEq] at henc'
  obtain ⟨hpdu, hwarn⟩ := henc'
  have hg := hok'.good
  have hall : AllBytes s0.msg := by intro b hb; cases hb
  have hm : ((DComp.struct gs).pair.enc s0).msg = pdu := by rw [← hcore.1]; exact hpdu
  have hw : ((DComp.struct gs).pair.enc s0).warn = s0.warn := by rw [← hcore.2.2.1]; exact hwarn
  obtain ⟨_, hcur, _, _, _⟩ := hg.rt s0 { msg := pdu } hall hw rfl rfl
    (by rw [← hm]; exact hg.allBytes s0 hall) (by rw [hm]; exact Nat.le_refl _) (by intro a _; rw [hm])
  apply Comps.decPre_intro gs hok hendOk hlast
  intro hany
  have hcur' : ((Comps.pair gs).dec { msg := pdu, origin := 0 }).2.cursorByte = ((DComp.struct gs).pair.enc s0).cursorByte := hcur
  show ((Comps.pair gs).dec { msg := pdu }).2.cursorByte = pdu.length
  rw [← hend hany]
  have := hok'.enc_cursor s0
  rw [this] at hcur'
  rw [hcur']
  show 0 + Comps.cur gs 0 0 = _
  omega

/-- **the round trip with the cursor, END-OF-PDU kind of preconditions**: the decoder returns the complete dictionary and
    stops at `Comps.cur gs 0 0`, the encoder's final cursor = the position behind the LAST LISTED parameter.  Consequently
    (second part) the decoder's final cursor is the end of the PDU *iff* the last listed parameter ends where the PDU ends. -/
theorem comps_roundtrip_msg_cur (gs : List Comp) (hneed : Comps.need gs + 2 ≤ modelFuel) (hok : Comps.okAll gs)
    (hendOk : Comps.endOkAll gs) (hlast : Comps.eopLast gs) (hn : Comps.namesOk gs) (trig : Option Bytes) (pdu : Bytes)
    (hend : Comps.anyEop gs = true → Comps.cur gs 0 0 = pdu.length)
    (henc : encodeMessage none (Comps.toParams gs) (.dict (Comps.values gs)) trig true = .ok (pdu, 0)) :
    decodeMessage none (Comps.toParams gs) pdu true = .ok (.dict (Comps.pair gs).val, Comps.cur gs 0 0) :=
  comps_roundtrip_msg_pre_cur gs hneed hok hlast hn trig pdu
    (Comps.decPre_of_hend gs hneed hok hendOk hlast hn trig pdu hend henc) henc

end OdxVerif.Codec
