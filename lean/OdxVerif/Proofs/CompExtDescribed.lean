import OdxVerif.Proofs.CompExtEndMarker
import OdxVerif.Proofs.CompExtMatching
import OdxVerif.Proofs.CompExtCursor
import OdxVerif.Proofs.CompExtFieldsD
/-! Compositional components, extension W11: the inductive predicate **`Described2`** — `Described` of
    `Proofs/CompDescribed.lean` with every constructor restated over parameters that carry the flag `mid` ("can only be
    encoded while `is_end_of_pdu` is cleared", `MComp`), STRUCTUREs and field items with optional BYTE-SIZE, and the new
    constructors: MIN-MAX-LENGTH-TYPE leaves (terminated — `mid` —, of exactly MAX-LENGTH, ended by the end of the PDU),
    LEADING-LENGTH-INFO-TYPE leaves, DYNAMIC-ENDMARKER-FIELDs (at the end of the PDU, or with the end marker written — `mid`).
    Soundness `Described2.ok`; the top level additionally admits MATCHING-REQUEST-PARAMs (`DescribedTop`, relative to the
    triggering request); `mcomps_roundtrip_msg_cur` is the message-level round trip with the cursor for such parameter lists. -/
namespace OdxVerif.Codec
open OdxVerif.Bits OdxVerif.OdxM

/-! ### STRUCTURE with optional BYTE-SIZE -/

def DComp.structO (bso : Option Nat) (gs : List Comp) : DComp :=
  match bso with
  | none => DComp.struct gs
  | some bs => DComp.structBS bs gs

theorem DComp.structO_dop (bso : Option Nat) (gs : List Comp) : (DComp.structO bso gs).dop = .struct bso (Comps.toParams gs) := by
  cases bso <;> rfl

theorem DComp.structO_val (bso : Option Nat) (gs : List Comp) : (DComp.structO bso gs).pair.val = .dict (Comps.pair gs).val := by
  cases bso <;> rfl

theorem DComp.structO_eopOnly (bso : Option Nat) (gs : List Comp) : (DComp.structO bso gs).eopOnly = Comps.anyEop gs := by
  cases bso <;> rfl

/-- what a BYTE-SIZE demands: the content ends within it (the encoder does not check this, the decoder does), and there is
    no END-OF-PDU object in last position -/
def sizeSide (bso : Option Nat) (gs : List Comp) : Prop :=
  ∀ bs, bso = some bs → Comps.cur gs 0 0 ≤ bs ∧ Comps.anyEop gs = false

theorem DComp.structOM_okM (bso : Option Nat) (ms : List MComp) (hok : MComps.okAll (fun _ => True) ms)
    (hn : Comps.namesOk (MComps.cs ms)) (hlast : Comps.eopLast (MComps.cs ms))
    (hsz : sizeSide bso (MComps.cs ms)) : (DComp.structO bso (MComps.cs ms)).OkM (MComps.lastMid ms) := by
  cases bso with
  | none => exact DComp.structM_okM ms hok hn hlast
  | some bs =>
    exact DComp.withByteSize_okM bs _ _ _ (DComp.structM_okM ms hok hn hlast) rfl (by simp [DComp.struct]) (hsz bs rfl).1

theorem DComp.structOM_ok (bso : Option Nat) (ms : List MComp) (hok : MComps.okAll (fun _ => True) ms)
    (hn : Comps.namesOk (MComps.cs ms)) (hlast : Comps.eopLast (MComps.cs ms)) (hmid : MComps.midNotLast ms)
    (hsz : sizeSide bso (MComps.cs ms)) : (DComp.structO bso (MComps.cs ms)).Ok := by
  have h := DComp.structOM_okM bso ms hok hn hlast hsz
  rw [show MComps.lastMid ms = false from hmid] at h
  exact h.toOk

theorem DComp.structOM_endOk (bso : Option Nat) (ms : List MComp) (hok : MComps.okAll (fun _ => True) ms)
    (hend : Comps.endOkAll (MComps.cs ms)) (hlast : Comps.eopLast (MComps.cs ms)) (hsz : sizeSide bso (MComps.cs ms)) :
    (DComp.structO bso (MComps.cs ms)).EndOk := by
  cases bso with
  | none => exact DComp.structM_endOk ms hok hend hlast
  | some bs => exact DComp.withByteSize_endOk bs _ _ (DComp.structM_endOk ms hok hend hlast) (hsz bs rfl).2

/-- what a field demands of the value assignment `k` of its item structure (parameters `shape`, optional BYTE-SIZE `bso`):
    same parameters, distinct sibling names, no END-OF-PDU object in last position, no parameter that needs the flag cleared
    in last position, content within the BYTE-SIZE -/
def itemSide2 (bso : Option Nat) (shape : List Param) (k : List MComp) : Prop :=
  Comps.toParams (MComps.cs k) = shape ∧ Comps.namesOk (MComps.cs k) ∧ Comps.anyEop (MComps.cs k) = false ∧
  MComps.midNotLast k ∧ sizeSide bso (MComps.cs k)

/-- the item structures of a field -/
def itemsO (bso : Option Nat) (items : List (List MComp)) : List DComp := items.map (fun k => DComp.structO bso (MComps.cs k))

theorem structItems2_ok (bso : Option Nat) (shape : List Param) (items : List (List MComp))
    (ih : ∀ k ∈ items, ∀ m ∈ k, (∀ P, m.c.OkM m.mid P) ∧ m.c.EndOk) (hside : ∀ k ∈ items, itemSide2 bso shape k) :
    ∀ c ∈ itemsO bso items, c.itemOk (.struct bso shape) ∧ c.EndOk := by
  intro c hc
  obtain ⟨k, hk, rfl⟩ := List.mem_map.mp hc
  obtain ⟨hshape, hn, hno, hmid, hsz⟩ := hside k hk
  have hok := MComps.okAll_of_forall (fun _ => True) k (fun m hm => (ih k hk m hm).1 _)
  have hend : Comps.endOkAll (MComps.cs k) := Comps.endOkAll_of_forall _ (fun g hg => by
    obtain ⟨m, hm, rfl⟩ := MComps.mem_cs hg
    exact (ih k hk m hm).2)
  have hlast := Comps.eopLast_of_noEop _ hno
  refine ⟨⟨DComp.structOM_ok bso k hok hn hlast hmid hsz, ?_, ?_⟩, DComp.structOM_endOk bso k hok hend hlast hsz⟩
  · rw [DComp.structO_dop, hshape]
  · rw [DComp.structO_eopOnly]; exact hno

/-- what a STATIC-FIELD demands of an item's value assignment: as `itemSide2`, but the item may END with a parameter that needs
    `is_end_of_pdu` cleared (every item of a static field is encoded with the flag cleared) -/
def itemSideS (bso : Option Nat) (shape : List Param) (k : List MComp) : Prop :=
  Comps.toParams (MComps.cs k) = shape ∧ Comps.namesOk (MComps.cs k) ∧ Comps.anyEop (MComps.cs k) = false ∧
  sizeSide bso (MComps.cs k)

theorem itemSide2.toS {bso : Option Nat} {shape : List Param} {k : List MComp} (h : itemSide2 bso shape k) : itemSideS bso shape k :=
  ⟨h.1, h.2.1, h.2.2.1, h.2.2.2.2⟩

theorem structItemsS_ok (bso : Option Nat) (shape : List Param) (items : List (List MComp))
    (ih : ∀ k ∈ items, ∀ m ∈ k, (∀ P, m.c.OkM m.mid P) ∧ m.c.EndOk) (hside : ∀ k ∈ items, itemSideS bso shape k) :
    ∀ c ∈ itemsO bso items, c.itemOkM (.struct bso shape) ∧ c.EndOk := by
  intro c hc
  obtain ⟨k, hk, rfl⟩ := List.mem_map.mp hc
  obtain ⟨hshape, hn, hno, hsz⟩ := hside k hk
  have hok := MComps.okAll_of_forall (fun _ => True) k (fun m hm => (ih k hk m hm).1 _)
  have hend : Comps.endOkAll (MComps.cs k) := Comps.endOkAll_of_forall _ (fun g hg => by
    obtain ⟨m, hm, rfl⟩ := MComps.mem_cs hg
    exact (ih k hk m hm).2)
  have hlast := Comps.eopLast_of_noEop _ hno
  refine ⟨⟨(DComp.structOM_okM bso k hok hn hlast hsz).weaken, ?_, ?_⟩, DComp.structOM_endOk bso k hok hend hlast hsz⟩
  · rw [DComp.structO_dop, hshape]
  · rw [DComp.structO_eopOnly]; exact hno

/-- the flag of the last item of a field: the dynamic fields encode every item but the last with `is_end_of_pdu` cleared -/
def itemsLastMid (items : List (List MComp)) : Bool :=
  match items.getLast? with
  | some k => MComps.lastMid k
  | none => false

theorem itemsO_lastM (bso : Option Nat) (shape : List Param) (items : List (List MComp))
    (ih : ∀ k ∈ items, ∀ m ∈ k, (∀ P, m.c.OkM m.mid P) ∧ m.c.EndOk) (hside : ∀ k ∈ items, itemSideS bso shape k) :
    ∀ c, (itemsO bso items).getLast? = some c → c.OkM (itemsLastMid items) := by
  intro c hc
  simp only [itemsO, List.getLast?_map] at hc
  unfold itemsLastMid
  cases hl : items.getLast? with
  | none => rw [hl] at hc; cases hc
  | some k =>
    rw [hl] at hc
    simp only [Option.map_some, Option.some.injEq] at hc
    subst hc
    have hk : k ∈ items := List.mem_of_getLast? hl
    obtain ⟨_, hn, hno, hsz⟩ := hside k hk
    have hok := MComps.okAll_of_forall (fun _ => True) k (fun m hm => (ih k hk m hm).1 _)
    exact DComp.structOM_okM bso k hok hn (Comps.eopLast_of_noEop _ hno) hsz

theorem itemsLastMid_false (items : List (List MComp)) (h : ∀ k, items.getLast? = some k → MComps.midNotLast k) :
    itemsLastMid items = false := by
  unfold itemsLastMid
  cases hl : items.getLast? with
  | none => rfl
  | some k => exact h k hl

/-- **the described parameters, second edition**: `Described2 g mid` — `mid`: the parameter can only be encoded while
    `is_end_of_pdu` is cleared, i.e. not as the last parameter of its structure -/
inductive Described2 : Comp → Bool → Prop
  | value (o : Obj) (v : IVal) : o.ok → o.inRange v → Described2 (Comp.ofObjValue o v) false
  | valueDefault (o : Obj) (dv : IVal) (sup : Option IVal) : o.ok → o.inRange (sup.getD dv) →
      Described2 (Comp.ofObjDefault o dv sup) false
  | const (o : Obj) (v : IVal) (supplied : Bool) : o.ok → o.inRange v → Described2 (Comp.ofObjConst o v supplied) false
  | physConst (o : Obj) (v : IVal) (supplied : Bool) : o.ok → o.inRange v → Described2 (Comp.ofObjPhysConst o v supplied) false
  | minmaxMid (l : MMLeaf) : l.okMid → Described2 (Comp.ofMinMaxMid l) true
  | minmaxFull (l : MMLeaf) : l.okFull → Described2 (Comp.ofMinMaxFull l) false
  | minmaxLast (l : MMLeaf) : l.okLast → Described2 (Comp.ofMinMaxLast l) false
  | leading (l : LeadLeaf) : l.ok → Described2 (Comp.ofLeading l) false
  | struct (name : String) (bp : Option Nat) (bso : Option Nat) (ms : List MComp) :
      (∀ m ∈ ms, Described2 m.c m.mid) → Comps.namesOk (MComps.cs ms) → Comps.eopLast (MComps.cs ms) →
      sizeSide bso (MComps.cs ms) →
      Described2 (Comp.ofValue name bp (DComp.structO bso (MComps.cs ms))) (MComps.lastMid ms)
  | staticField (name : String) (bp : Option Nat) (itemSize : Nat) (bso : Option Nat) (shape : List Param)
      (items : List (List MComp)) :
      (∀ k ∈ items, ∀ m ∈ k, Described2 m.c m.mid) →
      (∀ k ∈ items, itemSideS bso shape k ∧ (DComp.structO bso (MComps.cs k)).size ≤ itemSize) →
      Described2 (Comp.ofValue name bp (DComp.staticField itemSize (.struct bso shape) (itemsO bso items))) false
  | dynLenField (name : String) (bp : Option Nat) (l : DynLayout) (bso : Option Nat) (shape : List Param)
      (items : List (List MComp)) :
      (∀ k ∈ items, ∀ m ∈ k, Described2 m.c m.mid) →
      (∀ k ∈ items, itemSideS bso shape k ∧ 1 ≤ (DComp.structO bso (MComps.cs k)).size) → l.ok items.length →
      Described2 (Comp.ofValue name bp (DComp.dynLenField l (.struct bso shape) (itemsO bso items))) (itemsLastMid items)
  | eopField (name : String) (bp : Option Nat) (mn mx : Option Nat) (bso : Option Nat) (shape : List Param)
      (items : List (List MComp)) :
      (∀ k ∈ items, ∀ m ∈ k, Described2 m.c m.mid) →
      (∀ k ∈ items, itemSideS bso shape k ∧ 1 ≤ (DComp.structO bso (MComps.cs k)).size) →
      (∀ k, items.getLast? = some k → MComps.midNotLast k) →
      Described2 (Comp.ofValue name bp (DComp.eopField mn mx (.struct bso shape) (itemsO bso items))) false
  | mux (name : String) (bp : Option Nat) (m : MuxLayout) (ms : List MComp) :
      (∀ x ∈ ms, Described2 x.c x.mid) → Comps.namesOk (MComps.cs ms) → Comps.eopLast (MComps.cs ms) →
      m.ok (.struct none (Comps.toParams (MComps.cs ms))) →
      Described2 (Comp.ofValue name bp (DComp.mux m (DComp.struct (MComps.cs ms)))) (MComps.lastMid ms)
  | endMarkerEop (name : String) (bp : Option Nat) (l : EmLayout) (bso : Option Nat) (shape : List Param)
      (items : List (List MComp)) :
      (∀ k ∈ items, ∀ m ∈ k, Described2 m.c m.mid) → l.ok →
      (∀ k ∈ items, itemSideS bso shape k ∧ 1 ≤ (DComp.structO bso (MComps.cs k)).size ∧
        l.miss (DComp.structO bso (MComps.cs k))) →
      (∀ k, items.getLast? = some k → MComps.midNotLast k) →
      Described2 (Comp.ofValue name bp (DComp.endMarkerEop l (.struct bso shape) (itemsO bso items))) false
  | endMarkerMid (name : String) (bp : Option Nat) (l : EmLayout) (bso : Option Nat) (shape : List Param)
      (items : List (List MComp)) :
      (∀ k ∈ items, ∀ m ∈ k, Described2 m.c m.mid) → l.ok →
      (∀ k ∈ items, itemSideS bso shape k ∧ 1 ≤ (DComp.structO bso (MComps.cs k)).size ∧
        l.miss (DComp.structO bso (MComps.cs k))) →
      Described2 (Comp.ofValue name bp (DComp.endMarkerMid l (.struct bso shape) (itemsO bso items))) true

theorem itemsO_mem {bso : Option Nat} {items : List (List MComp)} {c : DComp} (hc : c ∈ itemsO bso items) :
    ∃ k ∈ items, c = DComp.structO bso (MComps.cs k) := by
  obtain ⟨k, hk, rfl⟩ := List.mem_map.mp hc
  exact ⟨k, hk, rfl⟩

/-- **soundness of `Described2`**: a component in the restricted sense (for every state property `P`), with decoder
    preconditions of the END-OF-PDU kind only -/
theorem Described2.ok {g : Comp} {mid : Bool} (h : Described2 g mid) : (∀ P, g.OkM mid P) ∧ g.EndOk := by
  induction h with
  | value o v ho hr => exact ⟨fun P => (Comp.ofObjValue_ok o v ho hr).toM _ P, Comp.ofObjValue_endOk o v⟩
  | valueDefault o dv sup ho hr => exact ⟨fun P => (Comp.ofObjDefault_ok o dv sup ho hr).toM _ P, Comp.ofObjDefault_endOk o dv sup⟩
  | const o v b ho hr => exact ⟨fun P => (Comp.ofObjConst_ok o v b ho hr).toM _ P, Comp.ofObjConst_endOk o v b⟩
  | physConst o v b ho hr => exact ⟨fun P => (Comp.ofObjPhysConst_ok o v b ho hr).toM _ P, Comp.ofObjPhysConst_endOk o v b⟩
  | minmaxMid l hl => exact ⟨fun P => Comp.ofMinMaxMid_ok l hl P, Comp.ofMinMaxMid_endOk l⟩
  | minmaxFull l hl => exact ⟨fun P => (Comp.ofMinMaxFull_ok l hl).toM _ P, Comp.ofMinMaxFull_endOk l⟩
  | minmaxLast l hl => exact ⟨fun P => (Comp.ofMinMaxLast_ok l hl).toM _ P, Comp.ofMinMaxLast_endOk l hl⟩
  | leading l hl => exact ⟨fun P => (Comp.ofLeading_ok l hl).toM _ P, Comp.ofLeading_endOk l⟩
  | struct name bp bso ms _ hn hlast hsz ih =>
    have hok := MComps.okAll_of_forall (fun _ => True) ms (fun m hm => (ih m hm).1 _)
    have hend : Comps.endOkAll (MComps.cs ms) := Comps.endOkAll_of_forall _ (fun g hg => by
      obtain ⟨m, hm, rfl⟩ := MComps.mem_cs hg
      exact (ih m hm).2)
    exact ⟨fun P => Comp.ofValueM_ok name bp _ _ (DComp.structOM_okM bso ms hok hn hlast hsz) P,
      Comp.ofValue_endOk name bp _ (DComp.structOM_endOk bso ms hok hend hlast hsz)⟩
  | staticField name bp n bso shape items _ hside ih =>
    have hitems := structItemsS_ok bso shape items ih (fun k hk => (hside k hk).1)
    refine ⟨fun P => (Comp.ofValue_ok name bp _ (DComp.staticFieldM_ok n _ _ ?_)).toM _ P,
      Comp.ofValue_endOk name bp _ (DComp.staticField_endOk n _ _)⟩
    intro c hc
    refine ⟨(hitems c hc).1, (hitems c hc).2, ?_⟩
    obtain ⟨k, hk, rfl⟩ := itemsO_mem hc
    exact (hside k hk).2
  | dynLenField name bp l bso shape items _ hside hl ih =>
    have hitems := structItemsS_ok bso shape items ih (fun k hk => (hside k hk).1)
    have hlastM := itemsO_lastM bso shape items ih (fun k hk => (hside k hk).1)
    refine ⟨fun P => Comp.ofValueM_ok name bp _ _ (DComp.dynLenFieldM_okM l _ _ _ (by simpa [itemsO] using hl) ?_ hlastM) P,
      Comp.ofValue_endOk name bp _ (DComp.dynLenField_endOk l _ _)⟩
    intro c hc
    refine ⟨(hitems c hc).1, (hitems c hc).2, ?_⟩
    obtain ⟨k, hk, rfl⟩ := itemsO_mem hc
    exact (hside k hk).2
  | eopField name bp mn mx bso shape items _ hside hlm ih =>
    have hitems := structItemsS_ok bso shape items ih (fun k hk => (hside k hk).1)
    have hlastM := itemsO_lastM bso shape items ih (fun k hk => (hside k hk).1)
    rw [itemsLastMid_false items hlm] at hlastM
    refine ⟨fun P => (Comp.ofValue_ok name bp _ (DComp.eopFieldM_ok mn mx _ _ ?_ hlastM)).toM _ P,
      Comp.ofValue_endOk name bp _ (DComp.eopField_endOk mn mx _ _)⟩
    intro c hc
    refine ⟨(hitems c hc).1, (hitems c hc).2, ?_⟩
    obtain ⟨k, hk, rfl⟩ := itemsO_mem hc
    exact (hside k hk).2
  | mux name bp m ms _ hn hlast hm ih =>
    have hok := MComps.okAll_of_forall (fun _ => True) ms (fun x hx => (ih x hx).1 _)
    have hend : Comps.endOkAll (MComps.cs ms) := Comps.endOkAll_of_forall _ (fun g hg => by
      obtain ⟨x, hx, rfl⟩ := MComps.mem_cs hg
      exact (ih x hx).2)
    exact ⟨fun P => Comp.ofValueM_ok name bp _ _ (DComp.mux_okM m _ _ (DComp.structM_okM ms hok hn hlast) hm) P,
      Comp.ofValue_endOk name bp _ (DComp.mux_endOk m _ (DComp.structM_endOk ms hok hend hlast))⟩
  | endMarkerEop name bp l bso shape items _ hl hside hlm ih =>
    have hitems := structItemsS_ok bso shape items ih (fun k hk => (hside k hk).1)
    have hlastM := itemsO_lastM bso shape items ih (fun k hk => (hside k hk).1)
    rw [itemsLastMid_false items hlm] at hlastM
    refine ⟨fun P => (Comp.ofValue_ok name bp _ (DComp.endMarkerEop_ok l hl _ _ ?_ hlastM)).toM _ P,
      Comp.ofValue_endOk name bp _ (DComp.endMarkerEop_endOk l _ _)⟩
    intro c hc
    refine ⟨(hitems c hc).1, (hitems c hc).2, ?_⟩
    obtain ⟨k, hk, rfl⟩ := itemsO_mem hc
    exact (hside k hk).2
  | endMarkerMid name bp l bso shape items _ hl hside ih =>
    have hitems := structItemsS_ok bso shape items ih (fun k hk => (hside k hk).1)
    refine ⟨fun P => Comp.ofValueM_ok name bp _ true (DComp.endMarkerMid_ok l hl _ _ ?_) P,
      Comp.ofValue_endOk name bp _ (DComp.endMarkerMid_endOk l _ _)⟩
    intro c hc
    refine ⟨(hitems c hc).1, (hitems c hc).2, ?_⟩
    obtain ⟨k, hk, rfl⟩ := itemsO_mem hc
    exact (hside k hk).2

/-! ### `Described2` extends `Described` -/

theorem MComps.mem_ofComps {gs : List Comp} {m : MComp} (hm : m ∈ MComps.ofComps gs) : ∃ g ∈ gs, m = { c := g, mid := false } := by
  obtain ⟨g, hg, rfl⟩ := List.mem_map.mp hm
  exact ⟨g, hg, rfl⟩

theorem itemsO_ofComps (items : List (List Comp)) : itemsO none (items.map MComps.ofComps) = items.map DComp.struct := by
  simp only [itemsO, List.map_map]
  apply List.map_congr_left
  intro k _
  show DComp.structO none (MComps.cs (MComps.ofComps k)) = DComp.struct k
  rw [MComps.cs_ofComps]
  rfl

theorem itemSide2_ofComps (shape : List Param) (k : List Comp) (h : itemSide shape k) :
    itemSide2 none shape (MComps.ofComps k) := by
  obtain ⟨h1, h2, h3⟩ := h
  refine ⟨?_, ?_, ?_, MComps.midNotLast_ofComps k, fun _ hb => nomatch hb⟩ <;> rw [MComps.cs_ofComps] <;> assumption

theorem structO_size_ofComps (k : List Comp) : (DComp.structO none (MComps.cs (MComps.ofComps k))).size = Comps.cur k 0 0 := by
  rw [MComps.cs_ofComps]; rfl

theorem lastMid_map_ofComps (items : List (List Comp)) :
    ∀ k, (items.map MComps.ofComps).getLast? = some k → MComps.midNotLast k := by
  intro k hk
  simp only [List.getLast?_map] at hk
  cases hl : items.getLast? with
  | none => rw [hl] at hk; cases hk
  | some k0 =>
    rw [hl] at hk
    simp only [Option.map_some, Option.some.injEq] at hk
    subst hk
    exact MComps.midNotLast_ofComps k0

/-- **every `Described` parameter is `Described2`** (with the flag cleared): the new theorems cover the old instances -/
theorem Described.to2 {g : Comp} (h : Described g) : Described2 g false := by
  induction h with
  | value o v ho hr => exact Described2.value o v ho hr
  | valueDefault o dv sup ho hr => exact Described2.valueDefault o dv sup ho hr
  | const o v b ho hr => exact Described2.const o v b ho hr
  | physConst o v b ho hr => exact Described2.physConst o v b ho hr
  | struct name bp gs _ hn hlast ih =>
    have h := Described2.struct name bp none (MComps.ofComps gs)
      (fun m hm => by obtain ⟨g, hg, rfl⟩ := MComps.mem_ofComps hm; exact ih g hg)
      (by rw [MComps.cs_ofComps]; exact hn) (by rw [MComps.cs_ofComps]; exact hlast) (fun _ hb => nomatch hb)
    rw [show MComps.lastMid (MComps.ofComps gs) = false from MComps.midNotLast_ofComps gs, MComps.cs_ofComps] at h
    exact h
  | staticField name bp n shape items _ hside ih =>
    have h := Described2.staticField name bp n none shape (items.map MComps.ofComps)
      (fun k hk m hm => by
        obtain ⟨k0, hk0, rfl⟩ := List.mem_map.mp hk
        obtain ⟨g, hg, rfl⟩ := MComps.mem_ofComps hm
        exact ih k0 hk0 g hg)
      (fun k hk => by
        obtain ⟨k0, hk0, rfl⟩ := List.mem_map.mp hk
        exact ⟨(itemSide2_ofComps shape k0 (hside k0 hk0).1).toS, by rw [structO_size_ofComps]; exact (hside k0 hk0).2⟩)
    rw [itemsO_ofComps] at h
    exact h
  | dynLenField name bp l shape items _ hside hl ih =>
    have h := Described2.dynLenField name bp l none shape (items.map MComps.ofComps)
      (fun k hk m hm => by
        obtain ⟨k0, hk0, rfl⟩ := List.mem_map.mp hk
        obtain ⟨g, hg, rfl⟩ := MComps.mem_ofComps hm
        exact ih k0 hk0 g hg)
      (fun k hk => by
        obtain ⟨k0, hk0, rfl⟩ := List.mem_map.mp hk
        exact ⟨(itemSide2_ofComps shape k0 (hside k0 hk0).1).toS, by rw [structO_size_ofComps]; exact (hside k0 hk0).2⟩)
      (by simpa using hl)
    rw [itemsO_ofComps, itemsLastMid_false _ (lastMid_map_ofComps items)] at h
    exact h
  | eopField name bp mn mx shape items _ hside ih =>
    have h := Described2.eopField name bp mn mx none shape (items.map MComps.ofComps)
      (fun k hk m hm => by
        obtain ⟨k0, hk0, rfl⟩ := List.mem_map.mp hk
        obtain ⟨g, hg, rfl⟩ := MComps.mem_ofComps hm
        exact ih k0 hk0 g hg)
      (fun k hk => by
        obtain ⟨k0, hk0, rfl⟩ := List.mem_map.mp hk
        exact ⟨(itemSide2_ofComps shape k0 (hside k0 hk0).1).toS, by rw [structO_size_ofComps]; exact (hside k0 hk0).2⟩)
      (lastMid_map_ofComps items)
    rw [itemsO_ofComps] at h
    exact h
  | mux name bp m gs _ hn hlast hm ih =>
    have h := Described2.mux name bp m (MComps.ofComps gs)
      (fun x hx => by obtain ⟨g, hg, rfl⟩ := MComps.mem_ofComps hx; exact ih g hg)
      (by rw [MComps.cs_ofComps]; exact hn) (by rw [MComps.cs_ofComps]; exact hlast)
      (by rw [MComps.cs_ofComps]; exact hm)
    rw [show MComps.lastMid (MComps.ofComps gs) = false from MComps.midNotLast_ofComps gs, MComps.cs_ofComps] at h
    exact h

/-! ### the top level: MATCHING-REQUEST-PARAMs -/

/-- the parameters a response to the request `trig` (a request: `trig = none`) may list at its top level -/
inductive DescribedTop (trig : Option Bytes) : Comp → Bool → Prop
  | nested (g : Comp) (mid : Bool) : Described2 g mid → DescribedTop trig g mid
  | matchingReq (n : String) (bp : Option Nat) (reqPos byteLen : Nat) (t : Bytes) :
      trig = some t → AllBytes t → reqPos + byteLen ≤ t.length → 1 ≤ byteLen → byteLen ≤ 8 →
      DescribedTop trig (Comp.matchingReq n bp reqPos byteLen t) false

theorem DescribedTop.ok {trig : Option Bytes} {g : Comp} {mid : Bool} (h : DescribedTop trig g mid) :
    g.OkM mid (TopInv trig) ∧ g.EndOk := by
  cases h with
  | nested g mid hd => exact ⟨hd.ok.1 _, hd.ok.2⟩
  | matchingReq n bp reqPos byteLen t ht hall hlen h1 h8 =>
    subst ht
    exact ⟨Comp.matchingReq_ok n bp reqPos byteLen t hall hlen h1 h8, Comp.matchingReq_endOk n bp reqPos byteLen t⟩

/-- **the message-level round trip with the cursor** for a parameter list whose members are components relative to the
    triggering request (`TopInv trig`), `mid` ones not last, END-OF-PDU ones last -/
theorem mcomps_roundtrip_msg_cur (ms : List MComp) (trig : Option Bytes) (hneed : Comps.need (MComps.cs ms) + 2 ≤ modelFuel)
    (hok : MComps.okAll (TopInv trig) ms) (hendOk : Comps.endOkAll (MComps.cs ms)) (hlast : Comps.eopLast (MComps.cs ms))
    (hmid : MComps.midNotLast ms) (hn : Comps.namesOk (MComps.cs ms)) (pdu : Bytes)
    (hend : Comps.anyEop (MComps.cs ms) = true → Comps.cur (MComps.cs ms) 0 0 = pdu.length)
    (henc : encodeMessage none (Comps.toParams (MComps.cs ms)) (.dict (Comps.values (MComps.cs ms))) trig true = .ok (pdu, 0)) :
    decodeMessage none (Comps.toParams (MComps.cs ms)) pdu true =
      .ok (.dict (Comps.pair (MComps.cs ms)).val, Comps.cur (MComps.cs ms) 0 0) := by
  obtain ⟨s1, hrun, hcore, _⟩ := DComp.structM_encode_eq (ModelInv.top trig) ms hok hn hlast modelFuel hneed
    { trig := trig, isEndOfPdu := true } rfl (fun _ => rfl)
    (fun h => by rw [show MComps.lastMid ms = false from hmid] at h; cases h) ⟨rfl, Nat.le_refl _⟩
  have hcur := DComp.structM_enc_cursor ms hok { trig := trig, isEndOfPdu := true }
  refine (roundtrip_msg_core (DComp.struct (MComps.cs ms)) none _ rfl trig pdu (DComp.structM_good ms hok) ⟨s1, hrun, hcore⟩ ?_
    (fun hfit hp => DComp.structM_decode_eq ms hok modelFuel hneed { msg := pdu } rfl hfit hp) ?_ henc).1
  · rw [hcur]
    exact Nat.zero_add _
  · intro hsz
    apply MComps.decPre_intro ms hok hendOk hlast
    intro hany
    have hsz' : ((Comps.pair (MComps.cs ms)).dec { msg := pdu, origin := 0 }).2.cursorByte = Comps.cur (MComps.cs ms) 0 0 := hsz
    show ((Comps.pair (MComps.cs ms)).dec { msg := pdu }).2.cursorByte = pdu.length
    rw [← hend hany]
    exact hsz'

end OdxVerif.Codec
