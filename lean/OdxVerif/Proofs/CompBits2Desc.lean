import OdxVerif.Proofs.CompBits2Leaf
/-! Bit-exactness for the round-6 constructors (task W17), part 3: `Desc2` — the syntactic mirror of `Described2`
    (`Proofs/CompExtDescribed.lean`; plus MATCHING-REQUEST-PARAM, allowed at the top level only: `DescribedTop`).
    By structural recursion: the component with its `mid` flag (`Desc2.mc`), the well-formedness conditions (`Desc2.wf`,
    `Desc2.wfTop`; `Desc2.described : d.wf → Described2 d.mc.c d.mc.mid`), the layout (`Desc2.lay`) with the new derived
    objects — `terminator`, `lengthPrefix`, `echo`, `marker`, `sizePadding` — and `Desc2.foot`: the second footprint law holds
    for the pure encoder of every description.  `Desc.to2` embeds the round-5 descriptions. -/
namespace OdxVerif.Codec
open OdxVerif.Bits OdxVerif.OdxM

/-- descriptions with values: the constructors of `Described2` / `DescribedTop` -/
inductive Desc2 where
  | value (o : Obj) (v : IVal)
  | valueDefault (o : Obj) (dv : IVal) (sup : Option IVal)
  | const (o : Obj) (v : IVal) (supplied : Bool)
  | physConst (o : Obj) (v : IVal) (supplied : Bool)
  | minmaxMid (l : MMLeaf)
  | minmaxFull (l : MMLeaf)
  | minmaxLast (l : MMLeaf)
  | leading (l : LeadLeaf)
  | matching (n : String) (bp : Option Nat) (reqPos byteLen : Nat) (t : Bytes)
  | struct (name : String) (bp : Option Nat) (bso : Option Nat) (kids : List Desc2)
  | staticField (name : String) (bp : Option Nat) (itemSize : Nat) (bso : Option Nat) (shape : List Param) (items : List (List Desc2))
  | dynLenField (name : String) (bp : Option Nat) (l : DynLayout) (bso : Option Nat) (shape : List Param) (items : List (List Desc2))
  | eopField (name : String) (bp : Option Nat) (mn mx : Option Nat) (bso : Option Nat) (shape : List Param) (items : List (List Desc2))
  | mux (name : String) (bp : Option Nat) (m : MuxLayout) (kids : List Desc2)
  | endMarkerEop (name : String) (bp : Option Nat) (l : EmLayout) (bso : Option Nat) (shape : List Param) (items : List (List Desc2))
  | endMarkerMid (name : String) (bp : Option Nat) (l : EmLayout) (bso : Option Nat) (shape : List Param) (items : List (List Desc2))

mutual
/-- the component a description denotes, with its flag `mid` ("needs `is_end_of_pdu` cleared") -/
def Desc2.mc : Desc2 → MComp
  | .value o v => ⟨Comp.ofObjValue o v, false⟩
  | .valueDefault o dv sup => ⟨Comp.ofObjDefault o dv sup, false⟩
  | .const o v b => ⟨Comp.ofObjConst o v b, false⟩
  | .physConst o v b => ⟨Comp.ofObjPhysConst o v b, false⟩
  | .minmaxMid l => ⟨Comp.ofMinMaxMid l, true⟩
  | .minmaxFull l => ⟨Comp.ofMinMaxFull l, false⟩
  | .minmaxLast l => ⟨Comp.ofMinMaxLast l, false⟩
  | .leading l => ⟨Comp.ofLeading l, false⟩
  | .matching n bp reqPos byteLen t => ⟨Comp.matchingReq n bp reqPos byteLen t, false⟩
  | .struct name bp bso kids =>
    ⟨Comp.ofValue name bp (DComp.structO bso (MComps.cs (Descs2.mcs kids))), MComps.lastMid (Descs2.mcs kids)⟩
  | .staticField name bp n bso shape items =>
    ⟨Comp.ofValue name bp (DComp.staticField n (.struct bso shape) (itemsO bso (Descss2.mcss items))), false⟩
  | .dynLenField name bp l bso shape items =>
    ⟨Comp.ofValue name bp (DComp.dynLenField l (.struct bso shape) (itemsO bso (Descss2.mcss items))), itemsLastMid (Descss2.mcss items)⟩
  | .eopField name bp mn mx bso shape items =>
    ⟨Comp.ofValue name bp (DComp.eopField mn mx (.struct bso shape) (itemsO bso (Descss2.mcss items))), false⟩
  | .mux name bp m kids =>
    ⟨Comp.ofValue name bp (DComp.mux m (DComp.struct (MComps.cs (Descs2.mcs kids)))), MComps.lastMid (Descs2.mcs kids)⟩
  | .endMarkerEop name bp l bso shape items =>
    ⟨Comp.ofValue name bp (DComp.endMarkerEop l (.struct bso shape) (itemsO bso (Descss2.mcss items))), false⟩
  | .endMarkerMid name bp l bso shape items =>
    ⟨Comp.ofValue name bp (DComp.endMarkerMid l (.struct bso shape) (itemsO bso (Descss2.mcss items))), true⟩
def Descs2.mcs : List Desc2 → List MComp
  | [] => []
  | d :: ds => d.mc :: Descs2.mcs ds
def Descss2.mcss : List (List Desc2) → List (List MComp)
  | [] => []
  | k :: ks => Descs2.mcs k :: Descss2.mcss ks
end

/-- the components of a parameter list -/
def Descs2.comps (ds : List Desc2) : List Comp := MComps.cs (Descs2.mcs ds)

theorem Descss2.mcss_length : (items : List (List Desc2)) → (Descss2.mcss items).length = items.length
  | [] => rfl
  | _ :: ks => by simp only [Descss2.mcss, List.length_cons, Descss2.mcss_length ks]

mutual
/-- well-formedness: the side conditions of the constructors of `Described2` (MATCHING-REQUEST-PARAM: top level only, `wfTop`) -/
def Desc2.wf : Desc2 → Prop
  | .value o v => o.ok ∧ o.inRange v
  | .valueDefault o dv sup => o.ok ∧ o.inRange (sup.getD dv)
  | .const o v _ => o.ok ∧ o.inRange v
  | .physConst o v _ => o.ok ∧ o.inRange v
  | .minmaxMid l => l.okMid
  | .minmaxFull l => l.okFull
  | .minmaxLast l => l.okLast
  | .leading l => l.ok
  | .matching _ _ _ _ _ => False
  | .struct _ _ bso kids =>
    Descs2.wf kids ∧ Comps.namesOk (Descs2.comps kids) ∧ Comps.eopLast (Descs2.comps kids) ∧ sizeSide bso (Descs2.comps kids)
  | .staticField _ _ n bso shape items =>
    Descss2.wf items ∧ ∀ k ∈ Descss2.mcss items, itemSideS bso shape k ∧ (DComp.structO bso (MComps.cs k)).size ≤ n
  | .dynLenField _ _ l bso shape items =>
    Descss2.wf items ∧ (∀ k ∈ Descss2.mcss items, itemSideS bso shape k ∧ 1 ≤ (DComp.structO bso (MComps.cs k)).size) ∧
      l.ok items.length
  | .eopField _ _ _ _ bso shape items =>
    Descss2.wf items ∧ (∀ k ∈ Descss2.mcss items, itemSideS bso shape k ∧ 1 ≤ (DComp.structO bso (MComps.cs k)).size) ∧
      (∀ k, (Descss2.mcss items).getLast? = some k → MComps.midNotLast k)
  | .mux _ _ m kids =>
    Descs2.wf kids ∧ Comps.namesOk (Descs2.comps kids) ∧ Comps.eopLast (Descs2.comps kids) ∧
      m.ok (.struct none (Comps.toParams (Descs2.comps kids)))
  | .endMarkerEop _ _ l bso shape items =>
    Descss2.wf items ∧ l.ok ∧
      (∀ k ∈ Descss2.mcss items, itemSideS bso shape k ∧ 1 ≤ (DComp.structO bso (MComps.cs k)).size ∧
        l.miss (DComp.structO bso (MComps.cs k))) ∧
      (∀ k, (Descss2.mcss items).getLast? = some k → MComps.midNotLast k)
  | .endMarkerMid _ _ l bso shape items =>
    Descss2.wf items ∧ l.ok ∧
      (∀ k ∈ Descss2.mcss items, itemSideS bso shape k ∧ 1 ≤ (DComp.structO bso (MComps.cs k)).size ∧
        l.miss (DComp.structO bso (MComps.cs k)))
def Descs2.wf : List Desc2 → Prop
  | [] => True
  | d :: ds => d.wf ∧ Descs2.wf ds
def Descss2.wf : List (List Desc2) → Prop
  | [] => True
  | k :: ks => Descs2.wf k ∧ Descss2.wf ks
end

mutual
/-- a well-formed description denotes a described parameter -/
theorem Desc2.described : (d : Desc2) → d.wf → Described2 d.mc.c d.mc.mid
  | .value o v, h => by
    simp only [Desc2.wf] at h
    exact Described2.value o v h.1 h.2
  | .valueDefault o dv sup, h => by
    simp only [Desc2.wf] at h
    exact Described2.valueDefault o dv sup h.1 h.2
  | .const o v b, h => by
    simp only [Desc2.wf] at h
    exact Described2.const o v b h.1 h.2
  | .physConst o v b, h => by
    simp only [Desc2.wf] at h
    exact Described2.physConst o v b h.1 h.2
  | .minmaxMid l, h => by
    simp only [Desc2.wf] at h
    exact Described2.minmaxMid l h
  | .minmaxFull l, h => by
    simp only [Desc2.wf] at h
    exact Described2.minmaxFull l h
  | .minmaxLast l, h => by
    simp only [Desc2.wf] at h
    exact Described2.minmaxLast l h
  | .leading l, h => by
    simp only [Desc2.wf] at h
    exact Described2.leading l h
  | .matching _ _ _ _ _, h => by
    simp only [Desc2.wf] at h
  | .struct name bp bso kids, h => by
    simp only [Desc2.wf] at h
    exact Described2.struct name bp bso _ (Descs2.described kids h.1) h.2.1 h.2.2.1 h.2.2.2
  | .staticField name bp n bso shape items, h => by
    simp only [Desc2.wf] at h
    exact Described2.staticField name bp n bso shape _ (Descss2.described items h.1) h.2
  | .dynLenField name bp l bso shape items, h => by
    simp only [Desc2.wf] at h
    exact Described2.dynLenField name bp l bso shape _ (Descss2.described items h.1) h.2.1
      (by rw [Descss2.mcss_length]; exact h.2.2)
  | .eopField name bp mn mx bso shape items, h => by
    simp only [Desc2.wf] at h
    exact Described2.eopField name bp mn mx bso shape _ (Descss2.described items h.1) h.2.1 h.2.2
  | .mux name bp m kids, h => by
    simp only [Desc2.wf] at h
    exact Described2.mux name bp m _ (Descs2.described kids h.1) h.2.1 h.2.2.1 h.2.2.2
  | .endMarkerEop name bp l bso shape items, h => by
    simp only [Desc2.wf] at h
    exact Described2.endMarkerEop name bp l bso shape _ (Descss2.described items h.1) h.2.1 h.2.2.1 h.2.2.2
  | .endMarkerMid name bp l bso shape items, h => by
    simp only [Desc2.wf] at h
    exact Described2.endMarkerMid name bp l bso shape _ (Descss2.described items h.1) h.2.1 h.2.2
theorem Descs2.described : (ds : List Desc2) → Descs2.wf ds → ∀ m ∈ Descs2.mcs ds, Described2 m.c m.mid
  | [], _ => by intro m hm; simp [Descs2.mcs] at hm
  | d :: ds, h => by
    simp only [Descs2.wf] at h
    intro m hm
    simp only [Descs2.mcs, List.mem_cons] at hm
    rcases hm with rfl | hm
    · exact Desc2.described d h.1
    · exact Descs2.described ds h.2 m hm
theorem Descss2.described : (items : List (List Desc2)) → Descss2.wf items →
    ∀ k ∈ Descss2.mcss items, ∀ m ∈ k, Described2 m.c m.mid
  | [], _ => by intro k hk; simp [Descss2.mcss] at hk
  | k :: ks, h => by
    simp only [Descss2.wf] at h
    intro k' hk'
    simp only [Descss2.mcss, List.mem_cons] at hk'
    rcases hk' with rfl | hk'
    · exact Descs2.described k h.1
    · exact Descss2.described ks h.2 k' hk'
end

/-! ### the layout -/

mutual
/-- **the layout of a description** — as `Desc.lay`, and for the round-6 constructors:
    * MIN-MAX-LENGTH leaf: the payload (`value`, the bytes as one big-endian number); if it is terminated (`minmaxMid`: not at
      the end of the PDU, shorter than MAX-LENGTH) the termination sequence behind it (`terminator`);
    * LEADING-LENGTH leaf: the `lengthPrefix` (at the parameter's byte/bit position, value = the payload's byte length), the payload;
    * MATCHING-REQUEST-PARAM: the bytes of the triggering request (`echo`);
    * STRUCTURE with BYTE-SIZE `bs` at `p`: the content, then `sizePadding` from the cursor behind the content to `p + bs`
      (absent if the content fills BYTE-SIZE) — also for every field item;
    * DYNAMIC-ENDMARKER-FIELD: the items back to back; if not at the end of the PDU, the TERMINATION-VALUE through the
      DYN-END-DOP behind the last item (`marker`; the cursor stays in front of it) -/
def Desc2.lay : Desc2 → Lay2
  | .value o v => Lay2.obj .value o.name o (o.specRepr v)
  | .valueDefault o dv sup => Lay2.obj (if sup.isSome then .value else .default) o.name o (o.specRepr (sup.getD dv))
  | .const o v _ => Lay2.obj .codedConst o.name o (o.specRepr v)
  | .physConst o v _ => Lay2.obj .physConst o.name o (o.specRepr v)
  | .minmaxMid l => l.layMid
  | .minmaxFull l => l.layEnd
  | .minmaxLast l => l.layEnd
  | .leading l => l.lay
  | .matching n bp reqPos byteLen t => Lay2.matching n bp reqPos byteLen t
  | .struct _ bp bso kids => (Lay2.sized bso (Descs2.lay kids)).atPos bp
  | .staticField _ bp n bso _ items => ((Descss2.layStatic n bso items).inOrigin).atPos bp
  | .dynLenField _ bp l bso _ items =>
    (((Lay2.obj .count l.cntObj.name l.cntObj (l.cntObj.specRepr (.int items.length))).seq
        ((Lay2.dynBody items.isEmpty (Descss2.layDyn bso items)).atPos (some l.offset))).inOrigin).atPos bp
  | .eopField _ bp _ _ bso _ items => ((Descss2.layDyn bso items).inOrigin).atPos bp
  | .mux _ bp m kids =>
    (((Lay2.obj .switchKey m.keyObj.name m.keyObj (m.keyObj.specRepr (.int m.lo))).seq
        (((Descs2.lay kids).inOrigin).atPos (some m.muxBp))).inOrigin).atPos bp
  | .endMarkerEop _ bp _ bso _ items => ((Descss2.layDyn bso items).inOrigin).atPos bp
  | .endMarkerMid _ bp l bso _ items =>
    (((Descss2.layDyn bso items).seq ((Lay2.obj .marker l.obj.name l.obj (l.obj.specRepr (.int l.tv))).peek)).inOrigin).atPos bp
def Descs2.lay : List Desc2 → Lay2
  | [] => Lay2.nil
  | d :: ds => d.lay.seq (Descs2.lay ds)
/-- the items of a static field: item structure (with its BYTE-SIZE padding), then the padding up to ITEM-BYTE-SIZE -/
def Descss2.layStatic (n : Nat) (bso : Option Nat) : List (List Desc2) → Lay2
  | [] => Lay2.nil
  | k :: ks => (((Lay2.sized bso (Descs2.lay k)).seq (Lay2.padTo n)).inOrigin).seq (Descss2.layStatic n bso ks)
/-- the items of the other fields: item structures back to back -/
def Descss2.layDyn (bso : Option Nat) : List (List Desc2) → Lay2
  | [] => Lay2.nil
  | k :: ks => (Lay2.sized bso (Descs2.lay k)).seq (Descss2.layDyn bso ks)
end

/-! ### closure steps -/

theorem foot2_dynLen (l : DynLayout) (item : Dop) (cs : List DComp) (lb : Lay2) (hl : l.ok cs.length)
    (hb : Foot2 (dynBodyC cs).enc lb) :
    Foot2 (DComp.dynLenField l item cs).pair.enc
      (((Lay2.obj .count l.cntObj.name l.cntObj (l.cntObj.specRepr (.int cs.length))).seq (lb.atPos (some l.offset))).inOrigin) :=
  Foot2.inOrigin (Foot2.seq (ea := encStep l.cntObj (.int cs.length))
    (eb := fun s => (dynBodyC cs).enc { s with cursorByte := posOf (some l.offset) s.origin s.cursorByte })
    (Foot2.obj .count _ l.cntObj (.int cs.length) hl.1 hl.2.1) (Foot2.atPos (some l.offset) hb))

theorem foot2_mux (m : MuxLayout) (c : DComp) (lc : Lay2) (hk : m.keyObj.ok) (hr : m.keyObj.inRange (.int m.lo))
    (hc : Foot2 c.pair.enc lc) :
    Foot2 (DComp.mux m c).pair.enc
      (((Lay2.obj .switchKey m.keyObj.name m.keyObj (m.keyObj.specRepr (.int m.lo))).seq (lc.atPos (some m.muxBp))).inOrigin) :=
  Foot2.inOrigin (Foot2.seq (ea := encStep m.keyObj (.int m.lo))
    (eb := fun s => c.pair.enc { s with cursorByte := posOf (some m.muxBp) s.origin s.cursorByte })
    (Foot2.obj .switchKey _ m.keyObj (.int m.lo) hk hr) (Foot2.atPos (some m.muxBp) hc))

theorem foot2_emMid (l : EmLayout) (hl : l.ok) (item : Dop) (cs : List DComp) (li : Lay2)
    (hi : Foot2 (Pair.list (cs.map (emItemC l))).enc li) :
    Foot2 (DComp.endMarkerMid l item cs).pair.enc
      ((li.seq ((Lay2.obj .marker l.obj.name l.obj (l.obj.specRepr (.int l.tv))).peek)).inOrigin) :=
  Foot2.inOrigin (Foot2.seq (ea := (Pair.list (cs.map (emItemC l))).enc) (eb := l.marker.enc) hi
    (Foot2.peek (Foot2.obj .marker _ l.obj (.int l.tv) hl.1 hl.2)))

theorem itemsO_cons (bso : Option Nat) (k : List MComp) (ks : List (List MComp)) :
    itemsO bso (k :: ks) = DComp.structO bso (MComps.cs k) :: itemsO bso ks := rfl

mutual
/-- **the second footprint law holds for every description** (the layout needs no side condition; well-formedness is
    needed for the leaves only: the raw pattern is `Obj.specRepr` for values in range) -/
theorem Desc2.foot : (d : Desc2) → (d.wf ∨ ∃ n bp rp bl t, d = .matching n bp rp bl t ∧ AllBytes t) → Foot2 d.mc.c.pair.enc d.lay
  | .value o v, h => by
    rcases h with h | ⟨_, _, _, _, _, h, _⟩
    · simp only [Desc2.wf] at h
      exact Foot2.obj .value _ o v h.1 h.2
    · cases h
  | .valueDefault o dv sup, h => by
    rcases h with h | ⟨_, _, _, _, _, h, _⟩
    · simp only [Desc2.wf] at h
      exact Foot2.obj _ _ o (sup.getD dv) h.1 h.2
    · cases h
  | .const o v b, h => by
    rcases h with h | ⟨_, _, _, _, _, h, _⟩
    · simp only [Desc2.wf] at h
      exact Foot2.obj .codedConst _ o v h.1 h.2
    · cases h
  | .physConst o v b, h => by
    rcases h with h | ⟨_, _, _, _, _, h, _⟩
    · simp only [Desc2.wf] at h
      exact Foot2.obj .physConst _ o v h.1 h.2
    · cases h
  | .minmaxMid l, h => by
    rcases h with h | ⟨_, _, _, _, _, h, _⟩
    · simp only [Desc2.wf] at h
      exact l.footMid h.1
    · cases h
  | .minmaxFull l, h => by
    rcases h with h | ⟨_, _, _, _, _, h, _⟩
    · simp only [Desc2.wf] at h
      exact l.footFull h.1
    · cases h
  | .minmaxLast l, h => by
    rcases h with h | ⟨_, _, _, _, _, h, _⟩
    · simp only [Desc2.wf] at h
      exact l.footLast h
    · cases h
  | .leading l, h => by
    rcases h with h | ⟨_, _, _, _, _, h, _⟩
    · simp only [Desc2.wf] at h
      exact l.foot h
    · cases h
  | .matching n bp reqPos byteLen t, h => by
    rcases h with h | ⟨_, _, _, _, _, h, ht⟩
    · simp only [Desc2.wf] at h
    · cases h
      exact foot2_matching n bp reqPos byteLen t ht
  | .struct name bp bso kids, h => by
    rcases h with h | ⟨_, _, _, _, _, h, _⟩
    · simp only [Desc2.wf] at h
      exact Foot2.atPos bp (foot2_structO bso _ _ (Descs2.foot kids h.1))
    · cases h
  | .staticField name bp n bso shape items, h => by
    rcases h with h | ⟨_, _, _, _, _, h, _⟩
    · simp only [Desc2.wf] at h
      exact Foot2.atPos bp (Foot2.inOrigin (Descss2.footStatic n bso items h.1))
    · cases h
  | .dynLenField name bp l bso shape items, h => by
    rcases h with h | ⟨_, _, _, _, _, h, _⟩
    · simp only [Desc2.wf] at h
      have hF := Descss2.footDyn bso items h.1
      have hlen : (itemsO bso (Descss2.mcss items)).length = items.length := by
        simp only [itemsO, List.length_map, Descss2.mcss_length]
      have hl : l.ok (itemsO bso (Descss2.mcss items)).length := by rw [hlen]; exact h.2.2
      have hbody : Foot2 (dynBodyC (itemsO bso (Descss2.mcss items))).enc (Lay2.dynBody items.isEmpty (Descss2.layDyn bso items)) := by
        cases items with
        | nil => exact Foot2.touch
        | cons k ks => exact hF
      have := foot2_dynLen l (.struct bso shape) _ _ hl hbody
      rw [hlen] at this
      exact Foot2.atPos bp this
    · cases h
  | .eopField name bp mn mx bso shape items, h => by
    rcases h with h | ⟨_, _, _, _, _, h, _⟩
    · simp only [Desc2.wf] at h
      exact Foot2.atPos bp (Foot2.inOrigin (Descss2.footDyn bso items h.1))
    · cases h
  | .mux name bp m kids, h => by
    rcases h with h | ⟨_, _, _, _, _, h, _⟩
    · simp only [Desc2.wf] at h
      exact Foot2.atPos bp (foot2_mux m _ _ h.2.2.2.1 h.2.2.2.2.1 (Foot2.inOrigin (Descs2.foot kids h.1)))
    · cases h
  | .endMarkerEop name bp l bso shape items, h => by
    rcases h with h | ⟨_, _, _, _, _, h, _⟩
    · simp only [Desc2.wf] at h
      exact Foot2.atPos bp (Foot2.inOrigin (Descss2.footEm l bso items h.1))
    · cases h
  | .endMarkerMid name bp l bso shape items, h => by
    rcases h with h | ⟨_, _, _, _, _, h, _⟩
    · simp only [Desc2.wf] at h
      exact Foot2.atPos bp (foot2_emMid l h.2.1 (.struct bso shape) _ _ (Descss2.footEm l bso items h.1))
    · cases h
theorem Descs2.foot : (ds : List Desc2) → Descs2.wf ds → Foot2 (Comps.pair (Descs2.comps ds)).enc (Descs2.lay ds)
  | [], _ => Foot2.nil
  | d :: ds, h => by
    simp only [Descs2.wf] at h
    exact Foot2.seq (ea := d.mc.c.pair.enc) (eb := (Comps.pair (Descs2.comps ds)).enc) (Desc2.foot d (Or.inl h.1)) (Descs2.foot ds h.2)
theorem Descss2.footStatic (n : Nat) (bso : Option Nat) : (items : List (List Desc2)) → Descss2.wf items →
    Foot2 (Pair.list ((itemsO bso (Descss2.mcss items)).map (staticItemC n))).enc (Descss2.layStatic n bso items)
  | [], _ => Foot2.nil
  | k :: ks, h => by
    simp only [Descss2.wf] at h
    exact Foot2.seq (ea := (staticItemC n (DComp.structO bso (Descs2.comps k))).enc)
      (eb := (Pair.list ((itemsO bso (Descss2.mcss ks)).map (staticItemC n))).enc)
      (Foot2.inOrigin (Foot2.seq (ea := (DComp.structO bso (Descs2.comps k)).pair.enc) (eb := (Pair.padTo n).enc)
        (foot2_structO bso _ _ (Descs2.foot k h.1)) (Foot2.padTo n))) (Descss2.footStatic n bso ks h.2)
theorem Descss2.footDyn (bso : Option Nat) : (items : List (List Desc2)) → Descss2.wf items →
    Foot2 (Pair.list ((itemsO bso (Descss2.mcss items)).map dynItemC)).enc (Descss2.layDyn bso items)
  | [], _ => Foot2.nil
  | k :: ks, h => by
    simp only [Descss2.wf] at h
    exact Foot2.seq (ea := (dynItemC (DComp.structO bso (Descs2.comps k))).enc)
      (eb := (Pair.list ((itemsO bso (Descss2.mcss ks)).map dynItemC)).enc)
      (foot2_structO bso _ _ (Descs2.foot k h.1)) (Descss2.footDyn bso ks h.2)
theorem Descss2.footEm (l : EmLayout) (bso : Option Nat) : (items : List (List Desc2)) → Descss2.wf items →
    Foot2 (Pair.list ((itemsO bso (Descss2.mcss items)).map (emItemC l))).enc (Descss2.layDyn bso items)
  | [], _ => Foot2.nil
  | k :: ks, h => by
    simp only [Descss2.wf] at h
    exact Foot2.seq (ea := (emItemC l (DComp.structO bso (Descs2.comps k))).enc)
      (eb := (Pair.list ((itemsO bso (Descss2.mcss ks)).map (emItemC l))).enc)
      (foot2_structO bso _ _ (Descs2.foot k h.1)) (Descss2.footEm l bso ks h.2)
end

/-! ### the round-5 descriptions embedded -/

mutual
/-- every `Desc` is a `Desc2` (no BYTE-SIZE anywhere) -/
def Desc.to2 : Desc → Desc2
  | .value o v => .value o v
  | .valueDefault o dv sup => .valueDefault o dv sup
  | .const o v b => .const o v b
  | .physConst o v b => .physConst o v b
  | .struct name bp kids => .struct name bp none (Descs.to2 kids)
  | .staticField name bp n shape items => .staticField name bp n none shape (Descss.to2 items)
  | .dynLenField name bp l shape items => .dynLenField name bp l none shape (Descss.to2 items)
  | .eopField name bp mn mx shape items => .eopField name bp mn mx none shape (Descss.to2 items)
  | .mux name bp m kids => .mux name bp m (Descs.to2 kids)
def Descs.to2 : List Desc → List Desc2
  | [] => []
  | d :: ds => d.to2 :: Descs.to2 ds
def Descss.to2 : List (List Desc) → List (List Desc2)
  | [] => []
  | k :: ks => Descs.to2 k :: Descss.to2 ks
end

end OdxVerif.Codec
