import OdxVerif.Proofs.FlatMsg
/-! C08 on the flat tier: static length = length of every encoding; a missing required parameter fails. -/
namespace OdxVerif.Codec
open OdxVerif.Bits OdxVerif.OdxM

theorem obj_staticBitLen (o : Obj) : (Obj.toParam o).kind.staticBitLen = some o.bl := by
  simp [Obj.toParam, Param.kind, PKind.staticBitLen, Dop.staticBitLen, Dct.staticBitLen]

/-- the static length computation follows the encoder's cursor and message length -/
theorem staticLen_encAll (ovs : List (Obj × IVal)) :
    ∀ (s : EncState), s.origin = 0 →
      paramsStaticLen (ovs.map fun ov => ov.1.toParam) s.cursorByte s.msg.length = some (encAll ovs s).msg.length := by
  induction ovs with
  | nil => intro s _; simp [paramsStaticLen, encAll]
  | cons ov rest ih =>
    intro s ho
    obtain ⟨o, v⟩ := ov
    have := ih (encStep o v s) (by rw [encStep_origin]; exact ho)
    simp only [List.map_cons, encAll]
    rw [← this, encStep_cursor, encStep_length]
    simp only [Obj.toParam, paramsStaticLen, PKind.staticBitLen, Dop.staticBitLen, Dct.staticBitLen, Obj.pos, Obj.k, Obj.bp, ho]
    cases o.bytePos <;> simp [Nat.add_comm, Nat.add_left_comm]


/-- **C08, static length (flat tier).** Whenever the flat description reports a static bit length, every
    successful encoding (overlap warning or not, whatever the values) occupies exactly that many bits. -/
theorem static_length_flat (ovs : List (Obj × IVal)) (hlen : ovs.length ≤ 4000) (values : List (String × PVal))
    (trig : Option Bytes)
    (hok : ∀ ov ∈ ovs, ov.1.ok ∧ ov.1.inRange ov.2)
    (hlook : ∀ ov ∈ ovs, lookup ov.1.name values = some (.atom ov.2))
    (hknown : values.any (fun kv => !((ovs.map fun ov => ov.1.toParam).any fun p => p.name == kv.1)) = false)
    (pdu : Bytes) (w : Nat)
    (henc : encodeMessage none (ovs.map fun ov => ov.1.toParam) (.dict values) trig true = .ok (pdu, w)) :
    (Dop.struct none (ovs.map fun ov => ov.1.toParam)).staticBitLen = some (8 * pdu.length) := by
  obtain ⟨s0, hm, _, _, hc, ho, hrun⟩ := encodeMessage_flat ovs hlen values trig hok hlook hknown
  rw [hrun] at henc
  simp only [Except.ok.injEq, Prod.mk.injEq] at henc
  have h := staticLen_encAll ovs s0 ho
  rw [hc, hm] at h
  simp only [List.length_nil] at h
  simp only [Dop.staticBitLen, h, Option.map_some, henc.1]

theorem bind_fails_of_cont {σ α β : Type} (m : OdxM σ α) (f : α → OdxM σ β) (s : σ) (st : Bool)
    (h : ∀ a s', ∃ e, f a s' st = .error e) : ∃ e, (m >>= f) s st = .error e := by
  show ∃ e, OdxM.bind m f s st = .error e
  unfold OdxM.bind
  cases m s st with
  | error e => exact ⟨e, rfl⟩
  | ok p => obtain ⟨a, s'⟩ := p; exact h a s'

theorem bind_fails_of_left {σ α β : Type} (m : OdxM σ α) (f : α → OdxM σ β) (s : σ) (st : Bool)
    (h : ∃ e, m s st = .error e) : ∃ e, (m >>= f) s st = .error e := by
  show ∃ e, OdxM.bind m f s st = .error e
  unfold OdxM.bind
  obtain ⟨e, he⟩ := h
  rw [he]; exact ⟨e, rfl⟩

/-- a VALUE parameter without default that is missing from the value assignment makes the strict encoder fail -/
theorem encodeParams_missing (eop : Bool) (values : List (String × PVal)) :
    ∀ (fuel : Nat) (ps : List Param) (s : EncState),
      (∃ p ∈ ps, (∃ d, p.kind = .value d none) ∧ lookup p.name values = none) →
      ∃ e, encodeParams eop values fuel ps s true = .error e := by
  intro fuel
  induction fuel with
  | zero => intro ps s _; exact ⟨(.unmodelled, s), by simp [encodeParams, run_raise]⟩
  | succ fuel ih =>
    intro ps s ⟨p, hp, hkind, hlk⟩
    cases ps with
    | nil => cases hp
    | cons q rest =>
      obtain ⟨qn, qb, qbit, qk⟩ := q
      simp only [encodeParams]
      have key : ∀ s1 : EncState, ∃ e, ((match Param.mk qn qb qbit qk with
            | .mk name bytePos bitPos (.lengthKey dop) => encodeKeyPlaceholder name bytePos bitPos dop (lookupV name values)
            | .mk name _ _ kind => do
              let required : Bool := match kind with
                | .value _ none => true
                | _ => false
              if required && (lookup name values).isNone then odxraise .encode
              encodeParam fuel (.mk qn qb qbit qk) (lookupV name values) : EncM Unit) >>= fun _ =>
            encodeParams eop values fuel rest) s1 true = .error e := by
        intro s1
        by_cases hq : p = .mk qn qb qbit qk
        · -- the missing parameter is the head: `odxraise(EncodeError)` in strict mode
          subst hq
          obtain ⟨d, hd⟩ := hkind
          simp only [Param.kind] at hd
          subst hd
          simp only [Param.name] at hlk
          apply bind_fails_of_left
          simp only [hlk, Option.isNone_none, Bool.and_self, if_true]
          apply bind_fails_of_left
          exact ⟨(.encode, s1), rfl⟩
        · have hin : p ∈ rest := by
            cases hp with
            | head => exact absurd rfl hq
            | tail _ h => exact h
          apply bind_fails_of_cont
          intro _ s2
          exact ih rest s2 ⟨p, hin, hkind, hlk⟩
      split
      · apply bind_fails_of_cont
        intro _ s1
        exact key s1
      · exact key s


/-- the same at the level of `Request.encode` -/
theorem encodeMessage_missing (ps : List Param) (values : List (String × PVal)) (trig : Option Bytes)
    (h : ∃ p ∈ ps, (∃ d, p.kind = .value d none) ∧ lookup p.name values = none) :
    ∃ e, encodeMessage none ps (.dict values) trig true = .error e := by
  have hmain : ∃ e, encodeDop modelFuel (.struct none ps) (.dict values) { trig := trig, isEndOfPdu := true } true = .error e := by
    have hf : modelFuel = 4094 + 1 + 1 := rfl
    rw [hf]
    simp only [encodeDop, encodeComposite]
    apply bind_fails_of_cont; intro _ s1
    apply bind_fails_of_left
    apply bind_fails_of_cont; intro _ s2
    repeat (first
      | (apply bind_fails_of_left; exact encodeParams_missing _ values 4094 ps _ h)
      | split
      | (apply bind_fails_of_cont; intro _ _))
  obtain ⟨e, he⟩ := hmain
  unfold encodeMessage
  rw [he]
  exact ⟨e.1, rfl⟩

end OdxVerif.Codec
