import OdxVerif.Proofs.CompCompu3Static
/-! Compositional tier, C08 (task W30): **message-level static length with STRUCTUREs with BYTE-SIZE**.
    The shape type `Tree` of `static_length_nested` has no BYTE-SIZE.  Here the length law is stated one level up, on the
    descriptions: `PDesc.LenP p bp l` — the parameter is counted by `composite_codec_get_static_bit_length` with `l` bytes at
    BYTE-POSITION `bp`, and every component the description makes of a value extends the message to exactly
    `max (old length) (position + l)` and leaves the cursor at `position + l`.  Instances: the tier-2 static descriptions whose
    cursor ends at their full extent (`PDesc.Static.lenP`), and a STRUCTURE with BYTE-SIZE over static content that fits
    (`PDesc.structBS_lenP`).  List level `LenPs.enc_length`, message level `static_length_lenPs`.  Core Lean only. -/
namespace OdxVerif.Codec
open OdxVerif.Bits OdxVerif.OdxM

/-- BYTE-POSITION and static byte length of a top-level parameter -/
abbrev LShape := Option Nat × Nat

/-- `composite_codec_get_static_bit_length` on shapes (bytes; cursor / running maximum) -/
def LShapes.stat : List LShape → Nat → Nat → Nat
  | [], _, m => m
  | x :: r, c, m => LShapes.stat r (x.1.getD c + x.2) (max m (x.1.getD c + x.2))

theorem LShapes.stat_ge (sh : List LShape) : ∀ (c m : Nat), m ≤ LShapes.stat sh c m := by
  induction sh with
  | nil => intro c m; exact Nat.le_refl _
  | cons x r ih =>
    intro c m
    simp only [LShapes.stat]
    have := ih (x.1.getD c + x.2) (max m (x.1.getD c + x.2))
    omega

structure PDesc.LenP (p : PDesc) (bp : Option Nat) (l : Nat) : Prop where
  step : ∀ (rest : List Param) (c m : Nat), paramsStaticLen (p.param :: rest) c m =
    paramsStaticLen rest (bp.getD c + l) (max m (bp.getD c + l))
  acc : ∀ (pv : Option PVal) (g : Comp), p.fill pv = some g → ∀ (s : EncState) (c : Nat), s.cursorByte = s.origin + c →
    (g.pair.enc s).msg.length = max s.msg.length (s.origin + (bp.getD c + l)) ∧
    (g.pair.enc s).cursorByte = s.origin + (bp.getD c + l) ∧ (g.pair.enc s).origin = s.origin

inductive LenPs : List PDesc → List LShape → Prop
  | nil : LenPs [] []
  | cons {p : PDesc} {x : LShape} {ps : List PDesc} {sh : List LShape} : p.LenP x.1 x.2 → LenPs ps sh → LenPs (p :: ps) (x :: sh)

theorem LenPs.static_eq {ps : List PDesc} {sh : List LShape} (h : LenPs ps sh) :
    ∀ (c m : Nat), paramsStaticLen (PDescs.toParams ps) c m = some (LShapes.stat sh c m) := by
  induction h with
  | nil => intro c m; rfl
  | cons h1 _ ih =>
    intro c m
    show paramsStaticLen (_ :: PDescs.toParams _) c m = _
    rw [h1.step]
    exact ih _ _

theorem LenPs.enc_length {ps : List PDesc} {sh : List LShape} (h : LenPs ps sh) :
    ∀ (kvs : List (String × PVal)) (gs : List Comp), PDescs.fill ps kvs = some gs → Comps.okAll gs →
    ∀ (s : EncState) (c m : Nat), s.cursorByte = s.origin + c →
    max (s.origin + m) ((Comps.pair gs).enc s).msg.length = max s.msg.length (s.origin + LShapes.stat sh c m) := by
  induction h with
  | nil =>
    intro kvs gs hf _ s c m _
    simp only [PDescs.fill, Option.some.injEq] at hf
    subst hf
    simp only [Comps.pair, Pair.nil, LShapes.stat, id]
    exact Nat.max_comm _ _
  | @cons p x ps sh hp _ ih =>
    intro kvs gs hf hok s c m hc
    simp only [PDescs.fill] at hf
    cases h1 : p.fill (lookupV p.name kvs) with
    | none => rw [h1] at hf; cases hf
    | some g =>
      cases h2 : PDescs.fill ps kvs with
      | none => rw [h1, h2] at hf; cases hf
      | some gs0 =>
        rw [h1, h2] at hf
        simp only [Option.some.injEq] at hf
        subst hf
        obtain ⟨a1, a2, a3⟩ := hp.acc _ g h1 s c hc
        have ih' := ih kvs gs0 h2 hok.2 (g.pair.enc s) (x.1.getD c + x.2) (max m (x.1.getD c + x.2)) (by rw [a2, a3])
        have hmono := (Comps.good gs0 hok.2).len_mono (g.pair.enc s)
        have hst := LShapes.stat_ge sh (x.1.getD c + x.2) (max m (x.1.getD c + x.2))
        simp only [Comps.pair, Pair.map, Pair.seq, LShapes.stat]
        rw [a3, a1] at ih'
        rw [a1] at hmono
        omega

/-- a tier-2 static description whose cursor ends at its full extent obeys the length law -/
theorem PDesc.Static.lenP {p : PDesc} {t : Tree} (h : p.Static t) (hc : t.cursorOkS = true) (hr : t.rendS = t.slenS) :
    p.LenP t.bytePosS t.slenS where
  step := h.step
  acc := by
    intro pv g hf s c hcur
    obtain ⟨t', b0, b1, b2, b3, b4, b5⟩ := h.acc pv g hf
    rw [b5 s]
    have h1 := Tree.enc_lengthS t' b0 (by rw [b4]; exact hc) s c hcur
    obtain ⟨h2, h3⟩ := Tree.enc_cursorS t' s c hcur
    rw [b1, b3] at h1
    rw [b1, b2, hr] at h2
    exact ⟨h1, h2, h3⟩

/-- **a STRUCTURE with BYTE-SIZE over static content that fits** obeys the length law with `l` = BYTE-SIZE.
    Side conditions (decidable): `cursorOkS` of the content; the content's full extent is within BYTE-SIZE (`hfit` — the open finding
    `nested-structure-cursor-behind-last-listed-parameter`: an explicitly positioned parameter behind BYTE-SIZE makes the PDU longer
    than the static length); the content's cursor does not end behind its full extent (`hrc`); BYTE-SIZE ≥ 1. -/
theorem PDesc.structBS_lenP (name : String) (bp : Option Nat) (bs : Nat) (qs : List PDesc) (ts : List Tree) (h : StaticPs qs ts)
    (hc : Trees.cursorOkS ts = true) (hfit : Trees.statS ts 0 0 ≤ bs) (hrc : Trees.rcurS ts 0 ≤ Trees.statS ts 0 0) (hbs : 1 ≤ bs) :
    (PDesc.ofValue name bp (DDesc.structBS bs qs)).LenP bp bs where
  step := by
    intro rest c m
    have e : (0 + 8 * bs + 7) / 8 = bs := by omega
    simp only [PDesc.ofValue, DDesc.structBS, paramsStaticLen, PKind.staticBitLen, Dop.staticBitLen, Option.map_some,
      Option.getD_none, e]
    cases bp <;> rfl
  acc := by
    intro pv g hf s c hcur
    cases pv with
    | none => simp [PDesc.ofValue] at hf
    | some v =>
      simp only [PDesc.ofValue] at hf
      cases hb : (DDesc.structBS bs qs).fill v with
      | none => rw [hb] at hf; cases hf
      | some cb =>
        rw [hb] at hf
        simp only [Option.map_some, Option.some.injEq] at hf
        subst hf
        simp only [DDesc.structBS] at hb
        cases hc0 : (DDesc.struct qs).fill v with
        | none => rw [hc0] at hb; cases hb
        | some c0 =>
          rw [hc0] at hb
          by_cases hsz : c0.size ≤ bs
          · simp only [hsz, if_true, Option.some.injEq] at hb
            subst hb
            obtain ⟨kvs, gs, _, _, hgs, rfl⟩ := DDesc.struct_fill_inv qs v c0 hc0
            obtain ⟨ts', b0, b1, b2, b3, _, _, b6⟩ := h.acc kvs gs hgs
            have hP : posOf bp s.origin s.cursorByte = s.origin + bp.getD c := by rw [hcur, posOf_relS]
            obtain ⟨hl, hge⟩ := Trees.enc_lengthS ts' b0 (by rw [b3]; exact hc)
              { s with cursorByte := posOf bp s.origin s.cursorByte, origin := posOf bp s.origin s.cursorByte } 0 0 0 rfl (fun _ => rfl)
            obtain ⟨hcu, _⟩ := Trees.enc_cursorS ts'
              { s with cursorByte := posOf bp s.origin s.cursorByte, origin := posOf bp s.origin s.cursorByte } 0 rfl
            have hmono := (Trees.good ts' b0).len_mono
              { s with cursorByte := posOf bp s.origin s.cursorByte, origin := posOf bp s.origin s.cursorByte }
            rw [b2] at hl
            rw [b1] at hcu
            simp only [] at hl hcu hmono hge
            simp only [Comp.ofValue, DComp.withByteSize, DComp.structOf, DComp.struct, Pair.atPos, Pair.sized, Pair.map,
              Pair.inOrigin, b6]
            split
            · simp only [bsPad, List.length_append, List.length_replicate]
              refine ⟨?_, ?_, trivial⟩ <;> omega
            · rename_i hnp
              have hne : ts' ≠ [] := by
                intro h0
                rw [h0] at hnp
                simp only [Trees.pair, Pair.nil, id] at hnp
                omega
              have := hge hne
              refine ⟨?_, ?_, rfl⟩
              · show ((Trees.pair ts').enc _).msg.length = _
                omega
              · show ((Trees.pair ts').enc _).cursorByte = _
                omega
          · simp [hsz] at hb

/-- **static length = 8 × the length of every accepted encoding**, for a request whose parameters obey the length law -/
theorem static_length_lenPs (ps : List PDesc) (sh : List LShape) (hl : LenPs ps sh) (hok : ∀ p ∈ ps, p.OkW)
    (hno : ∀ p ∈ ps, p.mayEop = false) (hn : PDescs.namesOk ps) (pv : PVal) (hwf : pv.wfAtoms = true) (trig : Option Bytes)
    (hneed : (DDesc.struct ps).need pv ≤ modelFuel)
    (pdu : Bytes) (w : Nat) (henc : encodeMessage none (PDescs.toParams ps) pv trig true = .ok (pdu, w)) :
    (Dop.struct none (PDescs.toParams ps)).staticBitLen = some (8 * pdu.length) := by
  have hS := DDesc.struct_okW ps hok hn (PDescs.eopLast_of_all_false ps hno)
  cases hf : (DDesc.struct ps).fill pv with
  | none =>
    obtain ⟨e, s', hrun, _⟩ := hS.rej pv hwf hf modelFuel hneed { trig := trig, isEndOfPdu := true } rfl (fun _ => rfl)
    have hrun' : encodeDop modelFuel (.struct none (PDescs.toParams ps)) pv { trig := trig, isEndOfPdu := true } true
        = .error (e, s') := hrun
    unfold encodeMessage at henc
    rw [hrun'] at henc
    cases henc
  | some c =>
    have hcf := hS.acc pv c hf
    obtain ⟨kvs, gs, _, _, hgs, rfl⟩ := DDesc.struct_fill_inv ps pv c hf
    let s0 : EncState := { trig := trig, isEndOfPdu := true }
    obtain ⟨s1, hrun, hcore, _⟩ := hcf.ok.encode_eq modelFuel (Nat.le_trans hcf.need hneed) s0 rfl (fun _ => rfl)
    rw [hcf.dop, hcf.sup] at hrun
    have hrun' : encodeDop modelFuel (.struct none (PDescs.toParams ps)) pv { trig := trig, isEndOfPdu := true } true
        = .ok ((), s1) := hrun
    unfold encodeMessage at henc
    rw [hrun'] at henc
    simp only [Except.ok.injEq, Prod.mk.injEq] at henc
    have hokAll := (PDescs.fill_someW ps hok kvs gs hgs).okAll
    have hmsg : s1.msg = ((Comps.pair gs).enc { s0 with origin := s0.cursorByte }).msg := by
      rw [hcore.1]
      rfl
    have hlen := hl.enc_length kvs gs hgs hokAll { s0 with origin := s0.cursorByte } 0 0 rfl
    have h0 : ({ s0 with origin := s0.cursorByte } : EncState).msg.length = 0 := rfl
    have h1 : ({ s0 with origin := s0.cursorByte } : EncState).origin = 0 := rfl
    rw [h0, h1] at hlen
    simp only [Dop.staticBitLen, hl.static_eq, Option.map_some, Option.some.injEq]
    rw [← henc.1, hmsg]
    omega

end OdxVerif.Codec
