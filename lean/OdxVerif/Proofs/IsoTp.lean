import OdxVerif.Model.IsoTp
import OdxVerif.Spec.IsoTpSeg
/-! Lemmas about the ISO-TP model. Core Lean only. -/
namespace OdxVerif.IsoTp

theorem run_append (s : Slot) (xs ys : List Bytes) :
    run s (xs ++ ys) = ((run (run s xs).1 ys).1, (run s xs).2 ++ (run (run s xs).1 ys).2) := by
  induction xs generalizing s with
  | nil => simp [run]
  | cons x xs ih => simp [run, ih, List.append_assoc]

theorem telegrams_append (a b : List Ev) : telegrams (a ++ b) = telegrams a ++ telegrams b := by
  simp [telegrams, List.filterMap_append]

/-- consecutive frames complete a pending transfer, from any sequence number (wrap included) -/
theorem run_cfs (n : Nat) (hn : 0 < n) (pad : Bytes) :
    ∀ (fuel : Nat) (p d : Bytes) (sn L : Nat), p.length ≤ fuel → p ≠ [] → L = d.length + p.length →
      telegrams (run { specLen := L, data := some d, last := sn % 16 } (cfs n (sn+1) pad fuel p)).2
        = [d ++ p] ∧
      (run { specLen := L, data := some d, last := sn % 16 } (cfs n (sn+1) pad fuel p)).1.data = none := by
  intro fuel
  induction fuel with
  | zero =>
    intro p d sn L hf hne _
    have : p = [] := List.eq_nil_of_length_eq_zero (by omega)
    exact absurd this hne
  | succ fuel ih =>
    intro p d sn L hf hne hL
    have hpos : 0 < p.length := List.length_pos_iff.mpr hne
    have h1 : (32 + (sn + 1) % 16) / 16 = 2 := by omega
    have h2 : (32 + (sn + 1) % 16) % 16 = (sn + 1) % 16 := by omega
    have h3 : (sn % 16 + 1) % 16 = (sn + 1) % 16 := by omega
    unfold cfs
    split
    · -- last frame
      have hle : L ≤ (d ++ (p ++ pad)).length := by simp; omega
      simp only [run, step, h1, h2, h3]
      simp only [show (2:Nat) ≠ 0 from by decide, show (2:Nat) ≠ 1 from by decide, if_false, if_true, hle]
      refine ⟨?_, trivial⟩
      simp only [telegrams, List.append_nil, List.filterMap_cons, List.filterMap_nil]
      congr 1
      rw [← List.append_assoc, hL, List.take_append_of_le_length (by simp)]
      exact List.take_of_length_le (by simp)
    · -- intermediate frame
      rename_i hgt
      have hlt : ¬ L ≤ (d ++ p.take n).length := by simp [List.length_take]; omega
      simp only [run, step, h1, h2, h3]
      simp only [show (2:Nat) ≠ 0 from by decide, show (2:Nat) ≠ 1 from by decide, if_false, if_true, hlt]
      have hdrop : p.drop n ≠ [] := by
        intro h; have := congrArg List.length h; simp at this; omega
      have := ih (p.drop n) (d ++ p.take n) (sn + 1) L (by simp; omega) hdrop
        (by simp [List.length_take]; omega)
      simp only [telegrams, List.filterMap_cons, List.cons_append, List.nil_append] at this ⊢
      refine ⟨?_, this.2⟩
      rw [this.1]
      simp [List.append_assoc]

/-- one well-formed transfer is reassembled from *any* slot state, and leaves no pending buffer
    that a later stray frame could complete -/
theorem run_segment (dl : Nat) (hdl : 8 ≤ dl) (pad p : Bytes) (s : Slot)
    (h1 : 1 ≤ p.length) (h2 : p.length ≤ 4095) :
    telegrams (run s (segment dl pad p)).2 = [p] ∧
    ((run s (segment dl pad p)).1.data = none ∨ (run s (segment dl pad p)).1 = s) := by
  unfold segment
  split
  · rename_i h7
    have a : p.length / 16 = 0 := by omega
    have b : p.length % 16 = p.length := by omega
    have c : ¬ (p.length = 0 ∧ 8 < (p.length :: (p ++ pad)).length) := by omega
    simp only [run, step, a, b, c, if_true, if_false]
    simp [telegrams]
  · rename_i h7
    split
    · rename_i hfd
      have c : (0 % 16 = 0 ∧ 8 < ((0:Nat) :: p.length :: (p ++ pad)).length) := by
        simp; omega
      simp only [run, step, c, Nat.zero_div, if_true]
      simp [telegrams]
    · rename_i hlong
      have a : (16 + p.length / 256) / 16 = 1 := by omega
      have b : (16 + p.length / 256) % 16 = p.length / 256 := by omega
      have c : p.length / 256 * 256 + p.length % 256 = p.length := by omega
      simp only [run, step, a, b, c]
      simp only [show (1:Nat) ≠ 0 from by decide, if_false, if_true]
      have hne : p.drop (dl - 2) ≠ [] := by
        intro h; have := congrArg List.length h; simp at this; omega
      have := run_cfs (dl - 1) (by omega) pad p.length (p.drop (dl - 2)) (p.take (dl - 2)) 0 p.length
        (by simp) hne (by simp [List.length_take]; omega)
      simp only [telegrams, List.filterMap_cons, List.cons_append, List.nil_append,
        List.take_append_drop] at this ⊢
      exact ⟨this.1, Or.inl this.2⟩

/-- flow-control frames never touch the slot and never yield -/
theorem step_flowControl (s : Slot) (f : Bytes) (h : isFlowControl f = true) :
    (step s f).1 = s ∧ telegrams (step s f).2 = [] := by
  match f with
  | [] => simp [isFlowControl] at h
  | b0 :: rest =>
    simp only [isFlowControl, beq_iff_eq] at h
    simp [step, h, telegrams]

theorem run_filter_flowControl (s : Slot) (fs : List Bytes) :
    (run s (fs.filter fun f => !isFlowControl f)).1 = (run s fs).1 ∧
    telegrams (run s (fs.filter fun f => !isFlowControl f)).2 = telegrams (run s fs).2 := by
  induction fs generalizing s with
  | nil => simp [run]
  | cons f fs ih =>
    cases hf : isFlowControl f with
    | true =>
      have := step_flowControl s f hf
      simp only [List.filter_cons, hf, Bool.not_true, run, telegrams_append, this.2]
      rw [this.1]; simpa using ih s
    | false =>
      simp only [List.filter_cons, hf, Bool.not_false, run, telegrams_append, if_true]
      have := ih (step s f).1
      exact ⟨this.1, by rw [this.2]⟩

/-! ### several IDs: slots are independent -/

theorem slotIndex_lt (ids : List Nat) (x k : Nat) (h : slotIndex ids x = some k) : k < ids.length := by
  induction ids generalizing k with
  | nil => simp [slotIndex] at h
  | cons i is ih =>
    simp only [slotIndex] at h
    split at h
    · cases h; simp
    · cases hs : slotIndex is x with
      | none => simp [hs] at h
      | some k' => simp [hs] at h; subst h; have := ih k' hs; simp; omega

theorem slotIndex_inj (ids : List Nat) (x y k : Nat)
    (hx : slotIndex ids x = some k) (hy : slotIndex ids y = some k) : x = y := by
  induction ids generalizing k with
  | nil => simp [slotIndex] at hx
  | cons i is ih =>
    simp only [slotIndex] at hx hy
    split at hx <;> split at hy
    · subst_vars; rfl
    · cases hx
      cases hs : slotIndex is y with
      | none => simp [hs] at hy
      | some k' => simp [hs] at hy
    · cases hy
      cases hs : slotIndex is x with
      | none => simp [hs] at hx
      | some k' => simp [hs] at hx
    · cases hsx : slotIndex is x with
      | none => simp [hsx] at hx
      | some kx =>
        cases hsy : slotIndex is y with
        | none => simp [hsy] at hy
        | some ky =>
          simp [hsx] at hx; simp [hsy] at hy
          exact ih kx hsx (by rw [hsy]; congr 1; omega)

theorem feed_ids (st : St) (fr : Nat × Bytes) : (feed st fr).1.ids = st.ids := by
  unfold feed; split <;> rfl

theorem feed_slots_length (st : St) (fr : Nat × Bytes) :
    (feed st fr).1.slots.length = st.slots.length := by
  unfold feed; split <;> simp

/-- projection: what is reported for ID `i` depends only on the frames of ID `i` -/
theorem feedAll_project (i k : Nat) :
    ∀ (fs : List (Nat × Bytes)) (st : St), slotIndex st.ids i = some k → k < st.slots.length →
      ((feedAll st fs).2.filter fun e => e.1 = i).map (·.2)
        = (run (st.slots.getD k {}) ((fs.filter fun f => f.1 = i).map (·.2))).2 ∧
      (feedAll st fs).1.slots.getD k {}
        = (run (st.slots.getD k {}) ((fs.filter fun f => f.1 = i).map (·.2))).1 := by
  intro fs
  induction fs with
  | nil => intro st _ _; simp [feedAll, run]
  | cons f fs ih =>
    intro st hk hlen
    have hids := feed_ids st f
    have hl := feed_slots_length st f
    have ih' := ih (feed st f).1 (by rw [hids]; exact hk) (by rw [hl]; exact hlen)
    simp only [feedAll, List.filter_append, List.map_append]
    by_cases hfi : f.1 = i
    · -- a frame of ID i
      have hfeed : feed st f = ({ st with slots := st.slots.set k (step (st.slots.getD k {}) f.2).1 },
          (step (st.slots.getD k {}) f.2).2.map fun e => (f.1, e)) := by
        unfold feed; rw [hfi, hk]
      have hget : (feed st f).1.slots.getD k {} = (step (st.slots.getD k {}) f.2).1 := by
        rw [hfeed]; simp [List.getD_eq_getElem?_getD, hlen]
      have hev : ((feed st f).2.filter fun e => e.1 = i).map (·.2) = (step (st.slots.getD k {}) f.2).2 := by
        rw [hfeed]; simp [List.filter_map, hfi, Function.comp_def]
      simp only [List.filter_cons, hfi, decide_true, if_true, List.map_cons, run]
      rw [hev, ih'.1, ih'.2, hget]
      exact ⟨rfl, rfl⟩
    · -- a frame of another (or unknown) ID leaves slot k alone
      have hev : ((feed st f).2.filter fun e => e.1 = i) = [] := by
        unfold feed; split
        · simp
        · simp [List.filter_map, Function.comp_def, hfi]
      have hget : (feed st f).1.slots.getD k {} = st.slots.getD k {} := by
        unfold feed; split
        · rfl
        · rename_i k' hk'
          have hne : k' ≠ k := by
            intro h; subst h; exact hfi (slotIndex_inj st.ids f.1 i k' hk' hk)
          simp [List.getD_eq_getElem?_getD, hne]
      simp only [List.filter_cons, hfi, decide_false, if_false, Bool.false_eq_true]
      rw [hev, ih'.1, ih'.2, hget]
      exact ⟨rfl, rfl⟩

/-- frames of IDs the decoder does not listen to are ignored -/
theorem feedAll_unknown (i : Nat) :
    ∀ (fs : List (Nat × Bytes)) (st : St), slotIndex st.ids i = none →
      ((feedAll st fs).2.filter fun e => e.1 = i) = [] := by
  intro fs
  induction fs with
  | nil => intro st _; simp [feedAll]
  | cons f fs ih =>
    intro st hk
    have ih' := ih (feed st f).1 (by rw [feed_ids]; exact hk)
    simp only [feedAll, List.filter_append, ih', List.append_nil]
    unfold feed; split
    · simp
    · rename_i k' hk'
      have : f.1 ≠ i := by intro h; rw [h] at hk'; rw [hk] at hk'; cases hk'
      simp [List.filter_map, Function.comp_def, this]

end OdxVerif.IsoTp
