import OdxVerif.Proofs.CompCore
import OdxVerif.Proofs.ItemLoop
/-! Compositional components (task W8), closure under the field kinds: a STATIC-FIELD / DYNAMIC-LENGTH-FIELD /
    END-OF-PDU-FIELD whose items are components (`DComp`s over one item DOP — each item has its own value, hence its own
    component) is a component.  Generalises `StaticLeaf` / `DynLeaf` / `EopLeaf` of `Proofs/FieldTier*.lean` from tier-2
    (`Trees`) items to arbitrary components (structures containing fields, multiplexers, …). -/
namespace OdxVerif.Codec
open OdxVerif.Bits OdxVerif.OdxM

/-! ### lists of item components -/

/-- the largest fuel demand among the items -/
def DComps.maxNeed : List DComp → Nat
  | [] => 0
  | c :: cs => max c.need (DComps.maxNeed cs)

theorem DComps.maxNeed_ge (cs : List DComp) : ∀ c ∈ cs, c.need ≤ DComps.maxNeed cs := by
  induction cs with
  | nil => intro c hc; cases hc
  | cons x xs ih =>
    intro c hc
    simp only [DComps.maxNeed]
    cases hc with
    | head => omega
    | tail _ h => have := ih c h; omega

def DComps.size : List DComp → Nat
  | [] => 0
  | c :: cs => c.size + DComps.size cs

/-- the values handed to the encoder / returned by the decoder: one per item -/
def DComps.sups (cs : List DComp) : List PVal := cs.map (·.sup)
def DComps.vals (cs : List DComp) : List PVal := cs.map (·.pair.val)

/-- what every field demands of an item: a component over the field's item DOP that does not need the end of the PDU -/
def DComp.itemOk (item : Dop) (c : DComp) : Prop := c.Ok ∧ c.dop = item ∧ c.eopOnly = false

theorem DComp.itemOk.decPre {item : Dop} {c : DComp} (h : c.itemOk item) (he : c.EndOk) (d : DecState) : c.decPre d :=
  he.trivial h.2.2 d

/-- a property of decoder states that every pair of a list preserves is preserved by the list -/
theorem Pair.list_dec_inv {α : Type} (I : DecState → DecState → Prop) (hrefl : ∀ d, I d d)
    (htrans : ∀ a b c, I a b → I b c → I a c) :
    (ps : List (Pair α)) → (∀ p ∈ ps, ∀ d, I d (p.dec d).2) → ∀ d, I d ((Pair.list ps).dec d).2
  | [], _, d => hrefl d
  | p :: ps, h, d => by
    simp only [Pair.list, Pair.map, Pair.seq]
    exact htrans _ _ _ (h p (List.mem_cons_self ..) d)
      (Pair.list_dec_inv I hrefl htrans ps (fun q hq => h q (List.mem_cons_of_mem _ hq)) _)

theorem Pair.list_dec_msg {α : Type} (ps : List (Pair α)) (h : ∀ p ∈ ps, ∀ d, (p.dec d).2.msg = d.msg) (d : DecState) :
    ((Pair.list ps).dec d).2.msg = d.msg :=
  Pair.list_dec_inv (fun a b => b.msg = a.msg) (fun _ => rfl) (fun _ _ _ h1 h2 => h2.trans h1) ps h d

theorem Pair.list_dec_origin {α : Type} (ps : List (Pair α)) (h : ∀ p ∈ ps, ∀ d, (p.dec d).2.origin = d.origin) (d : DecState) :
    ((Pair.list ps).dec d).2.origin = d.origin :=
  Pair.list_dec_inv (fun a b => b.origin = a.origin) (fun _ => rfl) (fun _ _ _ h1 h2 => h2.trans h1) ps h d

theorem Pair.list_dec_cursorBit {α : Type} (ps : List (Pair α))
    (h : ∀ p ∈ ps, ∀ d, d.cursorBit = 0 → (p.dec d).2.cursorBit = 0) (d : DecState) (hd : d.cursorBit = 0) :
    ((Pair.list ps).dec d).2.cursorBit = 0 :=
  Pair.list_dec_inv (fun a b => a.cursorBit = 0 → b.cursorBit = 0) (fun _ => id) (fun _ _ _ h1 h2 => h2 ∘ h1) ps h d hd

/-! ### STATIC-FIELD -/

/-- one item of a static field: the item, then zero padding up to ITEM-BYTE-SIZE — relative to the item's first byte -/
def staticItemC (n : Nat) (c : DComp) : Pair PVal := ((c.pair.seq (Pair.padTo n)).map (fun p => p.1)).inOrigin

theorem staticItemC_good (n : Nat) (c : DComp) (hc : c.Ok) : Good (staticItemC n c) :=
  ((hc.good.seq (Good.padTo n)).map _).inOrigin

theorem staticItemC_val (n : Nat) (c : DComp) : (staticItemC n c).val = c.pair.val := rfl

/-- the pure encoder of an item = the item's encoder followed by `emplace_bytes` of the missing bytes -/
theorem staticItemC_enc (n : Nat) (c : DComp) (hc : c.Ok) (s : EncState) (hsz : c.size ≤ n) :
    SameCore ((staticItemC n c).enc s) (if c.size < n then padEnc (n - c.size) (c.pair.enc s) else c.pair.enc s) := by
  have hof := hc.originFree s s.cursorByte
  have hcur := hc.enc_cursor s
  have horg := hc.good.origin s
  show SameCore ({ (Pair.padTo n).enc (c.pair.enc { s with origin := s.cursorByte }) with origin := s.origin } : EncState) _
  rw [hof]
  show SameCore ({ (if (c.pair.enc s).cursorByte < s.cursorByte + n
      then padEnc (s.cursorByte + n - (c.pair.enc s).cursorByte) { c.pair.enc s with origin := s.cursorByte }
      else { c.pair.enc s with origin := s.cursorByte, cursorByte := s.cursorByte + n }) with origin := s.origin } : EncState) _
  by_cases hlt : c.size < n
  · have h1 : (c.pair.enc s).cursorByte < s.cursorByte + n := by omega
    have h2 : s.cursorByte + n - (c.pair.enc s).cursorByte = n - c.size := by omega
    rw [if_pos h1, if_pos hlt, h2]
    exact ⟨rfl, rfl, rfl, rfl, horg.symm⟩
  · have h1 : ¬ ((c.pair.enc s).cursorByte < s.cursorByte + n) := by omega
    rw [if_neg h1, if_neg hlt]
    exact ⟨rfl, rfl, rfl, by show s.cursorByte + n = _; omega, horg.symm⟩

theorem staticItemC_enc_cursor (n : Nat) (c : DComp) (hc : c.Ok) (s : EncState) (hsz : c.size ≤ n) :
    ((staticItemC n c).enc s).cursorByte = s.cursorByte + n := by
  rw [(staticItemC_enc n c hc s hsz).2.2.2.1]
  split
  · rw [padEnc_cursor, hc.enc_cursor]; omega
  · rw [hc.enc_cursor]; omega

theorem staticItemsC_good (n : Nat) (cs : List DComp) (h : ∀ c ∈ cs, c.Ok) : Good (Pair.list (cs.map (staticItemC n))) :=
  Good.list _ (by
    intro p hp
    obtain ⟨x, hx, rfl⟩ := List.mem_map.mp hp
    exact staticItemC_good n x (h x hx))

theorem staticItemsC_enc_cursor (n : Nat) : (cs : List DComp) → (∀ c ∈ cs, c.Ok ∧ c.size ≤ n) → ∀ (s : EncState),
    ((Pair.list (cs.map (staticItemC n))).enc s).cursorByte = s.cursorByte + cs.length * n
  | [], _, s => by simp [Pair.list, Pair.nil]
  | c :: cs, h, s => by
    have h1 := staticItemC_enc_cursor n c (h c (List.mem_cons_self ..)).1 s (h c (List.mem_cons_self ..)).2
    have h2 := staticItemsC_enc_cursor n cs (fun x hx => h x (List.mem_cons_of_mem _ hx)) ((staticItemC n c).enc s)
    simp only [List.map_cons, Pair.list, Pair.map, Pair.seq, List.length_cons]
    rw [h2, h1, Nat.add_mul]
    omega

/-- the static-field item loop of the model = the pure list of padded items -/
theorem encodeStaticItemsC_eq (item : Dop) (n : Nat) (eop : Bool) : ∀ (cs : List DComp) (m : Nat),
    (∀ c ∈ cs, c.itemOk item ∧ c.size ≤ n ∧ c.need ≤ m) → ∀ (fuel : Nat), cs.length + m + 1 ≤ fuel →
    ∀ (s : EncState), s.cursorBit = 0 →
    ∃ s', encodeStaticItems item n eop fuel (DComps.sups cs) s true = .ok ((), s') ∧
      SameCore s' ((Pair.list (cs.map (staticItemC n))).enc s) ∧ s'.cursorBit = 0 := by
  intro cs
  induction cs with
  | nil =>
    intro m _ fuel hf s hcb
    obtain ⟨f, rfl⟩ : ∃ f, fuel = f + 1 := ⟨fuel - 1, by omega⟩
    exact ⟨s, by simp [DComps.sups, encodeStaticItems, pure, run_pure], SameCore.refl _, hcb⟩
  | cons c cs ih =>
    intro m hall fuel hf s hcb
    obtain ⟨f, rfl⟩ : ∃ f, fuel = f + 1 := ⟨fuel - 1, by simp only [List.length_cons] at hf; omega⟩
    simp only [List.length_cons] at hf
    obtain ⟨⟨hok, hdop, hne⟩, hsz, hneed⟩ := hall c (List.mem_cons_self ..)
    obtain ⟨s1, hrun1, hc1, hcb1⟩ := hok.encode_eq f (by omega) s hcb (fun h => by rw [hne] at h; cases h)
    rw [hdop] at hrun1
    have hcur1 : s1.cursorByte = s.cursorByte + c.size := by rw [hc1.2.2.2.1, hok.enc_cursor]
    have hused : s1.cursorByte - s.cursorByte = c.size := by omega
    let s2 : EncState := if s1.cursorByte - s.cursorByte < n then padEnc (n - (s1.cursorByte - s.cursorByte)) s1 else s1
    have hs2 : s2 = if s1.cursorByte - s.cursorByte < n then padEnc (n - (s1.cursorByte - s.cursorByte)) s1 else s1 := rfl
    have hcb2 : s2.cursorBit = 0 := by rw [hs2]; split <;> simp [padEnc_cursorBit, hcb1]
    have hc2 : SameCore s2 ((staticItemC n c).enc s) := by
      refine SameCore.trans ?_ (staticItemC_enc n c hok s hsz).symm
      rw [hs2, hused]
      split
      · exact padEnc_sameCore _ _ _ hc1
      · exact hc1
    obtain ⟨s3, hrun3, hc3, hcb3⟩ := ih m (fun x hx => hall x (List.mem_cons_of_mem _ hx)) f (by omega) s2 hcb2
    refine ⟨s3, ?_, ?_, hcb3⟩
    · show encodeStaticItems _ n eop (f + 1) (c.sup :: DComps.sups cs) s true = _
      rw [encodeStaticItems_cons _ n eop f _ _ s s1 hrun1 (by omega) hcb1]
      exact hrun3
    · have hg : Good (Pair.list (cs.map (staticItemC n))) :=
        staticItemsC_good n cs (fun x hx => (hall x (List.mem_cons_of_mem _ hx)).1.1)
      simp only [List.map_cons, Pair.list, Pair.map, Pair.seq]
      exact hc3.trans (hg.core _ _ hc2)

theorem staticItemC_dec (n : Nat) (c : DComp) (hc : c.Ok) (d : DecState) :
    (staticItemC n c).dec d = ((c.pair.dec d).1, { (c.pair.dec d).2 with cursorByte := d.cursorByte + n }) := by
  have hof := hc.dec_originFree d d.cursorByte
  have ho := hc.dec_origin d
  show ((c.pair.dec { d with origin := d.cursorByte }).1,
      ({ (c.pair.dec { d with origin := d.cursorByte }).2 with
          cursorByte := (c.pair.dec { d with origin := d.cursorByte }).2.origin + n, origin := d.origin } : DecState)) = _
  rw [hof]
  simp only []
  rw [← ho]

theorem staticItemC_fits (n : Nat) (c : DComp) (hc : c.Ok) (d : DecState) (h : (staticItemC n c).fits d) : c.pair.fits d := by
  have h1 : c.pair.fits { d with origin := d.cursorByte } := h.1
  rw [hc.fits_originFree] at h1
  exact h1

/-- the static-field item loop of the decoder = the pure list of padded items -/
theorem decodeStaticItemsC_eq (item : Dop) (n : Nat) : ∀ (cs : List DComp) (m : Nat),
    (∀ c ∈ cs, c.itemOk item ∧ c.EndOk ∧ c.need ≤ m) → ∀ (fuel : Nat), cs.length + m + 1 ≤ fuel →
    ∀ (d : DecState), d.cursorBit = 0 → (Pair.list (cs.map (staticItemC n))).fits d →
    decodeStaticItems item n fuel cs.length d true =
      .ok (((Pair.list (cs.map (staticItemC n))).dec d).1, ((Pair.list (cs.map (staticItemC n))).dec d).2) := by
  intro cs
  induction cs with
  | nil =>
    intro m _ fuel hf d _ _
    obtain ⟨f, rfl⟩ : ∃ f, fuel = f + 1 := ⟨fuel - 1, by omega⟩
    simp [decodeStaticItems, pure, run_pure, Pair.list, Pair.nil]
  | cons c cs ih =>
    intro m hall fuel hf d hcb hfit
    obtain ⟨f, rfl⟩ : ∃ f, fuel = f + 1 := ⟨fuel - 1, by simp only [List.length_cons] at hf; omega⟩
    simp only [List.length_cons] at hf
    obtain ⟨hitem, hend, hneed⟩ := hall c (List.mem_cons_self ..)
    have hok := hitem.1
    have hfit' : (staticItemC n c).fits d ∧ (Pair.list (cs.map (staticItemC n))).fits ((staticItemC n c).dec d).2 := hfit
    have h1 := hok.decode_eq f (by omega) d hcb (staticItemC_fits n c hok d hfit'.1) (hitem.decPre hend d)
    rw [hitem.2.1] at h1
    have hcb1 : ((staticItemC n c).dec d).2.cursorBit = 0 := by
      rw [staticItemC_dec n c hok]; exact hok.dec_cursorBit d hcb
    have h2 := ih m (fun x hx => hall x (List.mem_cons_of_mem _ hx)) f (by omega) ((staticItemC n c).dec d).2 hcb1 hfit'.2
    rw [staticItemC_dec n c hok] at h2
    simp only [List.length_cons, decodeStaticItems, bind, pure, run_bind, run_getS, run_modifyS, run_pure, h1, h2]
    simp only [List.map_cons, Pair.list, Pair.map, Pair.seq, staticItemC_dec n c hok]

/-- a STATIC-FIELD with ITEM-BYTE-SIZE `n` over the item DOP `item`, FIXED-NUMBER-OF-ITEMS = `cs.length`; `cs` = the items -/
def DComp.staticField (n : Nat) (item : Dop) (cs : List DComp) : DComp where
  dop := .staticField cs.length n item
  pair := ((Pair.list (cs.map (staticItemC n))).map PVal.list).inOrigin
  sup := .list (DComps.sups cs)
  need := cs.length + DComps.maxNeed cs + 2
  size := cs.length * n

theorem DComp.staticField_val (n : Nat) (item : Dop) (cs : List DComp) :
    (DComp.staticField n item cs).pair.val = .list (DComps.vals cs) := by
  show PVal.list (Pair.list (cs.map (staticItemC n))).val = _
  rw [Pair.list_val, List.map_map]
  rfl

/-- **closure under STATIC-FIELD**: every item is a component over the item DOP that fits into ITEM-BYTE-SIZE -/
theorem DComp.staticField_ok (n : Nat) (item : Dop) (cs : List DComp)
    (h : ∀ c ∈ cs, c.itemOk item ∧ c.EndOk ∧ c.size ≤ n) : (DComp.staticField n item cs).Ok where
  good := ((staticItemsC_good n cs (fun c hc => (h c hc).1.1)).map _).inOrigin
  sup_ne_none := by simp [DComp.staticField]
  originFree := OriginFree.inOrigin _
  dec_originFree := fun _ _ => rfl
  fits_originFree := fun _ _ => rfl
  encode_eq := by
    intro fuel hf s hcb _
    obtain ⟨g, rfl⟩ : ∃ g, fuel = g + 1 := ⟨fuel - 1, by simp only [DComp.staticField] at hf; omega⟩
    obtain ⟨s2, hrun, hcore, hcb2⟩ := encodeStaticItemsC_eq item n s.isEndOfPdu cs (DComps.maxNeed cs)
      (fun c hc => ⟨(h c hc).1, (h c hc).2.2, DComps.maxNeed_ge cs c hc⟩) g (by simp only [DComp.staticField] at hf; omega)
      { s with isEndOfPdu := false } hcb
    refine ⟨{ s2 with isEndOfPdu := s.isEndOfPdu }, ?_, ?_, hcb2⟩
    · simp only [DComp.staticField]
      rw [encodeDop_static_step g _ _ _ _ _ (by simp [DComps.sups])]
      rw [hrun]
    · have hg := staticItemsC_good n cs (fun c hc => (h c hc).1.1)
      have hof : OriginFree (Pair.list (cs.map (staticItemC n))) := OriginFree.list _ (by
        intro p hp
        obtain ⟨x, _, rfl⟩ := List.mem_map.mp hp
        exact OriginFree.inOrigin _)
      have h1 : SameCore { s with isEndOfPdu := false } s := ⟨rfl, rfl, rfl, rfl, rfl⟩
      have h2 := hcore.trans (hg.core _ _ h1)
      have h3 := h2.trans (hof.sameCore_inOrigin hg s)
      exact ⟨h3.1, h3.2.1, h3.2.2.1, h3.2.2.2.1, h3.2.2.2.2⟩
  enc_cursor := fun s =>
    staticItemsC_enc_cursor n cs (fun c hc => ⟨(h c hc).1.1, (h c hc).2.2⟩) { s with origin := s.cursorByte }
  dec_cursorBit := fun d hd => Pair.list_dec_cursorBit _ (by
    intro p hp d' hd'
    obtain ⟨x, hx, rfl⟩ := List.mem_map.mp hp
    rw [staticItemC_dec n x (h x hx).1.1]
    exact (h x hx).1.1.dec_cursorBit d' hd') { d with origin := d.cursorByte } hd
  dec_msg := fun d => Pair.list_dec_msg _ (by
    intro p hp d'
    obtain ⟨x, hx, rfl⟩ := List.mem_map.mp hp
    rw [staticItemC_dec n x (h x hx).1.1]
    exact (h x hx).1.1.dec_msg d') { d with origin := d.cursorByte }
  dec_origin := fun _ => rfl
  decode_eq := by
    intro fuel hf d hcb hfit _
    obtain ⟨g, rfl⟩ : ∃ g, fuel = g + 1 := ⟨fuel - 1, by simp only [DComp.staticField] at hf; omega⟩
    have hst : ({ d with origin := d.cursorByte, cursorBit := 0 } : DecState) = { d with origin := d.cursorByte } := by rw [← hcb]
    have hfit' : (Pair.list (cs.map (staticItemC n))).fits { d with origin := d.cursorByte } := hfit
    have hrun := decodeStaticItemsC_eq item n cs (DComps.maxNeed cs)
      (fun c hc => ⟨(h c hc).1, (h c hc).2.1, DComps.maxNeed_ge cs c hc⟩) g (by simp only [DComp.staticField] at hf; omega)
      { d with origin := d.cursorByte } hcb hfit'
    simp only [DComp.staticField, decodeDop, bind, pure, run_bind, run_getS, run_modifyS, run_pure, odxassert, hcb, decide_true,
      if_true]
    rw [hst, hrun]
    rfl

theorem DComp.endOk_of_plain (c : DComp) (h : c.decPre = fun _ => True) : c.EndOk :=
  ⟨fun _ _ => by rw [h]; trivial, fun _ _ => by rw [h]; trivial⟩

theorem DComp.staticField_endOk (n : Nat) (item : Dop) (cs : List DComp) : (DComp.staticField n item cs).EndOk :=
  DComp.endOk_of_plain _ rfl

/-! ### the item loop of the dynamic fields -/

/-- one item of a dynamic field: it must consume at least one byte -/
def dynItemC (c : DComp) : Pair PVal := c.pair.advancing

theorem dynItemC_good (c : DComp) (hc : c.Ok) (hsz : 1 ≤ c.size) : Good (dynItemC c) :=
  hc.good.advancing (fun s => by rw [hc.enc_cursor]; omega)

theorem dynItemsC_good (cs : List DComp) (h : ∀ c ∈ cs, c.Ok ∧ 1 ≤ c.size) : Good (Pair.list (cs.map dynItemC)) :=
  Good.list _ (by
    intro p hp
    obtain ⟨x, hx, rfl⟩ := List.mem_map.mp hp
    exact dynItemC_good x (h x hx).1 (h x hx).2)

theorem dynItemsC_originFree (cs : List DComp) (h : ∀ c ∈ cs, c.Ok) : OriginFree (Pair.list (cs.map dynItemC)) :=
  OriginFree.list _ (by
    intro p hp
    obtain ⟨x, hx, rfl⟩ := List.mem_map.mp hp
    exact (h x hx).originFree.advancing)

theorem dynItemsC_enc_cursor : (cs : List DComp) → (∀ c ∈ cs, c.Ok) → ∀ (s : EncState),
    ((Pair.list (cs.map dynItemC)).enc s).cursorByte = s.cursorByte + DComps.size cs
  | [], _, s => by simp [Pair.list, Pair.nil, DComps.size]
  | c :: cs, h, s => by
    have h1 := (h c (List.mem_cons_self ..)).enc_cursor s
    have h2 := dynItemsC_enc_cursor cs (fun x hx => h x (List.mem_cons_of_mem _ hx)) (c.pair.enc s)
    simp only [List.map_cons, Pair.list, Pair.map, Pair.seq, DComps.size]
    have h2' : ((Pair.list (cs.map dynItemC)).enc ((dynItemC c).enc s)).cursorByte = _ := h2
    rw [h2']
    rw [h1]
    omega

theorem dynItemsC_val (cs : List DComp) : (Pair.list (cs.map dynItemC)).val = DComps.vals cs := by
  rw [Pair.list_val, List.map_map]
  rfl

/-- the item loop of the dynamic fields (`encodeItems`) = the pure list of items -/
theorem encodeItemsC_eq (item : Dop) (eop : Bool) : ∀ (cs : List DComp) (m : Nat),
    (∀ c ∈ cs, c.itemOk item ∧ 1 ≤ c.size ∧ c.need ≤ m) → ∀ (fuel : Nat), cs.length + m + 1 ≤ fuel →
    ∀ (s : EncState), s.cursorBit = 0 →
    ∃ s', encodeItems item eop fuel (DComps.sups cs) s true = .ok ((), s') ∧
      SameCore s' ((Pair.list (cs.map dynItemC)).enc s) ∧ s'.cursorBit = 0 := by
  intro cs
  induction cs with
  | nil =>
    intro m _ fuel hf s hcb
    obtain ⟨f, rfl⟩ : ∃ f, fuel = f + 1 := ⟨fuel - 1, by omega⟩
    exact ⟨s, by simp [DComps.sups, encodeItems, pure, run_pure], SameCore.refl _, hcb⟩
  | cons c cs ih =>
    intro m hall fuel hf s hcb
    obtain ⟨f, rfl⟩ : ∃ f, fuel = f + 1 := ⟨fuel - 1, by simp only [List.length_cons] at hf; omega⟩
    simp only [List.length_cons] at hf
    obtain ⟨⟨hok, hdop, hne⟩, hsz, hneed⟩ := hall c (List.mem_cons_self ..)
    have hgk := hok.good
    cases cs with
    | nil =>
      -- the last item inherits `is_end_of_pdu`
      obtain ⟨s1, hrun1, hc1, hcb1⟩ := hok.encode_eq f (by omega) { s with isEndOfPdu := eop } hcb
        (fun h => by rw [hne] at h; cases h)
      rw [hdop] at hrun1
      refine ⟨s1, ?_, ?_, hcb1⟩
      · simp only [DComps.sups, List.map_cons, List.map_nil]
        -- the item occupies `c.size ≥ 1` bytes: the cursor check of the repaired encoder passes
        refine encodeItems_one_ok _ eop f _ s s1 true hrun1 ?_
        have := hc1.2.2.2.1
        rw [hok.enc_cursor] at this
        simp only [] at this
        omega
      · have h0 : SameCore { s with isEndOfPdu := eop } s := ⟨rfl, rfl, rfl, rfl, rfl⟩
        exact hc1.trans (hgk.core _ _ h0)
    | cons c2 rest =>
      obtain ⟨s1, hrun1, hc1, hcb1⟩ := hok.encode_eq f (by omega) s hcb (fun h => by rw [hne] at h; cases h)
      rw [hdop] at hrun1
      obtain ⟨s3, hrun3, hc3, hcb3⟩ := ih m (fun x hx => hall x (List.mem_cons_of_mem _ hx)) f
        (by simp only [List.length_cons] at hf ⊢; omega) s1 hcb1
      have hg : Good (Pair.list ((c2 :: rest).map dynItemC)) :=
        dynItemsC_good _ (fun x hx => ⟨(hall x (List.mem_cons_of_mem _ hx)).1.1, (hall x (List.mem_cons_of_mem _ hx)).2.1⟩)
      refine ⟨s3, ?_, ?_, hcb3⟩
      · have hrun3' : encodeItems item eop f (c2.sup :: DComps.sups rest) s1 true = .ok ((), s3) := hrun3
        simp only [DComps.sups, List.map_cons]
        rw [encodeItems_cons_ok _ eop f _ _ _ s s1 true hrun1 (by
          have := hc1.2.2.2.1
          rw [hok.enc_cursor] at this
          omega)]
        exact hrun3'
      · show SameCore s3 ((Pair.list ((c2 :: rest).map dynItemC)).enc (c.pair.enc s))
        exact hc3.trans (hg.core _ _ hc1)

theorem dynItemsC_dec_cursorBit (cs : List DComp) (h : ∀ c ∈ cs, c.Ok) (d : DecState) (hd : d.cursorBit = 0) :
    ((Pair.list (cs.map dynItemC)).dec d).2.cursorBit = 0 :=
  Pair.list_dec_cursorBit _ (by
    intro p hp d' hd'
    obtain ⟨x, hx, rfl⟩ := List.mem_map.mp hp
    exact (h x hx).dec_cursorBit d' hd') d hd

theorem dynItemsC_dec_msg (cs : List DComp) (h : ∀ c ∈ cs, c.Ok) (d : DecState) :
    ((Pair.list (cs.map dynItemC)).dec d).2.msg = d.msg :=
  Pair.list_dec_msg _ (by
    intro p hp d'
    obtain ⟨x, hx, rfl⟩ := List.mem_map.mp hp
    exact (h x hx).dec_msg d') d

theorem dynItemsC_dec_origin (cs : List DComp) (h : ∀ c ∈ cs, c.Ok) (d : DecState) :
    ((Pair.list (cs.map dynItemC)).dec d).2.origin = d.origin :=
  Pair.list_dec_origin _ (by
    intro p hp d'
    obtain ⟨x, hx, rfl⟩ := List.mem_map.mp hp
    exact (h x hx).dec_origin d') d

/-- the counted item loop of the decoder = the pure list of items -/
theorem decodeNItemsC_eq (item : Dop) : ∀ (cs : List DComp) (m : Nat),
    (∀ c ∈ cs, c.itemOk item ∧ c.EndOk ∧ c.need ≤ m) → ∀ (fuel : Nat), cs.length + m + 1 ≤ fuel →
    ∀ (d : DecState), d.cursorBit = 0 → (Pair.list (cs.map dynItemC)).fits d →
    decodeNItems item fuel cs.length d true =
      .ok (((Pair.list (cs.map dynItemC)).dec d).1, ((Pair.list (cs.map dynItemC)).dec d).2) := by
  intro cs
  induction cs with
  | nil =>
    intro m _ fuel hf d _ _
    obtain ⟨f, rfl⟩ : ∃ f, fuel = f + 1 := ⟨fuel - 1, by omega⟩
    simp [decodeNItems, pure, run_pure, Pair.list, Pair.nil]
  | cons c cs ih =>
    intro m hall fuel hf d hcb hfit
    obtain ⟨f, rfl⟩ : ∃ f, fuel = f + 1 := ⟨fuel - 1, by simp only [List.length_cons] at hf; omega⟩
    simp only [List.length_cons] at hf
    obtain ⟨hitem, hend, hneed⟩ := hall c (List.mem_cons_self ..)
    have hok := hitem.1
    have hfit' : (c.pair.fits d ∧ d.cursorByte < (c.pair.dec d).2.cursorByte) ∧
        (Pair.list (cs.map dynItemC)).fits (c.pair.dec d).2 := hfit
    have h1 := hok.decode_eq f (by omega) d hcb hfit'.1.1 (hitem.decPre hend d)
    rw [hitem.2.1] at h1
    have h2 := ih m (fun x hx => hall x (List.mem_cons_of_mem _ hx)) f (by omega) (c.pair.dec d).2
      (hok.dec_cursorBit d hcb) hfit'.2
    have hadv : ¬ ((c.pair.dec d).2.cursorByte ≤ d.cursorByte) := by omega
    simp only [List.length_cons, decodeNItems, bind, pure, run_bind, run_getS, run_pure, run_ite, h1, hadv, if_false, h2]
    rfl

/-! ### DYNAMIC-LENGTH-FIELD -/

/-- the items behind `offset`; an empty field only extends the message up to there -/
def dynBodyC : List DComp → Pair (List PVal)
  | [] => Pair.touch.map (fun _ => [])
  | c :: cs => Pair.list ((c :: cs).map dynItemC)

theorem dynBodyC_val (cs : List DComp) : (dynBodyC cs).val = DComps.vals cs := by
  cases cs with
  | nil => rfl
  | cons c cs => exact dynItemsC_val (c :: cs)

theorem dynBodyC_good (cs : List DComp) (h : ∀ c ∈ cs, c.Ok ∧ 1 ≤ c.size) : Good (dynBodyC cs) := by
  cases cs with
  | nil => exact Good.map (fun _ => []) Good.touch
  | cons c cs => exact dynItemsC_good _ h

theorem dynBodyC_enc_cursor (cs : List DComp) (h : ∀ c ∈ cs, c.Ok) (s : EncState) :
    ((dynBodyC cs).enc s).cursorByte = s.cursorByte + DComps.size cs := by
  cases cs with
  | nil => simp [dynBodyC, Pair.map, Pair.touch, padEnc_cursor, DComps.size]
  | cons c cs => exact dynItemsC_enc_cursor (c :: cs) h s

theorem dynBodyC_dec_cursorBit (cs : List DComp) (h : ∀ c ∈ cs, c.Ok) (d : DecState) (hd : d.cursorBit = 0) :
    ((dynBodyC cs).dec d).2.cursorBit = 0 := by
  cases cs with
  | nil => exact hd
  | cons c cs => exact dynItemsC_dec_cursorBit (c :: cs) h d hd

theorem dynBodyC_dec_msg (cs : List DComp) (h : ∀ c ∈ cs, c.Ok) (d : DecState) : ((dynBodyC cs).dec d).2.msg = d.msg := by
  cases cs with
  | nil => rfl
  | cons c cs => exact dynItemsC_dec_msg (c :: cs) h d

/-- item loop + tail of the dynamic-length-field encoder = the pure body -/
theorem dynBodyC_encode_eq (item : Dop) (eop e2 : Bool) (cs : List DComp) (m : Nat)
    (hall : ∀ c ∈ cs, c.itemOk item ∧ 1 ≤ c.size ∧ c.need ≤ m) (fuel : Nat) (hf : cs.length + m + 1 ≤ fuel)
    (T : EncState) (hcb : T.cursorBit = 0) :
    ∃ s3 s4, encodeItems item eop fuel (DComps.sups cs) T true = .ok ((), s3) ∧
      dynTail (DComps.sups cs) e2 s3 = .ok ((), s4) ∧ SameCore s4 ((dynBodyC cs).enc T) ∧ s4.cursorBit = 0 := by
  cases cs with
  | nil =>
    obtain ⟨f, rfl⟩ : ∃ f, fuel = f + 1 := ⟨fuel - 1, by omega⟩
    refine ⟨T, padEnc 0 { T with isEndOfPdu := e2 }, by simp [DComps.sups, encodeItems, pure, run_pure], ?_, ?_, hcb⟩
    · have hemp := emplaceBytes_zeros 0 { T with isEndOfPdu := e2 } hcb
      rw [show List.replicate 0 (0 : Nat) = [] from rfl] at hemp
      simp only [dynTail, DComps.sups, List.map_nil, List.length_nil, if_true, hemp]
    · exact padEnc_sameCore 0 _ _ ⟨rfl, rfl, rfl, rfl, rfl⟩
  | cons c cs =>
    obtain ⟨s3, hrun3, hc3, hcb3⟩ := encodeItemsC_eq item eop (c :: cs) m hall fuel hf T hcb
    refine ⟨s3, { s3 with isEndOfPdu := e2 }, hrun3, ?_, ?_, hcb3⟩
    · simp [dynTail, DComps.sups]
    · exact ⟨hc3.1, hc3.2.1, hc3.2.2.1, hc3.2.2.2.1, hc3.2.2.2.2⟩

theorem dynBodyC_decode_eq (item : Dop) (cs : List DComp) (m : Nat)
    (hall : ∀ c ∈ cs, c.itemOk item ∧ c.EndOk ∧ c.need ≤ m) (fuel : Nat) (hf : cs.length + m + 1 ≤ fuel)
    (d : DecState) (hcb : d.cursorBit = 0) (hfit : (dynBodyC cs).fits d) :
    decodeNItems item fuel cs.length d true = .ok (((dynBodyC cs).dec d).1, ((dynBodyC cs).dec d).2) := by
  cases cs with
  | nil =>
    obtain ⟨f, rfl⟩ : ∃ f, fuel = f + 1 := ⟨fuel - 1, by omega⟩
    simp [decodeNItems, pure, run_pure, dynBodyC, Pair.touch, Pair.map]
  | cons c cs => exact decodeNItemsC_eq item (c :: cs) m hall fuel hf d hcb hfit

/-- description of the count object and the layout of a DYNAMIC-LENGTH-FIELD -/
structure DynLayout where
  offset : Nat                  -- OFFSET of the first item (relative to the field's first byte)
  cntBp : Nat                   -- DETERMINE-NUMBER-OF-ITEMS / BYTE-POSITION
  cnt : Obj                     -- the count object: bit position, bit length, type (its `name`/`bytePos` are ignored)

def DynLayout.cntObj (l : DynLayout) : Obj := { l.cnt with name := "", bytePos := some l.cntBp }

def DynLayout.cntDop (l : DynLayout) : Dop :=
  .simple (.std l.cntObj.bt l.cnt.enc l.cnt.hl l.cnt.bl none false) l.cntObj.bt .identical

/-- the count object is an integer object able to hold `n` and lies before `offset` -/
def DynLayout.ok (l : DynLayout) (n : Nat) : Prop :=
  l.cntObj.ok ∧ l.cntObj.inRange (.int n) ∧ l.cntBp + l.cntObj.k ≤ l.offset

/-- pure encoder/decoder: the count, then the items from `offset` on, all relative to the field's first byte -/
def dynInnerC (l : DynLayout) (cs : List DComp) : Pair PVal :=
  (((Pair.ofObj l.cntObj (.int cs.length)).guard (· = IVal.int cs.length)).seq
      ((dynBodyC cs).atPos (some l.offset))).map (fun p => PVal.list p.2)

def DComp.dynLenField (l : DynLayout) (item : Dop) (cs : List DComp) : DComp where
  dop := .dynLenField l.offset l.cntBp l.cnt.bp l.cntDop item
  pair := (dynInnerC l cs).inOrigin
  sup := .list (DComps.sups cs)
  need := cs.length + DComps.maxNeed cs + 3
  size := l.offset + DComps.size cs

theorem DComp.dynLenField_val (l : DynLayout) (item : Dop) (cs : List DComp) :
    (DComp.dynLenField l item cs).pair.val = .list (DComps.vals cs) := by
  show PVal.list (dynBodyC cs).val = _
  rw [dynBodyC_val]

/-- **closure under DYNAMIC-LENGTH-FIELD**: every item is a component over the item DOP that consumes at least one byte -/
theorem DComp.dynLenField_ok (l : DynLayout) (item : Dop) (cs : List DComp) (hl : l.ok cs.length)
    (h : ∀ c ∈ cs, c.itemOk item ∧ c.EndOk ∧ 1 ≤ c.size) : (DComp.dynLenField l item cs).Ok := by
  obtain ⟨hc, hr, hoff⟩ := hl
  have hgk : Good (Pair.ofObj l.cntObj (.int cs.length)) := Good.ofObj l.cntObj hc _ hr
  have hgb : Good (dynBodyC cs) := dynBodyC_good _ (fun c hc => ⟨(h c hc).1.1, (h c hc).2.2⟩)
  have hoks : ∀ c ∈ cs, c.Ok := fun c hc => (h c hc).1.1
  have hgk' : Good ((Pair.ofObj l.cntObj (.int cs.length)).guard (· = IVal.int cs.length)) := hgk.guard _ rfl
  have hgood : Good (dynInnerC l cs) := (hgk'.seq (hgb.atPos (some l.offset))).map _
  exact {
    good := hgood.inOrigin
    sup_ne_none := by simp [DComp.dynLenField]
    originFree := OriginFree.inOrigin _
    dec_originFree := fun _ _ => rfl
    fits_originFree := fun _ _ => rfl
    encode_eq := by
      intro fuel hf s hcb _
      obtain ⟨g, rfl⟩ : ∃ g, fuel = g + 1 + 1 := ⟨fuel - 2, by simp only [DComp.dynLenField] at hf; omega⟩
      have hf' : cs.length + DComps.maxNeed cs + 1 ≤ g + 1 := by simp only [DComp.dynLenField] at hf; omega
      let s2 : EncState := { s with origin := s.cursorByte }
      obtain ⟨sc, hcnt, hsc⟩ := encodeDop_obj l.cntObj hc (.int cs.length) hr g s2
      let E : EncState := encStep l.cntObj (.int cs.length) s2
      have hscE : ({ sc with cursorBit := 0 } : EncState) = E := hsc
      have hsc_cur : sc.cursorByte = E.cursorByte := by have := congrArg EncState.cursorByte hscE; exact this
      have hsc_org : sc.origin = E.origin := by have := congrArg EncState.origin hscE; exact this
      have hEcur : E.cursorByte = s.cursorByte + l.cntBp + l.cntObj.k := rfl
      have hEorg : E.origin = s.cursorByte := rfl
      let T : EncState := { E with cursorByte := E.origin + l.offset, isEndOfPdu := false }
      have hT : ({ sc with cursorByte := sc.origin + l.offset, cursorBit := 0, isEndOfPdu := false } : EncState) = T := by
        show _ = ({ E with cursorByte := E.origin + l.offset, isEndOfPdu := false } : EncState)
        rw [← hscE]
      obtain ⟨s3, s4, hrun3, htail, hc4, hcb4⟩ := dynBodyC_encode_eq item s.isEndOfPdu s.isEndOfPdu cs (DComps.maxNeed cs)
        (fun c hc => ⟨(h c hc).1, (h c hc).2.2, DComps.maxNeed_ge cs c hc⟩) (g + 1) hf' T rfl
      have hcntRun : encodeDop (g + 1) l.cntDop (.atom (.int (DComps.sups cs).length))
          { s with origin := s.cursorByte, cursorBit := l.cnt.bp, cursorByte := s.cursorByte + l.cntBp } true = .ok ((), sc) := by
        have : (DComps.sups cs).length = cs.length := by simp [DComps.sups]
        rw [this]; exact hcnt
      have hstep := encodeDop_dyn_step (g + 1) l.offset l.cntBp l.cnt.bp l.cntDop item
        (DComps.sups cs) s sc hcb hcntRun (by rw [hsc_cur, hsc_org, hEcur, hEorg]; omega)
      rw [hT, hrun3] at hstep
      simp only [htail] at hstep
      have hcoreIn : SameCore s2 { s with origin := s.cursorByte } := SameCore.refl _
      let P : EncState := (Pair.ofObj l.cntObj (.int cs.length)).enc { s with origin := s.cursorByte }
      have hE : SameCore E P := hgk.core _ _ hcoreIn
      have hTcore : SameCore T { P with cursorByte := posOf (some l.offset) P.origin P.cursorByte } :=
        ⟨hE.1, hE.2.1, hE.2.2.1, by show E.origin + l.offset = P.origin + l.offset; rw [hE.2.2.2.2], hE.2.2.2.2⟩
      refine ⟨{ s4 with origin := s.origin }, ?_, ?_, hcb4⟩
      · simp only [DComp.dynLenField]
        rw [hstep]
      · have h1 := hc4.trans (hgb.core _ _ hTcore)
        exact ⟨h1.1, h1.2.1, h1.2.2.1, h1.2.2.2.1, rfl⟩
    enc_cursor := by
      intro s
      show ((dynBodyC cs).enc _).cursorByte = _
      rw [dynBodyC_enc_cursor cs hoks]
      show s.cursorByte + l.offset + DComps.size cs = s.cursorByte + (l.offset + DComps.size cs)
      omega
    dec_cursorBit := fun d _ => dynBodyC_dec_cursorBit cs hoks _ rfl
    dec_msg := fun d => by
      show ((dynBodyC cs).dec _).2.msg = d.msg
      rw [dynBodyC_dec_msg cs hoks]
      rfl
    dec_origin := fun _ => rfl
    decode_eq := by
      intro fuel hf d hcb hfit _
      obtain ⟨g, rfl⟩ : ∃ g, fuel = g + 1 + 1 := ⟨fuel - 2, by simp only [DComp.dynLenField] at hf; omega⟩
      have hf' : cs.length + DComps.maxNeed cs + 1 ≤ g + 1 := by simp only [DComp.dynLenField] at hf; omega
      let d2 : DecState := { d with origin := d.cursorByte }
      let D : DecState := (decStep l.cntObj d2).2
      have hfit' : (l.cntObj.fitsIn d2 ∧
            (decStep l.cntObj d2).1 = IVal.int cs.length) ∧
          (dynBodyC cs).fits { D with cursorByte := posOf (some l.offset) D.origin D.cursorByte } := hfit
      obtain ⟨⟨⟨hkfit, hkdec⟩, hkval⟩, hbfit⟩ := hfit'
      have hcnt := decodeDop_obj l.cntObj hc g d2 hkfit hkdec
      rw [hkval] at hcnt
      have hcnt' : decodeDop (g + 1) l.cntDop
          { d with origin := d.cursorByte, cursorByte := d.cursorByte + l.cntBp, cursorBit := l.cnt.bp } true =
          .ok (.atom (.int cs.length), D) := hcnt
      have hstep := decodeDop_dyn_step (g + 1) l.offset l.cntBp l.cnt.bp l.cntDop item d D cs.length hcb hcnt'
      have hbody := dynBodyC_decode_eq item cs (DComps.maxNeed cs)
        (fun c hc => ⟨(h c hc).1, (h c hc).2.1, DComps.maxNeed_ge cs c hc⟩) (g + 1) hf'
        { D with cursorByte := posOf (some l.offset) D.origin D.cursorByte } rfl hbfit
      have hbody' : decodeNItems item (g + 1) cs.length { D with cursorByte := D.origin + l.offset } true = _ := hbody
      rw [hbody'] at hstep
      simp only [DComp.dynLenField]
      rw [hstep]
      rfl }

theorem DComp.dynLenField_endOk (l : DynLayout) (item : Dop) (cs : List DComp) : (DComp.dynLenField l item cs).EndOk :=
  DComp.endOk_of_plain _ rfl

/-! ### END-OF-PDU-FIELD -/

/-- items that consume data move the cursor forward -/
theorem dynItemsC_dec_cursor_ge : ∀ (cs : List DComp) (d : DecState), (Pair.list (cs.map dynItemC)).fits d →
    d.cursorByte ≤ ((Pair.list (cs.map dynItemC)).dec d).2.cursorByte
  | [], _, _ => Nat.le_refl _
  | c :: cs, d, hfit => by
    have hfit' : (c.pair.fits d ∧ d.cursorByte < (c.pair.dec d).2.cursorByte) ∧
        (Pair.list (cs.map dynItemC)).fits (c.pair.dec d).2 := hfit
    have := dynItemsC_dec_cursor_ge cs _ hfit'.2
    simp only [List.map_cons, Pair.list, Pair.map, Pair.seq]
    have h1 := hfit'.1.2
    exact Nat.le_trans (Nat.le_of_lt h1) this

/-- the decoder's loop to the end of the message = the pure list of items, provided the items end where the message ends -/
theorem decodeToEndC_eq (item : Dop) : ∀ (cs : List DComp) (m : Nat),
    (∀ c ∈ cs, c.itemOk item ∧ c.EndOk ∧ c.need ≤ m) → ∀ (fuel : Nat), cs.length + m + 1 ≤ fuel →
    ∀ (d : DecState), d.cursorBit = 0 → (Pair.list (cs.map dynItemC)).fits d →
    ((Pair.list (cs.map dynItemC)).dec d).2.cursorByte = d.msg.length →
    decodeToEnd item fuel d true =
      .ok (((Pair.list (cs.map dynItemC)).dec d).1, ((Pair.list (cs.map dynItemC)).dec d).2) := by
  intro cs
  induction cs with
  | nil =>
    intro m _ fuel hf d _ _ hend
    obtain ⟨f, rfl⟩ : ∃ f, fuel = f + 1 := ⟨fuel - 1, by omega⟩
    have hend' : d.cursorByte = d.msg.length := hend
    have hlt : ¬ (d.cursorByte < d.msg.length) := by omega
    simp [decodeToEnd, bind, pure, run_bind, run_getS, run_pure, run_ite, hlt, Pair.list, Pair.nil]
  | cons c cs ih =>
    intro m hall fuel hf d hcb hfit hend
    obtain ⟨f, rfl⟩ : ∃ f, fuel = f + 1 := ⟨fuel - 1, by simp only [List.length_cons] at hf; omega⟩
    simp only [List.length_cons] at hf
    obtain ⟨hitem, hendOk, hneed⟩ := hall c (List.mem_cons_self ..)
    have hok := hitem.1
    have hfit' : (c.pair.fits d ∧ d.cursorByte < (c.pair.dec d).2.cursorByte) ∧
        (Pair.list (cs.map dynItemC)).fits (c.pair.dec d).2 := hfit
    have hend' : ((Pair.list (cs.map dynItemC)).dec (c.pair.dec d).2).2.cursorByte = d.msg.length := hend
    have hge := dynItemsC_dec_cursor_ge cs _ hfit'.2
    have hlt : d.cursorByte < d.msg.length := by have := hfit'.1.2; omega
    have h1 := hok.decode_eq f (by omega) d hcb hfit'.1.1 (hitem.decPre hendOk d)
    rw [hitem.2.1] at h1
    have h2 := ih m (fun x hx => hall x (List.mem_cons_of_mem _ hx)) f (by omega) (c.pair.dec d).2
      (hok.dec_cursorBit d hcb) hfit'.2 (by rw [hend', hok.dec_msg])
    have hadv : ¬ ((c.pair.dec d).2.cursorByte ≤ d.cursorByte) := by have := hfit'.1.2; omega
    simp only [decodeToEnd, bind, pure, run_bind, run_getS, run_pure, run_ite, hlt, if_true, h1, hadv, if_false, h2]
    rfl

/-- an END-OF-PDU-FIELD over the item DOP `item` (MIN- and MAX-NUMBER-OF-ITEMS are not looked at by odxtools' codec): it can
    only be encoded with `is_end_of_pdu`, and its decoder needs the items to end where the message ends -/
def DComp.eopField (mn mx : Option Nat) (item : Dop) (cs : List DComp) : DComp where
  dop := .eopField mn mx item
  pair := ((Pair.list (cs.map dynItemC)).map PVal.list).inOrigin
  sup := .list (DComps.sups cs)
  need := cs.length + DComps.maxNeed cs + 2
  size := DComps.size cs
  eopOnly := true
  decPre := fun d => ((Pair.list (cs.map dynItemC)).dec { d with origin := d.cursorByte }).2.cursorByte = d.msg.length

theorem DComp.eopField_val (mn mx : Option Nat) (item : Dop) (cs : List DComp) :
    (DComp.eopField mn mx item cs).pair.val = .list (DComps.vals cs) := by
  show PVal.list (Pair.list (cs.map dynItemC)).val = _
  rw [dynItemsC_val]

/-- **closure under END-OF-PDU-FIELD** -/
theorem DComp.eopField_ok (mn mx : Option Nat) (item : Dop) (cs : List DComp)
    (h : ∀ c ∈ cs, c.itemOk item ∧ c.EndOk ∧ 1 ≤ c.size) : (DComp.eopField mn mx item cs).Ok := by
  have hoks : ∀ c ∈ cs, c.Ok := fun c hc => (h c hc).1.1
  have hg : Good (Pair.list (cs.map dynItemC)) := dynItemsC_good _ (fun c hc => ⟨(h c hc).1.1, (h c hc).2.2⟩)
  exact {
    good := (hg.map _).inOrigin
    sup_ne_none := by simp [DComp.eopField]
    originFree := OriginFree.inOrigin _
    dec_originFree := fun _ _ => rfl
    fits_originFree := fun _ _ => rfl
    encode_eq := by
      intro fuel hf s hcb heop
      obtain ⟨g, rfl⟩ : ∃ g, fuel = g + 1 := ⟨fuel - 1, by simp only [DComp.eopField] at hf; omega⟩
      obtain ⟨s2, hrun, hcore, hcb2⟩ := encodeItemsC_eq item true cs (DComps.maxNeed cs)
        (fun c hc => ⟨(h c hc).1, (h c hc).2.2, DComps.maxNeed_ge cs c hc⟩) g (by simp only [DComp.eopField] at hf; omega)
        { s with isEndOfPdu := false } hcb
      refine ⟨{ s2 with isEndOfPdu := true }, ?_, ?_, hcb2⟩
      · simp only [DComp.eopField]
        rw [encodeDop_eop_step g _ _ _ _ s hcb (heop rfl)]
        rw [hrun]
      · have h1 : SameCore { s with isEndOfPdu := false } s := ⟨rfl, rfl, rfl, rfl, rfl⟩
        have h2 := hcore.trans (hg.core _ _ h1)
        have h3 := h2.trans ((dynItemsC_originFree cs hoks).sameCore_inOrigin hg s)
        exact ⟨h3.1, h3.2.1, h3.2.2.1, h3.2.2.2.1, h3.2.2.2.2⟩
    enc_cursor := fun s => dynItemsC_enc_cursor cs hoks { s with origin := s.cursorByte }
    dec_cursorBit := fun d hd => dynItemsC_dec_cursorBit cs hoks { d with origin := d.cursorByte } hd
    dec_msg := fun d => dynItemsC_dec_msg cs hoks { d with origin := d.cursorByte }
    dec_origin := fun _ => rfl
    decode_eq := by
      intro fuel hf d hcb hfit hpre
      obtain ⟨g, rfl⟩ : ∃ g, fuel = g + 1 := ⟨fuel - 1, by simp only [DComp.eopField] at hf; omega⟩
      have hst : ({ d with origin := d.cursorByte, cursorBit := 0 } : DecState) = { d with origin := d.cursorByte } := by rw [← hcb]
      have hfit' : (Pair.list (cs.map dynItemC)).fits { d with origin := d.cursorByte } := hfit
      have hrun := decodeToEndC_eq item cs (DComps.maxNeed cs)
        (fun c hc => ⟨(h c hc).1, (h c hc).2.1, DComps.maxNeed_ge cs c hc⟩) g (by simp only [DComp.eopField] at hf; omega)
        { d with origin := d.cursorByte } hcb hfit' hpre
      simp only [DComp.eopField, decodeDop, bind, pure, run_bind, run_getS, run_modifyS, run_pure, odxassert, hcb, decide_true,
        if_true]
      rw [hst, hrun]
      rfl }

theorem DComp.eopField_endOk (mn mx : Option Nat) (item : Dop) (cs : List DComp) : (DComp.eopField mn mx item cs).EndOk where
  of_end := fun _ h => h
  trivial := fun h => by cases h

end OdxVerif.Codec
