import OdxVerif.Proofs.CompExtFieldsM
import OdxVerif.Proofs.CompExtFieldsD
import OdxVerif.Proofs.CompCompu2Leaf
/-! Compositional components, extension W23, part B: **a compu DOP as the SWITCH KEY of a MULTIPLEXER and as the COUNT of a
    DYNAMIC-LENGTH-FIELD**.

    `DComp.mux` / `DComp.dynLenField` (and `MuxLayout.keyDop`, `DynLayout.cntDop`) fix the key / count DOP to the IDENTICAL
    DOP of the key object, and `DComp.mux_ok` / `DComp.dynLenField_ok` use `encodeParam_obj` / `encodeDop_obj` for it.  The model
    itself (`encodeDop … (.mux …)`: `encodeParam … (.value swDop none) (some (.atom (.int key)))`; `(.dynLenField …)`:
    `encodeDop countDop (.atom (.int xs.length))`) and the unfolding lemmas `encodeDop_mux_step`, `decodeDop_mux_step`,
    `encodeDop_dyn_step`, `decodeDop_dyn_step` are generic in that DOP; all the closure proofs need from it is

    * the encoder, given the *physical* key / count (an `int`), writes `encStep` of the key object with the *internal* value;
    * the decoder, when the object holds that internal value, returns the physical `int` again,

    which is exactly `ConvOk kd keyObj.dct (.atom (.int key)) (.atom (.int key)) ki`.  So nothing blocks the generalisation:
    `DComp.muxConv` / `DComp.dynLenFieldConv` below take any key / count DOP with such a fact (`…_okM`, `…_ok`), and
    `mux_ok_lin` / `dynLenField_ok_lin` are the LINEAR instances (`LinLeaf`); a TEXTTABLE key cannot occur (its physical
    value is a string: odxtools raises "Multiplexer keys must be integers").

    What the CASE limits / the item count mean then: the limits of the CASEs are compared with the PHYSICAL key
    (`Multiplexer`: `mux_case.applies(key_value)` on the decoded physical value), the count is the PHYSICAL value of the count
    DOP; the wire holds the internal value. -/
namespace OdxVerif.Codec
open OdxVerif.Bits OdxVerif.OdxM OdxVerif.Compu

/-! ### the conversion leaf at the `encodeParam` / `encodeDop` level with the state made explicit -/

/-- the diag-coded type of an object reads `decStep` *exactly* (it leaves the bit cursor at 0) -/
theorem decodeDct_obj_exact (o : Obj) (ho : o.ok) (d : DecState) (hfit : o.fitsIn d) :
    decodeDct o.dct (o.decAt d) true = .ok ((decStep o d).1, (decStep o d).2) := by
  obtain ⟨d', hrun, hd'⟩ := decodeDct_obj o ho d hfit
  have hbl : o.bl ≠ 0 := by have := ho.2.1; omega
  have hcb : d'.cursorBit = 0 := by
    have h := hrun
    simp only [Obj.dct, decodeDct] at h
    exact extractAtomic_cursorBit o.bl hbl o.bt o.enc o.hl _ d' _ h
  have hdc : d' = { d' with cursorBit := 0 } := by
    cases d'
    simp only at hcb
    subst hcb
    rfl
  rw [hrun, hdc, hd']

theorem encodeDop_conv (o : Obj) (ho : o.ok) (dop : Dop) (sup val : PVal) (i : IVal) (hr : o.inRange i)
    (hc : ConvOk dop o.dct sup val i) (g : Nat) (s : EncState) :
    ∃ sc, encodeDop (g + 1) dop sup (o.encAt s) true = .ok ((), sc) ∧ ({ sc with cursorBit := 0 } : EncState) = encStep o i s := by
  obtain ⟨s', hrun, hs'⟩ := encodeDct_obj o ho i hr s
  exact ⟨s', by rw [hc.enc g]; exact hrun, hs'⟩

theorem decodeDop_conv (o : Obj) (ho : o.ok) (dop : Dop) (sup val : PVal) (i : IVal) (hc : ConvOk dop o.dct sup val i)
    (g : Nat) (d : DecState) (hfit : o.fitsIn d) (hval : (decStep o d).1 = i) :
    decodeDop (g + 1) dop (o.decAt d) true = .ok (val, (decStep o d).2) := by
  have h := decodeDct_obj_exact o ho d hfit
  rw [hval] at h
  exact hc.dec g _ _ h

theorem encodeParam_conv (o : Obj) (ho : o.ok) (dop : Dop) (sup val : PVal) (i : IVal) (hr : o.inRange i)
    (hc : ConvOk dop o.dct sup val i) (f : Nat) (s : EncState) :
    encodeParam (f + 2) (.mk o.name o.bytePos o.bitPos (.value dop none)) (some sup) s true = .ok ((), encStep o i s) := by
  obtain ⟨sc, hrun, hsc⟩ := encodeDop_conv o ho dop sup val i hr hc f s
  have hrun' : encodeDop (f + 1) dop sup
      { s with cursorByte := posOf o.bytePos s.origin s.cursorByte, cursorBit := o.bitPos.getD 0 } true = .ok ((), sc) := hrun
  rw [encodeParam_value_step, hrun']
  simp only [hsc]

theorem decodeParam_conv (o : Obj) (ho : o.ok) (dop : Dop) (sup val : PVal) (i : IVal) (hc : ConvOk dop o.dct sup val i)
    (f : Nat) (d : DecState) (hfit : o.fitsIn d) (hval : (decStep o d).1 = i) :
    decodeParam (f + 2) (.mk o.name o.bytePos o.bitPos (.value dop none)) d true = .ok (val, (decStep o d).2) := by
  have hrun := decodeDop_conv o ho dop sup val i hc f d hfit hval
  have hrun' : decodeDop (f + 1) dop
      { d with cursorByte := posOf o.bytePos d.origin d.cursorByte, cursorBit := o.bitPos.getD 0 } true
        = .ok (val, (decStep o d).2) := hrun
  rw [decodeParam_value_step, hrun']
  have hcb : (decStep o d).2.cursorBit = 0 := rfl
  simp only [DecState.cursorBit_eta _ hcb]

/-! ### MULTIPLEXER whose switch key DOP is a compu DOP -/

/-- the MULTIPLEXER of layout `m` whose switch key is typed by the DOP `kd`; `m.lo` = the PHYSICAL key (what the CASE limits
    are compared with), `ki` = the internal value the key object holds -/
def DComp.muxConv (m : MuxLayout) (kd : Dop) (ki : IVal) (c : DComp) : DComp where
  dop := .mux m.muxBp m.swBp m.key.bitPos kd m.cases m.dflt
  pair := ((((Pair.ofObj m.keyObj ki).guard (· = ki)).seq (c.pair.atPos (some m.muxBp))).map
            (fun p => PVal.pair m.caseName p.2)).inOrigin
  sup := .pair m.caseName c.sup
  need := c.need + 3
  size := m.muxBp + c.size
  eopOnly := c.eopOnly
  decPre := fun d =>
    c.decPre { (decStep m.keyObj { d with origin := d.cursorByte }).2 with cursorByte := d.cursorByte + m.muxBp }

theorem DComp.muxConv_val (m : MuxLayout) (kd : Dop) (ki : IVal) (c : DComp) :
    (DComp.muxConv m kd ki c).pair.val = .pair m.caseName c.pair.val := rfl

/-- key object ok and able to hold the INTERNAL key `ki`; the key DOP converts the physical key `m.lo` to `ki` and back;
    encoder and decoder select the same case (by the physical key), whose structure is `sd` -/
def MuxLayout.okConv (m : MuxLayout) (kd : Dop) (ki : IVal) (sd : Dop) : Prop :=
  m.keyObj.ok ∧ m.keyObj.inRange ki ∧ ConvOk kd m.keyObj.dct (.atom (.int m.lo)) (.atom (.int m.lo)) ki ∧ m.encSel sd ∧ m.decSel sd

/-- **closure under MULTIPLEXER with a compu switch key** (restricted components: the mid discipline is inherited) -/
theorem DComp.muxConv_okM (m : MuxLayout) (kd : Dop) (ki : IVal) (c : DComp) (mid : Bool) (hc : c.OkM mid)
    (hm : m.okConv kd ki c.dop) : (DComp.muxConv m kd ki c).OkM mid := by
  obtain ⟨hk, hr, hconv, hesel, hdsel⟩ := hm
  have hgk : Good (Pair.ofObj m.keyObj ki) := Good.ofObj m.keyObj hk ki hr
  have hgk' : Good ((Pair.ofObj m.keyObj ki).guard (· = ki)) := hgk.guard _ rfl
  have hG := Comp.ofValueM_ok "" (some m.muxBp) c mid hc (fun _ => True)
  exact {
    good := ((hgk'.seq (hc.good.atPos (some m.muxBp))).map _).inOrigin
    sup_ne_none := by simp [DComp.muxConv]
    originFree := OriginFree.inOrigin _
    dec_originFree := fun _ _ => rfl
    fits_originFree := fun _ _ => rfl
    encode_eq := by
      intro fuel hf s hcb heop hmid
      obtain ⟨f, rfl⟩ : ∃ f, fuel = f + 2 + 1 := ⟨fuel - 3, by simp only [DComp.muxConv] at hf; omega⟩
      let s2 : EncState := { s with origin := s.cursorByte }
      have hkey : encodeParam (f + 2) (.mk "" (some m.swBp) m.key.bitPos (.value kd none))
          (some (.atom (.int m.lo))) s2 true = .ok ((), encStep m.keyObj ki s2) :=
        encodeParam_conv m.keyObj hk kd _ _ ki hr hconv f s2
      obtain ⟨s3, hrun3, hcore3⟩ := hG.encode_eq (f + 2) (by simp only [Comp.ofValue, DComp.muxConv] at hf ⊢; omega)
        (encStep m.keyObj ki s2) heop hmid True.intro
      have hrun3' : encodeParam (f + 2) (.mk "" (some m.muxBp) none (.value c.dop none)) (some c.sup)
          (encStep m.keyObj ki s2) true = .ok ((), s3) := hrun3
      have hcb3 : s3.cursorBit = 0 := encodeParam_cursorBit _ _ _ _ _ _ hrun3
      refine ⟨{ s3 with origin := s.origin }, ?_, ?_, hcb3⟩
      · simp only [DComp.muxConv]
        rw [encodeDop_mux_step (f + 2) _ _ _ _ _ _ _ _ _ hcb m.lo c.dop hesel]
        rw [hkey]
        simp only []
        rw [hrun3']
      · exact ⟨hcore3.1, hcore3.2.1, hcore3.2.2.1, hcore3.2.2.2.1, rfl⟩
    enc_cursor := by
      intro s
      show (c.pair.enc _).cursorByte = _
      rw [hc.enc_cursor]
      show s.cursorByte + m.muxBp + c.size = s.cursorByte + (m.muxBp + c.size)
      omega
    dec_cursorBit := fun d _ => hc.dec_cursorBit _ rfl
    dec_msg := fun d => by
      show (c.pair.dec _).2.msg = d.msg
      rw [hc.dec_msg]
      rfl
    dec_origin := fun _ => rfl
    decode_eq := by
      intro fuel hf d hcb hfit hpre
      obtain ⟨f, rfl⟩ : ∃ f, fuel = f + 2 + 1 := ⟨fuel - 3, by simp only [DComp.muxConv] at hf; omega⟩
      let d2 : DecState := { d with origin := d.cursorByte }
      have hfit' : (m.keyObj.fitsIn d2 ∧
            (decStep m.keyObj d2).1 = ki) ∧
          (Comp.ofValue "" (some m.muxBp) c).pair.fits (decStep m.keyObj d2).2 := hfit
      obtain ⟨⟨hkfit, hkval⟩, hcfit⟩ := hfit'
      have hkey : decodeParam (f + 2) (.mk "" (some m.swBp) m.key.bitPos (.value kd none)) d2 true =
          .ok (.atom (.int m.lo), (decStep m.keyObj d2).2) :=
        decodeParam_conv m.keyObj hk kd _ _ ki hconv f d2 hkfit hkval
      have hcont := hG.decode_eq (f + 2) (by simp only [Comp.ofValue, DComp.muxConv] at hf ⊢; omega)
        (decStep m.keyObj d2).2 rfl hcfit hpre
      have hcont' : decodeParam (f + 2) (.mk "" (some m.muxBp) none (.value c.dop none)) (decStep m.keyObj d2).2 true = _ := hcont
      simp only [DComp.muxConv]
      rw [decodeDop_mux_step (f + 2) _ _ _ _ _ _ _ m.lo _ hkey m.caseName c.dop hdsel]
      rw [decodeParam_explicit_cursor, hcont']
      rfl }

theorem DComp.muxConv_ok (m : MuxLayout) (kd : Dop) (ki : IVal) (c : DComp) (hc : c.Ok) (hm : m.okConv kd ki c.dop) :
    (DComp.muxConv m kd ki c).Ok := (DComp.muxConv_okM m kd ki c false (hc.toM false) hm).toOk

theorem DComp.muxConv_endOk (m : MuxLayout) (kd : Dop) (ki : IVal) (c : DComp) (hc : c.EndOk) : (DComp.muxConv m kd ki c).EndOk where
  of_end := fun d h => hc.of_end _ h
  trivial := fun h d => hc.trivial h _

/-- **the LINEAR switch key** (`mux_ok_lin`): the key DOP is the LINEAR DOP of the leaf `l` — its object is the key object, its
    physical value the key `m.lo` the CASE limits refer to; the wire holds `l.i` -/
theorem DComp.mux_ok_lin (m : MuxLayout) (l : LinLeaf) (c : DComp) (mid : Bool) (hc : c.OkM mid) (hl : l.ok)
    (ho : l.o = m.keyObj) (hz : l.z = m.lo) (hsel : m.encSel c.dop ∧ m.decSel c.dop) :
    (DComp.muxConv m l.dop (.int l.i) c).OkM mid := by
  have hconv := l.convOk hl
  rw [hz] at hconv
  refine DComp.muxConv_okM m l.dop (.int l.i) c mid hc ⟨?_, ?_, ?_, hsel.1, hsel.2⟩
  · rw [← ho]; exact hl.1
  · rw [← ho]; exact hl.2.1
  · rw [← ho]; exact hconv

/-! ### DYNAMIC-LENGTH-FIELD whose count DOP is a compu DOP -/

/-- pure encoder/decoder: the count object holding the INTERNAL value `ci`, then the items from `offset` on -/
def dynInnerConv (l : DynLayout) (ci : IVal) (cs : List DComp) : Pair PVal :=
  (((Pair.ofObj l.cntObj ci).guard (· = ci)).seq ((dynBodyC cs).atPos (some l.offset))).map (fun p => PVal.list p.2)

/-- the DYNAMIC-LENGTH-FIELD of layout `l` whose DETERMINE-NUMBER-OF-ITEMS DOP is `cd`; the count object holds `ci` -/
def DComp.dynLenFieldConv (l : DynLayout) (cd : Dop) (ci : IVal) (item : Dop) (cs : List DComp) : DComp where
  dop := .dynLenField l.offset l.cntBp l.cnt.bp cd item
  pair := (dynInnerConv l ci cs).inOrigin
  sup := .list (DComps.sups cs)
  need := cs.length + DComps.maxNeed cs + 3
  size := l.offset + DComps.size cs

theorem DComp.dynLenFieldConv_val (l : DynLayout) (cd : Dop) (ci : IVal) (item : Dop) (cs : List DComp) :
    (DComp.dynLenFieldConv l cd ci item cs).pair.val = .list (DComps.vals cs) := by
  show PVal.list (dynBodyC cs).val = _
  rw [dynBodyC_val]

/-- the count object is ok, able to hold the internal count `ci`, lies before `offset`; the count DOP converts the number of
    items `n` (physical) to `ci` and back -/
def DynLayout.okConv (l : DynLayout) (cd : Dop) (ci : IVal) (n : Nat) : Prop :=
  l.cntObj.ok ∧ l.cntObj.inRange ci ∧ l.cntBp + l.cntObj.k ≤ l.offset ∧
  ConvOk cd l.cntObj.dct (.atom (.int n)) (.atom (.int n)) ci

/-- **closure under DYNAMIC-LENGTH-FIELD with a compu count DOP** -/
theorem DComp.dynLenFieldConv_okM (l : DynLayout) (cd : Dop) (ci : IVal) (item : Dop) (cs : List DComp) (mid : Bool)
    (hl : l.okConv cd ci cs.length)
    (h : ∀ c ∈ cs, c.itemOkM item ∧ c.EndOk ∧ 1 ≤ c.size) (hlastM : ∀ c, cs.getLast? = some c → c.OkM mid) :
    (DComp.dynLenFieldConv l cd ci item cs).OkM mid := by
  obtain ⟨hc, hr, hoff, hconv⟩ := hl
  have hgk : Good (Pair.ofObj l.cntObj ci) := Good.ofObj l.cntObj hc _ hr
  have hgb : Good (dynBodyC cs) := dynBodyM_good _ (fun c hc => ⟨(h c hc).1.1, (h c hc).2.2⟩)
  have hoks : ∀ c ∈ cs, c.OkM true := fun c hc => (h c hc).1.1
  have hgk' : Good ((Pair.ofObj l.cntObj ci).guard (· = ci)) := hgk.guard _ rfl
  have hgood : Good (dynInnerConv l ci cs) := (hgk'.seq (hgb.atPos (some l.offset))).map _
  exact {
    good := hgood.inOrigin
    sup_ne_none := by simp [DComp.dynLenFieldConv]
    originFree := OriginFree.inOrigin _
    dec_originFree := fun _ _ => rfl
    fits_originFree := fun _ _ => rfl
    encode_eq := by
      intro fuel hf s hcb _ hmidS
      obtain ⟨g, rfl⟩ : ∃ g, fuel = g + 1 + 1 := ⟨fuel - 2, by simp only [DComp.dynLenFieldConv] at hf; omega⟩
      have hf' : cs.length + DComps.maxNeed cs + 1 ≤ g + 1 := by simp only [DComp.dynLenFieldConv] at hf; omega
      let s2 : EncState := { s with origin := s.cursorByte }
      obtain ⟨sc, hcnt, hsc⟩ := encodeDop_conv l.cntObj hc cd _ _ ci hr hconv g s2
      let E : EncState := encStep l.cntObj ci s2
      have hscE : ({ sc with cursorBit := 0 } : EncState) = E := hsc
      have hsc_cur : sc.cursorByte = E.cursorByte := by have := congrArg EncState.cursorByte hscE; exact this
      have hsc_org : sc.origin = E.origin := by have := congrArg EncState.origin hscE; exact this
      have hEcur : E.cursorByte = s.cursorByte + l.cntBp + l.cntObj.k := rfl
      have hEorg : E.origin = s.cursorByte := rfl
      let T : EncState := { E with cursorByte := E.origin + l.offset, isEndOfPdu := false }
      have hT : ({ sc with cursorByte := sc.origin + l.offset, cursorBit := 0, isEndOfPdu := false } : EncState) = T := by
        show _ = ({ E with cursorByte := E.origin + l.offset, isEndOfPdu := false } : EncState)
        rw [← hscE]
      obtain ⟨s3, s4, hrun3, htail, hc4, hcb4⟩ := dynBodyM_encode_eq item s.isEndOfPdu s.isEndOfPdu mid hmidS cs (DComps.maxNeed cs)
        (fun c hc => ⟨(h c hc).1, (h c hc).2.2, DComps.maxNeed_ge cs c hc⟩) hlastM (g + 1) hf' T rfl rfl
      have hcntRun : encodeDop (g + 1) cd (.atom (.int (DComps.sups cs).length))
          { s with origin := s.cursorByte, cursorBit := l.cnt.bp, cursorByte := s.cursorByte + l.cntBp } true = .ok ((), sc) := by
        have : (DComps.sups cs).length = cs.length := by simp [DComps.sups]
        rw [this]; exact hcnt
      have hstep := encodeDop_dyn_step (g + 1) l.offset l.cntBp l.cnt.bp cd item
        (DComps.sups cs) s sc hcb hcntRun (by rw [hsc_cur, hsc_org, hEcur, hEorg]; omega)
      rw [hT, hrun3] at hstep
      simp only [htail] at hstep
      have hcoreIn : SameCore s2 { s with origin := s.cursorByte } := SameCore.refl _
      let P : EncState := (Pair.ofObj l.cntObj ci).enc { s with origin := s.cursorByte }
      have hE : SameCore E P := hgk.core _ _ hcoreIn
      have hTcore : SameCore T { P with cursorByte := posOf (some l.offset) P.origin P.cursorByte } :=
        ⟨hE.1, hE.2.1, hE.2.2.1, by show E.origin + l.offset = P.origin + l.offset; rw [hE.2.2.2.2], hE.2.2.2.2⟩
      refine ⟨{ s4 with origin := s.origin }, ?_, ?_, hcb4⟩
      · simp only [DComp.dynLenFieldConv]
        rw [hstep]
      · have h1 := hc4.trans (hgb.core _ _ hTcore)
        exact ⟨h1.1, h1.2.1, h1.2.2.1, h1.2.2.2.1, rfl⟩
    enc_cursor := by
      intro s
      show ((dynBodyC cs).enc _).cursorByte = _
      rw [dynBodyM_enc_cursor cs hoks]
      show s.cursorByte + l.offset + DComps.size cs = s.cursorByte + (l.offset + DComps.size cs)
      omega
    dec_cursorBit := fun d _ => dynBodyM_dec_cursorBit cs hoks _ rfl
    dec_msg := fun d => by
      show ((dynBodyC cs).dec _).2.msg = d.msg
      rw [dynBodyM_dec_msg cs hoks]
      rfl
    dec_origin := fun _ => rfl
    decode_eq := by
      intro fuel hf d hcb hfit _
      obtain ⟨g, rfl⟩ : ∃ g, fuel = g + 1 + 1 := ⟨fuel - 2, by simp only [DComp.dynLenFieldConv] at hf; omega⟩
      have hf' : cs.length + DComps.maxNeed cs + 1 ≤ g + 1 := by simp only [DComp.dynLenFieldConv] at hf; omega
      let d2 : DecState := { d with origin := d.cursorByte }
      let D : DecState := (decStep l.cntObj d2).2
      have hfit' : (l.cntObj.fitsIn d2 ∧
            (decStep l.cntObj d2).1 = ci) ∧
          (dynBodyC cs).fits { D with cursorByte := posOf (some l.offset) D.origin D.cursorByte } := hfit
      obtain ⟨⟨hkfit, hkval⟩, hbfit⟩ := hfit'
      have hcnt := decodeDop_conv l.cntObj hc cd _ _ ci hconv g d2 hkfit hkval
      have hcnt' : decodeDop (g + 1) cd
          { d with origin := d.cursorByte, cursorByte := d.cursorByte + l.cntBp, cursorBit := l.cnt.bp } true =
          .ok (.atom (.int cs.length), D) := hcnt
      have hstep := decodeDop_dyn_step (g + 1) l.offset l.cntBp l.cnt.bp cd item d D cs.length hcb hcnt'
      have hbody := dynBodyM_decode_eq item cs (DComps.maxNeed cs)
        (fun c hc => ⟨(h c hc).1, (h c hc).2.1, DComps.maxNeed_ge cs c hc⟩) (g + 1) hf'
        { D with cursorByte := posOf (some l.offset) D.origin D.cursorByte } rfl hbfit
      have hbody' : decodeNItems item (g + 1) cs.length { D with cursorByte := D.origin + l.offset } true = _ := hbody
      rw [hbody'] at hstep
      simp only [DComp.dynLenFieldConv]
      rw [hstep]
      rfl }

theorem DComp.dynLenFieldConv_endOk (l : DynLayout) (cd : Dop) (ci : IVal) (item : Dop) (cs : List DComp) :
    (DComp.dynLenFieldConv l cd ci item cs).EndOk := DComp.endOk_of_plain _ rfl

/-- **the LINEAR count** (`dynLenField_ok_lin`): the count DOP is the LINEAR DOP of the leaf `k` — its object is the count object,
    its physical value the number of items; the wire holds `k.i` -/
theorem DComp.dynLenField_ok_lin (l : DynLayout) (k : LinLeaf) (item : Dop) (cs : List DComp) (mid : Bool) (hk : k.ok)
    (ho : k.o = l.cntObj) (hz : k.z = cs.length) (hoff : l.cntBp + l.cntObj.k ≤ l.offset)
    (h : ∀ c ∈ cs, c.itemOkM item ∧ c.EndOk ∧ 1 ≤ c.size) (hlastM : ∀ c, cs.getLast? = some c → c.OkM mid) :
    (DComp.dynLenFieldConv l k.dop (.int k.i) item cs).OkM mid := by
  have hconv := k.convOk hk
  rw [hz] at hconv
  refine DComp.dynLenFieldConv_okM l k.dop (.int k.i) item cs mid ⟨?_, ?_, hoff, ?_⟩ h hlastM
  · rw [← ho]; exact hk.1
  · rw [← ho]; exact hk.2.1
  · rw [← ho]; exact hconv

end OdxVerif.Codec
