import OdxVerif.Proofs.CompExtDescribed
import OdxVerif.Proofs.CompTruncAll
/-! C05 for the nested tier (task W19), bridge to the compositional tier (`Comp`, `Described`, `Pair.fits`): the
    `decodeParam … = .ok …` premises of `Reads` (what lies in front of the object decoded) are discharged by `decode_eq` of
    described components that fit — so "a described prefix that fits, then an object that is cut off" is rejected. -/
namespace OdxVerif.Codec
open OdxVerif.Bits OdxVerif.OdxM

/-- the decoder half of `Comp.Ok` / `Comp.OkM`: the model's `decodeParam` equals the pair when the component fits -/
structure Comp.DecOk (g : Comp) : Prop where
  dec_cursorBit : ∀ (d : DecState), d.cursorBit = 0 → (g.pair.dec d).2.cursorBit = 0
  decode_eq : ∀ (fuel : Nat), g.need ≤ fuel → ∀ (d : DecState), d.cursorBit = 0 → g.pair.fits d → g.decPre d →
    decodeParam fuel g.param d true = .ok ((g.pair.dec d).1, (g.pair.dec d).2)

theorem Comp.Ok.decOk {g : Comp} (h : g.Ok) : g.DecOk := ⟨h.dec_cursorBit, h.decode_eq⟩
theorem Comp.OkM.decOk {g : Comp} {mid : Bool} {P : EncState → Prop} (h : g.OkM mid P) : g.DecOk := ⟨h.dec_cursorBit, h.decode_eq⟩
theorem Described.decOk {g : Comp} (h : Described g) : g.DecOk := h.ok.1.decOk
theorem Described2.decOk {g : Comp} {mid : Bool} (h : Described2 g mid) : g.DecOk := (h.ok.1 (fun _ => True)).decOk

/-- what the decoder has to read behind a list of components that fit is read by the whole parameter list -/
theorem Comps.reads_prefix : (pre : List Comp) → (∀ g ∈ pre, g.DecOk) → ∀ (f : Nat), (∀ g ∈ pre, g.need ≤ f) → ∀ (d : DecState),
    d.cursorBit = 0 → (Comps.pair pre).fits d → Comps.decPre pre d → ∀ (rest : List Param) (dr : DecState) (bl : Nat),
    Reads true f (.params rest) ((Comps.pair pre).dec d).2 dr bl →
    Reads true (f + pre.length) (.params (Comps.toParams pre ++ rest)) d dr bl
  | [], _, _, _, _, _, _, _, _, _, _, h => h
  | g :: gs, hok, f, hneed, d, hcb, hfit, hpre, rest, dr, bl, h => by
    have hg := hok g (List.mem_cons_self ..)
    have hfit' : g.pair.fits d ∧ (Comps.pair gs).fits (g.pair.dec d).2 := hfit
    have h1 := hg.decode_eq (f + gs.length) (Nat.le_trans (hneed g (List.mem_cons_self ..)) (Nat.le_add_right _ _)) d hcb
      hfit'.1 hpre.1
    have h2 := Comps.reads_prefix gs (fun x hx => hok x (List.mem_cons_of_mem _ hx)) f
      (fun x hx => hneed x (List.mem_cons_of_mem _ hx)) (g.pair.dec d).2 (hg.dec_cursorBit d hcb) hfit'.2 hpre.2 rest dr bl h
    exact Reads.paramsTail (f + gs.length) g.param (Comps.toParams gs ++ rest) d _ dr _ bl h1 h2

/-- a VALUE parameter typed by a STRUCTURE: what its parameter list has to read, the parameter has to read -/
theorem Reads.ofStructParam (st : Bool) (f : Nat) (name : String) (bp : Option Nat) (bs : Option Nat) (ps : List Param)
    (dv : Option PVal) (d dr : DecState) (bl : Nat)
    (h : Reads st f (.params ps) { d with cursorByte := posOf bp d.origin d.cursorByte, cursorBit := 0,
                                          origin := posOf bp d.origin d.cursorByte } dr bl) :
    Reads st (f + 3) (.param (.mk name bp none (.value (.struct bs ps) dv))) d dr bl := by
  refine .value _ _ _ _ _ _ _ _ _ (.struct _ _ _ _ _ _ (.composite _ _ _ _ _ ?_))
  cases bp <;> exact h

/-- a standard-length leaf (VALUE / CODED-CONST parameter over an `Obj`) has to read its `bl` bits at its position -/
theorem Reads.ofObjValue (st : Bool) (f : Nat) (o : Obj) (ho : o.ok) (d : DecState) :
    ∃ dr, Reads st (f + 2) (.param o.toParam) d dr o.bl ∧ dr.msg = d.msg ∧ dr.readEnd o.bl = o.pos d.origin d.cursorByte + o.k := by
  refine ⟨d.atParam o.bytePos o.bitPos, ?_, rfl, ?_⟩
  · unfold Obj.toParam
    refine .value _ _ _ _ _ _ _ _ _ (.simple _ _ _ _ _ _ _ (.std _ _ _ _ _ _ _ _ ?_))
    obtain ⟨_, hbl, hsz⟩ := ho
    unfold Obj.sizeOk at hsz
    refine ⟨by omega, ?_, ?_⟩ <;> intro hb <;> cases hk : o.kind <;> simp_all [Obj.bt]
  · unfold DecState.readEnd DecState.atParam Obj.pos Obj.k Obj.bp
    cases o.bytePos <;> rfl

end OdxVerif.Codec
