import OdxVerif.Proofs.CompReject2Mux
import OdxVerif.Proofs.CompExtByteSize
/-! Compositional tier, rejection side, second part (task W18, C04): closure of `DDesc.OkW` under **STRUCTURE with BYTE-SIZE**.
    `BasicStructure.encode_into_pdu` (pinned commit + fix c01-byte-size-structure-content-too-long, f0ce27d): the content is
    encoded as without BYTE-SIZE; content that ends more than BYTE-SIZE bytes behind the structure's first byte is rejected with
    `EncodeError` ("Attempted to encode too large instance of structure"), shorter content is padded.  The description
    `DDesc.structBS bs ps` accepts exactly the dictionaries `DDesc.struct ps` accepts whose content ends within `bs` bytes.
    `DDesc.structO` = optional BYTE-SIZE.  Core Lean only. -/
namespace OdxVerif.Codec
open OdxVerif.Bits OdxVerif.OdxM

/-- an error of the content is the error of the BYTE-SIZE structure -/
theorem encodeDop_structBS_err (f : Nat) (bs : Nat) (ps : List Param) (pv : PVal) (s : EncState) (e : Err) (s' : EncState)
    (h : encodeDop (f + 1) (.struct none ps) pv s true = .error (e, s')) :
    encodeDop (f + 1) (.struct (some bs) ps) pv s true = .error (e, s') := by
  simp only [encodeDop, bind, pure, run_bind, run_getS, run_pure] at h ⊢
  generalize encodeComposite f ps pv s true = r at h ⊢
  cases r with
  | error q => simpa using h
  | ok q => cases q; simp at h

/-- accepted content that ends behind BYTE-SIZE: `EncodeError` -/
theorem encodeDop_structBS_too_long (f : Nat) (bs : Nat) (ps : List Param) (pv : PVal) (s s1 : EncState)
    (h : encodeDop (f + 1) (.struct none ps) pv s true = .ok ((), s1)) (hlong : s1.cursorByte - s.cursorByte > bs) :
    encodeDop (f + 1) (.struct (some bs) ps) pv s true = .error (.encode, s1) := by
  simp only [encodeDop, bind, pure, run_bind, run_getS, run_pure] at h ⊢
  generalize encodeComposite f ps pv s true = r at h ⊢
  cases r with
  | error q => simp at h
  | ok q =>
    obtain ⟨u, s2⟩ := q
    simp only [Except.ok.injEq, Prod.mk.injEq, true_and] at h
    subst h
    simp only [run_ite, hlong, if_true, odxraise]

/-- a STRUCTURE with BYTE-SIZE `bs` over the parameter descriptions `ps` -/
def DDesc.structBS (bs : Nat) (ps : List PDesc) : DDesc where
  dop := .struct (some bs) (PDescs.toParams ps)
  fill := fun pv => match (DDesc.struct ps).fill pv with
    | some c => if c.size ≤ bs then some (DComp.withByteSize bs (PDescs.toParams ps) c) else none
    | none => none
  complete := (DDesc.struct ps).complete
  typed := (DDesc.struct ps).typed
  need := (DDesc.struct ps).need
  mayEop := false
  minSize := bs

theorem DDesc.struct_fill_need (ps : List PDesc) (pv : PVal) (c : DComp) (h : (DDesc.struct ps).fill pv = some c) : 1 ≤ c.need := by
  cases pv with
  | dict kvs =>
    simp only [DDesc.struct] at h
    cases hu : PDescs.unknown ps kvs with
    | true => rw [hu] at h; simp at h
    | false =>
      rw [hu] at h
      cases hg : PDescs.fill ps kvs with
      | none => rw [hg] at h; simp at h
      | some gs =>
        rw [hg] at h
        simp only [Bool.false_eq_true, if_false, Option.map_some, Option.some.injEq] at h
        rw [← h]
        simp [DComp.structOf, DComp.struct]
  | _ => simp [DDesc.struct] at h

/-- **closure under STRUCTURE with BYTE-SIZE** (no END-OF-PDU object inside: it could not be in last position) -/
theorem DDesc.structBS_okW (bs : Nat) (ps : List PDesc) (hok : ∀ p ∈ ps, p.OkW) (hn : PDescs.namesOk ps)
    (hne : PDescs.anyEop ps = false) : (DDesc.structBS bs ps).OkW where
  acc := by
    intro pv c0 hf
    have hS := DDesc.struct_okW ps hok hn (PDescs.eopLast_of_noEop ps hne)
    have key : ∃ c, (DDesc.struct ps).fill pv = some c ∧ c.size ≤ bs ∧ c0 = DComp.withByteSize bs (PDescs.toParams ps) c := by
      simp only [DDesc.structBS] at hf
      cases hc : (DDesc.struct ps).fill pv with
      | none => rw [hc] at hf; cases hf
      | some c =>
        rw [hc] at hf
        by_cases hsz : c.size ≤ bs
        · simp only [hsz, if_true, Option.some.injEq] at hf
          exact ⟨c, rfl, hsz, hf.symm⟩
        · simp [hsz] at hf
    obtain ⟨c, hc, hsz, rfl⟩ := key
    have h := hS.acc pv c hc
    have hno : c.eopOnly = false := by
      cases he : c.eopOnly with
      | false => rfl
      | true =>
        have := h.eop he
        have h2 : (DDesc.struct ps).mayEop = PDescs.anyEop ps := rfl
        rw [h2, hne] at this; cases this
    exact {
      ok := DComp.withByteSize_ok bs _ c h.ok h.dop (DDesc.struct_fill_need ps pv c hc) hsz
      endOk := DComp.withByteSize_endOk bs _ c h.endOk hno
      dop := rfl
      sup := h.sup
      need := h.need
      eop := fun he => by
        have : c.eopOnly = true := he
        rw [hno] at this; cases this
      size := Nat.le_refl _
      val := h.val }
  rej := by
    intro pv hwf hf fuel hfu s hcb _
    have hS := DDesc.struct_okW ps hok hn (PDescs.eopLast_of_noEop ps hne)
    have hfu' : (DDesc.struct ps).need pv ≤ fuel := hfu
    have hty : (DDesc.structBS bs ps).typed pv = (DDesc.struct ps).typed pv := rfl
    have hneedpos : 1 ≤ (DDesc.struct ps).need pv := by
      cases pv <;> simp [DDesc.struct]
    obtain ⟨f, rfl⟩ : ∃ f, fuel = f + 1 := ⟨fuel - 1, by omega⟩
    have heop0 : (DDesc.struct ps).mayEop = true → s.isEndOfPdu = true := by
      intro h
      have h2 : (DDesc.struct ps).mayEop = PDescs.anyEop ps := rfl
      rw [h2, hne] at h; cases h
    cases hc : (DDesc.struct ps).fill pv with
    | none =>
      obtain ⟨e, s', hrun, he⟩ := hS.rej pv hwf hc (f + 1) hfu' s hcb heop0
      refine ⟨e, s', ?_, by rw [hty]; exact he⟩
      exact encodeDop_structBS_err f bs _ pv s e s' hrun
    | some c =>
      have hsz : ¬ c.size ≤ bs := by
        intro hsz
        simp [DDesc.structBS, hc, hsz] at hf
      have h := hS.acc pv c hc
      obtain ⟨s1, hrun, hcore, _⟩ := h.ok.encode_eq (f + 1) (Nat.le_trans h.need hfu') s hcb (fun he => heop0 (h.eop he))
      rw [h.dop, h.sup] at hrun
      have hcur : s1.cursorByte = s.cursorByte + c.size := by rw [hcore.2.2.2.1, h.ok.enc_cursor]
      refine ⟨.encode, s1, ?_, RejErr.encode _⟩
      exact encodeDop_structBS_too_long f bs _ pv s s1 hrun (by omega)

/-- STRUCTURE with optional BYTE-SIZE -/
def DDesc.structO (bso : Option Nat) (ps : List PDesc) : DDesc :=
  match bso with
  | none => DDesc.struct ps
  | some bs => DDesc.structBS bs ps

theorem DDesc.structO_okW (bso : Option Nat) (ps : List PDesc) (hok : ∀ p ∈ ps, p.OkW) (hn : PDescs.namesOk ps)
    (hne : PDescs.anyEop ps = false) : (DDesc.structO bso ps).OkW := by
  cases bso with
  | none => exact DDesc.struct_okW ps hok hn (PDescs.eopLast_of_noEop ps hne)
  | some bs => exact DDesc.structBS_okW bs ps hok hn hne

theorem DDesc.structO_mayEop (bso : Option Nat) (ps : List PDesc) (hne : PDescs.anyEop ps = false) :
    (DDesc.structO bso ps).mayEop = false := by
  cases bso with
  | none => exact hne
  | some bs => rfl

end OdxVerif.Codec
