import OdxVerif.Model.PyRt
import OdxVerif.Proofs.Bits
import OdxVerif.Proofs.PyRtAttr
/-! Lemmas about the run-time of the Python → Lean translator (`Model/PyRt.lean`): what the rendered primitives
    compute on the shapes the equivalence proofs meet. Core Lean only.
    The lemmas without hypotheses are `@[simp]`; the bit-field lemmas need `b < 256` (the `AllBytes` side condition)
    and are passed to `simp` together with those facts. -/
namespace OdxVerif.Py
open OdxVerif.Bits (AllBytes)

instance (bs : Bytes) : Decidable (AllBytes bs) := by unfold AllBytes; infer_instance

theorem pure_eq_ok {α : Type} (a : α) : (pure a : M α) = Except.ok a := rfl
theorem ok_bind {α β : Type} (a : α) (f : α → M β) : (Except.ok a >>= f) = f a := rfl
theorem error_bind {α β : Type} (e : Err) (f : α → M β) : (Except.error e >>= f) = Except.error e := rfl

@[simp, py_rt] theorem unwrap_some {α : Type} (a : α) : unwrap (some a) = pure a := rfl
@[simp, py_rt] theorem unwrap_none {α : Type} : unwrap (none : Option α) = throw .typeError := rfl

/-! ### `bitstruct.unpack("u4u4" | "u4u12", data)` -/

/-- first field of `u4…`: the high nibble of byte 0 -/
@[py_rt] theorem bitsBE_0_4 (b0 : Nat) (rest : List Nat) (h : b0 < 256) : bitsBE (b0 :: rest) 0 4 = b0 / 16 := by
  simp [bitsBE, beNat]
  omega

/-- second field of `u4u4`: the low nibble of byte 0 -/
@[simp, py_rt] theorem bitsBE_4_4 (b0 : Nat) (rest : List Nat) : bitsBE (b0 :: rest) 4 4 = b0 % 16 := by
  simp [bitsBE, beNat]

/-- second field of `u4u12`: low nibble of byte 0, then byte 1 -/
@[py_rt] theorem bitsBE_4_12 (b0 b1 : Nat) (rest : List Nat) (h : b1 < 256) :
    bitsBE (b0 :: b1 :: rest) 4 12 = b0 % 16 * 256 + b1 := by
  simp [bitsBE, beNat]
  omega

/-- in general a field is a bit field of the big-endian number formed by *all* bytes: looking at the leading
    `⌈(off+width)/8⌉` bytes only (as `bitsBE` does) loses nothing. Stated for the fields that fit into byte 0. -/
theorem bitsBE_byte0 (b0 : Nat) (rest : List Nat) (off width : Nat) (hw : 0 < width) (h : off + width ≤ 8) :
    bitsBE (b0 :: rest) off width = b0 / 2 ^ (8 - off - width) % 2 ^ width := by
  have hk : (off + width + 7) / 8 = 1 := by omega
  simp [bitsBE, hk, beNat]

theorem needBits_of_le (data : List Nat) (total : Nat) (h : total ≤ data.length * 8) : needBits data total = pure () := by
  simp [needBits]; omega
@[simp, py_rt] theorem needBits_8 (b : Nat) (r : List Nat) : needBits (b :: r) 8 = pure () :=
  needBits_of_le _ _ (by simp; omega)
@[simp, py_rt] theorem needBits_16 (b c : Nat) (r : List Nat) : needBits (b :: c :: r) 16 = pure () :=
  needBits_of_le _ _ (by simp; omega)
@[simp, py_rt] theorem needBits_nil (n : Nat) (h : 0 < n) : needBits [] n = throw .unpackError := by
  simp [needBits]; omega

/-! ### bit operations on the PCI byte written without bitstruct (`data[0] >> 4`, `data[0] & 0x0F`) -/

@[py_rt] theorem shiftRight_eq_div (x k : Nat) : x >>> k = x / 2 ^ k := Nat.shiftRight_eq_div_pow x k
@[py_rt] theorem shiftLeft_eq_mul (x k : Nat) : x <<< k = x * 2 ^ k := Nat.shiftLeft_eq x k
@[py_rt] theorem and_1 (x : Nat) : x &&& 1 = x % 2 := Nat.and_two_pow_sub_one_eq_mod x 1
@[py_rt] theorem and_3 (x : Nat) : x &&& 3 = x % 4 := Nat.and_two_pow_sub_one_eq_mod x 2
@[py_rt] theorem and_7 (x : Nat) : x &&& 7 = x % 8 := Nat.and_two_pow_sub_one_eq_mod x 3
@[py_rt] theorem and_15 (x : Nat) : x &&& 15 = x % 16 := Nat.and_two_pow_sub_one_eq_mod x 4
@[py_rt] theorem and_255 (x : Nat) : x &&& 255 = x % 256 := Nat.and_two_pow_sub_one_eq_mod x 8

/-- `x or 0` on an `Optional[int]` -/
@[simp, py_rt] theorem orNat_zero (x : Option Nat) : orNat x 0 = x.getD 0 := by
  cases x with
  | none => rfl
  | some v => by_cases h : v = 0 <;> simp [orNat, h]

/-! ### slices -/

theorem clampBound_natCast (len k : Nat) : clampBound len (k : Int) = min k len := by
  simp [clampBound]
  omega

/-- `xs[:k]` for a non-negative `k` that happens to be typed `Int` -/
@[simp, py_rt] theorem sliceZ_to_natCast {α : Type} (xs : List α) (k : Nat) : sliceZ xs none (some (k : Int)) = xs.take k := by
  simp [sliceZ, clampBound_natCast, List.take_eq_take_iff] <;> omega

@[simp, py_rt] theorem sliceZ_from_natCast {α : Type} (xs : List α) (k : Nat) : sliceZ xs (some (k : Int)) none = xs.drop k := by
  simp [sliceZ, clampBound_natCast]
  by_cases h : k ≤ xs.length
  · simp only [Nat.min_eq_left h]
    exact List.take_of_length_le (by simp)
  · have h' : xs.length ≤ k := by omega
    simp [Nat.min_eq_right h', List.drop_of_length_le h']

/-- negative bounds count from the end: `xs[:-1]` drops the last element -/
example : sliceZ [1, 2, 3, 4] none (some (-1)) = [1, 2, 3] := by decide
example : sliceZ [1, 2, 3, 4] (some (-3)) (some 3) = [2, 3] := by decide
example : sliceZ [1, 2, 3, 4] (some 2) (some (-7)) = [] := by decide
example : slice [1, 2, 3, 4] (some 1) (some 9) = [2, 3, 4] := by decide
example : slice [1, 2, 3, 4] (some 3) (some 2) = [] := by decide
example : bitsBE [0x12, 0x34, 0x56] 4 12 = 0x234 := by decide
example : bitsBE [0x12, 0x34, 0x56] 0 4 = 1 := by decide

/-! ### `list.index` is the model's `slotIndex` (same recursion) -/
theorem listIndex_mem (xs : List Nat) (x : Nat) (h : x ∈ xs) : ∃ k, listIndex xs x = some k := by
  induction xs with
  | nil => cases h
  | cons y ys ih =>
    simp only [listIndex]
    split
    · exact ⟨0, rfl⟩
    · rename_i hne
      have : x ∈ ys := by
        cases h with
        | head => exact absurd rfl hne
        | tail _ h => exact h
      obtain ⟨k, hk⟩ := ih this
      exact ⟨k + 1, by simp [hk]⟩

/-! ### `sorted(xs, key=f, reverse=r)` with a key function that does not raise: a stable insertion sort on the elements -/

/-- stable insertion by key `p`: ascending (`r = false`) or descending (`r = true`); `x` goes in front of the first element that
    may not precede it, so elements with equal keys stay in their original order in both directions -/
def stableInsert {α : Type} (p : α → Nat) (r : Bool) (x : α) : List α → List α
  | [] => [x]
  | y :: ys => if (if r then p y ≤ p x else p x ≤ p y) then x :: y :: ys else y :: stableInsert p r x ys
def stableSort {α : Type} (p : α → Nat) (r : Bool) : List α → List α
  | [] => []
  | x :: xs => stableInsert p r x (stableSort p r xs)

theorem mapM_ok {α β : Type} (f : α → M β) (g : α → β) (hf : ∀ x, f x = .ok (g x)) (xs : List α) :
    xs.mapM f = .ok (xs.map g) := by
  induction xs with
  | nil => rfl
  | cons x xs ih => simp [List.mapM_cons, hf, ih, bind, Except.bind, pure, Except.pure]

theorem insertByKey_decorated {α : Type} (p : α → Nat) (r : Bool) (x : α) (l : List α) :
    insertByKey r (p x, x) (l.map fun y => (p y, y)) = (stableInsert p r x l).map fun y => (p y, y) := by
  induction l with
  | nil => rfl
  | cons y ys ih =>
    simp only [List.map_cons, insertByKey, stableInsert]
    by_cases h : (if r then p y ≤ p x else p x ≤ p y)
    · rw [if_pos h, if_pos h]; rfl
    · rw [if_neg h, if_neg h, ih]; rfl

theorem foldr_insertByKey {α : Type} (p : α → Nat) (r : Bool) (xs : List α) :
    ((xs.map p).zip xs).foldr (insertByKey r) [] = (stableSort p r xs).map fun y => (p y, y) := by
  induction xs with
  | nil => rfl
  | cons x xs ih => simp only [List.map_cons, List.zip_cons_cons, List.foldr_cons, ih, stableSort, insertByKey_decorated]

/-- a key function that never raises and computes `p`: `sorted(xs, key=…, reverse=r)` raises nothing and is the stable sort by `p` -/
theorem sortedByKeyM_ok {α : Type} (f : α → M Nat) (p : α → Nat) (hf : ∀ x, f x = .ok (p x)) (r : Bool) (xs : List α) :
    sortedByKeyM f r xs = .ok (stableSort p r xs) := by
  unfold sortedByKeyM
  rw [mapM_ok f p hf]
  simp only [bind, Except.bind, pure, Except.pure, foldr_insertByKey, List.map_map]
  congr 1
  induction (stableSort p r xs) with
  | nil => rfl
  | cons y ys ih => simp only [List.map_cons, Function.comp, ih]

example : stableSort (·.1) false [(3, 10), (1, 11), (3, 12), (2, 13), (1, 14)] = [(1, 11), (1, 14), (2, 13), (3, 10), (3, 12)] := by decide
example : stableSort (·.1) true [(3, 10), (1, 11), (3, 12), (2, 13), (1, 14)] = [(3, 10), (3, 12), (2, 13), (1, 11), (1, 14)] := by decide
example : sortedByKeyM (fun x : Nat × Nat => pure x.1) true [(3, 10), (1, 11), (3, 12), (2, 13), (1, 14)]
    = .ok [(3, 10), (3, 12), (2, 13), (1, 11), (1, 14)] := by decide
example : sortedByKeyM (fun x : Nat × Nat => if x.1 = 2 then throw .keyError else pure x.1) true [(3, 10), (2, 13)] = .error .keyError := by
  decide

end OdxVerif.Py
