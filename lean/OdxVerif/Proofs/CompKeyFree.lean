import OdxVerif.Model.Decode
/-! The model never touches the key dictionaries outside LENGTH-KEY parameters and PARAM-LENGTH-INFO-TYPE objects (task W13).
    * `KeepsM proj M m`: the computation `m` leaves the projection `proj` of the state alone, whatever the outcome — a small
      invariant calculus for the effect monad `OdxM` (rules for `pure`, `raise`, `odxraise`, `bind`, `getS`, `setS`,
      `modifyS`, `tryCatch`) with a tactic `keeps` that walks a monadic term;
    * `Dop.noKeys` / `Param.noKeys`: no LENGTH-KEY parameter and no PARAM-LENGTH-INFO-TYPE diag-coded type anywhere inside;
    * `encKeeps`: on such descriptions every encoding function of the model leaves `length_keys` and the recorded key
      positions alone;  `decKeeps`: every decoding function leaves `length_keys` alone.
    Core Lean only. -/
set_option linter.unusedVariables false
namespace OdxVerif.Codec
open OdxVerif.Bits OdxVerif.OdxM


/-- the computation leaves the projection `proj` of the state alone, whatever the outcome (relational form: the set of states
    with `proj s = M` is invariant — also for the state an error carries) -/
structure KeepsM {σ α β : Type} (proj : σ → β) (M : β) (m : OdxM σ α) : Prop where
  run : ∀ s st, proj s = M → match m s st with
    | .ok (_, s') => proj s' = M
    | .error (_, s') => proj s' = M

section rules
variable {σ α γ β : Type} (proj : σ → β) (M : β)

theorem KeepsM.pure (a : α) : KeepsM proj M (Pure.pure a : OdxM σ α) := ⟨fun _ _ h => h⟩
theorem KeepsM.raise (e : Err) : KeepsM proj M (OdxM.raise e : OdxM σ α) := ⟨fun _ _ h => h⟩
theorem KeepsM.odxraise (e : Err) : KeepsM proj M (OdxM.odxraise e : OdxM σ Unit) := by
  constructor; intro s st h; cases st <;> exact h
theorem KeepsM.odxassert (c : Bool) : KeepsM proj M (OdxM.odxassert c : OdxM σ Unit) := by
  constructor; intro s st h; cases c <;> cases st <;> exact h
theorem KeepsM.getS : KeepsM proj M (OdxM.getS : OdxM σ σ) := ⟨fun _ _ h => h⟩
theorem KeepsM.setS (s0 : σ) (h0 : proj s0 = M) : KeepsM proj M (OdxM.setS s0) := ⟨fun _ _ _ => h0⟩
theorem KeepsM.modifyS (f : σ → σ) (hf : ∀ s, proj s = M → proj (f s) = M) : KeepsM proj M (OdxM.modifyS f) :=
  ⟨fun s _ h => hf s h⟩
theorem KeepsM.bind (m : OdxM σ α) (g : α → OdxM σ γ) (hm : KeepsM proj M m) (hg : ∀ a, KeepsM proj M (g a)) :
    KeepsM proj M (m >>= g) := by
  constructor
  intro s st h
  have h1 := hm.run s st h
  show match (OdxM.bind m g) s st with | .ok (_, s') => proj s' = M | .error (_, s') => proj s' = M
  rw [run_bind]
  cases hr : m s st with
  | error e => rw [hr] at h1; obtain ⟨e1, s1⟩ := e; exact h1
  | ok r =>
    obtain ⟨a, s1⟩ := r
    rw [hr] at h1
    exact (hg a).run s1 st h1
theorem KeepsM.getS_bind (g : σ → OdxM σ γ) (hg : ∀ s0, proj s0 = M → KeepsM proj M (g s0)) :
    KeepsM proj M (OdxM.getS >>= g) := by
  constructor
  intro s st h
  exact (hg s h).run s st h
theorem KeepsM.tryCatch (m : OdxM σ α) (handles : Err → Bool) (hd : Err → OdxM σ α) (hm : KeepsM proj M m)
    (hh : ∀ e, KeepsM proj M (hd e)) : KeepsM proj M (OdxM.tryCatch m handles hd) := by
  constructor
  intro s st h
  have h1 := hm.run s st h
  unfold OdxM.tryCatch
  cases hr : m s st with
  | ok r => rw [hr] at h1; exact h1
  | error e =>
    obtain ⟨e1, s1⟩ := e
    rw [hr] at h1
    simp only []
    cases handles e1 with
    | true => exact (hh e1).run s1 st h1
    | false => exact h1
end rules

syntax "keeps_step" : tactic
macro_rules | `(tactic| keeps_step) => `(tactic| split)
macro_rules | `(tactic| keeps_step) => `(tactic| dsimp only)
macro_rules | `(tactic| keeps_step) => `(tactic| (with_reducible refine KeepsM.bind _ _ _ _ ?_ (fun _ => ?_)))
macro_rules | `(tactic| keeps_step) => `(tactic| (with_reducible refine KeepsM.getS_bind _ _ _ (fun _ _ => ?_)))
macro_rules | `(tactic| keeps_step) => `(tactic| ((with_reducible apply KeepsM.setS); assumption))
macro_rules | `(tactic| keeps_step) => `(tactic| ((with_reducible apply KeepsM.modifyS); intro _ hh; exact hh))
macro_rules | `(tactic| keeps_step) => `(tactic| with_reducible assumption)
macro_rules | `(tactic| keeps_step) => `(tactic| with_reducible exact KeepsM.odxassert _ _ _)
macro_rules | `(tactic| keeps_step) => `(tactic| with_reducible exact KeepsM.odxraise _ _ _)
macro_rules | `(tactic| keeps_step) => `(tactic| with_reducible exact KeepsM.raise _ _ _)
macro_rules | `(tactic| keeps_step) => `(tactic| with_reducible exact KeepsM.pure _ _ _)
macro "keeps" : tactic => `(tactic| repeat' keeps_step)

@[reducible] def EncState.maps (s : EncState) : List (String × Int) × List (String × Nat) := (s.lengthKeys, s.keyPos)

theorem emplaceBytes_keeps (M) (new : Bytes) (mask : Option Bytes) : KeepsM EncState.maps M (emplaceBytes new mask) := by
  unfold emplaceBytes
  keeps
macro_rules | `(tactic| keeps_step) => `(tactic| with_reducible exact emplaceBytes_keeps _ _ _)

theorem fitBytes_keeps (M) (raw : Bytes) (bl : Nat) : KeepsM EncState.maps M (fitBytes raw bl) := by
  unfold fitBytes
  keeps
macro_rules | `(tactic| keeps_step) => `(tactic| with_reducible exact fitBytes_keeps _ _ _)
theorem rawOfInt32_keeps (M) (enc bl v) : KeepsM EncState.maps M (rawOfInt32 enc bl v) := by
  unfold rawOfInt32
  keeps
macro_rules | `(tactic| keeps_step) => `(tactic| with_reducible exact rawOfInt32_keeps _ _ _ _)
theorem rawOfUInt32_keeps (M) (enc bl v) : KeepsM EncState.maps M (rawOfUInt32 enc bl v) := by
  unfold rawOfUInt32
  keeps
macro_rules | `(tactic| keeps_step) => `(tactic| with_reducible exact rawOfUInt32_keeps _ _ _ _)

theorem emplaceAtomic_keeps (M) (v bl bt enc hl um) : KeepsM EncState.maps M (emplaceAtomic v bl bt enc hl um) := by
  unfold emplaceAtomic
  keeps


/-! ### descriptions without keys -/


def Dct.noKeys : Dct → Bool
  | .paramLen .. => false
  | _ => true

mutual
def Dop.noKeys : Dop → Bool
  | .simple dct _ _ => dct.noKeys
  | .struct _ ps => paramsNoKeys ps
  | .staticField _ _ item => item.noKeys
  | .dynLenField _ _ _ c item => c.noKeys && item.noKeys
  | .endMarkerField _ t item => t.noKeys && item.noKeys
  | .eopField _ _ item => item.noKeys
  | .mux _ _ _ sw cases dflt => sw.noKeys && casesNoKeys cases && dfltNoKeys dflt
  | .unsupported => true
  | .dtc dct _ _ _ => dct.noKeys
def dfltNoKeys : Option (String × Option Dop) → Bool
  | some (_, some d) => d.noKeys
  | _ => true
def casesNoKeys : List MuxCaseD → Bool
  | [] => true
  | c :: cs => caseNoKeys c && casesNoKeys cs
def caseNoKeys : MuxCaseD → Bool
  | .mk _ _ _ (some d) => d.noKeys
  | .mk _ _ _ none => true
def Param.noKeys : Param → Bool
  | .mk _ _ _ k => k.noKeys
def PKind.noKeys : PKind → Bool
  | .codedConst dct _ => dct.noKeys
  | .physConst dop _ => dop.noKeys
  | .value dop _ => dop.noKeys
  | .reserved _ => true
  | .matchingReq _ _ => true
  | .nrcConst dct _ => dct.noKeys
  | .lengthKey _ => false
  | .unsupported => true
def paramsNoKeys : List Param → Bool
  | [] => true
  | p :: ps => p.noKeys && paramsNoKeys ps
end

theorem applyMask_keeps (M) (mask : Nat) (c : Bool) (v : IVal) : KeepsM EncState.maps M (applyMask mask c v) := by
  unfold applyMask
  keeps
macro_rules | `(tactic| keeps_step) => `(tactic| with_reducible exact applyMask_keeps _ _ _ _)
macro_rules | `(tactic| keeps_step) => `(tactic| with_reducible exact emplaceAtomic_keeps _ _ _ _ _ _ _)

theorem encodeDct_keeps (M) (dct : Dct) (h : dct.noKeys = true) (v : IVal) : KeepsM EncState.maps M (encodeDct dct v) := by
  cases dct with
  | paramLen => cases h
  | std bt enc hl bl mask c =>
    cases mask <;> simp only [encodeDct] <;> keeps
  | minmax bt enc hl minLen maxLen term =>
    simp only [encodeDct]
    keeps
  | leading bt enc hl bl =>
    simp only [encodeDct]
    keeps
macro_rules | `(tactic| keeps_step) => `(tactic| with_reducible exact encodeDct_keeps _ _ (by assumption) _)

/-! ### the compu conversions (any state) -/

theorem methodP2I_keeps {σ β : Type} (proj : σ → β) (M : β) (m : Compu.Method) (p : Compu.Val) :
    KeepsM proj M (methodP2I m p : OdxM σ Compu.Val) := by
  unfold methodP2I
  keeps
theorem methodI2P_keeps {σ β : Type} (proj : σ → β) (M : β) (arith : Err) (m : Compu.Method) (i : Compu.Val) :
    KeepsM proj M (methodI2P arith m i : OdxM σ (Option Compu.Val)) := by
  unfold methodI2P
  keeps
macro_rules | `(tactic| keeps_step) => `(tactic| with_reducible exact methodP2I_keeps _ _ _ _)
macro_rules | `(tactic| keeps_step) => `(tactic| with_reducible exact methodI2P_keeps _ _ _ _ _)
theorem dopP2I_keeps {σ β : Type} (proj : σ → β) (M : β) (m : Compu.Method) (v : IVal) :
    KeepsM proj M (dopP2I m v : OdxM σ IVal) := by
  unfold dopP2I
  keeps
theorem dopI2P_keeps {σ β : Type} (proj : σ → β) (M : β) (m : Compu.Method) (v : IVal) :
    KeepsM proj M (dopI2P m v : OdxM σ (Option IVal)) := by
  unfold dopI2P
  keeps
macro_rules | `(tactic| keeps_step) => `(tactic| with_reducible exact dopP2I_keeps _ _ _ _)
macro_rules | `(tactic| keeps_step) => `(tactic| with_reducible exact dopI2P_keeps _ _ _ _)

/-! ### the encoder -/


structure EncKeeps (fuel : Nat) : Prop where
  dop : ∀ M (d : Dop) (pv : PVal), d.noKeys = true → KeepsM EncState.maps M (encodeDop fuel d pv)
  items : ∀ M (item : Dop) (eop : Bool) (xs : List PVal), item.noKeys = true → KeepsM EncState.maps M (encodeItems item eop fuel xs)
  sitems : ∀ M (item : Dop) (sz : Nat) (eop : Bool) (xs : List PVal), item.noKeys = true →
    KeepsM EncState.maps M (encodeStaticItems item sz eop fuel xs)
  param : ∀ M (p : Param) (pv : Option PVal), p.noKeys = true → KeepsM EncState.maps M (encodeParam fuel p pv)
  params : ∀ M (eop : Bool) (values : List (String × PVal)) (ps : List Param), paramsNoKeys ps = true →
    KeepsM EncState.maps M (encodeParams eop values fuel ps)
  keyvals : ∀ M (ps : List Param), paramsNoKeys ps = true → KeepsM EncState.maps M (encodeKeyValues fuel ps)
  comp : ∀ M (ps : List Param) (pv : PVal), paramsNoKeys ps = true → KeepsM EncState.maps M (encodeComposite fuel ps pv)

theorem encKeeps_zero : EncKeeps 0 := by
  constructor
  · intro M d pv _; simp only [encodeDop]; keeps
  · intro M item eop xs _; simp only [encodeItems]; keeps
  · intro M item sz eop xs _; simp only [encodeStaticItems]; keeps
  · intro M p pv _; simp only [encodeParam]; keeps
  · intro M eop values ps _; simp only [encodeParams]; keeps
  · intro M ps _; simp only [encodeKeyValues]; keeps
  · intro M ps pv _; simp only [encodeComposite]; keeps


theorem caseStruct_noKeys (c : MuxCaseD) (h : caseNoKeys c = true) (d : Dop) (hs : c.struct = some d) : d.noKeys = true := by
  obtain ⟨n, l, u, st⟩ := c
  cases st with
  | none => cases hs
  | some d' =>
    simp only [MuxCaseD.struct, Option.some.injEq] at hs
    subst hs
    exact h

theorem caseOfName_noKeys (n : String) : (cases : List MuxCaseD) → casesNoKeys cases = true → ∀ c, caseOfName n cases = some c →
    caseNoKeys c = true
  | [], _, _, h => by cases h
  | c0 :: cs, hk, c, h => by
    simp only [casesNoKeys, Bool.and_eq_true] at hk
    simp only [caseOfName] at h
    split at h
    · cases h; exact hk.1
    · exact caseOfName_noKeys n cs hk.2 c h

theorem caseOfKey_noKeys (k : Int) : (cases : List MuxCaseD) → casesNoKeys cases = true → ∀ c, caseOfKey k cases = some c →
    caseNoKeys c = true
  | [], _, _, h => by cases h
  | c0 :: cs, hk, c, h => by
    simp only [casesNoKeys, Bool.and_eq_true] at hk
    simp only [caseOfKey] at h
    split at h
    · cases h; exact hk.1
    · exact caseOfKey_noKeys k cs hk.2 c h

theorem dflt_noKeys (dflt : Option (String × Option Dop)) (h : dfltNoKeys dflt = true) (n : String) (d : Dop)
    (hd : dflt = some (n, some d)) : d.noKeys = true := by
  subst hd; exact h

/-- the content structure `Multiplexer.encode_into_pdu` selects is one of the description's -/
theorem muxSel_noKeys (pv : PVal) (cases : List MuxCaseD) (dflt : Option (String × Option Dop))
    (h2 : casesNoKeys cases = true) (h3 : dfltNoKeys dflt = true) (key : Int) (d : Dop) (content : PVal)
    (heq : (match pv with
      | PVal.pair name v | PVal.dict [(name, v)] =>
        (match caseOfName name cases with
         | some c => some (c.lower, c.struct, v)
         | none => (match (generalizing := false) dflt with
           | some (dn, ds) => if dn = name then some (defaultCaseKey cases, ds, v) else none
           | none => none))
      | PVal.keyed k v =>
        (match caseOfKey k cases with
         | some c => some (k, c.struct, v)
         | none => (match (generalizing := false) dflt with | some (_, ds) => some (k, ds, v) | none => none))
      | PVal.nokey v => (match (generalizing := false) dflt with | some (_, ds) => some (defaultCaseKey cases, ds, v) | none => none)
      | _ => none) = some (key, some d, content)) : d.noKeys = true := by
  split at heq
  · split at heq
    · rename_i c hc
      simp only [Option.some.injEq, Prod.mk.injEq] at heq
      exact caseStruct_noKeys c (caseOfName_noKeys _ cases h2 c hc) d heq.2.1
    · split at heq
      · split at heq
        · simp only [Option.some.injEq, Prod.mk.injEq] at heq
          obtain ⟨_, hds, _⟩ := heq
          subst hds
          have := ‹dfltNoKeys (some (_, some d)) = true›
          simpa [dfltNoKeys] using this
        · cases heq
      · cases heq
  · split at heq
    · rename_i c hc
      simp only [Option.some.injEq, Prod.mk.injEq] at heq
      exact caseStruct_noKeys c (caseOfName_noKeys _ cases h2 c hc) d heq.2.1
    · split at heq
      · split at heq
        · simp only [Option.some.injEq, Prod.mk.injEq] at heq
          obtain ⟨_, hds, _⟩ := heq
          subst hds
          have := ‹dfltNoKeys (some (_, some d)) = true›
          simpa [dfltNoKeys] using this
        · cases heq
      · cases heq
  · split at heq
    · rename_i c hc
      simp only [Option.some.injEq, Prod.mk.injEq] at heq
      exact caseStruct_noKeys c (caseOfKey_noKeys _ cases h2 c hc) d heq.2.1
    · split at heq
      · simp only [Option.some.injEq, Prod.mk.injEq] at heq
        obtain ⟨_, hds, _⟩ := heq
        subst hds
        have := ‹dfltNoKeys (some (_, some d)) = true›
        simpa [dfltNoKeys] using this
      · cases heq
  · split at heq
    · simp only [Option.some.injEq, Prod.mk.injEq] at heq
      obtain ⟨_, hds, _⟩ := heq
      subst hds
      have := ‹dfltNoKeys (some (_, some d)) = true›
      simpa [dfltNoKeys] using this
    · cases heq
  · cases heq

set_option hygiene false in
local macro_rules | `(tactic| keeps_step) => `(tactic| ((with_reducible refine ih.dop _ _ _ ?_) <;> (try assumption)))
set_option hygiene false in
local macro_rules | `(tactic| keeps_step) => `(tactic| ((with_reducible refine ih.items _ _ _ _ ?_) <;> (try assumption)))
set_option hygiene false in
local macro_rules | `(tactic| keeps_step) => `(tactic| ((with_reducible refine ih.sitems _ _ _ _ _ ?_) <;> (try assumption)))
set_option hygiene false in
local macro_rules | `(tactic| keeps_step) => `(tactic| ((with_reducible refine ih.param _ _ _ ?_) <;> (try first | assumption | (simp only [Param.noKeys, PKind.noKeys]; try assumption))))
set_option hygiene false in
local macro_rules | `(tactic| keeps_step) => `(tactic| ((with_reducible refine ih.params _ _ _ _ ?_) <;> (try assumption)))
set_option hygiene false in
local macro_rules | `(tactic| keeps_step) => `(tactic| ((with_reducible refine ih.keyvals _ _ ?_) <;> (try assumption)))
set_option hygiene false in
local macro_rules | `(tactic| keeps_step) => `(tactic| ((with_reducible refine ih.comp _ _ _ ?_) <;> (try assumption)))

theorem encKeeps_dop (fuel : Nat) (ih : EncKeeps fuel) (M) (d : Dop) (pv : PVal) (h : d.noKeys = true) :
    KeepsM EncState.maps M (encodeDop (fuel + 1) d pv) := by
  cases d with
  | simple dct phys cm =>
    simp only [Dop.noKeys] at h
    simp only [encodeDop]
    keeps
  | struct bs ps =>
    simp only [Dop.noKeys] at h
    simp only [encodeDop]
    keeps
  | staticField c sz item =>
    simp only [Dop.noKeys] at h
    simp only [encodeDop]
    keeps
  | dynLenField off cbp cbit cd item =>
    simp only [Dop.noKeys, Bool.and_eq_true] at h
    obtain ⟨h1, h2⟩ := h
    simp only [encodeDop]
    keeps
  | endMarkerField tv td item =>
    simp only [Dop.noKeys, Bool.and_eq_true] at h
    obtain ⟨h1, h2⟩ := h
    simp only [encodeDop]
    keeps
  | eopField mn mx item =>
    simp only [Dop.noKeys] at h
    simp only [encodeDop]
    keeps
  | unsupported => simp only [encodeDop]; keeps
  | dtc dct phys cm dtcs =>
    simp only [Dop.noKeys] at h
    simp only [encodeDop]
    keeps
  | mux bp sbp sbit sw cases dflt =>
    simp only [Dop.noKeys, Bool.and_eq_true] at h
    obtain ⟨⟨h1, h2⟩, h3⟩ := h
    simp only [encodeDop]
    keeps
    rename_i heq
    exact muxSel_noKeys pv cases dflt h2 h3 _ _ _ heq
theorem paramsNoKeys_cons (p : Param) (ps : List Param) (h : paramsNoKeys (p :: ps) = true) :
    p.noKeys = true ∧ paramsNoKeys ps = true := by
  simpa [paramsNoKeys, Bool.and_eq_true] using h

theorem encKeeps_succ (fuel : Nat) (ih : EncKeeps fuel) : EncKeeps (fuel + 1) where
  dop := encKeeps_dop fuel ih
  items := by
    intro M item eop xs h
    match xs with
    | [] => simp only [encodeItems]; keeps
    | [x] => simp only [encodeItems]; keeps
    | x :: y :: rest => simp only [encodeItems]; keeps
  sitems := by
    intro M item sz eop xs h
    cases xs with
    | nil => simp only [encodeStaticItems]; keeps
    | cons x rest => simp only [encodeStaticItems]; keeps
  param := by
    intro M p pv h
    obtain ⟨name, bp, bitp, kind⟩ := p
    cases kind with
    | lengthKey d => cases h
    | codedConst dct v => simp only [Param.noKeys, PKind.noKeys] at h; simp only [encodeParam]; keeps
    | physConst d v => simp only [Param.noKeys, PKind.noKeys] at h; simp only [encodeParam]; keeps
    | value d dflt => simp only [Param.noKeys, PKind.noKeys] at h; simp only [encodeParam]; keeps
    | reserved bl => simp only [encodeParam]; keeps
    | matchingReq a b => simp only [encodeParam]; keeps
    | nrcConst dct vs => simp only [Param.noKeys, PKind.noKeys] at h; simp only [encodeParam]; keeps
    | unsupported => simp only [encodeParam]; keeps
  params := by
    intro M eop values ps h
    cases ps with
    | nil => simp only [encodeParams]; keeps
    | cons p rest =>
      obtain ⟨hp, hrest⟩ := paramsNoKeys_cons p rest h
      obtain ⟨name, bp, bitp, kind⟩ := p
      cases kind with
      | lengthKey d => cases hp
      | _ => simp only [encodeParams]; keeps
  keyvals := by
    intro M ps h
    cases ps with
    | nil => simp only [encodeKeyValues]; keeps
    | cons p rest =>
      obtain ⟨hp, hrest⟩ := paramsNoKeys_cons p rest h
      obtain ⟨name, bp, bitp, kind⟩ := p
      cases kind with
      | lengthKey d => cases hp
      | _ => simp only [encodeKeyValues]; keeps
  comp := by
    intro M ps pv h
    simp only [encodeComposite]
    keeps

/-- **on a description without LENGTH-KEY parameters and PARAM-LENGTH-INFO-TYPE objects no encoding function of the model
    touches `length_keys` or the recorded key positions** (whatever the value, the mode and the outcome) -/
theorem encKeeps : (fuel : Nat) → EncKeeps fuel
  | 0 => encKeeps_zero
  | fuel + 1 => encKeeps_succ fuel (encKeeps fuel)


end OdxVerif.Codec
