import OdxVerif.Proofs.DynLeafMinMax
/-! MIN-MAX-LENGTH-TYPE VALUE parameters as top-level parameters: pure pairs, `Good`, and the refinement lemmas
    (`encodeParam` / `decodeParam` of the model = the pair) in the three situations. Core Lean only. -/
set_option linter.unusedSimpArgs false
namespace OdxVerif.Codec
open OdxVerif.Bits OdxVerif.OdxM

/-- terminator written: payload, then the termination sequence -/
def MMLeaf.pairMid (l : MMLeaf) : Pair PVal :=
  (((Pair.bytesAt l.raw).thenRaw l.tseq).map (fun _ => PVal.atom l.v)).atPos l.bytePos

/-- no terminator (value of MAX-LENGTH bytes, or end of the PDU): the payload alone -/
def MMLeaf.pairEnd (l : MMLeaf) : Pair PVal :=
  ((Pair.bytesAt l.raw).map (fun _ => PVal.atom l.v)).atPos l.bytePos

/-- **terminated** (TERMINATION ZERO / HEX-FF, not at the end of the PDU, shorter than MAX-LENGTH): the encoder's
    acceptance condition (`okBase`), a non-empty value (see `Good.thenRaw`), a length that is a multiple of the terminator's
    (the encoder asserts it), and the terminator still ends within MAX-LENGTH — automatic for one-byte terminators
    (`len < MAX-LENGTH`), a genuine restriction for the two-byte terminator of A_UNICODE2STRING with an odd MAX-LENGTH -/
def MMLeaf.okMid (l : MMLeaf) : Prop :=
  l.okBase ∧ l.term ≠ .eop ∧ l.raw ≠ [] ∧ l.raw.length % l.tseq.length = 0 ∧
  (∀ mx, l.maxLen = some mx → l.raw.length + l.tseq.length ≤ mx)

/-- **value of exactly MAX-LENGTH bytes** (TERMINATION ZERO / HEX-FF): no terminator, anywhere in the PDU -/
def MMLeaf.okFull (l : MMLeaf) : Prop := l.okBase ∧ l.term ≠ .eop ∧ l.maxLen = some l.raw.length

/-- **at the end of the PDU** (any TERMINATION): no terminator, must be the last parameter -/
def MMLeaf.okLast (l : MMLeaf) : Prop := l.okBase

theorem MMLeaf.tseq_pos (l : MMLeaf) (h : l.term ≠ .eop) : 0 < l.tseq.length := by
  cases ht : l.term with
  | eop => exact absurd ht h
  | zero => simp only [MMLeaf.tseq, termSeq, ht]; split <;> simp
  | hexff => simp only [MMLeaf.tseq, termSeq, ht]; split <;> simp

theorem bytesAt_used_length (bs : Bytes) (hne : bs ≠ []) (s : EncState) :
    ((Pair.bytesAt bs).enc s).cursorByte ≤ ((Pair.bytesAt bs).enc s).used.length := by
  simp only [Pair.bytesAt, hne, if_false]
  exact encStep_used_length _ _ s

theorem MMLeaf.goodMid (l : MMLeaf) (h : l.okMid) : Good l.pairMid :=
  (((Good.bytesAt l.raw h.1.1.1).thenRaw (bytesAt_used_length l.raw h.2.2.1) l.tseq (termSeq_allBytes _ _)).map _).atPos _

theorem MMLeaf.goodEnd (l : MMLeaf) (h : l.okBase) : Good l.pairEnd :=
  ((Good.bytesAt l.raw h.1.1).map _).atPos _

/-- `Parameter.encode_into_pdu` of the MIN-MAX parameter = positioning, `encodeDct`, bit cursor reset -/
theorem MMLeaf.encodeParam_eq (l : MMLeaf) (hok : l.okBase) (fuel : Nat) (s : EncState)
    (heop : l.term = .eop → s.isEndOfPdu = true)
    (hdiv : ¬ (s.isEndOfPdu = true ∨ some l.raw.length = l.maxLen) → l.raw.length % l.tseq.length = 0) :
    encodeParam (fuel + 2) l.toParam (some (.atom l.v)) s true =
      .ok ((), { l.encPure { s with cursorByte := posOf l.bytePos s.origin s.cursorByte, cursorBit := 0 } with cursorBit := 0 }) := by
  have hrun := encodeDct_minmax l hok { s with cursorByte := posOf l.bytePos s.origin s.cursorByte, cursorBit := 0 } rfl heop hdiv
  have hta := hok.1.typeAdmits
  cases hb : l.bytePos <;>
  · simp only [hb, posOf] at hrun
    simp only [MMLeaf.toParam, hb, encodeParam, encodeDop, bind, pure, run_bind, run_modifyS, run_pure, run_ite, hta,
      Bool.not_true, Bool.false_eq_true, if_false, Option.getD_none, posOf, hrun]

theorem MMLeaf.encode_eq_mid (l : MMLeaf) (h : l.okMid) (fuel : Nat) (hf : 2 ≤ fuel) (s : EncState)
    (hs : s.isEndOfPdu = false) :
    ∃ s', encodeParam fuel l.toParam (some l.pairMid.val) s true = .ok ((), s') ∧ SameCore s' (l.pairMid.enc s) := by
  obtain ⟨f, rfl⟩ : ∃ f, fuel = f + 2 := ⟨fuel - 2, by omega⟩
  obtain ⟨hok, hne, hnil, hdiv, hmx⟩ := h
  have hcase : ¬ (s.isEndOfPdu = true ∨ some l.raw.length = l.maxLen) := by
    rw [hs]
    intro hc
    rcases hc with hc | hc
    · cases hc
    · have := hmx _ hc.symm
      have := l.tseq_pos hne
      omega
  refine ⟨_, l.encodeParam_eq hok f s (fun he => absurd he hne) (fun _ => hdiv), ?_⟩
  have hcore : SameCore ({ s with cursorByte := posOf l.bytePos s.origin s.cursorByte, cursorBit := 0 } : EncState)
      { s with cursorByte := posOf l.bytePos s.origin s.cursorByte } := ⟨rfl, rfl, rfl, rfl, rfl⟩
  have h1 := rawStep_sameCore l.tseq _ _ ((Good.bytesAt l.raw hok.1.1).core _ _ hcore)
  simp only [MMLeaf.encPure]
  rw [if_neg hcase]
  exact ⟨h1.1, h1.2.1, h1.2.2.1, h1.2.2.2.1, h1.2.2.2.2⟩

theorem MMLeaf.encode_eq_end (l : MMLeaf) (hok : l.okBase) (fuel : Nat) (hf : 2 ≤ fuel) (s : EncState)
    (hs : s.isEndOfPdu = true ∨ (l.term ≠ .eop ∧ l.maxLen = some l.raw.length)) :
    ∃ s', encodeParam fuel l.toParam (some l.pairEnd.val) s true = .ok ((), s') ∧ SameCore s' (l.pairEnd.enc s) := by
  obtain ⟨f, rfl⟩ : ∃ f, fuel = f + 2 := ⟨fuel - 2, by omega⟩
  have hcase : s.isEndOfPdu = true ∨ some l.raw.length = l.maxLen := by
    rcases hs with h | ⟨_, h⟩
    · exact Or.inl h
    · exact Or.inr h.symm
  refine ⟨_, l.encodeParam_eq hok f s ?_ (fun hc => absurd hcase hc), ?_⟩
  · intro he
    rcases hs with h | ⟨hne, _⟩
    · exact h
    · exact absurd he hne
  have hcore : SameCore ({ s with cursorByte := posOf l.bytePos s.origin s.cursorByte, cursorBit := 0 } : EncState)
      { s with cursorByte := posOf l.bytePos s.origin s.cursorByte } := ⟨rfl, rfl, rfl, rfl, rfl⟩
  have h1 := (Good.bytesAt l.raw hok.1.1).core _ _ hcore
  simp only [MMLeaf.encPure]
  rw [if_pos hcase]
  exact ⟨h1.1, h1.2.1, h1.2.2.1, h1.2.2.2.1, h1.2.2.2.2⟩

/-- `Parameter.decode_from_pdu` of the MIN-MAX parameter = positioning, `decodeDct`, bit cursor reset -/
theorem MMLeaf.decodeParam_eq (l : MMLeaf) (fuel : Nat) (d : DecState) (v : IVal) (d' : DecState)
    (h : decodeDct l.dct { d with cursorByte := posOf l.bytePos d.origin d.cursorByte, cursorBit := 0 } true = .ok (v, d')) :
    decodeParam (fuel + 2) l.toParam d true = .ok (.atom v, { d' with cursorBit := 0 }) := by
  cases hb : l.bytePos <;>
  · simp only [hb, posOf] at h
    simp only [MMLeaf.toParam, hb, decodeParam, decodeDop, bind, pure, run_bind, run_modifyS, run_pure, Option.getD_none, h]

theorem MMLeaf.decode_eq_mid (l : MMLeaf) (h : l.okMid) (fuel : Nat) (hf : 2 ≤ fuel) (d : DecState)
    (hfit : l.pairMid.fits d) :
    decodeParam fuel l.toParam d true = .ok ((l.pairMid.dec d).1, (l.pairMid.dec d).2) := by
  obtain ⟨f, rfl⟩ : ∃ f, fuel = f + 2 := ⟨fuel - 2, by omega⟩
  obtain ⟨hok, hne, hnil, hdiv, hmx⟩ := h
  obtain ⟨⟨hlen, hall, hraw⟩, hterm⟩ := hfit
  have hterm' : (d.msg.drop (posOf l.bytePos d.origin d.cursorByte + l.raw.length)).take l.tseq.length = l.tseq := hterm
  have hlen' : posOf l.bytePos d.origin d.cursorByte + l.raw.length ≤ d.msg.length := hlen
  have hlen2 : posOf l.bytePos d.origin d.cursorByte + l.raw.length + l.tseq.length ≤ d.msg.length := by
    have := congrArg List.length hterm'
    simp only [List.length_take, List.length_drop] at this
    omega
  have hrun := decodeDct_minmax l hok { d with cursorByte := posOf l.bytePos d.origin d.cursorByte, cursorBit := 0 } rfl hall
    hlen' hraw l.tseq.length (Or.inl ⟨rfl, l.tseq_pos hne, hdiv, hlen2, hterm', hmx⟩)
  rw [l.decodeParam_eq f d _ _ hrun]
  rfl

theorem MMLeaf.decode_eq_end (l : MMLeaf) (hok : l.okBase) (fuel : Nat) (hf : 2 ≤ fuel) (d : DecState)
    (hfit : l.pairEnd.fits d)
    (hs : (l.term ≠ .eop ∧ l.maxLen = some l.raw.length) ∨ (l.pairEnd.dec d).2.cursorByte = d.msg.length) :
    decodeParam fuel l.toParam d true = .ok ((l.pairEnd.dec d).1, (l.pairEnd.dec d).2) := by
  obtain ⟨f, rfl⟩ : ∃ f, fuel = f + 2 := ⟨fuel - 2, by omega⟩
  obtain ⟨hlen, hall, hraw⟩ := hfit
  have hlen' : posOf l.bytePos d.origin d.cursorByte + l.raw.length ≤ d.msg.length := hlen
  have hrun := decodeDct_minmax l hok { d with cursorByte := posOf l.bytePos d.origin d.cursorByte, cursorBit := 0 } rfl hall
    hlen' hraw 0 (by
      rcases hs with ⟨_, h⟩ | h
      · exact Or.inr (Or.inl ⟨rfl, h⟩)
      · exact Or.inr (Or.inr ⟨rfl, h⟩))
  rw [l.decodeParam_eq f d _ _ hrun]
  rfl

end OdxVerif.Codec
