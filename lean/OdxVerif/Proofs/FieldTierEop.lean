import OdxVerif.Proofs.FieldTierDyn
/-! Field tier, END-OF-PDU-FIELD: items (tier-2 structures, each consuming ≥ 1 byte) until the end of the message
    (`EndOfPduField.encode_into_pdu` / `decode_from_pdu`; model: `encodeItems` / `decodeToEnd`). The encoder insists on
    `is_end_of_pdu`; the decoder loops while `cursor < len(message)`, so it returns the encoded items exactly when the
    position behind the last item is the end of the message — this pair is *not* `Good` (its round trip needs the
    decoded message to end there), the message-level theorem treats it separately. -/
namespace OdxVerif.Codec
open OdxVerif.Bits OdxVerif.OdxM

mutual
theorem Tree.dec_msg : (t : Tree) → ∀ (d : DecState), (t.pair.dec d).2.msg = d.msg
  | .int _ _, _ => rfl
  | .const _ _, _ => rfl
  | .struct _ bp kids, d => Trees.dec_msg kids { d with cursorByte := posOf bp d.origin d.cursorByte,
                                                        origin := posOf bp d.origin d.cursorByte }
theorem Trees.dec_msg : (ts : List Tree) → ∀ (d : DecState), ((Trees.pair ts).dec d).2.msg = d.msg
  | [], _ => rfl
  | t :: ts, d => by
    simp only [Trees.pair, Pair.map, Pair.seq]
    rw [Trees.dec_msg ts, Tree.dec_msg t]
end

theorem structPair_dec_msg (k : List Tree) (d : DecState) : ((structPair k).dec d).2.msg = d.msg :=
  Trees.dec_msg k { d with origin := d.cursorByte }

theorem dynItems_dec_msg : ∀ (ks : List (List Tree)) (d : DecState), ((Pair.list (ks.map dynItem)).dec d).2.msg = d.msg
  | [], _ => rfl
  | k :: ks, d => by
    simp only [List.map_cons, Pair.list, Pair.map, Pair.seq]
    rw [dynItems_dec_msg ks]
    exact structPair_dec_msg k d

/-- items that consume data move the cursor forward -/
theorem dynItems_dec_cursor_ge : ∀ (ks : List (List Tree)) (d : DecState), (Pair.list (ks.map dynItem)).fits d →
    d.cursorByte ≤ ((Pair.list (ks.map dynItem)).dec d).2.cursorByte
  | [], _, _ => Nat.le_refl _
  | k :: ks, d, hfit => by
    have hfit' : ((structPair k).fits d ∧ d.cursorByte < ((structPair k).dec d).2.cursorByte) ∧
        (Pair.list (ks.map dynItem)).fits ((structPair k).dec d).2 := hfit
    have := dynItems_dec_cursor_ge ks _ hfit'.2
    simp only [List.map_cons, Pair.list, Pair.map, Pair.seq]
    have h1 := hfit'.1.2
    exact Nat.le_trans (Nat.le_of_lt h1) this

/-- the decoder's loop to the end of the message = the pure list of items, provided the items end where the message ends -/
theorem decodeToEnd_eq (shape : List Tree) : ∀ (ks : List (List Tree)) (m : Nat),
    (∀ k ∈ ks, itemOk shape k ∧ Trees.need k ≤ m) → ∀ (fuel : Nat), ks.length + m + 3 ≤ fuel →
    ∀ (d : DecState), d.cursorBit = 0 → (Pair.list (ks.map dynItem)).fits d →
    ((Pair.list (ks.map dynItem)).dec d).2.cursorByte = d.msg.length →
    decodeToEnd (.struct none (Trees.toParams shape)) fuel d true =
      .ok (((Pair.list (ks.map dynItem)).dec d).1, ((Pair.list (ks.map dynItem)).dec d).2) := by
  intro ks
  induction ks with
  | nil =>
    intro m _ fuel hf d _ _ hend
    obtain ⟨f, rfl⟩ : ∃ f, fuel = f + 1 := ⟨fuel - 1, by omega⟩
    have hend' : d.cursorByte = d.msg.length := hend
    have hlt : ¬ (d.cursorByte < d.msg.length) := by omega
    simp [decodeToEnd, bind, pure, run_bind, run_getS, run_pure, run_ite, hlt, Pair.list, Pair.nil]
  | cons k ks ih =>
    intro m hall fuel hf d hcb hfit hend
    obtain ⟨f, rfl⟩ : ∃ f, fuel = f + 1 := ⟨fuel - 1, by simp only [List.length_cons] at hf; omega⟩
    simp only [List.length_cons] at hf
    obtain ⟨⟨hshape, hok, hn⟩, hneed⟩ := hall k (List.mem_cons_self ..)
    have hfit' : ((structPair k).fits d ∧ d.cursorByte < ((structPair k).dec d).2.cursorByte) ∧
        (Pair.list (ks.map dynItem)).fits ((structPair k).dec d).2 := hfit
    have hend' : ((Pair.list (ks.map dynItem)).dec ((structPair k).dec d).2).2.cursorByte = d.msg.length := hend
    have hge := dynItems_dec_cursor_ge ks _ hfit'.2
    have hlt : d.cursorByte < d.msg.length := by have := hfit'.1.2; omega
    have h1 := decodeDop_struct_trees k hok f (by omega) d hcb hfit'.1.1
    rw [hshape] at h1
    have h2 := ih m (fun x hx => hall x (List.mem_cons_of_mem _ hx)) f (by omega) ((structPair k).dec d).2
      (structPair_dec_cursorBit k d hcb) hfit'.2 (by rw [hend', structPair_dec_msg])
    have hadv : ¬ (((structPair k).dec d).2.cursorByte ≤ d.cursorByte) := by have := hfit'.1.2; omega
    simp only [decodeToEnd, bind, pure, run_bind, run_getS, run_pure, run_ite, hlt, if_true, h1, hadv, if_false, h2]
    rfl

/-! ### the END-OF-PDU-FIELD as a VALUE parameter -/

structure EopLeaf where
  name : String
  bytePos : Option Nat          -- BYTE-POSITION of the parameter
  minItems : Option Nat         -- MIN-/MAX-NUMBER-OF-ITEMS: not looked at by odxtools' codec (nor by the model)
  maxItems : Option Nat
  shape : List Tree             -- the parameters of the item structure
  items : List (List Tree)      -- one value tree per item

def EopLeaf.dop (f : EopLeaf) : Dop := .eopField f.minItems f.maxItems (.struct none (Trees.toParams f.shape))
def EopLeaf.toParam (f : EopLeaf) : Param := .mk f.name f.bytePos none (.value f.dop none)

/-- every item is a value assignment of the item structure that consumes at least one byte -/
def EopLeaf.ok (f : EopLeaf) : Prop := ∀ k ∈ f.items, itemOk f.shape k ∧ 1 ≤ Trees.size k

def EopLeaf.need (f : EopLeaf) : Nat := f.items.length + maxNeed f.items + 6

def EopLeaf.body (f : EopLeaf) : Pair (List PVal) := Pair.list (f.items.map dynItem)

def EopLeaf.pair (f : EopLeaf) : Pair PVal := ((f.body.map PVal.list).inOrigin).atPos f.bytePos

theorem EopLeaf.body_good (f : EopLeaf) (h : f.ok) : Good f.body :=
  dynItems_good _ (fun k hk => ⟨(h k hk).1.2.1, (h k hk).2⟩)

theorem EopLeaf.body_originFree (f : EopLeaf) : OriginFree f.body :=
  OriginFree.list _ (by
    intro c hc
    obtain ⟨x, _, rfl⟩ := List.mem_map.mp hc
    exact dynItem_originFree x)

/-- as an *encoder* (and as a decoder on any message that agrees on the claimed bits and is long enough — reading the
    items one by one, which is not what `decodeToEnd` does) the pair composes -/
theorem EopLeaf.good (f : EopLeaf) (h : f.ok) : Good f.pair :=
  (((f.body_good h).map _).inOrigin).atPos f.bytePos

theorem EopLeaf.pair_val (f : EopLeaf) : f.pair.val = PVal.list (itemVals f.items) := by
  show PVal.list (Pair.list (f.items.map dynItem)).val = _
  rw [Pair.list_val, List.map_map]
  rfl

/-- one unfolding of the END-OF-PDU-FIELD encoder when `is_end_of_pdu` holds -/
theorem encodeDop_eop_step (f : Nat) (mn mx : Option Nat) (item : Dop) (xs : List PVal) (s : EncState)
    (hcb : s.cursorBit = 0) (heop : s.isEndOfPdu = true) :
    encodeDop (f + 1) (.eopField mn mx item) (.list xs) s true =
      (match encodeItems item true f xs { s with isEndOfPdu := false } true with
       | .ok (_, s') => .ok ((), { s' with isEndOfPdu := true })
       | .error e => .error e) := by
  simp only [encodeDop, bind, pure, run_bind, run_getS, run_modifyS, run_pure, odxassert, hcb, heop, decide_true, if_true]
  generalize encodeItems item true f xs _ true = r
  cases r with
  | error e => rfl
  | ok p => cases p; rfl

/-- encoding: only at the end of the PDU (`s.isEndOfPdu`) -/
theorem EopLeaf.encode_eq (f : EopLeaf) (hok : f.ok) (fuel : Nat) (hf : f.need ≤ fuel) (s : EncState)
    (heop : s.isEndOfPdu = true) :
    ∃ s', encodeParam fuel f.toParam (some f.pair.val) s true = .ok ((), s') ∧ SameCore s' (f.pair.enc s) := by
  obtain ⟨g, rfl⟩ : ∃ g, fuel = g + 1 + 1 := ⟨fuel - 2, by unfold EopLeaf.need at hf; omega⟩
  unfold EopLeaf.need at hf
  let s1 : EncState := { s with cursorByte := posOf f.bytePos s.origin s.cursorByte, cursorBit := 0 }
  obtain ⟨s2, hrun, hcore, _⟩ := encodeItems_eq f.shape true f.items (maxNeed f.items)
    (fun k hk => ⟨(hok k hk).1, (hok k hk).2, maxNeed_ge f.items k hk⟩) g (by omega) { s1 with isEndOfPdu := false } rfl
  refine ⟨{ s2 with isEndOfPdu := true, cursorBit := 0 }, ?_, ?_⟩
  · rw [EopLeaf.pair_val]
    unfold EopLeaf.toParam
    rw [encodeParam_value_step]
    simp only [Option.getD_none]
    unfold EopLeaf.dop
    rw [encodeDop_eop_step g _ _ _ _ s1 rfl heop]
    rw [hrun]
  · have hg := f.body_good hok
    have h1 : SameCore { s1 with isEndOfPdu := false } { s with cursorByte := posOf f.bytePos s.origin s.cursorByte } :=
      ⟨rfl, rfl, rfl, rfl, rfl⟩
    have h2 := hcore.trans (hg.core _ _ h1)
    have h3 := h2.trans (f.body_originFree.sameCore_inOrigin hg _)
    exact ⟨h3.1, h3.2.1, h3.2.2.1, h3.2.2.2.1, h3.2.2.2.2⟩

theorem EopLeaf.dec_cursorBit (f : EopLeaf) (d : DecState) (_h : d.cursorBit = 0) : (f.pair.dec d).2.cursorBit = 0 :=
  dynItems_dec_cursorBit f.items
    { d with cursorByte := posOf f.bytePos d.origin d.cursorByte, origin := posOf f.bytePos d.origin d.cursorByte } _h

/-- decoding: provided the items end where the message ends -/
theorem EopLeaf.decode_eq (f : EopLeaf) (hok : f.ok) (fuel : Nat) (hf : f.need ≤ fuel) (d : DecState)
    (hcb : d.cursorBit = 0) (hfit : f.pair.fits d) (hend : (f.pair.dec d).2.cursorByte = d.msg.length) :
    decodeParam fuel f.toParam d true = .ok ((f.pair.dec d).1, (f.pair.dec d).2) := by
  obtain ⟨g, rfl⟩ : ∃ g, fuel = g + 1 + 1 := ⟨fuel - 2, by unfold EopLeaf.need at hf; omega⟩
  unfold EopLeaf.need at hf
  let d2 : DecState := { d with cursorByte := posOf f.bytePos d.origin d.cursorByte, cursorBit := 0,
                                origin := posOf f.bytePos d.origin d.cursorByte }
  have hd2 : d2 = { d with cursorByte := posOf f.bytePos d.origin d.cursorByte,
                           origin := posOf f.bytePos d.origin d.cursorByte } := by
    show ({ d with cursorByte := posOf f.bytePos d.origin d.cursorByte, cursorBit := 0,
                   origin := posOf f.bytePos d.origin d.cursorByte } : DecState) = _
    rw [← hcb]
  have hfit' : f.body.fits d2 := by rw [hd2]; exact hfit
  have hend' : (f.body.dec d2).2.cursorByte = d2.msg.length := by rw [hd2]; exact hend
  have hrun := decodeToEnd_eq f.shape f.items (maxNeed f.items)
    (fun k hk => ⟨(hok k hk).1, maxNeed_ge f.items k hk⟩) g (by omega) d2 rfl hfit' hend'
  have hcb3 := dynItems_dec_cursorBit f.items d2 rfl
  unfold EopLeaf.toParam
  rw [decodeParam_value_step]
  simp only [Option.getD_none]
  unfold EopLeaf.dop
  simp only [decodeDop, bind, pure, run_bind, run_getS, run_modifyS, run_pure, odxassert, decide_true, if_true]
  have hrun' : decodeToEnd (.struct none (Trees.toParams f.shape)) g
      { d with cursorByte := posOf f.bytePos d.origin d.cursorByte, cursorBit := 0,
               origin := posOf f.bytePos d.origin d.cursorByte } true = _ := hrun
  rw [hrun']
  simp only []
  rw [hd2] at hcb3 ⊢
  have hpure : f.pair.dec d =
      (PVal.list (f.body.dec { d with cursorByte := posOf f.bytePos d.origin d.cursorByte,
                                      origin := posOf f.bytePos d.origin d.cursorByte }).1,
       { (f.body.dec { d with cursorByte := posOf f.bytePos d.origin d.cursorByte,
                              origin := posOf f.bytePos d.origin d.cursorByte }).2 with origin := d.origin }) := rfl
  rw [hpure]
  simp only [EopLeaf.body, Except.ok.injEq, Prod.mk.injEq, true_and]
  rw [← hcb3]

end OdxVerif.Codec
