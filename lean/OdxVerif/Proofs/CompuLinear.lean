import OdxVerif.Proofs.CompuBasic
/-! Lemmas about `LinSeg`: applicability, conversion formulas, derived physical limits, monotonicity. -/
namespace OdxVerif.Compu

/-! ## types -/

theorem typeOk_iff (ty : DType) (v : Val) : typeOk ty v = true ↔ admissible ty v := by
  cases ty <;> cases v <;> simp [typeOk, admissible]

theorem typeOk_num {ty : DType} {v : Val} (hty : numericType ty = true) (h : typeOk ty v = true) :
    ∃ x, v.num? = some x := by
  cases ty <;> cases v <;> simp_all [typeOk, numericType, DType.isInt, DType.isFloat, Val.num?]

theorem mkNum_num (ty : DType) (r : Rat) :
    (mkNum ty r).num? = some (if ty.isInt then ((roundHalfEven r : Int) : Rat) else r) := by
  unfold mkNum; split <;> simp [Val.num?]

theorem typeOk_mkNum {ty : DType} (hty : numericType ty = true) (r : Rat) : typeOk ty (mkNum ty r) = true := by
  cases ty <;> simp_all [typeOk, numericType, DType.isInt, DType.isFloat, mkNum]

/-! ## pairs of limits -/

def lowerSemO (lo : Option Limit) (x : Rat) : Prop := ∀ l, lo = some l → l.lowerSem x
def upperSemO (hi : Option Limit) (x : Rat) : Prop := ∀ l, hi = some l → l.upperSem x

/-- `x` lies inside the scale limits (an absent limit is no restriction) -/
def inLimits (lo hi : Option Limit) (x : Rat) : Prop := lowerSemO lo x ∧ upperSemO hi x

def numericO (l : Option Limit) : Prop := ∀ a, l = some a → a.numeric

theorem withinLimits_num {lo hi : Option Limit} (hlo : numericO lo) (hhi : numericO hi) {v : Val} {x : Rat}
    (hv : v.num? = some x) :
    ∃ b, withinLimits lo hi v = .ok b ∧ (b = true ↔ inLimits lo hi x) := by
  unfold withinLimits inLimits lowerSemO upperSemO
  cases lo with
  | none =>
    cases hi with
    | none => exact ⟨true, by simp [pure, Except.pure, bind, Except.bind], by simp⟩
    | some h =>
      obtain ⟨b, hb, hiff⟩ := compliesUpper_num (hhi h rfl) hv
      exact ⟨b, by simp [pure, Except.pure, bind, Except.bind, hb], by simp [hiff]⟩
  | some l =>
    obtain ⟨a, ha, haiff⟩ := compliesLower_num (hlo l rfl) hv
    cases hi with
    | none =>
      refine ⟨a, ?_, by simp [haiff]⟩
      cases a <;> simp [pure, Except.pure, bind, Except.bind, ha]
    | some h =>
      obtain ⟨b, hb, hiff⟩ := compliesUpper_num (hhi h rfl) hv
      cases a with
      | false =>
        refine ⟨false, by simp [pure, Except.pure, bind, Except.bind, ha], ?_⟩
        have : ¬ l.lowerSem x := by rw [← haiff]; simp
        simp [this]
      | true =>
        refine ⟨b, by simp [pure, Except.pure, bind, Except.bind, ha, hb], ?_⟩
        have : l.lowerSem x := by rw [← haiff]
        simp [this, hiff]

/-! ## one linear segment -/

theorem convI2P_num (s : LinSeg) (hd : s.denom ≠ 0) {v : Val} {x : Rat} (hv : v.num? = some x) :
    s.convI2P v = .ok (mkNum s.pty (linear s.offset s.factor s.denom x)) := by
  unfold LinSeg.convI2P mkNum linear
  simp [hv, hd]

theorem convP2I_num (s : LinSeg) (hf : eps ≤ |s.factor|) {v : Val} {p : Rat} (hv : v.num? = some p) :
    s.convP2I v = .ok (mkNum s.ity (linearInv s.offset s.factor s.denom p)) := by
  unfold LinSeg.convP2I mkNum linearInv
  have : ¬ absR s.factor < eps := by rw [absR_eq_abs]; exact not_lt.mpr hf
  simp [hv, this]

theorem convP2I_flat (s : LinSeg) (hf : |s.factor| < eps) {v : Val} {p : Rat} (hv : v.num? = some p) :
    s.convP2I v = .ok s.inv := by
  unfold LinSeg.convP2I
  have : absR s.factor < eps := by rw [absR_eq_abs]; exact hf
  simp [hv, this]

theorem intApplies_spec (s : LinSeg) (hlo : numericO s.ilo) (hhi : numericO s.ihi) (hty : numericType s.ity = true) (v : Val) :
    ∃ b, s.intApplies v = .ok b ∧
      (b = true ↔ admissible s.ity v ∧ ∃ x, v.num? = some x ∧ inLimits s.ilo s.ihi x) := by
  unfold LinSeg.intApplies
  by_cases ht : typeOk s.ity v = true
  · obtain ⟨x, hx⟩ := typeOk_num hty ht
    obtain ⟨b, hb, hiff⟩ := withinLimits_num hlo hhi hx
    refine ⟨b, by simp [ht, hb], ?_⟩
    rw [hiff]
    constructor
    · intro h; exact ⟨(typeOk_iff _ _).mp ht, x, hx, h⟩
    · rintro ⟨_, x', hx', h⟩; rw [hx] at hx'; cases hx'; exact h
  · refine ⟨false, by simp [ht], ?_⟩
    have : ¬ admissible s.ity v := by rw [← typeOk_iff]; exact ht
    simp [this]

theorem physApplies_spec (s : LinSeg) (hlo : numericO s.plo) (hhi : numericO s.phi) (hty : numericType s.pty = true) (v : Val) :
    ∃ b, s.physApplies v = .ok b ∧
      (b = true ↔ admissible s.pty v ∧ ∃ x, v.num? = some x ∧ inLimits s.plo s.phi x) := by
  unfold LinSeg.physApplies
  by_cases ht : typeOk s.pty v = true
  · obtain ⟨x, hx⟩ := typeOk_num hty ht
    obtain ⟨b, hb, hiff⟩ := withinLimits_num hlo hhi hx
    refine ⟨b, by simp [ht, hb], ?_⟩
    rw [hiff]
    constructor
    · intro h; exact ⟨(typeOk_iff _ _).mp ht, x, hx, h⟩
    · rintro ⟨_, x', hx', h⟩; rw [hx] at hx'; cases hx'; exact h
  · refine ⟨false, by simp [ht], ?_⟩
    have : ¬ admissible s.pty v := by rw [← typeOk_iff]; exact ht
    simp [this]

/-! ## derived physical limits -/

/-- the physical limit that belongs to an internal limit: same interval type, value = image under the
    segment's conversion (rounded for integer physical types); a limit without value has no image -/
def imageLimit (s : LinSeg) : Option Limit → Option Limit
  | none => none
  | some l =>
    match l.value.bind Val.num? with
    | none => none
    | some a => some { value := some (mkNum s.pty (linear s.offset s.factor s.denom a)), itype := l.itype }

/-- what `__compute_physical_limits` establishes -/
structure LinSeg.Derived (s : LinSeg) : Prop where
  ilo_num : numericO s.ilo
  ihi_num : numericO s.ihi
  plo : s.plo = if 0 ≤ s.factor * s.denom then imageLimit s s.ilo else imageLimit s s.ihi
  phi : s.phi = if 0 ≤ s.factor * s.denom then imageLimit s s.ihi else imageLimit s s.ilo

theorem physLimit_ok {s : LinSeg} (hd : s.denom ≠ 0) {l r : Option Limit} (h : s.physLimit l = .ok r) :
    numericO l ∧ r = imageLimit s l := by
  cases l with
  | none => simp [LinSeg.physLimit] at h; subst h; exact ⟨(by intro a ha; cases ha), rfl⟩
  | some l =>
    unfold LinSeg.physLimit at h
    cases hval : l.value with
    | none =>
      simp [hval] at h; subst h
      refine ⟨?_, by simp [imageLimit, hval]⟩
      intro a ha; cases ha; intro b hb; rw [hval] at hb; cases hb
    | some a =>
      simp only [hval] at h
      cases hnum : a.num? with
      | none =>
        simp [LinSeg.convI2P, hnum, bind, Except.bind] at h
      | some q =>
        rw [convI2P_num s hd hnum] at h
        simp [bind, Except.bind, pure, Except.pure] at h
        subst h
        refine ⟨?_, by simp [imageLimit, hval, hnum]⟩
        intro a' ha'; cases ha'; intro b hb; rw [hval] at hb; cases hb; exact ⟨q, hnum⟩

theorem imageLimit_numeric (s : LinSeg) (l : Option Limit) : numericO (imageLimit s l) := by
  intro a ha
  cases l with
  | none => simp [imageLimit] at ha
  | some l =>
    unfold imageLimit at ha
    cases hq : l.value.bind Val.num? with
    | none => simp [hq] at ha
    | some q =>
      simp [hq] at ha; subst ha
      intro b hb; simp at hb; subst hb
      exact ⟨_, mkNum_num _ _⟩

theorem LinSeg.Derived.plo_num {s : LinSeg} (h : s.Derived) : numericO s.plo := by
  rw [h.plo]; split <;> exact imageLimit_numeric _ _

theorem LinSeg.Derived.phi_num {s : LinSeg} (h : s.Derived) : numericO s.phi := by
  rw [h.phi]; split <;> exact imageLimit_numeric _ _

theorem physLimit_congr (s t : LinSeg) (h1 : s.offset = t.offset) (h2 : s.factor = t.factor) (h3 : s.denom = t.denom)
    (h4 : s.pty = t.pty) (l : Option Limit) : s.physLimit l = t.physLimit l := by
  cases l with
  | none => rfl
  | some l =>
    unfold LinSeg.physLimit LinSeg.convI2P
    rw [h1, h2, h3, h4]

theorem imageLimit_congr (s t : LinSeg) (h1 : s.offset = t.offset) (h2 : s.factor = t.factor) (h3 : s.denom = t.denom)
    (h4 : s.pty = t.pty) (l : Option Limit) : imageLimit s l = imageLimit t l := by
  cases l with
  | none => rfl
  | some l => unfold imageLimit; rw [h1, h2, h3, h4]

/-- the result of `LinearSegment.from_compu_scale` + `__post_init__` -/
theorem mkLinSeg_spec {ity pty : DType} {sc : Scale} {s : LinSeg} (h : mkLinSeg ity pty sc = .ok s) :
    s.ity = ity ∧ s.pty = pty ∧ s.ilo = sc.lo ∧ s.ihi = sc.hi ∧
    linCoeffs sc = .ok (s.offset, s.factor, s.denom) ∧ linInverse sc = .ok s.inv ∧
    (s.denom ≠ 0 → s.Derived) := by
  unfold mkLinSeg at h
  cases hc : linCoeffs sc with
  | error e => simp [hc, bind, Except.bind] at h
  | ok c =>
    obtain ⟨o, f, d⟩ := c
    cases hi : linInverse sc with
    | error e => simp [hc, hi, bind, Except.bind] at h
    | ok inv =>
      simp only [hc, hi, bind, Except.bind] at h
      split at h
      · rename_i hpos
        split at h
        · cases h
        · rename_i lo h1
          split at h
          · cases h
          · rename_i hi' h2
            simp only [pure, Except.pure] at h
            cases h
            refine ⟨rfl, rfl, rfl, rfl, rfl, rfl, ?_⟩
            intro hdne
            have a1 := physLimit_ok (s := { offset := o, factor := f, denom := d, ilo := sc.lo, ihi := sc.hi, inv := inv, ity := ity, pty := pty }) hdne h1
            have a2 := physLimit_ok (s := { offset := o, factor := f, denom := d, ilo := sc.lo, ihi := sc.hi, inv := inv, ity := ity, pty := pty }) hdne h2
            refine ⟨a1.1, a2.1, ?_, ?_⟩
            · simp only []; rw [if_pos hpos, a1.2]; exact imageLimit_congr _ _ rfl rfl rfl rfl _
            · simp only []; rw [if_pos hpos, a2.2]; exact imageLimit_congr _ _ rfl rfl rfl rfl _
      · rename_i hneg
        split at h
        · cases h
        · rename_i lo h1
          split at h
          · cases h
          · rename_i hi' h2
            simp only [pure, Except.pure] at h
            cases h
            refine ⟨rfl, rfl, rfl, rfl, rfl, rfl, ?_⟩
            intro hdne
            have a1 := physLimit_ok (s := { offset := o, factor := f, denom := d, ilo := sc.lo, ihi := sc.hi, inv := inv, ity := ity, pty := pty }) hdne h1
            have a2 := physLimit_ok (s := { offset := o, factor := f, denom := d, ilo := sc.lo, ihi := sc.hi, inv := inv, ity := ity, pty := pty }) hdne h2
            refine ⟨a2.1, a1.1, ?_, ?_⟩
            · simp only []; rw [if_neg hneg, a1.2]; exact imageLimit_congr _ _ rfl rfl rfl rfl _
            · simp only []; rw [if_neg hneg, a2.2]; exact imageLimit_congr _ _ rfl rfl rfl rfl _

end OdxVerif.Compu
