import OdxVerif.Proofs.CompBits2Desc
/-! Bit-exactness for the round-6 constructors (task W17), part 4: the message level.  Strict `encodeMessage` on a request /
    response to `trig` whose parameters are a well-formed `Desc2` list returns the message and the warning count of the pure
    encoder run from the empty state; the second footprint law at the empty (clean) state gives the bit-exactness statement. -/
namespace OdxVerif.Codec
open OdxVerif.Bits OdxVerif.OdxM

/-- the layout of a request / response: origin 0, cursor 0 -/
def Descs2.layout (ds : List Desc2) : List Ent2 := (Descs2.lay ds).ents 0 0
def Descs2.extent (ds : List Desc2) : Nat := (Descs2.lay ds).ext 0 0
def Descs2.endCursor (ds : List Desc2) : Nat := (Descs2.lay ds).cur 0 0
def Descs2.params (ds : List Desc2) : List Param := Comps.toParams (Descs2.comps ds)
def Descs2.supplied (ds : List Desc2) : List (String × PVal) := Comps.values (Descs2.comps ds)
def Descs2.decoded (ds : List Desc2) : List (String × PVal) := (Comps.pair (Descs2.comps ds)).val

/-- well-formed at the top level of a response to `trig` (a request: `trig = none`): MATCHING-REQUEST-PARAMs are allowed -/
def Desc2.wfTop (trig : Option Bytes) : Desc2 → Prop
  | .matching _ _ reqPos byteLen t => trig = some t ∧ AllBytes t ∧ reqPos + byteLen ≤ t.length ∧ 1 ≤ byteLen ∧ byteLen ≤ 8
  | d => d.wf

def Descs2.wfTop (trig : Option Bytes) : List Desc2 → Prop
  | [] => True
  | d :: ds => d.wfTop trig ∧ Descs2.wfTop trig ds

/-- a well-formed request / response: well-formed parameters, distinct names, END-OF-PDU objects only last, no parameter that
    needs `is_end_of_pdu` cleared in last position, within the model's fuel -/
def Descs2.ok (trig : Option Bytes) (ds : List Desc2) : Prop :=
  Descs2.wfTop trig ds ∧ Comps.namesOk (Descs2.comps ds) ∧ Comps.eopLast (Descs2.comps ds) ∧
  MComps.midNotLast (Descs2.mcs ds) ∧ Comps.need (Descs2.comps ds) + 2 ≤ modelFuel

/-- no BYTE-SIZE padding hits a bit claimed before it (vacuous without BYTE-SIZE structures that are actually padded) -/
def Descs2.padOk (ds : List Desc2) : Prop := PadOk (Descs2.layout ds) (fun _ => False)

theorem Desc2.wfTop_cases (trig : Option Bytes) (d : Desc2) (h : d.wfTop trig) :
    d.wf ∨ ∃ n bp rp bl t, d = .matching n bp rp bl t ∧ trig = some t ∧ AllBytes t ∧ rp + bl ≤ t.length ∧ 1 ≤ bl ∧ bl ≤ 8 := by
  cases d
  case matching n bp rp bl t => exact Or.inr ⟨n, bp, rp, bl, t, rfl, h⟩
  all_goals exact Or.inl h

theorem Desc2.describedTop (trig : Option Bytes) (d : Desc2) (h : d.wfTop trig) : DescribedTop trig d.mc.c d.mc.mid := by
  rcases Desc2.wfTop_cases trig d h with h | ⟨n, bp, rp, bl, t, rfl, ht, hall, hlen, h1, h8⟩
  · exact DescribedTop.nested _ _ (Desc2.described d h)
  · exact DescribedTop.matchingReq n bp rp bl t ht hall hlen h1 h8

theorem Descs2.describedTop (trig : Option Bytes) : (ds : List Desc2) → Descs2.wfTop trig ds →
    ∀ m ∈ Descs2.mcs ds, DescribedTop trig m.c m.mid
  | [], _ => by intro m hm; simp [Descs2.mcs] at hm
  | d :: ds, h => by
    intro m hm
    simp only [Descs2.mcs, List.mem_cons] at hm
    rcases hm with rfl | hm
    · exact Desc2.describedTop trig d h.1
    · exact Descs2.describedTop trig ds h.2 m hm

theorem Descs2.okAllTop (trig : Option Bytes) (ds : List Desc2) (h : Descs2.wfTop trig ds) :
    MComps.okAll (TopInv trig) (Descs2.mcs ds) :=
  MComps.okAll_of_forall _ _ (fun m hm => (Descs2.describedTop trig ds h m hm).ok.1)

theorem Descs2.footTop (trig : Option Bytes) : (ds : List Desc2) → Descs2.wfTop trig ds →
    Foot2 (Comps.pair (Descs2.comps ds)).enc (Descs2.lay ds)
  | [], _ => Foot2.nil
  | d :: ds, h => by
    have hd : d.wf ∨ ∃ n bp rp bl t, d = .matching n bp rp bl t ∧ AllBytes t := by
      rcases Desc2.wfTop_cases trig d h.1 with h' | ⟨n, bp, rp, bl, t, he, _, hall, _⟩
      · exact Or.inl h'
      · exact Or.inr ⟨n, bp, rp, bl, t, he, hall⟩
    exact Foot2.seq (ea := d.mc.c.pair.enc) (eb := (Comps.pair (Descs2.comps ds)).enc) (Desc2.foot d hd) (Descs2.footTop trig ds h.2)

/-- strict `encodeMessage` = the pure encoder from the empty state -/
theorem descs2_encodeMessage (trig : Option Bytes) (ds : List Desc2) (hok : Descs2.ok trig ds) :
    encodeMessage none (Descs2.params ds) (.dict (Descs2.supplied ds)) trig true =
      .ok (((Comps.pair (Descs2.comps ds)).enc {}).msg, ((Comps.pair (Descs2.comps ds)).enc {}).warn) := by
  obtain ⟨hwf, hn, hlast, hmid, hneed⟩ := hok
  have hokAll := Descs2.okAllTop trig ds hwf
  let s0 : EncState := { trig := trig, isEndOfPdu := true }
  obtain ⟨s1, hrun, hcore, _⟩ := DComp.structM_encode_eq (ModelInv.top trig) (Descs2.mcs ds) hokAll hn hlast modelFuel hneed
    s0 rfl (fun _ => rfl) (fun h => by rw [show MComps.lastMid (Descs2.mcs ds) = false from hmid] at h; cases h)
    ⟨rfl, Nat.le_refl _⟩
  have hrun' : encodeDop modelFuel (.struct none (Comps.toParams (Descs2.comps ds))) (.dict (Comps.values (Descs2.comps ds)))
      { trig := trig, isEndOfPdu := true } true = .ok ((), s1) := hrun
  unfold encodeMessage Descs2.params Descs2.supplied
  rw [hrun']
  have hs0 : SameCore ({ s0 with origin := s0.cursorByte } : EncState) {} := ⟨rfl, rfl, rfl, rfl, rfl⟩
  have h2 := (MComps.good _ hokAll).core _ _ hs0
  have hm : s1.msg = ((Comps.pair (Descs2.comps ds)).enc {}).msg := hcore.1.trans h2.1
  have hw : s1.warn = ((Comps.pair (Descs2.comps ds)).enc {}).warn := hcore.2.2.1.trans h2.2.2.1
  simp only [hm, hw]

theorem LFree_nil_used (L : List Ent) : LFree [] L := fun _ _ a _ => getBit_nil a

theorem padOk_empty_state (ds : List Desc2) :
    PadOk (Descs2.layout ds) (fun a => getBit ({} : EncState).used a = true) ↔ Descs2.padOk ds :=
  PadOk_congr _ _ _ (fun a => by
    show getBit [] a = true ↔ False
    rw [getBit_nil]; simp)

/-- entries pairwise disjoint ⇒ no overlap warning -/
theorem descs2_pure_nowarn_of (trig : Option Bytes) (ds : List Desc2) (hwf : Descs2.wfTop trig ds)
    (hd : LDisj ((Descs2.layout ds).map Ent2.geo)) : ((Comps.pair (Descs2.comps ds)).enc {}).warn = 0 :=
  (Descs2.footTop trig ds hwf).nowarn_of {} clean_empty hd (LFree_nil_used _)

/-- no overlap warning ⇒ entries pairwise disjoint, provided no BYTE-SIZE padding hits a bit claimed before it -/
theorem descs2_pure_disj_of (trig : Option Bytes) (ds : List Desc2) (hwf : Descs2.wfTop trig ds)
    (hw : ((Comps.pair (Descs2.comps ds)).enc {}).warn = 0) (hp : Descs2.padOk ds) :
    LDisj ((Descs2.layout ds).map Ent2.geo) :=
  ((Descs2.footTop trig ds hwf).disj_of {} clean_empty hw ((padOk_empty_state ds).mpr hp)).1

theorem descs2_pure_length (trig : Option Bytes) (ds : List Desc2) (hwf : Descs2.wfTop trig ds) :
    ((Comps.pair (Descs2.comps ds)).enc {}).msg.length = Descs2.extent ds := by
  have := (Descs2.footTop trig ds hwf).length {}
  rw [this]
  show max 0 _ = _
  rw [Nat.zero_max]
  rfl

theorem descs2_pure_inside (trig : Option Bytes) (ds : List Desc2) (hwf : Descs2.wfTop trig ds)
    (hd : LDisj ((Descs2.layout ds).map Ent2.geo)) :
    ∀ e ∈ Descs2.layout ds, ∀ j, j < e.bl →
      getBit ((Comps.pair (Descs2.comps ds)).enc {}).msg (absBit e.pos e.k e.hl (j + e.bp)) = e.raw.testBit j := by
  intro e he j hj
  exact (Descs2.footTop trig ds hwf).inside {} clean_empty hd (LFree_nil_used _) e.geo (List.mem_map.mpr ⟨e, he, rfl⟩) j hj

theorem descs2_pure_outside (trig : Option Bytes) (ds : List Desc2) (hwf : Descs2.wfTop trig ds) (a : Nat)
    (h : ∀ e ∈ Descs2.layout ds, ¬ e.claims a) : getBit ((Comps.pair (Descs2.comps ds)).enc {}).msg a = false := by
  rw [(Descs2.footTop trig ds hwf).outside {} a (by
    rintro ⟨e, he, hc⟩
    obtain ⟨x, hx, rfl⟩ := List.mem_map.mp he
    exact h x hx hc)]
  exact getBit_nil a

theorem descs2_pure_cursor (trig : Option Bytes) (ds : List Desc2) (hwf : Descs2.wfTop trig ds) :
    ((Comps.pair (Descs2.comps ds)).enc {}).cursorByte = Descs2.endCursor ds :=
  (Descs2.footTop trig ds hwf).cursor {}

end OdxVerif.Codec
