import OdxVerif.Proofs.CompKeyBase
/-! LENGTH-KEY / PARAM-LENGTH-INFO-TYPE (task W13), the model's operations on the two leaf kinds:
    * a LENGTH-KEY parameter over an unsigned standard-length DOP with the identical compu method (`Obj.toKeyParam`, any byte and
      bit position): placeholder (`encodeKeyPlaceholder_*`), final value (`encodeDop_key` = `cellStep`), decoder
      (`decodeParam_key` = the decoder of `Pair.hole`);
    * a VALUE parameter over a PARAM-LENGTH-INFO-TYPE DOP, byte field or string (`PLUser`): `encodeParam` / `decodeParam` are the
      payload pair `Pair.bytesAt` at the parameter's position, given what `length_keys` says about the key;
    * a VALUE parameter over a PARAM-LENGTH-INFO-TYPE DOP of any of the nine leaf kinds with at least one bit (`Obj.toPLParam`,
      any bit position / encoding / byte order): `encodeParam` / `decodeParam` are those of the standard-length object with
      the key's number of bits (`Obj.encodeParam_pl`, `Obj.decodeParam_pl`);
    * `KeyDop dop o v i`: what the proofs use of the DOP of a LENGTH-KEY in general (the two checks of the encoder pass, the second
      pass writes the coded value `i` into the object `o`, the decoder returns the bit length `v`); `KeyDop.identical`.
    Core Lean only. -/
set_option linter.unusedSimpArgs false
namespace OdxVerif.Codec
open OdxVerif.Bits OdxVerif.OdxM


/-- the DOP of a LENGTH-KEY parameter of the proved tier: unsigned, standard length, identical compu method -/
def Obj.keyDop (o : Obj) : Dop := .simple (.std .uint32 o.enc o.hl o.bl none false) .uint32 .identical
def Obj.toKeyParam (o : Obj) : Param := .mk o.name o.bytePos o.bitPos (.lengthKey o.keyDop)
def Obj.keyOk (o : Obj) : Prop := o.kind = .uint32 ∧ o.ok

theorem encodeKeyPlaceholder_none (o : Obj) (s : EncState) :
    encodeKeyPlaceholder o.name o.bytePos o.bitPos o.keyDop none s true =
      .ok ((), { holeStep o s with keyPos := insertKV o.name (o.pos s.origin s.cursorByte) s.keyPos }) := by
  cases hb : o.bytePos <;>
  simp [encodeKeyPlaceholder, Obj.keyDop, Dop.staticBitLen, Dct.staticBitLen, emplaceBytes, bind, pure, run_bind, run_pure,
    run_getS, run_setS, run_modifyS, run_ite, run_raise, placeBytes_zeros, placeUsed_zeros, overlapCount_zeros, holeStep,
    Obj.pos, Obj.k, Obj.bp, hb]

theorem encodeKeyPlaceholder_some (o : Obj) (v : Int) (s : EncState)
    (hl : lookup o.name s.lengthKeys = none ∨ lookup o.name s.lengthKeys = some v) :
    encodeKeyPlaceholder o.name o.bytePos o.bitPos o.keyDop (some (.atom (.int v))) s true =
      .ok ((), { holeStep o s with keyPos := insertKV o.name (o.pos s.origin s.cursorByte) s.keyPos,
                                   lengthKeys := insertKV o.name v s.lengthKeys }) := by
  rcases hl with hl | hl <;> cases hb : o.bytePos <;>
  simp [encodeKeyPlaceholder, keyValidCheck, cmKeyValid, Obj.keyDop, Dop.staticBitLen, Dct.staticBitLen, emplaceBytes, bind, pure, run_bind, run_pure,
    run_getS, run_setS, run_modifyS, run_ite, run_raise, placeBytes_zeros, placeUsed_zeros, overlapCount_zeros, holeStep,
    Obj.pos, Obj.k, Obj.bp, hb, hl]

/-- the second pass writes the key through its DOP at the recorded position -/
theorem encodeDop_key (o : Obj) (hk : o.keyOk) (v : Int) (hr : o.inRange (.int v)) (pos : Nat) (fuel : Nat) (s : EncState) :
    encodeDop (fuel + 1) o.keyDop (.atom (.int v)) { s with cursorByte := pos, cursorBit := o.bitPos.getD 0 } true =
      .ok ((), cellStep (o, v, pos) s) := by
  obtain ⟨hkind, ho⟩ := hk
  obtain ⟨hlt, -⟩ := o.raw_spec ho _ hr
  obtain ⟨he, hbl, hsz⟩ := ho
  have hb0 : o.bl ≠ 0 := by omega
  have hge : ¬ (2 ^ o.bl ≤ o.raw (.int v)) := by omega
  have hmask : ∀ bp, ¬ (256 ^ ((o.bl + bp + 7) / 8) ≤ (2 ^ o.bl - 1) * 2 ^ bp) :=
    fun bp => Nat.not_le.mpr (mask_fits o.bl bp)
  unfold Obj.inRange at hr
  unfold Obj.encOk at he
  unfold Obj.sizeOk at hsz
  unfold Obj.raw at hge
  simp only [hkind] at hr he hge hsz
  have h64 : ¬ (64 < o.bl) := by omega
  simp [Obj.keyDop, encodeDop, encodeDct, typeAdmits, emplaceAtomic, emplaceBytes, bind, pure,
    run_ite, run_bind, run_pure, run_getS, run_setS, run_modifyS, run_raise, BaseType.isNumeric,
    rawOfUInt32_ok o.enc he o.bl v hr.1 hr.2, hb0, hge, hmask, h64]
  cases hh : o.hl <;>
    simp [cellStep, encStep, Obj.atCursor, Obj.raw, hkind, Obj.pos, Obj.k, Obj.bp, Obj.mask, ord, toBytesBE_length, hh]

/-- `LengthKeyParameter.decode_from_pdu` on a message whose cell holds `v` -/
theorem decodeParam_key (o : Obj) (hk : o.keyOk) (v : Int) (fuel : Nat) (d : DecState)
    (hlen : o.pos d.origin d.cursorByte + o.k ≤ d.msg.length)
    (hv : (decStep o d).1 = .int v) :
    decodeParam (fuel + 2) o.toKeyParam d true = .ok ((Pair.hole o v).dec d) := by
  obtain ⟨hkind, ho⟩ := hk
  obtain ⟨he, hbl, hsz⟩ := ho
  have hb0 : o.bl ≠ 0 := by omega
  unfold Obj.encOk at he
  unfold Obj.sizeOk at hsz
  unfold Obj.pos Obj.k Obj.bp at hlen
  simp only [hkind] at he hsz
  have h64 : ¬ (64 < o.bl) := by omega
  simp only [decStep, Obj.ofRaw, hkind, Obj.pos, Obj.k, Obj.bp, IVal.int.injEq] at hv
  cases hb : o.bytePos <;> simp only [hb] at hlen hv
  all_goals
    have hnl : ¬ (d.msg.length < _ + (o.bl + o.bitPos.getD 0 + 7) / 8) := Nat.not_lt.mpr hlen
    subst hv
    rcases he with he | he
    all_goals
      simp [Obj.toKeyParam, Obj.keyDop, decodeParam, decodeDop, decodeDct, extractAtomic, extractCore, convertRaw,
        uint32OfRaw, bind, pure, run_bind, run_pure, run_getS, run_modifyS, run_ite, run_raise, BaseType.isNumeric, hb0, hnl,
        he, hb, h64, Pair.hole, Obj.pos, Obj.k, Obj.bp]


/-- the bit length `ParamLengthInfoType.encode_into_pdu` derives from the value when the key was not specified -/
def plBits (bt : BaseType) (v : IVal) : Option Int :=
  match bt, v with
  | .bytefield, .bytes x => some (8 * x.length : Int)
  | .ascii, .str x => some (8 * x.length : Int)
  | .utf8, .str x => some (8 * x.length : Int)
  | .unicode2, .str x => some (16 * x.length : Int)
  | _, _ => none

/-- a VALUE parameter over a PARAM-LENGTH-INFO-TYPE DOP (byte field or string, identical compu method), with its value -/
structure PLUser where
  name : String
  bytePos : Option Nat
  key : String
  bt : BaseType
  hl : Bool
  v : IVal
  raw : Bytes

def PLUser.dct (u : PLUser) : Dct := .paramLen u.bt none u.hl u.key
def PLUser.toParam (u : PLUser) : Param := .mk u.name u.bytePos none (.value (.simple u.dct u.bt .identical) none)
def PLUser.bits (u : PLUser) : Int := ((8 * u.raw.length : Nat) : Int)

def PLUser.ok (u : PLUser) : Prop := Payload u.bt none u.hl u.v u.raw ∧ plBits u.bt u.v = some u.bits

theorem bytesAt_enc_lengthKeys (bs : Bytes) (s : EncState) : ((Pair.bytesAt bs).enc s).lengthKeys = s.lengthKeys := by
  simp only [Pair.bytesAt]; split <;> rfl
theorem bytesAt_enc_keyPos (bs : Bytes) (s : EncState) : ((Pair.bytesAt bs).enc s).keyPos = s.keyPos := by
  simp only [Pair.bytesAt]; split <;> rfl

/-- `ParamLengthInfoType.encode_into_pdu`: key known -/
theorem encodeDct_paramLen_some (u : PLUser) (h : u.ok) (s : EncState) (hcb : s.cursorBit = 0)
    (hk : lookup u.key s.lengthKeys = some u.bits) :
    encodeDct u.dct u.v s true = .ok ((), (Pair.bytesAt u.raw).enc s) := by
  have h2 := emplaceAtomic_payload h.1 s hcb
  have hneg : ¬ (u.bits < 0) := by unfold PLUser.bits; omega
  have htn : u.bits.toNat = 8 * u.raw.length := by unfold PLUser.bits; omega
  simp only [PLUser.dct, encodeDct, bind, run_bind, run_getS, hk, pure, run_pure, hneg, if_false, htn, run_ite]
  exact h2

/-- … key not yet known: derived from the value and recorded -/
theorem encodeDct_paramLen_none (u : PLUser) (h : u.ok) (s : EncState) (hcb : s.cursorBit = 0)
    (hk : lookup u.key s.lengthKeys = none) :
    encodeDct u.dct u.v s true =
      .ok ((), (Pair.bytesAt u.raw).enc { s with lengthKeys := insertKV u.key u.bits s.lengthKeys }) := by
  have h2 := emplaceAtomic_payload h.1 { s with lengthKeys := insertKV u.key u.bits s.lengthKeys } hcb
  have hneg : ¬ (u.bits < 0) := by unfold PLUser.bits; omega
  have htn : u.bits.toNat = 8 * u.raw.length := by unfold PLUser.bits; omega
  have hpl := h.2
  rcases h.1.2 with ⟨hbt, hv, _⟩ | ⟨hs, codec, cps, hcodec, hv, henc, _⟩
  · rw [hbt, hv] at hpl h2
    simp only [plBits, Option.some.injEq] at hpl
    simp only [PLUser.dct, hbt, hv, encodeDct, bind, run_bind, run_getS, hk, pure, run_pure, run_modifyS, hpl, hneg,
      if_false, htn, run_ite]
    exact h2
  · rw [hv] at hpl h2
    cases hbt : u.bt <;> rw [hbt] at hs hpl h2 <;> first
      | exact absurd hs (by decide)
      | (simp only [plBits, Option.some.injEq] at hpl
         simp only [PLUser.dct, hbt, hv, encodeDct, bind, run_bind, run_getS, hk, pure, run_pure, run_modifyS, hpl, hneg,
           if_false, htn, run_ite]
         exact h2)

/-- the `length_keys` dictionary behind the object -/
def PLUser.keysAfter (u : PLUser) (L : List (String × Int)) : List (String × Int) :=
  match lookup u.key L with
  | some _ => L
  | none => insertKV u.key u.bits L

/-- the payload at the parameter's position; the decoder returns the value -/
def PLUser.pair (u : PLUser) : Pair PVal where
  enc := ((Pair.bytesAt u.raw).atPos u.bytePos).enc
  dec := fun d => (.atom u.v, (((Pair.bytesAt u.raw).atPos u.bytePos).dec d).2)
  val := .atom u.v
  fits := ((Pair.bytesAt u.raw).atPos u.bytePos).fits

theorem PLUser.good (u : PLUser) (h : u.ok) : Good u.pair :=
  Good.reDec ((Good.bytesAt u.raw h.1.1).atPos u.bytePos) u.pair rfl (fun _ _ _ hf => ⟨rfl, rfl, hf⟩)

theorem PLUser.encodeParam_eq (u : PLUser) (h : u.ok) (fuel : Nat) (s : EncState)
    (hk : lookup u.key s.lengthKeys = none ∨ lookup u.key s.lengthKeys = some u.bits) :
    encodeParam (fuel + 2) u.toParam (some (.atom u.v)) s true =
      .ok ((), { (Pair.bytesAt u.raw).enc { s with cursorByte := posOf u.bytePos s.origin s.cursorByte, cursorBit := 0,
                                                   lengthKeys := u.keysAfter s.lengthKeys }
                 with cursorBit := 0 }) := by
  have hta := h.1.typeAdmits
  rcases hk with hk | hk
  · have hrun := encodeDct_paramLen_none u h { s with cursorByte := posOf u.bytePos s.origin s.cursorByte, cursorBit := 0 } rfl hk
    cases hb : u.bytePos <;>
    · simp only [hb, posOf] at hrun
      simp only [PLUser.toParam, hb, encodeParam, encodeDop, bind, pure, run_bind, run_modifyS, run_pure, run_ite, hta,
        Bool.not_true, Bool.false_eq_true, if_false, posOf, Option.getD_none, hrun, PLUser.keysAfter, hk]
  · have hrun := encodeDct_paramLen_some u h { s with cursorByte := posOf u.bytePos s.origin s.cursorByte, cursorBit := 0 } rfl hk
    cases hb : u.bytePos <;>
    · simp only [hb, posOf] at hrun
      simp only [PLUser.toParam, hb, encodeParam, encodeDop, bind, pure, run_bind, run_modifyS, run_pure, run_ite, hta,
        Bool.not_true, Bool.false_eq_true, if_false, posOf, Option.getD_none, hrun, PLUser.keysAfter, hk]

theorem PLUser.decodeParam_eq (u : PLUser) (h : u.ok) (fuel : Nat) (d : DecState) (hfit : u.pair.fits d)
    (hk : lookup u.key d.lengthKeys = some u.bits) :
    decodeParam (fuel + 2) u.toParam d true = .ok ((u.pair.dec d).1, (u.pair.dec d).2) := by
  obtain ⟨hlen, hall, hraw⟩ := hfit
  have hneg : ¬ (u.bits < 0) := by unfold PLUser.bits; omega
  have htn : u.bits.toNat = 8 * u.raw.length := by unfold PLUser.bits; omega
  have h2 := extractAtomic_payload h.1 { d with cursorByte := posOf u.bytePos d.origin d.cursorByte, cursorBit := 0 } rfl
    hlen hall hraw
  cases hb : u.bytePos <;>
  · simp only [hb, posOf] at h2
    simp only [PLUser.toParam, PLUser.dct, hb, decodeParam, decodeDop, decodeDct, bind, pure, run_bind, run_modifyS, run_pure, run_getS,
      posOf, Option.getD_none, hk, hneg, if_false, htn, h2, run_ite]
    simp only [PLUser.pair, Pair.atPos, Pair.bytesAt, posOf, hb]

/-! ### PARAM-LENGTH-INFO-TYPE objects of any leaf kind (`Obj`), at any bit position: once the key is known (or derived) they are
    the standard-length object of that many bits -/


/-- the bit length `ParamLengthInfoType.encode_into_pdu` derives from the value when the key was not specified (all base types) -/
def plDerived (bt : BaseType) (v : IVal) : Option Int :=
  match bt, v with
  | .bytefield, .bytes x => some (8 * x.length : Int)
  | .ascii, .str x => some (8 * x.length : Int)
  | .utf8, .str x => some (8 * x.length : Int)
  | .unicode2, .str x => some (16 * x.length : Int)
  | .int32, .int i => some ((((bitLength i.natAbs + 1 + 7) / 8) * 8 : Nat) : Int)
  | .uint32, .int i => some ((((bitLength i.natAbs + 7) / 8) * 8 : Nat) : Int)
  | .float32, _ => some 32
  | .float64, _ => some 64
  | _, _ => none

/-- a VALUE parameter over a PARAM-LENGTH-INFO-TYPE DOP whose object is `o` once the key says `o.bl` bits -/
def Obj.toPLParam (o : Obj) (key : String) : Param :=
  .mk o.name o.bytePos o.bitPos (.value (.simple (.paramLen o.bt o.enc o.hl key) o.bt .identical) none)

theorem encodeDct_paramLen_known (bt : BaseType) (enc : Option Enc) (hl : Bool) (key : String) (bl : Nat) (v : IVal)
    (s : EncState) (st : Bool) (h : lookup key s.lengthKeys = some (bl : Int)) :
    encodeDct (.paramLen bt enc hl key) v s st = encodeDct (.std bt enc hl bl none false) v s st := by
  have hneg : ¬ ((bl : Int) < 0) := by omega
  simp only [encodeDct, bind, run_bind, run_getS, h, pure, run_pure, hneg, if_false, Int.toNat_natCast, run_ite]

theorem encodeDct_paramLen_derived (bt : BaseType) (enc : Option Enc) (hl : Bool) (key : String) (bl : Nat) (v : IVal)
    (s : EncState) (st : Bool) (h : lookup key s.lengthKeys = none) (hd : plDerived bt v = some (bl : Int)) :
    encodeDct (.paramLen bt enc hl key) v s st =
      encodeDct (.std bt enc hl bl none false) v { s with lengthKeys := insertKV key (bl : Int) s.lengthKeys } st := by
  have hneg : ¬ ((bl : Int) < 0) := by omega
  cases bt <;> cases v <;> simp only [plDerived, Option.some.injEq, reduceCtorEq] at hd <;>
    simp only [encodeDct, bind, run_bind, run_getS, h, pure, run_pure, run_modifyS, hd, hneg, if_false, Int.toNat_natCast, run_ite]

theorem decodeDct_paramLen_known (bt : BaseType) (enc : Option Enc) (hl : Bool) (key : String) (bl : Nat)
    (d : DecState) (st : Bool) (h : lookup key d.lengthKeys = some (bl : Int)) :
    decodeDct (.paramLen bt enc hl key) d st = decodeDct (.std bt enc hl bl none false) d st := by
  have hneg : ¬ ((bl : Int) < 0) := by omega
  simp only [decodeDct, bind, run_bind, run_getS, h, hneg, if_false, Int.toNat_natCast, run_ite]

/-- the dictionary behind an object user -/
def keysAfterObj (key : String) (bl : Nat) (L : List (String × Int)) : List (String × Int) :=
  match lookup key L with
  | some _ => L
  | none => insertKV key (bl : Int) L

theorem encStep_lengthKeys (o : Obj) (v : IVal) (s : EncState) : (encStep o v s).lengthKeys = s.lengthKeys := rfl
theorem encStep_keyPos (o : Obj) (v : IVal) (s : EncState) : (encStep o v s).keyPos = s.keyPos := rfl

theorem Obj.encodeParam_pl (o : Obj) (ho : o.ok) (v : IVal) (hr : o.inRange v) (key : String) (fuel : Nat) (s : EncState)
    (hk : lookup key s.lengthKeys = some (o.bl : Int) ∨
          (lookup key s.lengthKeys = none ∧ plDerived o.bt v = some (o.bl : Int))) :
    encodeParam (fuel + 2) (o.toPLParam key) (some (.atom v)) s true =
      .ok ((), encStep o v { s with lengthKeys := keysAfterObj key o.bl s.lengthKeys }) := by
  have hobj := encodeParam_obj o ho v hr fuel { s with lengthKeys := keysAfterObj key o.bl s.lengthKeys }
  rw [← hobj]
  have hta : typeAdmits o.bt v = true := by
    cases hta : typeAdmits o.bt v with
    | true => rfl
    | false =>
      exfalso
      simp only [Obj.toParam, encodeParam, encodeDop, bind, run_bind, run_modifyS, run_ite, hta, Bool.not_false, if_true,
        run_raise] at hobj
      cases hobj
  rcases hk with hk | ⟨hk, hd⟩
  · have hL : keysAfterObj key o.bl s.lengthKeys = s.lengthKeys := by simp only [keysAfterObj, hk]
    rw [hL]
    cases hb : o.bytePos with
    | none =>
      simp only [Obj.toPLParam, Obj.toParam, hb, encodeParam, encodeDop, bind, run_bind, run_modifyS, run_ite, hta, Bool.not_true,
        Bool.false_eq_true, if_false]
      rw [encodeDct_paramLen_known o.bt o.enc o.hl key o.bl v
        { s with cursorByte := s.cursorByte, cursorBit := o.bitPos.getD 0 } true hk]
    | some b =>
      simp only [Obj.toPLParam, Obj.toParam, hb, encodeParam, encodeDop, bind, run_bind, run_modifyS, run_ite, hta, Bool.not_true,
        Bool.false_eq_true, if_false]
      rw [encodeDct_paramLen_known o.bt o.enc o.hl key o.bl v
        { s with cursorByte := s.origin + b, cursorBit := o.bitPos.getD 0 } true hk]
  · have hL : keysAfterObj key o.bl s.lengthKeys = insertKV key (o.bl : Int) s.lengthKeys := by simp only [keysAfterObj, hk]
    rw [hL]
    cases hb : o.bytePos with
    | none =>
      simp only [Obj.toPLParam, Obj.toParam, hb, encodeParam, encodeDop, bind, run_bind, run_modifyS, run_ite, hta, Bool.not_true,
        Bool.false_eq_true, if_false]
      rw [encodeDct_paramLen_derived o.bt o.enc o.hl key o.bl v
        { s with cursorByte := s.cursorByte, cursorBit := o.bitPos.getD 0 } true hk hd]
    | some b =>
      simp only [Obj.toPLParam, Obj.toParam, hb, encodeParam, encodeDop, bind, run_bind, run_modifyS, run_ite, hta, Bool.not_true,
        Bool.false_eq_true, if_false]
      rw [encodeDct_paramLen_derived o.bt o.enc o.hl key o.bl v
        { s with cursorByte := s.origin + b, cursorBit := o.bitPos.getD 0 } true hk hd]

theorem Obj.decodeParam_pl (o : Obj) (ho : o.ok) (key : String) (fuel : Nat) (d : DecState)
    (hlen : o.pos d.origin d.cursorByte + o.k ≤ d.msg.length)
    (hdec : o.decodes (readNum d.msg (o.pos d.origin d.cursorByte) o.k o.hl / 2 ^ o.bp % 2 ^ o.bl))
    (hk : lookup key d.lengthKeys = some (o.bl : Int)) :
    decodeParam (fuel + 2) (o.toPLParam key) d true = .ok (.atom (decStep o d).1, (decStep o d).2) := by
  rw [← decodeParam_obj o ho fuel d hlen hdec]
  cases hb : o.bytePos with
  | none =>
    simp only [Obj.toPLParam, Obj.toParam, hb, decodeParam, decodeDop, bind, run_bind, run_modifyS]
    rw [decodeDct_paramLen_known o.bt o.enc o.hl key o.bl
      { d with cursorByte := d.cursorByte, cursorBit := o.bitPos.getD 0 } true hk]
  | some b =>
    simp only [Obj.toPLParam, Obj.toParam, hb, decodeParam, decodeDop, bind, run_bind, run_modifyS]
    rw [decodeDct_paramLen_known o.bt o.enc o.hl key o.bl
      { d with cursorByte := d.origin + b, cursorBit := o.bitPos.getD 0 } true hk]


/-! ### the DOP of a LENGTH-KEY as the proofs see it -/

/-- the LENGTH-KEY parameter of the object `o` with an arbitrary DOP -/
def Obj.toKeyParamD (o : Obj) (dop : Dop) : Param := .mk o.name o.bytePos o.bitPos (.lengthKey dop)

/-- **what the proofs use of the DOP of a LENGTH-KEY**: it occupies the unsigned object `o`; `v` = the key's (physical) value, the
    bit length; `i` = the coded value that is written.  Instances: `KeyDop.identical` (`i = v`) and `KeyDop.linear`
    (`Proofs/CompKeyLinear.lean`: a LINEAR compu method, e.g. a key that counts bytes). -/
structure KeyDop (dop : Dop) (o : Obj) (v i : Int) : Prop where
  obj : o.keyOk ∧ o.inRange (.int i)
  static : dop.staticBitLen = some o.bl
  /-- `is_valid_physical_value` of `encode_placeholder_into_pdu` -/
  valid : ∀ (s : EncState), keyValidCheck dop v s true = .ok ((), s)
  /-- "make sure that the length key is able to represent it" of `encode_value_into_pdu` -/
  repr : ∀ (s : EncState), keyReprCheck dop v s true = .ok ((), s)
  enc : ∀ (fuel pos : Nat) (s : EncState),
    encodeDop (fuel + 1) dop (.atom (.int v)) { s with cursorByte := pos, cursorBit := o.bitPos.getD 0 } true =
      .ok ((), cellStep (o, i, pos) s)
  dec : ∀ (fuel : Nat) (d : DecState), o.pos d.origin d.cursorByte + o.k ≤ d.msg.length → (decStep o d).1 = .int i →
    decodeDop (fuel + 1) dop { d with cursorByte := o.pos d.origin d.cursorByte, cursorBit := o.bitPos.getD 0 } true =
      .ok (.atom (.int v), (decStep o d).2)

theorem KeyDop.placeholder_none {dop : Dop} {o : Obj} {v i : Int} (h : KeyDop dop o v i) (s : EncState) :
    encodeKeyPlaceholder o.name o.bytePos o.bitPos dop none s true =
      .ok ((), { holeStep o s with keyPos := insertKV o.name (o.pos s.origin s.cursorByte) s.keyPos }) := by
  cases hb : o.bytePos <;>
  simp [encodeKeyPlaceholder, h.static, emplaceBytes, bind, pure, run_bind, run_pure,
    run_getS, run_setS, run_modifyS, run_ite, run_raise, placeBytes_zeros, placeUsed_zeros, overlapCount_zeros, holeStep,
    Obj.pos, Obj.k, Obj.bp, hb]

theorem KeyDop.placeholder_some {dop : Dop} {o : Obj} {v i : Int} (h : KeyDop dop o v i) (s : EncState)
    (hl : lookup o.name s.lengthKeys = none ∨ lookup o.name s.lengthKeys = some v) :
    encodeKeyPlaceholder o.name o.bytePos o.bitPos dop (some (.atom (.int v))) s true =
      .ok ((), { holeStep o s with keyPos := insertKV o.name (o.pos s.origin s.cursorByte) s.keyPos,
                                   lengthKeys := insertKV o.name v s.lengthKeys }) := by
  have hv := h.valid s
  rcases hl with hl | hl <;> cases hb : o.bytePos <;>
  simp [encodeKeyPlaceholder, hv, h.static, emplaceBytes, bind, pure, run_bind, run_pure,
    run_getS, run_setS, run_modifyS, run_ite, run_raise, placeBytes_zeros, placeUsed_zeros, overlapCount_zeros, holeStep,
    Obj.pos, Obj.k, Obj.bp, hb, hl]

theorem KeyDop.decodeParam_eq {dop : Dop} {o : Obj} {v i : Int} (h : KeyDop dop o v i) (fuel : Nat) (d : DecState)
    (hlen : o.pos d.origin d.cursorByte + o.k ≤ d.msg.length) (hv : (decStep o d).1 = .int i) :
    decodeParam (fuel + 2) (o.toKeyParamD dop) d true = .ok ((Pair.hole o v).dec d) := by
  have hrun := h.dec fuel d hlen hv
  cases hb : o.bytePos <;>
  · simp only [Obj.pos, hb] at hrun
    simp only [Obj.toKeyParamD, hb, decodeParam, bind, run_bind, run_modifyS, hrun, pure, run_pure, Pair.hole, decStep, Obj.pos]

/-- the decoder of the identical key DOP on a message whose cell holds `v` -/
theorem decodeDop_key (o : Obj) (hk : o.keyOk) (v : Int) (fuel : Nat) (d : DecState)
    (hlen : o.pos d.origin d.cursorByte + o.k ≤ d.msg.length) (hv : (decStep o d).1 = .int v) :
    decodeDop (fuel + 1) o.keyDop { d with cursorByte := o.pos d.origin d.cursorByte, cursorBit := o.bitPos.getD 0 } true =
      .ok (.atom (.int v), (decStep o d).2) := by
  obtain ⟨hkind, ho⟩ := hk
  obtain ⟨he, hbl, hsz⟩ := ho
  have hb0 : o.bl ≠ 0 := by omega
  unfold Obj.encOk at he
  unfold Obj.sizeOk at hsz
  unfold Obj.pos Obj.k Obj.bp at hlen
  simp only [hkind] at he hsz
  have h64 : ¬ (64 < o.bl) := by omega
  simp only [decStep, Obj.ofRaw, hkind, Obj.pos, Obj.k, Obj.bp, IVal.int.injEq] at hv
  cases hb : o.bytePos <;> simp only [hb] at hlen hv
  all_goals
    have hnl : ¬ (d.msg.length < _ + (o.bl + o.bitPos.getD 0 + 7) / 8) := Nat.not_lt.mpr hlen
    subst hv
    rcases he with he | he
    all_goals
      simp [Obj.keyDop, decodeDop, decodeDct, extractAtomic, extractCore, convertRaw,
        uint32OfRaw, bind, pure, run_bind, run_pure, run_getS, run_modifyS, run_ite, run_raise, BaseType.isNumeric, hb0, hnl,
        he, hb, h64, decStep, Obj.ofRaw, hkind, Obj.pos, Obj.k, Obj.bp]

/-- the identical compu method: the coded value is the bit length itself -/
theorem KeyDop.identical (o : Obj) (hk : o.keyOk) (v : Int) (hr : o.inRange (.int v)) : KeyDop o.keyDop o v v where
  obj := ⟨hk, hr⟩
  static := rfl
  valid := fun _ => rfl
  repr := fun _ => rfl
  enc := fun fuel pos s => encodeDop_key o hk v hr pos fuel s
  dec := fun fuel d hlen hv => decodeDop_key o hk v fuel d hlen hv

end OdxVerif.Codec
