import OdxVerif.Proofs.CompCompuDescribed
import OdxVerif.Proofs.CompCompu2Key
/-! Compositional components, extension W23: the new leaves as `Described3` parameters (through the generic constructors
    `convLeaf` / `convDefault` / `convPhysConst` of W21), and the inductive predicate **`Described3b`** — `Described3` plus
    MULTIPLEXERs whose switch key and DYNAMIC-LENGTH-FIELDs whose count is typed by a compu DOP (`muxConv`, `dynLenFieldConv`),
    closed again under STRUCTURE (with / without BYTE-SIZE), the four field kinds and MULTIPLEXER, so that the new composites
    may occur at any depth.  Soundness `Described3b.ok` is the proof of `Described3.ok` with two more cases. -/
namespace OdxVerif.Codec
open OdxVerif.Bits OdxVerif.OdxM

/-! ### the new leaves are `Described3` -/

theorem LinFLeaf.described (l : LinFLeaf) (h : l.ok) : Described3 l.comp false :=
  .convLeaf _ _ _ _ _ h.1 h.2.1 (l.convOk h)
theorem LinFLeaf.constDescribed (l : LinFLeaf) (h : l.ok) (hsame : l.sup = .flt l.b) (supplied : Bool) :
    Described3 (l.constComp supplied) false :=
  .convPhysConst _ _ _ _ _ supplied h.1 h.2.1 (l.convOk h) (pvalEq_atom_self _) (by rw [hsame]; exact pvalEq_atom_self _)
theorem LinFLeaf.defaultDescribed (l : LinFLeaf) (h : l.ok) (dv : IVal) (om : Bool) (hom : om = true → l.sup = dv) :
    Described3 (l.defaultComp dv om) false :=
  .convDefault _ _ _ _ _ _ _ h.1 h.2.1 (l.convOk h) (fun e => by rw [hom e])

theorem IdLeaf.described (l : IdLeaf) (h : l.ok) : Described3 l.comp false :=
  .convLeaf _ _ _ _ _ h.1 h.2.1 (l.convOk h)
theorem IdLeaf.constDescribed (l : IdLeaf) (h : l.ok) (supplied : Bool) : Described3 (l.constComp supplied) false :=
  .convPhysConst _ _ _ _ _ supplied h.1 h.2.1 (l.convOk h) (pvalEq_atom_self _) (pvalEq_atom_self _)
theorem IdLeaf.defaultDescribed (l : IdLeaf) (h : l.ok) (dv : IVal) (om : Bool) (hom : om = true → l.v = dv) :
    Described3 (l.defaultComp dv om) false :=
  .convDefault _ _ _ _ _ _ _ h.1 h.2.1 (l.convOk h) (fun e => by rw [hom e])

theorem DtcLinLeaf.described (l : DtcLinLeaf) (h : l.ok) (sup : PVal) (hs : l.supOk sup) : Described3 (l.comp sup) false :=
  .convLeaf _ _ _ _ _ h.1 h.2.1 (l.convOk h sup hs)
theorem DtcLinLeaf.constDescribed (l : DtcLinLeaf) (h : l.ok) (supplied : Bool) : Described3 (l.constComp supplied) false :=
  .convPhysConst _ _ _ _ _ supplied h.1 h.2.1 (l.convOk h (.dtc l.z) rfl) (by simp [pvalEq]) (by simp [pvalEq])

/-! ### `Described3b` -/

/-- **the described parameters, edition 3b** (`mid` as in `Described2`) -/
inductive Described3b : Comp → Bool → Prop
  | old (g : Comp) (mid : Bool) : Described3 g mid → Described3b g mid
  | struct (name : String) (bp : Option Nat) (bso : Option Nat) (ms : List MComp) :
      (∀ m ∈ ms, Described3b m.c m.mid) → Comps.namesOk (MComps.cs ms) → Comps.eopLast (MComps.cs ms) →
      sizeSide bso (MComps.cs ms) →
      Described3b (Comp.ofValue name bp (DComp.structO bso (MComps.cs ms))) (MComps.lastMid ms)
  | staticField (name : String) (bp : Option Nat) (itemSize : Nat) (bso : Option Nat) (shape : List Param)
      (items : List (List MComp)) :
      (∀ k ∈ items, ∀ m ∈ k, Described3b m.c m.mid) →
      (∀ k ∈ items, itemSideS bso shape k ∧ (DComp.structO bso (MComps.cs k)).size ≤ itemSize) →
      Described3b (Comp.ofValue name bp (DComp.staticField itemSize (.struct bso shape) (itemsO bso items))) false
  | dynLenField (name : String) (bp : Option Nat) (l : DynLayout) (bso : Option Nat) (shape : List Param)
      (items : List (List MComp)) :
      (∀ k ∈ items, ∀ m ∈ k, Described3b m.c m.mid) →
      (∀ k ∈ items, itemSideS bso shape k ∧ 1 ≤ (DComp.structO bso (MComps.cs k)).size) → l.ok items.length →
      Described3b (Comp.ofValue name bp (DComp.dynLenField l (.struct bso shape) (itemsO bso items))) (itemsLastMid items)
  /-- DYNAMIC-LENGTH-FIELD whose DETERMINE-NUMBER-OF-ITEMS DOP is the compu DOP `cd`; the count object holds `ci` -/
  | dynLenFieldConv (name : String) (bp : Option Nat) (l : DynLayout) (cd : Dop) (ci : IVal) (bso : Option Nat)
      (shape : List Param) (items : List (List MComp)) :
      (∀ k ∈ items, ∀ m ∈ k, Described3b m.c m.mid) →
      (∀ k ∈ items, itemSideS bso shape k ∧ 1 ≤ (DComp.structO bso (MComps.cs k)).size) → l.okConv cd ci items.length →
      Described3b (Comp.ofValue name bp (DComp.dynLenFieldConv l cd ci (.struct bso shape) (itemsO bso items)))
        (itemsLastMid items)
  | eopField (name : String) (bp : Option Nat) (mn mx : Option Nat) (bso : Option Nat) (shape : List Param)
      (items : List (List MComp)) :
      (∀ k ∈ items, ∀ m ∈ k, Described3b m.c m.mid) →
      (∀ k ∈ items, itemSideS bso shape k ∧ 1 ≤ (DComp.structO bso (MComps.cs k)).size) →
      (∀ k, items.getLast? = some k → MComps.midNotLast k) →
      Described3b (Comp.ofValue name bp (DComp.eopField mn mx (.struct bso shape) (itemsO bso items))) false
  | mux (name : String) (bp : Option Nat) (m : MuxLayout) (ms : List MComp) :
      (∀ x ∈ ms, Described3b x.c x.mid) → Comps.namesOk (MComps.cs ms) → Comps.eopLast (MComps.cs ms) →
      m.ok (.struct none (Comps.toParams (MComps.cs ms))) →
      Described3b (Comp.ofValue name bp (DComp.mux m (DComp.struct (MComps.cs ms)))) (MComps.lastMid ms)
  /-- MULTIPLEXER whose SWITCH-KEY DOP is the compu DOP `kd`; the key object holds `ki`, the CASEs are selected by `m.lo` -/
  | muxConv (name : String) (bp : Option Nat) (m : MuxLayout) (kd : Dop) (ki : IVal) (ms : List MComp) :
      (∀ x ∈ ms, Described3b x.c x.mid) → Comps.namesOk (MComps.cs ms) → Comps.eopLast (MComps.cs ms) →
      m.okConv kd ki (.struct none (Comps.toParams (MComps.cs ms))) →
      Described3b (Comp.ofValue name bp (DComp.muxConv m kd ki (DComp.struct (MComps.cs ms)))) (MComps.lastMid ms)
  | endMarkerEop (name : String) (bp : Option Nat) (l : EmLayout) (bso : Option Nat) (shape : List Param)
      (items : List (List MComp)) :
      (∀ k ∈ items, ∀ m ∈ k, Described3b m.c m.mid) → l.ok →
      (∀ k ∈ items, itemSideS bso shape k ∧ 1 ≤ (DComp.structO bso (MComps.cs k)).size ∧
        l.miss (DComp.structO bso (MComps.cs k))) →
      (∀ k, items.getLast? = some k → MComps.midNotLast k) →
      Described3b (Comp.ofValue name bp (DComp.endMarkerEop l (.struct bso shape) (itemsO bso items))) false
  | endMarkerMid (name : String) (bp : Option Nat) (l : EmLayout) (bso : Option Nat) (shape : List Param)
      (items : List (List MComp)) :
      (∀ k ∈ items, ∀ m ∈ k, Described3b m.c m.mid) → l.ok →
      (∀ k ∈ items, itemSideS bso shape k ∧ 1 ≤ (DComp.structO bso (MComps.cs k)).size ∧
        l.miss (DComp.structO bso (MComps.cs k))) →
      Described3b (Comp.ofValue name bp (DComp.endMarkerMid l (.struct bso shape) (itemsO bso items))) true

/-- **soundness of `Described3b`** -/
theorem Described3b.ok {g : Comp} {mid : Bool} (h : Described3b g mid) : (∀ P, g.OkM mid P) ∧ g.EndOk := by
  induction h with
  | old g mid hd => exact hd.ok
  | struct name bp bso ms _ hn hlast hsz ih =>
    have hok := MComps.okAll_of_forall (fun _ => True) ms (fun m hm => (ih m hm).1 _)
    have hend : Comps.endOkAll (MComps.cs ms) := Comps.endOkAll_of_forall _ (fun g hg => by
      obtain ⟨m, hm, rfl⟩ := MComps.mem_cs hg
      exact (ih m hm).2)
    exact ⟨fun P => Comp.ofValueM_ok name bp _ _ (DComp.structOM_okM bso ms hok hn hlast hsz) P,
      Comp.ofValue_endOk name bp _ (DComp.structOM_endOk bso ms hok hend hlast hsz)⟩
  | staticField name bp n bso shape items _ hside ih =>
    have hitems := structItemsS_ok bso shape items ih (fun k hk => (hside k hk).1)
    refine ⟨fun P => (Comp.ofValue_ok name bp _ (DComp.staticFieldM_ok n _ _ ?_)).toM _ P,
      Comp.ofValue_endOk name bp _ (DComp.staticField_endOk n _ _)⟩
    intro c hc
    refine ⟨(hitems c hc).1, (hitems c hc).2, ?_⟩
    obtain ⟨k, hk, rfl⟩ := itemsO_mem hc
    exact (hside k hk).2
  | dynLenField name bp l bso shape items _ hside hl ih =>
    have hitems := structItemsS_ok bso shape items ih (fun k hk => (hside k hk).1)
    have hlastM := itemsO_lastM bso shape items ih (fun k hk => (hside k hk).1)
    refine ⟨fun P => Comp.ofValueM_ok name bp _ _ (DComp.dynLenFieldM_okM l _ _ _ (by simpa [itemsO] using hl) ?_ hlastM) P,
      Comp.ofValue_endOk name bp _ (DComp.dynLenField_endOk l _ _)⟩
    intro c hc
    refine ⟨(hitems c hc).1, (hitems c hc).2, ?_⟩
    obtain ⟨k, hk, rfl⟩ := itemsO_mem hc
    exact (hside k hk).2
  | dynLenFieldConv name bp l cd ci bso shape items _ hside hl ih =>
    have hitems := structItemsS_ok bso shape items ih (fun k hk => (hside k hk).1)
    have hlastM := itemsO_lastM bso shape items ih (fun k hk => (hside k hk).1)
    refine ⟨fun P => Comp.ofValueM_ok name bp _ _
        (DComp.dynLenFieldConv_okM l cd ci _ _ _ (by simpa [itemsO] using hl) ?_ hlastM) P,
      Comp.ofValue_endOk name bp _ (DComp.dynLenFieldConv_endOk l cd ci _ _)⟩
    intro c hc
    refine ⟨(hitems c hc).1, (hitems c hc).2, ?_⟩
    obtain ⟨k, hk, rfl⟩ := itemsO_mem hc
    exact (hside k hk).2
  | eopField name bp mn mx bso shape items _ hside hlm ih =>
    have hitems := structItemsS_ok bso shape items ih (fun k hk => (hside k hk).1)
    have hlastM := itemsO_lastM bso shape items ih (fun k hk => (hside k hk).1)
    rw [itemsLastMid_false items hlm] at hlastM
    refine ⟨fun P => (Comp.ofValue_ok name bp _ (DComp.eopFieldM_ok mn mx _ _ ?_ hlastM)).toM _ P,
      Comp.ofValue_endOk name bp _ (DComp.eopField_endOk mn mx _ _)⟩
    intro c hc
    refine ⟨(hitems c hc).1, (hitems c hc).2, ?_⟩
    obtain ⟨k, hk, rfl⟩ := itemsO_mem hc
    exact (hside k hk).2
  | mux name bp m ms _ hn hlast hm ih =>
    have hok := MComps.okAll_of_forall (fun _ => True) ms (fun x hx => (ih x hx).1 _)
    have hend : Comps.endOkAll (MComps.cs ms) := Comps.endOkAll_of_forall _ (fun g hg => by
      obtain ⟨x, hx, rfl⟩ := MComps.mem_cs hg
      exact (ih x hx).2)
    exact ⟨fun P => Comp.ofValueM_ok name bp _ _ (DComp.mux_okM m _ _ (DComp.structM_okM ms hok hn hlast) hm) P,
      Comp.ofValue_endOk name bp _ (DComp.mux_endOk m _ (DComp.structM_endOk ms hok hend hlast))⟩
  | muxConv name bp m kd ki ms _ hn hlast hm ih =>
    have hok := MComps.okAll_of_forall (fun _ => True) ms (fun x hx => (ih x hx).1 _)
    have hend : Comps.endOkAll (MComps.cs ms) := Comps.endOkAll_of_forall _ (fun g hg => by
      obtain ⟨x, hx, rfl⟩ := MComps.mem_cs hg
      exact (ih x hx).2)
    exact ⟨fun P => Comp.ofValueM_ok name bp _ _ (DComp.muxConv_okM m kd ki _ _ (DComp.structM_okM ms hok hn hlast) hm) P,
      Comp.ofValue_endOk name bp _ (DComp.muxConv_endOk m kd ki _ (DComp.structM_endOk ms hok hend hlast))⟩
  | endMarkerEop name bp l bso shape items _ hl hside hlm ih =>
    have hitems := structItemsS_ok bso shape items ih (fun k hk => (hside k hk).1)
    have hlastM := itemsO_lastM bso shape items ih (fun k hk => (hside k hk).1)
    rw [itemsLastMid_false items hlm] at hlastM
    refine ⟨fun P => (Comp.ofValue_ok name bp _ (DComp.endMarkerEop_ok l hl _ _ ?_ hlastM)).toM _ P,
      Comp.ofValue_endOk name bp _ (DComp.endMarkerEop_endOk l _ _)⟩
    intro c hc
    refine ⟨(hitems c hc).1, (hitems c hc).2, ?_⟩
    obtain ⟨k, hk, rfl⟩ := itemsO_mem hc
    exact (hside k hk).2
  | endMarkerMid name bp l bso shape items _ hl hside ih =>
    have hitems := structItemsS_ok bso shape items ih (fun k hk => (hside k hk).1)
    refine ⟨fun P => Comp.ofValueM_ok name bp _ true (DComp.endMarkerMid_ok l hl _ _ ?_) P,
      Comp.ofValue_endOk name bp _ (DComp.endMarkerMid_endOk l _ _)⟩
    intro c hc
    refine ⟨(hitems c hc).1, (hitems c hc).2, ?_⟩
    obtain ⟨k, hk, rfl⟩ := itemsO_mem hc
    exact (hside k hk).2

theorem Described3.to3b {g : Comp} {mid : Bool} (h : Described3 g mid) : Described3b g mid := .old g mid h

/-- the parameters a response to the request `trig` (a request: `trig = none`) may list at its top level -/
inductive DescribedTop3b (trig : Option Bytes) : Comp → Bool → Prop
  | nested (g : Comp) (mid : Bool) : Described3b g mid → DescribedTop3b trig g mid
  | top3 (g : Comp) (mid : Bool) : DescribedTop3 trig g mid → DescribedTop3b trig g mid

theorem DescribedTop3b.ok {trig : Option Bytes} {g : Comp} {mid : Bool} (h : DescribedTop3b trig g mid) :
    g.OkM mid (TopInv trig) ∧ g.EndOk := by
  cases h with
  | nested hd => exact ⟨hd.ok.1 _, hd.ok.2⟩
  | top3 hd => exact hd.ok

end OdxVerif.Codec
