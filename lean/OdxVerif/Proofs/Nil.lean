import OdxVerif.Spec.Nil
import Std.Data.String.ToNat
/-! # Lemmas for C16 (NamedItemList): candidate names, the collision loop, dictionary updates,
    preservation of the invariant by the primitive state changes. -/
namespace OdxVerif.Nil

/-! ## candidate names are pairwise distinct -/

theorem toDigits_inj {a b : Nat} (h : Nat.toDigits 10 a = Nat.toDigits 10 b) : a = b := by
  apply Nat.repr_injective
  simp only [Nat.repr, h]

theorem suffixed_inj (base : Name) {i j : Nat} (h : suffixed base i = suffixed base j) : i = j := by
  unfold suffixed at h
  split at h
  · exact toDigits_inj (List.append_cancel_left h)
  · have := List.append_cancel_left h
    exact toDigits_inj (List.cons.inj this).2

theorem suffixed_ne_base (base : Name) (i : Nat) : suffixed base i ≠ base := by
  intro h
  have hl := congrArg List.length h
  have hne : (Nat.toDigits 10 i).length ≠ 0 := by
    intro h0
    exact Nat.toDigits_ne_nil (List.eq_nil_of_length_eq_zero h0)
  unfold suffixed at hl
  split at hl <;> simp at hl <;> omega

theorem cand_inj (base : Name) {i j : Nat} (hi : 1 ≤ i) (hj : 1 ≤ j) (h : cand base i = cand base j) : i = j := by
  unfold cand at h
  by_cases h1 : i ≤ 1 <;> by_cases h2 : j ≤ 1 <;> simp only [h1, h2, if_true, if_false] at h
  · omega
  · exact absurd h.symm (suffixed_ne_base base j)
  · exact absurd h (suffixed_ne_base base i)
  · exact suffixed_inj base h

/-! ## the collision loop -/

theorem findFree_spec (taken : Name → Bool) (base : Name) :
    ∀ fuel i nm, findFree taken base fuel i = some nm → ∃ n, i ≤ n ∧ nm = cand base n ∧ taken nm = false := by
  intro fuel
  induction fuel with
  | zero => intro i nm h; simp [findFree] at h
  | succ f ih =>
    intro i nm h
    simp only [findFree] at h
    split at h
    · rename_i hfree
      cases h
      exact ⟨i, Nat.le_refl _, rfl, by simpa using hfree⟩
    · obtain ⟨n, hn, h1, h2⟩ := ih (i + 1) nm h
      exact ⟨n, by omega, h1, h2⟩

theorem findFree_congr (p q : Name → Bool) (base : Name) :
    ∀ fuel i, (∀ j, i ≤ j → p (cand base j) = q (cand base j)) → findFree p base fuel i = findFree q base fuel i := by
  intro fuel
  induction fuel with
  | zero => intros; rfl
  | succ f ih =>
    intro i h
    simp only [findFree, h i (Nat.le_refl _)]
    rw [ih (i + 1) (fun j hj => h j (by omega))]

/-- pigeonhole: the candidates are pairwise distinct, so a loop with more fuel than taken names ends -/
theorem findFree_isSome (base : Name) :
    ∀ fuel (T : List Name) i, 1 ≤ i → T.length < fuel →
      (findFree (fun n => T.contains n) base fuel i).isSome := by
  intro fuel
  induction fuel with
  | zero => intro T i _ h; omega
  | succ f ih =>
    intro T i hi hlen
    simp only [findFree]
    by_cases hmem : cand base i ∈ T
    · have hc : T.contains (cand base i) = true := by simpa using hmem
      simp only [hc, Bool.not_true, Bool.false_eq_true, if_false]
      rw [findFree_congr _ (fun n => (T.erase (cand base i)).contains n) base f (i + 1)]
      · apply ih _ _ (by omega)
        rw [List.length_erase_of_mem hmem]
        cases T with
        | nil => simp at hmem
        | cons _ _ => simp at hlen ⊢; omega
      · intro j hj
        have hne : cand base j ≠ cand base i := fun h => by
          have := cand_inj base (by omega) hi h
          omega
        show T.contains (cand base j) = (T.erase (cand base i)).contains (cand base j)
        rw [Bool.eq_iff_iff]
        simp [List.mem_erase_of_ne hne]
    · have hc : T.contains (cand base i) = false := by simpa using hmem
      simp only [hc, Bool.not_false, if_true, Option.isSome_some]

/-! ## dictionary primitives -/

theorem hasKey_iff (d : Dict) (n : Name) : hasKey d n = true ↔ n ∈ d.map (·.1) := by
  simp [hasKey]

theorem hasattr_eq (R : List Name) (d : Dict) :
    hasattr R d = fun n => (R ++ d.map (·.1)).contains n := by
  funext n
  rw [Bool.eq_iff_iff]
  simp [hasattr, hasKey]

theorem dictSet_fresh (d : Dict) (k : Name) (v : Item) (h : k ∉ d.map (·.1)) :
    dictSet d k v = d ++ [(k, v)] := by
  induction d with
  | nil => rfl
  | cons kv r ih =>
    obtain ⟨k', v'⟩ := kv
    simp only [List.map_cons, List.mem_cons, not_or] at h
    simp only [dictSet, List.cons_append]
    rw [if_neg (fun e => h.1 e.symm), ih h.2]

/-- with pairwise distinct keys, two entries with the same key are the same entry -/
theorem entry_unique {d : Dict} (hn : (d.map (·.1)).Nodup) {a b : Name × Item}
    (ha : a ∈ d) (hb : b ∈ d) (hk : a.1 = b.1) : a = b := by
  induction d with
  | nil => cases ha
  | cons c r ih =>
    simp only [List.map_cons, List.nodup_cons] at hn
    rcases List.mem_cons.1 ha with rfl | ha' <;> rcases List.mem_cons.1 hb with rfl | hb'
    · rfl
    · exact absurd (hk ▸ List.mem_map_of_mem (f := (·.1)) hb') hn.1
    · exact absurd (hk ▸ List.mem_map_of_mem (f := (·.1)) ha') hn.1
    · exact ih hn.2 ha' hb'

theorem lookup_of_mem {d : Dict} (hn : (d.map (·.1)).Nodup) {k : Name} {v : Item} (h : (k, v) ∈ d) :
    lookup d k = some v := by
  unfold lookup
  cases hf : d.find? (fun kv => kv.1 == k) with
  | none =>
    have := List.find?_eq_none.1 hf (k, v) h
    simp at this
  | some kv =>
    have hm := List.mem_of_find?_eq_some hf
    have hp := List.find?_some hf
    have : kv = (k, v) := entry_unique hn hm h (by simpa using hp)
    simp [this]

theorem mem_of_lookup {d : Dict} {k : Name} {v : Item} (h : lookup d k = some v) : (k, v) ∈ d := by
  unfold lookup at h
  cases hf : d.find? (fun kv => kv.1 == k) with
  | none => simp [hf] at h
  | some kv =>
    have hm := List.mem_of_find?_eq_some hf
    have hp := List.find?_some hf
    simp only [hf, Option.map_some, Option.some.injEq] at h
    have hk : kv.1 = k := by simpa using hp
    have : kv = (k, v) := by cases kv; simp_all
    exact this ▸ hm

/-! ## `_add_attribute_item` -/

theorem itemKey_eq_none {kw : List Name} {sn : Name} : itemKey kw sn = none ↔ sn = [] := by
  cases sn with
  | nil => simp [itemKey]
  | cons c cs => simp only [itemKey]; split <;> simp

/-- the loop always ends within its fuel and yields a fresh, unreserved candidate; the only failure
    is the IndexError of an empty short name -/
theorem addAttr_cases (env : Env) (s : State) (it : Item) :
    (it.sn = [] ∧ addAttr env s it = .error .raised) ∨
    (it.sn ≠ [] ∧ ∃ nm, addAttr env s it = .ok ⟨s.items, s.names ++ [(nm, it)]⟩ ∧
        nm ∉ s.names.map (·.1) ∧ nm ∉ env.reserved ∧ IsKeyFor env.kw nm it) := by
  unfold addAttr
  cases hk : itemKey env.kw it.sn with
  | none => exact .inl ⟨itemKey_eq_none.1 hk, rfl⟩
  | some base =>
    right
    have hne : it.sn ≠ [] := fun h => by rw [itemKey_eq_none.2 h] at hk; cases hk
    refine ⟨hne, ?_⟩
    have hsome := findFree_isSome base (env.reserved.length + s.names.length + 1)
      (env.reserved ++ s.names.map (·.1)) 1 (Nat.le_refl _) (by simp)
    rw [← hasattr_eq] at hsome
    cases hf : findFree (hasattr env.reserved s.names) base (env.reserved.length + s.names.length + 1) 1 with
    | none => simp [hf] at hsome
    | some nm =>
      obtain ⟨n, hn, hnm, htaken⟩ := findFree_spec _ _ _ _ _ hf
      rw [hasattr_eq] at htaken
      have hnot : nm ∉ env.reserved ++ s.names.map (·.1) := by simpa using htaken
      simp only [List.mem_append, not_or] at hnot
      refine ⟨nm, ?_, hnot.2, hnot.1, base, n, hk, hn, hnm⟩
      simp only [hf, dictSet_fresh _ _ _ hnot.2]

/-! ## the invariant under the primitive state changes -/

theorem inv_empty (env : Env) : Inv env State.empty :=
  ⟨List.Perm.refl _, List.nodup_nil, fun _ h => (nomatch h), fun _ h => (nomatch h)⟩

theorem inv_add {env : Env} {s : State} (hinv : Inv env s) {nm : Name} {it : Item}
    (h1 : nm ∉ s.names.map (·.1)) (h2 : nm ∉ env.reserved) (h3 : IsKeyFor env.kw nm it)
    {items' : List Item} (hp : items'.Perm (it :: s.items)) :
    Inv env ⟨items', s.names ++ [(nm, it)]⟩ := by
  refine ⟨?_, ?_, ?_, ?_⟩
  · simp only [List.map_append, List.map_cons, List.map_nil]
    exact (List.perm_append_comm.trans (List.Perm.cons it hinv.perm)).trans hp.symm
  · simp only [List.map_append, List.map_cons, List.map_nil]
    rw [List.nodup_append]
    refine ⟨hinv.keysNodup, by simp, ?_⟩
    intro a ha b hb
    simp only [List.mem_singleton] at hb
    subst hb
    exact fun e => h1 (e ▸ ha)
  · intro kv hkv
    rcases List.mem_append.1 hkv with h | h
    · exact hinv.shape kv h
    · simp only [List.mem_singleton] at h; subst h; exact h3
  · intro kv hkv
    rcases List.mem_append.1 hkv with h | h
    · exact hinv.notReserved kv h
    · simp only [List.mem_singleton] at h; subst h; exact h2

theorem append_cases (env : Env) (s : State) (x : Item) (hinv : Inv env s) :
    (x.sn = [] ∧ append env s x = .error .raised) ∨
    (x.sn ≠ [] ∧ ∃ s', append env s x = .ok s' ∧ Inv env s' ∧ s'.items = s.items ++ [x]) := by
  rcases addAttr_cases env s x with ⟨h0, h⟩ | ⟨h0, nm, h, k1, k2, k3⟩
  · exact .inl ⟨h0, by simp [append, h]⟩
  · refine .inr ⟨h0, _, by simp only [append, h]; rfl, ?_, rfl⟩
    exact inv_add hinv k1 k2 k3 (List.perm_append_comm)

theorem normInsert_le (n : Nat) (i : Int) : normInsert n i ≤ n := by
  unfold normInsert
  simp only
  repeat' split
  all_goals omega

theorem insert_cases (env : Env) (s : State) (i : Int) (x : Item) (hinv : Inv env s) :
    (x.sn = [] ∧ insert env s i x = .error .raised) ∨
    (x.sn ≠ [] ∧ ∃ s', insert env s i x = .ok s' ∧ Inv env s' ∧
        s'.items = s.items.insertIdx (normInsert s.items.length i) x) := by
  rcases addAttr_cases env s x with ⟨h0, h⟩ | ⟨h0, nm, h, k1, k2, k3⟩
  · exact .inl ⟨h0, by simp [insert, h]⟩
  · refine .inr ⟨h0, _, by simp only [insert, h]; rfl, ?_, rfl⟩
    exact inv_add hinv k1 k2 k3 (List.perm_insertIdx x s.items (normInsert_le _ _))

end OdxVerif.Nil
