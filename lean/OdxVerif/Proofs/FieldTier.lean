import OdxVerif.Proofs.FieldTierStatic
import OdxVerif.Proofs.FieldTierDyn
import OdxVerif.Proofs.FieldTierEop
/-! Field tier at the level of the model's API: requests/responses whose top-level parameters are tier-2 parameters,
    multiplexers (`Item`), or VALUE parameters typed by a STATIC-FIELD / DYNAMIC-LENGTH-FIELD over a tier-2 structure.
    The message-level argument is done once, for any kind of top-level parameter that comes with a `Good` pure pair and
    the two refinement lemmas (`GItem.Ok`); `FItem` instantiates it. -/
namespace OdxVerif.Codec
open OdxVerif.Bits OdxVerif.OdxM

/-! ### generic top-level parameters -/

/-- a top-level parameter together with its pure encoder/decoder pair -/
structure GItem where
  name : String
  param : Param
  pair : Pair PVal
  need : Nat                    -- fuel the model needs for it
  eopOnly : Bool := false       -- can only be encoded with `is_end_of_pdu` (END-OF-PDU-FIELD): must be the last parameter
  decPre : DecState → Prop := fun _ => True   -- what its decoder needs beyond `pair.fits` (END-OF-PDU-FIELD: ends at the end)

/-- what the message-level argument uses: the pair composes (`Good`), the parameter is a VALUE (without default) or
    CODED-CONST parameter of that name, and the model's `encodeParam` / `decodeParam` equal the pair -/
structure GItem.Ok (g : GItem) : Prop where
  good : Good g.pair
  kind : (∃ bp bitp dop, g.param = .mk g.name bp bitp (.value dop none)) ∨
         (∃ bp bitp dct v, g.param = .mk g.name bp bitp (.codedConst dct v))
  val_ne_none : g.pair.val ≠ PVal.none
  encode_eq : ∀ (fuel : Nat), g.need ≤ fuel → ∀ (s : EncState), (g.eopOnly = true → s.isEndOfPdu = true) →
    ∃ s', encodeParam fuel g.param (some g.pair.val) s true = .ok ((), s') ∧ SameCore s' (g.pair.enc s)
  dec_cursorBit : ∀ (d : DecState), d.cursorBit = 0 → (g.pair.dec d).2.cursorBit = 0
  dec_msg : ∀ (d : DecState), (g.pair.dec d).2.msg = d.msg
  decode_eq : ∀ (fuel : Nat), g.need ≤ fuel → ∀ (d : DecState), d.cursorBit = 0 → g.pair.fits d → g.decPre d →
    decodeParam fuel g.param d true = .ok ((g.pair.dec d).1, (g.pair.dec d).2)
  decPre_of_end : ∀ (d : DecState), (g.pair.dec d).2.cursorByte = d.msg.length → g.decPre d
  decPre_trivial : g.eopOnly = false → ∀ (d : DecState), g.decPre d

theorem GItem.Ok.param_name {g : GItem} (h : g.Ok) : g.param.name = g.name := by
  rcases h.kind with ⟨_, _, _, hp⟩ | ⟨_, _, _, _, hp⟩ <;> rw [hp] <;> rfl

def GItems.toParams (gs : List GItem) : List Param := gs.map GItem.param

def GItems.pair : List GItem → Pair (List (String × PVal))
  | [] => Pair.nil []
  | g :: gs => ((GItem.pair g).seq (GItems.pair gs)).map (fun p => (g.name, p.1) :: p.2)

def GItems.okAll : List GItem → Prop
  | [] => True
  | g :: gs => g.Ok ∧ GItems.okAll gs

/-- the top-level short names are pairwise distinct -/
def GItems.namesOk : List GItem → Prop
  | [] => True
  | g :: gs => (∀ u ∈ gs, u.name ≠ g.name) ∧ GItems.namesOk gs

def GItems.need : List GItem → Nat
  | [] => 1
  | g :: gs => g.need + GItems.need gs + 1

/-- parameters that need `is_end_of_pdu` occur in the last place only -/
def GItems.eopLast : List GItem → Prop
  | [] => True
  | [_] => True
  | g :: g2 :: rest => g.eopOnly = false ∧ GItems.eopLast (g2 :: rest)

theorem GItems.eopLast_tail (g : GItem) (gs : List GItem) (h : GItems.eopLast (g :: gs)) : GItems.eopLast gs := by
  cases gs with
  | nil => trivial
  | cons g2 rest => exact h.2

/-- the extra decoder preconditions along the parameter list -/
def GItems.decPre : List GItem → DecState → Prop
  | [], _ => True
  | g :: gs, d => g.decPre d ∧ GItems.decPre gs (g.pair.dec d).2

/-- they hold when a parameter that needs the end of the PDU (necessarily the last one) ends where the message ends -/
theorem GItems.decPre_intro : (gs : List GItem) → GItems.okAll gs → GItems.eopLast gs → ∀ (d : DecState),
    ((∃ g ∈ gs, g.eopOnly = true) → ((GItems.pair gs).dec d).2.cursorByte = d.msg.length) → GItems.decPre gs d
  | [], _, _, _, _ => trivial
  | [g], hok, _, d, h => by
    refine ⟨?_, trivial⟩
    cases he : g.eopOnly with
    | false => exact hok.1.decPre_trivial he d
    | true => exact hok.1.decPre_of_end d (h ⟨g, List.mem_cons_self .., he⟩)
  | g :: g2 :: rest, hok, hlast, d, h => by
    refine ⟨hok.1.decPre_trivial hlast.1 d, ?_⟩
    apply GItems.decPre_intro (g2 :: rest) hok.2 hlast.2 (g.pair.dec d).2
    intro ⟨u, hu, he⟩
    have := h ⟨u, List.mem_cons_of_mem _ hu, he⟩
    rw [hok.1.dec_msg d]
    exact this

theorem GItems.good : (gs : List GItem) → GItems.okAll gs → Good (GItems.pair gs)
  | [], _ => Good.nil _
  | _ :: gs, h => (h.1.good.seq (GItems.good gs h.2)).map _

theorem GItems.need_ge (gs : List GItem) : gs.length + 1 ≤ GItems.need gs := by
  induction gs with
  | nil => simp [GItems.need]
  | cons g gs ih => simp only [GItems.need, List.length_cons]; omega

theorem GItems.pair_val_cons (g : GItem) (gs : List GItem) :
    (GItems.pair (g :: gs)).val = (g.name, g.pair.val) :: (GItems.pair gs).val := rfl

theorem GItems.lookupV_pair_val (gs : List GItem) (hok : GItems.okAll gs) (h : GItems.namesOk gs) (g : GItem) (hg : g ∈ gs) :
    lookupV g.name (GItems.pair gs).val = some g.pair.val := by
  have hgok : g.Ok := by
    induction gs with
    | nil => cases hg
    | cons u us ih =>
      cases hg with
      | head => exact hok.1
      | tail _ hmem => exact ih hok.2 h.2 hmem
  have hl : lookup g.name (GItems.pair gs).val = some g.pair.val := by
    induction gs with
    | nil => cases hg
    | cons u us ih =>
      simp only [GItems.namesOk] at h
      rw [GItems.pair_val_cons]
      cases hg with
      | head => simp [lookup]
      | tail _ hmem =>
        have hne : g.name ≠ u.name := h.1 g hmem
        simp only [lookup, hne, if_false]
        exact ih hok.2 h.2 hmem
  unfold lookupV
  rw [hl]
  have := hgok.val_ne_none
  cases hv : g.pair.val <;> simp_all

theorem GItems.known_pair_val (gs : List GItem) (hok : GItems.okAll gs) :
    (GItems.pair gs).val.any (fun kv => !((GItems.toParams gs).any fun p => p.name == kv.1)) = false := by
  have key : ∀ (all : List Param) (us : List GItem), (∀ u ∈ us, all.any (fun p => p.name == u.name) = true) →
      (GItems.pair us).val.any (fun kv => !(all.any fun p => p.name == kv.1)) = false := by
    intro all us
    induction us with
    | nil => intro _; rfl
    | cons u us ih =>
      intro h
      rw [GItems.pair_val_cons]
      simp only [List.any_cons, h u (List.mem_cons_self ..), Bool.not_true, Bool.false_or]
      exact ih (fun x hx => h x (List.mem_cons_of_mem _ hx))
  apply key
  intro u hu
  induction gs with
  | nil => cases hu
  | cons t ts ih =>
    simp only [GItems.toParams, List.map_cons, List.any_cons]
    cases hu with
    | head => simp [hok.1.param_name]
    | tail _ hm =>
      have := ih hok.2 hm
      simp only [GItems.toParams] at this
      simp [this]

theorem encodeKeyValues_gitems (gs : List GItem) (hok : GItems.okAll gs) (extra : Nat) (s : EncState) (st : Bool) :
    encodeKeyValues (gs.length + 1 + extra) (GItems.toParams gs) s st = .ok ((), s) := by
  induction gs with
  | nil =>
    have : 0 + 1 + extra = extra + 1 := by omega
    simp only [List.length_nil, GItems.toParams, List.map_nil, this, encodeKeyValues]
    simp [pure, run_pure]
  | cons g rest ih =>
    have : (g :: rest).length + 1 + extra = (rest.length + 1 + extra) + 1 := by simp; omega
    rw [this]
    simp only [GItems.toParams, List.map_cons]
    rcases hok.1.kind with ⟨bp, bitp, dop, htp⟩ | ⟨bp, bitp, dct, v, htp⟩ <;>
    · rw [htp]; simp only [encodeKeyValues]; exact ih hok.2

theorem GItems.encode_eq : (gs : List GItem) → GItems.okAll gs → GItems.eopLast gs → ∀ (values : List (String × PVal)),
    (∀ g ∈ gs, lookupV g.name values = some g.pair.val) → ∀ (fuel : Nat), GItems.need gs ≤ fuel → ∀ (s : EncState),
    ∃ s', encodeParams true values fuel (GItems.toParams gs) s true = .ok ((), s') ∧ SameCore s' ((GItems.pair gs).enc s)
  | [], _, _, values, _, fuel, hf, s => by
    simp only [GItems.need] at hf
    obtain ⟨f, rfl⟩ : ∃ f, fuel = f + 1 := ⟨fuel - 1, by omega⟩
    exact ⟨s, by simp [GItems.toParams, encodeParams, pure, run_pure], SameCore.refl _⟩
  | g :: gs, hok, hlast, values, hlook, fuel, hf, s => by
    simp only [GItems.okAll] at hok
    simp only [GItems.need] at hf
    obtain ⟨f, rfl⟩ : ∃ f, fuel = f + 1 := ⟨fuel - 1, by omega⟩
    have hl := hlook g (List.mem_cons_self ..)
    have hsmEop : g.eopOnly = true → (if gs.isEmpty then { s with isEndOfPdu := true } else s).isEndOfPdu = true := by
      intro he
      cases gs with
      | nil => rfl
      | cons g2 rest => have := hlast.1; rw [this] at he; cases he
    let eop := true
    let sm : EncState := if gs.isEmpty then { s with isEndOfPdu := eop } else s
    have hsm : SameCore sm s := by
      show SameCore (if gs.isEmpty then { s with isEndOfPdu := eop } else s) s
      split
      · exact ⟨rfl, rfl, rfl, rfl, rfl⟩
      · exact SameCore.refl s
    obtain ⟨s1, hstep, hc1⟩ := hok.1.encode_eq f (by omega) sm hsmEop
    obtain ⟨s2, hrest, hc2⟩ := GItems.encode_eq gs hok.2 (GItems.eopLast_tail g gs hlast) values
      (fun u hu => hlook u (List.mem_cons_of_mem _ hu)) f (by omega) s1
    have hgt := hok.1.good
    have hgts := GItems.good gs hok.2
    refine ⟨s2, ?_, ?_⟩
    · have hemp : (List.map GItem.param gs).isEmpty = gs.isEmpty := by cases gs <;> rfl
      have hstep' : encodeParam f g.param (some g.pair.val) (if gs.isEmpty then { s with isEndOfPdu := eop } else s) true
          = .ok ((), s1) := hstep
      simp only [GItems.toParams, List.map_cons]
      rcases hok.1.kind with ⟨bp, bitp, dop, htp⟩ | ⟨bp, bitp, dct, v, htp⟩
      · rw [htp, encodeParams_cons_value eop values f g.name bp bitp dop none _ s _ hl, ← htp, hemp, hstep']
        exact hrest
      · rw [htp, encodeParams_cons_const eop values f g.name bp bitp dct v _ s, ← htp, hemp, hl, hstep']
        exact hrest
    · simp only [GItems.pair, Pair.map, Pair.seq]
      exact hc2.trans (hgts.core _ _ (hc1.trans (hgt.core _ _ hsm)))

theorem GItems.dec_cursorBit : (gs : List GItem) → GItems.okAll gs → ∀ (d : DecState), d.cursorBit = 0 →
    ((GItems.pair gs).dec d).2.cursorBit = 0
  | [], _, _, h => h
  | g :: gs, hok, d, h => by
    simp only [GItems.pair, Pair.map, Pair.seq]
    exact GItems.dec_cursorBit gs hok.2 _ (hok.1.dec_cursorBit d h)

theorem GItems.decode_eq : (gs : List GItem) → GItems.okAll gs → ∀ (fuel : Nat), GItems.need gs ≤ fuel → ∀ (d : DecState),
    d.cursorBit = 0 → (GItems.pair gs).fits d → GItems.decPre gs d →
    decodeParams fuel (GItems.toParams gs) d true = .ok (((GItems.pair gs).dec d).1, ((GItems.pair gs).dec d).2)
  | [], _, fuel, hf, d, _, _, _ => by
    simp only [GItems.need] at hf
    obtain ⟨f, rfl⟩ : ∃ f, fuel = f + 1 := ⟨fuel - 1, by omega⟩
    simp [GItems.toParams, decodeParams, pure, run_pure, GItems.pair, Pair.nil]
  | g :: gs, hok, fuel, hf, d, hcb, hfit, hpre => by
    simp only [GItems.okAll] at hok
    simp only [GItems.need] at hf
    obtain ⟨f, rfl⟩ : ∃ f, fuel = f + 1 := ⟨fuel - 1, by omega⟩
    have hfit' : g.pair.fits d ∧ (GItems.pair gs).fits (g.pair.dec d).2 := hfit
    have h1 := hok.1.decode_eq f (by omega) d hcb hfit'.1 hpre.1
    have h2 := GItems.decode_eq gs hok.2 f (by omega) (g.pair.dec d).2 (hok.1.dec_cursorBit d hcb) hfit'.2 hpre.2
    have h2' : decodeParams f (List.map GItem.param gs) (g.pair.dec d).2 true = _ := h2
    simp only [GItems.toParams, List.map_cons, decodeParams, bind, run_bind, h1, h2', pure, run_pure, hok.1.param_name]
    rfl

/-- `Request.encode` = the pure encoder from the empty message -/
theorem encodeMessage_gitems (gs : List GItem) (hneed : GItems.need gs + 2 ≤ modelFuel) (hok : GItems.okAll gs)
    (hlast : GItems.eopLast gs) (hn : GItems.namesOk gs) (trig : Option Bytes) :
    ∃ s0 : EncState, s0.msg = [] ∧ s0.used = [] ∧ s0.warn = 0 ∧ s0.cursorByte = 0 ∧ s0.origin = 0 ∧
      encodeMessage none (GItems.toParams gs) (.dict (GItems.pair gs).val) trig true =
        .ok (((GItems.pair gs).enc s0).msg, ((GItems.pair gs).enc s0).warn) := by
  let s0 : EncState := { trig := trig, isEndOfPdu := false }
  refine ⟨s0, rfl, rfl, rfl, rfl, rfl, ?_⟩
  obtain ⟨f, hf⟩ : ∃ f, modelFuel = f + 1 + 1 := ⟨modelFuel - 2, by unfold modelFuel; omega⟩
  have hf' : GItems.need gs ≤ f := by omega
  obtain ⟨sp, hrun, hcore⟩ := GItems.encode_eq gs hok hlast (GItems.pair gs).val
    (fun g hg => GItems.lookupV_pair_val gs hok hn g hg) f hf' s0
  obtain ⟨e, rfl⟩ : ∃ e, f = gs.length + 1 + e := ⟨f - (gs.length + 1), by have := GItems.need_ge gs; omega⟩
  have hkeys := encodeKeyValues_gitems gs hok e { sp with isEndOfPdu := false } true
  have hrun' : encodeParams true (GItems.pair gs).val (gs.length + 1 + e) (GItems.toParams gs)
      { trig := trig, isEndOfPdu := false } true = .ok ((), sp) := hrun
  unfold encodeMessage
  rw [hf]
  simp only [encodeDop, encodeComposite, bind, pure, run_bind, run_getS, run_modifyS, run_pure, run_ite,
    GItems.known_pair_val gs hok, Bool.false_eq_true, if_false, ne_eq, not_true_eq_false]
  rw [hrun']
  simp only []
  rw [hkeys]
  simp only [hcore.1, hcore.2.2.1]

theorem decodeMessage_gitems (gs : List GItem) (hneed : GItems.need gs + 2 ≤ modelFuel) (hok : GItems.okAll gs) (msg : Bytes)
    (hfit : (GItems.pair gs).fits { msg := msg }) (hpre : GItems.decPre gs { msg := msg }) :
    decodeMessage none (GItems.toParams gs) msg true =
      .ok (.dict ((GItems.pair gs).dec { msg := msg }).1, ((GItems.pair gs).dec { msg := msg }).2.cursorByte) := by
  obtain ⟨f, hf⟩ : ∃ f, modelFuel = f + 1 + 1 := ⟨modelFuel - 2, by unfold modelFuel; omega⟩
  have hf' : GItems.need gs ≤ f := by omega
  have hdec := GItems.decode_eq gs hok f hf' { msg := msg } rfl hfit hpre
  have hdec' : decodeParams f (GItems.toParams gs) { msg := msg, origin := 0, cursorByte := 0 } true = _ := hdec
  unfold decodeMessage
  rw [hf]
  simp only [decodeDop, decodeComposite, bind, pure, run_bind, run_getS, run_modifyS, run_pure]
  rw [hdec']

/-- the round trip at the API level of the model, for any list of `GItem.Ok` parameters. A parameter that needs the
    end of the PDU must be the last one (`eopLast`), and then the position behind it must be the end of the PDU. -/
theorem gitems_roundtrip_msg (gs : List GItem) (hneed : GItems.need gs + 2 ≤ modelFuel) (hok : GItems.okAll gs)
    (hlast : GItems.eopLast gs) (hn : GItems.namesOk gs) (trig : Option Bytes) (pdu : Bytes)
    (hend : (∃ g ∈ gs, g.eopOnly = true) → ((GItems.pair gs).enc {}).cursorByte = pdu.length)
    (henc : encodeMessage none (GItems.toParams gs) (.dict (GItems.pair gs).val) trig true = .ok (pdu, 0)) :
    ∃ cursor, decodeMessage none (GItems.toParams gs) pdu true = .ok (.dict (GItems.pair gs).val, cursor) := by
  obtain ⟨s0, hm, hu, hw, hc, ho, hrun⟩ := encodeMessage_gitems gs hneed hok hlast hn trig
  rw [hrun] at henc
  simp only [Except.ok.injEq, Prod.mk.injEq] at henc
  obtain ⟨hpdu, hwarn⟩ := henc
  have hg := GItems.good gs hok
  have hall : AllBytes s0.msg := by rw [hm]; intro b hb; cases hb
  obtain ⟨hv, hcur, _, _, hfit⟩ := hg.rt s0 { msg := pdu } hall (by rw [hwarn, hw]) (by simp [ho]) (by simp [hc])
    (by rw [← hpdu]; exact hg.allBytes s0 hall) (by rw [hpdu]; exact Nat.le_refl _) (by intro a _; rw [hpdu])
  have hcore0 : SameCore s0 {} := ⟨hm, hu, hw, hc, ho⟩
  have hpre : GItems.decPre gs { msg := pdu } := by
    apply GItems.decPre_intro gs hok hlast
    intro hex
    rw [hcur, (hg.core _ _ hcore0).2.2.2.1]
    exact hend hex
  refine ⟨((GItems.pair gs).dec { msg := pdu }).2.cursorByte, ?_⟩
  rw [decodeMessage_gitems gs hneed hok pdu hfit hpre, hv]

/-! ### the field tier -/

/-- top-level parameters of the field tier -/
inductive FItem where
  | item (i : Item)              -- tier-2 parameter or multiplexer
  | sfield (f : StaticLeaf)      -- VALUE parameter over a STATIC-FIELD
  | dfield (f : DynLeaf)         -- VALUE parameter over a DYNAMIC-LENGTH-FIELD

def FItem.name : FItem → String
  | .item i => i.name
  | .sfield f => f.name
  | .dfield f => f.name
def FItem.toParam : FItem → Param
  | .item i => i.toParam
  | .sfield f => f.toParam
  | .dfield f => f.toParam
def FItem.pair : FItem → Pair PVal
  | .item i => i.pair
  | .sfield f => f.pair
  | .dfield f => f.pair
def FItem.ok : FItem → Prop
  | .item i => i.ok
  | .sfield f => f.ok
  | .dfield f => f.ok
def FItem.need : FItem → Nat
  | .item i => i.need
  | .sfield f => f.need
  | .dfield f => f.need

def FItem.toG (x : FItem) : GItem := { name := x.name, param := x.toParam, pair := x.pair, need := x.need }

theorem MuxLeaf.dec_msg (m : MuxLeaf) (d : DecState) : (m.pair.dec d).2.msg = d.msg := by
  show ((m.content.pair.dec (decStep m.keyObj
    { d with cursorByte := posOf m.bytePos d.origin d.cursorByte, origin := posOf m.bytePos d.origin d.cursorByte }).2).2).msg = d.msg
  rw [Tree.dec_msg]
  rfl

theorem Item.dec_msg (i : Item) (d : DecState) : (i.pair.dec d).2.msg = d.msg := by
  cases i with
  | tree t => exact Tree.dec_msg t d
  | mux m => exact MuxLeaf.dec_msg m d

theorem staticItems_dec_msg (n : Nat) : ∀ (ks : List (List Tree)) (d : DecState),
    ((Pair.list (ks.map (staticItem n))).dec d).2.msg = d.msg
  | [], _ => rfl
  | k :: ks, d => by
    simp only [List.map_cons, Pair.list, Pair.map, Pair.seq]
    rw [staticItems_dec_msg n ks, staticItem_dec]
    exact structPair_dec_msg k d

theorem StaticLeaf.dec_msg (f : StaticLeaf) (d : DecState) : (f.pair.dec d).2.msg = d.msg :=
  staticItems_dec_msg f.itemSize f.items _

theorem dynBody_dec_msg (ks : List (List Tree)) (d : DecState) : ((dynBody ks).dec d).2.msg = d.msg := by
  cases ks with
  | nil => rfl
  | cons k ks => exact dynItems_dec_msg (k :: ks) d

theorem DynLeaf.dec_msg (f : DynLeaf) (d : DecState) : (f.pair.dec d).2.msg = d.msg := by
  show ((dynBody f.items).dec _).2.msg = d.msg
  rw [dynBody_dec_msg]
  rfl

theorem EopLeaf.dec_msg (f : EopLeaf) (d : DecState) : (f.pair.dec d).2.msg = d.msg :=
  dynItems_dec_msg f.items _

theorem FItem.toG_ok (x : FItem) (h : x.ok) : x.toG.Ok := by
  cases x with
  | item i =>
    exact { good := Item.good i h, kind := Item.toParam_kind i, val_ne_none := Item.val_ne_none i,
            encode_eq := fun fuel hf s _ => Item.encode_eq i h fuel hf s,
            dec_cursorBit := fun d hd => Item.dec_cursorBit i d hd,
            dec_msg := Item.dec_msg i,
            decode_eq := fun fuel hf d hcb hfit _ => Item.decode_eq i h fuel hf d hcb hfit,
            decPre_of_end := fun _ _ => trivial, decPre_trivial := fun _ _ => trivial }
  | sfield f =>
    exact { good := f.good h, kind := Or.inl ⟨_, _, _, rfl⟩,
            val_ne_none := by show f.pair.val ≠ PVal.none; rw [StaticLeaf.pair_val]; simp,
            encode_eq := fun fuel hf s _ => f.encode_eq h fuel hf s,
            dec_cursorBit := fun d hd => f.dec_cursorBit d hd,
            dec_msg := f.dec_msg,
            decode_eq := fun fuel hf d hcb hfit _ => f.decode_eq h fuel hf d hcb hfit,
            decPre_of_end := fun _ _ => trivial, decPre_trivial := fun _ _ => trivial }
  | dfield f =>
    exact { good := f.good h, kind := Or.inl ⟨_, _, _, rfl⟩,
            val_ne_none := by show f.pair.val ≠ PVal.none; rw [DynLeaf.pair_val]; simp,
            encode_eq := fun fuel hf s _ => f.encode_eq h fuel hf s,
            dec_cursorBit := fun d hd => f.dec_cursorBit d hd,
            dec_msg := f.dec_msg,
            decode_eq := fun fuel hf d hcb hfit _ => f.decode_eq h fuel hf d hcb hfit,
            decPre_of_end := fun _ _ => trivial, decPre_trivial := fun _ _ => trivial }

theorem FItem.toG_eopOnly (x : FItem) : x.toG.eopOnly = false := rfl

def FItems.toParams (xs : List FItem) : List Param := xs.map FItem.toParam

/-- pure encoder/decoder of the whole parameter list; `.val` is the value dictionary -/
def FItems.pair : List FItem → Pair (List (String × PVal))
  | [] => Pair.nil []
  | x :: xs => ((FItem.pair x).seq (FItems.pair xs)).map (fun p => (x.name, p.1) :: p.2)

def FItems.okAll : List FItem → Prop
  | [] => True
  | x :: xs => x.ok ∧ FItems.okAll xs

/-- the top-level short names are pairwise distinct -/
def FItems.namesOk : List FItem → Prop
  | [] => True
  | x :: xs => (∀ u ∈ xs, u.name ≠ x.name) ∧ FItems.namesOk xs

def FItems.need : List FItem → Nat
  | [] => 1
  | x :: xs => x.need + FItems.need xs + 1

theorem FItems.toParams_eq (xs : List FItem) : FItems.toParams xs = GItems.toParams (xs.map FItem.toG) := by
  simp [FItems.toParams, GItems.toParams, List.map_map, Function.comp_def, FItem.toG]

theorem FItems.pair_eq (xs : List FItem) : FItems.pair xs = GItems.pair (xs.map FItem.toG) := by
  induction xs with
  | nil => rfl
  | cons x xs ih => simp only [FItems.pair, List.map_cons, GItems.pair, ih]; rfl

theorem FItems.need_eq (xs : List FItem) : FItems.need xs = GItems.need (xs.map FItem.toG) := by
  induction xs with
  | nil => rfl
  | cons x xs ih => simp only [FItems.need, List.map_cons, GItems.need, ih]; rfl

theorem FItems.okAll_toG (xs : List FItem) (h : FItems.okAll xs) : GItems.okAll (xs.map FItem.toG) := by
  induction xs with
  | nil => trivial
  | cons x xs ih => exact ⟨FItem.toG_ok x h.1, ih h.2⟩

theorem FItems.namesOk_toG (xs : List FItem) (h : FItems.namesOk xs) : GItems.namesOk (xs.map FItem.toG) := by
  induction xs with
  | nil => trivial
  | cons x xs ih =>
    refine ⟨?_, ih h.2⟩
    intro u hu
    obtain ⟨y, hy, rfl⟩ := List.mem_map.mp hu
    exact h.1 y hy

theorem GItems.eopLast_of_none : (gs : List GItem) → (∀ g ∈ gs, g.eopOnly = false) → GItems.eopLast gs
  | [], _ => trivial
  | [_], _ => trivial
  | g :: g2 :: rest, h =>
    ⟨h g (List.mem_cons_self ..), GItems.eopLast_of_none (g2 :: rest) (fun u hu => h u (List.mem_cons_of_mem _ hu))⟩

theorem FItems.toG_eopOnly (xs : List FItem) : ∀ g ∈ xs.map FItem.toG, g.eopOnly = false := by
  intro g hg
  obtain ⟨x, _, rfl⟩ := List.mem_map.mp hg
  rfl

/-- **C01, field tier, at the API level of the model.** -/
theorem fitems_roundtrip_msg (xs : List FItem) (hneed : FItems.need xs + 2 ≤ modelFuel) (hok : FItems.okAll xs)
    (hn : FItems.namesOk xs) (trig : Option Bytes) (pdu : Bytes)
    (henc : encodeMessage none (FItems.toParams xs) (.dict (FItems.pair xs).val) trig true = .ok (pdu, 0)) :
    ∃ cursor, decodeMessage none (FItems.toParams xs) pdu true = .ok (.dict (FItems.pair xs).val, cursor) := by
  rw [FItems.toParams_eq, FItems.pair_eq] at henc ⊢
  rw [FItems.need_eq] at hneed
  refine gitems_roundtrip_msg _ hneed (FItems.okAll_toG xs hok) (GItems.eopLast_of_none _ (FItems.toG_eopOnly xs))
    (FItems.namesOk_toG xs hn) trig pdu ?_ henc
  intro ⟨g, hg, he⟩
  rw [FItems.toG_eopOnly xs g hg] at he
  cases he

/-! ### … followed by an END-OF-PDU-FIELD as the last parameter -/

def EopLeaf.toG (e : EopLeaf) : GItem :=
  { name := e.name, param := e.toParam, pair := e.pair, need := e.need, eopOnly := true,
    decPre := fun d => (e.pair.dec d).2.cursorByte = d.msg.length }

theorem EopLeaf.toG_ok (e : EopLeaf) (h : e.ok) : e.toG.Ok :=
  { good := e.good h, kind := Or.inl ⟨_, _, _, rfl⟩,
    val_ne_none := by show e.pair.val ≠ PVal.none; rw [EopLeaf.pair_val]; simp,
    encode_eq := fun fuel hf s hs => e.encode_eq h fuel hf s (hs rfl),
    dec_cursorBit := fun d hd => e.dec_cursorBit d hd,
    dec_msg := e.dec_msg,
    decode_eq := fun fuel hf d hcb hfit hpre => e.decode_eq h fuel hf d hcb hfit hpre,
    decPre_of_end := fun _ hd => hd,
    decPre_trivial := fun hf => by cases hf }

/-- the parameter list `xs` followed by the END-OF-PDU-FIELD parameter `e` -/
def FItems.toParamsEop (xs : List FItem) (e : EopLeaf) : List Param := FItems.toParams xs ++ [e.toParam]

/-- pure encoder/decoder of `xs` followed by `e`; `.val` = the value dictionary -/
def FItems.pairEop (xs : List FItem) (e : EopLeaf) : Pair (List (String × PVal)) :=
  GItems.pair (xs.map FItem.toG ++ [e.toG])

theorem GItems.need_append (gs : List GItem) (g : GItem) : GItems.need (gs ++ [g]) = GItems.need gs + g.need + 1 := by
  induction gs with
  | nil => simp only [List.nil_append, GItems.need]; omega
  | cons u us ih => simp only [List.cons_append, GItems.need, ih]; omega

theorem GItems.okAll_append (gs : List GItem) (g : GItem) (h1 : GItems.okAll gs) (h2 : g.Ok) : GItems.okAll (gs ++ [g]) := by
  induction gs with
  | nil => exact ⟨h2, trivial⟩
  | cons u us ih => exact ⟨h1.1, ih h1.2⟩

theorem GItems.namesOk_append (gs : List GItem) (g : GItem) (h1 : GItems.namesOk gs) (h2 : ∀ u ∈ gs, u.name ≠ g.name) :
    GItems.namesOk (gs ++ [g]) := by
  induction gs with
  | nil => exact ⟨(fun _ hu => nomatch hu), trivial⟩
  | cons u us ih =>
    refine ⟨?_, ih h1.2 (fun x hx => h2 x (List.mem_cons_of_mem _ hx))⟩
    intro x hx
    rcases List.mem_append.mp hx with hx | hx
    · exact h1.1 x hx
    · simp only [List.mem_singleton] at hx
      subst hx
      exact fun he => h2 u (List.mem_cons_self ..) he.symm

theorem GItems.eopLast_append (gs : List GItem) (g : GItem) (h : ∀ u ∈ gs, u.eopOnly = false) : GItems.eopLast (gs ++ [g]) := by
  induction gs with
  | nil => trivial
  | cons u us ih =>
    have hrest := ih (fun x hx => h x (List.mem_cons_of_mem _ hx))
    cases us with
    | nil => exact ⟨h u (List.mem_cons_self ..), trivial⟩
    | cons u2 rest => exact ⟨h u (List.mem_cons_self ..), hrest⟩

theorem FItems.toParamsEop_eq (xs : List FItem) (e : EopLeaf) :
    FItems.toParamsEop xs e = GItems.toParams (xs.map FItem.toG ++ [e.toG]) := by
  simp [FItems.toParamsEop, FItems.toParams, GItems.toParams, List.map_map, Function.comp_def, FItem.toG, EopLeaf.toG]

/-- **C01, field tier with an END-OF-PDU-FIELD as the last parameter, at the API level of the model.** -/
theorem fitems_eop_roundtrip_msg (xs : List FItem) (e : EopLeaf) (hneed : FItems.need xs + e.need + 3 ≤ modelFuel)
    (hok : FItems.okAll xs) (heok : e.ok) (hn : FItems.namesOk xs) (hne : ∀ x ∈ xs, x.name ≠ e.name)
    (trig : Option Bytes) (pdu : Bytes)
    (hend : ((FItems.pairEop xs e).enc {}).cursorByte = pdu.length)
    (henc : encodeMessage none (FItems.toParamsEop xs e) (.dict (FItems.pairEop xs e).val) trig true = .ok (pdu, 0)) :
    ∃ cursor, decodeMessage none (FItems.toParamsEop xs e) pdu true = .ok (.dict (FItems.pairEop xs e).val, cursor) := by
  rw [FItems.toParamsEop_eq] at henc ⊢
  have hneed' : GItems.need (xs.map FItem.toG ++ [e.toG]) + 2 ≤ modelFuel := by
    rw [GItems.need_append, ← FItems.need_eq]
    show FItems.need xs + e.need + 1 + 2 ≤ modelFuel
    omega
  exact gitems_roundtrip_msg _ hneed' (GItems.okAll_append _ _ (FItems.okAll_toG xs hok) (e.toG_ok heok))
    (GItems.eopLast_append _ _ (FItems.toG_eopOnly xs))
    (GItems.namesOk_append _ _ (FItems.namesOk_toG xs hn) (by
      intro u hu
      obtain ⟨x, hx, rfl⟩ := List.mem_map.mp hu
      exact hne x hx)) trig pdu (fun _ => hend) henc

end OdxVerif.Codec
