import OdxVerif.Model.Decode
/-! `triggering_request` through the whole encoder model: no encoding function changes `EncodeState.triggering_request`
    (`encodeParam_keeps_trig`).  Needed for MATCHING-REQUEST-PARAM, whose encoding reads it: the pure pair of such a
    parameter has the echoed bytes baked in, so its refinement statement holds from states with THAT triggering request only,
    and the parameter loop must hand the same one to every parameter.  Proof: the scheme of `Proofs/DynLeafEop.lean`
    (invariant preserved by every combinator and by all seven mutually recursive encoding functions, induction on the fuel)
    with the invariant `TrigIs ref`.  Core Lean only. -/
namespace OdxVerif.Codec
open OdxVerif.OdxM OdxVerif.Bits

/-- the triggering request of the state is `ref` -/
def TrigIs (ref : Option Bytes) (s : EncState) : Prop := s.trig = ref

/-- a computation that keeps `TrigIs ref` (on success) -/
def KT {α : Type} (ref : Option Bytes) (m : EncM α) : Prop :=
  ∀ s st a s', TrigIs ref s → m s st = .ok (a, s') → TrigIs ref s'

theorem kt_pure {α : Type} (ref : Option Bytes) (a : α) : KT ref (Pure.pure a : EncM α) := by
  intro s st b s' hs h; cases h; exact hs
theorem kt_pure' {α : Type} (ref : Option Bytes) (a : α) : KT ref (OdxM.pure a : EncM α) := by
  intro s st b s' hs h; cases h; exact hs
theorem kt_odxraise (ref : Option Bytes) (e : Err) : KT ref (odxraise e : EncM Unit) := by
  intro s st b s' hs h
  cases st <;> simp [odxraise] at h
  obtain ⟨_, rfl⟩ := h; exact hs
theorem kt_raise {α : Type} (ref : Option Bytes) (e : Err) : KT ref (raise e : EncM α) := by
  intro s st b s' hs h; simp [raise] at h
theorem kt_odxassert (ref : Option Bytes) (c : Bool) : KT ref (odxassert c : EncM Unit) := by
  unfold odxassert; split
  · exact kt_pure' ref ()
  · exact kt_odxraise ref _
theorem kt_modifyS (ref : Option Bytes) (f : EncState → EncState) (hf : ∀ s, TrigIs ref s → TrigIs ref (f s)) :
    KT ref (modifyS f : EncM Unit) := by
  intro s st b s' hs h; cases h; exact hf s hs
theorem kt_setS (ref : Option Bytes) (t : EncState) (ht : TrigIs ref t) : KT ref (setS t : EncM Unit) := by
  intro s st b s' _ h; cases h; exact ht

theorem kt_bind' {α β : Type} (ref : Option Bytes) (m : EncM α) (f : α → EncM β) (hm : KT ref m) (hf : ∀ a, KT ref (f a)) :
    KT ref (OdxM.bind m f) := by
  intro s st b s' hs h
  unfold OdxM.bind at h
  cases hms : m s st with
  | error e => rw [hms] at h; cases h
  | ok p =>
    obtain ⟨a, s1⟩ := p
    rw [hms] at h
    exact hf a s1 st b s' (hm s st a s1 hs hms) h
theorem kt_bind {α β : Type} (ref : Option Bytes) (m : EncM α) (f : α → EncM β) (hm : KT ref m) (hf : ∀ a, KT ref (f a)) :
    KT ref (m >>= f) := kt_bind' ref m f hm hf

/-- reading the state: what follows may use that the state read satisfies the invariant (the save/restore pattern) -/
theorem kt_getS_bind' {β : Type} (ref : Option Bytes) (f : EncState → EncM β) (hf : ∀ s0, TrigIs ref s0 → KT ref (f s0)) :
    KT ref (OdxM.bind getS f) := by
  intro s st b s' hs h
  exact hf s hs s st b s' hs h
theorem kt_getS_bind {β : Type} (ref : Option Bytes) (f : EncState → EncM β) (hf : ∀ s0, TrigIs ref s0 → KT ref (f s0)) :
    KT ref (getS >>= f) := kt_getS_bind' ref f hf

theorem kt_ite {α : Type} (ref : Option Bytes) (c : Prop) [Decidable c] (a b : EncM α) (ha : KT ref a) (hb : KT ref b) :
    KT ref (if c then a else b) := by split <;> assumption

attribute [irreducible] KT

/-- side goals of `kt_modifyS` / `kt_setS`: the flag is untouched, cleared, or restored from a state that had the invariant -/
macro "kt_side" : tactic =>
  `(tactic| ((try intro s hs); dsimp only [TrigIs] at *; first | assumption | rfl))

macro "kt_step" : tactic =>
  `(tactic| first
    | exact kt_pure _ _ | exact kt_pure' _ _ | exact kt_odxraise _ _ | exact kt_raise _ _ | exact kt_odxassert _ _
    | assumption
    | (with_reducible apply kt_getS_bind; intro s0 hs0) | (with_reducible apply kt_getS_bind'; intro s0 hs0)
    | (apply kt_modifyS; kt_side) | (apply kt_setS; kt_side)
    | apply kt_bind | apply kt_bind' | apply kt_ite
    | intro _)
macro "ktt" : tactic => `(tactic| repeat (first | split | kt_step))

theorem kt_emplaceBytes (ref : Option Bytes) (new : Bytes) (mask : Option Bytes) : KT ref (emplaceBytes new mask) := by
  unfold emplaceBytes; ktt

theorem kt_rawOfInt32 (ref : Option Bytes) (enc : Option Enc) (bl : Nat) (v : Int) : KT ref (rawOfInt32 enc bl v) := by
  unfold rawOfInt32; ktt
theorem kt_rawOfUInt32 (ref : Option Bytes) (enc : Option Enc) (bl : Nat) (v : Int) : KT ref (rawOfUInt32 enc bl v) := by
  unfold rawOfUInt32; ktt
theorem kt_fitBytes (ref : Option Bytes) (raw : Bytes) (bl : Nat) : KT ref (fitBytes raw bl) := by
  unfold fitBytes; ktt


macro "ktt'" : tactic => `(tactic| repeat (first
    | exact kt_emplaceBytes _ _ _ | exact kt_rawOfInt32 _ _ _ _ | exact kt_rawOfUInt32 _ _ _ _ | exact kt_fitBytes _ _ _
    | kt_step | split))

theorem kt_emplaceAtomic (ref : Option Bytes) (v : IVal) (bl : Nat) (bt : BaseType) (enc : Option Enc) (hl : Bool) (m : Option Bytes) :
    KT ref (emplaceAtomic v bl bt enc hl m) := by
  unfold emplaceAtomic
  dsimp only
  split
  · apply kt_bind
    · exact kt_raise _ _
    · intro _
      apply kt_bind
      · cases bt <;> cases v <;> simp only [] <;> ktt'
      · intro p
        ktt'
  · apply kt_bind
    · cases bt <;> cases v <;> simp only [] <;> ktt'
    · intro p
      ktt'

theorem kt_applyMask (ref : Option Bytes) (m : Nat) (c : Bool) (v : IVal) : KT ref (applyMask m c v) := by
  unfold applyMask
  cases v <;> simp only [] <;> ktt'

macro "ktt''" : tactic => `(tactic| repeat (first
    | exact kt_emplaceAtomic _ _ _ _ _ _ _ | exact kt_applyMask _ _ _ _
    | exact kt_emplaceBytes _ _ _ | exact kt_rawOfInt32 _ _ _ _ | exact kt_rawOfUInt32 _ _ _ _ | exact kt_fitBytes _ _ _
    | kt_step | split))

theorem kt_encodeDct (ref : Option Bytes) (dct : Dct) (v : IVal) : KT ref (encodeDct dct v) := by
  unfold encodeDct
  cases dct with
  | std bt enc hl bl mask c => cases mask <;> simp only [] <;> ktt''
  | minmax bt enc hl mn mx t =>
    simp only []
    apply kt_bind
    · cases v <;> simp only [] <;> ktt''
    · intro raw; ktt''
  | leading bt enc hl bl =>
    simp only []
    apply kt_bind
    · cases bt <;> cases v <;> simp only [] <;> ktt''
    · intro n; ktt''
  | paramLen bt enc hl key =>
    simp only []
    apply kt_getS_bind
    intro s hs
    apply kt_bind
    · split
      · ktt''
      · apply kt_bind
        · cases bt <;> cases v <;> simp only [] <;> ktt''
        · intro b; ktt''
    · intro b; ktt''

/-! ### the compu-method helpers (`Model/CodecCompu.lean`; they only raise / odxraise / return) -/

theorem kt_methodP2I (ref : Option Bytes) (m : Compu.Method) (p : Compu.Val) : KT ref (methodP2I m p : EncM Compu.Val) := by
  unfold methodP2I
  cases m <;> simp only [] <;> ktt

theorem kt_methodI2P (ref : Option Bytes) (arith : Err) (m : Compu.Method) (i : Compu.Val) :
    KT ref (methodI2P arith m i : EncM (Option Compu.Val)) := by
  unfold methodI2P
  cases m <;> simp only [] <;> ktt

macro "kttc" : tactic => `(tactic| repeat (first
    | exact kt_methodP2I _ _ _ | exact kt_methodI2P _ _ _ _ | kt_step | split))

theorem kt_dopP2I (ref : Option Bytes) (m : Compu.Method) (v : IVal) : KT ref (dopP2I m v : EncM IVal) := by
  unfold dopP2I
  kttc

theorem kt_cmKeyValid (ref : Option Bytes) (cm : CCompu) (ity pty : BaseType) (i : Int) : KT ref (cmKeyValid cm ity pty i) := by
  unfold cmKeyValid
  kttc

theorem kt_keyValidCheck (ref : Option Bytes) (dop : Dop) (i : Int) : KT ref (keyValidCheck dop i) := by
  unfold keyValidCheck
  split
  · exact kt_cmKeyValid _ _ _ _ _
  · exact kt_raise _ _
  · exact kt_pure _ _

theorem kt_cmKeyRepr (ref : Option Bytes) (cm : CCompu) (ity pty : BaseType) (v : Int) : KT ref (cmKeyRepr cm ity pty v) := by
  unfold cmKeyRepr
  kttc

theorem kt_keyReprCheck (ref : Option Bytes) (dop : Dop) (v : Int) : KT ref (keyReprCheck dop v) := by
  unfold keyReprCheck
  split
  · exact kt_cmKeyRepr _ _ _ _ _
  · exact kt_pure _ _

macro "ktt3" : tactic => `(tactic| repeat (first
    | exact kt_emplaceAtomic _ _ _ _ _ _ _ | exact kt_encodeDct _ _ _
    | exact kt_emplaceBytes _ _ _ | exact kt_keyValidCheck _ _ _ | exact kt_keyReprCheck _ _ _
    | kt_step | split | dsimp only))

theorem kt_encodeKeyPlaceholder (ref : Option Bytes) (name : String) (bytePos bitPos : Option Nat) (dop : Dop) (pv : Option PVal) :
    KT ref (encodeKeyPlaceholder name bytePos bitPos dop pv) := by
  unfold encodeKeyPlaceholder
  ktt3


/-- all seven mutually recursive encoding functions keep the invariant, by induction on the fuel; the item loops and
    the parameter loop re-install the flag value `eop` they are given for the last item / parameter -/
theorem kt_encode_all (fuel : Nat) : ∀ (ref : Option Bytes),
    (∀ d pv, KT ref (encodeDop fuel d pv)) ∧
    (∀ item eop xs, KT ref (encodeItems item eop fuel xs)) ∧
    (∀ item sz eop xs, KT ref (encodeStaticItems item sz eop fuel xs)) ∧
    (∀ p pv, KT ref (encodeParam fuel p pv)) ∧
    (∀ eop values ps, KT ref (encodeParams eop values fuel ps)) ∧
    (∀ ps, KT ref (encodeKeyValues fuel ps)) ∧
    (∀ ps pv, KT ref (encodeComposite fuel ps pv)) := by
  induction fuel with
  | zero =>
    intro ref
    refine ⟨?_, ?_, ?_, ?_, ?_, ?_, ?_⟩ <;> intros
    · unfold encodeDop; exact kt_raise _ _
    · unfold encodeItems; exact kt_raise _ _
    · unfold encodeStaticItems; exact kt_raise _ _
    · unfold encodeParam; exact kt_raise _ _
    · unfold encodeParams; exact kt_raise _ _
    · unfold encodeKeyValues; exact kt_raise _ _
    · unfold encodeComposite; exact kt_raise _ _
  | succ fuel ih =>
    intro ref
    obtain ⟨ihDop, ihItems, ihStatic, ihParam, ihParams, ihKeys, ihComp⟩ := ih ref
    refine ⟨?_, ?_, ?_, ?_, ?_, ?_, ?_⟩
    · intro d pv
      cases d <;> unfold encodeDop <;>
        repeat (first
          | exact ihDop _ _ | exact ihItems _ _ _ | exact ihStatic _ _ _ _ | exact ihComp _ _ | exact ihParam _ _
          | exact kt_encodeDct _ _ _ | exact kt_emplaceBytes _ _ _ | exact kt_dopP2I _ _ _ | exact kt_methodP2I _ _ _
          | exact kt_methodI2P _ _ _ _ | exact kt_keyValidCheck _ _ _ | exact kt_keyReprCheck _ _ _
          | kt_step | split | dsimp only
          | (simp only [Nat.succ_eq_add_one, Nat.add_right_cancel_iff] at *; subst_vars))
    · intro item eop xs
      unfold encodeItems
      repeat (first
          | exact ihDop _ _ | exact ihItems _ _ _
          | kt_step | split | dsimp only
          | (simp only [Nat.succ_eq_add_one, Nat.add_right_cancel_iff] at *; subst_vars))
    · intro item sz eop xs
      unfold encodeStaticItems
      repeat (first
          | exact ihDop _ _ | exact ihStatic _ _ _ _ | exact kt_emplaceBytes _ _ _
          | kt_step | split | dsimp only
          | (simp only [Nat.succ_eq_add_one, Nat.add_right_cancel_iff] at *; subst_vars))
    · intro p pv
      unfold encodeParam
      repeat (first
          | exact ihDop _ _ | exact kt_encodeDct _ _ _ | exact kt_emplaceBytes _ _ _
          | kt_step | split | dsimp only
          | (simp only [Nat.succ_eq_add_one, Nat.add_right_cancel_iff] at *; subst_vars))
    · intro eop values ps
      unfold encodeParams
      repeat (first
          | exact ihParam _ _ | exact ihParams _ _ _ | exact kt_encodeKeyPlaceholder _ _ _ _ _ _
          | kt_step | split | dsimp only
          | (simp only [Nat.succ_eq_add_one, Nat.add_right_cancel_iff] at *; subst_vars))
    · intro ps
      unfold encodeKeyValues
      repeat (first
          | exact ihDop _ _ | exact ihKeys _ | exact kt_keyReprCheck _ _ _ | exact kt_keyValidCheck _ _ _
          | kt_step | split | dsimp only
          | (simp only [Nat.succ_eq_add_one, Nat.add_right_cancel_iff] at *; subst_vars))
    · intro ps pv
      unfold encodeComposite
      repeat (first
          | exact ihParams _ _ _ | exact ihKeys _
          | kt_step | split | dsimp only
          | (simp only [Nat.succ_eq_add_one, Nat.add_right_cancel_iff] at *; subst_vars))


/-- **`triggering_request` is never changed by the encoder**: any parameter of the model, any value, strict or lenient. -/
theorem encodeParam_keeps_trig (fuel : Nat) (p : Param) (pv : Option PVal) (s : EncState) (st : Bool) (s' : EncState)
    (h : encodeParam fuel p pv s st = .ok ((), s')) : s'.trig = s.trig := by
  have := (kt_encode_all fuel s.trig).2.2.2.1 p pv
  unfold KT at this
  exact this s st () s' rfl h

end OdxVerif.Codec
