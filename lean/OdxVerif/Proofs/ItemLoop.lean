import OdxVerif.Model.Decode
/-! Run lemmas of the item loop of the dynamic fields (`encodeItems`) after fix c04-field-item-consumes-nothing:
    every item has to move the byte cursor forward, otherwise `odxraise(…, EncodeError)`.  The lemmas are stated for both
    modes (`st`); the rejection lemmas for strict mode. Used by every proof that walks through `encodeItems`. -/
namespace OdxVerif.Codec
open OdxVerif.Bits OdxVerif.OdxM

/-- the last item: it is encoded with the inherited `is_end_of_pdu` and has to advance the cursor -/
theorem encodeItems_one_ok (item : Dop) (eop : Bool) (f : Nat) (x : PVal) (s s1 : EncState) (st : Bool)
    (h : encodeDop f item x { s with isEndOfPdu := eop } st = .ok ((), s1)) (hadv : s.cursorByte < s1.cursorByte) :
    encodeItems item eop (f + 1) [x] s st = .ok ((), s1) := by
  simp only [encodeItems, bind, run_bind, run_modifyS, run_getS, h]
  rw [if_neg (by omega)]
  rfl

/-- an item that is not the last one: it has to advance the cursor, then the loop goes on -/
theorem encodeItems_cons_ok (item : Dop) (eop : Bool) (f : Nat) (x y : PVal) (rest : List PVal) (s s1 : EncState) (st : Bool)
    (h : encodeDop f item x s st = .ok ((), s1)) (hadv : s.cursorByte < s1.cursorByte) :
    encodeItems item eop (f + 1) (x :: y :: rest) s st = encodeItems item eop f (y :: rest) s1 st := by
  simp only [encodeItems, bind, run_bind, run_getS, h]
  rw [if_neg (by omega)]

/-- an error of the last item is the error of the loop -/
theorem encodeItems_one_err (item : Dop) (eop : Bool) (f : Nat) (x : PVal) (s : EncState) (st : Bool) (e : Err × EncState)
    (h : encodeDop f item x { s with isEndOfPdu := eop } st = .error e) :
    encodeItems item eop (f + 1) [x] s st = .error e := by
  simp only [encodeItems, bind, run_bind, run_modifyS, run_getS, h]

/-- an error of an item is the error of the loop -/
theorem encodeItems_cons_err (item : Dop) (eop : Bool) (f : Nat) (x y : PVal) (rest : List PVal) (s : EncState) (st : Bool)
    (e : Err × EncState) (h : encodeDop f item x s st = .error e) :
    encodeItems item eop (f + 1) (x :: y :: rest) s st = .error e := by
  simp only [encodeItems, bind, run_bind, run_getS, h]

/-- strict mode: a last item that does not advance the cursor is an EncodeError -/
theorem encodeItems_one_stuck (item : Dop) (eop : Bool) (f : Nat) (x : PVal) (s s1 : EncState)
    (h : encodeDop f item x { s with isEndOfPdu := eop } true = .ok ((), s1)) (hst : s1.cursorByte ≤ s.cursorByte) :
    encodeItems item eop (f + 1) [x] s true = .error (.encode, s1) := by
  simp only [encodeItems, bind, run_bind, run_modifyS, run_getS, h]
  rw [if_pos hst]
  rfl

/-- strict mode: an item that does not advance the cursor is an EncodeError -/
theorem encodeItems_cons_stuck (item : Dop) (eop : Bool) (f : Nat) (x y : PVal) (rest : List PVal) (s s1 : EncState)
    (h : encodeDop f item x s true = .ok ((), s1)) (hst : s1.cursorByte ≤ s.cursorByte) :
    encodeItems item eop (f + 1) (x :: y :: rest) s true = .error (.encode, s1) := by
  simp only [encodeItems, bind, run_bind, run_getS, h]
  rw [if_pos hst]
  rfl

end OdxVerif.Codec

namespace OdxVerif.Codec
open OdxVerif.Bits OdxVerif.OdxM

/-- **strict mode: an accepted item list occupies at least one byte per item** — the byte cursor behind the loop lies at
    least `xs.length` bytes behind the cursor in front of it (for every item description, every fuel, every state) -/
theorem encodeItems_advances (item : Dop) (eop : Bool) : ∀ (xs : List PVal) (fuel : Nat) (s s' : EncState),
    encodeItems item eop fuel xs s true = .ok ((), s') → s.cursorByte + xs.length ≤ s'.cursorByte
  | _, 0, s, s', h => by simp [encodeItems, run_raise] at h
  | [], f+1, s, s', h => by
    simp only [encodeItems, pure, run_pure, Except.ok.injEq, Prod.mk.injEq, true_and] at h
    subst h
    simp
  | [x], f+1, s, s', h => by
    cases h1 : encodeDop f item x { s with isEndOfPdu := eop } true with
    | error e => rw [encodeItems_one_err _ _ _ _ _ _ _ h1] at h; cases h
    | ok r =>
      obtain ⟨⟨⟩, s1⟩ := r
      by_cases hadv : s.cursorByte < s1.cursorByte
      · rw [encodeItems_one_ok _ _ _ _ _ _ _ h1 hadv] at h
        cases h
        simp only [List.length_cons, List.length_nil]
        omega
      · rw [encodeItems_one_stuck _ _ _ _ _ _ h1 (by omega)] at h; cases h
  | x :: y :: rest, f+1, s, s', h => by
    cases h1 : encodeDop f item x s true with
    | error e => rw [encodeItems_cons_err _ _ _ _ _ _ _ _ _ h1] at h; cases h
    | ok r =>
      obtain ⟨⟨⟩, s1⟩ := r
      by_cases hadv : s.cursorByte < s1.cursorByte
      · rw [encodeItems_cons_ok _ _ _ _ _ _ _ _ _ h1 hadv] at h
        have := encodeItems_advances item eop (y :: rest) f s1 s' h
        simp only [List.length_cons] at this ⊢
        omega
      · rw [encodeItems_cons_stuck _ _ _ _ _ _ _ _ h1 (by omega)] at h; cases h

end OdxVerif.Codec
