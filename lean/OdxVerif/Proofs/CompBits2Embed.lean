import OdxVerif.Proofs.CompBits2Msg
/-! Bit-exactness for the round-6 constructors (task W17), part 5: the round-5 descriptions `Desc` embedded in `Desc2`
    (`Desc.to2`): same component (`Desc.to2_mc`), same layout up to the renaming of the roles (`Desc.to2_lay`), well-formedness
    is preserved (`Desc.to2_wf`, `Descs.to2_ok`).  Hence the `…_nested2` theorems cover every instance of the `…_nested` ones. -/
namespace OdxVerif.Codec
open OdxVerif.Bits OdxVerif.OdxM

mutual
theorem Desc.to2_mc : (d : Desc) → d.to2.mc = ⟨d.comp, false⟩
  | .value _ _ => rfl
  | .valueDefault _ _ _ => rfl
  | .const _ _ _ => rfl
  | .physConst _ _ _ => rfl
  | .struct name bp kids => by
    show (⟨Comp.ofValue name bp (DComp.structO none (MComps.cs (Descs2.mcs (Descs.to2 kids)))),
      MComps.lastMid (Descs2.mcs (Descs.to2 kids))⟩ : MComp) = _
    rw [Descs.to2_mcs kids, MComps.cs_ofComps, show MComps.lastMid (MComps.ofComps (Descs.comps kids)) = false from
      MComps.midNotLast_ofComps _]
    rfl
  | .staticField name bp n shape items => by
    show (⟨Comp.ofValue name bp (DComp.staticField n (.struct none shape) (itemsO none (Descss2.mcss (Descss.to2 items)))), false⟩ : MComp) = _
    rw [Descss.to2_mcss items, itemsO_ofComps]
    rfl
  | .dynLenField name bp l shape items => by
    show (⟨Comp.ofValue name bp (DComp.dynLenField l (.struct none shape) (itemsO none (Descss2.mcss (Descss.to2 items)))),
      itemsLastMid (Descss2.mcss (Descss.to2 items))⟩ : MComp) = _
    rw [Descss.to2_mcss items, itemsO_ofComps, itemsLastMid_false _ (lastMid_map_ofComps _)]
    rfl
  | .eopField name bp mn mx shape items => by
    show (⟨Comp.ofValue name bp (DComp.eopField mn mx (.struct none shape) (itemsO none (Descss2.mcss (Descss.to2 items)))), false⟩ : MComp) = _
    rw [Descss.to2_mcss items, itemsO_ofComps]
    rfl
  | .mux name bp m kids => by
    show (⟨Comp.ofValue name bp (DComp.mux m (DComp.struct (MComps.cs (Descs2.mcs (Descs.to2 kids))))),
      MComps.lastMid (Descs2.mcs (Descs.to2 kids))⟩ : MComp) = _
    rw [Descs.to2_mcs kids, MComps.cs_ofComps, show MComps.lastMid (MComps.ofComps (Descs.comps kids)) = false from
      MComps.midNotLast_ofComps _]
    rfl
theorem Descs.to2_mcs : (ds : List Desc) → Descs2.mcs (Descs.to2 ds) = MComps.ofComps (Descs.comps ds)
  | [] => rfl
  | d :: ds => by
    show d.to2.mc :: Descs2.mcs (Descs.to2 ds) = _
    rw [Desc.to2_mc d, Descs.to2_mcs ds]
    rfl
theorem Descss.to2_mcss : (items : List (List Desc)) → Descss2.mcss (Descss.to2 items) = (Descss.comps items).map MComps.ofComps
  | [] => rfl
  | k :: ks => by
    show Descs2.mcs (Descs.to2 k) :: Descss2.mcss (Descss.to2 ks) = _
    rw [Descs.to2_mcs k, Descss.to2_mcss ks]
    rfl
end

theorem Descs.to2_comps (ds : List Desc) : Descs2.comps (Descs.to2 ds) = Descs.comps ds := by
  unfold Descs2.comps
  rw [Descs.to2_mcs, MComps.cs_ofComps]

/-! ### the layouts agree -/

theorem Descss.to2_length : (items : List (List Desc)) → (Descss.to2 items).length = items.length
  | [] => rfl
  | _ :: ks => by simp only [Descss.to2, List.length_cons, Descss.to2_length ks]

theorem Descss.to2_isEmpty (items : List (List Desc)) : (Descss.to2 items).isEmpty = items.isEmpty := by
  cases items <;> rfl

/-- a layout over `Ent` as a layout over `Ent2` -/
def Lay.to2 (l : Lay) : Lay2 := { ents := fun org c => (l.ents org c).map Ent.to2, cur := l.cur, ext := l.ext }

theorem Lay.to2_seq (a b : Lay) : (a.seq b).to2 = a.to2.seq b.to2 := by
  simp only [Lay.to2, Lay.seq, Lay2.seq, List.map_append]
theorem Lay.to2_inOrigin (l : Lay) : l.inOrigin.to2 = l.to2.inOrigin := rfl
theorem Lay.to2_atPos (bp : Option Nat) (l : Lay) : (l.atPos bp).to2 = l.to2.atPos bp := rfl
theorem Lay.to2_nil : Lay.nil.to2 = Lay2.nil := rfl
theorem Lay.to2_obj (role : Role) (o : Obj) (raw : Nat) : (Lay.obj role o raw).to2 = Lay2.obj (Role2.ofRole role) o.name o raw := rfl
theorem Lay.to2_touch : Lay.touch.to2 = Lay2.touch := rfl
theorem Lay.to2_padTo (n : Nat) : (Lay.padTo n).to2 = Lay2.padTo n := by
  simp only [Lay.to2, Lay.padTo, Lay2.padTo, Lay2.mk.injEq, and_true]
  funext org c
  split <;> rfl

mutual
theorem Desc.to2_lay : (d : Desc) → d.to2.lay = d.lay.to2
  | .value _ _ => rfl
  | .valueDefault o dv sup => by cases sup <;> rfl
  | .const _ _ _ => rfl
  | .physConst _ _ _ => rfl
  | .struct _ bp kids => by
    show ((Descs2.lay (Descs.to2 kids)).inOrigin).atPos bp = _
    rw [Descs.to2_lay kids]; rfl
  | .staticField _ bp n _ items => by
    show ((Descss2.layStatic n none (Descss.to2 items)).inOrigin).atPos bp = _
    rw [Descss.to2_layStatic n items]; rfl
  | .dynLenField _ bp l _ items => by
    show (((Lay2.obj .count l.cntObj.name l.cntObj (l.cntObj.specRepr (.int (Descss.to2 items).length))).seq
        ((Lay2.dynBody (Descss.to2 items).isEmpty (Descss2.layDyn none (Descss.to2 items))).atPos (some l.offset))).inOrigin).atPos bp = _
    rw [Descss.to2_layDyn items, Descss.to2_length items, Descss.to2_isEmpty items]
    cases items with
    | nil => simp only [Desc.lay, Lay.to2_atPos, Lay.to2_inOrigin, Lay.to2_seq, Lay.to2_obj]; rfl
    | cons k ks => simp only [Desc.lay, Lay.to2_atPos, Lay.to2_inOrigin, Lay.to2_seq, Lay.to2_obj]; rfl
  | .eopField _ bp _ _ _ items => by
    show ((Descss2.layDyn none (Descss.to2 items)).inOrigin).atPos bp = _
    rw [Descss.to2_layDyn items]; rfl
  | .mux _ bp m kids => by
    show (((Lay2.obj .switchKey m.keyObj.name m.keyObj (m.keyObj.specRepr (.int m.lo))).seq
        (((Descs2.lay (Descs.to2 kids)).inOrigin).atPos (some m.muxBp))).inOrigin).atPos bp = _
    rw [Descs.to2_lay kids]
    simp only [Desc.lay, Lay.to2_atPos, Lay.to2_inOrigin, Lay.to2_seq, Lay.to2_obj]; rfl
theorem Descs.to2_lay : (ds : List Desc) → Descs2.lay (Descs.to2 ds) = (Descs.lay ds).to2
  | [] => rfl
  | d :: ds => by
    show d.to2.lay.seq (Descs2.lay (Descs.to2 ds)) = _
    rw [Desc.to2_lay d, Descs.to2_lay ds]
    simp only [Descs.lay, Lay.to2_seq]
theorem Descss.to2_layStatic (n : Nat) : (items : List (List Desc)) →
    Descss2.layStatic n none (Descss.to2 items) = (Descss.layStatic n items).to2
  | [] => rfl
  | k :: ks => by
    show ((((Descs2.lay (Descs.to2 k)).inOrigin).seq (Lay2.padTo n)).inOrigin).seq (Descss2.layStatic n none (Descss.to2 ks)) = _
    rw [Descs.to2_lay k, Descss.to2_layStatic n ks]
    simp only [Descss.layStatic, Lay.to2_seq, Lay.to2_inOrigin, Lay.to2_padTo]
theorem Descss.to2_layDyn : (items : List (List Desc)) → Descss2.layDyn none (Descss.to2 items) = (Descss.layDyn items).to2
  | [] => rfl
  | k :: ks => by
    show ((Descs2.lay (Descs.to2 k)).inOrigin).seq (Descss2.layDyn none (Descss.to2 ks)) = _
    rw [Descs.to2_lay k, Descss.to2_layDyn ks]
    simp only [Descss.layDyn, Lay.to2_seq, Lay.to2_inOrigin]
end

/-- **the layout of an embedded description is the old layout**, roles renamed (`padding` ↦ `itemPadding`) -/
theorem Descs.to2_layout (ds : List Desc) : Descs2.layout (Descs.to2 ds) = (Descs.layout ds).map Ent.to2 := by
  unfold Descs2.layout
  rw [Descs.to2_lay]
  rfl

theorem Descs.to2_extent (ds : List Desc) : Descs2.extent (Descs.to2 ds) = Descs.extent ds := by
  unfold Descs2.extent
  rw [Descs.to2_lay]
  rfl

/-- no BYTE-SIZE padding in an embedded description -/
theorem Descs.to2_padOk (ds : List Desc) : Descs2.padOk (Descs.to2 ds) := by
  apply PadOk_of_noSilent
  intro e he
  rw [Descs.to2_layout] at he
  obtain ⟨x, _, rfl⟩ := List.mem_map.mp he
  show Role2.ofRole x.role ≠ .sizePadding
  cases x.role <;> simp [Role2.ofRole]

/-! ### well-formedness is preserved -/

mutual
theorem Desc.to2_wf : (d : Desc) → d.wf → d.to2.wf
  | .value _ _, h => by simp only [Desc.wf] at h; simp only [Desc.to2, Desc2.wf]; exact h
  | .valueDefault _ _ _, h => by simp only [Desc.wf] at h; simp only [Desc.to2, Desc2.wf]; exact h
  | .const _ _ _, h => by simp only [Desc.wf] at h; simp only [Desc.to2, Desc2.wf]; exact h
  | .physConst _ _ _, h => by simp only [Desc.wf] at h; simp only [Desc.to2, Desc2.wf]; exact h
  | .struct _ _ kids, h => by
    simp only [Desc.wf] at h
    simp only [Desc.to2, Desc2.wf]
    rw [Descs.to2_comps]
    exact ⟨Descs.to2_wfs kids h.1, h.2.1, h.2.2, fun _ hb => nomatch hb⟩
  | .staticField _ _ n shape items, h => by
    simp only [Desc.wf] at h
    simp only [Desc.to2, Desc2.wf]
    rw [Descss.to2_mcss]
    refine ⟨Descss.to2_wfss items h.1, ?_⟩
    intro k hk
    obtain ⟨k0, hk0, rfl⟩ := List.mem_map.mp hk
    exact ⟨(itemSide2_ofComps shape k0 (h.2 k0 hk0).1).toS, by rw [structO_size_ofComps]; exact (h.2 k0 hk0).2⟩
  | .dynLenField _ _ l shape items, h => by
    simp only [Desc.wf] at h
    simp only [Desc.to2, Desc2.wf]
    rw [Descss.to2_mcss, Descss.to2_length]
    refine ⟨Descss.to2_wfss items h.1, ?_, h.2.2⟩
    intro k hk
    obtain ⟨k0, hk0, rfl⟩ := List.mem_map.mp hk
    exact ⟨(itemSide2_ofComps shape k0 (h.2.1 k0 hk0).1).toS, by rw [structO_size_ofComps]; exact (h.2.1 k0 hk0).2⟩
  | .eopField _ _ _ _ shape items, h => by
    simp only [Desc.wf] at h
    simp only [Desc.to2, Desc2.wf]
    rw [Descss.to2_mcss]
    refine ⟨Descss.to2_wfss items h.1, ?_, lastMid_map_ofComps _⟩
    intro k hk
    obtain ⟨k0, hk0, rfl⟩ := List.mem_map.mp hk
    exact ⟨(itemSide2_ofComps shape k0 (h.2 k0 hk0).1).toS, by rw [structO_size_ofComps]; exact (h.2 k0 hk0).2⟩
  | .mux _ _ m kids, h => by
    simp only [Desc.wf] at h
    simp only [Desc.to2, Desc2.wf]
    rw [Descs.to2_comps]
    exact ⟨Descs.to2_wfs kids h.1, h.2.1, h.2.2.1, h.2.2.2⟩
theorem Descs.to2_wfs : (ds : List Desc) → Descs.wf ds → Descs2.wf (Descs.to2 ds)
  | [], _ => trivial
  | d :: ds, h => by
    simp only [Descs.wf] at h
    exact ⟨Desc.to2_wf d h.1, Descs.to2_wfs ds h.2⟩
theorem Descss.to2_wfss : (items : List (List Desc)) → Descss.wf items → Descss2.wf (Descss.to2 items)
  | [], _ => trivial
  | k :: ks, h => by
    simp only [Descss.wf] at h
    exact ⟨Descs.to2_wfs k h.1, Descss.to2_wfss ks h.2⟩
end

theorem Desc2.wfTop_of_wf (trig : Option Bytes) (d : Desc2) (h : d.wf) : d.wfTop trig := by
  cases d
  case matching => simp only [Desc2.wf] at h
  all_goals exact h

theorem Descs2.wfTop_of_wf (trig : Option Bytes) : (ds : List Desc2) → Descs2.wf ds → Descs2.wfTop trig ds
  | [], _ => trivial
  | d :: ds, h => by
    simp only [Descs2.wf] at h
    exact ⟨Desc2.wfTop_of_wf trig d h.1, Descs2.wfTop_of_wf trig ds h.2⟩

/-- **a well-formed round-5 request / response is a well-formed `Desc2` request / response** (for any triggering request) -/
theorem Descs.to2_ok (trig : Option Bytes) (ds : List Desc) (h : Descs.ok ds) : Descs2.ok trig (Descs.to2 ds) := by
  obtain ⟨hwf, hn, hlast, hneed⟩ := h
  refine ⟨Descs2.wfTop_of_wf trig _ (Descs.to2_wfs ds hwf), ?_, ?_, ?_, ?_⟩
  · rw [Descs.to2_comps]; exact hn
  · rw [Descs.to2_comps]; exact hlast
  · rw [Descs.to2_mcs]; exact MComps.midNotLast_ofComps _
  · rw [Descs.to2_comps]; exact hneed

theorem Descs.to2_params (ds : List Desc) : Descs2.params (Descs.to2 ds) = Descs.params ds := by
  unfold Descs2.params Descs.params; rw [Descs.to2_comps]
theorem Descs.to2_supplied (ds : List Desc) : Descs2.supplied (Descs.to2 ds) = Descs.supplied ds := by
  unfold Descs2.supplied Descs.supplied; rw [Descs.to2_comps]

end OdxVerif.Codec
