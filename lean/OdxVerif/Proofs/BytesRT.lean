import OdxVerif.Proofs.Bits
/-! `n.to_bytes(len(b))` of `int.from_bytes(b)` is `b` again (byte fields as objects of the proved tiers). -/
namespace OdxVerif.Bits

theorem toBytesBE_ofBytesBE (b : Bytes) (h : AllBytes b) : toBytesBE b.length (ofBytesBE b) = b := by
  apply List.ext_getElem (by rw [toBytesBE_length])
  intro i h1 h2
  have hi : i < b.length := h2
  have e1 : (toBytesBE b.length (ofBytesBE b))[i] = (toBytesBE b.length (ofBytesBE b)).getD i 0 := by
    rw [List.getD_eq_getElem?_getD, List.getElem?_eq_getElem h1]; rfl
  rw [e1, getD_toBytesBE, if_pos hi]
  apply Nat.eq_of_testBit_eq
  intro j
  by_cases hj : j < 8
  · rw [testBit_byte_of _ _ _ hj, testBit_ofBytesBE _ h]
    have ht : 8 * (b.length - 1 - i) + j < 8 * b.length := by omega
    have hq : (8 * (b.length - 1 - i) + j) / 8 = b.length - 1 - i := by omega
    have hr : (8 * (b.length - 1 - i) + j) % 8 = j := by omega
    have hidx : b.length - 1 - (b.length - 1 - i) = i := by omega
    simp only [ht, decide_true, Bool.true_and, hq, hr, hidx]
    rw [List.getD_eq_getElem?_getD, List.getElem?_eq_getElem h2]; rfl
  · have l1 : ofBytesBE b / 256 ^ (b.length - 1 - i) % 256 < 2 ^ j :=
      Nat.lt_of_lt_of_le (Nat.mod_lt _ (by decide))
        (by rw [show (256:Nat) = 2 ^ 8 from rfl]; exact Nat.pow_le_pow_right (by decide) (by omega))
    have l2 : b[i] < 2 ^ j := Nat.lt_of_lt_of_le (h _ (List.getElem_mem h2))
      (by rw [show (256:Nat) = 2 ^ 8 from rfl]; exact Nat.pow_le_pow_right (by decide) (by omega))
    rw [Nat.testBit_lt_two_pow l1, Nat.testBit_lt_two_pow l2]

end OdxVerif.Bits
