import OdxVerif.Model.Pdx
/-! # Read/write schema lemma (C11, part B): what `from_et` reads back is the object restricted to the slots it
    reads, provided every slot read is also written -/
namespace OdxVerif.Pdx

variable {V : Type}

/-- the written document holds exactly the object's content at the written slots -/
theorem lookup_write (W : List Slot) (e : Elem V) (s : Slot) :
    (write W e).lookup s = if s ∈ W then e.lookup s else none := by
  induction W with
  | nil => simp [write]
  | cons w W ih =>
    unfold write at ih ⊢
    rw [List.filterMap_cons]
    by_cases hsw : s = w
    · subst hsw
      cases he : e.lookup s with
      | none => simp [ih, he]
      | some v => simp
    · have hb : (s == w) = false := by simpa using hsw
      cases he : e.lookup w with
      | none => simp [ih, hsw]
      | some v => simp [List.lookup_cons, hb, ih, hsw]

theorem schema_general (R W : List Slot) (e : Elem V) :
    ∀ s, read R (write W e) s = if s ∈ W then restrict R e s else none := by
  intro s
  simp only [read, restrict, lookup_write]
  split <;> simp

/-- sufficiency: every slot read is written ⇒ reading the written document yields the object (on the read slots) -/
theorem schema_generic (R W : List Slot) (e : Elem V) (h : ∀ s ∈ R, s ∈ W) :
    read R (write W e) = restrict R e := by
  funext s
  rw [schema_general]
  by_cases hW : s ∈ W
  · simp [hW]
  · have : s ∉ R := fun hR => hW (h s hR)
    simp [hW, restrict, this]

/-- necessity: a slot that is read but never written is lost -/
theorem schema_loss (R W : List Slot) (e : Elem V) (s : Slot) (v : V) :
    s ∈ R → s ∉ W → e.lookup s = some v → read R (write W e) s ≠ restrict R e s := by
  intro hR hW he
  rw [schema_general]
  simp [hW, restrict, hR, he]

/-- with an allow-list `A` of slots knowingly read but not written: equality outside `A` -/
theorem schema_allow (R W A : List Slot) (e : Elem V) (h : ∀ s ∈ R, s ∈ W ∨ s ∈ A) :
    ∀ s, s ∉ A → read R (write W e) s = restrict R e s := by
  intro s hA
  rw [schema_general]
  by_cases hW : s ∈ W
  · simp [hW]
  · have : s ∉ R := fun hR => (h s hR).elim hW hA
    simp [hW, restrict, this]

theorem subsetB_iff {xs ys : List String} : subsetB xs ys = true ↔ ∀ x ∈ xs, x ∈ ys := by
  simp [subsetB]

theorem ClassSchema.ok_spec {allow : List Allow} {c : ClassSchema} (h : c.ok allow = true) :
    ∀ s ∈ c.reads, s ∈ c.writes ∨ allowed allow c s = true := by
  simpa [ClassSchema.ok] using h

theorem tableOk_spec {allow : List Allow} {t : List ClassSchema} :
    tableOk allow t = true → ∀ c ∈ t, ∀ s ∈ c.reads, s ∈ c.writes ∨ allowed allow c s = true := by
  intro h c hc
  exact ClassSchema.ok_spec ((List.all_eq_true.mp h) c hc)

/-- the generated table checked by `tableOk` ⇒ every class round-trips every slot outside the allow-list -/
theorem table_roundtrip {allow : List Allow} {t : List ClassSchema} :
    tableOk allow t = true → ∀ c ∈ t, ∀ (e : Elem V) s, allowed allow c s = false →
      read c.reads (write c.writes e) s = restrict c.reads e s := by
  intro h c hc e s hA
  rw [schema_general]
  by_cases hW : s ∈ c.writes
  · simp [hW]
  · have : s ∉ c.reads := fun hR => (tableOk_spec h c hc s hR).elim hW (by simp [hA])
    simp [hW, restrict, this]

/-- an excused slot that the object has is really lost (the allow-list hides nothing harmless by accident) -/
theorem table_gap_is_loss {t : List ClassSchema} {c : ClassSchema} (_hc : c ∈ t) (e : Elem V) (s : String) (v : V)
    (hr : s ∈ c.reads) (hw : s ∉ c.writes) (he : e.lookup s = some v) :
    read c.reads (write c.writes e) s ≠ restrict c.reads e s :=
  schema_loss c.reads c.writes e s v hr hw he

/-- non-vacuity of the checker -/
example : tableOk [⟨"A", "*", "@OID"⟩] [⟨"A", "T", ["@ID", "SHORT-NAME", "@OID"], ["SHORT-NAME", "@ID", "DESC"]⟩] = true := by
  decide
example : tableOk [⟨"*", "U", "@OID"⟩] [⟨"A", "T", ["@ID", "SHORT-NAME", "@OID"], ["SHORT-NAME", "@ID", "DESC"]⟩] = false := by
  decide
example : gaps [⟨"A", "T", ["@ID", "SHORT-NAME", "@OID"], ["SHORT-NAME", "@ID", "DESC"]⟩] = [("A", "T", "@OID")] := by
  decide

end OdxVerif.Pdx
