import OdxVerif.Proofs.SimCodec
/-! C17 (task W19): the one `try … except DecodeError` inside the decoder — the probe for the termination value of a
    DYNAMIC-ENDMARKER-FIELD (`decodeUntilMarker`).  `sim_tryCatch` needs: every error the handler catches (`DecodeError`,
    `DecodeMismatch`) that the probe raises in strict mode is raised in lenient mode as well — i.e. it is a hard `raise`, not an
    `odxraise`.  `Hard m`: strict success ⇒ identical lenient result (`Sim`), and strict decode error ⇒ identical lenient error.
    This file: the combinators for `Hard`, and `Hard` for every standard-length object that is not a string behind an
    IDENTICAL compu method (`Dop.probeSafe`): the probe can only fail by running out of bytes / an object that is no multiple
    of 8 bits / an integer wider than 64 bits / a condensed mask that does not fit — all hard `raise`s.  Core Lean only. -/
namespace OdxVerif.OdxM
variable {σ α β : Type}

/-- the error classes the end-marker probe catches -/
def Caught (e : Err) : Prop := e = .decode ∨ e = .mismatch

/-- strict success ⇒ identical lenient result; strict `DecodeError`/`DecodeMismatch` ⇒ identical lenient error -/
def Hard (m : OdxM σ α) : Prop :=
  ∀ s, (∀ r, m s true = .ok r → m s false = .ok r) ∧ (∀ e s', m s true = .error (e, s') → Caught e → m s false = .error (e, s'))

theorem Hard.sim {m : OdxM σ α} (h : Hard m) : Sim m := by unfold Sim; exact fun s r hr => (h s).1 r hr
theorem Hard.same {m : OdxM σ α} (h : Hard m) (s : σ) (e : Err) (s' : σ) (hr : m s true = .error (e, s')) (hc : Caught e) :
    m s false = .error (e, s') := (h s).2 e s' hr hc

theorem hard_pure (a : α) : Hard (Pure.pure a : OdxM σ α) := fun _ => ⟨fun _ h => h, fun _ _ h _ => by cases h⟩
theorem hard_pure' (a : α) : Hard (OdxM.pure a : OdxM σ α) := fun _ => ⟨fun _ h => h, fun _ _ h _ => by cases h⟩
theorem hard_raise (e : Err) : Hard (raise e : OdxM σ α) := fun _ => ⟨(fun _ h => by cases h), fun _ _ h _ => h⟩
theorem hard_getS : Hard (getS : OdxM σ σ) := fun _ => ⟨fun _ h => h, fun _ _ h _ => by cases h⟩
theorem hard_modifyS (f : σ → σ) : Hard (modifyS f : OdxM σ Unit) := fun _ => ⟨fun _ h => h, fun _ _ h _ => by cases h⟩
/-- `odxraise` of a class the handler does not catch (`OdxError`: an ill-formed description) -/
theorem hard_odxraise_odx : Hard (odxraise .odx : OdxM σ Unit) := by
  intro s
  refine ⟨(fun r h => by cases h), fun e s' h hc => ?_⟩
  have : e = .odx := by
    have h' : (Except.error (Err.odx, s) : Except (Err × σ) (Unit × σ)) = .error (e, s') := h
    injection h' with h'; injection h' with h1 _; exact h1.symm
  subst this
  rcases hc with hc | hc <;> cases hc
theorem hard_odxassert (c : Bool) : Hard (odxassert c : OdxM σ Unit) := by
  unfold odxassert; split
  · exact hard_pure' ()
  · exact hard_odxraise_odx
theorem hard_bind' (m : OdxM σ α) (f : α → OdxM σ β) (hm : Hard m) (hf : ∀ a, Hard (f a)) : Hard (OdxM.bind m f) := by
  intro s
  unfold OdxM.bind
  cases hms : m s true with
  | error x =>
    obtain ⟨e0, s0⟩ := x
    refine ⟨(fun r h => by cases h), fun e s' h hc => ?_⟩
    simp only [Except.error.injEq, Prod.mk.injEq] at h
    obtain ⟨rfl, rfl⟩ := h
    rw [(hm s).2 e0 s0 hms hc]
  | ok p =>
    obtain ⟨a, s1⟩ := p
    rw [(hm s).1 _ hms]
    exact hf a s1
theorem hard_bind (m : OdxM σ α) (f : α → OdxM σ β) (hm : Hard m) (hf : ∀ a, Hard (f a)) : Hard (m >>= f) :=
  hard_bind' m f hm hf
theorem hard_ite (c : Prop) [Decidable c] (a b : OdxM σ α) (ha : Hard a) (hb : Hard b) : Hard (if c then a else b) := by
  split <;> assumption

end OdxVerif.OdxM

namespace OdxVerif.Codec
open OdxVerif.OdxM OdxVerif.Bits

macro "hard_step" : tactic =>
  `(tactic| first
    | exact hard_pure _ | exact hard_pure' _ | exact hard_raise _ | exact hard_getS | exact hard_modifyS _
    | exact hard_odxraise_odx | exact hard_odxassert _
    | assumption
    | apply hard_bind | apply hard_bind' | apply hard_ite
    | intro _)

def BaseType.isText : BaseType → Bool
  | .ascii | .utf8 | .unicode2 => true
  | _ => false

theorem hard_convertRaw (bt : BaseType) (hbt : bt.isText = false) (enc : Option Enc) (hl : Bool) (bl raw : Nat) :
    Hard (convertRaw bt enc hl bl raw) := by
  unfold convertRaw
  cases bt <;> simp only [BaseType.isText, Bool.true_eq_false] at hbt <;> simp only [] <;> repeat (first | split | hard_step)

theorem hard_extractCore (bl : Nat) (bt : BaseType) (hbt : bt.isText = false) (enc : Option Enc) (hl : Bool) :
    Hard (extractCore bl bt enc hl) := by
  unfold extractCore
  apply hard_bind
  · exact hard_getS
  · intro s
    dsimp only
    repeat (first | exact hard_convertRaw _ hbt _ _ _ _ | split | hard_step)

theorem hard_extractAtomic (bl : Nat) (bt : BaseType) (hbt : bt.isText = false) (enc : Option Enc) (hl : Bool) :
    Hard (extractAtomic bl bt enc hl) := by
  unfold extractAtomic
  repeat (first | exact hard_extractCore _ _ hbt _ _ | split | hard_step)

theorem hard_unapplyMask {σ : Type} (m : Nat) (c : Bool) (v : IVal) : Hard (unapplyMask m c v : OdxM σ IVal) := by
  unfold unapplyMask
  cases v <;> simp only [] <;> repeat (first | split | hard_step)

/-- a termination DOP whose probe can only fail hard: a standard-length object that is not a string (integer, float, byte
    field; with or without bit mask), IDENTICAL compu method -/
def Dop.probeSafe : Dop → Bool
  | .simple (.std bt _ _ _ _ _) _ .identical => !bt.isText
  | _ => false

theorem hard_probe (fuel : Nat) (td : Dop) (h : td.probeSafe = true) : Hard (decodeDop fuel td) := by
  cases fuel with
  | zero => unfold decodeDop; exact hard_raise _
  | succ f =>
    cases td with
    | simple dct phys cm =>
      cases dct with
      | std bt enc hl bl mask c =>
        cases cm <;> simp only [Dop.probeSafe, Bool.false_eq_true] at h
        have hbt : bt.isText = false := by simpa using h
        unfold decodeDop decodeDct
        cases mask <;> simp only [] <;>
          repeat (first | exact hard_extractAtomic _ _ hbt _ _ | exact hard_unapplyMask _ _ _ | split | hard_step)
      | _ => simp [Dop.probeSafe] at h
    | _ => simp [Dop.probeSafe] at h

end OdxVerif.Codec
