import OdxVerif.Model.Bits
/-! Bit-level characterisation of the byte/number conversions. Core Lean only. -/
namespace OdxVerif.Bits

def AllBytes (bs : Bytes) : Prop := ∀ b ∈ bs, b < 256

theorem pow256 (k : Nat) : 256 ^ k = 2 ^ (8 * k) := by
  rw [show (256:Nat) = 2 ^ 8 from rfl, ← Nat.pow_mul]

theorem toBytesBE_length (k n : Nat) : (toBytesBE k n).length = k := by
  induction k with
  | zero => rfl
  | succ k ih => simp [toBytesBE, ih]

theorem toBytesBE_allBytes (k n : Nat) : AllBytes (toBytesBE k n) := by
  induction k with
  | zero => intro b hb; simp [toBytesBE] at hb
  | succ k ih =>
    intro b hb
    simp only [toBytesBE, List.mem_cons] at hb
    rcases hb with rfl | hb
    · exact Nat.mod_lt _ (by decide)
    · exact ih b hb

theorem ofBytesBE_lt (bs : Bytes) (h : AllBytes bs) : ofBytesBE bs < 256 ^ bs.length := by
  induction bs with
  | nil => simp [ofBytesBE]
  | cons b bs ih =>
    have hb : b < 256 := h b (List.mem_cons_self ..)
    have := ih (fun x hx => h x (List.mem_cons_of_mem _ hx))
    simp only [ofBytesBE, List.length_cons, Nat.pow_succ]
    have : b * 256 ^ bs.length ≤ 255 * 256 ^ bs.length := Nat.mul_le_mul_right _ (by omega)
    omega

/-- bit `t` of a big-endian byte string read as a number -/
theorem testBit_ofBytesBE (bs : Bytes) (h : AllBytes bs) (t : Nat) :
    (ofBytesBE bs).testBit t =
      (decide (t < 8 * bs.length) && (bs.getD (bs.length - 1 - t / 8) 0).testBit (t % 8)) := by
  induction bs with
  | nil => simp [ofBytesBE]
  | cons b bs ih =>
    have hb : b < 256 := h b (List.mem_cons_self ..)
    have hrest := ofBytesBE_lt bs (fun x hx => h x (List.mem_cons_of_mem _ hx))
    have ih' := ih (fun x hx => h x (List.mem_cons_of_mem _ hx))
    rw [pow256] at hrest
    simp only [ofBytesBE, List.length_cons]
    rw [pow256, Nat.mul_comm b, Nat.testBit_two_pow_mul_add b hrest]
    by_cases ht : t < 8 * bs.length
    · rw [if_pos ht, ih']
      have h1 : t < 8 * (bs.length + 1) := by omega
      have h2 : bs.length - t / 8 = (bs.length - 1 - t / 8) + 1 := by
        have : t / 8 < bs.length := by omega
        omega
      simp [ht, h1, h2, List.getD_eq_getElem?_getD]
    · rw [if_neg ht]
      by_cases ht2 : t < 8 * (bs.length + 1)
      · have h2 : bs.length - t / 8 = 0 := by
          have : t / 8 = bs.length := by omega
          omega
        have h3 : t - 8 * bs.length = t % 8 := by omega
        simp [ht2, h2, h3, List.getD_eq_getElem?_getD]
      · have : b < 2 ^ (t - 8 * bs.length) :=
          Nat.lt_of_lt_of_le hb (by
            rw [show (256:Nat) = 2 ^ 8 from rfl]
            exact Nat.pow_le_pow_right (by decide) (by omega))
        simp [ht2, Nat.testBit_lt_two_pow this]

theorem getD_toBytesBE (k n i : Nat) :
    (toBytesBE k n).getD i 0 = if i < k then n / 256 ^ (k - 1 - i) % 256 else 0 := by
  induction k generalizing i with
  | zero => simp [toBytesBE]
  | succ k ih =>
    cases i with
    | zero => simp [toBytesBE]
    | succ i =>
      simp only [toBytesBE, List.getD_cons_succ, ih]
      by_cases hi : i < k
      · have : k - (i + 1) = k - 1 - i := by omega
        simp [hi, this]
      · simp [hi]

theorem testBit_byte_of (n m j : Nat) (hj : j < 8) :
    (n / 256 ^ m % 256).testBit j = n.testBit (8 * m + j) := by
  rw [pow256, show (256:Nat) = 2 ^ 8 from rfl, Nat.testBit_mod_two_pow, Nat.testBit_div_two_pow]
  simp [hj, Nat.add_comm]

/-- `int.from_bytes(n.to_bytes(k))` -/
theorem ofBytesBE_toBytesBE (k n : Nat) : ofBytesBE (toBytesBE k n) = n % 256 ^ k := by
  apply Nat.eq_of_testBit_eq
  intro t
  have hr : (n % 256 ^ k).testBit t = (decide (t < 8 * k) && n.testBit t) := by
    rw [pow256, Nat.testBit_mod_two_pow]
  rw [hr, testBit_ofBytesBE _ (toBytesBE_allBytes k n), toBytesBE_length, getD_toBytesBE]
  by_cases ht : t < 8 * k
  · have h1 : k - 1 - t / 8 < k := by omega
    have h2 : k - 1 - (k - 1 - t / 8) = t / 8 := by omega
    rw [if_pos h1, h2, testBit_byte_of _ _ _ (Nat.mod_lt _ (by decide))]
    have : 8 * (t / 8) + t % 8 = t := by omega
    simp [ht, this]
  · simp [ht]

theorem ofBytesBE_toBytesBE_of_lt (k n : Nat) (h : n < 256 ^ k) : ofBytesBE (toBytesBE k n) = n := by
  rw [ofBytesBE_toBytesBE, Nat.mod_eq_of_lt h]

/-! ### absolute bit addressing of a message -/

/-- bit `a % 8` (LSB = 0) of byte `a / 8` -/
def getBit (msg : Bytes) (a : Nat) : Bool := (msg.getD (a / 8) 0).testBit (a % 8)

/-- where bit `t` of a `k`-byte number stored at byte `pos` lives (ODX: high-low = most significant
    byte first; low-high = least significant byte first) -/
def absBit (pos k : Nat) (hl : Bool) (t : Nat) : Nat :=
  8 * (pos + (if hl then k - 1 - t / 8 else t / 8)) + t % 8

theorem allBytes_take_drop (msg : Bytes) (h : AllBytes msg) (pos k : Nat) :
    AllBytes ((msg.drop pos).take k) :=
  fun b hb => h b (List.mem_of_mem_drop (List.mem_of_mem_take hb))

theorem allBytes_ord (hl : Bool) (bs : Bytes) (h : AllBytes bs) : AllBytes (ord hl bs) := by
  unfold ord; split
  · exact h
  · intro b hb; exact h b (List.mem_reverse.mp hb)

theorem ord_length (hl : Bool) (bs : Bytes) : (ord hl bs).length = bs.length := by
  unfold ord; split <;> simp

theorem getD_take_drop (msg : Bytes) (pos k i : Nat) (hi : i < k) (hlen : pos + k ≤ msg.length) :
    ((msg.drop pos).take k).getD i 0 = msg.getD (pos + i) 0 := by
  simp [List.getD_eq_getElem?_getD, List.getElem?_take, hi, List.getElem?_drop]

theorem getD_reverse (bs : Bytes) (i : Nat) (hi : i < bs.length) :
    bs.reverse.getD i 0 = bs.getD (bs.length - 1 - i) 0 := by
  simp [List.getD_eq_getElem?_getD, List.getElem?_reverse hi]

/-- bit `t` of the `k`-byte number at `pos` is the message bit at `absBit pos k hl t` -/
theorem testBit_readNum (msg : Bytes) (h : AllBytes msg) (pos k : Nat) (hl : Bool) (t : Nat)
    (hlen : pos + k ≤ msg.length) :
    (readNum msg pos k hl).testBit t = (decide (t < 8 * k) && getBit msg (absBit pos k hl t)) := by
  unfold readNum
  have hall := allBytes_ord hl _ (allBytes_take_drop msg h pos k)
  have hlen' : ((msg.drop pos).take k).length = k := by simp; omega
  rw [testBit_ofBytesBE _ hall, ord_length, hlen']
  by_cases ht : t < 8 * k
  · have hq : t / 8 < k := by omega
    have hidx : k - 1 - t / 8 < k := by omega
    simp only [ht, decide_true, Bool.true_and]
    unfold getBit absBit ord
    cases hl with
    | true =>
      simp only [if_true]
      rw [getD_take_drop msg pos k _ hidx hlen]
      have h1 : (8 * (pos + (k - 1 - t / 8)) + t % 8) / 8 = pos + (k - 1 - t / 8) := by omega
      have h2 : (8 * (pos + (k - 1 - t / 8)) + t % 8) % 8 = t % 8 := by omega
      rw [h1, h2]
    | false =>
      simp only [Bool.false_eq_true, if_false]
      rw [getD_reverse _ _ (by rw [hlen']; exact hidx), hlen']
      have h0 : k - 1 - (k - 1 - t / 8) = t / 8 := by omega
      rw [h0, getD_take_drop msg pos k _ hq hlen]
      have h1 : (8 * (pos + t / 8) + t % 8) / 8 = pos + t / 8 := by omega
      have h2 : (8 * (pos + t / 8) + t % 8) % 8 = t % 8 := by omega
      rw [h1, h2]
  · simp [ht]

end OdxVerif.Bits
