import OdxVerif.Proofs.CompReject2Described
/-! Compositional tier, rejection side, third part (task W30, C04): parameter descriptions whose components need
    `is_end_of_pdu` CLEARED (`mid`, the discipline of `Described2`: terminated MIN-MAX-LENGTH leaves).  `Comp.Fills` asks for
    `g.Ok` (a component from EVERY encoder state); a terminated leaf is a component only from states with the flag cleared
    (`Comp.OkM _ true`), which is what every parameter of a structure but the last one sees.  Here: `Comp.FillsM` / `PDesc.OkWM`
    (the flag-indexed versions), the list level (`Comps.FillM`, `MDescs.rejWM`) and the closure
    `DDesc.structM_okW : (DDesc.struct (MDescs.ps ms)).OkW` when no `mid` description is last — the result is an ordinary `OkW`
    description, so everything of `Proofs/CompReject2*.lean` (nesting, fields, multiplexers, the message level) applies on top. -/
namespace OdxVerif.Codec
open OdxVerif.Bits OdxVerif.OdxM

/-- `g` is the component of `p` for the supplied value `pv`, from encoder states with `is_end_of_pdu` cleared if `mid` -/
structure Comp.FillsM (g : Comp) (mid : Bool) (p : PDesc) (pv : Option PVal) : Prop where
  ok : ∀ P, g.OkM mid P
  endOk : g.EndOk
  param : g.param = p.param
  sup : g.sup = pv
  need : g.need ≤ p.need pv
  eop : g.eopOnly = true → p.mayEop = true
  adv : ∀ (org c : Nat), p.minAdv ≤ g.cur org c
  val : g.pair.val = p.complete pv

theorem Comp.Fills.toM {g : Comp} {p : PDesc} {pv : Option PVal} (h : g.Fills p pv) (mid : Bool) : g.FillsM mid p pv :=
  ⟨fun P => h.ok.toM mid P, h.endOk, h.param, h.sup, h.need, h.eop, h.adv, h.val⟩

structure PDesc.OkWM (p : PDesc) (mid : Bool) : Prop where
  notKey : p.param.kind.isKey = false
  acc : ∀ (pv : Option PVal) (g : Comp), pv ≠ some PVal.none → p.fill pv = some g → g.FillsM mid p pv
  rej : ∀ (pv : Option PVal), pv ≠ some PVal.none → wfOpt pv = true → p.fill pv = none → ∀ (fuel : Nat), p.need pv ≤ fuel →
    ∀ (s : EncState), (p.mayEop = true → s.isEndOfPdu = true) → (mid = true → s.isEndOfPdu = false) →
    ∃ e s', encodeParam fuel p.param pv s true = .error (e, s') ∧ RejErr e (p.typed pv)

theorem PDesc.OkW.toM {p : PDesc} (h : p.OkW) (mid : Bool) : p.OkWM mid :=
  ⟨h.notKey, fun pv g hne hf => (h.acc pv g hne hf).toM mid, fun pv hne hwf hf fuel hfu s he _ => h.rej pv hne hwf hf fuel hfu s he⟩

/-- a description with the flag: does its component need `is_end_of_pdu` cleared? -/
structure MDesc where
  p : PDesc
  mid : Bool := false

def MDescs.ps (ms : List MDesc) : List PDesc := ms.map MDesc.p

theorem MDescs.ps_cons (m : MDesc) (ms : List MDesc) : MDescs.ps (m :: ms) = m.p :: MDescs.ps ms := rfl

def MDescs.lastMid : List MDesc → Bool
  | [] => false
  | [m] => m.mid
  | _ :: m2 :: rest => MDescs.lastMid (m2 :: rest)

def MDescs.tag : List MDesc → List Comp → List MComp
  | m :: ms, g :: gs => { c := g, mid := m.mid } :: MDescs.tag ms gs
  | _, _ => []

inductive Comps.FillM (kvs : List (String × PVal)) : List Comp → List MDesc → Prop
  | nil : Comps.FillM kvs [] []
  | cons {g : Comp} {m : MDesc} {gs : List Comp} {ms : List MDesc} :
      g.FillsM m.mid m.p (lookupV m.p.name kvs) → Comps.FillM kvs gs ms → Comps.FillM kvs (g :: gs) (m :: ms)

theorem MDescs.fill_someM : (ms : List MDesc) → (∀ m ∈ ms, m.p.OkWM m.mid) → ∀ (kvs : List (String × PVal)) (gs : List Comp),
    PDescs.fill (MDescs.ps ms) kvs = some gs → Comps.FillM kvs gs ms
  | [], _, kvs, gs, hf => by
    simp only [MDescs.ps, List.map_nil, PDescs.fill, Option.some.injEq] at hf
    subst hf
    exact .nil
  | m :: ms, hok, kvs, gs, hf => by
    simp only [MDescs.ps_cons, PDescs.fill] at hf
    cases h1 : m.p.fill (lookupV m.p.name kvs) with
    | none => rw [h1] at hf; cases hf
    | some g =>
      cases h2 : PDescs.fill (MDescs.ps ms) kvs with
      | none => rw [h1, h2] at hf; cases hf
      | some gs0 =>
        rw [h1, h2] at hf
        simp only [Option.some.injEq] at hf
        subst hf
        exact .cons ((hok m (List.mem_cons_self ..)).acc _ g (lookupV_ne_none _ _) h1)
          (MDescs.fill_someM ms (fun x hx => hok x (List.mem_cons_of_mem _ hx)) kvs gs0 h2)

section
variable {kvs : List (String × PVal)} {gs : List Comp} {ms : List MDesc}

theorem Comps.FillM.cs_tag (h : Comps.FillM kvs gs ms) : MComps.cs (MDescs.tag ms gs) = gs := by
  induction h with
  | nil => rfl
  | cons _ _ ih => simp only [MDescs.tag, MComps.cs_cons, ih]

theorem Comps.FillM.okAll (h : Comps.FillM kvs gs ms) (P : EncState → Prop) : MComps.okAll P (MDescs.tag ms gs) := by
  induction h with
  | nil => trivial
  | cons h1 _ ih => exact ⟨h1.ok P, ih⟩

theorem Comps.FillM.lastMid (h : Comps.FillM kvs gs ms) : MComps.lastMid (MDescs.tag ms gs) = MDescs.lastMid ms := by
  induction h with
  | nil => rfl
  | cons h1 h2 ih =>
    cases h2 with
    | nil => rfl
    | cons h3 h4 => exact ih

theorem Comps.FillM.endOkAll (h : Comps.FillM kvs gs ms) : Comps.endOkAll gs := by
  induction h with
  | nil => trivial
  | cons h1 _ ih => exact ⟨h1.endOk, ih⟩

theorem Comps.FillM.toParams (h : Comps.FillM kvs gs ms) : Comps.toParams gs = PDescs.toParams (MDescs.ps ms) := by
  induction h with
  | nil => rfl
  | cons h1 _ ih =>
    simp only [Comps.toParams, PDescs.toParams, MDescs.ps, List.map_cons, h1.param] at ih ⊢
    rw [ih]

theorem Comps.FillM.mem_name (h : Comps.FillM kvs gs ms) : ∀ u ∈ gs, ∃ p ∈ MDescs.ps ms, u.name = p.name := by
  induction h with
  | nil => intro u hu; cases hu
  | cons h1 _ ih =>
    intro u hu
    cases hu with
    | head => exact ⟨_, List.mem_cons_self .., by simp only [Comp.name, PDesc.name, h1.param]⟩
    | tail _ hm =>
      obtain ⟨p, hp, hn⟩ := ih u hm
      exact ⟨p, List.mem_cons_of_mem _ hp, hn⟩

theorem Comps.FillM.namesOk (h : Comps.FillM kvs gs ms) (hn : PDescs.namesOk (MDescs.ps ms)) : Comps.namesOk gs := by
  induction h with
  | nil => trivial
  | @cons g m gs ms h1 h2 ih =>
    refine ⟨?_, ih hn.2⟩
    intro u hu
    obtain ⟨q, hq, hname⟩ := h2.mem_name u hu
    rw [hname]
    have : g.name = m.p.name := by simp only [Comp.name, PDesc.name, h1.param]
    rw [this]
    exact hn.1 q hq

theorem Comps.FillM.eopLast (h : Comps.FillM kvs gs ms) (hl : PDescs.eopLast (MDescs.ps ms)) : Comps.eopLast gs := by
  induction h with
  | nil => trivial
  | cons h1 h2 ih =>
    cases h2 with
    | nil => trivial
    | cons h3 h4 =>
      refine ⟨?_, ih hl.2⟩
      cases he : Comp.eopOnly _ with
      | false => rfl
      | true => have := h1.eop he; rw [hl.1] at this; cases this

theorem Comps.FillM.need (h : Comps.FillM kvs gs ms) : Comps.need gs ≤ PDescs.need (MDescs.ps ms) kvs := by
  induction h with
  | nil => exact Nat.le_refl _
  | cons h1 _ ih =>
    have := h1.need
    simp only [Comps.need, MDescs.ps_cons, PDescs.need]
    omega

theorem Comps.FillM.anyEop (h : Comps.FillM kvs gs ms) : Comps.anyEop gs = true → PDescs.anyEop (MDescs.ps ms) = true := by
  induction h with
  | nil => intro h; cases h
  | cons h1 _ ih =>
    intro ha
    simp only [Comps.anyEop, PDescs.anyEop, MDescs.ps_cons, List.any_cons, Bool.or_eq_true] at ha ih ⊢
    rcases ha with ha | ha
    · exact Or.inl (h1.eop ha)
    · exact Or.inr (ih ha)

theorem Comps.FillM.val (h : Comps.FillM kvs gs ms) : (Comps.pair gs).val = PDescs.complete (MDescs.ps ms) kvs := by
  induction h with
  | nil => rfl
  | cons h1 _ ih =>
    rw [Comps.pair_val_cons, ih, h1.val]
    simp only [MDescs.ps_cons, PDescs.complete, Comp.name, PDesc.name, h1.param]

theorem Comps.FillM.cur (h : Comps.FillM kvs gs ms) : ∀ (org c : Nat), PDescs.lastAdv (MDescs.ps ms) ≤ Comps.cur gs org c := by
  induction h with
  | nil => intro _ _; exact Nat.zero_le _
  | cons h1 h2 ih =>
    intro org c
    cases h2 with
    | nil => exact h1.adv org c
    | cons h3 h4 => exact ih org _

theorem Comps.FillM.lookups (h : Comps.FillM kvs gs ms) :
    ∀ g ∈ gs, lookupV g.name kvs = g.sup ∧ (g.param.kind.required = true → (lookup g.name kvs).isNone = false) := by
  induction h with
  | nil => intro g hg; cases hg
  | @cons g0 m gs ms h1 _ ih =>
    intro g hg
    cases hg with
    | tail _ hm => exact ih g hm
    | head =>
      have hname : g0.name = m.p.name := by simp only [Comp.name, PDesc.name, h1.param]
      have hl : lookupV g0.name kvs = g0.sup := by rw [hname, h1.sup]
      refine ⟨hl, ?_⟩
      intro hr
      have hs := (h1.ok (fun _ => True)).supplied hr
      rw [← hl] at hs
      unfold lookupV at hs
      cases hlk : lookup g0.name kvs with
      | none => rw [hlk] at hs; cases hs
      | some x => rfl
end

/-- `DComp.structOf_ok` for components some of which (none in last position) need the flag cleared -/
theorem DComp.structOfM_ok (cs : List MComp) (kvs : List (String × PVal)) (hok : MComps.okAll (fun _ => True) cs)
    (hn : Comps.namesOk (MComps.cs cs)) (hlast : Comps.eopLast (MComps.cs cs)) (hmid : MComps.midNotLast cs)
    (hlook : ∀ g ∈ MComps.cs cs, lookupV g.name kvs = g.sup ∧ (g.param.kind.required = true → (lookup g.name kvs).isNone = false))
    (hknown : kvs.any (fun kv => !((Comps.toParams (MComps.cs cs)).any fun p => p.name == kv.1)) = false) :
    (DComp.structOf (MComps.cs cs) kvs).Ok :=
  let h0 := DComp.structM_ok cs hok hn hlast hmid
  { good := h0.good
    sup_ne_none := by simp [DComp.structOf]
    originFree := h0.originFree
    dec_originFree := h0.dec_originFree
    fits_originFree := h0.fits_originFree
    encode_eq := by
      intro fuel hf s hcb heop
      obtain ⟨f, rfl⟩ : ∃ f, fuel = f + 1 + 1 := ⟨fuel - 2, by simp only [DComp.structOf, DComp.struct] at hf; omega⟩
      have hf' : Comps.need (MComps.cs cs) ≤ f := by simp only [DComp.structOf, DComp.struct] at hf; omega
      let sIn : EncState := { s with origin := s.cursorByte, isEndOfPdu := false, cursorBit := 0 }
      obtain ⟨sp, hrun, hcore, hspcb⟩ := MComps.encode_eq ModelInv.trivial cs hok hlast kvs hlook f hf' s.isEndOfPdu heop
        (fun h => by rw [show MComps.lastMid cs = false from hmid] at h; cases h) sIn rfl True.intro
      obtain ⟨e, rfl⟩ : ∃ e, f = (MComps.cs cs).length + 1 + e :=
        ⟨f - ((MComps.cs cs).length + 1), by have := Comps.need_ge (MComps.cs cs); omega⟩
      have hlen : (Comps.toParams (MComps.cs cs)).length = (MComps.cs cs).length := by simp [Comps.toParams]
      have hkeys := encodeKeyValues_nonkey (Comps.toParams (MComps.cs cs)) (MComps.toParams_notKey cs hok) e
        { sp with isEndOfPdu := false } true
      rw [hlen] at hkeys
      have hg := MComps.good cs hok
      refine ⟨{ sp with isEndOfPdu := false, origin := s.origin }, ?_, ?_, hspcb rfl⟩
      · have hrun' : encodeParams s.isEndOfPdu kvs ((MComps.cs cs).length + 1 + e) (Comps.toParams (MComps.cs cs))
            { s with origin := s.cursorByte, isEndOfPdu := false, cursorBit := 0 } true = .ok ((), sp) := hrun
        simp only [DComp.structOf, DComp.struct, encodeDop, encodeComposite, bind, pure, run_bind, run_getS, run_modifyS, run_pure,
          run_ite, hcb, hknown, Bool.false_eq_true, if_false, ne_eq, not_true_eq_false]
        rw [hrun']
        simp only []
        rw [hkeys]
      · have hin : SameCore sIn { s with origin := s.cursorByte } := ⟨rfl, rfl, rfl, rfl, rfl⟩
        have h2 := hcore.trans (hg.core _ _ hin)
        exact ⟨h2.1, h2.2.1, h2.2.2.1, h2.2.2.2.1, rfl⟩
    enc_cursor := h0.enc_cursor
    dec_cursorBit := h0.dec_cursorBit
    dec_msg := h0.dec_msg
    dec_origin := h0.dec_origin
    decode_eq := h0.decode_eq }

theorem DComp.structOfM_endOk (cs : List MComp) (kvs : List (String × PVal)) (hok : MComps.okAll (fun _ => True) cs)
    (hend : Comps.endOkAll (MComps.cs cs)) (hlast : Comps.eopLast (MComps.cs cs)) : (DComp.structOf (MComps.cs cs) kvs).EndOk :=
  let h0 := DComp.structM_endOk cs hok hend hlast
  ⟨h0.of_end, h0.trivial⟩

/-- **rejected values, list level, with `mid` descriptions**: from a state with `is_end_of_pdu` cleared (what the composite
    encoder starts its parameters from); `eop` is the flag the LAST parameter sees -/
theorem MDescs.rejWM : (ms : List MDesc) → (∀ m ∈ ms, m.p.OkWM m.mid) → PDescs.eopLast (MDescs.ps ms) →
    ∀ (kvs : List (String × PVal)),
    PVal.wfDict kvs = true → PDescs.fill (MDescs.ps ms) kvs = none → ∀ (fuel : Nat), PDescs.need (MDescs.ps ms) kvs ≤ fuel →
    ∀ (eop : Bool), (PDescs.anyEop (MDescs.ps ms) = true → eop = true) → (MDescs.lastMid ms = true → eop = false) →
    ∀ (s : EncState), s.isEndOfPdu = false →
    ∃ e s', encodeParams eop kvs fuel (PDescs.toParams (MDescs.ps ms)) s true = .error (e, s') ∧
      RejErr e (PDescs.typed (MDescs.ps ms) kvs)
  | [], _, _, kvs, _, hf, _, _, _, _, _, _, _ => by simp [MDescs.ps, PDescs.fill] at hf
  | m :: ms, hok, hlast, kvs, hwf, hf, fuel, hfu, eop, heop, hmidl, s, hs0 => by
    simp only [MDescs.ps_cons] at hlast hf hfu heop ⊢
    simp only [PDescs.need] at hfu
    obtain ⟨f, rfl⟩ : ∃ f, fuel = f + 1 := ⟨fuel - 1, by omega⟩
    have hpok := hok m (List.mem_cons_self ..)
    have hemp : (PDescs.toParams (MDescs.ps ms)).isEmpty = ms.isEmpty := by cases ms <;> rfl
    have hsmEop : m.p.mayEop = true → (if ms.isEmpty then { s with isEndOfPdu := eop } else s).isEndOfPdu = true := by
      intro he
      cases ms with
      | nil =>
        have : eop = true := heop (by simp [PDescs.anyEop, MDescs.ps, he])
        simp [this]
      | cons q rest => have := hlast.1; rw [this] at he; cases he
    have hsmMid : m.mid = true → (if ms.isEmpty then { s with isEndOfPdu := eop } else s).isEndOfPdu = false := by
      intro hm
      cases ms with
      | nil =>
        have : eop = false := hmidl hm
        simp [this]
      | cons q rest => simpa using hs0
    cases h1 : m.p.fill (lookupV m.p.name kvs) with
    | none =>
      obtain ⟨e, s', hrun, he⟩ := hpok.rej _ (lookupV_ne_none _ _) (wfOpt_lookupV kvs hwf _) h1 f (by omega)
        (if ms.isEmpty then { s with isEndOfPdu := eop } else s) hsmEop hsmMid
      have hrun' : encodeParam f m.p.param (lookupV m.p.param.name kvs)
          (if (PDescs.toParams (MDescs.ps ms)).isEmpty then { s with isEndOfPdu := eop } else s) true = .error (e, s') := by
        rw [hemp]; exact hrun
      obtain ⟨e', s'', hrun2, he'⟩ := encodeParams_cons_fail eop kvs f m.p.param hpok.notKey (PDescs.toParams (MDescs.ps ms)) s e s' hrun'
      refine ⟨e', s'', hrun2, ?_⟩
      simp only [PDescs.typed]
      rcases he' with rfl | rfl
      · exact he.and_left _
      · exact RejErr.encode _
    | some g =>
      have h2 : PDescs.fill (MDescs.ps ms) kvs = none := by
        simp only [PDescs.fill, h1] at hf
        cases h2 : PDescs.fill (MDescs.ps ms) kvs with
        | none => rfl
        | some x => rw [h2] at hf; cases hf
      have hne : ms ≠ [] := by
        intro h; subst h; simp [MDescs.ps, PDescs.fill] at h2
      have hemp2 : ms.isEmpty = false := by cases ms with
        | nil => exact absurd rfl hne
        | cons _ _ => rfl
      have hg := hpok.acc _ g (lookupV_ne_none _ _) h1
      obtain ⟨s1, hstep, _⟩ := (hg.ok (fun _ => True)).encode_eq f (by have := hg.need; omega)
        (if ms.isEmpty then { s with isEndOfPdu := eop } else s) (fun he => hsmEop (hg.eop he)) hsmMid True.intro
      have hs1 : s1.isEndOfPdu = false := by
        have hstep0 : encodeParam f g.param g.sup s true = .ok ((), s1) := by
          have := hstep
          rw [hemp2] at this
          simpa using this
        exact encodeParam_keeps_eop_false f _ _ s true s1 hstep0 hs0
      have hmidl' : MDescs.lastMid ms = true → eop = false := by
        cases ms with
        | nil => exact absurd rfl hne
        | cons q rest => exact hmidl
      obtain ⟨e, s', hrest, he⟩ := MDescs.rejWM ms (fun x hx => hok x (List.mem_cons_of_mem _ hx))
        (PDescs.eopLast_tail m.p (MDescs.ps ms) hlast) kvs hwf h2 f (by omega) eop
        (fun h => heop (by simp only [PDescs.anyEop, List.any_cons] at h ⊢; simp [h])) hmidl' s1 hs1
      refine ⟨e, s', ?_, ?_⟩
      · have hreq : m.p.param.kind.required = true → (lookup m.p.param.name kvs).isNone = false := by
          intro hr
          have hs := (hg.ok (fun _ => True)).supplied (by rw [hg.param]; exact hr)
          rw [hg.sup] at hs
          unfold lookupV at hs
          cases hlk : lookup m.p.param.name kvs with
          | none => simp only [PDesc.name] at hs; rw [hlk] at hs; cases hs
          | some x => rfl
        show encodeParams eop kvs (f + 1) (m.p.param :: PDescs.toParams (MDescs.ps ms)) s true = _
        rw [encodeParams_cons_nonkey eop kvs f m.p.param hpok.notKey _ s hreq, hemp]
        rw [hg.param, hg.sup] at hstep
        have hstep' : encodeParam f m.p.param (lookupV m.p.param.name kvs)
            (if ms.isEmpty then { s with isEndOfPdu := eop } else s) true = .ok ((), s1) := hstep
        rw [hstep']
        exact hrest
      · simp only [PDescs.typed]; exact he.and_right _

/-- **closure under STRUCTURE with `mid` descriptions, none of them last**: an ordinary `OkW` description -/
theorem DDesc.structM_okW (ms : List MDesc) (hok : ∀ m ∈ ms, m.p.OkWM m.mid) (hn : PDescs.namesOk (MDescs.ps ms))
    (hlast : PDescs.eopLast (MDescs.ps ms)) (hmid : MDescs.lastMid ms = false) : (DDesc.struct (MDescs.ps ms)).OkW where
  acc := by
    intro pv c hf
    have key : ∃ kvs gs, pv = .dict kvs ∧ PDescs.unknown (MDescs.ps ms) kvs = false ∧ PDescs.fill (MDescs.ps ms) kvs = some gs ∧
        c = DComp.structOf gs kvs := by
      cases pv with
      | dict kvs =>
        simp only [DDesc.struct] at hf
        cases hu : PDescs.unknown (MDescs.ps ms) kvs with
        | true => rw [hu] at hf; simp at hf
        | false =>
          rw [hu] at hf
          cases hg : PDescs.fill (MDescs.ps ms) kvs with
          | none => rw [hg] at hf; simp at hf
          | some gs =>
            rw [hg] at hf
            exact ⟨kvs, gs, rfl, hu, hg, by simpa using hf.symm⟩
      | _ => simp [DDesc.struct] at hf
    obtain ⟨kvs, gs, rfl, hu, hg, rfl⟩ := key
    have hfl := MDescs.fill_someM ms hok kvs gs hg
    have hcs := hfl.cs_tag
    have hknown : kvs.any (fun kv => !((Comps.toParams gs).any fun p => p.name == kv.1)) = false := by
      rw [hfl.toParams]; exact hu
    have hOk : (DComp.structOf gs kvs).Ok := by
      have := DComp.structOfM_ok (MDescs.tag ms gs) kvs (hfl.okAll _) (by rw [hcs]; exact hfl.namesOk hn)
        (by rw [hcs]; exact hfl.eopLast hlast) (by show MComps.lastMid _ = false; rw [hfl.lastMid]; exact hmid)
        (by rw [hcs]; exact hfl.lookups) (by rw [hcs]; exact hknown)
      rw [hcs] at this; exact this
    have hEnd : (DComp.structOf gs kvs).EndOk := by
      have := DComp.structOfM_endOk (MDescs.tag ms gs) kvs (hfl.okAll _) (by rw [hcs]; exact hfl.endOkAll)
        (by rw [hcs]; exact hfl.eopLast hlast)
      rw [hcs] at this; exact this
    exact {
      ok := hOk
      endOk := hEnd
      dop := by simp only [DComp.structOf, DComp.struct, DDesc.struct, hfl.toParams]
      sup := rfl
      need := by have := hfl.need; simp only [DComp.structOf, DComp.struct, DDesc.struct]; omega
      eop := hfl.anyEop
      size := hfl.cur 0 0
      val := by
        show PVal.dict (Comps.pair gs).val = _
        rw [hfl.val]
        rfl }
  rej := by
    intro pv hwf hf fuel hfu s hcb heop
    cases pv with
    | dict kvs =>
      simp only [DDesc.struct] at hfu
      obtain ⟨f, rfl⟩ : ∃ f, fuel = f + 1 + 1 := ⟨fuel - 2, by omega⟩
      cases hu : PDescs.unknown (MDescs.ps ms) kvs with
      | true =>
        refine ⟨.odx, ?_, ?_, RejErr.odx _⟩
        rotate_left
        · have hu' : kvs.any (fun kv => !((PDescs.toParams (MDescs.ps ms)).any fun p => p.name == kv.1)) = true := hu
          simp only [DDesc.struct, encodeDop, encodeComposite, bind, pure, run_bind, run_getS, run_modifyS, run_ite,
            hcb, hu', if_true, odxraise, ne_eq, not_true_eq_false, if_false]
          rfl
      | false =>
        have hg : PDescs.fill (MDescs.ps ms) kvs = none := by
          simp only [DDesc.struct, hu, Bool.false_eq_true, if_false] at hf
          cases hg : PDescs.fill (MDescs.ps ms) kvs with
          | none => rfl
          | some x => rw [hg] at hf; simp at hf
        obtain ⟨e, s', hrun, he⟩ := MDescs.rejWM ms hok hlast kvs hwf hg f (by omega) s.isEndOfPdu heop
          (fun h => by rw [hmid] at h; cases h)
          { s with origin := s.cursorByte, isEndOfPdu := false, cursorBit := 0 } rfl
        refine ⟨e, s', ?_, he⟩
        have hu' : kvs.any (fun kv => !((PDescs.toParams (MDescs.ps ms)).any fun p => p.name == kv.1)) = false := hu
        simp only [DDesc.struct, encodeDop, encodeComposite, bind, pure, run_bind, run_getS, run_modifyS, run_pure, run_ite,
          hcb, hu', Bool.false_eq_true, if_false, ne_eq, not_true_eq_false]
        rw [hrun]
    | atom _ | list _ | none | pair _ _ | keyed _ _ | nokey _ | dtc _ =>
      simp only [DDesc.struct] at hfu
      obtain ⟨f, rfl⟩ : ∃ f, fuel = f + 1 + 1 := ⟨fuel - 2, by omega⟩
      refine ⟨.encode, ?_, ?_, RejErr.encode _⟩
      rotate_left
      · simp only [DDesc.struct, encodeDop, encodeComposite, bind, pure, run_bind, run_getS, odxraise, if_true]
        rfl

/-- `encodeMessage_nested2_cases` from the `OkW` of the request's structure (instead of its parameters') -/
theorem encodeMessage_structW_cases (ps : List PDesc) (hS : (DDesc.struct ps).OkW)
    (pv : PVal) (hwf : pv.wfAtoms = true) (trig : Option Bytes) (hneed : (DDesc.struct ps).need pv ≤ modelFuel) :
    ((DDesc.struct ps).fill pv = none ∧
      ∃ e, encodeMessage none (PDescs.toParams ps) pv trig true = .error e ∧ RejErr e ((DDesc.struct ps).typed pv)) ∨
    (∃ c, (DDesc.struct ps).fill pv = some c ∧ c.Fills (DDesc.struct ps) pv ∧
      ∃ pdu w, encodeMessage none (PDescs.toParams ps) pv trig true = .ok (pdu, w) ∧
        (w = 0 → (c.eopOnly = true → c.size = pdu.length) →
          ∃ cursor, decodeMessage none (PDescs.toParams ps) pdu true = .ok ((DDesc.struct ps).complete pv, cursor))) := by
  cases hf : (DDesc.struct ps).fill pv with
  | none =>
    obtain ⟨e, s', hrun, he⟩ := hS.rej pv hwf hf modelFuel hneed { trig := trig, isEndOfPdu := true } rfl (fun _ => rfl)
    refine Or.inl ⟨rfl, e, ?_, he⟩
    have hrun' : encodeDop modelFuel (.struct none (PDescs.toParams ps)) pv { trig := trig, isEndOfPdu := true } true
        = .error (e, s') := hrun
    unfold encodeMessage
    rw [hrun']
  | some c =>
    have hc := hS.acc pv c hf
    have hneed' : c.need ≤ modelFuel := Nat.le_trans hc.need hneed
    obtain ⟨s1, hrun, _, _⟩ := hc.ok.encode_eq modelFuel hneed' { trig := trig, isEndOfPdu := true } rfl (fun _ => rfl)
    rw [hc.dop, hc.sup] at hrun
    have hrun' : encodeDop modelFuel (.struct none (PDescs.toParams ps)) pv { trig := trig, isEndOfPdu := true } true
        = .ok ((), s1) := hrun
    have henc : encodeMessage none (PDescs.toParams ps) pv trig true = .ok (s1.msg, s1.warn) := by
      unfold encodeMessage
      rw [hrun']
    refine Or.inr ⟨c, rfl, hc, s1.msg, s1.warn, henc, ?_⟩
    intro hw hsize
    have henc0 : encodeMessage none (PDescs.toParams ps) c.sup trig true = .ok (s1.msg, 0) := by rw [hc.sup, henc, hw]
    obtain ⟨cursor, hdec⟩ := dcomp_roundtrip_msg_end c hc.ok hc.endOk (PDescs.toParams ps) hc.dop hneed' trig s1.msg hsize henc0
    exact ⟨cursor, by rw [hdec, hc.val]⟩

end OdxVerif.Codec
