import OdxVerif.Proofs.NumRepr
import OdxVerif.Proofs.Place
/-! `emplace_atomic_value` followed by `extract_atomic_value` for `A_INT32` objects: the monadic model
    functions, evaluated in strict mode, reduce to the pure bit-placement of `Proofs/Place.lean`. -/
namespace OdxVerif.Codec
open OdxVerif.Bits OdxVerif.OdxM

theorem mask_fits (bl bp : Nat) : (2 ^ bl - 1) * 2 ^ bp < 256 ^ ((bl + bp + 7) / 8) := by
  rw [pow256]
  have h1 : (2 ^ bl - 1) * 2 ^ bp < 2 ^ bl * 2 ^ bp :=
    Nat.mul_lt_mul_of_pos_right (Nat.sub_lt (Nat.two_pow_pos bl) (by decide)) (Nat.two_pow_pos bp)
  rw [← Nat.pow_add] at h1
  exact Nat.lt_of_lt_of_le h1 (Nat.pow_le_pow_right (by decide) (by omega))

/-- what `emplaceAtomic` does for an in-range `A_INT32` value, no bit mask, strict mode -/
theorem emplaceAtomic_int32 (enc : Option Enc) (hk : int32Known enc = true) (bl : Nat) (hbl : 1 ≤ bl) (hbl64 : bl ≤ 64) (v : Int)
    (hr : int32InRange enc bl v) (hl : Bool) (s : EncState) :
    ∃ s', emplaceAtomic (.int v) bl .int32 enc hl none s true = .ok ((), s') ∧
      s'.msg = placeBytes s.msg s.cursorByte
                (ord hl (toBytesBE ((bl + s.cursorBit + 7) / 8) ((int32Raw enc bl v).toNat * 2 ^ s.cursorBit)))
                (ord hl (toBytesBE ((bl + s.cursorBit + 7) / 8) ((2 ^ bl - 1) * 2 ^ s.cursorBit))) ∧
      s'.cursorByte = s.cursorByte + (bl + s.cursorBit + 7) / 8 ∧ s'.cursorBit = 0 := by
  obtain ⟨h0, h1, _⟩ := int32Raw_spec enc hk bl hbl v hr
  have hb0 : bl ≠ 0 := by omega
  have hge : ¬ (2 ^ bl ≤ (int32Raw enc bl v).toNat) := by
    have : ((2 ^ bl : Nat) : Int) = (2:Int) ^ bl := by simp
    omega
  have hmask : ¬ (256 ^ ((bl + s.cursorBit + 7) / 8) ≤ (2 ^ bl - 1) * 2 ^ s.cursorBit) :=
    Nat.not_le.mpr (mask_fits bl s.cursorBit)
  have h64 : ¬ (64 < bl) := by omega
  simp [emplaceAtomic, emplaceBytes, bind, pure, run_ite, run_bind, run_pure, run_getS, run_setS, run_raise,
    BaseType.isNumeric, rawOfInt32_ok enc hk bl hbl v hr s, hb0, hge, hmask, h64]
  cases hl <;> simp [ord, toBytesBE_length]

/-- an out-of-range `A_INT32` value is rejected with the library's encode error and nothing is written -/
theorem emplaceAtomic_int32_reject (enc : Option Enc) (hk : int32Known enc = true) (bl : Nat) (hbl : 1 ≤ bl) (v : Int)
    (hr : ¬ int32InRange enc bl v) (hl : Bool) (m : Option Bytes) (s : EncState) :
    emplaceAtomic (.int v) bl .int32 enc hl m s true = .error (.encode, s) := by
  by_cases h64 : 64 < bl
  · simp [emplaceAtomic, bind, run_bind, run_ite, run_raise, h64]
  · simp [emplaceAtomic, bind, run_bind, run_ite, run_pure, pure, h64, rawOfInt32_reject enc hk bl hbl v hr s]

/-- what `extractAtomic` does for an `A_INT32` object when the message is long enough, strict mode -/
theorem extractAtomic_int32 (enc : Option Enc) (hk : int32Known enc = true) (bl : Nat) (hbl : 1 ≤ bl) (hbl64 : bl ≤ 64) (hl : Bool)
    (d : DecState) (hlen : d.cursorByte + (bl + d.cursorBit + 7) / 8 ≤ d.msg.length) :
    extractAtomic bl .int32 enc hl d true =
      .ok (.int (int32OfRaw enc bl (readNum d.msg d.cursorByte ((bl + d.cursorBit + 7) / 8) hl / 2 ^ d.cursorBit % 2 ^ bl)),
           { d with cursorByte := d.cursorByte + (bl + d.cursorBit + 7) / 8, cursorBit := 0 }) := by
  have hb0 : bl ≠ 0 := by omega
  have hnl : ¬ (d.msg.length < d.cursorByte + (bl + d.cursorBit + 7) / 8) := by omega
  have h64 : ¬ (64 < bl) := by omega
  unfold int32Known at hk
  simp only [Bool.or_eq_true, decide_eq_true_eq] at hk
  have hk' : enc = none ∨ enc = some Enc.onec ∨ enc = some Enc.twoc ∨ enc = some Enc.sm := by
    rcases hk with ((h | h) | h) | h <;> simp [h]
  simp [extractAtomic, extractCore, convertRaw, bind, pure, run_ite, run_bind, run_pure, run_getS, run_modifyS, run_raise,
    BaseType.isNumeric, hb0, hnl, hk', h64]

/-- **C01/C02, atomic `A_INT32` objects.** For every legal encoding, bit length ≥ 1, bit position,
    byte order, in-range value and *arbitrary* prior message content: the strict encoder succeeds, moves
    the cursor past the object's ⌈(bl+bp)/8⌉ bytes, and the strict decoder run at the same position on the
    produced message returns exactly the encoded value and the same cursor. -/
theorem atomic_int32_roundtrip (enc : Option Enc) (hk : int32Known enc = true) (bl : Nat) (hbl : 1 ≤ bl) (hbl64 : bl ≤ 64) (v : Int)
    (hr : int32InRange enc bl v) (hl : Bool) (s : EncState) (hmsg : AllBytes s.msg) :
    ∃ s', emplaceAtomic (.int v) bl .int32 enc hl none s true = .ok ((), s') ∧
      AllBytes s'.msg ∧
      extractAtomic bl .int32 enc hl { msg := s'.msg, cursorByte := s.cursorByte, cursorBit := s.cursorBit } true =
        .ok (.int v, { msg := s'.msg, cursorByte := s'.cursorByte, cursorBit := 0 }) := by
  obtain ⟨s', he, hm, hc, _⟩ := emplaceAtomic_int32 enc hk bl hbl hbl64 v hr hl s
  obtain ⟨h0, h1, hinv⟩ := int32Raw_spec enc hk bl hbl v hr
  have hlt : (int32Raw enc bl v).toNat < 2 ^ bl := by
    have : ((2 ^ bl : Nat) : Int) = (2:Int) ^ bl := by simp
    omega
  have hall : AllBytes s'.msg := by
    rw [hm]; exact allBytes_placeBytes _ _ _ _ hmsg (allBytes_ord _ _ (toBytesBE_allBytes _ _))
  refine ⟨s', he, hall, ?_⟩
  have hlen : s.cursorByte + (bl + s.cursorBit + 7) / 8 ≤ s'.msg.length := by
    rw [hm, placeBytes_length _ _ _ _ (by simp [ord_length, toBytesBE_length]), ord_length, toBytesBE_length]
    omega
  rw [extractAtomic_int32 enc hk bl hbl hbl64 hl _ hlen]
  have hrt := read_place_roundtrip s.msg hmsg s.cursorByte bl s.cursorBit (int32Raw enc bl v).toNat hl hlt
  simp only at hrt
  simp only [hm] at hrt ⊢
  rw [hrt, hinv, hc]

end OdxVerif.Codec
