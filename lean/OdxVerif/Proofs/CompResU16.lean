import OdxVerif.Proofs.CompBits2Msg
/-! Compositional components, extension W22 (3): the tenth leaf kind — **A_UNICODE2STRING with low-high byte order**.

    odxtools (`encodestate.py` / `decodestate.py` / `encoding.py: get_string_encoding`): for the string types the flag
    `is_highlow_byte_order` does NOT reverse the bytes (only A_INT32 / A_UINT32 / A_FLOAT32 / A_FLOAT64 are byte-swapped); it
    selects the codec: `utf-16-be` if high-low, `utf-16-le` otherwise.  The model has the case (`stringCodec`, `emplaceAtomic`:
    `rev := !hl && bt.isNumeric`).  The nine kinds of `Obj` (`Proofs/FlatStep.lean`) carry `hl = true` for strings (`Obj.sizeOk`).
    Here: `U16` = a VALUE parameter over a standard-length A_UNICODE2STRING DOP with IS-HIGHLOW-BYTE-ORDER = false (identical compu
    method).  On the wire it is the byte field `u.sh` (`Obj` of kind `.bytes`) holding the UTF-16LE bytes `bs` of the string — so
    the pure pair, its `Good`ness and its footprint are those of the byte-field leaf (`Good.ofObj`, `Foot2.obj`), only the value
    is translated (`u16Val`).  `Comp.ofU16LE_ok` / `_endOk` make every theorem that is generic in the components
    (`Comp.Ok` + `Comp.EndOk`: the closure lemmas for STRUCTUREs, fields, multiplexers, the message-level round trips) apply. -/
namespace OdxVerif.Codec
open OdxVerif.Bits OdxVerif.OdxM

/-- a VALUE parameter over a standard-length A_UNICODE2STRING object, low-high byte order -/
structure U16 where
  name : String
  bytePos : Option Nat
  bitPos : Option Nat
  enc : Option Enc
  bl : Nat

/-- the byte field it is on the wire -/
def U16.sh (u : U16) : Obj := ⟨u.name, u.bytePos, u.bitPos, none, true, u.bl, .bytes⟩

def U16.toParam (u : U16) : Param :=
  .mk u.name u.bytePos u.bitPos (.value (.simple (.std .unicode2 u.enc false u.bl none false) .unicode2 .identical) none)

/-- no encoding or UCS-2, whole bytes -/
def U16.ok (u : U16) : Prop := (u.enc = none ∨ u.enc = some .ucs2) ∧ 1 ≤ u.bl ∧ u.bl % 8 = 0

/-- the code points `cps` encode (UTF-16LE, surrogate pairs for non-BMP characters) to the bytes `bs`, which fill the object -/
def U16.inRange (u : U16) (cps : List Nat) (bs : Bytes) : Prop := Text.encode .utf16le cps = some bs ∧ 8 * bs.length = u.bl

theorem U16.sh_ok (u : U16) (hu : u.ok) : u.sh.ok := ⟨Or.inl rfl, hu.2.1, hu.2.2, rfl⟩

theorem U16.sh_inRange (u : U16) (cps : List Nat) (bs : Bytes) (hr : u.inRange cps bs) : u.sh.inRange (.bytes bs) :=
  ⟨hr.2, (Text.utf16le_decode_encode cps bs hr.1).1⟩

/-- the model's encoder on the string = the byte-field step on its UTF-16LE bytes -/
theorem U16.encodeParam_eq (u : U16) (hu : u.ok) (cps : List Nat) (bs : Bytes) (hr : u.inRange cps bs) (fuel : Nat) (s : EncState) :
    encodeParam (fuel + 2) u.toParam (some (.atom (.str cps))) s true = .ok ((), encStep u.sh (.bytes bs) s) := by
  obtain ⟨henc, hlen⟩ := hr
  obtain ⟨hk, hbl, hm8⟩ := hu
  obtain ⟨hall, _⟩ := Text.utf16le_decode_encode cps bs henc
  have hb0 : u.bl ≠ 0 := by omega
  have hlt := ofBytesBE_lt bs hall
  rw [pow256, hlen] at hlt
  have hge : ¬ (2 ^ u.bl ≤ ofBytesBE bs) := by omega
  have hmask : ∀ bp, ¬ (256 ^ ((u.bl + bp + 7) / 8) ≤ (2 ^ u.bl - 1) * 2 ^ bp) :=
    fun bp => Nat.not_le.mpr (mask_fits u.bl bp)
  have hfit1 : ¬ (u.bl < 8 * bs.length) := by omega
  have hfit2 : ¬ (8 * bs.length < u.bl) := by omega
  have hsub : 8 * bs.length - u.bl = 0 := by omega
  rcases hk with he | he <;>
  · simp [U16.toParam, encodeParam, encodeDop, encodeDct, typeAdmits, emplaceAtomic, emplaceBytes, fitBytes,
      stringCodec, henc, bind, pure, run_ite, run_bind, run_pure, run_getS, run_setS, run_modifyS, run_raise,
      BaseType.isNumeric, odxassert, he, hfit1, hfit2, hsub, hb0, hm8, hge, hmask]
    cases hb : u.bytePos <;>
      simp [encStep, U16.sh, Obj.raw, Obj.pos, Obj.k, Obj.bp, Obj.mask, ord, toBytesBE_length, hb]

/-- the value the decoder returns for the wire bytes -/
def u16Val : IVal → PVal
  | .bytes b => .atom (.str ((Text.decode .utf16le b).getD []))
  | v => .atom v

/-- the model's decoder on wire bytes that are well-formed UTF-16LE = the byte-field step, the bytes translated -/
theorem U16.decodeParam_eq (u : U16) (hu : u.ok) (fuel : Nat) (d : DecState)
    (hlen : u.sh.pos d.origin d.cursorByte + u.sh.k ≤ d.msg.length)
    (hdec : (Text.decode .utf16le (toBytesBE ((u.bl + 7) / 8)
      (readNum d.msg (u.sh.pos d.origin d.cursorByte) u.sh.k true / 2 ^ u.sh.bp % 2 ^ u.bl))).isSome = true) :
    decodeParam (fuel + 2) u.toParam d true = .ok (u16Val (decStep u.sh d).1, (decStep u.sh d).2) := by
  obtain ⟨hk, hbl, hm8⟩ := hu
  have hb0 : u.bl ≠ 0 := by omega
  unfold Obj.pos Obj.k Obj.bp U16.sh at hlen hdec
  simp only at hlen hdec
  cases hb : u.bytePos <;> simp only [hb] at hlen hdec
  all_goals
    have hnl : ¬ (d.msg.length < _ + (u.bl + u.bitPos.getD 0 + 7) / 8) := Nat.not_lt.mpr hlen
    obtain ⟨cps, hcps⟩ := Option.isSome_iff_exists.mp hdec
    have e2 : (8 - u.bl % 8) % 8 = 0 := by omega
    rcases hk with he | he
    all_goals
      simp [U16.toParam, U16.sh, u16Val, Obj.ofRaw, decodeParam, decodeDop, decodeDct, extractAtomic, extractCore, convertRaw,
        stringCodec, bind, pure, run_bind, run_pure, run_getS, run_modifyS, run_ite, run_raise, BaseType.isNumeric, odxassert, hb0, hnl,
        he, hb, hm8, e2, decStep, Obj.pos, Obj.k, Obj.bp, hcps]

/-- **the component**: the byte-field pair on the UTF-16LE bytes, guarded (the decoder is strict: the wire bytes must be the
    string's bytes), the value translated -/
def Comp.ofU16LE (u : U16) (cps : List Nat) (bs : Bytes) : Comp where
  param := u.toParam
  pair := ((Pair.ofObj u.sh (.bytes bs)).guard (· = .bytes bs)).map u16Val
  sup := some (.atom (.str cps))
  need := 2
  cur := fun org c => u.sh.pos org c + u.sh.k

theorem Comp.ofU16LE_val (u : U16) (cps : List Nat) (bs : Bytes) (hr : u.inRange cps bs) :
    (Comp.ofU16LE u cps bs).pair.val = .atom (.str cps) := by
  show u16Val (.bytes bs) = _
  simp only [u16Val, (Text.utf16le_decode_encode cps bs hr.1).2, Option.getD_some]

theorem Comp.ofU16LE_ok (u : U16) (cps : List Nat) (bs : Bytes) (hu : u.ok) (hr : u.inRange cps bs) : (Comp.ofU16LE u cps bs).Ok where
  good := by
    have h1 : Good ((Pair.ofObj u.sh (.bytes bs)).guard (· = .bytes bs)) :=
      (Good.ofObj u.sh (u.sh_ok hu) _ (u.sh_inRange cps bs hr)).guard _ rfl
    exact h1.map _
  notKey := rfl
  supplied := fun _ => rfl
  sup_ne_none := by simp [Comp.ofU16LE]
  encode_eq := by
    intro fuel hf s _
    obtain ⟨f, rfl⟩ : ∃ f, fuel = f + 2 := ⟨fuel - 2, by simp only [Comp.ofU16LE] at hf; omega⟩
    exact ⟨encStep u.sh (.bytes bs) s, U16.encodeParam_eq u hu cps bs hr f s, SameCore.refl _⟩
  enc_cursor := fun _ => rfl
  cur_shift := by
    intro org c p
    simp only [Comp.ofU16LE, Obj.pos_shift]
    omega
  dec_cursorBit := fun _ _ => rfl
  dec_msg := fun _ => rfl
  dec_origin := fun _ => rfl
  decode_eq := by
    intro fuel hf d _ hfit _
    obtain ⟨f, rfl⟩ : ∃ f, fuel = f + 2 := ⟨fuel - 2, by simp only [Comp.ofU16LE] at hf; omega⟩
    have hfit' : u.sh.fitsIn d ∧ (decStep u.sh d).1 = .bytes bs := hfit
    refine U16.decodeParam_eq u hu f d hfit'.1.1 ?_
    have h2 : IVal.bytes (toBytesBE ((u.bl + 7) / 8) (readNum d.msg (u.sh.pos d.origin d.cursorByte) u.sh.k true / 2 ^ u.sh.bp % 2 ^ u.bl
        * 2 ^ ((8 - u.bl % 8) % 8))) = .bytes bs := hfit'.2
    have e2 : (8 - u.bl % 8) % 8 = 0 := by have := hu.2.2; omega
    rw [e2, Nat.pow_zero, Nat.mul_one] at h2
    injection h2 with h2
    rw [h2, (Text.utf16le_decode_encode cps bs hr.1).2]
    rfl

theorem Comp.ofU16LE_endOk (u : U16) (cps : List Nat) (bs : Bytes) : (Comp.ofU16LE u cps bs).EndOk := Comp.endOk_of_plain _ rfl

/-- the footprint: one `value` entry, the UTF-16LE bytes as a big-endian number in the object's bytes -/
theorem Comp.ofU16LE_foot (u : U16) (cps : List Nat) (bs : Bytes) (hu : u.ok) (hr : u.inRange cps bs) :
    Foot2 (Comp.ofU16LE u cps bs).pair.enc (Lay2.obj .value u.name u.sh (u.sh.specRepr (.bytes bs))) :=
  Foot2.obj .value _ u.sh (.bytes bs) (u.sh_ok hu) (u.sh_inRange cps bs hr)

/-! ### non-vacuity: a non-BMP character (surrogate pair) -/

/-- "😀A" = U+1F600 U+0041 → UTF-16LE `3D D8 00 DE 41 00` (surrogates D83D DE00, low byte first) -/
def exU16 : U16 := ⟨"txt", none, none, none, 48⟩
example : Text.encode .utf16le [0x1F600, 0x41] = some [0x3D, 0xD8, 0x00, 0xDE, 0x41, 0x00] := by decide +kernel
theorem exU16_inRange : exU16.inRange [0x1F600, 0x41] [0x3D, 0xD8, 0x00, 0xDE, 0x41, 0x00] := ⟨by decide +kernel, by decide⟩
theorem exU16_ok : exU16.ok := ⟨Or.inl rfl, by decide, by decide⟩

end OdxVerif.Codec
