import OdxVerif.Proofs.CompBits3Desc
import OdxVerif.Proofs.CompCompuBitsMsg
import OdxVerif.Proofs.CompCompu3Re
/-! Bit-exactness and re-encoding (properties C02 / C03) at the message level for `Desc3b` (task W29): `Proofs/CompCompuBitsMsg.lean`
    and `Proofs/CompCompu3Re.lean` over `Desc3b` — strict `encodeMessage` = the pure encoder from the empty state
    (`descs3b_encodeMessage`, through `DescribedTop3b.ok`), the consequences of the footprint law for the empty state, the pure
    re-encoding lemma `descs3b_reencode_pure`, and `Desc3b.full` ("what is supplied is what the decoder returns"). -/
namespace OdxVerif.Codec
open OdxVerif.Bits OdxVerif.OdxM

/-- the layout of a request / response: origin 0, cursor 0 -/
def Descs3b.layout (ds : List Desc3b) : List Ent2 := (Descs3b.lay ds).ents 0 0
def Descs3b.extent (ds : List Desc3b) : Nat := (Descs3b.lay ds).ext 0 0
def Descs3b.endCursor (ds : List Desc3b) : Nat := (Descs3b.lay ds).cur 0 0
def Descs3b.params (ds : List Desc3b) : List Param := Comps.toParams (Descs3b.comps ds)
def Descs3b.supplied (ds : List Desc3b) : List (String × PVal) := Comps.values (Descs3b.comps ds)
def Descs3b.decoded (ds : List Desc3b) : List (String × PVal) := (Comps.pair (Descs3b.comps ds)).val

/-- well-formed at the top level of a response to `trig` (a request: `trig = none`): MATCHING-REQUEST-PARAMs are allowed -/
def Desc3b.wfTop (trig : Option Bytes) : Desc3b → Prop
  | .old d => d.wfTop trig
  | d => d.wf

def Descs3b.wfTop (trig : Option Bytes) : List Desc3b → Prop
  | [] => True
  | d :: ds => d.wfTop trig ∧ Descs3b.wfTop trig ds

/-- a well-formed request / response: well-formed parameters, distinct names, END-OF-PDU objects only last, no parameter that
    needs `is_end_of_pdu` cleared in last position, within the model's fuel -/
def Descs3b.ok (trig : Option Bytes) (ds : List Desc3b) : Prop :=
  Descs3b.wfTop trig ds ∧ Comps.namesOk (Descs3b.comps ds) ∧ Comps.eopLast (Descs3b.comps ds) ∧
  MComps.midNotLast (Descs3b.mcs ds) ∧ Comps.need (Descs3b.comps ds) + 2 ≤ modelFuel

/-- no BYTE-SIZE padding hits a bit claimed before it (vacuous without BYTE-SIZE structures that are actually padded) -/
def Descs3b.padOk (ds : List Desc3b) : Prop := PadOk (Descs3b.layout ds) (fun _ => False)

theorem Desc3b.wfTop_cases (trig : Option Bytes) (d : Desc3b) (h : d.wfTop trig) :
    d.wf ∨ ∃ n bp rp bl t, d = .old (.matching n bp rp bl t) ∧ trig = some t ∧ AllBytes t ∧ rp + bl ≤ t.length ∧ 1 ≤ bl ∧ bl ≤ 8 := by
  cases d
  case old d =>
    rcases Desc3.wfTop_cases trig d h with h' | ⟨n, bp, rp, bl, t, rfl, h'⟩
    · exact Or.inl (by simpa only [Desc3b.wf] using h')
    · exact Or.inr ⟨n, bp, rp, bl, t, rfl, h'⟩
  all_goals exact Or.inl h

theorem Desc3b.describedTop (trig : Option Bytes) (d : Desc3b) (h : d.wfTop trig) : DescribedTop3b trig d.mc.c d.mc.mid := by
  cases d
  case old d => exact DescribedTop3b.top3 _ _ (Desc3.describedTop trig d h)
  all_goals exact DescribedTop3b.nested _ _ (Desc3b.described _ h)

theorem Descs3b.describedTop (trig : Option Bytes) : (ds : List Desc3b) → Descs3b.wfTop trig ds →
    ∀ m ∈ Descs3b.mcs ds, DescribedTop3b trig m.c m.mid
  | [], _ => by intro m hm; simp [Descs3b.mcs] at hm
  | d :: ds, h => by
    intro m hm
    simp only [Descs3b.mcs, List.mem_cons] at hm
    rcases hm with rfl | hm
    · exact Desc3b.describedTop trig d h.1
    · exact Descs3b.describedTop trig ds h.2 m hm

theorem Descs3b.okAllTop (trig : Option Bytes) (ds : List Desc3b) (h : Descs3b.wfTop trig ds) :
    MComps.okAll (TopInv trig) (Descs3b.mcs ds) :=
  MComps.okAll_of_forall _ _ (fun m hm => (Descs3b.describedTop trig ds h m hm).ok.1)

theorem Descs3b.footTop (trig : Option Bytes) : (ds : List Desc3b) → Descs3b.wfTop trig ds →
    Foot2 (Comps.pair (Descs3b.comps ds)).enc (Descs3b.lay ds)
  | [], _ => Foot2.nil
  | d :: ds, h => by
    have hd : d.wf ∨ ∃ n bp rp bl t, d = .old (.matching n bp rp bl t) ∧ AllBytes t := by
      rcases Desc3b.wfTop_cases trig d h.1 with h' | ⟨n, bp, rp, bl, t, he, _, hall, _⟩
      · exact Or.inl h'
      · exact Or.inr ⟨n, bp, rp, bl, t, he, hall⟩
    exact Foot2.seq (ea := d.mc.c.pair.enc) (eb := (Comps.pair (Descs3b.comps ds)).enc) (Desc3b.foot d hd) (Descs3b.footTop trig ds h.2)

/-- strict `encodeMessage` = the pure encoder from the empty state -/
theorem descs3b_encodeMessage (trig : Option Bytes) (ds : List Desc3b) (hok : Descs3b.ok trig ds) :
    encodeMessage none (Descs3b.params ds) (.dict (Descs3b.supplied ds)) trig true =
      .ok (((Comps.pair (Descs3b.comps ds)).enc {}).msg, ((Comps.pair (Descs3b.comps ds)).enc {}).warn) := by
  obtain ⟨hwf, hn, hlast, hmid, hneed⟩ := hok
  have hokAll := Descs3b.okAllTop trig ds hwf
  let s0 : EncState := { trig := trig, isEndOfPdu := true }
  obtain ⟨s1, hrun, hcore, _⟩ := DComp.structM_encode_eq (ModelInv.top trig) (Descs3b.mcs ds) hokAll hn hlast modelFuel hneed
    s0 rfl (fun _ => rfl) (fun h => by rw [show MComps.lastMid (Descs3b.mcs ds) = false from hmid] at h; cases h)
    ⟨rfl, Nat.le_refl _⟩
  have hrun' : encodeDop modelFuel (.struct none (Comps.toParams (Descs3b.comps ds))) (.dict (Comps.values (Descs3b.comps ds)))
      { trig := trig, isEndOfPdu := true } true = .ok ((), s1) := hrun
  unfold encodeMessage Descs3b.params Descs3b.supplied
  rw [hrun']
  have hs0 : SameCore ({ s0 with origin := s0.cursorByte } : EncState) {} := ⟨rfl, rfl, rfl, rfl, rfl⟩
  have h2 := (MComps.good _ hokAll).core _ _ hs0
  have hm : s1.msg = ((Comps.pair (Descs3b.comps ds)).enc {}).msg := hcore.1.trans h2.1
  have hw : s1.warn = ((Comps.pair (Descs3b.comps ds)).enc {}).warn := hcore.2.2.1.trans h2.2.2.1
  simp only [hm, hw]

theorem padOk_empty_state3b (ds : List Desc3b) :
    PadOk (Descs3b.layout ds) (fun a => getBit ({} : EncState).used a = true) ↔ Descs3b.padOk ds :=
  PadOk_congr _ _ _ (fun a => by
    show getBit [] a = true ↔ False
    rw [getBit_nil]; simp)

/-- entries pairwise disjoint ⇒ no overlap warning -/
theorem descs3b_pure_nowarn_of (trig : Option Bytes) (ds : List Desc3b) (hwf : Descs3b.wfTop trig ds)
    (hd : LDisj ((Descs3b.layout ds).map Ent2.geo)) : ((Comps.pair (Descs3b.comps ds)).enc {}).warn = 0 :=
  (Descs3b.footTop trig ds hwf).nowarn_of {} clean_empty hd (LFree_nil_used _)

/-- no overlap warning ⇒ entries pairwise disjoint, provided no BYTE-SIZE padding hits a bit claimed before it -/
theorem descs3b_pure_disj_of (trig : Option Bytes) (ds : List Desc3b) (hwf : Descs3b.wfTop trig ds)
    (hw : ((Comps.pair (Descs3b.comps ds)).enc {}).warn = 0) (hp : Descs3b.padOk ds) :
    LDisj ((Descs3b.layout ds).map Ent2.geo) :=
  ((Descs3b.footTop trig ds hwf).disj_of {} clean_empty hw ((padOk_empty_state3b ds).mpr hp)).1

theorem descs3b_pure_length (trig : Option Bytes) (ds : List Desc3b) (hwf : Descs3b.wfTop trig ds) :
    ((Comps.pair (Descs3b.comps ds)).enc {}).msg.length = Descs3b.extent ds := by
  have := (Descs3b.footTop trig ds hwf).length {}
  rw [this]
  show max 0 _ = _
  rw [Nat.zero_max]
  rfl

theorem descs3b_pure_inside (trig : Option Bytes) (ds : List Desc3b) (hwf : Descs3b.wfTop trig ds)
    (hd : LDisj ((Descs3b.layout ds).map Ent2.geo)) :
    ∀ e ∈ Descs3b.layout ds, ∀ j, j < e.bl →
      getBit ((Comps.pair (Descs3b.comps ds)).enc {}).msg (absBit e.pos e.k e.hl (j + e.bp)) = e.raw.testBit j := by
  intro e he j hj
  exact (Descs3b.footTop trig ds hwf).inside {} clean_empty hd (LFree_nil_used _) e.geo (List.mem_map.mpr ⟨e, he, rfl⟩) j hj

theorem descs3b_pure_outside (trig : Option Bytes) (ds : List Desc3b) (hwf : Descs3b.wfTop trig ds) (a : Nat)
    (h : ∀ e ∈ Descs3b.layout ds, ¬ e.claims a) : getBit ((Comps.pair (Descs3b.comps ds)).enc {}).msg a = false := by
  rw [(Descs3b.footTop trig ds hwf).outside {} a (by
    rintro ⟨e, he, hc⟩
    obtain ⟨x, hx, rfl⟩ := List.mem_map.mp he
    exact h x hx hc)]
  exact getBit_nil a

theorem descs3b_pure_cursor (trig : Option Bytes) (ds : List Desc3b) (hwf : Descs3b.wfTop trig ds) :
    ((Comps.pair (Descs3b.comps ds)).enc {}).cursorByte = Descs3b.endCursor ds :=
  (Descs3b.footTop trig ds hwf).cursor {}

theorem Descs3b.padOk_of_noSizePadding (ds : List Desc3b) (h : ∀ e ∈ Descs3b.layout ds, e.role ≠ .sizePadding) : Descs3b.padOk ds :=
  PadOk_of_noSilent _ _ h

/-! ### re-encoding (C03) -/

mutual
/-- every parameter's value is supplied, as the decoder returns it — the shape of a decoded value tree (`Desc3.full` for an `old`
    description).  For `muxConv` / `dynLenFieldConv` nothing is added: the multiplexer's value is `(case name, case value)` and
    the field's value the list of items — the key / count are not part of the value, the encoder derives them. -/
def Desc3b.full : Desc3b → Prop
  | .old d => d.full
  | .struct _ _ _ kids => Descs3b.full kids
  | .staticField _ _ _ _ _ items => Descss3b.full items
  | .dynLenField _ _ _ _ _ items => Descss3b.full items
  | .dynLenFieldConv _ _ _ _ _ _ _ items => Descss3b.full items
  | .eopField _ _ _ _ _ _ items => Descss3b.full items
  | .mux _ _ _ kids => Descs3b.full kids
  | .muxConv _ _ _ _ _ kids => Descs3b.full kids
  | .endMarkerEop _ _ _ _ _ items => Descss3b.full items
  | .endMarkerMid _ _ _ _ _ items => Descss3b.full items
def Descs3b.full : List Desc3b → Prop
  | [] => True
  | d :: ds => d.full ∧ Descs3b.full ds
def Descss3b.full : List (List Desc3b) → Prop
  | [] => True
  | k :: ks => Descs3b.full k ∧ Descss3b.full ks
end

mutual
theorem Desc3b.sup_eq_val : (d : Desc3b) → d.full → d.mc.c.sup = some d.mc.c.pair.val
  | .old d, h => Desc3.sup_eq_val d (by simpa only [Desc3b.full] using h)
  | .struct name bp bso kids, h => by
    simp only [Desc3b.full] at h
    have ih := Descs3b.values_eq_val kids h
    show some (DComp.structO bso (Descs3b.comps kids)).sup = some (DComp.structO bso (Descs3b.comps kids)).pair.val
    rw [DComp.structO_sup, DComp.structO_val, ih]
  | .staticField name bp n bso shape items, h => by
    simp only [Desc3b.full] at h
    have ih := Descss3b.sups_eq_vals bso items h
    show some (PVal.list (DComps.sups (itemsO bso (Descss3b.mcss items)))) =
      some (DComp.staticField n (.struct bso shape) (itemsO bso (Descss3b.mcss items))).pair.val
    rw [DComp.staticField_val, ih]
  | .dynLenField name bp l bso shape items, h => by
    simp only [Desc3b.full] at h
    have ih := Descss3b.sups_eq_vals bso items h
    show some (PVal.list (DComps.sups (itemsO bso (Descss3b.mcss items)))) =
      some (DComp.dynLenField l (.struct bso shape) (itemsO bso (Descss3b.mcss items))).pair.val
    rw [DComp.dynLenField_val, ih]
  | .dynLenFieldConv name bp l cd ci bso shape items, h => by
    simp only [Desc3b.full] at h
    have ih := Descss3b.sups_eq_vals bso items h
    show some (PVal.list (DComps.sups (itemsO bso (Descss3b.mcss items)))) =
      some (DComp.dynLenFieldConv l cd ci (.struct bso shape) (itemsO bso (Descss3b.mcss items))).pair.val
    rw [DComp.dynLenFieldConv_val, ih]
  | .eopField name bp mn mx bso shape items, h => by
    simp only [Desc3b.full] at h
    have ih := Descss3b.sups_eq_vals bso items h
    show some (PVal.list (DComps.sups (itemsO bso (Descss3b.mcss items)))) =
      some (DComp.eopField mn mx (.struct bso shape) (itemsO bso (Descss3b.mcss items))).pair.val
    rw [DComp.eopField_val, ih]
  | .mux name bp m kids, h => by
    simp only [Desc3b.full] at h
    have ih := Descs3b.values_eq_val kids h
    show some (PVal.pair m.caseName (PVal.dict (Comps.values (Descs3b.comps kids)))) =
      some (PVal.pair m.caseName (PVal.dict (Comps.pair (Descs3b.comps kids)).val))
    rw [ih]
  | .muxConv name bp m kd ki kids, h => by
    simp only [Desc3b.full] at h
    have ih := Descs3b.values_eq_val kids h
    show some (PVal.pair m.caseName (PVal.dict (Comps.values (Descs3b.comps kids)))) =
      some (PVal.pair m.caseName (PVal.dict (Comps.pair (Descs3b.comps kids)).val))
    rw [ih]
  | .endMarkerEop name bp l bso shape items, h => by
    simp only [Desc3b.full] at h
    have ih := Descss3b.sups_eq_vals bso items h
    show some (PVal.list (DComps.sups (itemsO bso (Descss3b.mcss items)))) =
      some (DComp.endMarkerEop l (.struct bso shape) (itemsO bso (Descss3b.mcss items))).pair.val
    rw [DComp.endMarkerEop_val, ih]
  | .endMarkerMid name bp l bso shape items, h => by
    simp only [Desc3b.full] at h
    have ih := Descss3b.sups_eq_vals bso items h
    show some (PVal.list (DComps.sups (itemsO bso (Descss3b.mcss items)))) =
      some (DComp.endMarkerMid l (.struct bso shape) (itemsO bso (Descss3b.mcss items))).pair.val
    rw [DComp.endMarkerMid_val, ih]
theorem Descs3b.values_eq_val : (ds : List Desc3b) → Descs3b.full ds →
    Comps.values (Descs3b.comps ds) = (Comps.pair (Descs3b.comps ds)).val
  | [], _ => rfl
  | d :: ds, h => by
    simp only [Descs3b.full] at h
    have h1 := Desc3b.sup_eq_val d h.1
    have h2 := Descs3b.values_eq_val ds h.2
    show Comps.values (d.mc.c :: Descs3b.comps ds) = (Comps.pair (d.mc.c :: Descs3b.comps ds)).val
    simp only [Comps.values, Comps.pair_val_cons, h1, h2]
theorem Descss3b.sups_eq_vals (bso : Option Nat) : (items : List (List Desc3b)) → Descss3b.full items →
    DComps.sups (itemsO bso (Descss3b.mcss items)) = DComps.vals (itemsO bso (Descss3b.mcss items))
  | [], _ => rfl
  | k :: ks, h => by
    simp only [Descss3b.full] at h
    have h1 := Descs3b.values_eq_val k h.1
    have h2 := Descss3b.sups_eq_vals bso ks h.2
    show (DComp.structO bso (Descs3b.comps k)).sup :: DComps.sups (itemsO bso (Descss3b.mcss ks)) =
      (DComp.structO bso (Descs3b.comps k)).pair.val :: DComps.vals (itemsO bso (Descss3b.mcss ks))
    rw [h2, DComp.structO_sup, DComp.structO_val, h1]
end

/-- for a fully supplied description (no MATCHING-REQUEST-PARAM), what is handed to `encode` is what `decode` returns -/
theorem Descs3b.supplied_eq_decoded (ds : List Desc3b) (h : Descs3b.full ds) : Descs3b.supplied ds = Descs3b.decoded ds :=
  Descs3b.values_eq_val ds h

theorem descs3b_pure_allBytes (trig : Option Bytes) (ds : List Desc3b) (hwf : Descs3b.wfTop trig ds) :
    AllBytes ((Comps.pair (Descs3b.comps ds)).enc {}).msg :=
  (MComps.good _ (Descs3b.okAllTop trig ds hwf)).allBytes {} (by intro b hb; cases hb)

/-- **re-encoding, pure level** (`descs3_reencode_pure` over `Desc3b`): if every entry of the layout reads in `pdu` as its
    prescribed pattern (switch key / count typed by a compu DOP: `Obj.specRepr` of the INTERNAL key / count), the entries are
    pairwise disjoint, claim every bit of `pdu`, and nothing the encoder touches lies beyond `pdu`, then the pure encoder
    produces `pdu`, without warning -/
theorem descs3b_reencode_pure (trig : Option Bytes) (ds : List Desc3b) (hwf : Descs3b.wfTop trig ds) (pdu : Bytes) (hall : AllBytes pdu)
    (hbits : ∀ e ∈ Descs3b.layout ds, ∀ j, j < e.bl → getBit pdu (absBit e.pos e.k e.hl (j + e.bp)) = e.raw.testBit j)
    (hdisj : LDisj ((Descs3b.layout ds).map Ent2.geo)) (hcover : ∀ a, a < 8 * pdu.length → ∃ e ∈ Descs3b.layout ds, e.claims a)
    (hext : Descs3b.extent ds ≤ pdu.length) :
    ((Comps.pair (Descs3b.comps ds)).enc {}).msg = pdu ∧ ((Comps.pair (Descs3b.comps ds)).enc {}).warn = 0 := by
  have hw := descs3b_pure_nowarn_of trig ds hwf hdisj
  refine ⟨?_, hw⟩
  have hlen := descs3b_pure_length trig ds hwf
  have hF := Descs3b.footTop trig ds hwf
  have hge : pdu.length ≤ Descs3b.extent ds := by
    cases hlt : decide (pdu.length ≤ Descs3b.extent ds) with
    | true => exact of_decide_eq_true hlt
    | false =>
      exfalso
      have hlt' := of_decide_eq_false hlt
      obtain ⟨e, he, hc⟩ := hcover (8 * Descs3b.extent ds) (by omega)
      obtain ⟨hewf, hle⟩ := hF.within 0 0 e.geo (List.mem_map.mpr ⟨e, he, rfl⟩)
      have := (Ent.claims_bytes e.geo hewf _ hc).2
      have hle' : e.geo.pos + e.geo.k ≤ Descs3b.extent ds := hle
      omega
  apply eq_of_getBit _ _ (descs3b_pure_allBytes trig ds hwf) hall (by omega)
  intro a
  by_cases hcl : ∃ e ∈ Descs3b.layout ds, e.claims a
  · obtain ⟨e, he, j, hj, rfl⟩ := hcl
    have := descs3b_pure_inside trig ds hwf hdisj e he j hj
    rw [← hbits e he j hj] at this
    exact this
  · rw [descs3b_pure_outside trig ds hwf a (fun e he hc => hcl ⟨e, he, hc⟩)]
    have hnot : ¬ a < 8 * pdu.length := fun h => hcl (hcover a h)
    unfold getBit
    rw [List.getD_eq_getElem?_getD, List.getElem?_eq_none (by omega)]
    simp

theorem descs3b_cur_eq (trig : Option Bytes) (ds : List Desc3b) (hwf : Descs3b.wfTop trig ds) :
    Comps.cur (Descs3b.comps ds) 0 0 = Descs3b.endCursor ds := by
  rw [← descs3b_pure_cursor trig ds hwf]
  exact (MComps.enc_cursor (Descs3b.mcs ds) (Descs3b.okAllTop trig ds hwf) {}).symm

end OdxVerif.Codec
