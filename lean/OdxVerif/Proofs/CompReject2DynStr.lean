import OdxVerif.Proofs.CompReject2Dyn
import OdxVerif.Proofs.TextRT16
/-! Compositional tier, rejection side, second part (task W18, C04): **LEADING-LENGTH-INFO-TYPE over the string base types**
    (`A_ASCIISTRING` = ISO-8859-1, `A_UTF8STRING`, `A_UNICODE2STRING`) as a value-free description (`PDesc.ofLeadStr`).
    `LeadingLengthInfoType.encode_into_pdu` measures the length prefix as `len(value.encode("utf-8"))` (UTF-16-LE for
    A_UNICODE2STRING) and then emplaces the payload with the DOP's own codec: the value is accepted iff both encodings exist,
    have the same length, and the prefix can hold it — e.g. a non-7-bit A_ASCIISTRING value ("é": 2 bytes of UTF-8, 1 byte of
    ISO-8859-1) is rejected with `EncodeError` by the length check of `emplace_atomic_value`.  Core Lean only. -/
namespace OdxVerif.Codec
open OdxVerif.Bits OdxVerif.OdxM

/-- the four codecs of the string base types: the encoding consists of bytes and decodes back -/
theorem Text.encode_spec4 (c : Text.Codec) (hc : c = .latin1 ∨ c = .utf8 ∨ c = .utf16be ∨ c = .utf16le) (cps : List Nat) (r : Bytes)
    (h : Text.encode c cps = some r) : AllBytes r ∧ Text.decode c r = some cps := by
  rcases hc with rfl | rfl | rfl | rfl
  · cases hall : cps.all (fun x => decide (x < 256)) with
    | false => rw [latin1_encode_none cps hall] at h; cases h
    | true =>
      rw [latin1_encode_all cps hall] at h
      cases h
      exact ⟨allBytes_of_all cps hall, rfl⟩
  · exact Text.utf8_decode_encode cps r h
  · exact Text.utf16be_decode_encode cps r h
  · exact Text.utf16le_decode_encode cps r h

/-- a LEADING-LENGTH-INFO-TYPE VALUE parameter over a string base type, without a value -/
structure LeadStrShape where
  name : String
  bytePos : Option Nat
  bitPos : Option Nat
  bt : BaseType
  enc : Option Enc
  hl : Bool
  bitLen : Nat

def LeadStrShape.ok (sh : LeadStrShape) : Prop :=
  1 ≤ sh.bitLen ∧ sh.bitLen ≤ 64 ∧ (sh.bt = .ascii ∨ sh.bt = .utf8 ∨ sh.bt = .unicode2)

/-- the codec of the payload (`get_string_encoding` without BASE-TYPE-ENCODING) -/
def LeadStrShape.codec (sh : LeadStrShape) : Text.Codec :=
  match sh.bt with
  | .utf8 => .utf8
  | .unicode2 => if sh.hl then .utf16be else .utf16le
  | _ => .latin1

/-- the codec the length is measured in -/
def LeadStrShape.lenCodec (sh : LeadStrShape) : Text.Codec :=
  match sh.bt with
  | .unicode2 => .utf16le
  | _ => .utf8

def LeadStrShape.leaf (sh : LeadStrShape) (cps : List Nat) (raw : Bytes) : LeadLeaf :=
  { name := sh.name, bytePos := sh.bytePos, bitPos := sh.bitPos, bt := sh.bt, enc := sh.enc, hl := sh.hl, bitLen := sh.bitLen,
    v := .str cps, raw := raw }

/-- the payload of an acceptable string: both encodings exist, have the same length, and the prefix can hold it -/
def LeadStrShape.rawOf (sh : LeadStrShape) (cps : List Nat) : Option Bytes :=
  match Text.encode sh.codec cps, Text.encode sh.lenCodec cps with
  | some r, some rl => if r.length = rl.length ∧ rl.length < 2 ^ sh.bitLen then some r else none
  | _, _ => none

theorem LeadStrShape.codec4 (sh : LeadStrShape) :
    sh.codec = .latin1 ∨ sh.codec = .utf8 ∨ sh.codec = .utf16be ∨ sh.codec = .utf16le := by
  unfold LeadStrShape.codec
  split
  · exact Or.inr (Or.inl rfl)
  · split
    · exact Or.inr (Or.inr (Or.inl rfl))
    · exact Or.inr (Or.inr (Or.inr rfl))
  · exact Or.inl rfl

theorem LeadStrShape.stringCodec_eq (sh : LeadStrShape) (h : sh.ok) : stringCodec sh.bt none sh.hl = some sh.codec := by
  rcases h.2.2 with hb | hb | hb <;> simp [stringCodec, LeadStrShape.codec, hb]

theorem LeadStrShape.leadByteLen_eq (sh : LeadStrShape) (h : sh.ok) (cps : List Nat) :
    leadByteLen sh.bt (.str cps) = (Text.encode sh.lenCodec cps).map (·.length) := by
  rcases h.2.2 with hb | hb | hb <;> simp [leadByteLen, LeadStrShape.lenCodec, hb]

theorem LeadStrShape.leaf_ok (sh : LeadStrShape) (h : sh.ok) (cps : List Nat) (r : Bytes) (hr : sh.rawOf cps = some r) :
    (sh.leaf cps r).ok := by
  unfold LeadStrShape.rawOf at hr
  cases h1 : Text.encode sh.codec cps with
  | none => simp [h1] at hr
  | some r1 =>
    cases h2 : Text.encode sh.lenCodec cps with
    | none => simp [h1, h2] at hr
    | some rl =>
      simp only [h1, h2] at hr
      by_cases hc : r1.length = rl.length ∧ rl.length < 2 ^ sh.bitLen
      · rw [if_pos hc] at hr
        cases hr
        obtain ⟨hall, hdec⟩ := Text.encode_spec4 sh.codec sh.codec4 cps r h1
        refine ⟨h.1, h.2.1, by show r.length < 2 ^ sh.bitLen; omega, ⟨hall, Or.inr ⟨?_, sh.codec, cps, sh.stringCodec_eq h, rfl, h1, hdec⟩⟩, ?_⟩
        · rcases h.2.2 with hb | hb | hb <;> (show BaseType.isString sh.bt = true; rw [hb]; rfl)
        · show leadByteLen sh.bt (.str cps) = some r.length
          rw [sh.leadByteLen_eq h, h2, hc.1]; rfl
      · rw [if_neg hc] at hr; cases hr

def PDesc.ofLeadStr (sh : LeadStrShape) : PDesc where
  param := (sh.leaf [] []).toParam
  fill := fun pv => match pv with
    | some (.atom (.str cps)) => (sh.rawOf cps).map (fun r => Comp.ofLeading (sh.leaf cps r))
    | _ => none
  complete := fun pv => pv.getD .none
  typed := fun _ => true
  need := fun _ => 2
  minAdv := 1

/-- the payload step fails: the DOP's codec cannot encode the string, or its encoding has another length than was measured -/
theorem emplaceAtomic_str_rej (sh : LeadStrShape) (h : sh.ok) (cps : List Nat) (n : Nat)
    (hbad : ∀ r, Text.encode sh.codec cps = some r → r.length ≠ n) (s : EncState) :
    emplaceAtomic (.str cps) (8 * n) sh.bt none sh.hl none s true = .error (.encode, s) := by
  have hcodec := sh.stringCodec_eq h
  cases h1 : Text.encode sh.codec cps with
  | none =>
    rcases h.2.2 with hb | hb | hb <;> rw [hb] at hcodec <;>
      simp [emplaceAtomic, hb, hcodec, h1, bind, pure, run_bind, run_ite, run_pure, odxraise]
  | some r =>
    have hne := hbad r h1
    by_cases hgt : n < r.length
    · rcases h.2.2 with hb | hb | hb <;> rw [hb] at hcodec <;>
        simp [emplaceAtomic, fitBytes, hb, hcodec, h1, hgt, bind, pure, run_bind, run_ite, run_pure, odxraise]
    · have hlt : r.length < n := by omega
      rcases h.2.2 with hb | hb | hb <;> rw [hb] at hcodec <;>
        simp [emplaceAtomic, fitBytes, hb, hcodec, h1, hgt, hlt, bind, pure, run_bind, run_ite, run_pure, odxraise]

/-- a string the LEADING-LENGTH-INFO-TYPE does not accept: `EncodeError` / `OdxError` -/
theorem encodeParam_leadStr_rej (sh : LeadStrShape) (h : sh.ok) (cps : List Nat) (hr : sh.rawOf cps = none) (fuel : Nat)
    (s : EncState) :
    ∃ e s', encodeParam (fuel + 2) (sh.leaf [] []).toParam (some (.atom (.str cps))) s true = .error (e, s') ∧ EncErr e := by
  have hta : typeAdmits sh.bt (.str cps) = true := by rcases h.2.2 with hb | hb | hb <;> rw [hb] <;> rfl
  cases h2 : Text.encode sh.lenCodec cps with
  | none =>
    refine ⟨.encode, ?_, ?_, Or.inl rfl⟩
    rotate_left
    · rcases h.2.2 with hb | hb | hb <;> simp only [LeadStrShape.lenCodec, hb] at h2 <;>
        simp [LeadStrShape.leaf, LeadLeaf.toParam, LeadLeaf.dct, encodeParam, encodeDop, encodeDct, hb, typeAdmits, h2, bind, pure,
          run_bind, run_modifyS, run_pure, odxraise]
      all_goals rfl
  | some rl =>
    by_cases hn : rl.length < 2 ^ sh.bitLen
    · -- the prefix is written, the payload is rejected
      have hbad : ∀ r, Text.encode sh.codec cps = some r → r.length ≠ rl.length := by
        intro r hr1 heq
        simp [LeadStrShape.rawOf, hr1, h2, heq, hn] at hr
      have h1 := fun (s : EncState) => emplaceAtomic_uint sh.bitLen h.1 h.2.1 sh.hl rl.length hn s
      have h3 := fun (s : EncState) => emplaceAtomic_str_rej sh h cps rl.length hbad s
      refine ⟨.encode, ?_, ?_, Or.inl rfl⟩
      rotate_left
      · rcases h.2.2 with hb | hb | hb <;> simp only [LeadStrShape.lenCodec, hb] at h2 <;> rw [hb] at h3 <;>
          simp [LeadStrShape.leaf, LeadLeaf.toParam, LeadLeaf.dct, encodeParam, encodeDop, encodeDct, hb, typeAdmits, h2, bind, pure,
            run_bind, run_modifyS, run_pure, h1, h3]
        all_goals rfl
    · have hrn : ¬ (0 ≤ (rl.length : Int) ∧ (rl.length : Int) < 2 ^ sh.bitLen) := by
        intro ⟨_, hlt⟩
        apply hn
        exact_mod_cast hlt
      obtain ⟨e, he, hrej⟩ := emplaceAtomic_uint32_reject none (Or.inl rfl) sh.bitLen (rl.length : Int) hrn sh.hl
      refine ⟨e, ?_, ?_, he⟩
      rotate_left
      · rcases h.2.2 with hb | hb | hb <;> simp only [LeadStrShape.lenCodec, hb] at h2 <;>
          simp [LeadStrShape.leaf, LeadLeaf.toParam, LeadLeaf.dct, encodeParam, encodeDop, encodeDct, hb, typeAdmits, h2, bind, pure,
            run_bind, run_modifyS, run_pure, hrej]
        all_goals rfl

theorem PDesc.ofLeadStr_okW (sh : LeadStrShape) (hsh : sh.ok) : (PDesc.ofLeadStr sh).OkW where
  notKey := rfl
  acc := by
    intro pv g _ hf
    have key : ∃ cps r, pv = some (.atom (.str cps)) ∧ sh.rawOf cps = some r ∧ g = Comp.ofLeading (sh.leaf cps r) := by
      cases pv with
      | none => simp [PDesc.ofLeadStr] at hf
      | some x =>
        cases x with
        | atom v =>
          cases v with
          | str cps =>
            simp only [PDesc.ofLeadStr] at hf
            cases hr : sh.rawOf cps with
            | none => rw [hr] at hf; cases hf
            | some r => rw [hr] at hf; exact ⟨cps, r, rfl, hr, (Option.some.inj hf).symm⟩
          | _ => simp [PDesc.ofLeadStr] at hf
        | _ => simp [PDesc.ofLeadStr] at hf
    obtain ⟨cps, r, rfl, hr, rfl⟩ := key
    have hl := sh.leaf_ok hsh cps r hr
    exact {
      ok := Comp.ofLeading_ok _ hl
      endOk := Comp.ofLeading_endOk _
      param := rfl
      sup := rfl
      need := Nat.le_refl _
      eop := fun h => by cases h
      adv := fun org c => by
        have := (sh.leaf cps r).lenObj.k_pos ((sh.leaf cps r).lenObj_ok hl)
        show 1 ≤ (sh.leaf cps r).lenObj.pos org c + (sh.leaf cps r).lenObj.k + r.length
        omega
      val := rfl }
  rej := by
    intro pv hne _ hf fuel hfu s _
    obtain ⟨f, rfl⟩ : ∃ f, fuel = f + 2 := ⟨fuel - 2, by simp only [PDesc.ofLeadStr] at hfu; omega⟩
    have hnt : ∀ v : IVal, (∀ cps, v ≠ .str cps) → typeAdmits sh.bt v = false := by
      intro v hv
      rcases hsh.2.2 with hb | hb | hb <;> rw [hb] <;> cases v <;> first | rfl | exact absurd rfl (hv _)
    cases pv with
    | none =>
      refine ⟨.encode, ?_, ?_, RejErr.encode _⟩
      rotate_left
      · simp [PDesc.ofLeadStr, LeadStrShape.leaf, LeadLeaf.toParam, encodeParam, bind, run_bind, run_modifyS, odxraise]
        rfl
    | some x =>
      cases x with
      | none => exact absurd rfl hne
      | atom v =>
        cases v with
        | str cps =>
          have hr : sh.rawOf cps = none := by
            cases hr : sh.rawOf cps with
            | none => rfl
            | some r => simp [PDesc.ofLeadStr, hr] at hf
          obtain ⟨e, s', hrun, he⟩ := encodeParam_leadStr_rej sh hsh cps hr f s
          exact ⟨e, s', hrun, Or.inl he⟩
        | int i =>
          have := hnt (.int i) (fun _ h => by cases h)
          refine ⟨.encode, ?_, ?_, RejErr.encode _⟩
          rotate_left
          · simp [PDesc.ofLeadStr, LeadStrShape.leaf, LeadLeaf.toParam, encodeParam, encodeDop, this, bind, run_bind, run_modifyS,
              run_raise]
            rfl
        | bytes b =>
          have := hnt (.bytes b) (fun _ h => by cases h)
          refine ⟨.encode, ?_, ?_, RejErr.encode _⟩
          rotate_left
          · simp [PDesc.ofLeadStr, LeadStrShape.leaf, LeadLeaf.toParam, encodeParam, encodeDop, this, bind, run_bind, run_modifyS,
              run_raise]
            rfl
        | flt x =>
          have := hnt (.flt x) (fun _ h => by cases h)
          refine ⟨.encode, ?_, ?_, RejErr.encode _⟩
          rotate_left
          · simp [PDesc.ofLeadStr, LeadStrShape.leaf, LeadLeaf.toParam, encodeParam, encodeDop, this, bind, run_bind, run_modifyS,
              run_raise]
            rfl
      | list _ | dict _ | pair _ _ | keyed _ _ | nokey _ | dtc _ =>
        refine ⟨.encode, ?_, ?_, RejErr.encode _⟩
        rotate_left
        · simp [PDesc.ofLeadStr, LeadStrShape.leaf, LeadLeaf.toParam, encodeParam, encodeDop, bind, run_bind, run_modifyS, run_raise]
          rfl

end OdxVerif.Codec
