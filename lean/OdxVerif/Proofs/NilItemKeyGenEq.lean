import OdxVerif.Gen.NilItemKey
import OdxVerif.Proofs.PyRt
/-! # The generated `NamedItemList._get_item_key` equals the hand-written `itemKey`

    `Gen/NilItemKey.lean` is regenerated from `odxtools/nameditemlist.py` by `harness/extract/py2lean.py` (string subset: `sn[0]`,
    an f-string over a `str`, `or`). The two interpreter tables the function consults are parameters of the rendering:
    `c.isdigit()` on a one-character string (`isDigit`) and `keyword.iskeyword` (`kw.contains`). The model fixes the first one to
    `Char.isDigit` (ASCII short names; the regeneration step asserts that Python's `isdigit` agrees with it on ASCII). -/
namespace OdxVerif.Nil
open OdxVerif Py

/-- **Tie.** For every keyword table and every item the rendered source returns the model's key; it raises exactly when the model
    has no key (`sn[0]` on an empty short name: `IndexError`) -/
theorem gen_itemKey_eq (kw : List Name) (it : Item) :
    Gen.itemKeyE Char.isDigit kw it =
      match itemKey kw it.sn with
      | some k => .ok k
      | none => .error .indexError := by
  unfold Gen.itemKeyE itemKey
  cases h : it.sn with
  | nil => rfl
  | cons c cs =>
    by_cases h1 : c.isDigit = true <;> by_cases h2 : (c :: cs) ∈ kw <;>
      simp [h1, h2, Py.getItem, bind, Except.bind, pure, Except.pure]

end OdxVerif.Nil
