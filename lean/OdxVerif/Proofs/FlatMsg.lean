import OdxVerif.Proofs.FlatCore
/-! Flat tier at the level of the model's API: `encodeMessage` / `decodeMessage` on lists of positioned `A_INT32`
    VALUE parameters reduce to the pure `encAll` / `decAll`, whence the round trip `flat_roundtrip`. -/
namespace OdxVerif.Codec
open OdxVerif.Bits OdxVerif.OdxM

/-- every object's bytes lie inside the message the decoder is given, and what is read there decodes -/
def decFits : List Obj → DecState → Prop
  | [], _ => True
  | o :: rest, d => o.fitsIn d ∧ decFits rest (decStep o d).2

theorem flat_fits (ovs : List (Obj × IVal)) :
    ∀ (s : EncState) (d : DecState), (∀ ov ∈ ovs, ov.1.ok ∧ ov.1.inRange ov.2) → AllBytes s.msg →
      d.origin = s.origin → d.cursorByte = s.cursorByte →
      d.msg = (encAll ovs s).msg → (encAll ovs s).warn = s.warn → decFits (ovs.map (·.1)) d := by
  induction ovs with
  | nil => intros; trivial
  | cons ov rest ih =>
    intro s d hok hall horig hcur hmsg hw
    obtain ⟨o, v⟩ := ov
    obtain ⟨ho, hr⟩ := hok (o, v) (List.mem_cons_self ..)
    have h1 := encStep_warn_ge o v s
    have h2 := encAll_warn_ge rest (encStep o v s)
    have hrest : (encAll rest (encStep o v s)).warn = (encStep o v s).warn := by simp only [encAll] at hw; omega
    simp only [encAll] at hmsg
    obtain ⟨hlt, hinv⟩ := o.raw_spec ho v hr
    have hall1 := encStep_allBytes o v s hall
    have hallF := encAll_allBytes rest _ hall1
    have hlen1 : o.pos s.origin s.cursorByte + o.k ≤ (encStep o v s).msg.length := by rw [encStep_length]; omega
    have hlenF := Nat.le_trans hlen1 (encAll_length_ge rest _)
    have hpos : o.pos d.origin d.cursorByte = o.pos s.origin s.cursorByte := by rw [horig, hcur]
    -- what the decoder reads at the object's place is the pattern the encoder wrote (as in `flat_core`)
    have hread : readNum d.msg (o.pos d.origin d.cursorByte) o.k o.hl / 2 ^ o.bp % 2 ^ o.bl = o.raw v := by
      rw [hmsg, hpos]
      have hfr := C01_frame' (encAll rest (encStep o v s)).msg (encStep o v s).msg hallF hall1
        (o.pos s.origin s.cursorByte) o.bl o.bp o.hl hlenF hlen1
        (fun j hj => encAll_frame rest _ hrest _ (encStep_own_used o v s j hj))
      unfold Obj.k at hfr ⊢
      rw [hfr]
      have := read_place_roundtrip s.msg hall (o.pos s.origin s.cursorByte) o.bl o.bp (o.raw v) o.hl hlt
      simp only at this
      rw [encStep_msg]
      exact this
    refine ⟨⟨by rw [hmsg, hpos]; exact hlenF, by rw [hread]; exact o.raw_decodes ho v hr⟩, ?_⟩
    exact ih (encStep o v s) (decStep o d).2 (fun ov h => hok ov (List.mem_cons_of_mem _ h)) hall1
      (by simp [decStep, encStep_origin, horig])
      (by simp [decStep, encStep_cursor, hpos]) (by simp [decStep, hmsg]) hrest

/-- the model's own `decodeParams` on a list of flat objects = the pure `decAll` -/
theorem decodeParams_objs (os : List Obj) (hok : ∀ o ∈ os, o.ok) (extra : Nat) :
    ∀ (d : DecState), decFits os d →
      decodeParams (os.length + 2 + extra) (os.map Obj.toParam) d true =
        .ok ((os.zip (decAll os d).1).map (fun p => (p.1.name, PVal.atom p.2)), (decAll os d).2) := by
  induction os with
  | nil =>
    intro d _
    have : 0 + 2 + extra = (1 + extra) + 1 := by omega
    simp only [List.length_nil, List.map_nil, this, decodeParams]
    simp [decAll, pure, run_pure]
  | cons o rest ih =>
    intro d hfit
    obtain ⟨h1, h2⟩ := hfit
    have ho := hok o (List.mem_cons_self ..)
    have hstep := decodeParam_obj o ho (rest.length + extra) d h1.1 h1.2
    have hrest := ih (fun x hx => hok x (List.mem_cons_of_mem _ hx)) (decStep o d).2 h2
    have e1 : (o :: rest).length + 2 + extra = (rest.length + 2 + extra) + 1 := by simp; omega
    have e2 : rest.length + 2 + extra = rest.length + extra + 2 := by omega
    rw [e1]
    simp only [List.map_cons, decodeParams, bind, run_bind]
    rw [e2, hstep]
    simp only []
    rw [← e2, hrest]
    simp [pure, run_pure, decAll, Param.name, Obj.toParam]


/-- the fields the flat encoder reads and writes -/
def SameCore (s t : EncState) : Prop :=
  s.msg = t.msg ∧ s.used = t.used ∧ s.warn = t.warn ∧ s.cursorByte = t.cursorByte ∧ s.origin = t.origin

theorem SameCore.refl (s : EncState) : SameCore s s := ⟨rfl, rfl, rfl, rfl, rfl⟩

theorem encStep_sameCore (o : Obj) (v : IVal) (s t : EncState) (h : SameCore s t) :
    SameCore (encStep o v s) (encStep o v t) := by
  obtain ⟨h1, h2, h3, h4, h5⟩ := h
  simp only [SameCore, encStep, h1, h2, h3, h4, h5, and_self]

theorem encAll_sameCore (ovs : List (Obj × IVal)) (s t : EncState) (h : SameCore s t) :
    SameCore (encAll ovs s) (encAll ovs t) := by
  induction ovs generalizing s t with
  | nil => exact h
  | cons ov rest ih => exact ih _ _ (encStep_sameCore ov.1 ov.2 s t h)

/-- the model's own `encodeParams` on a list of flat objects = the pure `encAll` (up to `is_end_of_pdu`) -/
theorem encodeParams_objs (ovs : List (Obj × IVal)) (values : List (String × PVal)) (eop : Bool) (extra : Nat)
    (hok : ∀ ov ∈ ovs, ov.1.ok ∧ ov.1.inRange ov.2)
    (hlook : ∀ ov ∈ ovs, lookup ov.1.name values = some (.atom ov.2)) :
    ∀ (s : EncState), ∃ s', encodeParams eop values (ovs.length + 2 + extra) (ovs.map fun ov => ov.1.toParam) s true = .ok ((), s') ∧
      SameCore s' (encAll ovs s) := by
  induction ovs with
  | nil =>
    intro s
    have : 0 + 2 + extra = (1 + extra) + 1 := by omega
    refine ⟨s, ?_, SameCore.refl s⟩
    simp only [List.length_nil, List.map_nil, this, encodeParams]
    simp [pure, run_pure]
  | cons ov rest ih =>
    intro s
    obtain ⟨o, v⟩ := ov
    obtain ⟨ho, hr⟩ := hok (o, v) (List.mem_cons_self ..)
    have hl := hlook (o, v) (List.mem_cons_self ..)
    have hlV : lookupV o.name values = some (.atom v) := by simp only [lookupV, hl]
    have e1 : ((o, v) :: rest).length + 2 + extra = (rest.length + 2 + extra) + 1 := by simp; omega
    have e2 : rest.length + 2 + extra = rest.length + extra + 2 := by omega
    -- the state the parameter is encoded from
    let sm : EncState := if rest.isEmpty then { s with isEndOfPdu := eop } else s
    have hsm : SameCore sm s := by
      show SameCore (if rest.isEmpty then { s with isEndOfPdu := eop } else s) s
      split
      · exact ⟨rfl, rfl, rfl, rfl, rfl⟩
      · exact SameCore.refl s
    have hstep := encodeParam_obj o ho v hr (rest.length + extra) sm
    obtain ⟨s', hrun, hcore⟩ := ih (fun x hx => hok x (List.mem_cons_of_mem _ hx))
      (fun x hx => hlook x (List.mem_cons_of_mem _ hx)) (encStep o v sm)
    refine ⟨s', ?_, ?_⟩
    · rw [e1]
      simp only [List.map_cons, encodeParams, Obj.toParam]
      simp only [bind, hl, hlV, Option.isNone_some, Bool.and_false, Bool.false_eq_true, if_false, pure, run_pure]
      simp only [Obj.toParam] at hstep hrun
      rw [e2] at hrun ⊢
      by_cases hre : rest.isEmpty = true
      · have hsm' : sm = { s with isEndOfPdu := eop } := by simp [sm, hre]
        simp only [List.isEmpty_map, hre, if_true, eq_self_iff_true, run_bind, run_modifyS]
        rw [← hsm', hstep]
        simp only []
        exact hrun
      · have hsm' : sm = s := by simp [sm, hre]
        have hre' : rest.isEmpty = false := by simpa using hre
        simp only [List.isEmpty_map, hre', Bool.false_eq_true, if_false, run_bind]
        rw [← hsm', hstep]
        simp only []
        exact hrun
    · simp only [encAll]
      refine ⟨hcore.1.trans ?_, hcore.2.1.trans ?_, hcore.2.2.1.trans ?_, hcore.2.2.2.1.trans ?_, hcore.2.2.2.2.trans ?_⟩
      all_goals
        have := encAll_sameCore rest _ _ (encStep_sameCore o v sm s hsm)
      · exact this.1
      · exact this.2.1
      · exact this.2.2.1
      · exact this.2.2.2.1
      · exact this.2.2.2.2


theorem encodeKeyValues_objs (os : List Obj) (extra : Nat) (s : EncState) (st : Bool) :
    encodeKeyValues (os.length + 1 + extra) (os.map Obj.toParam) s st = .ok ((), s) := by
  induction os with
  | nil =>
    have : 0 + 1 + extra = extra + 1 := by omega
    simp only [List.length_nil, List.map_nil, this, encodeKeyValues]
    simp [pure, run_pure]
  | cons o rest ih =>
    have : (o :: rest).length + 1 + extra = (rest.length + 1 + extra) + 1 := by simp; omega
    rw [this]
    simp only [List.map_cons, Obj.toParam, encodeKeyValues]
    exact ih

/-- `Request.encode` on a flat description = the pure `encAll` from the empty message -/
theorem encodeMessage_flat (ovs : List (Obj × IVal)) (hlen : ovs.length ≤ 4000) (values : List (String × PVal))
    (trig : Option Bytes)
    (hok : ∀ ov ∈ ovs, ov.1.ok ∧ ov.1.inRange ov.2)
    (hlook : ∀ ov ∈ ovs, lookup ov.1.name values = some (.atom ov.2))
    (hknown : values.any (fun kv => !((ovs.map fun ov => ov.1.toParam).any fun p => p.name == kv.1)) = false) :
    ∃ s0 : EncState, s0.msg = [] ∧ s0.used = [] ∧ s0.warn = 0 ∧ s0.cursorByte = 0 ∧ s0.origin = 0 ∧
      encodeMessage none (ovs.map fun ov => ov.1.toParam) (.dict values) trig true =
        .ok ((encAll ovs s0).msg, (encAll ovs s0).warn) := by
  let s0 : EncState := { trig := trig, isEndOfPdu := false }
  refine ⟨s0, rfl, rfl, rfl, rfl, rfl, ?_⟩
  have hf1 : modelFuel = (ovs.length + 2 + (4092 - ovs.length)) + 1 + 1 := by unfold modelFuel; omega
  obtain ⟨s', hrun, hcore⟩ := encodeParams_objs ovs values true (4092 - ovs.length) hok hlook s0
  have hkeys := encodeKeyValues_objs (ovs.map (·.1)) (4093 - ovs.length) { s' with isEndOfPdu := false } true
  have hf2 : (ovs.map (·.1)).length + 1 + (4093 - ovs.length) = ovs.length + 2 + (4092 - ovs.length) := by
    simp; omega
  rw [hf2] at hkeys
  have hmap : (ovs.map (·.1)).map Obj.toParam = ovs.map fun ov => ov.1.toParam := by simp [List.map_map, Function.comp_def]
  rw [hmap] at hkeys
  unfold encodeMessage
  rw [hf1]
  simp only [encodeDop, encodeComposite, bind, pure, run_bind, run_getS, run_modifyS, run_pure, run_ite, hknown,
    Bool.false_eq_true, if_false, ne_eq, not_true_eq_false]
  have hrun' : encodeParams true values (ovs.length + 2 + (4092 - ovs.length)) (List.map (fun ov => ov.fst.toParam) ovs)
      { trig := trig, isEndOfPdu := false } true = Except.ok ((), s') := hrun
  rw [hrun']
  simp only []
  rw [hkeys]
  simp only [hcore.1, hcore.2.2.1]


/-- `Request.decode` on a flat description = the pure `decAll` from cursor 0 -/
theorem decodeMessage_flat (os : List Obj) (hlen : os.length ≤ 4000) (hok : ∀ o ∈ os, o.ok) (msg : Bytes)
    (hfit : decFits os { msg := msg }) :
    decodeMessage none (os.map Obj.toParam) msg true =
      .ok (.dict ((os.zip (decAll os { msg := msg }).1).map (fun p => (p.1.name, PVal.atom p.2))),
           (decAll os { msg := msg }).2.cursorByte) := by
  have hf1 : modelFuel = (os.length + 2 + (4092 - os.length)) + 1 + 1 := by unfold modelFuel; omega
  have hdec := decodeParams_objs os hok (4092 - os.length) { msg := msg } hfit
  unfold decodeMessage
  rw [hf1]
  simp only [decodeDop, decodeComposite, bind, pure, run_bind, run_getS, run_modifyS, run_pure]
  have hdec' : decodeParams (os.length + 2 + (4092 - os.length)) (os.map Obj.toParam)
      { msg := msg, origin := 0, cursorByte := 0 } true = _ := hdec
  rw [hdec']

theorem zip_values (ovs : List (Obj × IVal)) :
    ((ovs.map (·.1)).zip (ovs.map fun ov => ov.2)).map (fun p => (p.1.name, PVal.atom p.2))
      = ovs.map fun ov => (ov.1.name, PVal.atom ov.2) := by
  induction ovs with
  | nil => rfl
  | cons ov rest ih => simp [ih]

/-- **C01, flat tier, at the API level of the model.** For every list of (at most 4000) explicitly or
    implicitly positioned `A_INT32` VALUE parameters — any encodings, bit lengths ≥ 1, bit positions, byte
    orders, BYTE-POSITIONs in any order — and every assignment of representable values: if `Request.encode`
    reports no overlap, `Request.decode` of the produced PDU returns exactly the assigned values, parameter
    by parameter, and stops where the encoder stopped. -/
theorem flat_roundtrip (ovs : List (Obj × IVal)) (hlen : ovs.length ≤ 4000) (values : List (String × PVal))
    (trig : Option Bytes)
    (hok : ∀ ov ∈ ovs, ov.1.ok ∧ ov.1.inRange ov.2)
    (hlook : ∀ ov ∈ ovs, lookup ov.1.name values = some (.atom ov.2))
    (hknown : values.any (fun kv => !((ovs.map fun ov => ov.1.toParam).any fun p => p.name == kv.1)) = false)
    (pdu : Bytes)
    (henc : encodeMessage none (ovs.map fun ov => ov.1.toParam) (.dict values) trig true = .ok (pdu, 0)) :
    ∃ cursor, decodeMessage none (ovs.map fun ov => ov.1.toParam) pdu true =
      .ok (.dict (ovs.map fun ov => (ov.1.name, PVal.atom ov.2)), cursor) := by
  obtain ⟨s0, hm, hu, hw, hc, ho, hrun⟩ := encodeMessage_flat ovs hlen values trig hok hlook hknown
  rw [hrun] at henc
  simp only [Except.ok.injEq, Prod.mk.injEq] at henc
  obtain ⟨hpdu, hwarn⟩ := henc
  have hall : AllBytes s0.msg := by rw [hm]; intro b hb; cases hb
  let d : DecState := { msg := pdu }
  have hcore := flat_core ovs s0 d hok hall (by simp [d, ho]) (by simp [d, hc]) (by simp [d, hpdu]) (by rw [hwarn, hw])
  have hfit := flat_fits ovs s0 d hok hall (by simp [d, ho]) (by simp [d, hc]) (by simp [d, hpdu]) (by rw [hwarn, hw])
  have hmap : (ovs.map (·.1)).map Obj.toParam = ovs.map fun ov => ov.1.toParam := by simp [List.map_map, Function.comp_def]
  have hdec := decodeMessage_flat (ovs.map (·.1)) (by simpa using hlen)
    (fun o ho' => by
      obtain ⟨ov, hov, rfl⟩ := List.mem_map.mp ho'
      exact (hok ov hov).1) pdu hfit
  rw [hmap] at hdec
  refine ⟨(decAll (ovs.map (·.1)) { msg := pdu }).2.cursorByte, ?_⟩
  rw [hdec]
  have h1 : (decAll (ovs.map (·.1)) { msg := pdu }).1 = ovs.map (fun ov => ov.2) := hcore.1
  rw [h1, zip_values]

end OdxVerif.Codec
