import OdxVerif.Model.Decode
/-! C17, first sentence, as a property of model computations: a strict success is reproduced identically
    by the lenient run. Preserved by every combinator except `tryCatch` with a handler that can catch an
    `odxraise`d error and `readFlag`. Core Lean only. -/
namespace OdxVerif.OdxM
variable {σ α β : Type}

/-- strict success ⇒ identical lenient result (value *and* final state) -/
def Sim (m : OdxM σ α) : Prop := ∀ s r, m s true = .ok r → m s false = .ok r

theorem sim_pure (a : α) : Sim (Pure.pure a : OdxM σ α) := fun _ _ h => h
theorem sim_pure' (a : α) : Sim (OdxM.pure a : OdxM σ α) := fun _ _ h => h
theorem sim_odxraise (e : Err) : Sim (odxraise e : OdxM σ Unit) := by
  intro s r h; simp [odxraise] at h
theorem sim_raise (e : Err) : Sim (raise e : OdxM σ α) := by
  intro s r h; simp [raise] at h
theorem sim_getS : Sim (getS : OdxM σ σ) := fun _ _ h => h
theorem sim_setS (s' : σ) : Sim (setS s' : OdxM σ Unit) := fun _ _ h => h
theorem sim_modifyS (f : σ → σ) : Sim (modifyS f : OdxM σ Unit) := fun _ _ h => h
theorem sim_odxassert (c : Bool) : Sim (odxassert c : OdxM σ Unit) := by
  unfold odxassert; split
  · exact sim_pure' ()
  · exact sim_odxraise _
theorem sim_liftE (x : Except Err α) : Sim (liftE x : OdxM σ α) := by
  intro s r h; cases x <;> simp [liftE] at h ⊢ <;> exact h

theorem sim_bind' (m : OdxM σ α) (f : α → OdxM σ β) (hm : Sim m) (hf : ∀ a, Sim (f a)) :
    Sim (OdxM.bind m f) := by
  intro s r h
  unfold OdxM.bind at h ⊢
  cases hms : m s true with
  | error e => rw [hms] at h; cases h
  | ok p =>
    obtain ⟨a, s'⟩ := p
    rw [hms] at h
    rw [hm s (a, s') hms]
    exact hf a s' r h

theorem sim_bind (m : OdxM σ α) (f : α → OdxM σ β) (hm : Sim m) (hf : ∀ a, Sim (f a)) :
    Sim (m >>= f) := sim_bind' m f hm hf

theorem sim_ite (c : Prop) [Decidable c] (a b : OdxM σ α) (ha : Sim a) (hb : Sim b) :
    Sim (if c then a else b) := by split <;> assumption

/-- a handler is harmless when every error it can catch is raised in lenient mode as well -/
theorem sim_tryCatch (m : OdxM σ α) (handles : Err → Bool) (h : Err → OdxM σ α)
    (hm : Sim m) (hh : ∀ e, Sim (h e))
    (hsame : ∀ s e s', m s true = .error (e, s') → handles e = true → m s false = .error (e, s')) :
    Sim (tryCatch m handles h) := by
  intro s r hr
  unfold tryCatch at hr ⊢
  cases hms : m s true with
  | ok p => rw [hms] at hr; rw [hm s p hms]; exact hr
  | error es =>
    obtain ⟨e, s'⟩ := es
    rw [hms] at hr
    simp only at hr
    by_cases hc : handles e = true
    · rw [if_pos hc] at hr
      rw [hsame s e s' hms hc]
      simp only [if_pos hc]
      exact hh e s' r hr
    · rw [if_neg hc] at hr; cases hr

/-- the two ways to break the law: a handler that swallows an `odxraise`d error … -/
def bad : OdxM Unit Nat :=
  tryCatch (OdxM.bind (odxraise .decode) fun _ => OdxM.pure 1) (fun _ => true) (fun _ => OdxM.pure 2)
theorem bad_not_sim : ¬ Sim bad := by
  intro h; have := h () (2, ()) (by rfl); cases this
/-- … and reading the flag directly -/
def bad2 : OdxM Unit Nat := OdxM.bind readFlag fun b => OdxM.pure (if b then 1 else 2)
theorem bad2_not_sim : ¬ Sim bad2 := by
  intro h; have := h () (1, ()) (by rfl); cases this

attribute [irreducible] Sim

end OdxVerif.OdxM

namespace OdxVerif.Codec
open OdxVerif.OdxM OdxVerif.Bits

/-- discharge `Sim` goals for code written with the combinators -/
macro "sim_step" : tactic =>
  `(tactic| first
    | exact sim_pure _ | exact sim_pure' _ | exact sim_odxraise _ | exact sim_raise _ | exact sim_getS
    | exact sim_setS _ | exact sim_modifyS _ | exact sim_odxassert _
    | assumption
    | apply sim_bind | apply sim_bind' | apply sim_ite
    | intro _)
macro "sim" : tactic => `(tactic| repeat (first | split | sim_step))

theorem sim_emplaceBytes (new : Bytes) (mask : Option Bytes) : Sim (emplaceBytes new mask) := by
  unfold emplaceBytes; sim

theorem sim_rawOfInt32 (enc : Option Enc) (bl : Nat) (v : Int) : Sim (rawOfInt32 enc bl v) := by
  unfold rawOfInt32; sim

theorem sim_rawOfUInt32 (enc : Option Enc) (bl : Nat) (v : Int) : Sim (rawOfUInt32 enc bl v) := by
  unfold rawOfUInt32; sim

theorem sim_fitBytes (raw : Bytes) (bl : Nat) : Sim (fitBytes raw bl) := by
  unfold fitBytes; sim

end OdxVerif.Codec
