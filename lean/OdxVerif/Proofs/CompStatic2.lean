import OdxVerif.Proofs.CompStatic
import OdxVerif.Proofs.CompReject2Described
/-! Compositional tier, C08, second part (task W18): required parameters and static length through the descriptions of
    `DescribedP2` (all nine leaf kinds, STRUCTURE with BYTE-SIZE, field items with optional BYTE-SIZE).
    * a described parameter can be omitted iff it is not reported required (`DescribedP2.fill_none`); a BYTE-SIZE structure
      does not accept what its content does not accept (`DDesc.structBS_fill_none_of_mem`); omitted non-required parameters do
      not matter (`PDescs.fill_omit2`);
    * **static length of a BYTE-SIZE structure**: every accepted encoding advances the cursor by exactly BYTE-SIZE bytes
      (`DDesc.structBS_cursor`) — 8 × that is what `Dop.staticBitLen` reports.  Core Lean only. -/
namespace OdxVerif.Codec
open OdxVerif.Bits OdxVerif.OdxM

theorem DescribedP2.fill_none {p : PDesc} (h : DescribedP2 p) : (p.fill none).isSome = !p.param.kind.required := by
  cases h <;> rfl

theorem DDesc.structBS_fill_none_of_content (bs : Nat) (ps : List PDesc) (pv : PVal) (h : (DDesc.struct ps).fill pv = none) :
    (DDesc.structBS bs ps).fill pv = none := by
  simp only [DDesc.structBS, h]

/-- a BYTE-SIZE structure does not accept a dictionary one of its parameters does not accept -/
theorem DDesc.structBS_fill_none_of_mem (bs : Nat) (ps : List PDesc) (kvs : List (String × PVal)) (p : PDesc) (hp : p ∈ ps)
    (h : p.fill (lookupV p.name kvs) = none) : (DDesc.structBS bs ps).fill (.dict kvs) = none :=
  DDesc.structBS_fill_none_of_content bs ps _ (DDesc.struct_fill_none_of_mem ps kvs p hp h)

theorem DDesc.structBS_fill_size (bs : Nat) (ps : List PDesc) (pv : PVal) (c : DComp) (h : (DDesc.structBS bs ps).fill pv = some c) :
    c.size = bs := by
  simp only [DDesc.structBS] at h
  cases hc : (DDesc.struct ps).fill pv with
  | none => rw [hc] at h; cases h
  | some c0 =>
    rw [hc] at h
    by_cases hsz : c0.size ≤ bs
    · simp only [hsz, if_true, Option.some.injEq] at h
      rw [← h]; rfl
    · simp [hsz] at h

/-- **static length of a STRUCTURE with BYTE-SIZE**: whatever is supplied (atoms Python can supply), if the strict encoder
    accepts, its cursor ends exactly BYTE-SIZE bytes behind the structure's first byte -/
theorem DDesc.structBS_cursor (bs : Nat) (ps : List PDesc) (hok : ∀ p ∈ ps, p.OkW) (hn : PDescs.namesOk ps)
    (hne : PDescs.anyEop ps = false) (pv : PVal) (hwf : pv.wfAtoms = true) (fuel : Nat)
    (hfu : (DDesc.structBS bs ps).need pv ≤ fuel) (s s' : EncState) (hcb : s.cursorBit = 0)
    (h : encodeDop fuel (.struct (some bs) (PDescs.toParams ps)) pv s true = .ok ((), s')) :
    s'.cursorByte = s.cursorByte + bs ∧ (DDesc.structBS bs ps).fill pv ≠ none := by
  have hS := DDesc.structBS_okW bs ps hok hn hne
  cases hf : (DDesc.structBS bs ps).fill pv with
  | none =>
    obtain ⟨e, s2, hrun, _⟩ := hS.rej pv hwf hf fuel hfu s hcb (fun he => by cases he)
    have hrun' : encodeDop fuel (.struct (some bs) (PDescs.toParams ps)) pv s true = .error (e, s2) := hrun
    rw [hrun'] at h; cases h
  | some c =>
    have hc := hS.acc pv c hf
    obtain ⟨s1, hrun, hcore, _⟩ := hc.ok.encode_eq fuel (Nat.le_trans hc.need hfu) s hcb
      (fun he => by have := hc.eop he; cases this)
    rw [hc.dop, hc.sup] at hrun
    have hrun' : encodeDop fuel (.struct (some bs) (PDescs.toParams ps)) pv s true = .ok ((), s1) := hrun
    rw [hrun'] at h
    simp only [Except.ok.injEq, Prod.mk.injEq, true_and] at h
    subst h
    refine ⟨?_, fun h => by cases h⟩
    rw [hcore.2.2.2.1, hc.ok.enc_cursor, DDesc.structBS_fill_size bs ps pv c hf]

/-- omitted non-required parameters do not matter (`PDescs.fill_omit` for `DescribedP2`) -/
theorem PDescs.fill_omit2 : (ps : List PDesc) → (∀ p ∈ ps, DescribedP2 p) → ∀ (kvs kvs2 : List (String × PVal)),
    (∀ p ∈ ps, lookupV p.name kvs2 = lookupV p.name kvs ∨ (p.param.kind.required = false ∧ lookupV p.name kvs2 = none)) →
    (PDescs.fill ps kvs).isSome = true → (PDescs.fill ps kvs2).isSome = true
  | [], _, _, _, _, _ => rfl
  | p :: ps, hd, kvs, kvs2, hag, h => by
    simp only [PDescs.fill] at h ⊢
    cases h1 : p.fill (lookupV p.name kvs) with
    | none => rw [h1] at h; cases h
    | some g =>
      cases h2 : PDescs.fill ps kvs with
      | none => rw [h1, h2] at h; cases h
      | some gs =>
        have ih := PDescs.fill_omit2 ps (fun x hx => hd x (List.mem_cons_of_mem _ hx)) kvs kvs2
          (fun x hx => hag x (List.mem_cons_of_mem _ hx)) (by rw [h2]; rfl)
        have hp : (p.fill (lookupV p.name kvs2)).isSome = true := by
          rcases hag p (List.mem_cons_self ..) with he | ⟨hr, he⟩
          · rw [he, h1]; rfl
          · rw [he, (hd p (List.mem_cons_self ..)).fill_none, hr]; rfl
        cases h3 : p.fill (lookupV p.name kvs2) with
        | none => rw [h3] at hp; cases hp
        | some g2 =>
          cases h4 : PDescs.fill ps kvs2 with
          | none => rw [h4] at ih; cases ih
          | some gs2 => rfl

end OdxVerif.Codec
