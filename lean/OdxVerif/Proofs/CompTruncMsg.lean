import OdxVerif.Proofs.CompTrunc
/-! C05 for the nested tier (task W19): no decoding function of the model ever changes the message it decodes (neither when
    it returns nor when it raises) — so every object in `Reads` is an object of *the* message: `Reads.msg`.
    Same scheme as `Proofs/DecodeErrs.lean` (all decoding functions at once, by induction on the fuel).  Core Lean only. -/
namespace OdxVerif.Codec
open OdxVerif.OdxM OdxVerif.Bits

/-- the message in the final state of a run (returned or raised) -/
def resMsg {α : Type} : Except (Err × DecState) (α × DecState) → Bytes
  | .ok (_, s) => s.msg
  | .error (_, s) => s.msg

/-- the computation leaves the message alone -/
def Keeps {α : Type} (m : DecM α) : Prop := ∀ s st, resMsg (m s st) = s.msg

theorem keeps_pure {α} (a : α) : Keeps (Pure.pure a : DecM α) := fun _ _ => rfl
theorem keeps_pure' {α} (a : α) : Keeps (OdxM.pure a : DecM α) := fun _ _ => rfl
theorem keeps_getS : Keeps (getS : DecM DecState) := fun _ _ => rfl
theorem keeps_modifyS (f : DecState → DecState) (hf : ∀ s, (f s).msg = s.msg) : Keeps (modifyS f : DecM Unit) := fun s _ => hf s
theorem keeps_raise {α} (e : Err) : Keeps (raise e : DecM α) := fun _ _ => rfl
theorem keeps_odxraise (e : Err) : Keeps (odxraise e : DecM Unit) := by intro s st; cases st <;> rfl
theorem keeps_odxassert (c : Bool) : Keeps (odxassert c : DecM Unit) := by
  unfold odxassert; split
  · exact keeps_pure' ()
  · exact keeps_odxraise _
theorem keeps_bind' {α β} (m : DecM α) (f : α → DecM β) (hm : Keeps m) (hf : ∀ a, Keeps (f a)) : Keeps (OdxM.bind m f) := by
  intro s st
  unfold OdxM.bind
  have h1 := hm s st
  cases hms : m s st with
  | error x => obtain ⟨e0, s0⟩ := x; rw [hms] at h1; exact h1
  | ok p =>
    obtain ⟨a, s1⟩ := p
    rw [hms] at h1
    have h2 := hf a s1 st
    simp only []
    rw [h2]; exact h1
theorem keeps_bind {α β} (m : DecM α) (f : α → DecM β) (hm : Keeps m) (hf : ∀ a, Keeps (f a)) : Keeps (m >>= f) :=
  keeps_bind' m f hm hf
theorem keeps_ite {α} (c : Prop) [Decidable c] (a b : DecM α) (ha : Keeps a) (hb : Keeps b) : Keeps (if c then a else b) := by
  split <;> assumption
theorem keeps_tryCatch {α} (m : DecM α) (handles : Err → Bool) (h : Err → DecM α) (hm : Keeps m) (hh : ∀ e, Keeps (h e)) :
    Keeps (OdxM.tryCatch m handles h) := by
  intro s st
  unfold OdxM.tryCatch
  have h1 := hm s st
  cases hms : m s st with
  | ok r => rw [hms] at h1; exact h1
  | error x =>
    obtain ⟨e0, s0⟩ := x
    rw [hms] at h1
    simp only []
    split
    · rw [hh e0 s0 st]; exact h1
    · exact h1

theorem Keeps.ok {α} {m : DecM α} (h : Keeps m) {s : DecState} {st : Bool} {a : α} {s' : DecState}
    (hr : m s st = .ok (a, s')) : s'.msg = s.msg := by
  have := h s st; rw [hr] at this; exact this
theorem Keeps.error {α} {m : DecM α} (h : Keeps m) {s : DecState} {st : Bool} {e : Err} {s' : DecState}
    (hr : m s st = .error (e, s')) : s'.msg = s.msg := by
  have := h s st; rw [hr] at this; exact this

attribute [irreducible] Keeps

macro "keeps_step" : tactic =>
  `(tactic| first
    | exact keeps_pure _ | exact keeps_pure' _ | exact keeps_getS | exact keeps_modifyS _ (fun _ => rfl)
    | exact keeps_raise _ | exact keeps_odxraise _ | exact keeps_odxassert _
    | assumption
    | apply keeps_bind | apply keeps_bind' | apply keeps_ite
    | intro _)

theorem keeps_convertRaw (bt : BaseType) (enc : Option Enc) (hl : Bool) (bl raw : Nat) : Keeps (convertRaw bt enc hl bl raw) := by
  unfold convertRaw
  cases bt <;> simp only [] <;> repeat (first | split | keeps_step)

theorem keeps_extractCore (bl : Nat) (bt : BaseType) (enc : Option Enc) (hl : Bool) : Keeps (extractCore bl bt enc hl) := by
  unfold extractCore
  apply keeps_bind
  · exact keeps_getS
  · intro s
    dsimp only
    repeat (first | exact keeps_convertRaw _ _ _ _ _ | split | keeps_step)

theorem keeps_extractAtomic (bl : Nat) (bt : BaseType) (enc : Option Enc) (hl : Bool) : Keeps (extractAtomic bl bt enc hl) := by
  unfold extractAtomic
  repeat (first | exact keeps_extractCore _ _ _ _ | split | keeps_step)

theorem keeps_unapplyMask (m : Nat) (c : Bool) (v : IVal) : Keeps (unapplyMask m c v : DecM IVal) := by
  unfold unapplyMask
  cases v <;> simp only [] <;> repeat (first | split | keeps_step)

macro "keeps1" : tactic => `(tactic| first
    | exact keeps_extractAtomic _ _ _ _ | exact keeps_unapplyMask _ _ _ | split | keeps_step | dsimp only
    | (simp only [Nat.succ_eq_add_one, Nat.add_right_cancel_iff] at *; subst_vars))
macro "keeps" : tactic => `(tactic| repeat keeps1)

theorem keeps_decodeDct (dct : Dct) : Keeps (decodeDct dct) := by
  unfold decodeDct
  cases dct with
  | std bt enc hl bl mask c => cases mask <;> simp only [] <;> keeps
  | minmax bt enc hl mn mx t => simp only []; keeps
  | leading bt enc hl bl => simp only []; keeps
  | paramLen bt enc hl key => simp only []; keeps

theorem keeps_methodI2P (arith : Err) (m : Compu.Method) (i : Compu.Val) :
    Keeps (methodI2P arith m i : DecM (Option Compu.Val)) := by
  unfold methodI2P
  cases m <;> simp only [] <;> repeat (first | split | keeps_step)

theorem keeps_dopI2P (m : Compu.Method) (v : IVal) : Keeps (dopI2P m v : DecM (Option IVal)) := by
  unfold dopI2P
  repeat (first | exact keeps_methodI2P _ _ _ | split | keeps_step)

set_option maxHeartbeats 1600000 in
/-- every decoding function of the model, by induction on the fuel -/
theorem keeps_decode_all (fuel : Nat) :
    (∀ d, Keeps (decodeDop fuel d)) ∧
    (∀ item sz n, Keeps (decodeStaticItems item sz fuel n)) ∧
    (∀ item n, Keeps (decodeNItems item fuel n)) ∧
    (∀ item, Keeps (decodeToEnd item fuel)) ∧
    (∀ tv td item, Keeps (decodeUntilMarker tv td item fuel)) ∧
    (∀ p, Keeps (decodeParam fuel p)) ∧
    (∀ ps, Keeps (decodeParams fuel ps)) ∧
    (∀ ps, Keeps (decodeComposite fuel ps)) := by
  induction fuel with
  | zero =>
    refine ⟨?_, ?_, ?_, ?_, ?_, ?_, ?_, ?_⟩ <;> intros
    · unfold decodeDop; exact keeps_raise _
    · unfold decodeStaticItems; exact keeps_raise _
    · unfold decodeNItems; exact keeps_raise _
    · unfold decodeToEnd; exact keeps_raise _
    · unfold decodeUntilMarker; exact keeps_raise _
    · unfold decodeParam; exact keeps_raise _
    · unfold decodeParams; exact keeps_raise _
    · unfold decodeComposite; exact keeps_raise _
  | succ fuel ih =>
    obtain ⟨ihDop, ihStatic, ihN, ihEnd, ihMark, ihParam, ihParams, ihComp⟩ := ih
    refine ⟨?_, ?_, ?_, ?_, ?_, ?_, ?_, ?_⟩
    · intro d
      cases d <;> unfold decodeDop <;>
        repeat (first
          | exact ihDop _ | exact ihStatic _ _ _ | exact ihN _ _ | exact ihEnd _ | exact ihMark _ _ _ | exact ihComp _
          | exact ihParam _ | exact keeps_decodeDct _ | exact keeps_dopI2P _ _
          | exact keeps_methodI2P _ _ _ | keeps1)
    · intro item sz n
      unfold decodeStaticItems
      repeat (first | exact ihDop _ | exact ihStatic _ _ _ | keeps1)
    · intro item n
      unfold decodeNItems
      repeat (first | exact ihDop _ | exact ihN _ _ | keeps1)
    · intro item
      unfold decodeToEnd
      repeat (first | exact ihDop _ | exact ihEnd _ | keeps1)
    · intro tv td item
      unfold decodeUntilMarker
      repeat (first
        | exact ihDop _ | exact ihMark _ _ _
        | (apply keeps_tryCatch)
        | keeps1)
    · intro p
      cases p with
      | mk name bytePos bitPos kind =>
        unfold decodeParam
        cases kind <;>
        repeat (first | exact ihDop _ | exact keeps_decodeDct _ | keeps1)
    · intro ps
      unfold decodeParams
      repeat (first | exact ihParam _ | exact ihParams _ | keeps1)
    · intro ps
      unfold decodeComposite
      repeat (first | exact ihParams _ | keeps1)

end OdxVerif.Codec
