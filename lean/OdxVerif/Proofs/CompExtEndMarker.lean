import OdxVerif.Proofs.CompExtPeek
import OdxVerif.Proofs.CompExtFieldsD
/-! Compositional components, extension W11 (5): **DYNAMIC-ENDMARKER-FIELD**.
    `DynamicEndmarkerField.encode_into_pdu`: the items (the last one inherits `is_end_of_pdu`), then — unless at the end of the
    PDU — the termination value through the DYN-END-DOP, after which the cursor is PUT BACK in front of it ("the end marker is
    not consumed", MCD-2 D 7.3.6.10.5).  `decode_from_pdu`: at every item boundary, stop if the message ends there; else try
    to decode the DYN-END-DOP (`try … except DecodeError: pass`), stop if it yields the termination value (cursor back); else
    decode an item (which must consume data).  The encoder does NOT check that no item starts with the termination value (open
    finding `end-marker-item-collision`, C04): that is the hypothesis `EmLayout.miss` on every item — whenever the item's
    decoder accepts a message and returns the item's value, the termination object read at the item's first byte differs from
    the termination value — with the decidable sufficient condition `EmLayout.miss_of_first` (the item structure starts with a
    parameter coded like the termination object whose value differs from the termination value).
    Two situations, as for MIN-MAX-LENGTH-TYPE: at the end of the PDU (`DComp.endMarkerEop`: no end marker, `eopOnly`, decoder
    precondition "ends at the end") and anywhere else (`DComp.endMarkerMid`: end marker written, needs `is_end_of_pdu`
    cleared: `DComp.OkM _ true`).  Termination objects: `A_UINT32`, 1–64 bits, no encoding, at the byte boundary.  Core Lean only. -/
set_option linter.unusedSimpArgs false
namespace OdxVerif.OdxM
theorem run_tryCatch {σ α : Type} (m : OdxM σ α) (handles : Err → Bool) (h : Err → OdxM σ α) (s : σ) (st : Bool) :
    (OdxM.tryCatch m handles h) s st = (match m s st with
      | .ok r => .ok r
      | .error (e, s') => if handles e then h e s' st else .error (e, s')) := rfl
end OdxVerif.OdxM

namespace OdxVerif.Codec
open OdxVerif.Bits OdxVerif.OdxM

/-- the DYN-END-DOP (an `A_UINT32` standard-length DOP with the identical compu method) and the TERMINATION-VALUE -/
structure EmLayout where
  hl : Bool
  bl : Nat
  tv : Int

def EmLayout.obj (l : EmLayout) : Obj := ⟨"", none, none, none, l.hl, l.bl, .uint32⟩
def EmLayout.dop (l : EmLayout) : Dop := .simple (.std .uint32 none l.hl l.bl none false) .uint32 .identical
/-- 1 ≤ bit length ≤ 64, 0 ≤ termination value < 2^bit length -/
def EmLayout.ok (l : EmLayout) : Prop := l.obj.ok ∧ l.obj.inRange (.int l.tv)

theorem EmLayout.pos (l : EmLayout) (org c : Nat) : l.obj.pos org c = c := rfl

theorem EmLayout.k_pos (l : EmLayout) (h : l.ok) : 1 ≤ l.obj.k := by
  have := h.1.2.1
  show 1 ≤ (l.bl + 0 + 7) / 8
  have : 1 ≤ l.bl := this
  omega

/-- **no item starts with the termination value**: whenever the item's decoder accepts `d` and returns the item's value, the
    termination object read at `d` is not the termination value -/
def EmLayout.miss (l : EmLayout) (c : DComp) : Prop :=
  ∀ d, c.pair.fits d → (c.pair.dec d).1 = c.pair.val → (decStep l.obj d).1 ≠ .int l.tv

/-! ### the probe -/

theorem DecState.cursor_eta (d : DecState) (h : d.cursorBit = 0) :
    ({ d with cursorByte := d.cursorByte, cursorBit := 0 } : DecState) = d := by
  cases d; simp only at h; subst h; rfl

/-- the DYN-END-DOP on a message that ends too early: `DecodeError`, state untouched -/
theorem EmLayout.decode_short (l : EmLayout) (h : l.ok) (g : Nat) (d : DecState) (hcb : d.cursorBit = 0)
    (hshort : ¬ (d.cursorByte + l.obj.k ≤ d.msg.length)) :
    decodeDop (g + 1) l.dop d true = .error (.decode, d) := by
  have hbl : 1 ≤ l.bl := h.1.2.1
  have h64 : l.bl ≤ 64 := h.1.2.2
  have hb0 : l.bl ≠ 0 := by omega
  have hn64 : ¬ (64 < l.bl) := by omega
  have hnl : d.msg.length < d.cursorByte + (l.bl + 7) / 8 := by
    have : l.obj.k = (l.bl + 0 + 7) / 8 := rfl
    rw [this] at hshort
    omega
  simp [EmLayout.dop, decodeDop, decodeDct, extractAtomic, extractCore, bind, pure, run_bind, run_getS,
    run_raise, BaseType.isNumeric, hb0, hcb, hn64, hnl]

/-- … and on a message that is long enough: the value read, cursor behind it -/
theorem EmLayout.decode_long (l : EmLayout) (h : l.ok) (g : Nat) (d : DecState) (hcb : d.cursorBit = 0)
    (hlong : d.cursorByte + l.obj.k ≤ d.msg.length) :
    decodeDop (g + 1) l.dop d true = .ok (.atom (decStep l.obj d).1, (decStep l.obj d).2) := by
  have := decodeDop_obj l.obj h.1 g d hlong (Obj.decodes_of_int _ (Or.inr rfl) _)
  have hd : ({ d with cursorByte := posOf l.obj.bytePos d.origin d.cursorByte, cursorBit := l.obj.bitPos.getD 0 } : DecState) = d :=
    DecState.cursor_eta d hcb
  rw [hd] at this
  exact this

/-- the probe of `decodeUntilMarker` at `d` (the DYN-END-DOP inside `try … except DecodeError`, then the cursor put back):
    the state is `d` again, and it reports a hit iff the object is there and reads as the termination value -/
def emProbe (l : EmLayout) (g : Nat) (d : DecState) : Except (Err × DecState) (Bool × DecState) :=
  (do
    let hit ← tryCatch
      (do let tv ← decodeDop (g + 1) l.dop
          pure (match tv with | .atom v => v == IVal.int l.tv | _ => false))
      (fun e => e = .decode ∨ e = .mismatch) (fun _ => pure false)
    modifyS fun s' => { s' with cursorByte := d.cursorByte }
    pure hit : DecM Bool) d true

theorem emProbe_miss (l : EmLayout) (h : l.ok) (g : Nat) (d : DecState) (hcb : d.cursorBit = 0)
    (hm : (decStep l.obj d).1 ≠ .int l.tv) : emProbe l g d = .ok (false, d) := by
  unfold emProbe
  by_cases hlong : d.cursorByte + l.obj.k ≤ d.msg.length
  · have hd := l.decode_long h g d hcb hlong
    have hne : ((decStep l.obj d).1 == IVal.int l.tv) = false := by simpa using hm
    have hst : ({ (decStep l.obj d).2 with cursorByte := d.cursorByte } : DecState) = d := by
      show ({ d with cursorByte := d.cursorByte, cursorBit := 0 } : DecState) = d
      exact DecState.cursor_eta d hcb
    simp only [bind, pure, run_bind, run_tryCatch, hd, run_pure, hne, run_modifyS, hst]
  · have hd := l.decode_short h g d hcb hlong
    have hst : ({ d with cursorByte := d.cursorByte } : DecState) = d := by cases d; rfl
    simp only [bind, pure, run_bind, run_tryCatch, hd, run_pure, run_modifyS, hst, true_or, decide_true, if_true]

theorem emProbe_hit (l : EmLayout) (h : l.ok) (g : Nat) (d : DecState) (hcb : d.cursorBit = 0)
    (hlong : d.cursorByte + l.obj.k ≤ d.msg.length) (hv : (decStep l.obj d).1 = .int l.tv) : emProbe l g d = .ok (true, d) := by
  unfold emProbe
  have hd := l.decode_long h g d hcb hlong
  rw [hv] at hd
  have hst : ({ (decStep l.obj d).2 with cursorByte := d.cursorByte } : DecState) = d := by
    show ({ d with cursorByte := d.cursorByte, cursorBit := 0 } : DecState) = d
    exact DecState.cursor_eta d hcb
  simp only [bind, pure, run_bind, run_tryCatch, hd, run_pure, run_modifyS, hst, beq_self_eq_true]

/-! ### the items -/

/-- an item of a DYNAMIC-ENDMARKER-FIELD: consumes data, and the decoder's probe in front of it misses -/
def emItemC (l : EmLayout) (c : DComp) : Pair PVal :=
  { dynItemC c with fits := fun d => (dynItemC c).fits d ∧ (decStep l.obj d).1 ≠ .int l.tv }

theorem emItemC_good (l : EmLayout) (c : DComp) (hc : c.OkM true) (hsz : 1 ≤ c.size) (hm : l.miss c) : Good (emItemC l c) :=
  Good.reDec (dynItemM_good c hc hsz) (emItemC l c) rfl (fun d _ hv hf => ⟨hv, rfl, hf, hm d hf.1 hv⟩)

theorem emItems_enc (l : EmLayout) : ∀ (cs : List DComp), (Pair.list (cs.map (emItemC l))).enc = (Pair.list (cs.map dynItemC)).enc
  | [] => rfl
  | c :: cs => by
    funext s
    simp only [List.map_cons, Pair.list, Pair.map, Pair.seq]
    rw [emItems_enc l cs]
    rfl

theorem emItems_dec (l : EmLayout) : ∀ (cs : List DComp), (Pair.list (cs.map (emItemC l))).dec = (Pair.list (cs.map dynItemC)).dec
  | [] => rfl
  | c :: cs => by
    funext d
    simp only [List.map_cons, Pair.list, Pair.map, Pair.seq]
    rw [emItems_dec l cs]
    rfl

theorem emItems_val (l : EmLayout) (cs : List DComp) : (Pair.list (cs.map (emItemC l))).val = DComps.vals cs := by
  rw [Pair.list_val, List.map_map]
  rfl

theorem emItems_good (l : EmLayout) (cs : List DComp) (h : ∀ c ∈ cs, c.OkM true ∧ 1 ≤ c.size ∧ l.miss c) :
    Good (Pair.list (cs.map (emItemC l))) :=
  Good.list _ (by
    intro p hp
    obtain ⟨x, hx, rfl⟩ := List.mem_map.mp hp
    exact emItemC_good l x (h x hx).1 (h x hx).2.1 (h x hx).2.2)

theorem emItems_originFree (l : EmLayout) (cs : List DComp) (h : ∀ c ∈ cs, c.OkM true) : OriginFree (Pair.list (cs.map (emItemC l))) := by
  intro s o
  rw [emItems_enc]
  exact dynItemsM_originFree cs h s o

/-- the plain item list accepts what the end-marker item list accepts -/
theorem emItems_fits (l : EmLayout) : ∀ (cs : List DComp) (d : DecState), (Pair.list (cs.map (emItemC l))).fits d →
    (Pair.list (cs.map dynItemC)).fits d
  | [], _, _ => trivial
  | c :: cs, d, h => by
    have h' : ((dynItemC c).fits d ∧ (decStep l.obj d).1 ≠ .int l.tv) ∧
        (Pair.list (cs.map (emItemC l))).fits ((emItemC l c).dec d).2 := h
    exact ⟨h'.1.1, emItems_fits l cs _ h'.2⟩

/-- the decoder's loop of a DYNAMIC-ENDMARKER-FIELD = the pure list of items, provided that behind the items either the message
    ends or the termination value stands -/
theorem decodeUntilMarkerC_eq (l : EmLayout) (hl : l.ok) (item : Dop) : ∀ (cs : List DComp) (m : Nat),
    (∀ c ∈ cs, c.itemOkM item ∧ c.EndOk ∧ c.need ≤ m) → ∀ (fuel : Nat), cs.length + m + 2 ≤ fuel →
    ∀ (d : DecState), d.cursorBit = 0 → (Pair.list (cs.map (emItemC l))).fits d →
    (((Pair.list (cs.map dynItemC)).dec d).2.cursorByte = d.msg.length ∨
      (((Pair.list (cs.map dynItemC)).dec d).2.cursorByte + l.obj.k ≤ d.msg.length ∧
        (decStep l.obj ((Pair.list (cs.map dynItemC)).dec d).2).1 = .int l.tv)) →
    decodeUntilMarker (.int l.tv) l.dop item fuel d true =
      .ok (((Pair.list (cs.map dynItemC)).dec d).1, ((Pair.list (cs.map dynItemC)).dec d).2) := by
  intro cs
  induction cs with
  | nil =>
    intro m _ fuel hf d hcb _ htail
    obtain ⟨g, rfl⟩ : ∃ g, fuel = g + 1 + 1 := ⟨fuel - 2, by simp only [List.length_nil] at hf; omega⟩
    have hD : ((Pair.list (([] : List DComp).map dynItemC)).dec d) = ([], d) := rfl
    rw [hD] at htail ⊢
    rcases htail with hend | ⟨hlong, hv⟩
    · have hend' : d.cursorByte = d.msg.length := hend
      simp [decodeUntilMarker, bind, pure, run_bind, run_getS, run_pure, run_ite, hend']
    · have hk := l.k_pos hl
      have hne : ¬ (d.cursorByte = d.msg.length) := by
        have : d.cursorByte + l.obj.k ≤ d.msg.length := hlong
        omega
      have hp := emProbe_hit l hl g d hcb hlong hv
      unfold emProbe at hp
      simp only [bind, pure, run_bind] at hp
      simp only [decodeUntilMarker, bind, pure, run_bind, run_getS, run_ite, hne, if_false]
      generalize (OdxM.tryCatch _ _ _ : DecM Bool) d true = r at hp ⊢
      cases r with
      | error e => simp at hp
      | ok q =>
        obtain ⟨b, d1⟩ := q
        simp only [run_modifyS, run_pure, Except.ok.injEq, Prod.mk.injEq] at hp
        obtain ⟨hb, hd1⟩ := hp
        subst hb
        simp only [run_modifyS, hd1, if_true, run_pure]
  | cons c cs ih =>
    intro m hall fuel hf d hcb hfit htail
    obtain ⟨g, rfl⟩ : ∃ g, fuel = g + 1 + 1 := ⟨fuel - 2, by simp only [List.length_cons] at hf; omega⟩
    simp only [List.length_cons] at hf
    obtain ⟨hitem, hendOk, hneed⟩ := hall c (List.mem_cons_self ..)
    have hok := hitem.1
    have hfit' : (((c.pair.fits d ∧ d.cursorByte < (c.pair.dec d).2.cursorByte)) ∧ (decStep l.obj d).1 ≠ .int l.tv) ∧
        (Pair.list (cs.map (emItemC l))).fits (c.pair.dec d).2 := hfit
    obtain ⟨⟨⟨hcfit, hadv⟩, hmiss⟩, hrest⟩ := hfit'
    have hoks : ∀ x ∈ cs, x.OkM true := fun x hx => (hall x (List.mem_cons_of_mem _ hx)).1.1
    have hge := dynItemsC_dec_cursor_ge cs _ (emItems_fits l cs _ hrest)
    have hmsgs := dynItemsM_dec_msg cs hoks (c.pair.dec d).2
    have hmsg1 := hok.dec_msg d
    have hD : ((Pair.list ((c :: cs).map dynItemC)).dec d).2 = ((Pair.list (cs.map dynItemC)).dec (c.pair.dec d).2).2 := rfl
    rw [hD] at htail
    have hlt : d.cursorByte < d.msg.length := by
      have hk := l.k_pos hl
      rcases htail with h | ⟨h, _⟩ <;> omega
    have hne : ¬ (d.cursorByte = d.msg.length) := by omega
    have h1 := hok.decode_eq (g + 1) (by omega) d hcb hcfit (hendOk.trivial hitem.2.2 d)
    rw [hitem.2.1] at h1
    have h2 := ih m (fun x hx => hall x (List.mem_cons_of_mem _ hx)) (g + 1) (by omega) (c.pair.dec d).2
      (hok.dec_cursorBit d hcb) hrest (by rw [hmsg1]; exact htail)
    have hadv' : ¬ ((c.pair.dec d).2.cursorByte ≤ d.cursorByte) := by omega
    have hp := emProbe_miss l hl g d hcb hmiss
    unfold emProbe at hp
    simp only [bind, pure, run_bind] at hp
    rw [decodeUntilMarker]
    simp only [bind, pure, run_bind, run_getS, run_ite, hne, if_false]
    generalize (OdxM.tryCatch _ _ _ : DecM Bool) d true = r at hp ⊢
    cases r with
    | error e => simp at hp
    | ok q =>
      obtain ⟨b, d1⟩ := q
      simp only [run_modifyS, run_pure, Except.ok.injEq, Prod.mk.injEq] at hp
      obtain ⟨hb, hd1⟩ := hp
      subst hb
      simp only [run_modifyS, hd1, Bool.false_eq_true, if_false, h1, run_bind, run_getS, run_ite, hadv', h2, run_pure]
      rfl

/-! ### the encoder, one unfolding -/

theorem encodeDop_em_step_eop (f : Nat) (tv : IVal) (td item : Dop) (xs : List PVal) (s : EncState)
    (hcb : s.cursorBit = 0) (heop : s.isEndOfPdu = true) :
    encodeDop (f + 1) (.endMarkerField tv td item) (.list xs) s true =
      (match encodeItems item true f xs { s with isEndOfPdu := false } true with
       | .ok (_, s') => .ok ((), { s' with isEndOfPdu := true })
       | .error e => .error e) := by
  simp only [encodeDop, bind, pure, run_bind, run_getS, run_modifyS, run_pure, odxassert, hcb, heop, decide_true, if_true]
  generalize encodeItems item true f xs _ true = r
  cases r with
  | error e => rfl
  | ok p => cases p; rfl

theorem encodeDop_em_step_mid (f : Nat) (tv : IVal) (td item : Dop) (xs : List PVal) (s : EncState)
    (hcb : s.cursorBit = 0) (heop : s.isEndOfPdu = false) :
    encodeDop (f + 1) (.endMarkerField tv td item) (.list xs) s true =
      (match encodeItems item false f xs { s with isEndOfPdu := false } true with
       | .ok (_, s1) =>
         (match encodeDop f td (.atom tv) { s1 with isEndOfPdu := false } true with
          | .ok (_, s2) => .ok ((), { s2 with cursorByte := s1.cursorByte })
          | .error e => .error e)
       | .error e => .error e) := by
  simp only [encodeDop, bind, pure, run_bind, run_getS, run_modifyS, run_pure, odxassert, hcb, heop, decide_true, if_true]
  generalize encodeItems item false f xs _ true = r
  cases r with
  | error e => rfl
  | ok p =>
    obtain ⟨u, s1⟩ := p
    simp only [Bool.not_false, if_true, run_bind, run_getS]
    generalize encodeDop f td (PVal.atom tv) _ true = r2
    cases r2 with
    | error e => rfl
    | ok q => cases q; rfl

theorem decodeDop_em_step (f : Nat) (tv : IVal) (td item : Dop) (d : DecState) (hcb : d.cursorBit = 0) :
    decodeDop (f + 1) (.endMarkerField tv td item) d true =
      (match decodeUntilMarker tv td item f { d with origin := d.cursorByte } true with
       | .ok (xs, d') => .ok (.list xs, { d' with origin := d.origin })
       | .error e => .error e) := by
  simp only [decodeDop, bind, pure, run_bind, run_getS, run_modifyS, run_pure, odxassert, hcb, decide_true, if_true]
  generalize decodeUntilMarker tv td item f _ true = r
  cases r with
  | error e => rfl
  | ok p => cases p; rfl

/-! ### at the end of the PDU: no end marker -/

/-- a DYNAMIC-ENDMARKER-FIELD at the end of the PDU: the items only; `eopOnly`, the decoder needs them to end where the message
    ends -/
def DComp.endMarkerEop (l : EmLayout) (item : Dop) (cs : List DComp) : DComp where
  dop := .endMarkerField (.int l.tv) l.dop item
  pair := ((Pair.list (cs.map (emItemC l))).map PVal.list).inOrigin
  sup := .list (DComps.sups cs)
  need := cs.length + DComps.maxNeed cs + 3
  size := DComps.size cs
  eopOnly := true
  decPre := fun d => ((Pair.list (cs.map dynItemC)).dec { d with origin := d.cursorByte }).2.cursorByte = d.msg.length

theorem DComp.endMarkerEop_val (l : EmLayout) (item : Dop) (cs : List DComp) :
    (DComp.endMarkerEop l item cs).pair.val = .list (DComps.vals cs) := by
  show PVal.list (Pair.list (cs.map (emItemC l))).val = _
  rw [emItems_val]

/-- **closure under DYNAMIC-ENDMARKER-FIELD, at the end of the PDU** -/
theorem DComp.endMarkerEop_ok (l : EmLayout) (hl : l.ok) (item : Dop) (cs : List DComp)
    (h : ∀ c ∈ cs, c.itemOkM item ∧ c.EndOk ∧ 1 ≤ c.size ∧ l.miss c) (hlastM : ∀ c, cs.getLast? = some c → c.OkM false) :
    (DComp.endMarkerEop l item cs).Ok := by
  have hoks : ∀ c ∈ cs, c.OkM true := fun c hc => (h c hc).1.1
  have hg : Good (Pair.list (cs.map (emItemC l))) := emItems_good l _ (fun c hc => ⟨(h c hc).1.1, (h c hc).2.2.1, (h c hc).2.2.2⟩)
  exact {
    good := (hg.map _).inOrigin
    sup_ne_none := by simp [DComp.endMarkerEop]
    originFree := OriginFree.inOrigin _
    dec_originFree := fun _ _ => rfl
    fits_originFree := fun _ _ => rfl
    encode_eq := by
      intro fuel hf s hcb heop
      obtain ⟨g, rfl⟩ : ∃ g, fuel = g + 1 := ⟨fuel - 1, by simp only [DComp.endMarkerEop] at hf; omega⟩
      obtain ⟨s2, hrun, hcore, hcb2⟩ := encodeItemsM_eq item true false (fun hm => by cases hm) cs (DComps.maxNeed cs)
        (fun c hc => ⟨(h c hc).1, (h c hc).2.2.1, DComps.maxNeed_ge cs c hc⟩) hlastM g (by simp only [DComp.endMarkerEop] at hf; omega)
        { s with isEndOfPdu := false } hcb rfl
      rw [← emItems_enc l] at hcore
      refine ⟨{ s2 with isEndOfPdu := true }, ?_, ?_, hcb2⟩
      · simp only [DComp.endMarkerEop]
        rw [encodeDop_em_step_eop g _ _ _ _ s hcb (heop rfl)]
        rw [hrun]
      · have h1 : SameCore { s with isEndOfPdu := false } s := ⟨rfl, rfl, rfl, rfl, rfl⟩
        have h2 := hcore.trans (hg.core _ _ h1)
        have h3 := h2.trans ((emItems_originFree l cs hoks).sameCore_inOrigin hg s)
        exact ⟨h3.1, h3.2.1, h3.2.2.1, h3.2.2.2.1, h3.2.2.2.2⟩
    enc_cursor := fun s => by
      show ((Pair.list (cs.map (emItemC l))).enc { s with origin := s.cursorByte }).cursorByte = _
      rw [emItems_enc]
      exact dynItemsM_enc_cursor cs hoks { s with origin := s.cursorByte }
    dec_cursorBit := fun d hd => by
      show ((Pair.list (cs.map (emItemC l))).dec { d with origin := d.cursorByte }).2.cursorBit = 0
      rw [emItems_dec]
      exact dynItemsM_dec_cursorBit cs hoks { d with origin := d.cursorByte } hd
    dec_msg := fun d => by
      show ((Pair.list (cs.map (emItemC l))).dec { d with origin := d.cursorByte }).2.msg = d.msg
      rw [emItems_dec]
      exact dynItemsM_dec_msg cs hoks { d with origin := d.cursorByte }
    dec_origin := fun _ => rfl
    decode_eq := by
      intro fuel hf d hcb hfit hpre
      obtain ⟨g, rfl⟩ : ∃ g, fuel = g + 1 := ⟨fuel - 1, by simp only [DComp.endMarkerEop] at hf; omega⟩
      have hfit' : (Pair.list (cs.map (emItemC l))).fits { d with origin := d.cursorByte } := hfit
      have hrun := decodeUntilMarkerC_eq l hl item cs (DComps.maxNeed cs)
        (fun c hc => ⟨(h c hc).1, (h c hc).2.1, DComps.maxNeed_ge cs c hc⟩) g (by simp only [DComp.endMarkerEop] at hf; omega)
        { d with origin := d.cursorByte } hcb hfit' (Or.inl hpre)
      simp only [DComp.endMarkerEop]
      rw [decodeDop_em_step g _ _ _ d hcb, hrun]
      show _ = Except.ok (PVal.list ((Pair.list (cs.map (emItemC l))).dec { d with origin := d.cursorByte }).1,
        { ((Pair.list (cs.map (emItemC l))).dec { d with origin := d.cursorByte }).2 with origin := d.origin })
      rw [emItems_dec] }

theorem DComp.endMarkerEop_endOk (l : EmLayout) (item : Dop) (cs : List DComp) : (DComp.endMarkerEop l item cs).EndOk where
  of_end := fun d h => by
    have h' : ((Pair.list (cs.map (emItemC l))).dec { d with origin := d.cursorByte }).2.cursorByte = d.msg.length := h
    rw [emItems_dec] at h'
    exact h'
  trivial := fun h => by cases h

/-! ### anywhere else: the end marker is written (and not consumed) -/

theorem EncState.cursor_eta (s : EncState) (h : s.cursorBit = 0) :
    ({ s with cursorByte := s.cursorByte, cursorBit := 0 } : EncState) = s := by
  cases s; simp only at h; subst h; rfl

/-- the end marker: the termination value through the DYN-END-DOP, cursor put back -/
def EmLayout.marker (l : EmLayout) : Pair Unit := (Pair.ofObj l.obj (.int l.tv)).peek

theorem EmLayout.marker_good (l : EmLayout) (h : l.ok) : Good l.marker := (Good.ofObj l.obj h.1 _ h.2).peek

theorem EmLayout.marker_originFree (l : EmLayout) : OriginFree l.marker := fun _ _ => rfl

/-- the items, then the end marker -/
def emBodyMid (l : EmLayout) (cs : List DComp) : Pair PVal :=
  ((Pair.list (cs.map (emItemC l))).seq l.marker).map (fun p => PVal.list p.1)

/-- a DYNAMIC-ENDMARKER-FIELD that is not at the end of the PDU: items, end marker; the cursor stays in front of the end
    marker (`size` = the items only) -/
def DComp.endMarkerMid (l : EmLayout) (item : Dop) (cs : List DComp) : DComp where
  dop := .endMarkerField (.int l.tv) l.dop item
  pair := (emBodyMid l cs).inOrigin
  sup := .list (DComps.sups cs)
  need := cs.length + DComps.maxNeed cs + 3
  size := DComps.size cs

theorem DComp.endMarkerMid_val (l : EmLayout) (item : Dop) (cs : List DComp) :
    (DComp.endMarkerMid l item cs).pair.val = .list (DComps.vals cs) := by
  show PVal.list (Pair.list (cs.map (emItemC l))).val = _
  rw [emItems_val]

/-- **closure under DYNAMIC-ENDMARKER-FIELD, end marker written**: a data object that needs `is_end_of_pdu` cleared -/
theorem DComp.endMarkerMid_ok (l : EmLayout) (hl : l.ok) (item : Dop) (cs : List DComp)
    (h : ∀ c ∈ cs, c.itemOkM item ∧ c.EndOk ∧ 1 ≤ c.size ∧ l.miss c) : (DComp.endMarkerMid l item cs).OkM true := by
  have hoks : ∀ c ∈ cs, c.OkM true := fun c hc => (h c hc).1.1
  have hg : Good (Pair.list (cs.map (emItemC l))) := emItems_good l _ (fun c hc => ⟨(h c hc).1.1, (h c hc).2.2.1, (h c hc).2.2.2⟩)
  have hgm := l.marker_good hl
  have hgb : Good (emBodyMid l cs) := (hg.seq hgm).map _
  have hofb : OriginFree (emBodyMid l cs) := ((emItems_originFree l cs hoks).seq l.marker_originFree).map _
  exact {
    good := hgb.inOrigin
    sup_ne_none := by simp [DComp.endMarkerMid]
    originFree := OriginFree.inOrigin _
    dec_originFree := fun _ _ => rfl
    fits_originFree := fun _ _ => rfl
    encode_eq := by
      intro fuel hf s hcb _ hmid
      have heop : s.isEndOfPdu = false := hmid rfl
      obtain ⟨g, rfl⟩ : ∃ g, fuel = g + 1 + 1 := ⟨fuel - 2, by simp only [DComp.endMarkerMid] at hf; omega⟩
      obtain ⟨s1, hrun, hcore, hcb1⟩ := encodeItemsM_eq item false true (fun _ => rfl) cs (DComps.maxNeed cs)
        (fun c hc => ⟨(h c hc).1, (h c hc).2.2.1, DComps.maxNeed_ge cs c hc⟩) (fun c hc => hoks c (List.mem_of_getLast? hc)) (g + 1)
        (by simp only [DComp.endMarkerMid] at hf; omega) { s with isEndOfPdu := false } hcb rfl
      rw [← emItems_enc l] at hcore
      let s1' : EncState := { s1 with isEndOfPdu := false }
      obtain ⟨sc, hterm, hsc⟩ := encodeDop_obj l.obj hl.1 (.int l.tv) hl.2 g s1'
      have hin : ({ s1' with cursorByte := posOf l.obj.bytePos s1'.origin s1'.cursorByte, cursorBit := l.obj.bitPos.getD 0 } : EncState)
          = s1' := EncState.cursor_eta s1' hcb1
      rw [hin] at hterm
      have hterm' : encodeDop (g + 1) l.dop (.atom (.int l.tv)) { s1 with isEndOfPdu := false } true = .ok ((), sc) := hterm
      have hsccb : sc.cursorBit = 0 := encodeDop_std_cursorBit g _ _ _ _ _ _ _ _ _ _ hterm' hcb1
      refine ⟨{ sc with cursorByte := s1.cursorByte }, ?_, ?_, hsccb⟩
      · simp only [DComp.endMarkerMid]
        rw [encodeDop_em_step_mid (g + 1) _ _ _ _ s hcb heop, hrun]
        simp only []
        rw [hterm']
      · -- the state behind the items, the marker on top of it
        have h0 : SameCore { s with isEndOfPdu := false } s := ⟨rfl, rfl, rfl, rfl, rfl⟩
        have h1 : SameCore s1' ((Pair.list (cs.map (emItemC l))).enc s) :=
          SameCore.trans ⟨rfl, rfl, rfl, rfl, rfl⟩ (hcore.trans (hg.core _ _ h0))
        have hE : SameCore ({ sc with cursorByte := s1.cursorByte } : EncState) (l.marker.enc s1') := by
          have hmsg := congrArg EncState.msg hsc
          have hused := congrArg EncState.used hsc
          have hwarn := congrArg EncState.warn hsc
          have horg := congrArg EncState.origin hsc
          exact ⟨hmsg, hused, hwarn, rfl, horg⟩
        have h2 := hE.trans (hgm.core _ _ h1)
        have h3 : SameCore ({ sc with cursorByte := s1.cursorByte } : EncState) ((emBodyMid l cs).enc s) := h2
        have h4 := h3.trans (hofb.sameCore_inOrigin hgb s)
        exact ⟨h4.1, h4.2.1, h4.2.2.1, h4.2.2.2.1, h4.2.2.2.2⟩
    enc_cursor := fun s => by
      show ((Pair.list (cs.map (emItemC l))).enc { s with origin := s.cursorByte }).cursorByte = _
      rw [emItems_enc]
      exact dynItemsM_enc_cursor cs hoks { s with origin := s.cursorByte }
    dec_cursorBit := fun d hd => by
      show ((Pair.list (cs.map (emItemC l))).dec { d with origin := d.cursorByte }).2.cursorBit = 0
      rw [emItems_dec]
      exact dynItemsM_dec_cursorBit cs hoks { d with origin := d.cursorByte } hd
    dec_msg := fun d => by
      show ((Pair.list (cs.map (emItemC l))).dec { d with origin := d.cursorByte }).2.msg = d.msg
      rw [emItems_dec]
      exact dynItemsM_dec_msg cs hoks { d with origin := d.cursorByte }
    dec_origin := fun _ => rfl
    decode_eq := by
      intro fuel hf d hcb hfit _
      obtain ⟨g, rfl⟩ : ∃ g, fuel = g + 1 := ⟨fuel - 1, by simp only [DComp.endMarkerMid] at hf; omega⟩
      have hfit' : (Pair.list (cs.map (emItemC l))).fits { d with origin := d.cursorByte } ∧
          (l.obj.fitsIn ((Pair.list (cs.map (emItemC l))).dec { d with origin := d.cursorByte }).2 ∧
            (decStep l.obj ((Pair.list (cs.map (emItemC l))).dec { d with origin := d.cursorByte }).2).1 = .int l.tv) := hfit
      obtain ⟨hfl, hft, hfv⟩ := hfit'
      rw [emItems_dec] at hft hfv
      have hmsg := dynItemsM_dec_msg cs hoks { d with origin := d.cursorByte }
      have hrun := decodeUntilMarkerC_eq l hl item cs (DComps.maxNeed cs)
        (fun c hc => ⟨(h c hc).1, (h c hc).2.1, DComps.maxNeed_ge cs c hc⟩) g (by simp only [DComp.endMarkerMid] at hf; omega)
        { d with origin := d.cursorByte } hcb hfl
        (Or.inr ⟨by have := hft.1; rw [l.pos, hmsg] at this; exact this, hfv⟩)
      simp only [DComp.endMarkerMid]
      rw [decodeDop_em_step g _ _ _ d hcb, hrun]
      show _ = Except.ok (PVal.list ((Pair.list (cs.map (emItemC l))).dec { d with origin := d.cursorByte }).1,
        { ((Pair.list (cs.map (emItemC l))).dec { d with origin := d.cursorByte }).2 with origin := d.origin })
      rw [emItems_dec] }

theorem DComp.endMarkerMid_endOk (l : EmLayout) (item : Dop) (cs : List DComp) : (DComp.endMarkerMid l item cs).EndOk :=
  DComp.endOk_of_plain _ rfl

/-! ### "no item starts with the termination value": a decidable sufficient condition -/

/-- the termination object under a parameter name -/
def EmLayout.named (l : EmLayout) (n : String) : Obj := { l.obj with name := n }

/-- **an item structure whose first parameter is coded like the termination object and has another value** does not start
    with the termination value (also with BYTE-SIZE: `DComp.withByteSize`) -/
theorem EmLayout.miss_of_first (l : EmLayout) (n : String) (v : Int) (gs : List Comp) (hv : v ≠ l.tv) :
    l.miss (DComp.struct (Comp.ofObjValue (l.named n) (.int v) :: gs)) := by
  intro d _ hval
  have hval' : PVal.dict (((Comp.ofObjValue (l.named n) (.int v)).name,
      PVal.atom (decStep (l.named n) { d with origin := d.cursorByte }).1) ::
        ((Comps.pair gs).dec (decStep (l.named n) { d with origin := d.cursorByte }).2).1) =
      PVal.dict (((Comp.ofObjValue (l.named n) (.int v)).name, PVal.atom (.int v)) :: (Comps.pair gs).val) := hval
  simp only [PVal.dict.injEq, List.cons.injEq, Prod.mk.injEq, PVal.atom.injEq, true_and] at hval'
  have h1 : (decStep (l.named n) { d with origin := d.cursorByte }).1 = .int v := hval'.1
  have h2 : (decStep l.obj d).1 = (decStep (l.named n) { d with origin := d.cursorByte }).1 := rfl
  rw [h2, h1]
  intro he
  exact hv (by simpa using he)

theorem EmLayout.miss_withByteSize (l : EmLayout) (bs : Nat) (ps : List Param) (c : DComp) (h : l.miss c) :
    l.miss (DComp.withByteSize bs ps c) := fun d hf hv => h d hf.1 hv

end OdxVerif.Codec
