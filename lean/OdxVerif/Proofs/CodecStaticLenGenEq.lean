import OdxVerif.Gen.CodecStaticLen
import OdxVerif.Proofs.PyRt
/-! # The generated `composite_codec_get_static_bit_length` equals the hand-written `paramsStaticLen`

    `Gen/CodecStaticLen.lean` is regenerated from `odxtools/codec.py` by `harness/extract/py2lean.py` (a pure function
    with a `for` loop, an early `return None`, `x or 0`, `max`); the per-parameter `get_static_bit_length()` is the
    abstract method `Param.kind.staticBitLen` of the model. The loop becomes Lean's `for … in … do`; the proof is an
    induction over the parameter list with the loop-carried variables (`cursor`, `byte_length`) generalised — the
    loop body itself is never written down in the proof. -/
namespace OdxVerif.Codec
open OdxVerif Py

theorem Param.kind_mk (n : String) (b bp : Option Nat) (k : PKind) : (Param.mk n b bp k).kind = k := rfl
theorem Param.bytePos_mk (n : String) (b bp : Option Nat) (k : PKind) : (Param.mk n b bp k).bytePos = b := rfl
theorem Param.bitPos_mk (n : String) (b bp : Option Nat) (k : PKind) : (Param.mk n b bp k).bitPos = bp := rfl

set_option linter.unusedSimpArgs false in
/-- for every parameter list: the rendered Python raises nothing and returns 8 × the model's running maximum
    (or `None` exactly when the model finds a parameter without a static length) -/
theorem gen_staticLen_eq (ps : List Param) :
    Gen.staticBitLengthE ps = .ok ((paramsStaticLen ps 0 0).map (· * 8)) := by
  unfold Gen.staticBitLengthE
  dsimp only
  -- generalise the initial values of the loop-carried variables without naming the loop body
  obtain ⟨c, hc⟩ : ∃ c : Nat, c = 0 := ⟨_, rfl⟩
  obtain ⟨m, hm⟩ : ∃ m : Nat, m = 0 := ⟨_, rfl⟩
  generalize hinit : ((none, some 0, 0) : Option (Option Nat) × Option Nat × Nat) = init
  have hi : init = (none, some c, m) := by rw [← hinit, hc, hm]
  rw [show paramsStaticLen ps 0 0 = paramsStaticLen ps c m by rw [hc, hm]]
  clear hinit hc hm
  subst hi
  induction ps generalizing c m with
  | nil => simp [paramsStaticLen] <;> rfl
  | cons p ps ih =>
    obtain ⟨nm, bytePos, bitPos, kind⟩ := p
    cases hk : kind.staticBitLen <;> cases hb : bytePos <;>
      simp [List.forIn_cons, paramsStaticLen, hk, hb, Param.kind_mk, Param.bytePos_mk, Param.bitPos_mk, py_rt]
    all_goals first | rfl | (simpa [py_rt] using ih _ _)

/-- the static length the model reports for a STRUCTURE without BYTE-SIZE (`Dop.struct none ps`) is what the
    generated function returns (`8 * ·` vs `· * 8`) -/
theorem gen_staticLen_struct (ps : List Param) :
    Gen.staticBitLengthE ps = .ok (Dop.struct none ps).staticBitLen := by
  rw [gen_staticLen_eq]
  simp only [Dop.staticBitLen]
  cases paramsStaticLen ps 0 0 <;> simp [Nat.mul_comm]

end OdxVerif.Codec
