import OdxVerif.Spec.Comparam
/-! Lemmas for C15, part 1: the dictionary fold of `_compute_available_commmunication_parameters`
refines the declarative `lookup` of `Spec/Comparam` for hierarchies of any depth and width. -/
namespace OdxVerif.Comparam
open OdxVerif.Gen (LayerKind)

/-! ## structural induction over hierarchies -/

theorem Layer.induct {P : Layer → Prop} {Q : List Layer → Prop}
    (mk : ∀ k ls ps, Q ps → P (.mk k ls ps)) (nil : Q [])
    (cons : ∀ p rest, P p → Q rest → Q (p :: rest)) : ∀ L, P L :=
  fun L => Layer.rec (motive_1 := P) (motive_2 := Q) mk nil cons L

theorem Layer.induct_list {P : Layer → Prop} {Q : List Layer → Prop}
    (mk : ∀ k ls ps, Q ps → P (.mk k ls ps)) (nil : Q [])
    (cons : ∀ p rest, P p → Q rest → Q (p :: rest)) : ∀ ps, Q ps := by
  intro ps
  induction ps with
  | nil => exact nil
  | cons p rest ih => exact cons _ _ (Layer.induct mk nil cons p) ih

/-! ## the insertion-ordered dictionary -/

/-- no two entries share a key -/
def KeysNodup (d : Dict) : Prop := d.Pairwise fun a b => a.key ≠ b.key

theorem dictGet_nil (k : Key) : dictGet [] k = none := rfl

theorem dictGet_cons (x : Inst) (xs : Dict) (k : Key) :
    dictGet (x :: xs) k = if x.key = k then some x else dictGet xs k := by
  unfold dictGet
  by_cases h : x.key = k <;> simp [List.find?, h]

theorem dictGet_dictSet (d : Dict) (c : Inst) (k : Key) :
    dictGet (dictSet d c) k = if c.key = k then some c else dictGet d k := by
  induction d with
  | nil => simp [dictSet, dictGet_cons, dictGet_nil]
  | cons x xs ih =>
    unfold dictSet
    by_cases hx : x.key = c.key
    · simp only [hx, if_true, dictGet_cons]
      by_cases hk : c.key = k <;> simp [hk]
    · simp only [hx, if_false, dictGet_cons, ih]
      by_cases hk : c.key = k
      · have : x.key ≠ k := fun h => hx (h.trans hk.symm)
        simp [hk, this]
      · simp [hk]

theorem mem_dictSet {d : Dict} {c x : Inst} (h : x ∈ dictSet d c) : x = c ∨ x ∈ d := by
  induction d with
  | nil => simp [dictSet] at h; exact .inl h
  | cons y ys ih =>
    unfold dictSet at h
    by_cases hy : y.key = c.key
    · simp only [hy, if_true, List.mem_cons] at h
      rcases h with h | h
      · exact .inl h
      · exact .inr (List.mem_cons_of_mem _ h)
    · simp only [hy, if_false, List.mem_cons] at h
      rcases h with h | h
      · exact .inr (h ▸ List.mem_cons_self)
      · rcases ih h with h | h
        · exact .inl h
        · exact .inr (List.mem_cons_of_mem _ h)

theorem keysNodup_dictSet {d : Dict} (c : Inst) (h : KeysNodup d) : KeysNodup (dictSet d c) := by
  induction d with
  | nil => simp [dictSet, KeysNodup]
  | cons y ys ih =>
    unfold KeysNodup at h ⊢
    rw [List.pairwise_cons] at h
    unfold dictSet
    by_cases hy : y.key = c.key
    · simp only [hy, if_true]
      rw [List.pairwise_cons]
      exact ⟨fun z hz => hy ▸ h.1 z hz, h.2⟩
    · simp only [hy, if_false]
      rw [List.pairwise_cons]
      refine ⟨fun z hz => ?_, ih h.2⟩
      rcases mem_dictSet hz with hz | hz
      · exact hz ▸ hy
      · exact h.1 z hz

theorem dictGet_some {d : Dict} {k : Key} {c : Inst} (h : dictGet d k = some c) : c ∈ d ∧ c.key = k := by
  unfold dictGet at h
  exact ⟨List.mem_of_find?_eq_some h, by simpa using List.find?_some h⟩

theorem dictGet_of_mem {d : Dict} (hd : KeysNodup d) {c : Inst} (hc : c ∈ d) : dictGet d c.key = some c := by
  induction d with
  | nil => cases hc
  | cons x xs ih =>
    unfold KeysNodup at hd
    rw [List.pairwise_cons] at hd
    rw [dictGet_cons]
    rcases List.mem_cons.mp hc with h | h
    · simp [h]
    · have : x.key ≠ c.key := hd.1 c h
      simp only [this, if_false]
      exact ih hd.2 h

/-! ## the layer's own definitions -/

theorem lastDef_some {cs : List Inst} {k : Key} {c : Inst} (h : lastDef cs k = some c) : c ∈ cs ∧ c.key = k := by
  induction cs with
  | nil => cases h
  | cons x xs ih =>
    unfold lastDef at h
    cases hl : lastDef xs k with
    | some y =>
      rw [hl] at h
      cases h
      exact ⟨List.mem_cons_of_mem _ (ih hl).1, (ih hl).2⟩
    | none =>
      rw [hl] at h
      by_cases hx : x.key = k
      · simp [hx] at h
        exact ⟨h ▸ List.mem_cons_self, h ▸ hx⟩
      · simp [hx] at h

theorem lastDef_eq_dictGet {d : Dict} (hd : KeysNodup d) (k : Key) : lastDef d k = dictGet d k := by
  induction d with
  | nil => rfl
  | cons x xs ih =>
    unfold KeysNodup at hd
    rw [List.pairwise_cons] at hd
    rw [dictGet_cons, lastDef, ih hd.2]
    by_cases hx : x.key = k
    · simp only [hx, if_true]
      cases hg : dictGet xs k with
      | none => rfl
      | some y =>
        exfalso
        have := dictGet_some hg
        exact hd.1 y this.1 (hx.trans this.2.symm)
    · simp only [hx, if_false]
      cases dictGet xs k <;> rfl

theorem dictGet_foldl_dictSet (cs : List Inst) (d : Dict) (k : Key) :
    dictGet (cs.foldl dictSet d) k = match lastDef cs k with
      | some c => some c
      | none => dictGet d k := by
  induction cs generalizing d with
  | nil => rfl
  | cons c cs ih =>
    rw [List.foldl_cons, ih, lastDef, dictGet_dictSet]
    cases lastDef cs k with
    | some y => rfl
    | none =>
      by_cases hc : c.key = k <;> simp [hc]

theorem keysNodup_foldl_dictSet (cs : List Inst) {d : Dict} (hd : KeysNodup d) : KeysNodup (cs.foldl dictSet d) := by
  induction cs generalizing d with
  | nil => exact hd
  | cons c cs ih => exact ih (keysNodup_dictSet c hd)

theorem mem_foldl_dictSet {cs : List Inst} {d : Dict} {x : Inst} (h : x ∈ cs.foldl dictSet d) : x ∈ cs ∨ x ∈ d := by
  induction cs generalizing d with
  | nil => exact .inr h
  | cons c cs ih =>
    rcases ih h with h | h
    · exact .inl (List.mem_cons_of_mem _ h)
    · rcases mem_dictSet h with h | h
      · exact .inl (h ▸ List.mem_cons_self)
      · exact .inr h

/-! ## parents: the fold over the stably sorted parent refs picks the best offer -/

/-- what a parent result provides for `k` -/
def provides (r : ParentRes) (k : Key) : Option Inst :=
  if r.kind = .ecuSharedData then none else dictGet r.insts k

/-- the last provider in a list of parent results -/
def lastProv : List ParentRes → Key → Option Offer
  | [], _ => none
  | r :: rs, k =>
    match lastProv rs k with
    | some o => some o
    | none => (provides r k).map fun c => ⟨r.kind, c⟩

/-- the best provider: highest priority, the later one on a tie (`bestOffer` over parent results) -/
def bestProv : List ParentRes → Key → Option Offer
  | [], _ => none
  | r :: rs, k =>
    match provides r k with
    | none => bestProv rs k
    | some c => some (betterBy LayerKind.prio ⟨r.kind, c⟩ (bestProv rs k))

theorem dictGet_mergeParent {r : ParentRes} (hr : KeysNodup r.insts) (d : Dict) (k : Key) :
    dictGet (mergeParent d r) k = match provides r k with
      | some c => some c
      | none => dictGet d k := by
  unfold mergeParent provides
  by_cases he : r.kind = .ecuSharedData
  · simp [he]
  · simp only [he, if_false]
    rw [dictGet_foldl_dictSet, lastDef_eq_dictGet hr]

theorem keysNodup_mergeParent (r : ParentRes) {d : Dict} (hd : KeysNodup d) : KeysNodup (mergeParent d r) := by
  unfold mergeParent
  by_cases he : r.kind = .ecuSharedData
  · simpa [he] using hd
  · simpa [he] using keysNodup_foldl_dictSet r.insts hd

theorem keysNodup_foldl_mergeParent (rs : List ParentRes) {d : Dict} (hd : KeysNodup d) :
    KeysNodup (rs.foldl mergeParent d) := by
  induction rs generalizing d with
  | nil => exact hd
  | cons r rs ih => exact ih (keysNodup_mergeParent r hd)

theorem dictGet_foldl_mergeParent (rs : List ParentRes) (hrs : ∀ r ∈ rs, KeysNodup r.insts) (d : Dict) (k : Key) :
    dictGet (rs.foldl mergeParent d) k = match lastProv rs k with
      | some o => some o.inst
      | none => dictGet d k := by
  induction rs generalizing d with
  | nil => rfl
  | cons r rs ih =>
    rw [List.foldl_cons, ih (fun x hx => hrs x (List.mem_cons_of_mem _ hx)), lastProv,
      dictGet_mergeParent (hrs r List.mem_cons_self)]
    cases lastProv rs k with
    | some o => rfl
    | none => cases provides r k <;> rfl

theorem mem_foldl_mergeParent {rs : List ParentRes} {d : Dict} {x : Inst} (h : x ∈ rs.foldl mergeParent d) :
    (∃ r ∈ rs, x ∈ r.insts) ∨ x ∈ d := by
  induction rs generalizing d with
  | nil => exact .inr h
  | cons r rs ih =>
    rcases ih h with ⟨r', hr', hx⟩ | h
    · exact .inl ⟨r', List.mem_cons_of_mem _ hr', hx⟩
    · unfold mergeParent at h
      by_cases he : r.kind = .ecuSharedData
      · simp only [he, if_true] at h
        exact .inr h
      · simp only [he, if_false] at h
        rcases mem_foldl_dictSet h with h | h
        · exact .inl ⟨r, List.mem_cons_self, h⟩
        · exact .inr h

/-! ### the stable sort -/

theorem mem_insertAsc {x y : ParentRes} {rs : List ParentRes} : y ∈ insertAsc x rs ↔ y = x ∨ y ∈ rs := by
  induction rs with
  | nil => simp [insertAsc]
  | cons z zs ih =>
    unfold insertAsc
    by_cases h : z.prio < x.prio
    · simp only [h, if_true, List.mem_cons, ih]
      constructor
      · rintro (h | h | h)
        · exact .inr (.inl h)
        · exact .inl h
        · exact .inr (.inr h)
      · rintro (h | h | h)
        · exact .inr (.inl h)
        · exact .inl h
        · exact .inr (.inr h)
    · simp only [h, if_false, List.mem_cons]

theorem mem_sortAsc {y : ParentRes} {rs : List ParentRes} : y ∈ sortAsc rs ↔ y ∈ rs := by
  induction rs with
  | nil => simp [sortAsc]
  | cons x xs ih => simp [sortAsc, mem_insertAsc, ih]

/-- ascending by priority -/
def Sorted (rs : List ParentRes) : Prop := rs.Pairwise fun a b => a.prio ≤ b.prio

theorem sorted_insertAsc (x : ParentRes) {rs : List ParentRes} (h : Sorted rs) : Sorted (insertAsc x rs) := by
  induction rs with
  | nil => simp [insertAsc, Sorted]
  | cons z zs ih =>
    unfold Sorted at h ⊢
    rw [List.pairwise_cons] at h
    unfold insertAsc
    by_cases hz : z.prio < x.prio
    · simp only [hz, if_true]
      rw [List.pairwise_cons]
      refine ⟨fun y hy => ?_, ih h.2⟩
      rcases mem_insertAsc.mp hy with hy | hy
      · exact hy ▸ Nat.le_of_lt hz
      · exact h.1 y hy
    · simp only [hz, if_false]
      rw [List.pairwise_cons, List.pairwise_cons]
      refine ⟨fun y hy => ?_, h⟩
      rcases List.mem_cons.mp hy with hy | hy
      · exact hy ▸ Nat.le_of_not_lt hz
      · exact Nat.le_trans (Nat.le_of_not_lt hz) (h.1 y hy)

theorem sorted_sortAsc (rs : List ParentRes) : Sorted (sortAsc rs) := by
  induction rs with
  | nil => simp [sortAsc, Sorted]
  | cons x xs ih => exact sorted_insertAsc x ih

theorem bestProv_prio {rs : List ParentRes} {k : Key} {o : Offer} (h : bestProv rs k = some o) :
    ∃ r ∈ rs, o.kind = r.kind := by
  induction rs generalizing o with
  | nil => cases h
  | cons r rs ih =>
    unfold bestProv at h
    cases hp : provides r k with
    | none =>
      rw [hp] at h
      obtain ⟨r', hr', e⟩ := ih h
      exact ⟨r', List.mem_cons_of_mem _ hr', e⟩
    | some c =>
      rw [hp] at h
      cases hb : bestProv rs k with
      | none =>
        rw [hb] at h
        simp only [betterBy, Option.some.injEq] at h
        exact ⟨r, List.mem_cons_self, h ▸ rfl⟩
      | some y =>
        rw [hb] at h
        simp only [betterBy, Option.some.injEq] at h
        by_cases hy : y.kind.prio < r.kind.prio
        · simp only [hy, if_true] at h
          exact ⟨r, List.mem_cons_self, h ▸ rfl⟩
        · simp only [hy, if_false] at h
          obtain ⟨r', hr', e⟩ := ih hb
          exact ⟨r', List.mem_cons_of_mem _ hr', h ▸ e⟩

/-- on an ascending list the last provider is the best one -/
theorem lastProv_eq_bestProv {rs : List ParentRes} (hs : Sorted rs) (k : Key) : lastProv rs k = bestProv rs k := by
  induction rs with
  | nil => rfl
  | cons r rs ih =>
    unfold Sorted at hs
    rw [List.pairwise_cons] at hs
    rw [lastProv, bestProv, ih hs.2]
    cases hb : bestProv rs k with
    | none => cases provides r k <;> rfl
    | some y =>
      obtain ⟨r', hr', e⟩ := bestProv_prio hb
      have : ¬ y.kind.prio < r.kind.prio := by rw [e]; exact Nat.not_lt.mpr (hs.1 r' hr')
      cases provides r k with
      | none => rfl
      | some c => simp [betterBy, this]

/-- one step of `bestProv` -/
def stepProv (r : ParentRes) (k : Key) (acc : Option Offer) : Option Offer :=
  match provides r k with
  | none => acc
  | some c => some (betterBy LayerKind.prio ⟨r.kind, c⟩ acc)

theorem bestProv_cons (r : ParentRes) (rs : List ParentRes) (k : Key) :
    bestProv (r :: rs) k = stepProv r k (bestProv rs k) := by
  rw [bestProv, stepProv]

/-- parent refs of different priority may be exchanged -/
theorem stepProv_comm {x y : ParentRes} (h : y.prio < x.prio) (k : Key) (acc : Option Offer) :
    stepProv y k (stepProv x k acc) = stepProv x k (stepProv y k acc) := by
  unfold stepProv
  cases hx : provides x k with
  | none => cases provides y k <;> rfl
  | some cx =>
    cases hy : provides y k with
    | none => rfl
    | some cy =>
      cases acc with
      | none =>
        have h0 : y.kind.prio < x.kind.prio := h
        have h' : ¬ x.kind.prio < y.kind.prio := Nat.lt_asymm h0
        simp [betterBy, h0, h']
      | some a =>
        have h0 : y.kind.prio < x.kind.prio := h
        simp only [betterBy]
        by_cases h1 : a.kind.prio < x.kind.prio <;> by_cases h2 : a.kind.prio < y.kind.prio <;>
          simp [h1, h2, h0, Nat.lt_asymm h0] <;> omega

theorem bestProv_insertAsc (x : ParentRes) (rs : List ParentRes) (k : Key) :
    bestProv (insertAsc x rs) k = bestProv (x :: rs) k := by
  induction rs with
  | nil => rfl
  | cons z zs ih =>
    unfold insertAsc
    by_cases hz : z.prio < x.prio
    · simp only [hz, if_true]
      rw [bestProv_cons, ih, bestProv_cons, stepProv_comm hz, ← bestProv_cons z, ← bestProv_cons x]
    · simp only [hz, if_false]

/-- sorting the parent refs stably does not change the best offer -/
theorem bestProv_sortAsc (rs : List ParentRes) (k : Key) : bestProv (sortAsc rs) k = bestProv rs k := by
  induction rs with
  | nil => rfl
  | cons x xs ih => rw [sortAsc, bestProv_insertAsc, bestProv_cons, ih, ← bestProv_cons]

/-! ## the refinement -/

/-- the regenerated priority table orders the layer types like the specification's `cpRank` -/
theorem prio_sameOrder : ∀ a b : LayerKind, a.prio < b.prio ↔ cpRank a < cpRank b := by
  intro a b
  cases a <;> cases b <;> decide

theorem betterBy_prio_eq (x : Offer) (y : Option Offer) : betterBy LayerKind.prio x y = betterBy cpRank x y := by
  cases y with
  | none => rfl
  | some y =>
    simp only [betterBy]
    by_cases h : y.kind.prio < x.kind.prio
    · simp [h, (prio_sameOrder _ _).mp h]
    · have : ¬ cpRank y.kind < cpRank x.kind := fun h' => h ((prio_sameOrder _ _).mpr h')
      simp [h, this]

theorem keysNodup_nil : KeysNodup [] := List.Pairwise.nil

theorem mem_availParents {ps : List Layer} {r : ParentRes} (h : r ∈ availParents ps) :
    ∃ p ∈ ps, r = ⟨p.kind, available p⟩ := by
  induction ps with
  | nil => simp [availParents] at h
  | cons p ps ih =>
    rw [availParents] at h
    rcases List.mem_cons.mp h with h | h
    · exact ⟨p, List.mem_cons_self, h⟩
    · obtain ⟨q, hq, e⟩ := ih h
      exact ⟨q, List.mem_cons_of_mem _ hq, e⟩

/-- for every hierarchy: `comparam_refs` holds one entry per key, and looking a key up in it gives
    the specification's effective definition -/
theorem available_spec : ∀ L : Layer, KeysNodup (available L) ∧ ∀ k, dictGet (available L) k = lookup L k := by
  refine Layer.induct (P := fun L => KeysNodup (available L) ∧ ∀ k, dictGet (available L) k = lookup L k)
    (Q := fun ps => (∀ r ∈ availParents ps, KeysNodup r.insts)
      ∧ ∀ k, bestProv (availParents ps) k = bestOffer ps k) ?_ ?_ ?_
  · intro kd ls ps ⟨hn, hb⟩
    constructor
    · rw [available]
      exact keysNodup_foldl_dictSet _ (keysNodup_foldl_mergeParent _ keysNodup_nil)
    · intro k
      rw [available, lookup, dictGet_foldl_dictSet]
      cases lastDef ls k with
      | some c => rfl
      | none =>
        simp only
        rw [dictGet_foldl_mergeParent _ (fun r hr => hn r (mem_sortAsc.mp hr)),
          lastProv_eq_bestProv (sorted_sortAsc _), bestProv_sortAsc, hb k, dictGet_nil]
        cases bestOffer ps k <;> rfl
  · exact ⟨fun r hr => by simp [availParents] at hr, fun k => rfl⟩
  · intro p rest ⟨hp1, hp2⟩ ⟨hr1, hr2⟩
    constructor
    · intro r hr
      rw [availParents] at hr
      rcases List.mem_cons.mp hr with h | h
      · exact h ▸ hp1
      · exact hr1 r h
    · intro k
      rw [availParents, bestProv, bestOffer, provides]
      by_cases he : p.kind = .ecuSharedData
      · simp [he, hr2 k]
      · simp only [he, if_false, hp2 k, hr2 k, betterBy_prio_eq]
        rfl

theorem keysNodup_available (L : Layer) : KeysNodup (available L) := (available_spec L).1
theorem dictGet_available (L : Layer) (k : Key) : dictGet (available L) k = lookup L k := (available_spec L).2 k

theorem lookup_key {L : Layer} {k : Key} {c : Inst} (h : lookup L k = some c) : c.key = k := by
  rw [← dictGet_available] at h
  exact (dictGet_some h).2

/-- everything in `comparam_refs` was written somewhere in the hierarchy -/
theorem available_sub_allInsts : ∀ L : Layer, ∀ c ∈ available L, c ∈ allInsts L := by
  refine Layer.induct (P := fun L => ∀ c ∈ available L, c ∈ allInsts L)
    (Q := fun ps => ∀ r ∈ availParents ps, ∀ c ∈ r.insts, c ∈ allInstsIn ps) ?_ ?_ ?_
  · intro kd ls ps hq c hc
    rw [available] at hc
    rw [allInsts]
    rcases mem_foldl_dictSet hc with h | h
    · exact List.mem_append_left _ h
    · rcases mem_foldl_mergeParent h with ⟨r, hr, hx⟩ | h
      · exact List.mem_append_right _ (hq r (mem_sortAsc.mp hr) c hx)
      · cases h
  · intro r hr
    simp [availParents] at hr
  · intro p rest hp hrest r hr c hc
    rw [availParents] at hr
    rw [allInstsIn]
    rcases List.mem_cons.mp hr with h | h
    · subst h
      exact List.mem_append_left _ (hp c hc)
    · exact List.mem_append_right _ (hrest r h c hc)

theorem mem_available_iff (L : Layer) (c : Inst) : c ∈ available L ↔ lookup L c.key = some c := by
  constructor
  · intro h
    rw [← dictGet_available]
    exact dictGet_of_mem (keysNodup_available L) h
  · intro h
    rw [← dictGet_available] at h
    exact (dictGet_some h).1

theorem mem_effective_iff (L : Layer) (c : Inst) : c ∈ effective L ↔ c ∈ available L := by
  unfold effective
  rw [List.mem_filterMap]
  constructor
  · rintro ⟨a, _, h⟩
    have hk := lookup_key h
    rw [← hk] at h
    exact (mem_available_iff L c).mpr h
  · intro h
    exact ⟨c, available_sub_allInsts L c h, (mem_available_iff L c).mp h⟩

/-! ## what the specification's `bestOffer` means -/

theorem bestOffer_none {ps : List Layer} {k : Key} (h : bestOffer ps k = none) :
    ∀ p ∈ ps, p.kind ≠ .ecuSharedData → lookup p k = none := by
  induction ps with
  | nil => intro p hp; cases hp
  | cons x xs ih =>
    intro p hp hne
    rw [bestOffer] at h
    by_cases hx : x.kind = .ecuSharedData
    · simp only [hx, if_true] at h
      rcases List.mem_cons.mp hp with e | hp
      · exact absurd (e ▸ hx) hne
      · exact ih h p hp hne
    · simp only [hx, if_false] at h
      cases hlx : lookup x k with
      | none =>
        rw [hlx] at h
        rcases List.mem_cons.mp hp with e | hp
        · subst e; exact hlx
        · exact ih h p hp hne
      | some d => rw [hlx] at h; cases h

/-- the best offer comes from a parent that is a hierarchy element and provides it, and no providing
    parent has a higher layer-type priority -/
theorem bestOffer_spec {ps : List Layer} {k : Key} {o : Offer} (h : bestOffer ps k = some o) :
    (∃ p ∈ ps, p.kind ≠ .ecuSharedData ∧ lookup p k = some o.inst ∧ p.kind = o.kind)
    ∧ (∀ p ∈ ps, p.kind ≠ .ecuSharedData → (lookup p k).isSome → cpRank p.kind ≤ cpRank o.kind) := by
  induction ps generalizing o with
  | nil => rw [bestOffer] at h; cases h
  | cons q qs ih =>
    rw [bestOffer] at h
    by_cases he : q.kind = .ecuSharedData
    · simp only [he, if_true] at h
      obtain ⟨⟨p, hp, h1⟩, h2⟩ := ih h
      refine ⟨⟨p, List.mem_cons_of_mem _ hp, h1⟩, fun p hp hne hs => ?_⟩
      rcases List.mem_cons.mp hp with e | hp
      · exact absurd (e ▸ he) hne
      · exact h2 p hp hne hs
    · simp only [he, if_false] at h
      cases hl : lookup q k with
      | none =>
        rw [hl] at h
        obtain ⟨⟨p, hp, h1⟩, h2⟩ := ih h
        refine ⟨⟨p, List.mem_cons_of_mem _ hp, h1⟩, fun p hp hne hs => ?_⟩
        rcases List.mem_cons.mp hp with e | hp
        · subst e; rw [hl] at hs; cases hs
        · exact h2 p hp hne hs
      | some c =>
        rw [hl] at h
        simp only [Option.some.injEq] at h
        cases hb : bestOffer qs k with
        | none =>
          rw [hb] at h
          simp only [betterBy] at h
          subst h
          refine ⟨⟨q, List.mem_cons_self, he, hl, rfl⟩, fun p hp hne hs => ?_⟩
          rcases List.mem_cons.mp hp with e | hp
          · subst e; exact Nat.le_refl _
          · have := bestOffer_none hb p hp hne
            rw [this] at hs; cases hs
        | some y =>
          rw [hb] at h
          obtain ⟨⟨p, hp, h1⟩, h2⟩ := ih hb
          simp only [betterBy] at h
          by_cases hy : cpRank y.kind < cpRank q.kind
          · simp only [hy, if_true] at h
            subst h
            refine ⟨⟨q, List.mem_cons_self, he, hl, rfl⟩, fun p' hp' hne hs => ?_⟩
            rcases List.mem_cons.mp hp' with e | hp'
            · subst e; exact Nat.le_refl _
            · exact Nat.le_of_lt (Nat.lt_of_le_of_lt (h2 p' hp' hne hs) hy)
          · simp only [hy, if_false] at h
            subst h
            refine ⟨⟨p, List.mem_cons_of_mem _ hp, h1⟩, fun p' hp' hne hs => ?_⟩
            rcases List.mem_cons.mp hp' with e | hp'
            · subst e; exact Nat.le_of_not_lt hy
            · exact h2 p' hp' hne hs

end OdxVerif.Comparam
