import OdxVerif.Proofs.CompReject4MinMaxStr
import OdxVerif.Proofs.CompExtEndMarker
/-! Compositional tier, rejection side, fourth part (task W31, C04): **DYNAMIC-ENDMARKER-FIELD, positive direction**, as a value-free
    description.  `DDesc.endMarkerEop l item`: the field in LAST position (at the end of the PDU: the items only, no end marker
    written; the decoder still probes for the termination value at every item boundary).
    Hypothesis `EmLayout.missD l item`: **no component the item description can produce starts with the termination value**
    (`EmLayout.miss` of `Proofs/CompExtEndMarker.lean` for every `item.fill pv = some c`) — the encoder does not check this (open finding
    `end-marker-item-collision`, `C04_endmarker_collision_counterexample` is the excluded point).  Decidable sufficient condition
    `EmLayout.missD_of_constFirst`: the item structure starts with a CODED-CONST parameter coded like the termination object whose
    constant differs from the termination value.
    Under it: an accepted list of items decodes to itself (its completion), every other value gives `EncodeError` / `OdxError`.
    Core Lean only. -/
namespace OdxVerif.Codec
open OdxVerif.Bits OdxVerif.OdxM

theorem DDesc.fillItems_mem (d : DDesc) (chk : DComp → Bool) : ∀ (xs : List PVal) (cs : List DComp),
    d.fillItems chk xs = some cs → ∀ c ∈ cs, ∃ x, d.fill x = some c
  | [], cs, h => by
    simp only [DDesc.fillItems, Option.some.injEq] at h
    subst h
    intro c hc; cases hc
  | x :: xs, cs, h => by
    simp only [DDesc.fillItems] at h
    cases h1 : d.fill x with
    | none => rw [h1] at h; cases h
    | some c =>
      rw [h1] at h
      cases h2 : chk c with
      | false => simp [h2] at h
      | true =>
        simp only [h2, if_true] at h
        cases h3 : d.fillItems chk xs with
        | none => rw [h3] at h; simp at h
        | some cs0 =>
          rw [h3] at h
          simp only [Option.some.injEq] at h
          subst h
          intro c' hc'
          rcases List.mem_cons.mp hc' with rfl | hc'
          · exact ⟨x, h1⟩
          · exact DDesc.fillItems_mem d chk xs cs0 h3 c' hc'

/-- no component of the item description starts with the termination value -/
def EmLayout.missD (l : EmLayout) (item : DDesc) : Prop := ∀ pv c, item.fill pv = some c → l.miss c

/-- an item structure whose first parameter is a CODED-CONST coded like the termination object, with another constant -/
theorem EmLayout.miss_of_firstConst (l : EmLayout) (n : String) (v : Int) (b : Bool) (gs : List Comp) (kvs : List (String × PVal))
    (hv : v ≠ l.tv) : l.miss (DComp.structOf (Comp.ofObjConst (l.named n) (.int v) b :: gs) kvs) := by
  intro d _ hval
  have hval' : PVal.dict (((Comp.ofObjConst (l.named n) (.int v) b).name,
      PVal.atom (decStep (l.named n) { d with origin := d.cursorByte }).1) ::
        ((Comps.pair gs).dec (decStep (l.named n) { d with origin := d.cursorByte }).2).1) =
      PVal.dict (((Comp.ofObjConst (l.named n) (.int v) b).name, PVal.atom (.int v)) :: (Comps.pair gs).val) := hval
  simp only [PVal.dict.injEq, List.cons.injEq, Prod.mk.injEq, PVal.atom.injEq, true_and] at hval'
  have h1 : (decStep (l.named n) { d with origin := d.cursorByte }).1 = .int v := hval'.1
  have h2 : (decStep l.obj d).1 = (decStep (l.named n) { d with origin := d.cursorByte }).1 := rfl
  rw [h2, h1]
  intro he
  exact hv (by simpa using he)

/-- **the decidable sufficient condition**: the item structure starts with a CODED-CONST ≠ termination value, coded like the
    termination object -/
theorem EmLayout.missD_of_constFirst (l : EmLayout) (n : String) (v : Int) (ps : List PDesc) (hv : v ≠ l.tv) :
    l.missD (DDesc.struct (PDesc.ofObjConst (l.named n) (.int v) :: ps)) := by
  intro pv c hf
  cases pv with
  | dict kvs =>
    simp only [DDesc.struct] at hf
    split at hf
    · cases hf
    · simp only [PDescs.fill] at hf
      cases h0 : (PDesc.ofObjConst (l.named n) (.int v)).fill (lookupV (PDesc.ofObjConst (l.named n) (.int v)).name kvs) with
      | none => rw [h0] at hf; cases hf
      | some g =>
        cases h1 : PDescs.fill ps kvs with
        | none => rw [h0, h1] at hf; cases hf
        | some gs =>
          rw [h0, h1] at hf
          simp only [Option.map_some, Option.some.injEq] at hf
          subst hf
          have hg : ∃ b, g = Comp.ofObjConst (l.named n) (.int v) b := by
            generalize lookupV (PDesc.ofObjConst (l.named n) (.int v)).name kvs = q at h0
            cases q with
            | none =>
              simp only [PDesc.ofObjConst, Option.some.injEq] at h0
              exact ⟨false, h0.symm⟩
            | some x =>
              cases x with
              | atom a =>
                simp only [PDesc.ofObjConst] at h0
                split at h0
                · exact ⟨true, (Option.some.inj h0).symm⟩
                · cases h0
              | _ => simp [PDesc.ofObjConst] at h0
          obtain ⟨b, rfl⟩ := hg
          exact l.miss_of_firstConst n v b gs kvs hv
  | _ => simp [DDesc.struct] at hf

/-! ### the field in last position -/

def DDesc.endMarkerEop (l : EmLayout) (item : DDesc) : DDesc where
  dop := .endMarkerField (.int l.tv) l.dop item.dop
  fill := fun pv => match pv with
    | .list xs => (item.fillItems (fun _ => true) xs).map (DComp.endMarkerEop l item.dop)
    | _ => none
  complete := fun pv => match pv with
    | .list xs => .list (xs.map item.complete)
    | _ => .none
  typed := fun pv => match pv with
    | .list xs => xs.all item.typed
    | pv => pv.seqTyped
  need := fun pv => match pv with
    | .list xs => xs.length + item.needItems xs + 3
    | _ => 1
  mayEop := true
  minSize := 0

/-- **closure under DYNAMIC-ENDMARKER-FIELD at the end of the PDU** -/
theorem DDesc.endMarkerEop_okW (l : EmLayout) (hl : l.ok) (item : DDesc) (hok : item.OkW) (hne : item.mayEop = false)
    (hadv : 1 ≤ item.minSize) (hmiss : l.missD item) : (DDesc.endMarkerEop l item).OkW where
  acc := by
    intro pv c hf
    have key : ∃ xs cs, pv = .list xs ∧ item.fillItems (fun _ => true) xs = some cs ∧ c = DComp.endMarkerEop l item.dop cs := by
      cases pv with
      | list xs =>
        simp only [DDesc.endMarkerEop] at hf
        cases hcs : item.fillItems (fun _ => true) xs with
        | none => rw [hcs] at hf; cases hf
        | some cs => rw [hcs] at hf; exact ⟨xs, cs, rfl, hcs, by simpa using hf.symm⟩
      | _ => simp [DDesc.endMarkerEop] at hf
    obtain ⟨xs, cs, rfl, hcs, rfl⟩ := key
    have hfl := item.fillItems_someW hok _ xs cs hcs
    have hitems := hfl.itemOk hne
    have hlen := hfl.length
    have hmem := item.fillItems_mem _ xs cs hcs
    exact {
      ok := DComp.endMarkerEop_ok l hl item.dop cs (fun c hc =>
          ⟨⟨(hitems c hc).1.1.toM true, (hitems c hc).1.2⟩, (hitems c hc).2.1, Nat.le_trans hadv (hitems c hc).2.2.1, by
            obtain ⟨x, hx⟩ := hmem c hc
            exact hmiss x c hx⟩)
        (fun c hc => (hitems c (List.mem_of_getLast? hc)).1.1.toM false)
      endOk := DComp.endMarkerEop_endOk l item.dop cs
      dop := rfl
      sup := by simp only [DComp.endMarkerEop, hfl.sups]
      need := by have := hfl.maxNeed; simp only [DComp.endMarkerEop, DDesc.endMarkerEop]; omega
      eop := fun _ => rfl
      size := Nat.zero_le _
      val := by
        rw [DComp.endMarkerEop_val, hfl.vals]
        rfl }
  rej := by
    intro pv hwf hf fuel hfu s hcb heop
    have heop' : s.isEndOfPdu = true := heop rfl
    cases pv with
    | list xs =>
      simp only [DDesc.endMarkerEop] at hfu
      obtain ⟨g, rfl⟩ : ∃ g, fuel = g + 1 := ⟨fuel - 1, by omega⟩
      have hcs : item.fillItems (fun _ => true) xs = none := by
        simp only [DDesc.endMarkerEop] at hf
        cases hcs : item.fillItems (fun _ => true) xs with
        | none => rfl
        | some cs => rw [hcs] at hf; cases hf
      obtain ⟨e, s', hrun, he⟩ := encodeItems_rejW item hok hne true xs hwf hcs g (by omega) { s with isEndOfPdu := false } hcb
      refine ⟨e, s', ?_, he⟩
      simp only [DDesc.endMarkerEop]
      rw [encodeDop_em_step_eop g _ _ _ xs s hcb heop', hrun]
    | atom v =>
      simp only [DDesc.endMarkerEop] at hfu
      obtain ⟨f, rfl⟩ : ∃ f, fuel = f + 1 := ⟨fuel - 1, by omega⟩
      cases v with
      | str cps =>
        exact ⟨.unmodelled, s, by simp [DDesc.endMarkerEop, encodeDop, bind, run_bind, run_getS, odxassert, hcb, run_pure, run_raise],
          Or.inr ⟨rfl, rfl⟩⟩
      | bytes b =>
        exact ⟨.unmodelled, s, by simp [DDesc.endMarkerEop, encodeDop, bind, run_bind, run_getS, odxassert, hcb, run_pure, run_raise],
          Or.inr ⟨rfl, rfl⟩⟩
      | int i =>
        exact ⟨.encode, s, by simp [DDesc.endMarkerEop, encodeDop, bind, run_bind, run_getS, odxassert, hcb, run_pure, odxraise],
          RejErr.encode _⟩
      | flt b =>
        exact ⟨.encode, s, by simp [DDesc.endMarkerEop, encodeDop, bind, run_bind, run_getS, odxassert, hcb, run_pure, odxraise],
          RejErr.encode _⟩
    | dict _ | none | pair _ _ | keyed _ _ | nokey _ | dtc _ =>
      simp only [DDesc.endMarkerEop] at hfu
      obtain ⟨f, rfl⟩ : ∃ f, fuel = f + 1 := ⟨fuel - 1, by omega⟩
      exact ⟨.encode, s, by simp [DDesc.endMarkerEop, encodeDop, bind, run_bind, run_getS, odxassert, hcb, run_pure, odxraise],
        RejErr.encode _⟩

/-! ### the flag-indexed layer for complex DOPs -/

/-- `c` is the component of `d` for the supplied value `pv`, from encoder states with `is_end_of_pdu` cleared if `mid` -/
structure DComp.FillsM (c : DComp) (mid : Bool) (d : DDesc) (pv : PVal) : Prop where
  ok : c.OkM mid
  endOk : c.EndOk
  dop : c.dop = d.dop
  sup : c.sup = pv
  need : c.need ≤ d.need pv
  eop : c.eopOnly = true → d.mayEop = true
  size : d.minSize ≤ c.size
  val : c.pair.val = d.complete pv

structure DDesc.OkWM (d : DDesc) (mid : Bool) : Prop where
  acc : ∀ (pv : PVal) (c : DComp), d.fill pv = some c → c.FillsM mid d pv
  rej : ∀ (pv : PVal), pv.wfAtoms = true → d.fill pv = none → ∀ (fuel : Nat), d.need pv ≤ fuel → ∀ (s : EncState),
    s.cursorBit = 0 → (d.mayEop = true → s.isEndOfPdu = true) → (mid = true → s.isEndOfPdu = false) →
    ∃ e s', encodeDop fuel d.dop pv s true = .error (e, s') ∧ RejErr e (d.typed pv)

/-- a VALUE parameter over a flag-indexed complex-DOP description -/
theorem PDesc.ofValue_okWM (name : String) (bp : Option Nat) (d : DDesc) (mid : Bool) (hd : d.OkWM mid) :
    (PDesc.ofValue name bp d).OkWM mid where
  notKey := rfl
  acc := by
    intro pv g _ hf
    have key : ∃ v c, pv = some v ∧ d.fill v = some c ∧ g = Comp.ofValue name bp c := by
      cases pv with
      | none => simp [PDesc.ofValue] at hf
      | some v =>
        simp only [PDesc.ofValue] at hf
        cases hc : d.fill v with
        | none => rw [hc] at hf; cases hf
        | some c => rw [hc] at hf; exact ⟨v, c, rfl, hc, (Option.some.inj hf).symm⟩
    obtain ⟨v, c, rfl, hc, rfl⟩ := key
    have h := hd.acc v c hc
    exact {
      ok := fun P => Comp.ofValueM_ok name bp c mid h.ok P
      endOk := Comp.ofValue_endOk name bp c h.endOk
      param := by simp only [Comp.ofValue, PDesc.ofValue, h.dop]
      sup := by simp only [Comp.ofValue, h.sup]
      need := by have := h.need; simp only [Comp.ofValue, PDesc.ofValue]; omega
      eop := h.eop
      adv := fun org cu => by have := h.size; simp only [Comp.ofValue, PDesc.ofValue]; omega
      val := h.val }
  rej := by
    intro pv _ hwf hf fuel hfu s heop hmid
    cases pv with
    | none =>
      obtain ⟨f, rfl⟩ : ∃ f, fuel = f + 1 := ⟨fuel - 1, by simp only [PDesc.ofValue] at hfu; omega⟩
      refine ⟨.encode, ?_, ?_, RejErr.encode _⟩
      rotate_left
      · simp [PDesc.ofValue, encodeParam, bind, run_bind, run_modifyS, odxraise]
        rfl
    | some v =>
      obtain ⟨f, rfl⟩ : ∃ f, fuel = f + 1 := ⟨fuel - 1, by simp only [PDesc.ofValue] at hfu; omega⟩
      have hc : d.fill v = none := by
        simp only [PDesc.ofValue] at hf
        cases hc : d.fill v with
        | none => rfl
        | some c => rw [hc] at hf; cases hf
      obtain ⟨e, s', hrun, he⟩ := hd.rej v hwf hc f (by simp only [PDesc.ofValue] at hfu; omega)
        { s with cursorByte := posOf bp s.origin s.cursorByte, cursorBit := 0 } rfl heop hmid
      refine ⟨e, s', ?_, he⟩
      simp only [PDesc.ofValue]
      rw [encodeParam_value_step]
      simp only [Option.getD_none]
      rw [hrun]

/-! ### the field anywhere else: the end marker is written -/

def DDesc.endMarkerMid (l : EmLayout) (item : DDesc) : DDesc where
  dop := .endMarkerField (.int l.tv) l.dop item.dop
  fill := fun pv => match pv with
    | .list xs => (item.fillItems (fun _ => true) xs).map (DComp.endMarkerMid l item.dop)
    | _ => none
  complete := fun pv => match pv with
    | .list xs => .list (xs.map item.complete)
    | _ => .none
  typed := fun pv => match pv with
    | .list xs => xs.all item.typed
    | pv => pv.seqTyped
  need := fun pv => match pv with
    | .list xs => xs.length + item.needItems xs + 3
    | _ => 1
  mayEop := false
  minSize := 0

/-- **closure under DYNAMIC-ENDMARKER-FIELD, end marker written** (any position but the last) -/
theorem DDesc.endMarkerMid_okWM (l : EmLayout) (hl : l.ok) (item : DDesc) (hok : item.OkW) (hne : item.mayEop = false)
    (hadv : 1 ≤ item.minSize) (hmiss : l.missD item) : (DDesc.endMarkerMid l item).OkWM true where
  acc := by
    intro pv c hf
    have key : ∃ xs cs, pv = .list xs ∧ item.fillItems (fun _ => true) xs = some cs ∧ c = DComp.endMarkerMid l item.dop cs := by
      cases pv with
      | list xs =>
        simp only [DDesc.endMarkerMid] at hf
        cases hcs : item.fillItems (fun _ => true) xs with
        | none => rw [hcs] at hf; cases hf
        | some cs => rw [hcs] at hf; exact ⟨xs, cs, rfl, hcs, by simpa using hf.symm⟩
      | _ => simp [DDesc.endMarkerMid] at hf
    obtain ⟨xs, cs, rfl, hcs, rfl⟩ := key
    have hfl := item.fillItems_someW hok _ xs cs hcs
    have hitems := hfl.itemOk hne
    have hlen := hfl.length
    have hmem := item.fillItems_mem _ xs cs hcs
    exact {
      ok := DComp.endMarkerMid_ok l hl item.dop cs (fun c hc =>
          ⟨⟨(hitems c hc).1.1.toM true, (hitems c hc).1.2⟩, (hitems c hc).2.1, Nat.le_trans hadv (hitems c hc).2.2.1, by
            obtain ⟨x, hx⟩ := hmem c hc
            exact hmiss x c hx⟩)
      endOk := DComp.endMarkerMid_endOk l item.dop cs
      dop := rfl
      sup := by simp only [DComp.endMarkerMid, hfl.sups]
      need := by have := hfl.maxNeed; simp only [DComp.endMarkerMid, DDesc.endMarkerMid]; omega
      eop := fun h => by cases h
      size := Nat.zero_le _
      val := by
        rw [DComp.endMarkerMid_val, hfl.vals]
        rfl }
  rej := by
    intro pv hwf hf fuel hfu s hcb _ hmid
    have heop' : s.isEndOfPdu = false := hmid rfl
    cases pv with
    | list xs =>
      simp only [DDesc.endMarkerMid] at hfu
      obtain ⟨g, rfl⟩ : ∃ g, fuel = g + 1 := ⟨fuel - 1, by omega⟩
      have hcs : item.fillItems (fun _ => true) xs = none := by
        simp only [DDesc.endMarkerMid] at hf
        cases hcs : item.fillItems (fun _ => true) xs with
        | none => rfl
        | some cs => rw [hcs] at hf; cases hf
      obtain ⟨e, s', hrun, he⟩ := encodeItems_rejW item hok hne false xs hwf hcs g (by omega) { s with isEndOfPdu := false } hcb
      refine ⟨e, s', ?_, he⟩
      simp only [DDesc.endMarkerMid]
      rw [encodeDop_em_step_mid g _ _ _ xs s hcb heop', hrun]
    | atom v =>
      simp only [DDesc.endMarkerMid] at hfu
      obtain ⟨f, rfl⟩ : ∃ f, fuel = f + 1 := ⟨fuel - 1, by omega⟩
      cases v with
      | str cps =>
        exact ⟨.unmodelled, s, by simp [DDesc.endMarkerMid, encodeDop, bind, run_bind, run_getS, odxassert, hcb, run_pure, run_raise],
          Or.inr ⟨rfl, rfl⟩⟩
      | bytes b =>
        exact ⟨.unmodelled, s, by simp [DDesc.endMarkerMid, encodeDop, bind, run_bind, run_getS, odxassert, hcb, run_pure, run_raise],
          Or.inr ⟨rfl, rfl⟩⟩
      | int i =>
        exact ⟨.encode, s, by simp [DDesc.endMarkerMid, encodeDop, bind, run_bind, run_getS, odxassert, hcb, run_pure, odxraise],
          RejErr.encode _⟩
      | flt b =>
        exact ⟨.encode, s, by simp [DDesc.endMarkerMid, encodeDop, bind, run_bind, run_getS, odxassert, hcb, run_pure, odxraise],
          RejErr.encode _⟩
    | dict _ | none | pair _ _ | keyed _ _ | nokey _ | dtc _ =>
      simp only [DDesc.endMarkerMid] at hfu
      obtain ⟨f, rfl⟩ : ∃ f, fuel = f + 1 := ⟨fuel - 1, by omega⟩
      exact ⟨.encode, s, by simp [DDesc.endMarkerMid, encodeDop, bind, run_bind, run_getS, odxassert, hcb, run_pure, odxraise],
        RejErr.encode _⟩

/-! ### the class -/

/-- **`DescribedM p mid`**: the flag-indexed class of W31 — `DescribedP2c` descriptions, terminated MIN-MAX-LENGTH leaves (`mid`),
    structures of such, and DYNAMIC-ENDMARKER-FIELDs over item structures of such: in last position (`emEop`) or with the end
    marker written (`emMid`, `mid`).  Item structures: no END-OF-PDU content, at least one byte, and no component starts with
    the termination value (`EmLayout.missD`). -/
inductive DescribedM : PDesc → Bool → Prop
  | plain (p : PDesc) : DescribedP2c p → DescribedM p false
  | leaf (p : PDesc) : p.IsMidLeaf → DescribedM p true
  | structM (name : String) (bp : Option Nat) (ms : List MDesc) :
      (∀ m ∈ ms, DescribedM m.p m.mid) →
      PDescs.namesOk (MDescs.ps ms) → PDescs.eopLast (MDescs.ps ms) → MDescs.lastMid ms = false →
      DescribedM (PDesc.ofValue name bp (DDesc.struct (MDescs.ps ms))) false
  | emEop (name : String) (bp : Option Nat) (l : EmLayout) (ms : List MDesc) : l.ok →
      (∀ m ∈ ms, DescribedM m.p m.mid) →
      PDescs.namesOk (MDescs.ps ms) → PDescs.eopLast (MDescs.ps ms) → MDescs.lastMid ms = false →
      PDescs.anyEop (MDescs.ps ms) = false → 1 ≤ PDescs.lastAdv (MDescs.ps ms) → l.missD (DDesc.struct (MDescs.ps ms)) →
      DescribedM (PDesc.ofValue name bp (DDesc.endMarkerEop l (DDesc.struct (MDescs.ps ms)))) false
  | emMid (name : String) (bp : Option Nat) (l : EmLayout) (ms : List MDesc) : l.ok →
      (∀ m ∈ ms, DescribedM m.p m.mid) →
      PDescs.namesOk (MDescs.ps ms) → PDescs.eopLast (MDescs.ps ms) → MDescs.lastMid ms = false →
      PDescs.anyEop (MDescs.ps ms) = false → 1 ≤ PDescs.lastAdv (MDescs.ps ms) → l.missD (DDesc.struct (MDescs.ps ms)) →
      DescribedM (PDesc.ofValue name bp (DDesc.endMarkerMid l (DDesc.struct (MDescs.ps ms)))) true

/-- **soundness of `DescribedM`** -/
theorem DescribedM.okWM {p : PDesc} {mid : Bool} (h : DescribedM p mid) : p.OkWM mid := by
  induction h with
  | plain p hp => exact hp.okW.toM false
  | leaf p hp => exact hp.okWM
  | structM name bp ms _ hn hl hmid ih =>
    exact (PDesc.ofValue_okW name bp _ (DDesc.structM_okW ms ih hn hl hmid)).toM false
  | emEop name bp l ms hlo _ hn hl hmid hne hadv hmiss ih =>
    exact (PDesc.ofValue_okW name bp _
      (DDesc.endMarkerEop_okW l hlo _ (DDesc.structM_okW ms ih hn hl hmid) hne hadv hmiss)).toM false
  | emMid name bp l ms hlo _ hn hl hmid hne hadv hmiss ih =>
    exact PDesc.ofValue_okWM name bp _ true
      (DDesc.endMarkerMid_okWM l hlo _ (DDesc.structM_okW ms ih hn hl hmid) hne hadv hmiss)

/-- the message level -/
theorem encodeMessage_describedM_cases (ms : List MDesc) (hd : ∀ m ∈ ms, DescribedM m.p m.mid)
    (hn : PDescs.namesOk (MDescs.ps ms)) (hl : PDescs.eopLast (MDescs.ps ms)) (hmid : MDescs.lastMid ms = false)
    (pv : PVal) (hwf : pv.wfAtoms = true) (trig : Option Bytes) (hneed : (DDesc.struct (MDescs.ps ms)).need pv ≤ modelFuel) :
    ((DDesc.struct (MDescs.ps ms)).fill pv = none ∧
      ∃ e, encodeMessage none (PDescs.toParams (MDescs.ps ms)) pv trig true = .error e ∧
        RejErr e ((DDesc.struct (MDescs.ps ms)).typed pv)) ∨
    (∃ c, (DDesc.struct (MDescs.ps ms)).fill pv = some c ∧ c.Fills (DDesc.struct (MDescs.ps ms)) pv ∧
      ∃ pdu w, encodeMessage none (PDescs.toParams (MDescs.ps ms)) pv trig true = .ok (pdu, w) ∧
        (w = 0 → (c.eopOnly = true → c.size = pdu.length) →
          ∃ cursor, decodeMessage none (PDescs.toParams (MDescs.ps ms)) pdu true =
            .ok ((DDesc.struct (MDescs.ps ms)).complete pv, cursor))) :=
  encodeMessage_structW_cases (MDescs.ps ms)
    (DDesc.structM_okW ms (fun m hm => (hd m hm).okWM) hn hl hmid) pv hwf trig hneed

end OdxVerif.Codec
