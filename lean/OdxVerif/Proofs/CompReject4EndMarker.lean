import OdxVerif.Proofs.CompReject3
import OdxVerif.Proofs.CompExtEndMarker
/-! Compositional tier, rejection side, fourth part (task W31, C04): **DYNAMIC-ENDMARKER-FIELD, positive direction**, as a value-free
    description.  `DDesc.endMarkerEop l item`: the field in LAST position (at the end of the PDU: the items only, no end marker
    written; the decoder still probes for the termination value at every item boundary).
    Hypothesis `EmLayout.missD l item`: **no component the item description can produce starts with the termination value**
    (`EmLayout.miss` of `Proofs/CompExtEndMarker.lean` for every `item.fill pv = some c`) — the encoder does not check this (open finding
    `end-marker-item-collision`, `C04_endmarker_collision_counterexample` is the excluded point).  Decidable sufficient condition
    `EmLayout.missD_of_constFirst`: the item structure starts with a CODED-CONST parameter coded like the termination object whose
    constant differs from the termination value.
    Under it: an accepted list of items decodes to itself (its completion), every other value gives `EncodeError` / `OdxError`.
    Core Lean only. -/
namespace OdxVerif.Codec
open OdxVerif.Bits OdxVerif.OdxM

theorem DDesc.fillItems_mem (d : DDesc) (chk : DComp → Bool) : ∀ (xs : List PVal) (cs : List DComp),
    d.fillItems chk xs = some cs → ∀ c ∈ cs, ∃ x, d.fill x = some c
  | [], cs, h => by
    simp only [DDesc.fillItems, Option.some.injEq] at h
    subst h
    intro c hc; cases hc
  | x :: xs, cs, h => by
    simp only [DDesc.fillItems] at h
    cases h1 : d.fill x with
    | none => rw [h1] at h; cases h
    | some c =>
      rw [h1] at h
      cases h2 : chk c with
      | false => simp [h2] at h
      | true =>
        simp only [h2, if_true] at h
        cases h3 : d.fillItems chk xs with
        | none => rw [h3] at h; simp at h
        | some cs0 =>
          rw [h3] at h
          simp only [Option.some.injEq] at h
          subst h
          intro c' hc'
          rcases List.mem_cons.mp hc' with rfl | hc'
          · exact ⟨x, h1⟩
          · exact DDesc.fillItems_mem d chk xs cs0 h3 c' hc'

/-- no component of the item description starts with the termination value -/
def EmLayout.missD (l : EmLayout) (item : DDesc) : Prop := ∀ pv c, item.fill pv = some c → l.miss c

/-- an item structure whose first parameter is a CODED-CONST coded like the termination object, with another constant -/
theorem EmLayout.miss_of_firstConst (l : EmLayout) (n : String) (v : Int) (b : Bool) (gs : List Comp) (kvs : List (String × PVal))
    (hv : v ≠ l.tv) : l.miss (DComp.structOf (Comp.ofObjConst (l.named n) (.int v) b :: gs) kvs) := by
  intro d _ hval
  have hval' : PVal.dict (((Comp.ofObjConst (l.named n) (.int v) b).name,
      PVal.atom (decStep (l.named n) { d with origin := d.cursorByte }).1) ::
        ((Comps.pair gs).dec (decStep (l.named n) { d with origin := d.cursorByte }).2).1) =
      PVal.dict (((Comp.ofObjConst (l.named n) (.int v) b).name, PVal.atom (.int v)) :: (Comps.pair gs).val) := hval
  simp only [PVal.dict.injEq, List.cons.injEq, Prod.mk.injEq, PVal.atom.injEq, true_and] at hval'
  have h1 : (decStep (l.named n) { d with origin := d.cursorByte }).1 = .int v := hval'.1
  have h2 : (decStep l.obj d).1 = (decStep (l.named n) { d with origin := d.cursorByte }).1 := rfl
  rw [h2, h1]
  intro he
  exact hv (by simpa using he)

/-- **the decidable sufficient condition**: the item structure starts with a CODED-CONST ≠ termination value, coded like the
    termination object -/
theorem EmLayout.missD_of_constFirst (l : EmLayout) (n : String) (v : Int) (ps : List PDesc) (hv : v ≠ l.tv) :
    l.missD (DDesc.struct (PDesc.ofObjConst (l.named n) (.int v) :: ps)) := by
  intro pv c hf
  cases pv with
  | dict kvs =>
    simp only [DDesc.struct] at hf
    split at hf
    · cases hf
    · simp only [PDescs.fill] at hf
      cases h0 : (PDesc.ofObjConst (l.named n) (.int v)).fill (lookupV (PDesc.ofObjConst (l.named n) (.int v)).name kvs) with
      | none => rw [h0] at hf; cases hf
      | some g =>
        cases h1 : PDescs.fill ps kvs with
        | none => rw [h0, h1] at hf; cases hf
        | some gs =>
          rw [h0, h1] at hf
          simp only [Option.map_some, Option.some.injEq] at hf
          subst hf
          have hg : ∃ b, g = Comp.ofObjConst (l.named n) (.int v) b := by
            generalize lookupV (PDesc.ofObjConst (l.named n) (.int v)).name kvs = q at h0
            cases q with
            | none =>
              simp only [PDesc.ofObjConst, Option.some.injEq] at h0
              exact ⟨false, h0.symm⟩
            | some x =>
              cases x with
              | atom a =>
                simp only [PDesc.ofObjConst] at h0
                split at h0
                · exact ⟨true, (Option.some.inj h0).symm⟩
                · cases h0
              | _ => simp [PDesc.ofObjConst] at h0
          obtain ⟨b, rfl⟩ := hg
          exact l.miss_of_firstConst n v b gs kvs hv
  | _ => simp [DDesc.struct] at hf

/-! ### the field in last position -/

def DDesc.endMarkerEop (l : EmLayout) (item : DDesc) : DDesc where
  dop := .endMarkerField (.int l.tv) l.dop item.dop
  fill := fun pv => match pv with
    | .list xs => (item.fillItems (fun _ => true) xs).map (DComp.endMarkerEop l item.dop)
    | _ => none
  complete := fun pv => match pv with
    | .list xs => .list (xs.map item.complete)
    | _ => .none
  typed := fun pv => match pv with
    | .list xs => xs.all item.typed
    | pv => pv.seqTyped
  need := fun pv => match pv with
    | .list xs => xs.length + item.needItems xs + 3
    | _ => 1
  mayEop := true
  minSize := 0

/-- **closure under DYNAMIC-ENDMARKER-FIELD at the end of the PDU** -/
theorem DDesc.endMarkerEop_okW (l : EmLayout) (hl : l.ok) (item : DDesc) (hok : item.OkW) (hne : item.mayEop = false)
    (hadv : 1 ≤ item.minSize) (hmiss : l.missD item) : (DDesc.endMarkerEop l item).OkW where
  acc := by
    intro pv c hf
    have key : ∃ xs cs, pv = .list xs ∧ item.fillItems (fun _ => true) xs = some cs ∧ c = DComp.endMarkerEop l item.dop cs := by
      cases pv with
      | list xs =>
        simp only [DDesc.endMarkerEop] at hf
        cases hcs : item.fillItems (fun _ => true) xs with
        | none => rw [hcs] at hf; cases hf
        | some cs => rw [hcs] at hf; exact ⟨xs, cs, rfl, hcs, by simpa using hf.symm⟩
      | _ => simp [DDesc.endMarkerEop] at hf
    obtain ⟨xs, cs, rfl, hcs, rfl⟩ := key
    have hfl := item.fillItems_someW hok _ xs cs hcs
    have hitems := hfl.itemOk hne
    have hlen := hfl.length
    have hmem := item.fillItems_mem _ xs cs hcs
    exact {
      ok := DComp.endMarkerEop_ok l hl item.dop cs (fun c hc =>
          ⟨⟨(hitems c hc).1.1.toM true, (hitems c hc).1.2⟩, (hitems c hc).2.1, Nat.le_trans hadv (hitems c hc).2.2.1, by
            obtain ⟨x, hx⟩ := hmem c hc
            exact hmiss x c hx⟩)
        (fun c hc => (hitems c (List.mem_of_getLast? hc)).1.1.toM false)
      endOk := DComp.endMarkerEop_endOk l item.dop cs
      dop := rfl
      sup := by simp only [DComp.endMarkerEop, hfl.sups]
      need := by have := hfl.maxNeed; simp only [DComp.endMarkerEop, DDesc.endMarkerEop]; omega
      eop := fun _ => rfl
      size := Nat.zero_le _
      val := by
        rw [DComp.endMarkerEop_val, hfl.vals]
        rfl }
  rej := by
    intro pv hwf hf fuel hfu s hcb heop
    have heop' : s.isEndOfPdu = true := heop rfl
    cases pv with
    | list xs =>
      simp only [DDesc.endMarkerEop] at hfu
      obtain ⟨g, rfl⟩ : ∃ g, fuel = g + 1 := ⟨fuel - 1, by omega⟩
      have hcs : item.fillItems (fun _ => true) xs = none := by
        simp only [DDesc.endMarkerEop] at hf
        cases hcs : item.fillItems (fun _ => true) xs with
        | none => rfl
        | some cs => rw [hcs] at hf; cases hf
      obtain ⟨e, s', hrun, he⟩ := encodeItems_rejW item hok hne true xs hwf hcs g (by omega) { s with isEndOfPdu := false } hcb
      refine ⟨e, s', ?_, he⟩
      simp only [DDesc.endMarkerEop]
      rw [encodeDop_em_step_eop g _ _ _ xs s hcb heop', hrun]
    | atom v =>
      simp only [DDesc.endMarkerEop] at hfu
      obtain ⟨f, rfl⟩ : ∃ f, fuel = f + 1 := ⟨fuel - 1, by omega⟩
      cases v with
      | str cps =>
        exact ⟨.unmodelled, s, by simp [DDesc.endMarkerEop, encodeDop, bind, run_bind, run_getS, odxassert, hcb, run_pure, run_raise],
          Or.inr ⟨rfl, rfl⟩⟩
      | bytes b =>
        exact ⟨.unmodelled, s, by simp [DDesc.endMarkerEop, encodeDop, bind, run_bind, run_getS, odxassert, hcb, run_pure, run_raise],
          Or.inr ⟨rfl, rfl⟩⟩
      | int i =>
        exact ⟨.encode, s, by simp [DDesc.endMarkerEop, encodeDop, bind, run_bind, run_getS, odxassert, hcb, run_pure, odxraise],
          RejErr.encode _⟩
      | flt b =>
        exact ⟨.encode, s, by simp [DDesc.endMarkerEop, encodeDop, bind, run_bind, run_getS, odxassert, hcb, run_pure, odxraise],
          RejErr.encode _⟩
    | dict _ | none | pair _ _ | keyed _ _ | nokey _ | dtc _ =>
      simp only [DDesc.endMarkerEop] at hfu
      obtain ⟨f, rfl⟩ : ∃ f, fuel = f + 1 := ⟨fuel - 1, by omega⟩
      exact ⟨.encode, s, by simp [DDesc.endMarkerEop, encodeDop, bind, run_bind, run_getS, odxassert, hcb, run_pure, odxraise],
        RejErr.encode _⟩

end OdxVerif.Codec
