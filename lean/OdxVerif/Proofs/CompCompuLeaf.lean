import OdxVerif.Proofs.CompKinds
import OdxVerif.Proofs.CompuDop
/-! Compositional components, extension W21 (compu-method leaves): a VALUE parameter over a standard-length simple DOP
    with a LINEAR / TEXTTABLE compu method, and over a DTC-DOP, as a `Comp` — so that every closure lemma of the
    compositional tier (`DComp.struct_ok`, the field and multiplexer lemmas, BYTE-SIZE …) applies unchanged.

    The leaf is *the object of the internal value* (`Obj`: position, diag-coded type; `Pair.ofObj o i`) whose decoded value
    is mapped to the physical value (`Pair.map`), with the decoder precondition "what is on the wire is the internal value
    `i`" (`Pair.guard`, as for PHYS-CONST), which the round trip establishes.  This file: the diag-coded-type level of
    `encodeParam_obj` / `decodeParam_obj`, and the generic leaf over an abstract "state-free conversion" hypothesis
    (`ConvOk`); `CompCompuKinds.lean` discharges it from decidable hypotheses for LINEAR and TEXTTABLE. -/
namespace OdxVerif.Codec
open OdxVerif.Bits OdxVerif.OdxM OdxVerif.Compu

/-- the diag-coded type of an object -/
def Obj.dct (o : Obj) : Dct := .std o.bt o.enc o.hl o.bl none false

theorem Obj.dct_baseType (o : Obj) : o.dct.baseType = o.bt := rfl

/-- the state a VALUE parameter hands to its DOP: positioned -/
def Obj.encAt (o : Obj) (s : EncState) : EncState :=
  { s with cursorByte := posOf o.bytePos s.origin s.cursorByte, cursorBit := o.bitPos.getD 0 }
def Obj.decAt (o : Obj) (d : DecState) : DecState :=
  { d with cursorByte := posOf o.bytePos d.origin d.cursorByte, cursorBit := o.bitPos.getD 0 }

/-- **the diag-coded type of an object writes `encStep`** (extracted from `encodeParam_obj`) -/
theorem encodeDct_obj (o : Obj) (ho : o.ok) (v : IVal) (hr : o.inRange v) (s : EncState) :
    ∃ s', encodeDct o.dct v (o.encAt s) true = .ok ((), s') ∧ { s' with cursorBit := 0 } = encStep o v s := by
  have h : encodeParam ((0 + 1) + 1) o.toParam (some (.atom v)) s true = .ok ((), encStep o v s) := encodeParam_obj o ho v hr 0 s
  simp only [Obj.toParam] at h
  rw [encodeParam_value_step] at h
  simp only [encodeDop] at h
  by_cases ht : typeAdmits o.bt v = true
  · simp only [ht, Bool.not_true, Bool.false_eq_true, if_false] at h
    cases hd : encodeDct o.dct v (o.encAt s) true with
    | error e =>
      have hd' : encodeDct (.std o.bt o.enc o.hl o.bl none false) v
          { s with cursorByte := posOf o.bytePos s.origin s.cursorByte, cursorBit := o.bitPos.getD 0 } true = .error e := hd
      rw [hd'] at h
      cases h
    | ok q =>
      obtain ⟨u, s'⟩ := q
      have hd' : encodeDct (.std o.bt o.enc o.hl o.bl none false) v
          { s with cursorByte := posOf o.bytePos s.origin s.cursorByte, cursorBit := o.bitPos.getD 0 } true = .ok (u, s') := hd
      rw [hd'] at h
      simp only [Except.ok.injEq, Prod.mk.injEq, true_and] at h
      exact ⟨s', rfl, h⟩
  · simp only [ht, Bool.not_false, if_true, run_raise] at h
    cases h

/-- **the diag-coded type of an object reads `decStep`** (extracted from `decodeParam_obj`) -/
theorem decodeDct_obj (o : Obj) (ho : o.ok) (d : DecState) (hfit : o.fitsIn d) :
    ∃ d', decodeDct o.dct (o.decAt d) true = .ok ((decStep o d).1, d') ∧ { d' with cursorBit := 0 } = (decStep o d).2 := by
  have h : decodeParam ((0 + 1) + 1) o.toParam d true = .ok (.atom (decStep o d).1, (decStep o d).2) :=
    decodeParam_obj o ho 0 d hfit.1 hfit.2
  simp only [Obj.toParam] at h
  rw [decodeParam_value_step] at h
  simp only [decodeDop, bind, run_bind, pure] at h
  cases hd : decodeDct o.dct (o.decAt d) true with
  | error e =>
    have hd' : decodeDct (.std o.bt o.enc o.hl o.bl none false)
        { d with cursorByte := posOf o.bytePos d.origin d.cursorByte, cursorBit := o.bitPos.getD 0 } true = .error e := hd
    rw [hd'] at h
    cases h
  | ok q =>
    obtain ⟨x, d'⟩ := q
    have hd' : decodeDct (.std o.bt o.enc o.hl o.bl none false)
        { d with cursorByte := posOf o.bytePos d.origin d.cursorByte, cursorBit := o.bitPos.getD 0 } true = .ok (x, d') := hd
    rw [hd'] at h
    simp only [run_pure, Except.ok.injEq, Prod.mk.injEq, PVal.atom.injEq] at h
    obtain ⟨hx, hd2⟩ := h
    subst hx
    exact ⟨d', rfl, hd2⟩

/-! ### the generic leaf: a DOP that is "the diag-coded type of `o` composed with a conversion" -/

/-- the DOP `dop`, given the physical value `sup`, hands the internal value `i` to the diag-coded type `dct` and nothing
    else happens; and when the diag-coded type extracts `i` the DOP returns `val` (strict mode, every state) -/
structure ConvOk (dop : Dop) (dct : Dct) (sup val : PVal) (i : IVal) : Prop where
  enc : ∀ (f : Nat) (es : EncState), encodeDop (f + 1) dop sup es true = encodeDct dct i es true
  dec : ∀ (f : Nat) (ds ds' : DecState), decodeDct dct ds true = .ok (i, ds') → decodeDop (f + 1) dop ds true = .ok (val, ds')
  sup_ne_none : sup ≠ PVal.none

/-- VALUE parameter (no default) at the place of `o` typed by `dop`; supplied `sup`, on the wire the object `i`, decoded `val` -/
def Comp.ofConvLeaf (o : Obj) (dop : Dop) (sup val : PVal) (i : IVal) : Comp where
  param := .mk o.name o.bytePos o.bitPos (.value dop none)
  pair := ((Pair.ofObj o i).guard (· = i)).map (fun _ => val)
  sup := some sup
  need := 2
  cur := fun org c => o.pos org c + o.k

theorem Obj.pos_eq_posOf (o : Obj) (org c : Nat) : o.pos org c = posOf o.bytePos org c := by
  unfold Obj.pos posOf; rfl

/-- **closure: a conversion leaf is a component** -/
theorem Comp.ofConvLeaf_ok (o : Obj) (dop : Dop) (sup val : PVal) (i : IVal) (ho : o.ok) (hr : o.inRange i)
    (hc : ConvOk dop o.dct sup val i) : (Comp.ofConvLeaf o dop sup val i).Ok where
  good := by
    have h1 : Good ((Pair.ofObj o i).guard (· = i)) := (Good.ofObj o ho i hr).guard _ rfl
    exact h1.map (fun _ => val)
  notKey := rfl
  supplied := fun _ => rfl
  sup_ne_none := by
    have := hc.sup_ne_none
    simpa [Comp.ofConvLeaf] using this
  encode_eq := by
    intro fuel hf s _
    obtain ⟨f, rfl⟩ : ∃ f, fuel = (f + 1) + 1 := ⟨fuel - 2, by simp only [Comp.ofConvLeaf] at hf; omega⟩
    obtain ⟨s', hrun, hs'⟩ := encodeDct_obj o ho i hr s
    refine ⟨encStep o i s, ?_, SameCore.refl _⟩
    simp only [Comp.ofConvLeaf]
    rw [encodeParam_value_step, hc.enc f]
    have hrun' : encodeDct o.dct i { s with cursorByte := posOf o.bytePos s.origin s.cursorByte, cursorBit := o.bitPos.getD 0 } true
        = .ok ((), s') := hrun
    rw [hrun']
    simp only [hs']
  enc_cursor := fun _ => rfl
  cur_shift := by
    intro org c p
    simp only [Comp.ofConvLeaf, Obj.pos_shift]
    omega
  dec_cursorBit := fun _ _ => rfl
  dec_msg := fun _ => rfl
  dec_origin := fun _ => rfl
  decode_eq := by
    intro fuel hf d _ hfit _
    obtain ⟨f, rfl⟩ : ∃ f, fuel = (f + 1) + 1 := ⟨fuel - 2, by simp only [Comp.ofConvLeaf] at hf; omega⟩
    have hfit' : o.fitsIn d ∧ (decStep o d).1 = i := hfit
    obtain ⟨d', hrun, hd'⟩ := decodeDct_obj o ho d hfit'.1
    rw [hfit'.2] at hrun
    have hdop := hc.dec f _ _ hrun
    have hdop' : decodeDop (f + 1) dop { d with cursorByte := posOf o.bytePos d.origin d.cursorByte, cursorBit := o.bitPos.getD 0 } true
        = .ok (val, d') := hdop
    simp only [Comp.ofConvLeaf]
    rw [decodeParam_value_step, hdop']
    simp only [hd']
    rfl

theorem Comp.ofConvLeaf_endOk (o : Obj) (dop : Dop) (sup val : PVal) (i : IVal) : (Comp.ofConvLeaf o dop sup val i).EndOk :=
  Comp.endOk_of_plain _ rfl

theorem Comp.ofConvLeaf_val (o : Obj) (dop : Dop) (sup val : PVal) (i : IVal) : (Comp.ofConvLeaf o dop sup val i).pair.val = val := rfl

/-! ### the same leaf as a PHYS-CONST parameter -/

/-- PHYS-CONST parameter at the place of `o` typed by `dop` with the constant `c` (supplied — it must then be the constant —
    or omitted); on the wire the object `i`, decoded `val` (which must compare equal to the constant) -/
def Comp.ofConvPhysConst (o : Obj) (dop : Dop) (c val : PVal) (i : IVal) (supplied : Bool) : Comp where
  param := .mk o.name o.bytePos o.bitPos (.physConst dop c)
  pair := ((Pair.ofObj o i).guard (· = i)).map (fun _ => val)
  sup := if supplied then some c else none
  need := 2
  cur := fun org cu => o.pos org cu + o.k

theorem Comp.ofConvPhysConst_ok (o : Obj) (dop : Dop) (c val : PVal) (i : IVal) (b : Bool) (ho : o.ok) (hr : o.inRange i)
    (hc : ConvOk dop o.dct c val i) (hcc : pvalEq c c = true) (hvc : pvalEq val c = true) :
    (Comp.ofConvPhysConst o dop c val i b).Ok where
  good := (Comp.ofConvLeaf_ok o dop c val i ho hr hc).good
  notKey := rfl
  supplied := fun h => by cases h
  sup_ne_none := by
    have := hc.sup_ne_none
    cases b <;> simp [Comp.ofConvPhysConst, this]
  encode_eq := by
    intro fuel hf s he
    obtain ⟨s', hrun, hcore⟩ := (Comp.ofConvLeaf_ok o dop c val i ho hr hc).encode_eq fuel hf s (fun h => by cases h)
    refine ⟨s', ?_, hcore⟩
    simp only [Comp.ofConvPhysConst]
    rw [encodeParam_physConst _ _ _ _ _ _ _ (by
      cases b
      · left; rfl
      · right; exact ⟨_, rfl, hcc⟩)]
    exact hrun
  enc_cursor := fun _ => rfl
  cur_shift := by
    intro org cu p
    simp only [Comp.ofConvPhysConst, Obj.pos_shift]
    omega
  dec_cursorBit := fun _ _ => rfl
  dec_msg := fun _ => rfl
  dec_origin := fun _ => rfl
  decode_eq := by
    intro fuel hf d hcb hfit hpre
    have h := (Comp.ofConvLeaf_ok o dop c val i ho hr hc).decode_eq fuel hf d hcb hfit trivial
    exact decodeParam_physConst_of_value _ _ _ _ _ _ _ _ _ h hvc

theorem Comp.ofConvPhysConst_endOk (o : Obj) (dop : Dop) (c val : PVal) (i : IVal) (b : Bool) :
    (Comp.ofConvPhysConst o dop c val i b).EndOk := Comp.endOk_of_plain _ rfl

/-! ### the same leaf as a VALUE parameter with PHYSICAL-DEFAULT-VALUE -/

/-- VALUE parameter with PHYSICAL-DEFAULT-VALUE `dv` typed by `dop`; `omitted`: nothing is supplied and the default is
    encoded (then `sup` — the value that reaches the DOP — is the default), otherwise `sup` is supplied -/
def Comp.ofConvDefault (o : Obj) (dop : Dop) (dv : PVal) (omitted : Bool) (sup val : PVal) (i : IVal) : Comp :=
  (Comp.ofConvLeaf o dop sup val i).withDefault o.name o.bytePos o.bitPos dop dv omitted

theorem Comp.ofConvDefault_ok (o : Obj) (dop : Dop) (dv : PVal) (omitted : Bool) (sup val : PVal) (i : IVal) (ho : o.ok)
    (hr : o.inRange i) (hc : ConvOk dop o.dct sup val i) (hom : omitted = true → sup = dv) :
    (Comp.ofConvDefault o dop dv omitted sup val i).Ok :=
  Comp.withDefault_ok _ (Comp.ofConvLeaf_ok o dop sup val i ho hr hc) _ _ _ _ _ _ rfl (fun h => by rw [hom h]; rfl)

theorem Comp.ofConvDefault_endOk (o : Obj) (dop : Dop) (dv : PVal) (omitted : Bool) (sup val : PVal) (i : IVal) :
    (Comp.ofConvDefault o dop dv omitted sup val i).EndOk :=
  Comp.withDefault_endOk _ (Comp.ofConvLeaf_endOk o dop sup val i) _ _ _ _ _ _

end OdxVerif.Codec
