import OdxVerif.Proofs.CompCompu3RejectDescribed
import OdxVerif.Proofs.CompCompu3Static
/-! Compositional tier, rejection side (task W24, C04): the conversion specification of a **compu-method DOP** (LINEAR,
    TEXTTABLE) over an integer object, `CompuShape.spec`.
    The conversion layer of the model (`dopP2I` / `dopI2P`, `Model/CodecCompu.lean`) neither reads nor writes the codec state
    and fails only with `EncodeError`, `OdxError` or the model's `unmodelled` (`dopP2I_plain`, proved by walking the program:
    tactic `plain`); so what it makes of a supplied atom is a function of the atom (`CompuShape.p2i` — the model's own
    conversion, run on the empty state).  The specification accepts an atom iff the conversion returns an internal value the
    object can hold; `typed` is false exactly where the conversion ends in `unmodelled` (outside the exactness guard,
    non-finite floats, …).  Two hypotheses on the DESCRIPTION (`CompuShape.ok`): the internal values are integers (`hout`) and
    every internal value the encoder produces is one the decoder converts back (`hback` — for a TEXTTABLE: every
    COMPU-INVERSE-VALUE / lower limit lies in exactly one scale; it excludes `exTTInvParams`-like tables whose encoder output
    the decoder rejects).  For a TEXTTABLE both follow from decidable checks over the finitely many candidates
    (`TTShape.ok_of_check`). -/
namespace OdxVerif.Codec
open OdxVerif.Bits OdxVerif.OdxM OdxVerif.Compu

def EncU (e : Err) : Prop := e = .encode ∨ e = .odx ∨ e = .unmodelled

/-- a strict-mode program that neither reads nor writes the state and fails only with errors of class `P` -/
def Plain {σ α : Type} (P : Err → Prop) (m : OdxM σ α) : Prop :=
  (∃ a, ∀ st, m st true = .ok (a, st)) ∨ (∃ e, P e ∧ ∀ st, m st true = .error (e, st))

theorem Plain.pure {σ α : Type} (P : Err → Prop) (a : α) : Plain P (pure a : OdxM σ α) := Or.inl ⟨a, fun _ => rfl⟩
theorem Plain.raise {σ α : Type} (P : Err → Prop) (e : Err) (h : P e) : Plain P (raise e : OdxM σ α) := Or.inr ⟨e, h, fun _ => rfl⟩
theorem Plain.odxraise {σ : Type} (P : Err → Prop) (e : Err) (h : P e) : Plain P (odxraise e : OdxM σ Unit) :=
  Or.inr ⟨e, h, fun _ => rfl⟩
theorem Plain.bind {σ α β : Type} {P : Err → Prop} {m : OdxM σ α} {f : α → OdxM σ β} (hm : Plain P m) (hf : ∀ a, Plain P (f a)) :
    Plain P (m >>= f) := by
  rcases hm with ⟨a, ha⟩ | ⟨e, he, hr⟩
  · rcases hf a with ⟨b, hb⟩ | ⟨e, he, hr⟩
    · exact Or.inl ⟨b, fun st => by
        show (OdxM.bind m f) st true = _
        rw [run_bind, ha]; exact hb st⟩
    · exact Or.inr ⟨e, he, fun st => by
        show (OdxM.bind m f) st true = _
        rw [run_bind, ha]; exact hr st⟩
  · exact Or.inr ⟨e, he, fun st => by
      show (OdxM.bind m f) st true = _
      rw [run_bind, hr]⟩

macro "plain" : tactic => `(tactic| repeat (first
  | exact Plain.pure _ _ | exact Plain.raise _ _ (by first | trivial | simp [EncU])
  | exact Plain.odxraise _ _ (by first | trivial | simp [EncU])
  | (refine Plain.bind ?_ (fun _ => ?_)) | split))

theorem methodP2I_plain {σ : Type} (m : Method) (p : Val) : Plain EncU (methodP2I m p : OdxM σ Val) := by
  unfold methodP2I
  plain

/-- **the physical → internal conversion of a DOP is state-free and fails only with EncodeError / OdxError / `unmodelled`** -/
theorem dopP2I_plain {σ : Type} (m : Method) (v : IVal) : Plain EncU (dopP2I m v : OdxM σ IVal) := by
  unfold dopP2I
  split
  · plain
  · split
    · plain
    · split
      · plain
      · plain
      · refine Plain.bind (methodP2I_plain m _) (fun _ => ?_)
        plain

theorem methodI2P_plain {σ : Type} (arith : Err) (m : Method) (i : Val) :
    Plain (fun _ => True) (methodI2P arith m i : OdxM σ (Option Val)) := by
  unfold methodI2P
  plain

/-- the internal → physical conversion of a DOP is state-free -/
theorem dopI2P_plain {σ : Type} (m : Method) (v : IVal) : Plain (fun _ => True) (dopI2P m v : OdxM σ (Option IVal)) := by
  unfold dopI2P
  split
  · plain
  · split
    · plain
    · refine Plain.bind (methodI2P_plain _ m _) (fun _ => ?_)
      plain
    · plain

/-- a compu-method DOP over the object `o` of its internal value: physical type, compu method, the method object -/
structure CompuShape where
  o : Obj
  phys : BaseType
  cm : CCompu
  m : Method

def CompuShape.dop (l : CompuShape) : Dop := .simple l.o.dct l.phys l.cm

/-- what the conversion layer makes of a supplied atom (the model's `dopP2I`, which is state-free: `dopP2I_plain`) -/
def CompuShape.p2i (l : CompuShape) (v : IVal) : Except Err IVal :=
  match (dopP2I l.m v : EncM IVal) {} true with
  | .ok (i, _) => .ok i
  | .error (e, _) => .error e

/-- what the decoder makes of an internal value (the model's `dopI2P` in strict mode) -/
def CompuShape.i2p (l : CompuShape) (i : IVal) : Option IVal :=
  match (dopI2P l.m i : DecM (Option IVal)) { msg := [] } true with
  | .ok (some p, _) => some p
  | _ => none

def CCompu.isConv : CCompu → Bool
  | .linear _ => true
  | .texttable _ => true
  | _ => false

def CompuShape.ok (l : CompuShape) : Prop :=
  l.o.ok ∧ l.o.isInt ∧ l.cm.isConv = true ∧ l.cm.method? l.o.bt l.phys = some l.m ∧
  (∀ v i, l.p2i v = .ok i → ∃ c, i = .int c) ∧
  (∀ v i, l.p2i v = .ok i → l.o.accepts i = true → (l.i2p i).isSome = true)

/-- accepted: an atom the conversion layer converts to an internal value the object can hold; decoded: what the decoder makes
    of that internal value.  `typed` is false exactly where the model's conversion ends in `unmodelled`. -/
def CompuShape.spec (l : CompuShape) : ConvSpec where
  conv := fun x => match x with
    | .atom v =>
      match l.p2i v with
      | .ok i => if l.o.accepts i then (l.i2p i).map fun p => (.atom p, i) else none
      | .error _ => none
    | _ => none
  typed := fun x => match x with
    | .atom v =>
      match l.p2i v with
      | .error .unmodelled => false
      | _ => true
    | _ => true

theorem CompuShape.p2i_ok (l : CompuShape) (v i : IVal) (h : l.p2i v = .ok i) (es : EncState) :
    (dopP2I l.m v : EncM IVal) es true = .ok (i, es) := by
  rcases dopP2I_plain (σ := EncState) l.m v with ⟨a, ha⟩ | ⟨e, _, he⟩
  · simp only [CompuShape.p2i, ha, Except.ok.injEq] at h
    rw [ha, h]
  · simp [CompuShape.p2i, he] at h

theorem CompuShape.p2i_err (l : CompuShape) (v : IVal) (e : Err) (h : l.p2i v = .error e) (es : EncState) :
    (dopP2I l.m v : EncM IVal) es true = .error (e, es) ∧ EncU e := by
  rcases dopP2I_plain (σ := EncState) l.m v with ⟨a, ha⟩ | ⟨e', hP, he⟩
  · simp [CompuShape.p2i, ha] at h
  · simp only [CompuShape.p2i, he, Except.error.injEq] at h
    rw [he, h]
    exact ⟨rfl, h ▸ hP⟩

/-- the DOP's encoder = the conversion followed by the diag-coded type -/
theorem CompuShape.encodeDop_atom (l : CompuShape) (hconv : l.cm.isConv = true) (hm : l.cm.method? l.o.bt l.phys = some l.m)
    (v : IVal) (f : Nat) (es : EncState) :
    encodeDop (f + 1) l.dop (.atom v) es true =
      (match (dopP2I l.m v : EncM IVal) es true with
       | .ok (i, es') => encodeDct l.o.dct i es' true
       | .error e => .error e) := by
  unfold CompuShape.dop encodeDop
  cases hc : l.cm with
  | identical => rw [hc] at hconv; cases hconv
  | other => rw [hc] at hconv; cases hconv
  | linear d =>
    rw [hc] at hm
    simp only [Obj.dct_baseType, hm, bind, run_bind]
    generalize (dopP2I l.m v : EncM IVal) es true = r
    cases r with
    | error e => rfl
    | ok q => cases q; rfl
  | texttable scs =>
    rw [hc] at hm
    simp only [Obj.dct_baseType, hm, bind, run_bind]
    generalize (dopP2I l.m v : EncM IVal) es true = r
    cases r with
    | error e => rfl
    | ok q => cases q; rfl

theorem CompuShape.encodeDop_nonatom (l : CompuShape) (hconv : l.cm.isConv = true) (x : PVal) (hx : ∀ v, x ≠ .atom v)
    (f : Nat) (es : EncState) : encodeDop (f + 1) l.dop x es true = .error (.encode, es) := by
  unfold CompuShape.dop encodeDop
  cases hc : l.cm with
  | identical => rw [hc] at hconv; cases hconv
  | other => rw [hc] at hconv; cases hconv
  | linear d => cases x <;> first | exact absurd rfl (hx _) | rfl
  | texttable scs => cases x <;> first | exact absurd rfl (hx _) | rfl

theorem CompuShape.decodeDop_of (l : CompuShape) (hconv : l.cm.isConv = true) (hm : l.cm.method? l.o.bt l.phys = some l.m)
    (i p : IVal) (hp : l.i2p i = some p) (f : Nat) (ds ds' : DecState) (hdec : decodeDct l.o.dct ds true = .ok (i, ds')) :
    decodeDop (f + 1) l.dop ds true = .ok (.atom p, ds') := by
  have hrun : (dopI2P l.m i : DecM (Option IVal)) ds' true = .ok (some p, ds') := by
    rcases dopI2P_plain (σ := DecState) l.m i with ⟨a, ha⟩ | ⟨e, _, he⟩
    · simp only [CompuShape.i2p, ha] at hp
      rw [ha]
      cases a with
      | none => cases hp
      | some p' => simp only [Option.some.injEq] at hp; rw [hp]
    · simp [CompuShape.i2p, he] at hp
  unfold CompuShape.dop decodeDop
  cases hc : l.cm with
  | identical => rw [hc] at hconv; cases hconv
  | other => rw [hc] at hconv; cases hconv
  | linear d => rw [hc] at hm; simp only [Obj.dct_baseType, hm, bind, run_bind, hdec, hrun, pure, run_pure]
  | texttable scs => rw [hc] at hm; simp only [Obj.dct_baseType, hm, bind, run_bind, hdec, hrun, pure, run_pure]

/-- **the conversion specification of a compu-method DOP is sound** -/
theorem CompuShape.spec_ok (l : CompuShape) (h : l.ok) : l.spec.Ok l.o l.dop where
  acc := by
    intro x val i hc
    obtain ⟨ho, hint, hconv, hm, hout, hback⟩ := h
    cases x with
    | atom v =>
      simp only [CompuShape.spec] at hc
      cases hp : l.p2i v with
      | error e => rw [hp] at hc; cases hc
      | ok i' =>
        rw [hp] at hc
        dsimp only at hc
        cases hacc : l.o.accepts i' with
        | false => rw [hacc] at hc; simp at hc
        | true =>
          rw [hacc] at hc
          simp only [if_true] at hc
          cases hq : l.i2p i' with
          | none => rw [hq] at hc; cases hc
          | some p =>
            rw [hq] at hc
            simp only [Option.map_some, Option.some.injEq, Prod.mk.injEq] at hc
            obtain ⟨rfl, rfl⟩ := hc
            refine ⟨(l.o.accepts_iff ho i').mp hacc, ?_⟩
            exact {
              enc := fun f es => by rw [l.encodeDop_atom hconv hm v f es, l.p2i_ok v i' hp es]
              dec := fun f ds ds' hdec => l.decodeDop_of hconv hm i' p hq f ds ds' hdec
              sup_ne_none := by simp }
    | _ => simp [CompuShape.spec] at hc
  rej := by
    intro x hx hwf hc f es
    obtain ⟨ho, hint, hconv, hm, hout, hback⟩ := h
    by_cases hat : ∃ v, x = .atom v
    · obtain ⟨v, rfl⟩ := hat
      simp only [CompuShape.spec] at hc ⊢
      rw [l.encodeDop_atom hconv hm v f]
      cases hp : l.p2i v with
      | error e =>
        obtain ⟨hrun, hU⟩ := l.p2i_err v e hp (l.o.encAt es)
        rw [hrun]
        refine ⟨e, _, rfl, ?_⟩
        rcases hU with rfl | rfl | rfl
        · exact RejErr.encode _
        · exact RejErr.odx _
        · exact Or.inr ⟨rfl, rfl⟩
      | ok i =>
        rw [l.p2i_ok v i hp (l.o.encAt es)]
        rw [hp] at hc
        dsimp only at hc
        obtain ⟨c, rfl⟩ := hout v i hp
        have hacc : l.o.accepts (.int c) = false := by
          cases ha : l.o.accepts (.int c) with
          | false => rfl
          | true =>
            rw [ha] at hc
            simp only [if_true] at hc
            have := hback v _ hp ha
            cases hq : l.i2p (.int c) with
            | none => rw [hq] at this; cases this
            | some p => rw [hq] at hc; cases hc
        have hadm : typeAdmits l.o.bt (.int c) = true := by
          unfold Obj.isInt at hint
          rcases hint with h | h <;> simp [Obj.bt, h, typeAdmits]
        obtain ⟨e, s', hrun, he⟩ := encodeDct_obj_bad l.o ho (.int c) rfl hadm hacc es
        rw [l.o.typedLeaf_int hint] at he
        exact ⟨e, s', hrun, he⟩
    · have hx' : ∀ v, x ≠ .atom v := fun v e => hat ⟨v, e⟩
      rw [l.encodeDop_nonatom hconv x hx' f]
      exact ⟨.encode, _, rfl, RejErr.encode _⟩

/-- the VALUE parameter over a compu-method DOP as a description, its soundness, and that it is described and static -/
def CompuShape.pdesc (l : CompuShape) : PDesc := PDesc.ofConv l.o l.dop l.spec
theorem CompuShape.pdesc_okW (l : CompuShape) (h : l.ok) : l.pdesc.OkW := PDesc.ofConv_okW _ _ _ h.1 (l.spec_ok h)
theorem CompuShape.described (l : CompuShape) (h : l.ok) : DescribedP3 l.pdesc := .conv _ _ _ h.1 (l.spec_ok h)
theorem CompuShape.static (l : CompuShape) (h : l.ok) (d : IVal) : StaticP3 l.pdesc (.int l.o d) :=
  .conv l.o l.phys l.cm l.spec d h.1 (l.spec_ok h)

/-! ### TEXTTABLE: the two hypotheses on the description from decidable checks over the candidates -/

/-- the internal values a TEXTTABLE's encoder can produce: the COMPU-INVERSE-VALUE / lower (upper) limit of a scale, the
    inverse of the COMPU-DEFAULT-VALUE -/
def ttCandidates (scales : List Scale) (idef : Option Val) : List Val :=
  scales.filterMap (fun sc => match sc.inverseValue with | .ok r => some r | .error _ => none) ++ idef.toList

theorem p2i_textTable_mem (ity pty : DType) (scales : List Scale) (pdef idef : Option Val) (p iv : Val)
    (h : (Method.textTable ity pty scales pdef idef).p2i p = .ok iv) : iv ∈ ttCandidates scales idef := by
  rw [p2i_textTable] at h
  unfold ttCandidates
  cases hh : textHits scales p with
  | nil =>
    rw [hh] at h
    cases idef with
    | none => cases h
    | some d => simp only [Except.ok.injEq] at h; subst h; simp
  | cons sc rest =>
    cases rest with
    | nil =>
      rw [hh] at h
      have hmem : sc ∈ scales := by
        have : sc ∈ textHits scales p := by rw [hh]; exact List.mem_cons_self ..
        exact (List.mem_filter.mp this).1
      apply List.mem_append_left
      exact List.mem_filterMap.mpr ⟨sc, hmem, by simp only [h]⟩
    | cons _ _ => rw [hh] at h; cases h

/-- decidable: every candidate is an integer; every valid candidate the object can hold is converted back by the decoder -/
def CompuShape.ttCheck (l : CompuShape) (scales : List Scale) (idef : Option Val) : Bool :=
  (ttCandidates scales idef).all fun iv =>
    match iv with
    | .int c => !(l.o.accepts (.int c)) || !(match l.m.validI (.int c) with | .ok true => true | _ => false) || (l.i2p (.int c)).isSome
    | _ => false

theorem CompuShape.ok_of_ttCheck (l : CompuShape) (ity pty : DType) (scales : List Scale) (pdef idef : Option Val)
    (hmeth : l.m = .textTable ity pty scales pdef idef) (ho : l.o.ok) (hint : l.o.isInt) (hconv : l.cm.isConv = true)
    (hm : l.cm.method? l.o.bt l.phys = some l.m) (hchk : l.ttCheck scales idef = true) : l.ok := by
  have key : ∀ v i, l.p2i v = .ok i → ∃ c, i = .int c ∧ (l.o.accepts (.int c) = true → (l.i2p (.int c)).isSome = true) := by
    intro v i hp
    obtain ⟨p, iv, _, _, hp2i, hvi, hof, _⟩ := dopP2I_strict l.m v i _ _ (l.p2i_ok v i hp {})
    rw [hmeth] at hp2i
    have hmem := p2i_textTable_mem ity pty scales pdef idef p iv hp2i
    have := List.all_eq_true.mp hchk iv hmem
    cases iv with
    | int c =>
      simp only [ofVal?, Option.some.injEq] at hof
      subst hof
      refine ⟨c, rfl, fun hacc => ?_⟩
      simp only [hacc, hvi, Bool.not_true, Bool.false_or] at this
      exact this
    | _ => cases this
  refine ⟨ho, hint, hconv, hm, fun v i hp => ?_, fun v i hp hacc => ?_⟩
  · obtain ⟨c, hc, _⟩ := key v i hp
    exact ⟨c, hc⟩
  · obtain ⟨c, rfl, hb⟩ := key v i hp
    exact hb hacc

/-! ### LINEAR over a small unsigned object: the two hypotheses by enumeration of the object's range -/

/-- decidable (for small `o.bl`): every valid internal value the unsigned object can hold is converted by the decoder -/
def CompuShape.linCheck (l : CompuShape) : Bool :=
  (List.range (2 ^ l.o.bl)).all fun n =>
    !(match l.m.validI (.int (n : Int)) with | .ok true => true | _ => false) || (l.i2p (.int (n : Int))).isSome

theorem CompuShape.ok_of_linCheck (l : CompuShape) (s : LinSeg) (hmeth : l.m = .linear s) (hity : s.ity.isInt = true)
    (hfac : ¬ absR s.factor < eps) (ho : l.o.ok) (hkind : l.o.kind = .uint32) (hconv : l.cm.isConv = true)
    (hm : l.cm.method? l.o.bt l.phys = some l.m) (hchk : l.linCheck = true) : l.ok := by
  have key : ∀ v i, l.p2i v = .ok i → ∃ c, i = .int c ∧ (l.o.accepts (.int c) = true → (l.i2p (.int c)).isSome = true) := by
    intro v i hp
    obtain ⟨p, iv, _, hvp, hp2i, hvi, hof, _⟩ := dopP2I_strict l.m v i _ _ (l.p2i_ok v i hp {})
    rw [hmeth] at hp2i hvp
    have hpa : s.physApplies p = .ok true := hvp
    have hcv : s.convP2I p = .ok iv := by simpa [Method.p2i, hpa, bind, Except.bind] using hp2i
    have hint : ∃ c, iv = .int c := by
      unfold LinSeg.convP2I at hcv
      cases hn : p.num? with
      | none => rw [hn] at hcv; cases hcv
      | some y =>
        rw [hn] at hcv
        simp only [hfac, if_false, hity, if_true, Except.ok.injEq] at hcv
        exact ⟨_, hcv.symm⟩
    obtain ⟨c, rfl⟩ := hint
    simp only [ofVal?, Option.some.injEq] at hof
    subst hof
    refine ⟨c, rfl, fun hacc => ?_⟩
    simp only [Obj.accepts, hkind, Bool.and_eq_true, decide_eq_true_eq] at hacc
    have hmem : c.toNat ∈ List.range (2 ^ l.o.bl) := by
      rw [List.mem_range]
      have h2 : c < ((2 ^ l.o.bl : Nat) : Int) := by push_cast; exact hacc.2
      omega
    have := List.all_eq_true.mp hchk c.toNat hmem
    have hc : ((c.toNat : Nat) : Int) = c := Int.toNat_of_nonneg hacc.1
    rw [hc] at this
    simpa [hvi] using this
  refine ⟨ho, Or.inr hkind, hconv, hm, fun v i hp => ?_, fun v i hp hacc => ?_⟩
  · obtain ⟨c, hc, _⟩ := key v i hp
    exact ⟨c, hc⟩
  · obtain ⟨c, rfl, hb⟩ := key v i hp
    exact hb hacc

end OdxVerif.Codec
