import OdxVerif.Proofs.FieldTierItem
/-! Field tier, STATIC-FIELD: `count` items of a tier-2 structure, each padded with zero bytes to ITEM-BYTE-SIZE
    (`StaticField.encode_into_pdu` / `decode_from_pdu`; model: `encodeStaticItems` / `decodeStaticItems`). Every item
    has its own value tree. -/
namespace OdxVerif.Codec
open OdxVerif.Bits OdxVerif.OdxM

/-- one item of a static field: the structure, then zero padding up to ITEM-BYTE-SIZE — all relative to the item's
    first byte; the decoder continues at `first byte + ITEM-BYTE-SIZE` -/
def staticItem (n : Nat) (k : List Tree) : Pair PVal :=
  (((Trees.pair k).seq (Pair.padTo n)).map (fun p => PVal.dict p.1)).inOrigin

theorem staticItem_good (n : Nat) (k : List Tree) (hok : Trees.okAll k) : Good (staticItem n k) :=
  (((Trees.good k hok).seq (Good.padTo n)).map _).inOrigin

theorem staticItem_val (n : Nat) (k : List Tree) : (staticItem n k).val = .dict (Trees.pair k).val := rfl

theorem staticItem_originFree (n : Nat) (k : List Tree) : OriginFree (staticItem n k) := OriginFree.inOrigin _

/-- the pure encoder of an item = the structure's encoder followed by `emplace_bytes` of the missing bytes -/
theorem staticItem_enc (n : Nat) (k : List Tree) (s : EncState) (hsz : Trees.size k ≤ n) :
    (staticItem n k).enc s =
      if Trees.size k < n then padEnc (n - Trees.size k) ((structPair k).enc s) else (structPair k).enc s := by
  have hc := Trees.enc_cursor_inOrigin k s
  have ho := (Trees.enc_cursor k { s with origin := s.cursorByte }).2
  have hc' : ((Trees.pair k).enc { s with origin := s.cursorByte }).cursorByte = s.cursorByte + Trees.size k := hc
  have ho' : ((Trees.pair k).enc { s with origin := s.cursorByte }).origin = s.cursorByte := ho
  show ({ (Pair.padTo n).enc ((Trees.pair k).enc { s with origin := s.cursorByte }) with origin := s.origin } : EncState) = _
  simp only [Pair.padTo, hc', ho']
  by_cases hlt : Trees.size k < n
  · have h1 : s.cursorByte + Trees.size k < s.cursorByte + n := by omega
    have h2 : s.cursorByte + n - (s.cursorByte + Trees.size k) = n - Trees.size k := by omega
    rw [if_pos h1, if_pos hlt, h2]
    rfl
  · have h1 : ¬ (s.cursorByte + Trees.size k < s.cursorByte + n) := by omega
    have h2 : s.cursorByte + n = ((Trees.pair k).enc { s with origin := s.cursorByte }).cursorByte := by rw [hc']; omega
    rw [if_neg h1, if_neg hlt, h2]
    rfl

/-- one round of the static-field item loop when the item needs at most ITEM-BYTE-SIZE bytes -/
theorem encodeStaticItems_cons (item : Dop) (n : Nat) (eop : Bool) (f : Nat) (x : PVal) (rest : List PVal)
    (s s1 : EncState) (h1 : encodeDop f item x s true = .ok ((), s1)) (hle : s1.cursorByte - s.cursorByte ≤ n)
    (hcb1 : s1.cursorBit = 0) :
    encodeStaticItems item n eop (f + 1) (x :: rest) s true =
      encodeStaticItems item n eop f rest
        (if s1.cursorByte - s.cursorByte < n then padEnc (n - (s1.cursorByte - s.cursorByte)) s1 else s1) true := by
  have hgt : ¬ (s1.cursorByte - s.cursorByte > n) := by omega
  simp only [encodeStaticItems, bind, pure, run_bind, run_getS, h1]
  by_cases hlt : s1.cursorByte - s.cursorByte < n
  · simp only [hgt, hlt, if_false, if_true, run_bind, emplaceBytes_zeros _ s1 hcb1]
  · simp only [hgt, hlt, if_false, run_bind, run_pure]

/-- the static-field item loop of the model = the pure list of padded items -/
theorem encodeStaticItems_eq (shape : List Tree) (n : Nat) (eop : Bool) : ∀ (ks : List (List Tree)) (m : Nat),
    (∀ k ∈ ks, itemOk shape k ∧ Trees.size k ≤ n ∧ Trees.need k ≤ m) → ∀ (fuel : Nat), ks.length + m + 3 ≤ fuel →
    ∀ (s : EncState), s.cursorBit = 0 →
    ∃ s', encodeStaticItems (.struct none (Trees.toParams shape)) n eop fuel (itemVals ks) s true = .ok ((), s') ∧
      SameCore s' ((Pair.list (ks.map (staticItem n))).enc s) ∧ s'.cursorBit = 0 := by
  intro ks
  induction ks with
  | nil =>
    intro m _ fuel hf s hcb
    obtain ⟨f, rfl⟩ : ∃ f, fuel = f + 1 := ⟨fuel - 1, by omega⟩
    exact ⟨s, by simp [itemVals, encodeStaticItems, pure, run_pure], SameCore.refl _, hcb⟩
  | cons k ks ih =>
    intro m hall fuel hf s hcb
    obtain ⟨f, rfl⟩ : ∃ f, fuel = f + 1 := ⟨fuel - 1, by simp only [List.length_cons] at hf; omega⟩
    simp only [List.length_cons] at hf
    obtain ⟨⟨hshape, hok, hn⟩, hsz, hneed⟩ := hall k (List.mem_cons_self ..)
    obtain ⟨s1, hrun1, hc1, hcb1⟩ := encodeDop_struct_trees k hok hn f (by omega) s hcb
    rw [hshape] at hrun1
    have hcur1 : s1.cursorByte = s.cursorByte + Trees.size k := by rw [hc1.2.2.2.1, structPair_enc_cursor]
    have hused : s1.cursorByte - s.cursorByte = Trees.size k := by omega
    -- the state after the padding
    let s2 : EncState := if s1.cursorByte - s.cursorByte < n then padEnc (n - (s1.cursorByte - s.cursorByte)) s1 else s1
    have hs2 : s2 = if s1.cursorByte - s.cursorByte < n then padEnc (n - (s1.cursorByte - s.cursorByte)) s1 else s1 := rfl
    have hcb2 : s2.cursorBit = 0 := by rw [hs2]; split <;> simp [padEnc_cursorBit, hcb1]
    have hc2 : SameCore s2 ((staticItem n k).enc s) := by
      rw [hs2, staticItem_enc n k s hsz, hused]
      split
      · exact padEnc_sameCore _ _ _ hc1
      · exact hc1
    obtain ⟨s3, hrun3, hc3, hcb3⟩ := ih m (fun x hx => hall x (List.mem_cons_of_mem _ hx)) f (by omega) s2 hcb2
    refine ⟨s3, ?_, ?_, hcb3⟩
    · show encodeStaticItems _ n eop (f + 1) (PVal.dict (Trees.pair k).val :: itemVals ks) s true = _
      rw [encodeStaticItems_cons _ n eop f _ _ s s1 hrun1 (by omega) hcb1]
      exact hrun3
    · have hg : Good (Pair.list (ks.map (staticItem n))) :=
        Good.list _ (by
          intro c hc
          obtain ⟨x, hx, rfl⟩ := List.mem_map.mp hc
          exact staticItem_good n x (hall x (List.mem_cons_of_mem _ hx)).1.2.1)
      simp only [List.map_cons, Pair.list, Pair.map, Pair.seq]
      exact hc3.trans (hg.core _ _ hc2)

theorem staticItem_dec (n : Nat) (k : List Tree) (d : DecState) :
    (staticItem n k).dec d =
      (((structPair k).dec d).1, { ((structPair k).dec d).2 with cursorByte := d.cursorByte + n }) := by
  have ho := Trees.dec_origin k { d with origin := d.cursorByte }
  show (PVal.dict ((Trees.pair k).dec { d with origin := d.cursorByte }).1,
      ({ ((Trees.pair k).dec { d with origin := d.cursorByte }).2 with
          cursorByte := ((Trees.pair k).dec { d with origin := d.cursorByte }).2.origin + n, origin := d.origin } : DecState)) = _
  rw [ho]
  rfl

theorem staticItem_dec_cursorBit (n : Nat) (k : List Tree) (d : DecState) (h : d.cursorBit = 0) :
    ((staticItem n k).dec d).2.cursorBit = 0 := by
  rw [staticItem_dec]
  exact structPair_dec_cursorBit k d h

theorem staticItems_dec_cursorBit (n : Nat) : ∀ (ks : List (List Tree)) (d : DecState), d.cursorBit = 0 →
    ((Pair.list (ks.map (staticItem n))).dec d).2.cursorBit = 0
  | [], _, h => h
  | k :: ks, d, h => by
    simp only [List.map_cons, Pair.list, Pair.map, Pair.seq]
    exact staticItems_dec_cursorBit n ks _ (staticItem_dec_cursorBit n k d h)

/-- the static-field item loop of the decoder = the pure list of padded items -/
theorem decodeStaticItems_eq (shape : List Tree) (n : Nat) : ∀ (ks : List (List Tree)) (m : Nat),
    (∀ k ∈ ks, itemOk shape k ∧ Trees.need k ≤ m) → ∀ (fuel : Nat), ks.length + m + 3 ≤ fuel →
    ∀ (d : DecState), d.cursorBit = 0 → (Pair.list (ks.map (staticItem n))).fits d →
    decodeStaticItems (.struct none (Trees.toParams shape)) n fuel ks.length d true =
      .ok (((Pair.list (ks.map (staticItem n))).dec d).1, ((Pair.list (ks.map (staticItem n))).dec d).2) := by
  intro ks
  induction ks with
  | nil =>
    intro m _ fuel hf d _ _
    obtain ⟨f, rfl⟩ : ∃ f, fuel = f + 1 := ⟨fuel - 1, by omega⟩
    simp [decodeStaticItems, pure, run_pure, Pair.list, Pair.nil]
  | cons k ks ih =>
    intro m hall fuel hf d hcb hfit
    obtain ⟨f, rfl⟩ : ∃ f, fuel = f + 1 := ⟨fuel - 1, by simp only [List.length_cons] at hf; omega⟩
    simp only [List.length_cons] at hf
    obtain ⟨⟨hshape, hok, hn⟩, hneed⟩ := hall k (List.mem_cons_self ..)
    have hfit' : (staticItem n k).fits d ∧ (Pair.list (ks.map (staticItem n))).fits ((staticItem n k).dec d).2 := hfit
    have hfitk : (structPair k).fits d := hfit'.1.1
    have h1 := decodeDop_struct_trees k hok f (by omega) d hcb hfitk
    rw [hshape] at h1
    have h2 := ih m (fun x hx => hall x (List.mem_cons_of_mem _ hx)) f (by omega) ((staticItem n k).dec d).2
      (staticItem_dec_cursorBit n k d hcb) hfit'.2
    rw [staticItem_dec] at h2
    simp only [List.length_cons, decodeStaticItems, bind, pure, run_bind, run_getS, run_modifyS, run_pure, h1, h2]
    simp only [List.map_cons, Pair.list, Pair.map, Pair.seq, staticItem_dec]

/-! ### the STATIC-FIELD as a VALUE parameter -/

/-- a VALUE parameter whose DOP is a STATIC-FIELD over a tier-2 structure, with the value tree of every item -/
structure StaticLeaf where
  name : String
  bytePos : Option Nat          -- BYTE-POSITION of the parameter
  itemSize : Nat                -- ITEM-BYTE-SIZE
  shape : List Tree             -- the parameters of the item structure (its values are ignored)
  items : List (List Tree)      -- one value tree per item; FIXED-NUMBER-OF-ITEMS = `items.length`

def StaticLeaf.itemDop (f : StaticLeaf) : Dop := .struct none (Trees.toParams f.shape)
def StaticLeaf.dop (f : StaticLeaf) : Dop := .staticField f.items.length f.itemSize f.itemDop
def StaticLeaf.toParam (f : StaticLeaf) : Param := .mk f.name f.bytePos none (.value f.dop none)

/-- every item is a value assignment of the item structure (`itemOk`: same parameters, representable values, distinct
    sibling names) that fits into ITEM-BYTE-SIZE -/
def StaticLeaf.ok (f : StaticLeaf) : Prop := ∀ k ∈ f.items, itemOk f.shape k ∧ Trees.size k ≤ f.itemSize

def StaticLeaf.need (f : StaticLeaf) : Nat := f.items.length + maxNeed f.items + 6

def StaticLeaf.body (f : StaticLeaf) : Pair (List PVal) := Pair.list (f.items.map (staticItem f.itemSize))

/-- pure encoder/decoder: the padded items one after the other, starting at the parameter's position -/
def StaticLeaf.pair (f : StaticLeaf) : Pair PVal := ((f.body.map PVal.list).inOrigin).atPos f.bytePos

theorem StaticLeaf.body_good (f : StaticLeaf) (h : f.ok) : Good f.body :=
  Good.list _ (by
    intro c hc
    obtain ⟨x, hx, rfl⟩ := List.mem_map.mp hc
    exact staticItem_good _ x (h x hx).1.2.1)

theorem StaticLeaf.body_originFree (f : StaticLeaf) : OriginFree f.body :=
  OriginFree.list _ (by
    intro c hc
    obtain ⟨x, _, rfl⟩ := List.mem_map.mp hc
    exact staticItem_originFree _ x)

theorem StaticLeaf.good (f : StaticLeaf) (h : f.ok) : Good f.pair :=
  (((f.body_good h).map _).inOrigin).atPos f.bytePos

theorem StaticLeaf.pair_val (f : StaticLeaf) : f.pair.val = PVal.list (itemVals f.items) := by
  show PVal.list (Pair.list (f.items.map (staticItem f.itemSize))).val = _
  rw [Pair.list_val, List.map_map]
  rfl

/-- one unfolding of the static-field encoder for a list of the right length -/
theorem encodeDop_static_step (f : Nat) (count n : Nat) (item : Dop) (xs : List PVal) (s : EncState) (hlen : xs.length = count) :
    encodeDop (f + 1) (.staticField count n item) (.list xs) s true =
      (match encodeStaticItems item n s.isEndOfPdu f xs { s with isEndOfPdu := false } true with
       | .ok (_, s') => .ok ((), { s' with isEndOfPdu := s.isEndOfPdu })
       | .error e => .error e) := by
  simp only [encodeDop, bind, pure, run_bind, run_getS, run_modifyS, run_ite, run_pure, hlen, ne_eq, not_true_eq_false,
    if_false]
  generalize encodeStaticItems item n s.isEndOfPdu f xs _ true = r
  cases r with
  | error e => rfl
  | ok p => cases p; rfl

theorem StaticLeaf.encode_eq (f : StaticLeaf) (hok : f.ok) (fuel : Nat) (hf : f.need ≤ fuel) (s : EncState) :
    ∃ s', encodeParam fuel f.toParam (some f.pair.val) s true = .ok ((), s') ∧ SameCore s' (f.pair.enc s) := by
  obtain ⟨g, rfl⟩ : ∃ g, fuel = g + 1 + 1 := ⟨fuel - 2, by unfold StaticLeaf.need at hf; omega⟩
  unfold StaticLeaf.need at hf
  let s1 : EncState := { s with cursorByte := posOf f.bytePos s.origin s.cursorByte, cursorBit := 0 }
  obtain ⟨s2, hrun, hcore, _⟩ := encodeStaticItems_eq f.shape f.itemSize s1.isEndOfPdu f.items (maxNeed f.items)
    (fun k hk => ⟨(hok k hk).1, (hok k hk).2, maxNeed_ge f.items k hk⟩) g (by omega) { s1 with isEndOfPdu := false } rfl
  refine ⟨{ s2 with isEndOfPdu := s1.isEndOfPdu, cursorBit := 0 }, ?_, ?_⟩
  · rw [StaticLeaf.pair_val]
    unfold StaticLeaf.toParam
    rw [encodeParam_value_step]
    simp only [Option.getD_none]
    unfold StaticLeaf.dop StaticLeaf.itemDop
    rw [encodeDop_static_step g _ _ _ _ _ (itemVals_length f.items)]
    rw [hrun]
  · -- the pure encoder runs the items relative to the field's first byte; they do not care
    have hg := f.body_good hok
    have h1 : SameCore { s1 with isEndOfPdu := false } { s with cursorByte := posOf f.bytePos s.origin s.cursorByte } :=
      ⟨rfl, rfl, rfl, rfl, rfl⟩
    have h2 := hcore.trans (hg.core _ _ h1)
    have h3 := h2.trans (f.body_originFree.sameCore_inOrigin hg _)
    exact ⟨h3.1, h3.2.1, h3.2.2.1, h3.2.2.2.1, h3.2.2.2.2⟩

theorem StaticLeaf.dec_cursorBit (f : StaticLeaf) (d : DecState) (_h : d.cursorBit = 0) : (f.pair.dec d).2.cursorBit = 0 :=
  staticItems_dec_cursorBit f.itemSize f.items
    { d with cursorByte := posOf f.bytePos d.origin d.cursorByte, origin := posOf f.bytePos d.origin d.cursorByte } _h

theorem StaticLeaf.decode_eq (f : StaticLeaf) (hok : f.ok) (fuel : Nat) (hf : f.need ≤ fuel) (d : DecState)
    (hcb : d.cursorBit = 0) (hfit : f.pair.fits d) :
    decodeParam fuel f.toParam d true = .ok ((f.pair.dec d).1, (f.pair.dec d).2) := by
  obtain ⟨g, rfl⟩ : ∃ g, fuel = g + 1 + 1 := ⟨fuel - 2, by unfold StaticLeaf.need at hf; omega⟩
  unfold StaticLeaf.need at hf
  let d2 : DecState := { d with cursorByte := posOf f.bytePos d.origin d.cursorByte, cursorBit := 0,
                                origin := posOf f.bytePos d.origin d.cursorByte }
  have hd2 : d2 = { d with cursorByte := posOf f.bytePos d.origin d.cursorByte,
                           origin := posOf f.bytePos d.origin d.cursorByte } := by
    show ({ d with cursorByte := posOf f.bytePos d.origin d.cursorByte, cursorBit := 0,
                   origin := posOf f.bytePos d.origin d.cursorByte } : DecState) = _
    rw [← hcb]
  have hfit' : f.body.fits d2 := by rw [hd2]; exact hfit
  have hrun := decodeStaticItems_eq f.shape f.itemSize f.items (maxNeed f.items)
    (fun k hk => ⟨(hok k hk).1, maxNeed_ge f.items k hk⟩) g (by omega) d2 rfl hfit'
  have hcb3 := staticItems_dec_cursorBit f.itemSize f.items d2 rfl
  unfold StaticLeaf.toParam
  rw [decodeParam_value_step]
  simp only [Option.getD_none]
  unfold StaticLeaf.dop StaticLeaf.itemDop
  simp only [decodeDop, bind, pure, run_bind, run_getS, run_modifyS, run_pure, odxassert, decide_true, if_true]
  have hrun' : decodeStaticItems (.struct none (Trees.toParams f.shape)) f.itemSize g f.items.length
      { d with cursorByte := posOf f.bytePos d.origin d.cursorByte, cursorBit := 0,
               origin := posOf f.bytePos d.origin d.cursorByte } true = _ := hrun
  rw [hrun']
  simp only []
  rw [hd2] at hcb3 ⊢
  have hpure : f.pair.dec d =
      (PVal.list (f.body.dec { d with cursorByte := posOf f.bytePos d.origin d.cursorByte,
                                      origin := posOf f.bytePos d.origin d.cursorByte }).1,
       { (f.body.dec { d with cursorByte := posOf f.bytePos d.origin d.cursorByte,
                              origin := posOf f.bytePos d.origin d.cursorByte }).2 with origin := d.origin }) := rfl
  rw [hpure]
  simp only [StaticLeaf.body, Except.ok.injEq, Prod.mk.injEq, true_and]
  rw [← hcb3]

end OdxVerif.Codec
