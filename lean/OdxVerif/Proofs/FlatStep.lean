import OdxVerif.Proofs.AtomicRT
import OdxVerif.Model.Decode
/-! First composite proof tier ("flat"): explicitly or implicitly positioned `A_INT32` VALUE parameters.
    The monadic `encodeParam` / `decodeParam` of the model reduce to the pure steps `encStep` / `decStep`. -/
namespace OdxVerif.Codec
open OdxVerif.Bits OdxVerif.OdxM

/-- an explicitly or implicitly positioned `A_INT32` VALUE parameter with a standard-length type and the
    identical compu method: the objects of the first composite proof tier -/
structure Obj where
  name : String
  bytePos : Option Nat
  bitPos : Option Nat
  enc : Option Enc
  hl : Bool
  bl : Nat

def Obj.toParam (o : Obj) : Param :=
  .mk o.name o.bytePos o.bitPos (.value (.simple (.std .int32 o.enc o.hl o.bl none false) .int32 .identical) none)

def Obj.ok (o : Obj) : Prop := int32Known o.enc = true ∧ 1 ≤ o.bl ∧ o.bl ≤ 64
def Obj.bp (o : Obj) : Nat := o.bitPos.getD 0
def Obj.k (o : Obj) : Nat := (o.bl + o.bp + 7) / 8
def Obj.mask (o : Obj) : Nat := (2 ^ o.bl - 1) * 2 ^ o.bp

/-- where the object goes: origin + BYTE-POSITION, or the cursor -/
def Obj.pos (o : Obj) (origin cursor : Nat) : Nat :=
  match o.bytePos with
  | some b => origin + b
  | none => cursor

/-- the encoder's effect on the state for one object, as a pure function -/
def encStep (o : Obj) (v : Int) (s : EncState) : EncState :=
  let pos := o.pos s.origin s.cursorByte
  let new := ord o.hl (toBytesBE o.k ((int32Raw o.enc o.bl v).toNat * 2 ^ o.bp))
  let m := ord o.hl (toBytesBE o.k o.mask)
  let used0 := s.used ++ List.replicate ((padTo s.msg (pos + o.k)).length - s.msg.length) 0
  { s with msg := placeBytes s.msg pos new m,
           used := placeUsed used0 pos o.k m,
           warn := s.warn + overlapCount ((used0.drop pos).take o.k) m,
           cursorByte := pos + o.k, cursorBit := 0 }

theorem encodeParam_obj (o : Obj) (ho : o.ok) (v : Int) (hr : int32InRange o.enc o.bl v) (fuel : Nat) (s : EncState) :
    encodeParam (fuel + 2) o.toParam (some (.atom (.int v))) s true = .ok ((), encStep o v s) := by
  obtain ⟨hk, hbl, hbl64⟩ := ho
  obtain ⟨h0, h1, _⟩ := int32Raw_spec o.enc hk o.bl hbl v hr
  have hb0 : o.bl ≠ 0 := by omega
  have h64 : ¬ (64 < o.bl) := by omega
  have hge : ¬ (2 ^ o.bl ≤ (int32Raw o.enc o.bl v).toNat) := by
    have : ((2 ^ o.bl : Nat) : Int) = (2:Int) ^ o.bl := by simp
    omega
  have hmask : ∀ bp, ¬ (256 ^ ((o.bl + bp + 7) / 8) ≤ (2 ^ o.bl - 1) * 2 ^ bp) :=
    fun bp => Nat.not_le.mpr (mask_fits o.bl bp)
  simp [Obj.toParam, encodeParam, encodeDop, encodeDct, typeAdmits, emplaceAtomic, emplaceBytes, bind, pure, run_ite,
    run_bind, run_pure, run_getS, run_setS, run_modifyS, run_raise, BaseType.isNumeric,
    rawOfInt32_ok o.enc hk o.bl hbl v hr, hb0, hge, hmask, h64]
  cases hh : o.hl <;> cases hb : o.bytePos <;> simp [encStep, Obj.pos, Obj.k, Obj.bp, Obj.mask, ord, toBytesBE_length, hh, hb]

/-- the decoder's effect for one object -/
def decStep (o : Obj) (d : DecState) : IVal × DecState :=
  let pos := o.pos d.origin d.cursorByte
  (.int (int32OfRaw o.enc o.bl (readNum d.msg pos o.k o.hl / 2 ^ o.bp % 2 ^ o.bl)),
   { d with cursorByte := pos + o.k, cursorBit := 0 })

theorem decodeParam_obj (o : Obj) (ho : o.ok) (fuel : Nat) (d : DecState)
    (hlen : o.pos d.origin d.cursorByte + o.k ≤ d.msg.length) :
    decodeParam (fuel + 2) o.toParam d true = .ok (.atom (decStep o d).1, (decStep o d).2) := by
  obtain ⟨hk, hbl, hbl64⟩ := ho
  have hb0 : o.bl ≠ 0 := by omega
  have h64 : ¬ (64 < o.bl) := by omega
  unfold int32Known at hk
  simp only [Bool.or_eq_true, decide_eq_true_eq] at hk
  have hk' : o.enc = none ∨ o.enc = some Enc.onec ∨ o.enc = some Enc.twoc ∨ o.enc = some Enc.sm := by
    rcases hk with ((h | h) | h) | h <;> simp [h]
  unfold Obj.pos Obj.k Obj.bp at hlen
  cases hb : o.bytePos <;> simp only [hb] at hlen
  all_goals
    have hnl : ¬ (d.msg.length < _ + (o.bl + o.bitPos.getD 0 + 7) / 8) := Nat.not_lt.mpr hlen
    simp [Obj.toParam, decodeParam, decodeDop, decodeDct, extractAtomic, extractCore, convertRaw, bind, pure,
      run_bind, run_pure, run_getS, run_modifyS, run_ite, run_raise, BaseType.isNumeric, hb0, hnl, hk', hb, h64,
      decStep, Obj.pos, Obj.k, Obj.bp]

end OdxVerif.Codec
