import OdxVerif.Proofs.AtomicRT
import OdxVerif.Proofs.BytesRT
import OdxVerif.Proofs.TextRT16
import OdxVerif.Proofs.BcdRT
import OdxVerif.Model.Decode
/-! First composite proof tier ("flat"): explicitly or implicitly positioned VALUE parameters over standard-length
    types — `A_INT32` in its four encodings, `A_UINT32` unencoded, `A_FLOAT64`, `A_BYTEFIELD` (whole bytes),
    `A_ASCIISTRING` (ISO-8859-1), `A_FLOAT32` (values exactly representable in binary32), `A_UTF8STRING` (UTF-8).
    The monadic `encodeParam` / `decodeParam` of the model reduce to the pure steps `encStep` / `decStep`.
    Everything downstream uses only the interface `Obj.raw / ofRaw / inRange / canon / decodes` with `Obj.raw_spec`,
    `Obj.canon_spec`, `Obj.raw_decodes` and `Obj.canon_decodes`. (`decodes`: the decoder of the float32 and string
    kinds is partial — NaN / subnormal patterns are outside the model's exact float conversion, ill-formed text is a
    `DecodeError` — so the bridging lemmas of the decoding side carry the hypothesis that the pattern read decodes; it
    is `True` for the kinds with a total decoder and follows from the round trip / from canonicity elsewhere.) -/
namespace OdxVerif.Codec
open OdxVerif.Bits OdxVerif.OdxM

/-- the kinds of leaf objects of the proved tiers -/
inductive Kind where
  | int32      -- A_INT32, encodings none / 1C / 2C / SM
  | uint32     -- A_UINT32, no encoding
  | float64    -- A_FLOAT64: the value is its IEEE-754 binary64 bit pattern
  | bytes      -- A_BYTEFIELD of BIT-LENGTH / 8 bytes
  | ascii      -- A_ASCIISTRING (ISO-8859-1, the default encoding) of BIT-LENGTH / 8 characters
  | float32    -- A_FLOAT32: the value is the binary64 pattern of a number that is exactly a normal binary32 number, ±0 or ±inf
  | utf8       -- A_UTF8STRING (UTF-8, the default encoding): code points whose encoding has BIT-LENGTH / 8 bytes
  | unicode2   -- A_UNICODE2STRING (UCS-2 = UTF-16, the default encoding; high-low byte order = UTF-16BE), BIT-LENGTH / 8 bytes
  | bcd        -- A_UINT32 with BASE-TYPE-ENCODING BCD-P (a decimal digit per nibble) or BCD-UP (per byte)
deriving Repr, DecidableEq, Inhabited

/-- an explicitly or implicitly positioned VALUE parameter with a standard-length type and the identical compu
    method: the objects of the first composite proof tier -/
structure Obj where
  name : String
  bytePos : Option Nat
  bitPos : Option Nat
  enc : Option Enc
  hl : Bool
  bl : Nat
  kind : Kind := .int32

def Obj.bt (o : Obj) : BaseType :=
  match o.kind with
  | .int32 => .int32
  | .uint32 => .uint32
  | .float64 => .float64
  | .bytes => .bytefield
  | .ascii => .ascii
  | .float32 => .float32
  | .utf8 => .utf8
  | .unicode2 => .unicode2
  | .bcd => .uint32

/-- bits per decimal digit of a BCD object -/
def Obj.bcdShift (o : Obj) : Nat := if o.enc = some .bcdp then 4 else 8

def Obj.toParam (o : Obj) : Param :=
  .mk o.name o.bytePos o.bitPos (.value (.simple (.std o.bt o.enc o.hl o.bl none false) o.bt .identical) none)

def Obj.encOk (o : Obj) : Prop :=
  match o.kind with
  | .int32 => int32Known o.enc = true
  | .uint32 => o.enc = none ∨ o.enc = some .none_
  | .float64 => o.enc = none ∨ o.enc = some .none_
  | .bytes => o.enc = none ∨ o.enc = some .none_
  | .ascii => o.enc = none ∨ o.enc = some .iso1
  | .float32 => o.enc = none ∨ o.enc = some .none_
  | .utf8 => o.enc = none ∨ o.enc = some .utf8
  | .unicode2 => o.enc = none ∨ o.enc = some .ucs2
  | .bcd => o.enc = some .bcdp ∨ o.enc = some .bcdup

/-- the sizes the kind admits: integers up to 64 bits (the limit of the bitstruct module), floats exactly 64,
    byte fields whole bytes (the byte order flag is immaterial for them: `bytefield_hl_irrelevant`; the objects
    carry `hl = true`) -/
def Obj.sizeOk (o : Obj) : Prop :=
  match o.kind with
  | .int32 => o.bl ≤ 64
  | .uint32 => o.bl ≤ 64
  | .float64 => o.bl = 64
  | .bytes => o.bl % 8 = 0 ∧ o.hl = true
  | .ascii => o.bl % 8 = 0 ∧ o.hl = true
  | .float32 => o.bl = 32
  | .utf8 => o.bl % 8 = 0 ∧ o.hl = true
  | .unicode2 => o.bl % 8 = 0 ∧ o.hl = true
  | .bcd => o.bl ≤ 64

def Obj.ok (o : Obj) : Prop := o.encOk ∧ 1 ≤ o.bl ∧ o.sizeOk
def Obj.isInt (o : Obj) : Prop := o.kind = .int32 ∨ o.kind = .uint32
def Obj.bp (o : Obj) : Nat := o.bitPos.getD 0
def Obj.k (o : Obj) : Nat := (o.bl + o.bp + 7) / 8
def Obj.mask (o : Obj) : Nat := (2 ^ o.bl - 1) * 2 ^ o.bp

/-- the `bl`-bit pattern of an internal value -/
def Obj.raw (o : Obj) (v : IVal) : Nat :=
  match o.kind, v with
  | .int32, .int i => (int32Raw o.enc o.bl i).toNat
  | .uint32, .int i => i.toNat
  | .float64, .flt b => b
  | .bytes, .bytes b => ofBytesBE b
  | .ascii, .str cps => ofBytesBE cps
  | .float32, .flt b => (Text.f64to32? b).getD 0
  | .utf8, .str cps => ofBytesBE ((Text.encode .utf8 cps).getD [])
  | .unicode2, .str cps => ofBytesBE ((Text.encode .utf16be cps).getD [])
  | .bcd, .int i => bcdEnc o.bcdShift i.toNat i.toNat
  | _, _ => 0

/-- the internal value of a `bl`-bit pattern -/
def Obj.ofRaw (o : Obj) (r : Nat) : IVal :=
  match o.kind with
  | .int32 => .int (int32OfRaw o.enc o.bl r)
  | .uint32 => .int r
  | .float64 => .flt r
  | .bytes => .bytes (toBytesBE ((o.bl + 7) / 8) (r * 2 ^ ((8 - o.bl % 8) % 8)))
  | .ascii => .str (toBytesBE ((o.bl + 7) / 8) (r * 2 ^ ((8 - o.bl % 8) % 8)))
  | .float32 => .flt ((Text.f32to64? r).getD 0)
  | .utf8 => .str ((Text.decode .utf8 (toBytesBE ((o.bl + 7) / 8) (r * 2 ^ ((8 - o.bl % 8) % 8)))).getD [])
  | .unicode2 => .str ((Text.decode .utf16be (toBytesBE ((o.bl + 7) / 8) (r * 2 ^ ((8 - o.bl % 8) % 8)))).getD [])
  | .bcd => .int (bcdDec o.bcdShift r r)

/-- the internal values the object can represent (float32: binary64 patterns of numbers that are exactly binary32
    normal numbers, zeros or infinities — the part of `float → binary32` the model follows; UTF-8: code point lists
    the encoder accepts and whose encoding fills the object exactly) -/
def Obj.inRange (o : Obj) (v : IVal) : Prop :=
  match o.kind, v with
  | .int32, .int i => int32InRange o.enc o.bl i
  | .uint32, .int i => 0 ≤ i ∧ i < 2 ^ o.bl
  | .float64, .flt b => b < 2 ^ o.bl
  | .bytes, .bytes b => 8 * b.length = o.bl ∧ AllBytes b
  | .ascii, .str cps => 8 * cps.length = o.bl ∧ AllBytes cps
  | .float32, .flt b => b < 2 ^ 64 ∧ (Text.f64to32? b).isSome = true
  | .utf8, .str cps => ∃ bs, Text.encode .utf8 cps = some bs ∧ 8 * bs.length = o.bl
  | .unicode2, .str cps => ∃ bs, Text.encode .utf16be cps = some bs ∧ 8 * bs.length = o.bl
  | .bcd, .int i => 0 ≤ i ∧ bcdEnc o.bcdShift i.toNat i.toNat < 2 ^ o.bl
  | _, _ => False

/-- Boolean version of `inRange` -/
def Obj.accepts (o : Obj) (v : IVal) : Bool :=
  match o.kind, v with
  | .int32, .int i => int32RangeOk o.enc o.bl i
  | .uint32, .int i => decide (0 ≤ i) && decide (i < 2 ^ o.bl)
  | .float64, .flt b => decide (b < 2 ^ o.bl)
  | .bytes, .bytes b => decide (8 * b.length = o.bl) && b.all (fun x => decide (x < 256))
  | .ascii, .str cps => decide (8 * cps.length = o.bl) && cps.all (fun x => decide (x < 256))
  | .float32, .flt b => decide (b < 2 ^ 64) && (Text.f64to32? b).isSome
  | .utf8, .str cps => match Text.encode .utf8 cps with
    | some bs => decide (8 * bs.length = o.bl)
    | none => false
  | .unicode2, .str cps => match Text.encode .utf16be cps with
    | some bs => decide (8 * bs.length = o.bl)
    | none => false
  | .bcd, .int i => decide (0 ≤ i) && decide (bcdEnc o.bcdShift i.toNat i.toNat < 2 ^ o.bl)
  | _, _ => false

/-- the bit patterns the (strict) decoder turns into a value: all of them for the integer, binary64, byte-field and
    ISO-8859-1 kinds; binary32 patterns of normal numbers, zeros and infinities (the model's exact conversion); well-formed
    UTF-8 (shortest forms, no surrogates) -/
def Obj.decodes (o : Obj) (r : Nat) : Prop :=
  match o.kind with
  | .float32 => (Text.f32to64? r).isSome = true
  | .utf8 => (Text.decode .utf8 (toBytesBE ((o.bl + 7) / 8) (r * 2 ^ ((8 - o.bl % 8) % 8)))).isSome = true
  | .unicode2 => (Text.decode .utf16be (toBytesBE ((o.bl + 7) / 8) (r * 2 ^ ((8 - o.bl % 8) % 8)))).isSome = true
  | _ => True

/-- the bit patterns that are the representation of some value (all but "negative zero"; for the kinds with a partial
    decoder: the patterns that decode) -/
def Obj.canon (o : Obj) (r : Nat) : Prop :=
  match o.kind with
  | .int32 => canonRaw o.enc o.bl r
  | .float32 => r < 2 ^ o.bl ∧ (Text.f32to64? r).isSome = true
  | .utf8 => r < 2 ^ o.bl ∧ (Text.decode .utf8 (toBytesBE ((o.bl + 7) / 8) (r * 2 ^ ((8 - o.bl % 8) % 8)))).isSome = true
  | .unicode2 => r < 2 ^ o.bl ∧ (Text.decode .utf16be (toBytesBE ((o.bl + 7) / 8) (r * 2 ^ ((8 - o.bl % 8) % 8)))).isSome = true
  | .bcd => r < 2 ^ o.bl ∧ bcdEnc o.bcdShift (bcdDec o.bcdShift r r) (bcdDec o.bcdShift r r) = r     -- every group is a decimal digit
  | _ => r < 2 ^ o.bl

theorem Obj.accepts_iff (o : Obj) (ho : o.ok) (v : IVal) : o.accepts v = true ↔ o.inRange v := by
  unfold Obj.accepts Obj.inRange
  cases o.kind <;> cases v <;> simp [rangeOk_iff o.enc o.bl ho.2.1, AllBytes]
  · rename_i cps
    cases Text.encode .utf8 cps <;> simp
  · rename_i cps
    cases Text.encode .utf16be cps <;> simp

theorem Obj.raw_spec (o : Obj) (ho : o.ok) (v : IVal) (hr : o.inRange v) :
    o.raw v < 2 ^ o.bl ∧ o.ofRaw (o.raw v) = v := by
  obtain ⟨hk, hbl, hsz⟩ := ho
  unfold Obj.inRange at hr
  unfold Obj.raw Obj.ofRaw
  unfold Obj.encOk at hk
  unfold Obj.sizeOk at hsz
  cases hkind : o.kind <;> cases v <;> simp only [hkind] at hr hk hsz ⊢
  · rename_i i
    obtain ⟨h0, h1, hinv⟩ := int32Raw_spec o.enc hk o.bl hbl i hr
    have : ((2 ^ o.bl : Nat) : Int) = (2:Int) ^ o.bl := by simp
    exact ⟨by omega, by rw [hinv]⟩
  · rename_i i
    have : ((2 ^ o.bl : Nat) : Int) = (2:Int) ^ o.bl := by simp
    refine ⟨by omega, ?_⟩
    congr 1
    omega
  · exact ⟨hr, trivial⟩
  · rename_i b
    obtain ⟨hlen, hall⟩ := hr
    have hlt := ofBytesBE_lt b hall
    rw [pow256, hlen] at hlt
    refine ⟨hlt, ?_⟩
    have e1 : (o.bl + 7) / 8 = b.length := by omega
    have e2 : (8 - o.bl % 8) % 8 = 0 := by omega
    rw [e1, e2, Nat.pow_zero, Nat.mul_one, toBytesBE_ofBytesBE b hall]
  · rename_i b
    obtain ⟨hlen, hall⟩ := hr
    have hlt := ofBytesBE_lt b hall
    rw [pow256, hlen] at hlt
    refine ⟨hlt, ?_⟩
    have e1 : (o.bl + 7) / 8 = b.length := by omega
    have e2 : (8 - o.bl % 8) % 8 = 0 := by omega
    rw [e1, e2, Nat.pow_zero, Nat.mul_one, toBytesBE_ofBytesBE b hall]
  · rename_i b
    obtain ⟨hb64, hsome⟩ := hr
    obtain ⟨r, hr'⟩ := Option.isSome_iff_exists.mp hsome
    obtain ⟨h1, h2⟩ := Text.f32to64_f64to32 b r hb64 hr'
    rw [hr', Option.getD_some, h2, Option.getD_some, hsz]
    exact ⟨h1, rfl⟩
  · rename_i cps
    obtain ⟨bs, henc, hlen⟩ := hr
    obtain ⟨hall, hdec⟩ := Text.utf8_decode_encode cps bs henc
    have hlt := ofBytesBE_lt bs hall
    rw [pow256, hlen] at hlt
    rw [henc, Option.getD_some]
    refine ⟨hlt, ?_⟩
    have e1 : (o.bl + 7) / 8 = bs.length := by omega
    have e2 : (8 - o.bl % 8) % 8 = 0 := by omega
    rw [e1, e2, Nat.pow_zero, Nat.mul_one, toBytesBE_ofBytesBE bs hall, hdec, Option.getD_some]
  · rename_i cps
    obtain ⟨bs, henc, hlen⟩ := hr
    obtain ⟨hall, hdec⟩ := Text.utf16be_decode_encode cps bs henc
    have hlt := ofBytesBE_lt bs hall
    rw [pow256, hlen] at hlt
    rw [henc, Option.getD_some]
    refine ⟨hlt, ?_⟩
    have e1 : (o.bl + 7) / 8 = bs.length := by omega
    have e2 : (8 - o.bl % 8) % 8 = 0 := by omega
    rw [e1, e2, Nat.pow_zero, Nat.mul_one, toBytesBE_ofBytesBE bs hall, hdec, Option.getD_some]
  · rename_i i
    have hs : o.bcdShift = 4 ∨ o.bcdShift = 8 := by unfold Obj.bcdShift; split <;> simp
    refine ⟨hr.2, ?_⟩
    rw [bcd_roundtrip _ hs]
    congr 1
    omega

theorem Obj.canon_lt (o : Obj) (r : Nat) (hc : o.canon r) : r < 2 ^ o.bl := by
  unfold Obj.canon at hc
  cases hkind : o.kind <;> simp only [hkind] at hc
  all_goals first | exact hc | exact hc.1

theorem Obj.canon_spec (o : Obj) (ho : o.ok) (r : Nat) (hc : o.canon r) :
    o.inRange (o.ofRaw r) ∧ o.raw (o.ofRaw r) = r := by
  obtain ⟨hk, hbl, hsz⟩ := ho
  unfold Obj.canon at hc
  unfold Obj.inRange Obj.raw Obj.ofRaw
  unfold Obj.encOk at hk
  unfold Obj.sizeOk at hsz
  cases hkind : o.kind <;> simp only [hkind] at hc hk hsz ⊢
  · obtain ⟨h1, h2⟩ := int32_raw_roundtrip o.enc hk o.bl hbl r hc
    exact ⟨h1, h2⟩
  · have : ((2 ^ o.bl : Nat) : Int) = (2:Int) ^ o.bl := by simp
    exact ⟨⟨by omega, by omega⟩, by simp⟩
  · exact ⟨hc, trivial⟩
  · have e2 : (8 - o.bl % 8) % 8 = 0 := by omega
    rw [e2, Nat.pow_zero, Nat.mul_one]
    refine ⟨⟨by rw [toBytesBE_length]; omega, toBytesBE_allBytes _ _⟩, ?_⟩
    apply ofBytesBE_toBytesBE_of_lt
    rw [pow256]
    have : 8 * ((o.bl + 7) / 8) = o.bl := by omega
    rw [this]; exact hc
  · have e2 : (8 - o.bl % 8) % 8 = 0 := by omega
    rw [e2, Nat.pow_zero, Nat.mul_one]
    refine ⟨⟨by rw [toBytesBE_length]; omega, toBytesBE_allBytes _ _⟩, ?_⟩
    apply ofBytesBE_toBytesBE_of_lt
    rw [pow256]
    have : 8 * ((o.bl + 7) / 8) = o.bl := by omega
    rw [this]; exact hc
  · obtain ⟨hlt, hsome⟩ := hc
    obtain ⟨b, hb⟩ := Option.isSome_iff_exists.mp hsome
    rw [hsz] at hlt
    obtain ⟨h1, h2⟩ := Text.f64to32_f32to64 r b hlt hb
    rw [hb, Option.getD_some, h2, Option.getD_some]
    exact ⟨⟨h1, rfl⟩, rfl⟩
  · obtain ⟨hlt, hsome⟩ := hc
    obtain ⟨cps, hcps⟩ := Option.isSome_iff_exists.mp hsome
    have e2 : (8 - o.bl % 8) % 8 = 0 := by omega
    rw [e2, Nat.pow_zero, Nat.mul_one] at hcps ⊢
    have henc := Text.utf8_encode_decode _ cps hcps
    rw [hcps, Option.getD_some, henc, Option.getD_some]
    refine ⟨⟨_, rfl, by rw [toBytesBE_length]; omega⟩, ?_⟩
    apply ofBytesBE_toBytesBE_of_lt
    rw [pow256]
    have : 8 * ((o.bl + 7) / 8) = o.bl := by omega
    rw [this]; exact hlt
  · obtain ⟨hlt, hsome⟩ := hc
    obtain ⟨cps, hcps⟩ := Option.isSome_iff_exists.mp hsome
    have e2 : (8 - o.bl % 8) % 8 = 0 := by omega
    rw [e2, Nat.pow_zero, Nat.mul_one] at hcps ⊢
    have henc := Text.utf16be_encode_decode _ cps (toBytesBE_allBytes _ _) hcps
    rw [hcps, Option.getD_some, henc, Option.getD_some]
    refine ⟨⟨_, rfl, by rw [toBytesBE_length]; omega⟩, ?_⟩
    apply ofBytesBE_toBytesBE_of_lt
    rw [pow256]
    have : 8 * ((o.bl + 7) / 8) = o.bl := by omega
    rw [this]; exact hlt
  · simp only [Int.toNat_natCast]
    exact ⟨⟨Int.natCast_nonneg _, by rw [hc.2]; exact hc.1⟩, hc.2⟩

/-- the representation of a value decodes -/
theorem Obj.raw_decodes (o : Obj) (ho : o.ok) (v : IVal) (hr : o.inRange v) : o.decodes (o.raw v) := by
  obtain ⟨hk, hbl, hsz⟩ := ho
  unfold Obj.inRange at hr
  unfold Obj.decodes Obj.raw
  unfold Obj.sizeOk at hsz
  cases hkind : o.kind <;> cases v <;> simp only [hkind] at hr hsz ⊢
  · rename_i b
    obtain ⟨hb64, hsome⟩ := hr
    obtain ⟨r, hr'⟩ := Option.isSome_iff_exists.mp hsome
    obtain ⟨h1, h2⟩ := Text.f32to64_f64to32 b r hb64 hr'
    rw [hr', Option.getD_some, h2]; rfl
  · rename_i cps
    obtain ⟨bs, henc, hlen⟩ := hr
    obtain ⟨hall, hdec⟩ := Text.utf8_decode_encode cps bs henc
    have e1 : (o.bl + 7) / 8 = bs.length := by omega
    have e2 : (8 - o.bl % 8) % 8 = 0 := by omega
    rw [henc, Option.getD_some, e1, e2, Nat.pow_zero, Nat.mul_one, toBytesBE_ofBytesBE bs hall, hdec]; rfl
  · rename_i cps
    obtain ⟨bs, henc, hlen⟩ := hr
    obtain ⟨hall, hdec⟩ := Text.utf16be_decode_encode cps bs henc
    have e1 : (o.bl + 7) / 8 = bs.length := by omega
    have e2 : (8 - o.bl % 8) % 8 = 0 := by omega
    rw [henc, Option.getD_some, e1, e2, Nat.pow_zero, Nat.mul_one, toBytesBE_ofBytesBE bs hall, hdec]; rfl

/-- a canonical pattern decodes -/
theorem Obj.canon_decodes (o : Obj) (r : Nat) (hc : o.canon r) : o.decodes r := by
  unfold Obj.canon at hc
  unfold Obj.decodes
  cases hkind : o.kind <;> simp only [hkind] at hc ⊢
  · exact hc.2
  · exact hc.2
  · exact hc.2

/-- the integer kinds (and every other kind but float32 / the strings with a multi-byte encoding) decode every pattern -/
theorem Obj.decodes_of_int (o : Obj) (h : o.isInt) (r : Nat) : o.decodes r := by
  unfold Obj.decodes
  rcases h with h | h <;> simp only [h]

theorem flatten_singletons (cs : List Nat) : (cs.map fun c => [c]).flatten = cs := by
  induction cs with
  | nil => rfl
  | cons c cs ih => simp [ih]

/-- ISO-8859-1: code points below 256 are their own bytes -/
theorem latin1_encode (cps : List Nat) (h : AllBytes cps) : Text.encode .latin1 cps = some cps := by
  have key : cps.mapM (fun c => if c < 256 then some [c] else none) = some (cps.map fun c => [c]) := by
    induction cps with
    | nil => rfl
    | cons c cs ih =>
      have hc : c < 256 := h c (List.mem_cons_self ..)
      have := ih (fun x hx => h x (List.mem_cons_of_mem _ hx))
      simp [List.mapM_cons, hc, this]
  simp only [Text.encode, key, Option.map_some, flatten_singletons]

/-- where the object goes: origin + BYTE-POSITION, or the cursor -/
def Obj.pos (o : Obj) (origin cursor : Nat) : Nat :=
  match o.bytePos with
  | some b => origin + b
  | none => cursor

/-- the encoder's effect on the state for one object, as a pure function -/
def encStep (o : Obj) (v : IVal) (s : EncState) : EncState :=
  let pos := o.pos s.origin s.cursorByte
  let new := ord o.hl (toBytesBE o.k (o.raw v * 2 ^ o.bp))
  let m := ord o.hl (toBytesBE o.k o.mask)
  let used0 := s.used ++ List.replicate ((padTo s.msg (pos + o.k)).length - s.msg.length) 0
  { s with msg := placeBytes s.msg pos new m,
           used := placeUsed used0 pos o.k m,
           warn := s.warn + overlapCount ((used0.drop pos).take o.k) m,
           cursorByte := pos + o.k, cursorBit := 0 }

/-- raw representation of an in-range `A_UINT32` value without encoding -/
theorem rawOfUInt32_ok (enc : Option Enc) (he : enc = none ∨ enc = some .none_) (bl : Nat) (i : Int) (h0 : 0 ≤ i)
    (h1 : i < 2 ^ bl) (s : EncState) : rawOfUInt32 enc bl i s true = .ok (i.toNat, s) := by
  have hlt : i.toNat < 2 ^ bl := by
    have : ((2 ^ bl : Nat) : Int) = (2:Int) ^ bl := by simp
    omega
  have hbit : ¬ (bl < bitLength i.toNat) := Nat.not_lt.mpr ((bitLength_le_iff _ _).mpr hlt)
  have hneg : ¬ (i < 0) := by omega
  have hnat : i.natAbs = i.toNat := by omega
  rcases he with rfl | rfl <;>
    simp [rawOfUInt32, bind, pure, run_bind, run_ite, run_pure, hneg, hbit, hnat]

/-- raw representation of an `A_UINT32` value with a BCD encoding whose BCD form fits the bit length -/
theorem rawOfUInt32_bcd_ok (enc : Option Enc) (he : enc = some .bcdp ∨ enc = some .bcdup) (bl : Nat) (i : Int) (h0 : 0 ≤ i)
    (h1 : bcdEnc (if enc = some .bcdp then 4 else 8) i.toNat i.toNat < 2 ^ bl) (s : EncState) :
    rawOfUInt32 enc bl i s true = .ok (bcdEnc (if enc = some .bcdp then 4 else 8) i.toNat i.toNat, s) := by
  have hneg : ¬ (i < 0) := by omega
  have hnat : i.natAbs = i.toNat := by omega
  rcases he with rfl | rfl
  · simp only [if_true] at h1 ⊢
    have hbit : ¬ (bl < bitLength (bcdEnc 4 i.toNat i.toNat)) := Nat.not_lt.mpr ((bitLength_le_iff _ _).mpr h1)
    simp [rawOfUInt32, bind, pure, run_bind, run_ite, run_pure, hneg, hbit, hnat]
  · simp only [Option.some.injEq, reduceCtorEq, if_false] at h1 ⊢
    have hbit : ¬ (bl < bitLength (bcdEnc 8 i.toNat i.toNat)) := Nat.not_lt.mpr ((bitLength_le_iff _ _).mpr h1)
    simp [rawOfUInt32, bind, pure, run_bind, run_ite, run_pure, hneg, hbit, hnat]

theorem encodeParam_obj (o : Obj) (ho : o.ok) (v : IVal) (hr : o.inRange v) (fuel : Nat) (s : EncState) :
    encodeParam (fuel + 2) o.toParam (some (.atom v)) s true = .ok ((), encStep o v s) := by
  obtain ⟨hlt, -⟩ := o.raw_spec ho v hr
  obtain ⟨hk, hbl, hsz⟩ := ho
  have hb0 : o.bl ≠ 0 := by omega
  have hge : ¬ (2 ^ o.bl ≤ o.raw v) := by omega
  have hmask : ∀ bp, ¬ (256 ^ ((o.bl + bp + 7) / 8) ≤ (2 ^ o.bl - 1) * 2 ^ bp) :=
    fun bp => Nat.not_le.mpr (mask_fits o.bl bp)
  unfold Obj.inRange at hr
  unfold Obj.encOk at hk
  unfold Obj.sizeOk at hsz
  unfold Obj.raw at hge
  cases hkind : o.kind <;> cases v <;> simp only [hkind] at hr hk hge hsz
  · rename_i i
    have h64 : ¬ (64 < o.bl) := by omega
    simp [Obj.toParam, Obj.bt, hkind, encodeParam, encodeDop, encodeDct, typeAdmits, emplaceAtomic, emplaceBytes, bind, pure,
      run_ite, run_bind, run_pure, run_getS, run_setS, run_modifyS, run_raise, BaseType.isNumeric,
      rawOfInt32_ok o.enc hk o.bl hbl i hr, hb0, hge, hmask, h64]
    cases hh : o.hl <;> cases hb : o.bytePos <;>
      simp [encStep, Obj.raw, hkind, Obj.pos, Obj.k, Obj.bp, Obj.mask, ord, toBytesBE_length, hh, hb]
  · rename_i i
    have h64 : ¬ (64 < o.bl) := by omega
    simp [Obj.toParam, Obj.bt, hkind, encodeParam, encodeDop, encodeDct, typeAdmits, emplaceAtomic, emplaceBytes, bind, pure,
      run_ite, run_bind, run_pure, run_getS, run_setS, run_modifyS, run_raise, BaseType.isNumeric,
      rawOfUInt32_ok o.enc hk o.bl i hr.1 hr.2, hb0, hge, hmask, h64]
    cases hh : o.hl <;> cases hb : o.bytePos <;>
      simp [encStep, Obj.raw, hkind, Obj.pos, Obj.k, Obj.bp, Obj.mask, ord, toBytesBE_length, hh, hb]
  · rename_i b
    have hmask64 : ∀ bp, ¬ (256 ^ ((64 + bp + 7) / 8) ≤ (2 ^ 64 - 1) * 2 ^ bp) := by rw [← hsz]; exact hmask
    have hge64 : ¬ (2 ^ 64 ≤ b) := by rw [← hsz]; exact hge
    rcases hk with he | he <;>
    · simp [Obj.toParam, Obj.bt, hkind, encodeParam, encodeDop, encodeDct, typeAdmits, emplaceAtomic, emplaceBytes, bind, pure,
        run_ite, run_bind, run_pure, run_getS, run_setS, run_modifyS, run_raise, BaseType.isNumeric, odxassert, he, hsz,
        hge64, hmask64]
      cases hh : o.hl <;> cases hb : o.bytePos <;>
        simp [encStep, Obj.raw, hkind, Obj.pos, Obj.k, Obj.bp, Obj.mask, ord, toBytesBE_length, hh, hb, hsz]
  · rename_i b
    obtain ⟨hlen, hall⟩ := hr
    obtain ⟨hm8, hhl⟩ := hsz
    have hfit1 : ¬ (o.bl < 8 * b.length) := by omega
    have hfit2 : ¬ (8 * b.length < o.bl) := by omega
    have hsub : 8 * b.length - o.bl = 0 := by omega
    rcases hk with he | he <;>
    · simp [Obj.toParam, Obj.bt, hkind, encodeParam, encodeDop, encodeDct, typeAdmits, emplaceAtomic, emplaceBytes, fitBytes,
        bind, pure, run_ite, run_bind, run_pure, run_getS, run_setS, run_modifyS, run_raise, BaseType.isNumeric, odxassert, he,
        hfit1, hfit2, hsub, hb0, hm8, hge, hmask, hhl]
      cases hb : o.bytePos <;>
        simp [encStep, Obj.raw, hkind, Obj.pos, Obj.k, Obj.bp, Obj.mask, ord, toBytesBE_length, hhl, hb]
  · rename_i b
    obtain ⟨hlen, hall⟩ := hr
    obtain ⟨hm8, hhl⟩ := hsz
    have hfit1 : ¬ (o.bl < 8 * b.length) := by omega
    have hfit2 : ¬ (8 * b.length < o.bl) := by omega
    have hsub : 8 * b.length - o.bl = 0 := by omega
    have hlat := latin1_encode b hall
    rcases hk with he | he <;>
    · simp [Obj.toParam, Obj.bt, hkind, encodeParam, encodeDop, encodeDct, typeAdmits, emplaceAtomic, emplaceBytes, fitBytes,
        stringCodec, hlat, bind, pure, run_ite, run_bind, run_pure, run_getS, run_setS, run_modifyS, run_raise,
        BaseType.isNumeric, odxassert, he, hfit1, hfit2, hsub, hb0, hm8, hge, hmask, hhl]
      cases hb : o.bytePos <;>
        simp [encStep, Obj.raw, hkind, Obj.pos, Obj.k, Obj.bp, Obj.mask, ord, toBytesBE_length, hhl, hb]
  · rename_i b
    obtain ⟨hb64, hsome⟩ := hr
    obtain ⟨r, hr'⟩ := Option.isSome_iff_exists.mp hsome
    rw [hr', Option.getD_some] at hge
    have hmask32 : ∀ bp, ¬ (256 ^ ((32 + bp + 7) / 8) ≤ (2 ^ 32 - 1) * 2 ^ bp) := by rw [← hsz]; exact hmask
    have hge32 : ¬ (2 ^ 32 ≤ r) := by rw [← hsz]; exact hge
    rcases hk with he | he <;>
    · simp [Obj.toParam, Obj.bt, hkind, encodeParam, encodeDop, encodeDct, typeAdmits, emplaceAtomic, emplaceBytes, bind, pure,
        run_ite, run_bind, run_pure, run_getS, run_setS, run_modifyS, run_raise, BaseType.isNumeric, odxassert, he, hsz,
        hge32, hmask32, hr']
      cases hh : o.hl <;> cases hb : o.bytePos <;>
        simp [encStep, Obj.raw, hkind, Obj.pos, Obj.k, Obj.bp, Obj.mask, ord, toBytesBE_length, hh, hb, hsz, hr']
  · rename_i cps
    obtain ⟨bs, henc, hlen⟩ := hr
    obtain ⟨hm8, hhl⟩ := hsz
    rw [henc, Option.getD_some] at hge
    have hfit1 : ¬ (o.bl < 8 * bs.length) := by omega
    have hfit2 : ¬ (8 * bs.length < o.bl) := by omega
    have hsub : 8 * bs.length - o.bl = 0 := by omega
    rcases hk with he | he <;>
    · simp [Obj.toParam, Obj.bt, hkind, encodeParam, encodeDop, encodeDct, typeAdmits, emplaceAtomic, emplaceBytes, fitBytes,
        stringCodec, henc, bind, pure, run_ite, run_bind, run_pure, run_getS, run_setS, run_modifyS, run_raise,
        BaseType.isNumeric, odxassert, he, hfit1, hfit2, hsub, hb0, hm8, hge, hmask, hhl]
      cases hb : o.bytePos <;>
        simp [encStep, Obj.raw, hkind, Obj.pos, Obj.k, Obj.bp, Obj.mask, ord, toBytesBE_length, hhl, hb, henc]
  · rename_i cps
    obtain ⟨bs, henc, hlen⟩ := hr
    obtain ⟨hm8, hhl⟩ := hsz
    rw [henc, Option.getD_some] at hge
    have hfit1 : ¬ (o.bl < 8 * bs.length) := by omega
    have hfit2 : ¬ (8 * bs.length < o.bl) := by omega
    have hsub : 8 * bs.length - o.bl = 0 := by omega
    rcases hk with he | he <;>
    · simp [Obj.toParam, Obj.bt, hkind, encodeParam, encodeDop, encodeDct, typeAdmits, emplaceAtomic, emplaceBytes, fitBytes,
        stringCodec, henc, bind, pure, run_ite, run_bind, run_pure, run_getS, run_setS, run_modifyS, run_raise,
        BaseType.isNumeric, odxassert, he, hfit1, hfit2, hsub, hb0, hm8, hge, hmask, hhl]
      cases hb : o.bytePos <;>
        simp [encStep, Obj.raw, hkind, Obj.pos, Obj.k, Obj.bp, Obj.mask, ord, toBytesBE_length, hhl, hb, henc]
  · rename_i i
    have h64 : ¬ (64 < o.bl) := by omega
    have hraw := rawOfUInt32_bcd_ok o.enc hk o.bl i hr.1 hr.2
    unfold Obj.bcdShift at hge
    simp [Obj.toParam, Obj.bt, hkind, encodeParam, encodeDop, encodeDct, typeAdmits, emplaceAtomic, emplaceBytes, bind, pure,
      run_ite, run_bind, run_pure, run_getS, run_setS, run_modifyS, run_raise, BaseType.isNumeric,
      hraw, hb0, hge, hmask, h64]
    cases hh : o.hl <;> cases hb : o.bytePos <;>
      simp [encStep, Obj.raw, Obj.bcdShift, hkind, Obj.pos, Obj.k, Obj.bp, Obj.mask, ord, toBytesBE_length, hh, hb]

/-- the decoder's effect for one object -/
def decStep (o : Obj) (d : DecState) : IVal × DecState :=
  let pos := o.pos d.origin d.cursorByte
  (o.ofRaw (readNum d.msg pos o.k o.hl / 2 ^ o.bp % 2 ^ o.bl),
   { d with cursorByte := pos + o.k, cursorBit := 0 })

/-- what the decoder needs of the message at the object's place: the object's bytes are there and the pattern decodes -/
def Obj.fitsIn (o : Obj) (d : DecState) : Prop :=
  o.pos d.origin d.cursorByte + o.k ≤ d.msg.length ∧
  o.decodes (readNum d.msg (o.pos d.origin d.cursorByte) o.k o.hl / 2 ^ o.bp % 2 ^ o.bl)

theorem decodeParam_obj (o : Obj) (ho : o.ok) (fuel : Nat) (d : DecState)
    (hlen : o.pos d.origin d.cursorByte + o.k ≤ d.msg.length)
    (hdec : o.decodes (readNum d.msg (o.pos d.origin d.cursorByte) o.k o.hl / 2 ^ o.bp % 2 ^ o.bl)) :
    decodeParam (fuel + 2) o.toParam d true = .ok (.atom (decStep o d).1, (decStep o d).2) := by
  obtain ⟨hk, hbl, hsz⟩ := ho
  have hb0 : o.bl ≠ 0 := by omega
  unfold Obj.encOk at hk
  unfold Obj.sizeOk at hsz
  unfold Obj.pos Obj.k Obj.bp at hlen
  unfold Obj.decodes Obj.pos Obj.k Obj.bp at hdec
  cases hkind : o.kind <;> simp only [hkind] at hk hsz hdec
  · have h64 : ¬ (64 < o.bl) := by omega
    unfold int32Known at hk
    simp only [Bool.or_eq_true, decide_eq_true_eq] at hk
    have hk' : o.enc = none ∨ o.enc = some Enc.onec ∨ o.enc = some Enc.twoc ∨ o.enc = some Enc.sm := by
      rcases hk with ((h | h) | h) | h <;> simp [h]
    cases hb : o.bytePos <;> simp only [hb] at hlen
    all_goals
      have hnl : ¬ (d.msg.length < _ + (o.bl + o.bitPos.getD 0 + 7) / 8) := Nat.not_lt.mpr hlen
      simp [Obj.toParam, Obj.bt, Obj.ofRaw, hkind, decodeParam, decodeDop, decodeDct, extractAtomic, extractCore, convertRaw,
        bind, pure, run_bind, run_pure, run_getS, run_modifyS, run_ite, run_raise, BaseType.isNumeric, hb0, hnl, hk', hb, h64,
        decStep, Obj.pos, Obj.k, Obj.bp]
  · have h64 : ¬ (64 < o.bl) := by omega
    cases hb : o.bytePos <;> simp only [hb] at hlen
    all_goals
      have hnl : ¬ (d.msg.length < _ + (o.bl + o.bitPos.getD 0 + 7) / 8) := Nat.not_lt.mpr hlen
      rcases hk with he | he
      all_goals
        simp [Obj.toParam, Obj.bt, Obj.ofRaw, hkind, decodeParam, decodeDop, decodeDct, extractAtomic, extractCore, convertRaw,
          uint32OfRaw, bind, pure, run_bind, run_pure, run_getS, run_modifyS, run_ite, run_raise, BaseType.isNumeric, hb0, hnl,
          he, hb, h64, decStep, Obj.pos, Obj.k, Obj.bp]
  · cases hb : o.bytePos <;> simp only [hb, hsz] at hlen
    all_goals
      have hnl : ¬ (d.msg.length < _ + (64 + o.bitPos.getD 0 + 7) / 8) := Nat.not_lt.mpr hlen
      rcases hk with he | he
      all_goals
        simp [Obj.toParam, Obj.bt, Obj.ofRaw, hkind, decodeParam, decodeDop, decodeDct, extractAtomic, extractCore, convertRaw,
          bind, pure, run_bind, run_pure, run_getS, run_modifyS, run_ite, run_raise, BaseType.isNumeric, odxassert, hsz, hnl,
          he, hb, decStep, Obj.pos, Obj.k, Obj.bp]
  · obtain ⟨hm8, hhl⟩ := hsz
    cases hb : o.bytePos <;> simp only [hb] at hlen
    all_goals
      have hnl : ¬ (d.msg.length < _ + (o.bl + o.bitPos.getD 0 + 7) / 8) := Nat.not_lt.mpr hlen
      rcases hk with he | he
      all_goals
        simp [Obj.toParam, Obj.bt, Obj.ofRaw, hkind, decodeParam, decodeDop, decodeDct, extractAtomic, extractCore, convertRaw,
          bind, pure, run_bind, run_pure, run_getS, run_modifyS, run_ite, run_raise, BaseType.isNumeric, odxassert, hb0, hnl,
          he, hb, hm8, hhl, decStep, Obj.pos, Obj.k, Obj.bp]
  · obtain ⟨hm8, hhl⟩ := hsz
    cases hb : o.bytePos <;> simp only [hb] at hlen
    all_goals
      have hnl : ¬ (d.msg.length < _ + (o.bl + o.bitPos.getD 0 + 7) / 8) := Nat.not_lt.mpr hlen
      rcases hk with he | he
      all_goals
        simp [Obj.toParam, Obj.bt, Obj.ofRaw, hkind, decodeParam, decodeDop, decodeDct, extractAtomic, extractCore, convertRaw,
          stringCodec, Text.decode, bind, pure, run_bind, run_pure, run_getS, run_modifyS, run_ite, run_raise, BaseType.isNumeric, odxassert, hb0, hnl,
          he, hb, hm8, hhl, decStep, Obj.pos, Obj.k, Obj.bp]
  · cases hb : o.bytePos <;> simp only [hb, hsz] at hlen hdec
    all_goals
      have hnl : ¬ (d.msg.length < _ + (32 + o.bitPos.getD 0 + 7) / 8) := Nat.not_lt.mpr hlen
      obtain ⟨b64, hb64⟩ := Option.isSome_iff_exists.mp hdec
      rcases hk with he | he
      all_goals
        simp [Obj.toParam, Obj.bt, Obj.ofRaw, hkind, decodeParam, decodeDop, decodeDct, extractAtomic, extractCore, convertRaw,
          bind, pure, run_bind, run_pure, run_getS, run_modifyS, run_ite, run_raise, BaseType.isNumeric, odxassert, hsz, hnl,
          he, hb, decStep, Obj.pos, Obj.k, Obj.bp, hb64]
  · obtain ⟨hm8, hhl⟩ := hsz
    have e2 : (8 - o.bl % 8) % 8 = 0 := by omega
    rw [e2, Nat.pow_zero, Nat.mul_one, hhl] at hdec
    cases hb : o.bytePos <;> simp only [hb] at hlen hdec
    all_goals
      have hnl : ¬ (d.msg.length < _ + (o.bl + o.bitPos.getD 0 + 7) / 8) := Nat.not_lt.mpr hlen
      obtain ⟨cps, hcps⟩ := Option.isSome_iff_exists.mp hdec
      rcases hk with he | he
      all_goals
        simp [Obj.toParam, Obj.bt, Obj.ofRaw, hkind, decodeParam, decodeDop, decodeDct, extractAtomic, extractCore, convertRaw,
          stringCodec, bind, pure, run_bind, run_pure, run_getS, run_modifyS, run_ite, run_raise, BaseType.isNumeric, odxassert, hb0, hnl,
          he, hb, hm8, hhl, decStep, Obj.pos, Obj.k, Obj.bp, hcps]
  · obtain ⟨hm8, hhl⟩ := hsz
    have e2 : (8 - o.bl % 8) % 8 = 0 := by omega
    rw [e2, Nat.pow_zero, Nat.mul_one, hhl] at hdec
    cases hb : o.bytePos <;> simp only [hb] at hlen hdec
    all_goals
      have hnl : ¬ (d.msg.length < _ + (o.bl + o.bitPos.getD 0 + 7) / 8) := Nat.not_lt.mpr hlen
      obtain ⟨cps, hcps⟩ := Option.isSome_iff_exists.mp hdec
      rcases hk with he | he
      all_goals
        simp [Obj.toParam, Obj.bt, Obj.ofRaw, hkind, decodeParam, decodeDop, decodeDct, extractAtomic, extractCore, convertRaw,
          stringCodec, bind, pure, run_bind, run_pure, run_getS, run_modifyS, run_ite, run_raise, BaseType.isNumeric, odxassert, hb0, hnl,
          he, hb, hm8, hhl, decStep, Obj.pos, Obj.k, Obj.bp, hcps]
  · have h64 : ¬ (64 < o.bl) := by omega
    cases hb : o.bytePos <;> simp only [hb] at hlen
    all_goals
      have hnl : ¬ (d.msg.length < _ + (o.bl + o.bitPos.getD 0 + 7) / 8) := Nat.not_lt.mpr hlen
      rcases hk with he | he
      all_goals
        simp [Obj.toParam, Obj.bt, Obj.ofRaw, Obj.bcdShift, hkind, decodeParam, decodeDop, decodeDct, extractAtomic, extractCore, convertRaw,
          uint32OfRaw, bind, pure, run_bind, run_pure, run_getS, run_modifyS, run_ite, run_raise, BaseType.isNumeric, hb0, hnl,
          he, hb, h64, decStep, Obj.pos, Obj.k, Obj.bp]

/-- the byte-order flag of a byte field is immaterial (only numeric objects are byte-swapped) -/
theorem bytefield_hl_irrelevant (enc : Option Enc) (hl : Bool) (bl : Nat) (m : Option Nat) (c : Bool) (v : IVal) :
    encodeDct (.std .bytefield enc hl bl m c) v = encodeDct (.std .bytefield enc true bl m c) v ∧
    decodeDct (.std .bytefield enc hl bl m c) = decodeDct (.std .bytefield enc true bl m c) := by
  constructor
  · cases m <;> cases v <;>
      simp [encodeDct, emplaceAtomic, BaseType.isNumeric, stringCodec]
  · cases m <;>
      simp [decodeDct, extractAtomic, extractCore, convertRaw, BaseType.isNumeric]

/-! ### CODED-CONST parameters over the same objects -/

/-- a CODED-CONST parameter whose diag-coded type is the object's and whose coded value is `v` -/
def Obj.toConstParam (o : Obj) (v : IVal) : Param :=
  .mk o.name o.bytePos o.bitPos (.codedConst (.std o.bt o.enc o.hl o.bl none false) v)

/-- encoding a CODED-CONST parameter (value not supplied, or supplied and equal) = the same pure step -/
theorem encodeParam_const_obj (o : Obj) (ho : o.ok) (v : IVal) (hr : o.inRange v) (pv : Option PVal)
    (hpv : pv = none ∨ pv = some (.atom v)) (fuel : Nat) (s : EncState) :
    encodeParam (fuel + 1) (o.toConstParam v) pv s true = .ok ((), encStep o v s) := by
  obtain ⟨hlt, -⟩ := o.raw_spec ho v hr
  obtain ⟨hk, hbl, hsz⟩ := ho
  have hb0 : o.bl ≠ 0 := by omega
  have hge : ¬ (2 ^ o.bl ≤ o.raw v) := by omega
  have hmask : ∀ bp, ¬ (256 ^ ((o.bl + bp + 7) / 8) ≤ (2 ^ o.bl - 1) * 2 ^ bp) :=
    fun bp => Nat.not_le.mpr (mask_fits o.bl bp)
  unfold Obj.inRange at hr
  unfold Obj.encOk at hk
  unfold Obj.sizeOk at hsz
  unfold Obj.raw at hge
  cases hkind : o.kind <;> cases v <;> simp only [hkind] at hr hk hge hsz
  · rename_i i
    have h64 : ¬ (64 < o.bl) := by omega
    rcases hpv with rfl | rfl <;>
    · simp [Obj.toConstParam, Obj.bt, hkind, encodeParam, encodeDct, emplaceAtomic, emplaceBytes, bind, pure,
        run_ite, run_bind, run_pure, run_getS, run_setS, run_modifyS, run_raise, BaseType.isNumeric,
        rawOfInt32_ok o.enc hk o.bl hbl i hr, hb0, hge, hmask, h64]
      cases hh : o.hl <;> cases hb : o.bytePos <;>
        simp [encStep, Obj.raw, hkind, Obj.pos, Obj.k, Obj.bp, Obj.mask, ord, toBytesBE_length, hh, hb]
  · rename_i i
    have h64 : ¬ (64 < o.bl) := by omega
    rcases hpv with rfl | rfl <;>
    · simp [Obj.toConstParam, Obj.bt, hkind, encodeParam, encodeDct, emplaceAtomic, emplaceBytes, bind, pure,
        run_ite, run_bind, run_pure, run_getS, run_setS, run_modifyS, run_raise, BaseType.isNumeric,
        rawOfUInt32_ok o.enc hk o.bl i hr.1 hr.2, hb0, hge, hmask, h64]
      cases hh : o.hl <;> cases hb : o.bytePos <;>
        simp [encStep, Obj.raw, hkind, Obj.pos, Obj.k, Obj.bp, Obj.mask, ord, toBytesBE_length, hh, hb]
  · rename_i b
    have hmask64 : ∀ bp, ¬ (256 ^ ((64 + bp + 7) / 8) ≤ (2 ^ 64 - 1) * 2 ^ bp) := by rw [← hsz]; exact hmask
    have hge64 : ¬ (2 ^ 64 ≤ b) := by rw [← hsz]; exact hge
    rcases hk with he | he <;> rcases hpv with rfl | rfl <;>
    · simp [Obj.toConstParam, Obj.bt, hkind, encodeParam, encodeDct, emplaceAtomic, emplaceBytes, bind, pure,
        run_ite, run_bind, run_pure, run_getS, run_setS, run_modifyS, run_raise, BaseType.isNumeric, odxassert, he, hsz,
        hge64, hmask64]
      cases hh : o.hl <;> cases hb : o.bytePos <;>
        simp [encStep, Obj.raw, hkind, Obj.pos, Obj.k, Obj.bp, Obj.mask, ord, toBytesBE_length, hh, hb, hsz]
  · rename_i b
    obtain ⟨hlen, hall⟩ := hr
    obtain ⟨hm8, hhl⟩ := hsz
    have hfit1 : ¬ (o.bl < 8 * b.length) := by omega
    have hfit2 : ¬ (8 * b.length < o.bl) := by omega
    have hsub : 8 * b.length - o.bl = 0 := by omega
    rcases hk with he | he <;> rcases hpv with rfl | rfl <;>
    · simp [Obj.toConstParam, Obj.bt, hkind, encodeParam, encodeDct, emplaceAtomic, emplaceBytes, fitBytes,
        bind, pure, run_ite, run_bind, run_pure, run_getS, run_setS, run_modifyS, run_raise, BaseType.isNumeric, odxassert, he,
        hfit1, hfit2, hsub, hb0, hm8, hge, hmask, hhl]
      cases hb : o.bytePos <;>
        simp [encStep, Obj.raw, hkind, Obj.pos, Obj.k, Obj.bp, Obj.mask, ord, toBytesBE_length, hhl, hb]
  · rename_i b
    obtain ⟨hlen, hall⟩ := hr
    obtain ⟨hm8, hhl⟩ := hsz
    have hfit1 : ¬ (o.bl < 8 * b.length) := by omega
    have hfit2 : ¬ (8 * b.length < o.bl) := by omega
    have hsub : 8 * b.length - o.bl = 0 := by omega
    have hlat := latin1_encode b hall
    rcases hk with he | he <;> rcases hpv with rfl | rfl <;>
    · simp [Obj.toConstParam, Obj.bt, hkind, encodeParam, encodeDct, emplaceAtomic, emplaceBytes, fitBytes,
        stringCodec, hlat, bind, pure, run_ite, run_bind, run_pure, run_getS, run_setS, run_modifyS, run_raise, BaseType.isNumeric, odxassert, he,
        hfit1, hfit2, hsub, hb0, hm8, hge, hmask, hhl]
      cases hb : o.bytePos <;>
        simp [encStep, Obj.raw, hkind, Obj.pos, Obj.k, Obj.bp, Obj.mask, ord, toBytesBE_length, hhl, hb]
  · rename_i b
    obtain ⟨hb64, hsome⟩ := hr
    obtain ⟨r, hr'⟩ := Option.isSome_iff_exists.mp hsome
    rw [hr', Option.getD_some] at hge
    have hmask32 : ∀ bp, ¬ (256 ^ ((32 + bp + 7) / 8) ≤ (2 ^ 32 - 1) * 2 ^ bp) := by rw [← hsz]; exact hmask
    have hge32 : ¬ (2 ^ 32 ≤ r) := by rw [← hsz]; exact hge
    rcases hk with he | he <;> rcases hpv with rfl | rfl <;>
    · simp [Obj.toConstParam, Obj.bt, hkind, encodeParam, encodeDct, emplaceAtomic, emplaceBytes, bind, pure,
        run_ite, run_bind, run_pure, run_getS, run_setS, run_modifyS, run_raise, BaseType.isNumeric, odxassert, he, hsz,
        hge32, hmask32, hr']
      cases hh : o.hl <;> cases hb : o.bytePos <;>
        simp [encStep, Obj.raw, hkind, Obj.pos, Obj.k, Obj.bp, Obj.mask, ord, toBytesBE_length, hh, hb, hsz, hr']
  · rename_i cps
    obtain ⟨bs, henc, hlen⟩ := hr
    obtain ⟨hm8, hhl⟩ := hsz
    rw [henc, Option.getD_some] at hge
    have hfit1 : ¬ (o.bl < 8 * bs.length) := by omega
    have hfit2 : ¬ (8 * bs.length < o.bl) := by omega
    have hsub : 8 * bs.length - o.bl = 0 := by omega
    rcases hk with he | he <;> rcases hpv with rfl | rfl <;>
    · simp [Obj.toConstParam, Obj.bt, hkind, encodeParam, encodeDct, emplaceAtomic, emplaceBytes, fitBytes,
        stringCodec, henc, bind, pure, run_ite, run_bind, run_pure, run_getS, run_setS, run_modifyS, run_raise, BaseType.isNumeric, odxassert, he,
        hfit1, hfit2, hsub, hb0, hm8, hge, hmask, hhl]
      cases hb : o.bytePos <;>
        simp [encStep, Obj.raw, hkind, Obj.pos, Obj.k, Obj.bp, Obj.mask, ord, toBytesBE_length, hhl, hb, henc]
  · rename_i cps
    obtain ⟨bs, henc, hlen⟩ := hr
    obtain ⟨hm8, hhl⟩ := hsz
    rw [henc, Option.getD_some] at hge
    have hfit1 : ¬ (o.bl < 8 * bs.length) := by omega
    have hfit2 : ¬ (8 * bs.length < o.bl) := by omega
    have hsub : 8 * bs.length - o.bl = 0 := by omega
    rcases hk with he | he <;> rcases hpv with rfl | rfl <;>
    · simp [Obj.toConstParam, Obj.bt, hkind, encodeParam, encodeDct, emplaceAtomic, emplaceBytes, fitBytes,
        stringCodec, henc, bind, pure, run_ite, run_bind, run_pure, run_getS, run_setS, run_modifyS, run_raise, BaseType.isNumeric, odxassert, he,
        hfit1, hfit2, hsub, hb0, hm8, hge, hmask, hhl]
      cases hb : o.bytePos <;>
        simp [encStep, Obj.raw, hkind, Obj.pos, Obj.k, Obj.bp, Obj.mask, ord, toBytesBE_length, hhl, hb, henc]
  · rename_i i
    have h64 : ¬ (64 < o.bl) := by omega
    have hraw := rawOfUInt32_bcd_ok o.enc hk o.bl i hr.1 hr.2
    unfold Obj.bcdShift at hge
    rcases hpv with rfl | rfl <;>
    · simp [Obj.toConstParam, Obj.bt, hkind, encodeParam, encodeDct, emplaceAtomic, emplaceBytes, bind, pure,
        run_ite, run_bind, run_pure, run_getS, run_setS, run_modifyS, run_raise, BaseType.isNumeric,
        hraw, hb0, hge, hmask, h64]
      cases hh : o.hl <;> cases hb : o.bytePos <;>
        simp [encStep, Obj.raw, Obj.bcdShift, hkind, Obj.pos, Obj.k, Obj.bp, Obj.mask, ord, toBytesBE_length, hh, hb]

/-- decoding a CODED-CONST parameter returns what is on the wire (a mismatch with the constant is only warned about) -/
theorem decodeParam_const_obj (o : Obj) (ho : o.ok) (v : IVal) (fuel : Nat) (d : DecState)
    (hlen : o.pos d.origin d.cursorByte + o.k ≤ d.msg.length)
    (hdec : o.decodes (readNum d.msg (o.pos d.origin d.cursorByte) o.k o.hl / 2 ^ o.bp % 2 ^ o.bl)) :
    decodeParam (fuel + 1) (o.toConstParam v) d true = .ok (.atom (decStep o d).1, (decStep o d).2) := by
  obtain ⟨hk, hbl, hsz⟩ := ho
  have hb0 : o.bl ≠ 0 := by omega
  unfold Obj.encOk at hk
  unfold Obj.sizeOk at hsz
  unfold Obj.pos Obj.k Obj.bp at hlen
  unfold Obj.decodes Obj.pos Obj.k Obj.bp at hdec
  cases hkind : o.kind <;> simp only [hkind] at hk hsz hdec
  · have h64 : ¬ (64 < o.bl) := by omega
    unfold int32Known at hk
    simp only [Bool.or_eq_true, decide_eq_true_eq] at hk
    have hk' : o.enc = none ∨ o.enc = some Enc.onec ∨ o.enc = some Enc.twoc ∨ o.enc = some Enc.sm := by
      rcases hk with ((h | h) | h) | h <;> simp [h]
    cases hb : o.bytePos <;> simp only [hb] at hlen
    all_goals
      have hnl : ¬ (d.msg.length < _ + (o.bl + o.bitPos.getD 0 + 7) / 8) := Nat.not_lt.mpr hlen
      simp [Obj.toConstParam, Obj.bt, Obj.ofRaw, hkind, decodeParam, decodeDct, extractAtomic, extractCore, convertRaw,
        bind, pure, run_bind, run_pure, run_getS, run_modifyS, run_ite, run_raise, BaseType.isNumeric, hb0, hnl, hk', hb, h64,
        decStep, Obj.pos, Obj.k, Obj.bp]
  · have h64 : ¬ (64 < o.bl) := by omega
    cases hb : o.bytePos <;> simp only [hb] at hlen
    all_goals
      have hnl : ¬ (d.msg.length < _ + (o.bl + o.bitPos.getD 0 + 7) / 8) := Nat.not_lt.mpr hlen
      rcases hk with he | he
      all_goals
        simp [Obj.toConstParam, Obj.bt, Obj.ofRaw, hkind, decodeParam, decodeDct, extractAtomic, extractCore, convertRaw,
          uint32OfRaw, bind, pure, run_bind, run_pure, run_getS, run_modifyS, run_ite, run_raise, BaseType.isNumeric, hb0, hnl,
          he, hb, h64, decStep, Obj.pos, Obj.k, Obj.bp]
  · cases hb : o.bytePos <;> simp only [hb, hsz] at hlen
    all_goals
      have hnl : ¬ (d.msg.length < _ + (64 + o.bitPos.getD 0 + 7) / 8) := Nat.not_lt.mpr hlen
      rcases hk with he | he
      all_goals
        simp [Obj.toConstParam, Obj.bt, Obj.ofRaw, hkind, decodeParam, decodeDct, extractAtomic, extractCore, convertRaw,
          bind, pure, run_bind, run_pure, run_getS, run_modifyS, run_ite, run_raise, BaseType.isNumeric, odxassert, hsz, hnl,
          he, hb, decStep, Obj.pos, Obj.k, Obj.bp]
  · obtain ⟨hm8, hhl⟩ := hsz
    cases hb : o.bytePos <;> simp only [hb] at hlen
    all_goals
      have hnl : ¬ (d.msg.length < _ + (o.bl + o.bitPos.getD 0 + 7) / 8) := Nat.not_lt.mpr hlen
      rcases hk with he | he
      all_goals
        simp [Obj.toConstParam, Obj.bt, Obj.ofRaw, hkind, decodeParam, decodeDct, extractAtomic, extractCore, convertRaw,
          bind, pure, run_bind, run_pure, run_getS, run_modifyS, run_ite, run_raise, BaseType.isNumeric, odxassert, hb0, hnl,
          he, hb, hm8, hhl, decStep, Obj.pos, Obj.k, Obj.bp]
  · obtain ⟨hm8, hhl⟩ := hsz
    cases hb : o.bytePos <;> simp only [hb] at hlen
    all_goals
      have hnl : ¬ (d.msg.length < _ + (o.bl + o.bitPos.getD 0 + 7) / 8) := Nat.not_lt.mpr hlen
      rcases hk with he | he
      all_goals
        simp [Obj.toConstParam, Obj.bt, Obj.ofRaw, hkind, decodeParam, decodeDct, extractAtomic, extractCore, convertRaw,
          stringCodec, Text.decode, bind, pure, run_bind, run_pure, run_getS, run_modifyS, run_ite, run_raise, BaseType.isNumeric, odxassert, hb0, hnl,
          he, hb, hm8, hhl, decStep, Obj.pos, Obj.k, Obj.bp]
  · cases hb : o.bytePos <;> simp only [hb, hsz] at hlen hdec
    all_goals
      have hnl : ¬ (d.msg.length < _ + (32 + o.bitPos.getD 0 + 7) / 8) := Nat.not_lt.mpr hlen
      obtain ⟨b64, hb64⟩ := Option.isSome_iff_exists.mp hdec
      rcases hk with he | he
      all_goals
        simp [Obj.toConstParam, Obj.bt, Obj.ofRaw, hkind, decodeParam, decodeDct, extractAtomic, extractCore, convertRaw,
          bind, pure, run_bind, run_pure, run_getS, run_modifyS, run_ite, run_raise, BaseType.isNumeric, odxassert, hsz, hnl,
          he, hb, decStep, Obj.pos, Obj.k, Obj.bp, hb64]
  · obtain ⟨hm8, hhl⟩ := hsz
    have e2 : (8 - o.bl % 8) % 8 = 0 := by omega
    rw [e2, Nat.pow_zero, Nat.mul_one, hhl] at hdec
    cases hb : o.bytePos <;> simp only [hb] at hlen hdec
    all_goals
      have hnl : ¬ (d.msg.length < _ + (o.bl + o.bitPos.getD 0 + 7) / 8) := Nat.not_lt.mpr hlen
      obtain ⟨cps, hcps⟩ := Option.isSome_iff_exists.mp hdec
      rcases hk with he | he
      all_goals
        simp [Obj.toConstParam, Obj.bt, Obj.ofRaw, hkind, decodeParam, decodeDct, extractAtomic, extractCore, convertRaw,
          stringCodec, bind, pure, run_bind, run_pure, run_getS, run_modifyS, run_ite, run_raise, BaseType.isNumeric, odxassert, hb0, hnl,
          he, hb, hm8, hhl, decStep, Obj.pos, Obj.k, Obj.bp, hcps]
  · obtain ⟨hm8, hhl⟩ := hsz
    have e2 : (8 - o.bl % 8) % 8 = 0 := by omega
    rw [e2, Nat.pow_zero, Nat.mul_one, hhl] at hdec
    cases hb : o.bytePos <;> simp only [hb] at hlen hdec
    all_goals
      have hnl : ¬ (d.msg.length < _ + (o.bl + o.bitPos.getD 0 + 7) / 8) := Nat.not_lt.mpr hlen
      obtain ⟨cps, hcps⟩ := Option.isSome_iff_exists.mp hdec
      rcases hk with he | he
      all_goals
        simp [Obj.toConstParam, Obj.bt, Obj.ofRaw, hkind, decodeParam, decodeDct, extractAtomic, extractCore, convertRaw,
          stringCodec, bind, pure, run_bind, run_pure, run_getS, run_modifyS, run_ite, run_raise, BaseType.isNumeric, odxassert, hb0, hnl,
          he, hb, hm8, hhl, decStep, Obj.pos, Obj.k, Obj.bp, hcps]
  · have h64 : ¬ (64 < o.bl) := by omega
    cases hb : o.bytePos <;> simp only [hb] at hlen
    all_goals
      have hnl : ¬ (d.msg.length < _ + (o.bl + o.bitPos.getD 0 + 7) / 8) := Nat.not_lt.mpr hlen
      rcases hk with he | he
      all_goals
        simp [Obj.toConstParam, Obj.bt, Obj.ofRaw, Obj.bcdShift, hkind, decodeParam, decodeDct, extractAtomic, extractCore, convertRaw,
          uint32OfRaw, bind, pure, run_bind, run_pure, run_getS, run_modifyS, run_ite, run_raise, BaseType.isNumeric, hb0, hnl,
          he, hb, h64, decStep, Obj.pos, Obj.k, Obj.bp]

end OdxVerif.Codec
