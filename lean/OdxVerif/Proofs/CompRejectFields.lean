import OdxVerif.Proofs.CompReject
import OdxVerif.Proofs.ItemLoop
/-! Compositional tier, rejection side (task W14, C04), closure of `DDesc.Ok` under the field kinds: a STATIC-FIELD /
    DYNAMIC-LENGTH-FIELD / END-OF-PDU-FIELD over an item description `item` accepts exactly the lists whose elements the item
    accepts (static: the right number of them, each ending within ITEM-BYTE-SIZE; dynamic: a number the count object can
    hold) and rejects everything else with a library error — `unmodelled` only for a `str` / `bytes` atom (Python sequences
    too, which the model does not iterate). -/
namespace OdxVerif.Codec
open OdxVerif.Bits OdxVerif.OdxM

/-! ### the items of a field -/

/-- the item components for the supplied item values, if the item description accepts each of them and each passes `chk` -/
def DDesc.fillItems (d : DDesc) (chk : DComp → Bool) : List PVal → Option (List DComp)
  | [] => some []
  | x :: xs =>
    match d.fill x with
    | some c =>
      if chk c then
        match d.fillItems chk xs with
        | some cs => some (c :: cs)
        | none => none
      else none
    | none => none

def DDesc.needItems (d : DDesc) : List PVal → Nat
  | [] => 0
  | x :: xs => d.need x + d.needItems xs

inductive DComps.Fill (d : DDesc) (chk : DComp → Bool) : List DComp → List PVal → Prop
  | nil : DComps.Fill d chk [] []
  | cons {c : DComp} {x : PVal} {cs : List DComp} {xs : List PVal} :
      c.Fills d x → chk c = true → DComps.Fill d chk cs xs → DComps.Fill d chk (c :: cs) (x :: xs)

theorem DDesc.fillItems_some (d : DDesc) (hd : d.Ok) (chk : DComp → Bool) : ∀ (xs : List PVal) (cs : List DComp),
    d.fillItems chk xs = some cs → DComps.Fill d chk cs xs
  | [], cs, h => by
    simp only [DDesc.fillItems, Option.some.injEq] at h
    subst h
    exact .nil
  | x :: xs, cs, h => by
    simp only [DDesc.fillItems] at h
    cases h1 : d.fill x with
    | none => rw [h1] at h; cases h
    | some c =>
      rw [h1] at h
      cases h2 : chk c with
      | false => simp [h2] at h
      | true =>
        simp only [h2, if_true] at h
        cases h3 : d.fillItems chk xs with
        | none => rw [h3] at h; simp at h
        | some cs0 =>
          rw [h3] at h
          simp only [Option.some.injEq] at h
          subst h
          exact .cons (hd.acc x c h1) h2 (DDesc.fillItems_some d hd chk xs cs0 h3)

theorem DComps.Fill.length {d : DDesc} {chk : DComp → Bool} {cs : List DComp} {xs : List PVal} (h : DComps.Fill d chk cs xs) :
    cs.length = xs.length := by
  induction h with
  | nil => rfl
  | cons _ _ _ ih => simp only [List.length_cons, ih]

theorem DComps.Fill.sups {d : DDesc} {chk : DComp → Bool} {cs : List DComp} {xs : List PVal} (h : DComps.Fill d chk cs xs) :
    DComps.sups cs = xs := by
  induction h with
  | nil => rfl
  | cons h1 _ _ ih =>
    simp only [DComps.sups, List.map_cons, h1.sup] at ih ⊢
    rw [ih]

theorem DComps.Fill.vals {d : DDesc} {chk : DComp → Bool} {cs : List DComp} {xs : List PVal} (h : DComps.Fill d chk cs xs) :
    DComps.vals cs = xs.map d.complete := by
  induction h with
  | nil => rfl
  | cons h1 _ _ ih =>
    simp only [DComps.vals, List.map_cons, h1.val] at ih ⊢
    rw [ih]

theorem DComps.Fill.maxNeed {d : DDesc} {chk : DComp → Bool} {cs : List DComp} {xs : List PVal} (h : DComps.Fill d chk cs xs) :
    DComps.maxNeed cs ≤ d.needItems xs := by
  induction h with
  | nil => exact Nat.le_refl _
  | cons h1 _ _ ih =>
    have := h1.need
    simp only [DComps.maxNeed, DDesc.needItems]
    omega

theorem DComps.Fill.mem {d : DDesc} {chk : DComp → Bool} {cs : List DComp} {xs : List PVal} (h : DComps.Fill d chk cs xs) :
    ∀ c ∈ cs, (∃ x, c.Fills d x) ∧ chk c = true := by
  induction h with
  | nil => intro c hc; cases hc
  | cons h1 h2 _ ih =>
    intro c hc
    cases hc with
    | head => exact ⟨⟨_, h1⟩, h2⟩
    | tail _ hm => exact ih c hm

/-- what the field closure lemmas of `Proofs/CompFields.lean` demand of every item -/
theorem DComps.Fill.itemOk {d : DDesc} {chk : DComp → Bool} {cs : List DComp} {xs : List PVal} (h : DComps.Fill d chk cs xs)
    (hne : d.mayEop = false) : ∀ c ∈ cs, c.itemOk d.dop ∧ c.EndOk ∧ d.minSize ≤ c.size ∧ chk c = true := by
  intro c hc
  obtain ⟨⟨x, hx⟩, hchk⟩ := h.mem c hc
  refine ⟨⟨hx.ok, hx.dop, ?_⟩, hx.endOk, hx.size, hchk⟩
  cases he : c.eopOnly with
  | false => rfl
  | true => have := hx.eop he; rw [hne] at this; cases this

/-! ### STATIC-FIELD -/

/-- the static-field item loop fails if an item is not accepted or does not end within ITEM-BYTE-SIZE -/
theorem encodeStaticItems_rej (item : DDesc) (hok : item.Ok) (hne : item.mayEop = false) (n : Nat) (eop : Bool) :
    ∀ (xs : List PVal), item.fillItems (fun c => decide (c.size ≤ n)) xs = none →
    ∀ (fuel : Nat), xs.length + item.needItems xs + 1 ≤ fuel → ∀ (s : EncState), s.cursorBit = 0 →
    ∃ e s', encodeStaticItems item.dop n eop fuel xs s true = .error (e, s') ∧ RejErr e (xs.all item.typed) := by
  intro xs
  induction xs with
  | nil => intro h; simp [DDesc.fillItems] at h
  | cons x rest ih =>
    intro hf fuel hfu s hcb
    simp only [List.length_cons, DDesc.needItems] at hfu
    obtain ⟨f, rfl⟩ : ∃ f, fuel = f + 1 := ⟨fuel - 1, by omega⟩
    simp only [List.all_cons]
    cases h1 : item.fill x with
    | none =>
      obtain ⟨e, s', hrun, he⟩ := hok.rej x h1 f (by omega) s hcb (fun h => by rw [hne] at h; cases h)
      refine ⟨e, s', ?_, he.and_left _⟩
      simp only [encodeStaticItems, bind, run_bind, run_getS, hrun]
    | some c =>
      have hc := hok.acc x c h1
      have hnoe : c.eopOnly = true → s.isEndOfPdu = true := by
        intro he; have := hc.eop he; rw [hne] at this; cases this
      obtain ⟨s1, hrun1, hc1, hcb1⟩ := hc.ok.encode_eq f (by have := hc.need; omega) s hcb hnoe
      rw [hc.dop, hc.sup] at hrun1
      have hcur1 : s1.cursorByte = s.cursorByte + c.size := by rw [hc1.2.2.2.1, hc.ok.enc_cursor]
      by_cases hsz : c.size ≤ n
      · have h2 : item.fillItems (fun c => decide (c.size ≤ n)) rest = none := by
          simp only [DDesc.fillItems, h1, hsz, decide_true, if_true] at hf
          cases h2 : item.fillItems (fun c => decide (c.size ≤ n)) rest with
          | none => rfl
          | some cs => rw [h2] at hf; cases hf
        let s2 : EncState := if s1.cursorByte - s.cursorByte < n then padEnc (n - (s1.cursorByte - s.cursorByte)) s1 else s1
        have hcb2 : s2.cursorBit = 0 := by
          show (if s1.cursorByte - s.cursorByte < n then padEnc (n - (s1.cursorByte - s.cursorByte)) s1 else s1).cursorBit = 0
          split <;> simp [padEnc_cursorBit, hcb1]
        obtain ⟨e, s', hrun, he⟩ := ih h2 f (by omega) s2 hcb2
        refine ⟨e, s', ?_, he.and_right _⟩
        rw [encodeStaticItems_cons _ n eop f _ _ s s1 hrun1 (by omega) hcb1]
        exact hrun
      · refine ⟨.odx, ?_, ?_, RejErr.odx _⟩
        rotate_left
        · have hgt : s1.cursorByte - s.cursorByte > n := by omega
          simp only [encodeStaticItems, bind, run_bind, run_getS, hrun1, hgt, if_true, odxraise]
          rfl

def DDesc.staticField (count n : Nat) (item : DDesc) : DDesc where
  dop := .staticField count n item.dop
  fill := fun pv => match pv with
    | .list xs =>
      if xs.length = count then (item.fillItems (fun c => decide (c.size ≤ n)) xs).map (DComp.staticField n item.dop) else none
    | _ => none
  complete := fun pv => match pv with
    | .list xs => .list (xs.map item.complete)
    | _ => .none
  typed := fun pv => match pv with
    | .list xs => xs.all item.typed
    | .atom (.str _) | .atom (.bytes _) => false
    | _ => true
  need := fun pv => match pv with
    | .list xs => xs.length + item.needItems xs + 2
    | _ => 1
  minSize := count * n

/-- **closure under STATIC-FIELD** -/
theorem DDesc.staticField_ok (count n : Nat) (item : DDesc) (hok : item.Ok) (hne : item.mayEop = false) :
    (DDesc.staticField count n item).Ok where
  acc := by
    intro pv c hf
    have key : ∃ xs cs, pv = .list xs ∧ xs.length = count ∧ item.fillItems (fun c => decide (c.size ≤ n)) xs = some cs ∧
        c = DComp.staticField n item.dop cs := by
      cases pv with
      | list xs =>
        simp only [DDesc.staticField] at hf
        by_cases hl : xs.length = count
        · simp only [hl, if_true] at hf
          cases hcs : item.fillItems (fun c => decide (c.size ≤ n)) xs with
          | none => rw [hcs] at hf; cases hf
          | some cs => rw [hcs] at hf; exact ⟨xs, cs, rfl, hl, hcs, by simpa using hf.symm⟩
        · simp [hl] at hf
      | _ => simp [DDesc.staticField] at hf
    obtain ⟨xs, cs, rfl, hl, hcs, rfl⟩ := key
    have hfl := item.fillItems_some hok _ xs cs hcs
    have hitems := hfl.itemOk hne
    have hlen := hfl.length
    exact {
      ok := DComp.staticField_ok n item.dop cs (fun c hc =>
        ⟨(hitems c hc).1, (hitems c hc).2.1, of_decide_eq_true (hitems c hc).2.2.2⟩)
      endOk := DComp.staticField_endOk n item.dop cs
      dop := by simp only [DComp.staticField, DDesc.staticField, hlen, hl]
      sup := by simp only [DComp.staticField, hfl.sups]
      need := by have := hfl.maxNeed; simp only [DComp.staticField, DDesc.staticField]; omega
      eop := fun h => by cases h
      size := by simp only [DComp.staticField, DDesc.staticField, hlen, hl]; exact Nat.le_refl _
      val := by
        rw [DComp.staticField_val, hfl.vals]
        rfl }
  rej := by
    intro pv hf fuel hfu s hcb _
    cases pv with
    | list xs =>
      simp only [DDesc.staticField] at hfu
      obtain ⟨f, rfl⟩ : ∃ f, fuel = f + 1 := ⟨fuel - 1, by omega⟩
      by_cases hl : xs.length = count
      · have hcs : item.fillItems (fun c => decide (c.size ≤ n)) xs = none := by
          simp only [DDesc.staticField, hl, if_true] at hf
          cases hcs : item.fillItems (fun c => decide (c.size ≤ n)) xs with
          | none => rfl
          | some cs => rw [hcs] at hf; cases hf
        obtain ⟨e, s', hrun, he⟩ := encodeStaticItems_rej item hok hne n s.isEndOfPdu xs hcs f (by omega)
          { s with isEndOfPdu := false } hcb
        refine ⟨e, s', ?_, he⟩
        simp only [DDesc.staticField]
        rw [encodeDop_static_step f count n item.dop xs s hl, hrun]
      · refine ⟨.odx, ?_, ?_, RejErr.odx _⟩
        rotate_left
        · simp only [DDesc.staticField, encodeDop, bind, run_bind, ne_eq, hl, not_false_eq_true, if_true, odxraise]
          rfl
    | atom v =>
      simp only [DDesc.staticField] at hfu
      obtain ⟨f, rfl⟩ : ∃ f, fuel = f + 1 := ⟨fuel - 1, by omega⟩
      cases v with
      | str cps => exact ⟨.unmodelled, s, by simp [DDesc.staticField, encodeDop, run_raise], Or.inr ⟨rfl, rfl⟩⟩
      | bytes b => exact ⟨.unmodelled, s, by simp [DDesc.staticField, encodeDop, run_raise], Or.inr ⟨rfl, rfl⟩⟩
      | int i => exact ⟨.odx, s, by simp [DDesc.staticField, encodeDop, bind, run_bind, odxraise], RejErr.odx _⟩
      | flt b => exact ⟨.odx, s, by simp [DDesc.staticField, encodeDop, bind, run_bind, odxraise], RejErr.odx _⟩
    | dict _ | none | pair _ _ | keyed _ _ | nokey _ | dtc _ =>
      simp only [DDesc.staticField] at hfu
      obtain ⟨f, rfl⟩ : ∃ f, fuel = f + 1 := ⟨fuel - 1, by omega⟩
      exact ⟨.odx, s, by simp [DDesc.staticField, encodeDop, bind, run_bind, odxraise], RejErr.odx _⟩

/-! ### the item loop of the dynamic fields -/

theorem encodeItems_rej (item : DDesc) (hok : item.Ok) (hne : item.mayEop = false) (eop : Bool) :
    ∀ (xs : List PVal), item.fillItems (fun _ => true) xs = none →
    ∀ (fuel : Nat), xs.length + item.needItems xs + 1 ≤ fuel → ∀ (s : EncState), s.cursorBit = 0 →
    ∃ e s', encodeItems item.dop eop fuel xs s true = .error (e, s') ∧ RejErr e (xs.all item.typed) := by
  intro xs
  induction xs with
  | nil => intro h; simp [DDesc.fillItems] at h
  | cons x rest ih =>
    intro hf fuel hfu s hcb
    simp only [List.length_cons, DDesc.needItems] at hfu
    obtain ⟨f, rfl⟩ : ∃ f, fuel = f + 1 := ⟨fuel - 1, by omega⟩
    simp only [List.all_cons]
    cases h1 : item.fill x with
    | none =>
      cases rest with
      | nil =>
        obtain ⟨e, s', hrun, he⟩ := hok.rej x h1 f (by omega) { s with isEndOfPdu := eop } hcb
          (fun h => by rw [hne] at h; cases h)
        exact ⟨e, s', encodeItems_one_err _ eop f x s true _ hrun, he.and_left _⟩
      | cons y rest2 =>
        obtain ⟨e, s', hrun, he⟩ := hok.rej x h1 f (by omega) s hcb (fun h => by rw [hne] at h; cases h)
        exact ⟨e, s', encodeItems_cons_err _ eop f x y rest2 s true _ hrun, he.and_left _⟩
    | some c =>
      have hc := hok.acc x c h1
      have h2 : item.fillItems (fun _ => true) rest = none := by
        simp only [DDesc.fillItems, h1, if_true] at hf
        cases h2 : item.fillItems (fun _ => true) rest with
        | none => rfl
        | some cs => rw [h2] at hf; cases hf
      cases rest with
      | nil => simp [DDesc.fillItems] at h2
      | cons y rest2 =>
        have hnoe : c.eopOnly = true → s.isEndOfPdu = true := by
          intro he; have := hc.eop he; rw [hne] at this; cases this
        obtain ⟨s1, hrun1, _, hcb1⟩ := hc.ok.encode_eq f (by have := hc.need; omega) s hcb hnoe
        rw [hc.dop, hc.sup] at hrun1
        -- (fix c04-field-item-consumes-nothing) an accepted item that leaves the cursor where it was: EncodeError
        by_cases hadv : s.cursorByte < s1.cursorByte
        · obtain ⟨e, s', hrun, he⟩ := ih h2 f (by simp only [List.length_cons] at hfu ⊢; omega) s1 hcb1
          refine ⟨e, s', ?_, he.and_right _⟩
          rw [encodeItems_cons_ok _ eop f x y rest2 s s1 true hrun1 hadv]
          exact hrun
        · exact ⟨.encode, s1, encodeItems_cons_stuck _ eop f x y rest2 s s1 hrun1 (by omega), RejErr.encode _⟩

/-! ### DYNAMIC-LENGTH-FIELD -/

/-- an integer object rejects a value it cannot represent — `encodeDop` level -/
theorem encodeDop_obj_bad (o : Obj) (ho : o.ok) (hint : o.isInt) (v : IVal) (hv : o.accepts v = false) (g : Nat) (s : EncState) :
    ∃ e s', encodeDop (g + 1) (.simple (.std o.bt o.enc o.hl o.bl none false) o.bt .identical) (.atom v)
        { s with cursorByte := posOf o.bytePos s.origin s.cursorByte, cursorBit := o.bitPos.getD 0 } true = .error (e, s') ∧
      EncErr e := by
  obtain ⟨e, s', hrun, he⟩ := o.rejects_of_int ho hint (some (.atom v)) (by simp)
    (fun w hw => by simp only [Option.some.injEq, PVal.atom.injEq] at hw; subst hw; exact hv) g s
  unfold Obj.toParam at hrun
  rw [encodeParam_value_step] at hrun
  cases hr : encodeDop (g + 1) (.simple (.std o.bt o.enc o.hl o.bl none false) o.bt .identical) (.atom v)
      { s with cursorByte := posOf o.bytePos s.origin s.cursorByte, cursorBit := o.bitPos.getD 0 } true with
  | ok p => rw [hr] at hrun; cases hrun
  | error q =>
    obtain ⟨e2, s2⟩ := q
    rw [hr] at hrun
    simp only [Except.error.injEq, Prod.mk.injEq] at hrun
    refine ⟨e2, s2, rfl, ?_⟩
    rw [hrun.1]
    rcases he with he | ⟨he, hf⟩
    · exact he
    · cases hf

/-- the dynamic-length-field encoder fails if the count object cannot be written -/
theorem encodeDop_dyn_cnt_fail (f : Nat) (offset cbp cbit : Nat) (cd item : Dop) (xs : List PVal) (s : EncState)
    (hcb : s.cursorBit = 0) (e : Err) (s' : EncState)
    (hcnt : encodeDop f cd (.atom (.int xs.length))
      { s with origin := s.cursorByte, cursorBit := cbit, cursorByte := s.cursorByte + cbp } true = .error (e, s')) :
    encodeDop (f + 1) (.dynLenField offset cbp cbit cd item) (.list xs) s true = .error (e, s') := by
  simp only [encodeDop, bind, run_bind, run_getS, run_modifyS, odxassert, hcb, decide_true, if_true, run_pure, hcnt]

/-- a value that is not a list, supplied for a field: `EncodeError` (`OdxError` for a static field), `unmodelled` for a
    `str` / `bytes` atom -/
def PVal.seqTyped : PVal → Bool
  | .atom (.str _) | .atom (.bytes _) => false
  | _ => true

def DDesc.dynLenField (l : DynLayout) (item : DDesc) : DDesc where
  dop := .dynLenField l.offset l.cntBp l.cnt.bp l.cntDop item.dop
  fill := fun pv => match pv with
    | .list xs =>
      if l.cntObj.accepts (.int xs.length) then (item.fillItems (fun _ => true) xs).map (DComp.dynLenField l item.dop) else none
    | _ => none
  complete := fun pv => match pv with
    | .list xs => .list (xs.map item.complete)
    | _ => .none
  typed := fun pv => match pv with
    | .list xs => xs.all item.typed
    | pv => pv.seqTyped
  need := fun pv => match pv with
    | .list xs => xs.length + item.needItems xs + 3
    | _ => 1
  minSize := l.offset

/-- **closure under DYNAMIC-LENGTH-FIELD**: the count object is an integer object that ends before OFFSET; every item
    consumes at least one byte (`minSize`: a lower bound read off the description) -/
theorem DDesc.dynLenField_ok (l : DynLayout) (item : DDesc) (hok : item.Ok) (hne : item.mayEop = false)
    (hadv : 1 ≤ item.minSize) (hc : l.cntObj.ok) (hint : l.cntObj.isInt) (hoff : l.cntBp + l.cntObj.k ≤ l.offset) :
    (DDesc.dynLenField l item).Ok where
  acc := by
    intro pv c hf
    have key : ∃ xs cs, pv = .list xs ∧ l.cntObj.accepts (.int xs.length) = true ∧ item.fillItems (fun _ => true) xs = some cs ∧
        c = DComp.dynLenField l item.dop cs := by
      cases pv with
      | list xs =>
        simp only [DDesc.dynLenField] at hf
        cases hl : l.cntObj.accepts (.int xs.length) with
        | false => rw [hl] at hf; simp at hf
        | true =>
          rw [hl] at hf
          simp only [if_true] at hf
          cases hcs : item.fillItems (fun _ => true) xs with
          | none => rw [hcs] at hf; cases hf
          | some cs => rw [hcs] at hf; exact ⟨xs, cs, rfl, hl, hcs, by simpa using hf.symm⟩
      | _ => simp [DDesc.dynLenField] at hf
    obtain ⟨xs, cs, rfl, hacc, hcs, rfl⟩ := key
    have hfl := item.fillItems_some hok _ xs cs hcs
    have hitems := hfl.itemOk hne
    have hlen := hfl.length
    have hr : l.cntObj.inRange (.int cs.length) := by rw [hlen]; exact (l.cntObj.accepts_iff hc _).mp hacc
    exact {
      ok := DComp.dynLenField_ok l item.dop cs ⟨hc, hr, hoff⟩ (fun c hc =>
        ⟨(hitems c hc).1, (hitems c hc).2.1, Nat.le_trans hadv (hitems c hc).2.2.1⟩)
      endOk := DComp.dynLenField_endOk l item.dop cs
      dop := rfl
      sup := by simp only [DComp.dynLenField, hfl.sups]
      need := by have := hfl.maxNeed; simp only [DComp.dynLenField, DDesc.dynLenField]; omega
      eop := fun h => by cases h
      size := by simp only [DComp.dynLenField, DDesc.dynLenField]; omega
      val := by
        rw [DComp.dynLenField_val, hfl.vals]
        rfl }
  rej := by
    intro pv hf fuel hfu s hcb _
    cases pv with
    | list xs =>
      simp only [DDesc.dynLenField] at hfu
      obtain ⟨g, rfl⟩ : ∃ g, fuel = g + 1 + 1 := ⟨fuel - 2, by omega⟩
      cases hl : l.cntObj.accepts (.int xs.length) with
      | false =>
        obtain ⟨e, s', hrun, he⟩ := encodeDop_obj_bad l.cntObj hc hint (.int xs.length) hl g { s with origin := s.cursorByte }
        have hrun' : encodeDop (g + 1) l.cntDop (.atom (.int xs.length))
            { s with origin := s.cursorByte, cursorBit := l.cnt.bp, cursorByte := s.cursorByte + l.cntBp } true = .error (e, s') := hrun
        refine ⟨e, s', ?_, Or.inl he⟩
        simp only [DDesc.dynLenField]
        exact encodeDop_dyn_cnt_fail (g + 1) _ _ _ _ _ xs s hcb e s' hrun'
      | true =>
        have hcs : item.fillItems (fun _ => true) xs = none := by
          simp only [DDesc.dynLenField, hl, if_true] at hf
          cases hcs : item.fillItems (fun _ => true) xs with
          | none => rfl
          | some cs => rw [hcs] at hf; cases hf
        have hr : l.cntObj.inRange (.int xs.length) := (l.cntObj.accepts_iff hc _).mp hl
        let s2 : EncState := { s with origin := s.cursorByte }
        obtain ⟨sc, hcnt, hsc⟩ := encodeDop_obj l.cntObj hc (.int xs.length) hr g s2
        let E : EncState := encStep l.cntObj (.int xs.length) s2
        have hscE : ({ sc with cursorBit := 0 } : EncState) = E := hsc
        have hsc_cur : sc.cursorByte = E.cursorByte := by have := congrArg EncState.cursorByte hscE; exact this
        have hsc_org : sc.origin = E.origin := by have := congrArg EncState.origin hscE; exact this
        have hEcur : E.cursorByte = s.cursorByte + l.cntBp + l.cntObj.k := rfl
        have hEorg : E.origin = s.cursorByte := rfl
        have hcntRun : encodeDop (g + 1) l.cntDop (.atom (.int xs.length))
            { s with origin := s.cursorByte, cursorBit := l.cnt.bp, cursorByte := s.cursorByte + l.cntBp } true = .ok ((), sc) := hcnt
        have hstep := encodeDop_dyn_step (g + 1) l.offset l.cntBp l.cnt.bp l.cntDop item.dop xs s sc hcb hcntRun
          (by rw [hsc_cur, hsc_org, hEcur, hEorg]; omega)
        obtain ⟨e, s', hrun, he⟩ := encodeItems_rej item hok hne s.isEndOfPdu xs hcs (g + 1) (by omega)
          { sc with cursorByte := sc.origin + l.offset, cursorBit := 0, isEndOfPdu := false } rfl
        rw [hrun] at hstep
        exact ⟨e, s', hstep, he⟩
    | atom v =>
      simp only [DDesc.dynLenField] at hfu
      obtain ⟨f, rfl⟩ : ∃ f, fuel = f + 1 := ⟨fuel - 1, by omega⟩
      cases v with
      | str cps =>
        exact ⟨.unmodelled, s, by simp [DDesc.dynLenField, encodeDop, bind, run_bind, run_getS, odxassert, hcb, run_pure, run_raise],
          Or.inr ⟨rfl, rfl⟩⟩
      | bytes b =>
        exact ⟨.unmodelled, s, by simp [DDesc.dynLenField, encodeDop, bind, run_bind, run_getS, odxassert, hcb, run_pure, run_raise],
          Or.inr ⟨rfl, rfl⟩⟩
      | int i =>
        exact ⟨.encode, s, by simp [DDesc.dynLenField, encodeDop, bind, run_bind, run_getS, odxassert, hcb, run_pure, odxraise],
          RejErr.encode _⟩
      | flt b =>
        exact ⟨.encode, s, by simp [DDesc.dynLenField, encodeDop, bind, run_bind, run_getS, odxassert, hcb, run_pure, odxraise],
          RejErr.encode _⟩
    | dict _ | none | pair _ _ | keyed _ _ | nokey _ | dtc _ =>
      simp only [DDesc.dynLenField] at hfu
      obtain ⟨f, rfl⟩ : ∃ f, fuel = f + 1 := ⟨fuel - 1, by omega⟩
      exact ⟨.encode, s, by simp [DDesc.dynLenField, encodeDop, bind, run_bind, run_getS, odxassert, hcb, run_pure, odxraise],
        RejErr.encode _⟩

/-! ### END-OF-PDU-FIELD -/

def DDesc.eopField (mn mx : Option Nat) (item : DDesc) : DDesc where
  dop := .eopField mn mx item.dop
  fill := fun pv => match pv with
    | .list xs => (item.fillItems (fun _ => true) xs).map (DComp.eopField mn mx item.dop)
    | _ => none
  complete := fun pv => match pv with
    | .list xs => .list (xs.map item.complete)
    | _ => .none
  typed := fun pv => match pv with
    | .list xs => xs.all item.typed
    | pv => pv.seqTyped
  need := fun pv => match pv with
    | .list xs => xs.length + item.needItems xs + 2
    | _ => 1
  mayEop := true
  minSize := 0

/-- **closure under END-OF-PDU-FIELD** -/
theorem DDesc.eopField_ok (mn mx : Option Nat) (item : DDesc) (hok : item.Ok) (hne : item.mayEop = false)
    (hadv : 1 ≤ item.minSize) : (DDesc.eopField mn mx item).Ok where
  acc := by
    intro pv c hf
    have key : ∃ xs cs, pv = .list xs ∧ item.fillItems (fun _ => true) xs = some cs ∧ c = DComp.eopField mn mx item.dop cs := by
      cases pv with
      | list xs =>
        simp only [DDesc.eopField] at hf
        cases hcs : item.fillItems (fun _ => true) xs with
        | none => rw [hcs] at hf; cases hf
        | some cs => rw [hcs] at hf; exact ⟨xs, cs, rfl, hcs, by simpa using hf.symm⟩
      | _ => simp [DDesc.eopField] at hf
    obtain ⟨xs, cs, rfl, hcs, rfl⟩ := key
    have hfl := item.fillItems_some hok _ xs cs hcs
    have hitems := hfl.itemOk hne
    have hlen := hfl.length
    exact {
      ok := DComp.eopField_ok mn mx item.dop cs (fun c hc =>
        ⟨(hitems c hc).1, (hitems c hc).2.1, Nat.le_trans hadv (hitems c hc).2.2.1⟩)
      endOk := DComp.eopField_endOk mn mx item.dop cs
      dop := rfl
      sup := by simp only [DComp.eopField, hfl.sups]
      need := by have := hfl.maxNeed; simp only [DComp.eopField, DDesc.eopField]; omega
      eop := fun _ => rfl
      size := Nat.zero_le _
      val := by
        rw [DComp.eopField_val, hfl.vals]
        rfl }
  rej := by
    intro pv hf fuel hfu s hcb heop
    have heop' : s.isEndOfPdu = true := heop rfl
    cases pv with
    | list xs =>
      simp only [DDesc.eopField] at hfu
      obtain ⟨g, rfl⟩ : ∃ g, fuel = g + 1 := ⟨fuel - 1, by omega⟩
      have hcs : item.fillItems (fun _ => true) xs = none := by
        simp only [DDesc.eopField] at hf
        cases hcs : item.fillItems (fun _ => true) xs with
        | none => rfl
        | some cs => rw [hcs] at hf; cases hf
      obtain ⟨e, s', hrun, he⟩ := encodeItems_rej item hok hne true xs hcs g (by omega) { s with isEndOfPdu := false } hcb
      refine ⟨e, s', ?_, he⟩
      simp only [DDesc.eopField]
      rw [encodeDop_eop_step g mn mx item.dop xs s hcb heop', hrun]
    | atom v =>
      simp only [DDesc.eopField] at hfu
      obtain ⟨f, rfl⟩ : ∃ f, fuel = f + 1 := ⟨fuel - 1, by omega⟩
      cases v with
      | str cps =>
        exact ⟨.unmodelled, s, by simp [DDesc.eopField, encodeDop, bind, run_bind, run_getS, odxassert, hcb, heop', run_pure, run_raise],
          Or.inr ⟨rfl, rfl⟩⟩
      | bytes b =>
        exact ⟨.unmodelled, s, by simp [DDesc.eopField, encodeDop, bind, run_bind, run_getS, odxassert, hcb, heop', run_pure, run_raise],
          Or.inr ⟨rfl, rfl⟩⟩
      | int i =>
        exact ⟨.encode, s, by simp [DDesc.eopField, encodeDop, bind, run_bind, run_getS, odxassert, hcb, heop', run_pure, odxraise],
          RejErr.encode _⟩
      | flt b =>
        exact ⟨.encode, s, by simp [DDesc.eopField, encodeDop, bind, run_bind, run_getS, odxassert, hcb, heop', run_pure, odxraise],
          RejErr.encode _⟩
    | dict _ | none | pair _ _ | keyed _ _ | nokey _ | dtc _ =>
      simp only [DDesc.eopField] at hfu
      obtain ⟨f, rfl⟩ : ∃ f, fuel = f + 1 := ⟨fuel - 1, by omega⟩
      exact ⟨.encode, s, by simp [DDesc.eopField, encodeDop, bind, run_bind, run_getS, odxassert, hcb, heop', run_pure, odxraise],
        RejErr.encode _⟩

end OdxVerif.Codec
