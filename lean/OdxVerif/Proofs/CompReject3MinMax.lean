import OdxVerif.Proofs.CompReject3
/-! Compositional tier, rejection side, third part (task W30, C04): **MIN-MAX-LENGTH-TYPE over `A_BYTEFIELD` in a position that is
    NOT the end of the PDU** (`is_end_of_pdu` cleared: any parameter of a structure but the last) as a value-free description
    `PDesc.ofMinMaxMidBytes`, and the class **`DescribedP2b`** = `DescribedP2` + structures with such leaves.

    `MinMaxLengthType.encode_into_pdu` with the flag cleared accepts exactly the `bytes` values with MIN-LENGTH ≤ length ≤ MAX-LENGTH
    that do not contain the termination byte at a position ≥ MIN-LENGTH (`MMShape.acceptsB`, the acceptance condition of the
    last-position leaf: the checks are made before the flag is looked at).  What depends on the value beyond acceptance is the
    COMPONENT: a value of exactly MAX-LENGTH bytes is written without terminator (`Comp.ofMinMaxFull`), every other accepted value
    with it (`Comp.ofMinMaxMid`) — both are components from states with the flag cleared.
    Shape conditions (`MMShape.okMid`): TERMINATION is ZERO or HEX-FF (END-OF-PDU with the flag cleared is an `odxassert`
    failure for every value: nothing is accepted) and MIN-LENGTH ≥ 1 (`MMLeaf.okMid` wants a non-empty payload: the empty value
    of a MIN-LENGTH-0 type is accepted by the encoder but is not in the round-trip class of `Described2`).  Core Lean only. -/
namespace OdxVerif.Codec
open OdxVerif.Bits OdxVerif.OdxM

def MMShape.okMid (sh : MMShape) : Prop := sh.ok ∧ sh.term ≠ .eop ∧ 1 ≤ sh.minLen

instance (sh : MMShape) : Decidable sh.okMid := by unfold MMShape.okMid MMShape.ok; exact inferInstance

/-- the explicit acceptance predicate of a terminated MIN-MAX-LENGTH leaf: bytes < 256, MIN-LENGTH ≤ length ≤ MAX-LENGTH, no
    termination byte at a position ≥ MIN-LENGTH -/
def MMShape.acceptsMid (sh : MMShape) (b : Bytes) : Bool := b.all (fun x => decide (x < 256)) && sh.acceptsB b

/-- the component of an accepted value: without terminator iff the value has exactly MAX-LENGTH bytes -/
def MMShape.midComp (sh : MMShape) (b : Bytes) : Comp :=
  if some b.length = sh.maxLen then Comp.ofMinMaxFull (sh.leaf b) else Comp.ofMinMaxMid (sh.leaf b)

def PDesc.ofMinMaxMidBytes (sh : MMShape) : PDesc where
  param := (sh.leaf []).toParam
  fill := fun pv => match pv with
    | some (.atom (.bytes b)) => if sh.acceptsMid b then some (sh.midComp b) else none
    | _ => none
  complete := fun pv => pv.getD .none
  typed := fun _ => true
  need := fun _ => 2
  mayEop := false
  minAdv := sh.minLen

theorem MMShape.tseq_length_one (sh : MMShape) (h : sh.term ≠ .eop) (b : Bytes) : (sh.leaf b).tseq.length = 1 := by
  cases ht : sh.term with
  | eop => exact absurd ht h
  | zero => simp [MMLeaf.tseq, MMShape.leaf, termSeq, ht]
  | hexff => simp [MMLeaf.tseq, MMShape.leaf, termSeq, ht]

theorem MMShape.leaf_okMid (sh : MMShape) (h : sh.okMid) (b : Bytes) (hacc : sh.acceptsMid b = true)
    (hne : some b.length ≠ sh.maxLen) : (sh.leaf b).okMid := by
  simp only [MMShape.acceptsMid, Bool.and_eq_true] at hacc
  have hb := sh.leaf_ok h.1 b hacc.1 hacc.2
  have ht := sh.tseq_length_one h.2.1 b
  have hmin : sh.minLen ≤ b.length := hb.2.1
  refine ⟨hb, h.2.1, ?_, ?_, ?_⟩
  · intro hnil
    have : b = [] := hnil
    subst this
    have := h.2.2
    simp at hmin
    omega
  · rw [ht]; exact Nat.mod_one _
  · intro mx hmx
    have hmx' : sh.maxLen = some mx := hmx
    have h1 : b.length ≤ mx := hb.2.2.1 mx hmx
    have h2 : b.length ≠ mx := by
      intro he; apply hne; rw [hmx', he]
    rw [ht]
    show b.length + 1 ≤ mx
    omega

theorem MMShape.leaf_okFull (sh : MMShape) (h : sh.okMid) (b : Bytes) (hacc : sh.acceptsMid b = true)
    (he : some b.length = sh.maxLen) : (sh.leaf b).okFull := by
  simp only [MMShape.acceptsMid, Bool.and_eq_true] at hacc
  exact ⟨sh.leaf_ok h.1 b hacc.1 hacc.2, h.2.1, he.symm⟩

/-- **the closure lemma of the terminated leaf** -/
theorem PDesc.ofMinMaxMidBytes_okWM (sh : MMShape) (hsh : sh.okMid) : (PDesc.ofMinMaxMidBytes sh).OkWM true where
  notKey := rfl
  acc := by
    intro pv g _ hf
    have key : ∃ b, pv = some (.atom (.bytes b)) ∧ sh.acceptsMid b = true ∧ g = sh.midComp b := by
      cases pv with
      | none => simp [PDesc.ofMinMaxMidBytes] at hf
      | some x =>
        cases x with
        | atom v =>
          cases v with
          | bytes b =>
            simp only [PDesc.ofMinMaxMidBytes] at hf
            by_cases hc : sh.acceptsMid b = true
            · rw [if_pos hc] at hf
              exact ⟨b, rfl, hc, (Option.some.inj hf).symm⟩
            · rw [if_neg hc] at hf; cases hf
          | _ => simp [PDesc.ofMinMaxMidBytes] at hf
        | _ => simp [PDesc.ofMinMaxMidBytes] at hf
    obtain ⟨b, rfl, hacc, rfl⟩ := key
    have hmin : sh.minLen ≤ b.length := by
      simp only [MMShape.acceptsMid, Bool.and_eq_true] at hacc
      exact (sh.leaf_ok hsh.1 b hacc.1 hacc.2).2.1
    by_cases he : some b.length = sh.maxLen
    · have hl := sh.leaf_okFull hsh b hacc he
      simp only [MMShape.midComp, if_pos he]
      exact {
        ok := fun P => (Comp.ofMinMaxFull_ok _ hl).toM true P
        endOk := Comp.ofMinMaxFull_endOk _
        param := rfl
        sup := rfl
        need := Nat.le_refl _
        eop := fun h => by cases h
        adv := fun org c => by
          show sh.minLen ≤ posOf sh.bytePos org c + b.length
          omega
        val := rfl }
    · have hl := sh.leaf_okMid hsh b hacc he
      simp only [MMShape.midComp, if_neg he]
      exact {
        ok := fun P => Comp.ofMinMaxMid_ok _ hl P
        endOk := Comp.ofMinMaxMid_endOk _
        param := rfl
        sup := rfl
        need := Nat.le_refl _
        eop := fun h => by cases h
        adv := fun org c => by
          show sh.minLen ≤ posOf sh.bytePos org c + b.length + (sh.leaf b).tseq.length
          omega
        val := rfl }
  rej := by
    intro pv hne hwf hf fuel hfu s _ _
    obtain ⟨f, rfl⟩ : ∃ f, fuel = f + 2 := ⟨fuel - 2, by simp only [PDesc.ofMinMaxMidBytes] at hfu; omega⟩
    cases pv with
    | none =>
      refine ⟨.encode, ?_, ?_, RejErr.encode _⟩
      rotate_left
      · simp [PDesc.ofMinMaxMidBytes, MMShape.leaf, MMLeaf.toParam, encodeParam, bind, run_bind, run_modifyS, odxraise]
        rfl
    | some x =>
      cases x with
      | none => exact absurd rfl hne
      | atom v =>
        cases v with
        | bytes b =>
          have hall : b.all (fun x => decide (x < 256)) = true := hwf
          have hacc : sh.acceptsB b = false := by
            cases h : sh.acceptsB b with
            | false => rfl
            | true =>
              simp only [PDesc.ofMinMaxMidBytes, MMShape.acceptsMid, hall, h, Bool.and_self, if_true] at hf
              cases hf
          obtain ⟨s', hrun⟩ := encodeParam_minmaxBytes_rej sh b hacc f s
          exact ⟨.encode, s', hrun, RejErr.encode _⟩
        | int i =>
          refine ⟨.encode, ?_, ?_, RejErr.encode _⟩
          rotate_left
          · simp [PDesc.ofMinMaxMidBytes, MMShape.leaf, MMLeaf.toParam, encodeParam, encodeDop, typeAdmits, bind, run_bind,
              run_modifyS, run_raise]
            rfl
        | str cps =>
          refine ⟨.encode, ?_, ?_, RejErr.encode _⟩
          rotate_left
          · simp [PDesc.ofMinMaxMidBytes, MMShape.leaf, MMLeaf.toParam, encodeParam, encodeDop, typeAdmits, bind, run_bind,
              run_modifyS, run_raise]
            rfl
        | flt x =>
          refine ⟨.encode, ?_, ?_, RejErr.encode _⟩
          rotate_left
          · simp [PDesc.ofMinMaxMidBytes, MMShape.leaf, MMLeaf.toParam, encodeParam, encodeDop, typeAdmits, bind, run_bind,
              run_modifyS, run_raise]
            rfl
      | list _ | dict _ | pair _ _ | keyed _ _ | nokey _ | dtc _ =>
        refine ⟨.encode, ?_, ?_, RejErr.encode _⟩
        rotate_left
        · simp [PDesc.ofMinMaxMidBytes, MMShape.leaf, MMLeaf.toParam, encodeParam, encodeDop, bind, run_bind, run_modifyS, run_raise]
          rfl

/-- the terminated leaf as a flagged description -/
def MDesc.ofMinMaxMid (sh : MMShape) : MDesc := { p := PDesc.ofMinMaxMidBytes sh, mid := true }
/-- an ordinary description -/
def MDesc.plain (p : PDesc) : MDesc := { p := p, mid := false }

/-- **`DescribedP2b`**: `DescribedP2`, and structures whose parameters are such descriptions or terminated MIN-MAX-LENGTH
    leaves (none of the latter in last position) -/
inductive DescribedP2b : PDesc → Prop
  | base (p : PDesc) : DescribedP2 p → DescribedP2b p
  | structM (name : String) (bp : Option Nat) (ms : List MDesc) :
      (∀ m ∈ ms, m.mid = false → DescribedP2b m.p) →
      (∀ m ∈ ms, m.mid = true → ∃ sh : MMShape, sh.okMid ∧ m.p = PDesc.ofMinMaxMidBytes sh) →
      PDescs.namesOk (MDescs.ps ms) → PDescs.eopLast (MDescs.ps ms) → MDescs.lastMid ms = false →
      DescribedP2b (PDesc.ofValue name bp (DDesc.struct (MDescs.ps ms)))

theorem MDescs.okWM_of (ms : List MDesc) (hp : ∀ m ∈ ms, m.mid = false → m.p.OkW)
    (hm : ∀ m ∈ ms, m.mid = true → ∃ sh : MMShape, sh.okMid ∧ m.p = PDesc.ofMinMaxMidBytes sh) : ∀ m ∈ ms, m.p.OkWM m.mid := by
  intro m hmem
  cases hmid : m.mid with
  | false => exact (hp m hmem hmid).toM false
  | true =>
    obtain ⟨sh, hsh, hpe⟩ := hm m hmem hmid
    rw [hpe]
    exact PDesc.ofMinMaxMidBytes_okWM sh hsh

/-- **soundness of `DescribedP2b`** -/
theorem DescribedP2b.okW {p : PDesc} (h : DescribedP2b p) : p.OkW := by
  induction h with
  | base p hp => exact hp.okW
  | structM name bp ms _ hm hn hl hmid ih =>
    exact PDesc.ofValue_okW name bp _ (DDesc.structM_okW ms (MDescs.okWM_of ms ih hm) hn hl hmid)

/-- the message level: the request's parameters are `DescribedP2b` descriptions or terminated leaves (not last) -/
theorem encodeMessage_nested2b_cases (ms : List MDesc) (hd : ∀ m ∈ ms, m.mid = false → DescribedP2b m.p)
    (hm : ∀ m ∈ ms, m.mid = true → ∃ sh : MMShape, sh.okMid ∧ m.p = PDesc.ofMinMaxMidBytes sh)
    (hn : PDescs.namesOk (MDescs.ps ms)) (hl : PDescs.eopLast (MDescs.ps ms)) (hmid : MDescs.lastMid ms = false)
    (pv : PVal) (hwf : pv.wfAtoms = true) (trig : Option Bytes) (hneed : (DDesc.struct (MDescs.ps ms)).need pv ≤ modelFuel) :
    ((DDesc.struct (MDescs.ps ms)).fill pv = none ∧
      ∃ e, encodeMessage none (PDescs.toParams (MDescs.ps ms)) pv trig true = .error e ∧
        RejErr e ((DDesc.struct (MDescs.ps ms)).typed pv)) ∨
    (∃ c, (DDesc.struct (MDescs.ps ms)).fill pv = some c ∧ c.Fills (DDesc.struct (MDescs.ps ms)) pv ∧
      ∃ pdu w, encodeMessage none (PDescs.toParams (MDescs.ps ms)) pv trig true = .ok (pdu, w) ∧
        (w = 0 → (c.eopOnly = true → c.size = pdu.length) →
          ∃ cursor, decodeMessage none (PDescs.toParams (MDescs.ps ms)) pdu true =
            .ok ((DDesc.struct (MDescs.ps ms)).complete pv, cursor))) :=
  encodeMessage_structW_cases (MDescs.ps ms)
    (DDesc.structM_okW ms (MDescs.okWM_of ms (fun m hmem h => (hd m hmem h).okW) hm) hn hl hmid) pv hwf trig hneed

end OdxVerif.Codec
