import OdxVerif.Proofs.DynLeafItems
import OdxVerif.Proofs.DynLeafEop
/-! The message-level argument of `Proofs/FieldTier.lean` (`gitems_roundtrip_msg`) once more, for top-level parameters
    some of which can only be encoded with `is_end_of_pdu` *cleared* (`MItem.mid`: a MIN-MAX-LENGTH-TYPE object whose
    termination sequence is written) and therefore must not be the last parameter. `GItem.Ok.encode_eq` asks for the
    refinement from *every* encoder state, which is false for such a parameter (with the flag set the model — like
    odxtools — omits the terminator); `MItem.Ok.encode_eq` asks for it from states with the flag cleared, and the
    list-level lemma supplies that by `encodeParam_keeps_eop_false`. Everything else is as in `FieldTier.lean`. -/
namespace OdxVerif.Codec
open OdxVerif.Bits OdxVerif.OdxM

/-- a top-level parameter; `mid`: can only be encoded with `is_end_of_pdu` cleared — not as the last parameter -/
structure MItem where
  g : GItem
  mid : Bool := false

/-- `GItem.Ok` with the encoder refinement restricted to the states the parameter can be encoded from -/
structure MItem.Ok (m : MItem) : Prop where
  good : Good m.g.pair
  kind : (∃ bp bitp dop, m.g.param = .mk m.g.name bp bitp (.value dop none)) ∨
         (∃ bp bitp dct v, m.g.param = .mk m.g.name bp bitp (.codedConst dct v))
  val_ne_none : m.g.pair.val ≠ PVal.none
  encode_eq : ∀ (fuel : Nat), m.g.need ≤ fuel → ∀ (s : EncState), (m.g.eopOnly = true → s.isEndOfPdu = true) →
    (m.mid = true → s.isEndOfPdu = false) →
    ∃ s', encodeParam fuel m.g.param (some m.g.pair.val) s true = .ok ((), s') ∧ SameCore s' (m.g.pair.enc s)
  dec_cursorBit : ∀ (d : DecState), d.cursorBit = 0 → (m.g.pair.dec d).2.cursorBit = 0
  dec_msg : ∀ (d : DecState), (m.g.pair.dec d).2.msg = d.msg
  decode_eq : ∀ (fuel : Nat), m.g.need ≤ fuel → ∀ (d : DecState), d.cursorBit = 0 → m.g.pair.fits d → m.g.decPre d →
    decodeParam fuel m.g.param d true = .ok ((m.g.pair.dec d).1, (m.g.pair.dec d).2)
  decPre_of_end : ∀ (d : DecState), (m.g.pair.dec d).2.cursorByte = d.msg.length → m.g.decPre d
  decPre_trivial : m.g.eopOnly = false → ∀ (d : DecState), m.g.decPre d

/-- every `GItem.Ok` parameter (the field tier, END-OF-PDU-FIELDs) is one -/
theorem MItem.ofG (g : GItem) (h : g.Ok) : (MItem.mk g false).Ok :=
  { good := h.good, kind := h.kind, val_ne_none := h.val_ne_none,
    encode_eq := fun fuel hf s he _ => h.encode_eq fuel hf s he,
    dec_cursorBit := h.dec_cursorBit, dec_msg := h.dec_msg, decode_eq := h.decode_eq,
    decPre_of_end := h.decPre_of_end, decPre_trivial := h.decPre_trivial }

theorem MItem.Ok.param_name {m : MItem} (h : m.Ok) : m.g.param.name = m.g.name := by
  rcases h.kind with ⟨_, _, _, hp⟩ | ⟨_, _, _, _, hp⟩ <;> rw [hp] <;> rfl

def MItems.gs (ms : List MItem) : List GItem := ms.map MItem.g

theorem MItems.gs_nil : MItems.gs [] = [] := rfl
theorem MItems.gs_cons (m : MItem) (ms : List MItem) : MItems.gs (m :: ms) = m.g :: MItems.gs ms := rfl

def MItems.okAll : List MItem → Prop
  | [] => True
  | m :: ms => m.Ok ∧ MItems.okAll ms

/-- parameters that need `is_end_of_pdu` cleared do not occur in the last place -/
def MItems.midNotLast : List MItem → Prop
  | [] => True
  | [m] => m.mid = false
  | _ :: m2 :: rest => MItems.midNotLast (m2 :: rest)

theorem MItems.good : (ms : List MItem) → MItems.okAll ms → Good (GItems.pair (MItems.gs ms))
  | [], _ => Good.nil _
  | _ :: ms, h => (h.1.good.seq (MItems.good ms h.2)).map _

theorem MItems.lookupV_pair_val (ms : List MItem) (hok : MItems.okAll ms) (h : GItems.namesOk (MItems.gs ms)) (g : GItem)
    (hg : g ∈ MItems.gs ms) : lookupV g.name (GItems.pair (MItems.gs ms)).val = some g.pair.val := by
  have hne : g.pair.val ≠ PVal.none := by
    induction ms with
    | nil => cases hg
    | cons u us ih =>
      simp only [MItems.gs_cons] at hg
      cases hg with
      | head => exact hok.1.val_ne_none
      | tail _ hmem => exact ih hok.2 h.2 hmem
  have hl : lookup g.name (GItems.pair (MItems.gs ms)).val = some g.pair.val := by
    induction ms with
    | nil => cases hg
    | cons u us ih =>
      simp only [MItems.gs_cons] at hg h ⊢
      simp only [GItems.namesOk] at h
      rw [GItems.pair_val_cons]
      cases hg with
      | head => simp [lookup]
      | tail _ hmem =>
        have hne : g.name ≠ u.g.name := h.1 g hmem
        simp only [lookup, hne, if_false]
        exact ih hok.2 h.2 hmem
  unfold lookupV
  rw [hl]
  cases hv : g.pair.val <;> simp_all

theorem MItems.known_pair_val (ms : List MItem) (hok : MItems.okAll ms) :
    (GItems.pair (MItems.gs ms)).val.any (fun kv => !((GItems.toParams (MItems.gs ms)).any fun p => p.name == kv.1)) = false := by
  have key : ∀ (all : List Param) (us : List GItem), (∀ u ∈ us, all.any (fun p => p.name == u.name) = true) →
      (GItems.pair us).val.any (fun kv => !(all.any fun p => p.name == kv.1)) = false := by
    intro all us
    induction us with
    | nil => intro _; rfl
    | cons u us ih =>
      intro h
      rw [GItems.pair_val_cons]
      simp only [List.any_cons, h u (List.mem_cons_self ..), Bool.not_true, Bool.false_or]
      exact ih (fun x hx => h x (List.mem_cons_of_mem _ hx))
  apply key
  intro u hu
  induction ms with
  | nil => cases hu
  | cons t ts ih =>
    simp only [MItems.gs_cons] at hu
    simp only [MItems.gs_cons, GItems.toParams, List.map_cons, List.any_cons]
    cases hu with
    | head => simp [hok.1.param_name]
    | tail _ hm =>
      have := ih hok.2 hm
      simp only [GItems.toParams] at this
      simp [this]

theorem encodeKeyValues_mitems (ms : List MItem) (hok : MItems.okAll ms) (extra : Nat) (s : EncState) (st : Bool) :
    encodeKeyValues (ms.length + 1 + extra) (GItems.toParams (MItems.gs ms)) s st = .ok ((), s) := by
  induction ms with
  | nil =>
    have : 0 + 1 + extra = extra + 1 := by omega
    simp only [List.length_nil, MItems.gs_nil, GItems.toParams, List.map_nil, this, encodeKeyValues]
    simp [pure, run_pure]
  | cons g rest ih =>
    have : (g :: rest).length + 1 + extra = (rest.length + 1 + extra) + 1 := by simp; omega
    rw [this]
    simp only [MItems.gs_cons, GItems.toParams, List.map_cons]
    rcases hok.1.kind with ⟨bp, bitp, dop, htp⟩ | ⟨bp, bitp, dct, v, htp⟩ <;>
    · rw [htp]; simp only [encodeKeyValues]; exact ih hok.2

theorem MItems.eopLast_tail (m : MItem) (ms : List MItem) (h : GItems.eopLast (MItems.gs (m :: ms))) :
    GItems.eopLast (MItems.gs ms) := GItems.eopLast_tail m.g (MItems.gs ms) h

theorem MItems.midNotLast_tail (m : MItem) (ms : List MItem) (h : MItems.midNotLast (m :: ms)) : MItems.midNotLast ms := by
  cases ms with
  | nil => trivial
  | cons m2 rest => exact h

/-- the first encoding loop = the pure encoder; all but the last parameter are encoded with `is_end_of_pdu` cleared -/
theorem MItems.encode_eq : (ms : List MItem) → MItems.okAll ms → GItems.eopLast (MItems.gs ms) → MItems.midNotLast ms →
    ∀ (values : List (String × PVal)), (∀ g ∈ MItems.gs ms, lookupV g.name values = some g.pair.val) →
    ∀ (fuel : Nat), GItems.need (MItems.gs ms) ≤ fuel → ∀ (s : EncState), (ms ≠ [] → s.isEndOfPdu = false) →
    ∃ s', encodeParams true values fuel (GItems.toParams (MItems.gs ms)) s true = .ok ((), s') ∧
      SameCore s' ((GItems.pair (MItems.gs ms)).enc s)
  | [], _, _, _, values, _, fuel, hf, s, _ => by
    simp only [MItems.gs_nil, GItems.need] at hf
    obtain ⟨f, rfl⟩ : ∃ f, fuel = f + 1 := ⟨fuel - 1, by omega⟩
    exact ⟨s, by simp [MItems.gs_nil, GItems.toParams, encodeParams, pure, run_pure], SameCore.refl _⟩
  | m :: ms, hok, hlast, hmid, values, hlook, fuel, hf, s, hs => by
    simp only [MItems.okAll] at hok
    simp only [MItems.gs_cons, GItems.need] at hf
    obtain ⟨f, rfl⟩ : ∃ f, fuel = f + 1 := ⟨fuel - 1, by omega⟩
    have hs0 : s.isEndOfPdu = false := hs (by simp)
    have hl := hlook m.g (by rw [MItems.gs_cons]; exact List.mem_cons_self ..)
    have hsmEop : m.g.eopOnly = true → (if ms.isEmpty then { s with isEndOfPdu := true } else s).isEndOfPdu = true := by
      intro he
      cases ms with
      | nil => rfl
      | cons m2 rest =>
        have : m.g.eopOnly = false := hlast.1
        rw [this] at he; cases he
    have hsmMid : m.mid = true → (if ms.isEmpty then { s with isEndOfPdu := true } else s).isEndOfPdu = false := by
      intro hm
      cases ms with
      | nil =>
        have : m.mid = false := hmid
        rw [this] at hm; cases hm
      | cons m2 rest => exact hs0
    let eop := true
    let sm : EncState := if ms.isEmpty then { s with isEndOfPdu := eop } else s
    have hsm : SameCore sm s := by
      show SameCore (if ms.isEmpty then { s with isEndOfPdu := eop } else s) s
      split
      · exact ⟨rfl, rfl, rfl, rfl, rfl⟩
      · exact SameCore.refl s
    obtain ⟨s1, hstep, hc1⟩ := hok.1.encode_eq f (by omega) sm hsmEop hsmMid
    have hs1 : ms ≠ [] → s1.isEndOfPdu = false := by
      intro hne
      have hsm' : sm = s := by
        show (if ms.isEmpty then { s with isEndOfPdu := eop } else s) = s
        cases ms with
        | nil => exact absurd rfl hne
        | cons _ _ => rfl
      rw [hsm'] at hstep
      exact encodeParam_keeps_eop_false f _ _ s true s1 hstep hs0
    obtain ⟨s2, hrest, hc2⟩ := MItems.encode_eq ms hok.2 (MItems.eopLast_tail m ms hlast) (MItems.midNotLast_tail m ms hmid) values
      (fun u hu => hlook u (by rw [MItems.gs_cons]; exact List.mem_cons_of_mem _ hu)) f (by omega) s1 hs1
    have hgt := hok.1.good
    have hgts := MItems.good ms hok.2
    refine ⟨s2, ?_, ?_⟩
    · have hemp : (List.map GItem.param (MItems.gs ms)).isEmpty = ms.isEmpty := by cases ms <;> rfl
      have hstep' : encodeParam f m.g.param (some m.g.pair.val) (if ms.isEmpty then { s with isEndOfPdu := eop } else s) true
          = .ok ((), s1) := hstep
      simp only [MItems.gs_cons, GItems.toParams, List.map_cons]
      rcases hok.1.kind with ⟨bp, bitp, dop, htp⟩ | ⟨bp, bitp, dct, v, htp⟩
      · rw [htp, encodeParams_cons_value eop values f m.g.name bp bitp dop none _ s _ hl, ← htp, hemp, hstep']
        exact hrest
      · rw [htp, encodeParams_cons_const eop values f m.g.name bp bitp dct v _ s, ← htp, hemp, hl, hstep']
        exact hrest
    · simp only [MItems.gs_cons, GItems.pair, Pair.map, Pair.seq]
      exact hc2.trans (hgts.core _ _ (hc1.trans (hgt.core _ _ hsm)))

theorem MItems.dec_cursorBit : (ms : List MItem) → MItems.okAll ms → ∀ (d : DecState), d.cursorBit = 0 →
    ((GItems.pair (MItems.gs ms)).dec d).2.cursorBit = 0
  | [], _, _, h => h
  | m :: ms, hok, d, h => by
    simp only [MItems.gs_cons, GItems.pair, Pair.map, Pair.seq]
    exact MItems.dec_cursorBit ms hok.2 _ (hok.1.dec_cursorBit d h)

theorem MItems.decode_eq : (ms : List MItem) → MItems.okAll ms → ∀ (fuel : Nat), GItems.need (MItems.gs ms) ≤ fuel →
    ∀ (d : DecState), d.cursorBit = 0 → (GItems.pair (MItems.gs ms)).fits d → GItems.decPre (MItems.gs ms) d →
    decodeParams fuel (GItems.toParams (MItems.gs ms)) d true =
      .ok (((GItems.pair (MItems.gs ms)).dec d).1, ((GItems.pair (MItems.gs ms)).dec d).2)
  | [], _, fuel, hf, d, _, _, _ => by
    simp only [MItems.gs_nil, GItems.need] at hf
    obtain ⟨f, rfl⟩ : ∃ f, fuel = f + 1 := ⟨fuel - 1, by omega⟩
    simp [MItems.gs_nil, GItems.toParams, decodeParams, pure, run_pure, GItems.pair, Pair.nil]
  | m :: ms, hok, fuel, hf, d, hcb, hfit, hpre => by
    simp only [MItems.okAll] at hok
    simp only [MItems.gs_cons, GItems.need] at hf
    obtain ⟨f, rfl⟩ : ∃ f, fuel = f + 1 := ⟨fuel - 1, by omega⟩
    have hfit' : m.g.pair.fits d ∧ (GItems.pair (MItems.gs ms)).fits (m.g.pair.dec d).2 := hfit
    have hpre' : m.g.decPre d ∧ GItems.decPre (MItems.gs ms) (m.g.pair.dec d).2 := hpre
    have h1 := hok.1.decode_eq f (by omega) d hcb hfit'.1 hpre'.1
    have h2 := MItems.decode_eq ms hok.2 f (by omega) (m.g.pair.dec d).2 (hok.1.dec_cursorBit d hcb) hfit'.2 hpre'.2
    have h2' : decodeParams f (List.map GItem.param (MItems.gs ms)) (m.g.pair.dec d).2 true = _ := h2
    simp only [MItems.gs_cons, GItems.toParams, List.map_cons, decodeParams, bind, run_bind, h1, h2', pure, run_pure,
      hok.1.param_name]
    rfl

theorem MItems.decPre_intro : (ms : List MItem) → MItems.okAll ms → GItems.eopLast (MItems.gs ms) → ∀ (d : DecState),
    ((∃ g ∈ MItems.gs ms, g.eopOnly = true) → ((GItems.pair (MItems.gs ms)).dec d).2.cursorByte = d.msg.length) →
    GItems.decPre (MItems.gs ms) d
  | [], _, _, _, _ => trivial
  | [m], hok, _, d, h => by
    refine ⟨?_, trivial⟩
    cases he : m.g.eopOnly with
    | false => exact hok.1.decPre_trivial he d
    | true => exact hok.1.decPre_of_end d (h ⟨m.g, List.mem_cons_self .., he⟩)
  | m :: m2 :: rest, hok, hlast, d, h => by
    refine ⟨hok.1.decPre_trivial hlast.1 d, ?_⟩
    apply MItems.decPre_intro (m2 :: rest) hok.2 hlast.2 (m.g.pair.dec d).2
    intro ⟨u, hu, he⟩
    have := h ⟨u, List.mem_cons_of_mem _ hu, he⟩
    rw [hok.1.dec_msg d]
    exact this

theorem MItems.need_ge (ms : List MItem) : ms.length + 1 ≤ GItems.need (MItems.gs ms) := by
  have := GItems.need_ge (MItems.gs ms)
  simp only [MItems.gs, List.length_map] at this
  exact this

/-- `Request.encode` = the pure encoder from the empty message -/
theorem encodeMessage_mitems (ms : List MItem) (hneed : GItems.need (MItems.gs ms) + 2 ≤ modelFuel) (hok : MItems.okAll ms)
    (hlast : GItems.eopLast (MItems.gs ms)) (hmid : MItems.midNotLast ms) (hn : GItems.namesOk (MItems.gs ms))
    (trig : Option Bytes) :
    ∃ s0 : EncState, s0.msg = [] ∧ s0.used = [] ∧ s0.warn = 0 ∧ s0.cursorByte = 0 ∧ s0.origin = 0 ∧
      encodeMessage none (GItems.toParams (MItems.gs ms)) (.dict (GItems.pair (MItems.gs ms)).val) trig true =
        .ok (((GItems.pair (MItems.gs ms)).enc s0).msg, ((GItems.pair (MItems.gs ms)).enc s0).warn) := by
  let s0 : EncState := { trig := trig, isEndOfPdu := false }
  refine ⟨s0, rfl, rfl, rfl, rfl, rfl, ?_⟩
  obtain ⟨f, hf⟩ : ∃ f, modelFuel = f + 1 + 1 := ⟨modelFuel - 2, by unfold modelFuel; omega⟩
  have hf' : GItems.need (MItems.gs ms) ≤ f := by omega
  obtain ⟨sp, hrun, hcore⟩ := MItems.encode_eq ms hok hlast hmid (GItems.pair (MItems.gs ms)).val
    (fun g hg => MItems.lookupV_pair_val ms hok hn g hg) f hf' s0 (fun _ => rfl)
  obtain ⟨e, rfl⟩ : ∃ e, f = ms.length + 1 + e := ⟨f - (ms.length + 1), by have := MItems.need_ge ms; omega⟩
  have hkeys := encodeKeyValues_mitems ms hok e { sp with isEndOfPdu := false } true
  have hrun' : encodeParams true (GItems.pair (MItems.gs ms)).val (ms.length + 1 + e) (GItems.toParams (MItems.gs ms))
      { trig := trig, isEndOfPdu := false } true = .ok ((), sp) := hrun
  unfold encodeMessage
  rw [hf]
  simp only [encodeDop, encodeComposite, bind, pure, run_bind, run_getS, run_modifyS, run_pure, run_ite,
    MItems.known_pair_val ms hok, Bool.false_eq_true, if_false, ne_eq, not_true_eq_false]
  rw [hrun']
  simp only []
  rw [hkeys]
  simp only [hcore.1, hcore.2.2.1]

theorem decodeMessage_mitems (ms : List MItem) (hneed : GItems.need (MItems.gs ms) + 2 ≤ modelFuel) (hok : MItems.okAll ms)
    (msg : Bytes) (hfit : (GItems.pair (MItems.gs ms)).fits { msg := msg }) (hpre : GItems.decPre (MItems.gs ms) { msg := msg }) :
    decodeMessage none (GItems.toParams (MItems.gs ms)) msg true =
      .ok (.dict ((GItems.pair (MItems.gs ms)).dec { msg := msg }).1, ((GItems.pair (MItems.gs ms)).dec { msg := msg }).2.cursorByte) := by
  obtain ⟨f, hf⟩ : ∃ f, modelFuel = f + 1 + 1 := ⟨modelFuel - 2, by unfold modelFuel; omega⟩
  have hf' : GItems.need (MItems.gs ms) ≤ f := by omega
  have hdec := MItems.decode_eq ms hok f hf' { msg := msg } rfl hfit hpre
  have hdec' : decodeParams f (GItems.toParams (MItems.gs ms)) { msg := msg, origin := 0, cursorByte := 0 } true = _ := hdec
  unfold decodeMessage
  rw [hf]
  simp only [decodeDop, decodeComposite, bind, pure, run_bind, run_getS, run_modifyS, run_pure]
  rw [hdec']

/-- **the round trip at the API level of the model, for any list of `MItem.Ok` parameters**: parameters that need the end
    of the PDU only in the last place (and then the position behind it is the end of the PDU), parameters that need
    `is_end_of_pdu` cleared not in the last place -/
theorem mitems_roundtrip_msg (ms : List MItem) (hneed : GItems.need (MItems.gs ms) + 2 ≤ modelFuel) (hok : MItems.okAll ms)
    (hlast : GItems.eopLast (MItems.gs ms)) (hmid : MItems.midNotLast ms) (hn : GItems.namesOk (MItems.gs ms))
    (trig : Option Bytes) (pdu : Bytes)
    (hend : (∃ g ∈ MItems.gs ms, g.eopOnly = true) → ((GItems.pair (MItems.gs ms)).enc {}).cursorByte = pdu.length)
    (henc : encodeMessage none (GItems.toParams (MItems.gs ms)) (.dict (GItems.pair (MItems.gs ms)).val) trig true = .ok (pdu, 0)) :
    ∃ cursor, decodeMessage none (GItems.toParams (MItems.gs ms)) pdu true = .ok (.dict (GItems.pair (MItems.gs ms)).val, cursor) := by
  obtain ⟨s0, hm, hu, hw, hc, ho, hrun⟩ := encodeMessage_mitems ms hneed hok hlast hmid hn trig
  rw [hrun] at henc
  simp only [Except.ok.injEq, Prod.mk.injEq] at henc
  obtain ⟨hpdu, hwarn⟩ := henc
  have hg := MItems.good ms hok
  have hall : AllBytes s0.msg := by rw [hm]; intro b hb; cases hb
  obtain ⟨hv, hcur, _, _, hfit⟩ := hg.rt s0 { msg := pdu } hall (by rw [hwarn, hw]) (by simp [ho]) (by simp [hc])
    (by rw [← hpdu]; exact hg.allBytes s0 hall) (by rw [hpdu]; exact Nat.le_refl _) (by intro a _; rw [hpdu])
  have hcore0 : SameCore s0 {} := ⟨hm, hu, hw, hc, ho⟩
  have hpre : GItems.decPre (MItems.gs ms) { msg := pdu } := by
    apply MItems.decPre_intro ms hok hlast
    intro hex
    rw [hcur, (hg.core _ _ hcore0).2.2.2.1]
    exact hend hex
  refine ⟨((GItems.pair (MItems.gs ms)).dec { msg := pdu }).2.cursorByte, ?_⟩
  rw [decodeMessage_mitems ms hneed hok pdu hfit hpre, hv]


/-! ### the MIN-MAX-LENGTH-TYPE parameters as items -/

/-- terminator written: only with `is_end_of_pdu` cleared -/
def MMLeaf.toMid (l : MMLeaf) : MItem :=
  { g := { name := l.name, param := l.toParam, pair := l.pairMid, need := 2 }, mid := true }

/-- value of exactly MAX-LENGTH bytes: anywhere -/
def MMLeaf.gFull (l : MMLeaf) : GItem := { name := l.name, param := l.toParam, pair := l.pairEnd, need := 2 }

/-- at the end of the PDU: last parameter, and the decoded message must end behind it -/
def MMLeaf.gLast (l : MMLeaf) : GItem :=
  { name := l.name, param := l.toParam, pair := l.pairEnd, need := 2, eopOnly := true,
    decPre := fun d => (l.pairEnd.dec d).2.cursorByte = d.msg.length }

theorem MMLeaf.toMid_ok (l : MMLeaf) (h : l.okMid) : l.toMid.Ok :=
  { good := l.goodMid h, kind := Or.inl ⟨_, _, _, rfl⟩,
    val_ne_none := by show PVal.atom l.v ≠ PVal.none; simp,
    encode_eq := fun fuel hf s _ hm => l.encode_eq_mid h fuel hf s (hm rfl),
    dec_cursorBit := fun _ _ => rfl,
    dec_msg := fun _ => rfl,
    decode_eq := fun fuel hf d _ hfit _ => l.decode_eq_mid h fuel hf d hfit,
    decPre_of_end := fun _ _ => trivial, decPre_trivial := fun _ _ => trivial }

theorem MMLeaf.gFull_ok (l : MMLeaf) (h : l.okFull) : l.gFull.Ok :=
  { good := l.goodEnd h.1, kind := Or.inl ⟨_, _, _, rfl⟩,
    val_ne_none := by show PVal.atom l.v ≠ PVal.none; simp,
    encode_eq := fun fuel hf s _ => l.encode_eq_end h.1 fuel hf s (Or.inr h.2),
    dec_cursorBit := fun _ _ => rfl,
    dec_msg := fun _ => rfl,
    decode_eq := fun fuel hf d _ hfit _ => l.decode_eq_end h.1 fuel hf d hfit (Or.inl h.2),
    decPre_of_end := fun _ _ => trivial, decPre_trivial := fun _ _ => trivial }

theorem MMLeaf.gLast_ok (l : MMLeaf) (h : l.okLast) : l.gLast.Ok :=
  { good := l.goodEnd h, kind := Or.inl ⟨_, _, _, rfl⟩,
    val_ne_none := by show PVal.atom l.v ≠ PVal.none; simp,
    encode_eq := fun fuel hf s hs => l.encode_eq_end h fuel hf s (Or.inl (hs rfl)),
    dec_cursorBit := fun _ _ => rfl,
    dec_msg := fun _ => rfl,
    decode_eq := fun fuel hf d _ hfit hpre => l.decode_eq_end h fuel hf d hfit (Or.inr hpre),
    decPre_of_end := fun _ hd => hd,
    decPre_trivial := fun hf => by cases hf }

end OdxVerif.Codec
