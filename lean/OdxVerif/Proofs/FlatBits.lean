import OdxVerif.Proofs.FlatMsg
/-! Flat tier, bit-exactness: every described bit has the prescribed value at the prescribed position, every
    undescribed bit is untouched (zero in a fresh message). -/
namespace OdxVerif.Codec
open OdxVerif.Bits OdxVerif.OdxM

/-- ODX positional rule, no encoder state: the byte behind the objects `os`, starting at `cursor`, inside a
    structure whose first byte is `origin` -/
def cursorAfter (origin : Nat) : List Obj → Nat → Nat
  | [], c => c
  | o :: rest, c => cursorAfter origin rest (o.pos origin c + o.k)

/-- absolute bit `a` is bit `j` of object `o` placed at byte `pos` -/
def Obj.claims (o : Obj) (pos a : Nat) : Prop := ∃ j, j < o.bl ∧ a = absBit pos o.k o.hl (j + o.bp)

theorem encAll_append (xs ys : List (Obj × IVal)) (s : EncState) : encAll (xs ++ ys) s = encAll ys (encAll xs s) := by
  induction xs generalizing s with
  | nil => rfl
  | cons x xs ih => simp [encAll, ih]

theorem encAll_origin (ovs : List (Obj × IVal)) (s : EncState) : (encAll ovs s).origin = s.origin := by
  induction ovs generalizing s with
  | nil => rfl
  | cons x xs ih => simp [encAll, ih, encStep_origin]

theorem encAll_cursor (ovs : List (Obj × IVal)) (s : EncState) :
    (encAll ovs s).cursorByte = cursorAfter s.origin (ovs.map (·.1)) s.cursorByte := by
  induction ovs generalizing s with
  | nil => rfl
  | cons x xs ih => simp [encAll, ih, encStep_origin, encStep_cursor, cursorAfter]

/-- a bit the object does not claim is left alone by its emplacement -/
theorem encStep_unclaimed (o : Obj) (v : IVal) (s : EncState) (a : Nat)
    (h : ¬ o.claims (o.pos s.origin s.cursorByte) a) : getBit (encStep o v s).msg a = getBit s.msg a := by
  rw [encStep_msg]
  by_cases hin : o.pos s.origin s.cursorByte ≤ a / 8 ∧ a / 8 < o.pos s.origin s.cursorByte + o.k
  · -- inside the object's bytes: write a = absBit pos k hl t and use the mask
    let i := a / 8 - o.pos s.origin s.cursorByte
    let t := 8 * (if o.hl then o.k - 1 - i else i) + a % 8
    have hi : i < o.k := by omega
    have ht : t < 8 * o.k := by
      show 8 * (if o.hl then o.k - 1 - i else i) + a % 8 < 8 * o.k
      split <;> omega
    have ha : a = absBit (o.pos s.origin s.cursorByte) o.k o.hl t := by
      unfold absBit
      show a = 8 * (o.pos s.origin s.cursorByte + (if o.hl then o.k - 1 - (8 * (if o.hl then o.k - 1 - i else i) + a % 8) / 8
        else (8 * (if o.hl then o.k - 1 - i else i) + a % 8) / 8)) + (8 * (if o.hl then o.k - 1 - i else i) + a % 8) % 8
      cases o.hl <;> simp <;> omega
    rw [ha, getBit_place_inside _ _ _ _ _ _ _ ht]
    have hm : o.mask.testBit t = false := by
      unfold Obj.mask
      rw [Nat.testBit_mul_two_pow, Nat.testBit_two_pow_sub_one]
      by_cases h1 : o.bp ≤ t
      · by_cases h2 : t - o.bp < o.bl
        · exact absurd ⟨t - o.bp, h2, by rw [ha]; congr 1; omega⟩ h
        · simp [h1, h2]
      · simp [h1]
    simp [hm]
  · unfold getBit
    rw [getD_place_outside _ _ _ _ (by simp [ord_length, toBytesBE_length]) _
      (by rw [ord_length, toBytesBE_length]; omega)]


/-- **Described bits.** With no overlap warning, every bit of every object has, in the final message, the value
    the ODX representation of the object's value prescribes — at the position the positional rule prescribes. -/
theorem flat_described (pre post : List (Obj × IVal)) (o : Obj) (v : IVal) (s : EncState)
    (hw : (encAll (pre ++ (o, v) :: post) s).warn = s.warn) (j : Nat) (hj : j < o.bl) :
    getBit (encAll (pre ++ (o, v) :: post) s).msg
        (absBit (o.pos s.origin (cursorAfter s.origin (pre.map (·.1)) s.cursorByte)) o.k o.hl (j + o.bp))
      = (o.raw v).testBit j := by
  rw [encAll_append] at hw ⊢
  simp only [encAll] at hw ⊢
  have h1 := encAll_warn_ge pre s
  have h2 := encStep_warn_ge o v (encAll pre s)
  have h3 := encAll_warn_ge post (encStep o v (encAll pre s))
  have hpost : (encAll post (encStep o v (encAll pre s))).warn = (encStep o v (encAll pre s)).warn := by omega
  have hpos : o.pos s.origin (cursorAfter s.origin (pre.map (·.1)) s.cursorByte)
      = o.pos (encAll pre s).origin (encAll pre s).cursorByte := by rw [encAll_origin, encAll_cursor]
  rw [hpos, encAll_frame post _ hpost _ (encStep_own_used o v _ j hj), encStep_own_bits o v _ j hj]

/-- **Undescribed bits.** A bit that no object claims keeps the value it had before (zero in a fresh message). -/
theorem flat_undescribed (ovs : List (Obj × IVal)) :
    ∀ (s : EncState) (a : Nat),
      (∀ pre o v post, ovs = pre ++ (o, v) :: post →
          ¬ o.claims (o.pos s.origin (cursorAfter s.origin (pre.map (·.1)) s.cursorByte)) a) →
      getBit (encAll ovs s).msg a = getBit s.msg a := by
  induction ovs with
  | nil => intro s a _; rfl
  | cons ov rest ih =>
    intro s a h
    obtain ⟨o, v⟩ := ov
    have h0 := h [] o v rest rfl
    simp only [List.map_nil, cursorAfter] at h0
    simp only [encAll]
    rw [ih (encStep o v s) a ?_, encStep_unclaimed o v s a h0]
    intro pre o' v' post heq
    have := h ((o, v) :: pre) o' v' post (by rw [heq]; rfl)
    simpa [cursorAfter, encStep_origin, encStep_cursor] using this

end OdxVerif.Codec
