import OdxVerif.Proofs.CompCompuBits
import OdxVerif.Proofs.CompCompu2Described
/-! Bit-exactness (property C02) for compu DOPs in structural positions, task W29: `Desc3b` — the syntactic mirror of
    `Described3b` (`Proofs/CompCompu2Described.lean`), as `Desc3` mirrors `Described3`:
    * `old d` — a `Desc3` description (the mirror of `Described3b.old`; it contains, through `Desc3.conv` / `convConst` /
      `convDefault`, the W23 leaves: LINEAR with a real physical type `LinFLeaf`, DTC-DOP with a LINEAR method `DtcLinLeaf`,
      IDENTICAL with physical type ≠ coded type `IdLeaf` — `LinFLeaf.desc`, `DtcLinLeaf.desc`, `IdLeaf.desc` below);
    * the closure constructors of `Described3b` again (STRUCTURE, the four field kinds, MULTIPLEXER), over `Desc3b` children;
    * `muxConv` — MULTIPLEXER whose switch key is typed by a compu DOP: the layout entry of the key carries the raw pattern of
      the **internal** key `ki` (`Lay2.obj .switchKey … (m.keyObj.specRepr ki)`), not of the physical key `m.lo` the CASE limits
      are compared with;
    * `dynLenFieldConv` — DYNAMIC-LENGTH-FIELD whose count is typed by a compu DOP: the `count` entry carries the raw pattern
      of the internal count `ci`, not of the number of items.
    `Desc3b.foot`: the second footprint law (`Foot2`) holds for the pure encoder of every description. -/
namespace OdxVerif.Codec
open OdxVerif.Bits OdxVerif.OdxM

/-- descriptions with values: the constructors of `Described3b` -/
inductive Desc3b where
  | old (d : Desc3)
  | struct (name : String) (bp : Option Nat) (bso : Option Nat) (kids : List Desc3b)
  | staticField (name : String) (bp : Option Nat) (itemSize : Nat) (bso : Option Nat) (shape : List Param) (items : List (List Desc3b))
  | dynLenField (name : String) (bp : Option Nat) (l : DynLayout) (bso : Option Nat) (shape : List Param) (items : List (List Desc3b))
  | dynLenFieldConv (name : String) (bp : Option Nat) (l : DynLayout) (cd : Dop) (ci : IVal) (bso : Option Nat) (shape : List Param)
      (items : List (List Desc3b))
  | eopField (name : String) (bp : Option Nat) (mn mx : Option Nat) (bso : Option Nat) (shape : List Param) (items : List (List Desc3b))
  | mux (name : String) (bp : Option Nat) (m : MuxLayout) (kids : List Desc3b)
  | muxConv (name : String) (bp : Option Nat) (m : MuxLayout) (kd : Dop) (ki : IVal) (kids : List Desc3b)
  | endMarkerEop (name : String) (bp : Option Nat) (l : EmLayout) (bso : Option Nat) (shape : List Param) (items : List (List Desc3b))
  | endMarkerMid (name : String) (bp : Option Nat) (l : EmLayout) (bso : Option Nat) (shape : List Param) (items : List (List Desc3b))

mutual
/-- the component a description denotes, with its flag `mid` ("needs `is_end_of_pdu` cleared") -/
def Desc3b.mc : Desc3b → MComp
  | .old d => d.mc
  | .struct name bp bso kids =>
    ⟨Comp.ofValue name bp (DComp.structO bso (MComps.cs (Descs3b.mcs kids))), MComps.lastMid (Descs3b.mcs kids)⟩
  | .staticField name bp n bso shape items =>
    ⟨Comp.ofValue name bp (DComp.staticField n (.struct bso shape) (itemsO bso (Descss3b.mcss items))), false⟩
  | .dynLenField name bp l bso shape items =>
    ⟨Comp.ofValue name bp (DComp.dynLenField l (.struct bso shape) (itemsO bso (Descss3b.mcss items))), itemsLastMid (Descss3b.mcss items)⟩
  | .dynLenFieldConv name bp l cd ci bso shape items =>
    ⟨Comp.ofValue name bp (DComp.dynLenFieldConv l cd ci (.struct bso shape) (itemsO bso (Descss3b.mcss items))),
      itemsLastMid (Descss3b.mcss items)⟩
  | .eopField name bp mn mx bso shape items =>
    ⟨Comp.ofValue name bp (DComp.eopField mn mx (.struct bso shape) (itemsO bso (Descss3b.mcss items))), false⟩
  | .mux name bp m kids =>
    ⟨Comp.ofValue name bp (DComp.mux m (DComp.struct (MComps.cs (Descs3b.mcs kids)))), MComps.lastMid (Descs3b.mcs kids)⟩
  | .muxConv name bp m kd ki kids =>
    ⟨Comp.ofValue name bp (DComp.muxConv m kd ki (DComp.struct (MComps.cs (Descs3b.mcs kids)))), MComps.lastMid (Descs3b.mcs kids)⟩
  | .endMarkerEop name bp l bso shape items =>
    ⟨Comp.ofValue name bp (DComp.endMarkerEop l (.struct bso shape) (itemsO bso (Descss3b.mcss items))), false⟩
  | .endMarkerMid name bp l bso shape items =>
    ⟨Comp.ofValue name bp (DComp.endMarkerMid l (.struct bso shape) (itemsO bso (Descss3b.mcss items))), true⟩
def Descs3b.mcs : List Desc3b → List MComp
  | [] => []
  | d :: ds => d.mc :: Descs3b.mcs ds
def Descss3b.mcss : List (List Desc3b) → List (List MComp)
  | [] => []
  | k :: ks => Descs3b.mcs k :: Descss3b.mcss ks
end

/-- the components of a parameter list -/
def Descs3b.comps (ds : List Desc3b) : List Comp := MComps.cs (Descs3b.mcs ds)

theorem Descss3b.mcss_length : (items : List (List Desc3b)) → (Descss3b.mcss items).length = items.length
  | [] => rfl
  | _ :: ks => by simp only [Descss3b.mcss, List.length_cons, Descss3b.mcss_length ks]

mutual
/-- well-formedness: the side conditions of the constructors of `Described3b` (MATCHING-REQUEST-PARAM: top level only, `wfTop`) -/
def Desc3b.wf : Desc3b → Prop
  | .old d => d.wf
  | .struct _ _ bso kids =>
    Descs3b.wf kids ∧ Comps.namesOk (Descs3b.comps kids) ∧ Comps.eopLast (Descs3b.comps kids) ∧ sizeSide bso (Descs3b.comps kids)
  | .staticField _ _ n bso shape items =>
    Descss3b.wf items ∧ ∀ k ∈ Descss3b.mcss items, itemSideS bso shape k ∧ (DComp.structO bso (MComps.cs k)).size ≤ n
  | .dynLenField _ _ l bso shape items =>
    Descss3b.wf items ∧ (∀ k ∈ Descss3b.mcss items, itemSideS bso shape k ∧ 1 ≤ (DComp.structO bso (MComps.cs k)).size) ∧
      l.ok items.length
  | .dynLenFieldConv _ _ l cd ci bso shape items =>
    Descss3b.wf items ∧ (∀ k ∈ Descss3b.mcss items, itemSideS bso shape k ∧ 1 ≤ (DComp.structO bso (MComps.cs k)).size) ∧
      l.okConv cd ci items.length
  | .eopField _ _ _ _ bso shape items =>
    Descss3b.wf items ∧ (∀ k ∈ Descss3b.mcss items, itemSideS bso shape k ∧ 1 ≤ (DComp.structO bso (MComps.cs k)).size) ∧
      (∀ k, (Descss3b.mcss items).getLast? = some k → MComps.midNotLast k)
  | .mux _ _ m kids =>
    Descs3b.wf kids ∧ Comps.namesOk (Descs3b.comps kids) ∧ Comps.eopLast (Descs3b.comps kids) ∧
      m.ok (.struct none (Comps.toParams (Descs3b.comps kids)))
  | .muxConv _ _ m kd ki kids =>
    Descs3b.wf kids ∧ Comps.namesOk (Descs3b.comps kids) ∧ Comps.eopLast (Descs3b.comps kids) ∧
      m.okConv kd ki (.struct none (Comps.toParams (Descs3b.comps kids)))
  | .endMarkerEop _ _ l bso shape items =>
    Descss3b.wf items ∧ l.ok ∧
      (∀ k ∈ Descss3b.mcss items, itemSideS bso shape k ∧ 1 ≤ (DComp.structO bso (MComps.cs k)).size ∧
        l.miss (DComp.structO bso (MComps.cs k))) ∧
      (∀ k, (Descss3b.mcss items).getLast? = some k → MComps.midNotLast k)
  | .endMarkerMid _ _ l bso shape items =>
    Descss3b.wf items ∧ l.ok ∧
      (∀ k ∈ Descss3b.mcss items, itemSideS bso shape k ∧ 1 ≤ (DComp.structO bso (MComps.cs k)).size ∧
        l.miss (DComp.structO bso (MComps.cs k)))
def Descs3b.wf : List Desc3b → Prop
  | [] => True
  | d :: ds => d.wf ∧ Descs3b.wf ds
def Descss3b.wf : List (List Desc3b) → Prop
  | [] => True
  | k :: ks => Descs3b.wf k ∧ Descss3b.wf ks
end

mutual
/-- a well-formed description denotes a described parameter -/
theorem Desc3b.described : (d : Desc3b) → d.wf → Described3b d.mc.c d.mc.mid
  | .old d, h => by
    simp only [Desc3b.wf] at h
    exact Described3b.old _ _ (Desc3.described d h)
  | .struct name bp bso kids, h => by
    simp only [Desc3b.wf] at h
    exact Described3b.struct name bp bso _ (Descs3b.described kids h.1) h.2.1 h.2.2.1 h.2.2.2
  | .staticField name bp n bso shape items, h => by
    simp only [Desc3b.wf] at h
    exact Described3b.staticField name bp n bso shape _ (Descss3b.described items h.1) h.2
  | .dynLenField name bp l bso shape items, h => by
    simp only [Desc3b.wf] at h
    exact Described3b.dynLenField name bp l bso shape _ (Descss3b.described items h.1) h.2.1
      (by rw [Descss3b.mcss_length]; exact h.2.2)
  | .dynLenFieldConv name bp l cd ci bso shape items, h => by
    simp only [Desc3b.wf] at h
    exact Described3b.dynLenFieldConv name bp l cd ci bso shape _ (Descss3b.described items h.1) h.2.1
      (by rw [Descss3b.mcss_length]; exact h.2.2)
  | .eopField name bp mn mx bso shape items, h => by
    simp only [Desc3b.wf] at h
    exact Described3b.eopField name bp mn mx bso shape _ (Descss3b.described items h.1) h.2.1 h.2.2
  | .mux name bp m kids, h => by
    simp only [Desc3b.wf] at h
    exact Described3b.mux name bp m _ (Descs3b.described kids h.1) h.2.1 h.2.2.1 h.2.2.2
  | .muxConv name bp m kd ki kids, h => by
    simp only [Desc3b.wf] at h
    exact Described3b.muxConv name bp m kd ki _ (Descs3b.described kids h.1) h.2.1 h.2.2.1 h.2.2.2
  | .endMarkerEop name bp l bso shape items, h => by
    simp only [Desc3b.wf] at h
    exact Described3b.endMarkerEop name bp l bso shape _ (Descss3b.described items h.1) h.2.1 h.2.2.1 h.2.2.2
  | .endMarkerMid name bp l bso shape items, h => by
    simp only [Desc3b.wf] at h
    exact Described3b.endMarkerMid name bp l bso shape _ (Descss3b.described items h.1) h.2.1 h.2.2
theorem Descs3b.described : (ds : List Desc3b) → Descs3b.wf ds → ∀ m ∈ Descs3b.mcs ds, Described3b m.c m.mid
  | [], _ => by intro m hm; simp [Descs3b.mcs] at hm
  | d :: ds, h => by
    simp only [Descs3b.wf] at h
    intro m hm
    simp only [Descs3b.mcs, List.mem_cons] at hm
    rcases hm with rfl | hm
    · exact Desc3b.described d h.1
    · exact Descs3b.described ds h.2 m hm
theorem Descss3b.described : (items : List (List Desc3b)) → Descss3b.wf items →
    ∀ k ∈ Descss3b.mcss items, ∀ m ∈ k, Described3b m.c m.mid
  | [], _ => by intro k hk; simp [Descss3b.mcss] at hk
  | k :: ks, h => by
    simp only [Descss3b.wf] at h
    intro k' hk'
    simp only [Descss3b.mcss, List.mem_cons] at hk'
    rcases hk' with rfl | hk'
    · exact Descs3b.described k h.1
    · exact Descss3b.described ks h.2 k' hk'
end

/-! ### the layout -/

mutual
/-- **the layout of a description** — `Desc3.lay` for an `old` description and for the closure constructors; and
    * `muxConv`: the `switchKey` entry holds the raw pattern of the INTERNAL key `ki` (what the compu DOP of the key computes
      from the physical key `m.lo`), then the case structure at BYTE-POSITION `m.muxBp`;
    * `dynLenFieldConv`: the `count` entry holds the raw pattern of the INTERNAL count `ci`, then the items from OFFSET on. -/
def Desc3b.lay : Desc3b → Lay2
  | .old d => d.lay
  | .struct _ bp bso kids => (Lay2.sized bso (Descs3b.lay kids)).atPos bp
  | .staticField _ bp n bso _ items => ((Descss3b.layStatic n bso items).inOrigin).atPos bp
  | .dynLenField _ bp l bso _ items =>
    (((Lay2.obj .count l.cntObj.name l.cntObj (l.cntObj.specRepr (.int items.length))).seq
        ((Lay2.dynBody items.isEmpty (Descss3b.layDyn bso items)).atPos (some l.offset))).inOrigin).atPos bp
  | .dynLenFieldConv _ bp l _ ci bso _ items =>
    (((Lay2.obj .count l.cntObj.name l.cntObj (l.cntObj.specRepr ci)).seq
        ((Lay2.dynBody items.isEmpty (Descss3b.layDyn bso items)).atPos (some l.offset))).inOrigin).atPos bp
  | .eopField _ bp _ _ bso _ items => ((Descss3b.layDyn bso items).inOrigin).atPos bp
  | .mux _ bp m kids =>
    (((Lay2.obj .switchKey m.keyObj.name m.keyObj (m.keyObj.specRepr (.int m.lo))).seq
        (((Descs3b.lay kids).inOrigin).atPos (some m.muxBp))).inOrigin).atPos bp
  | .muxConv _ bp m _ ki kids =>
    (((Lay2.obj .switchKey m.keyObj.name m.keyObj (m.keyObj.specRepr ki)).seq
        (((Descs3b.lay kids).inOrigin).atPos (some m.muxBp))).inOrigin).atPos bp
  | .endMarkerEop _ bp _ bso _ items => ((Descss3b.layDyn bso items).inOrigin).atPos bp
  | .endMarkerMid _ bp l bso _ items =>
    (((Descss3b.layDyn bso items).seq ((Lay2.obj .marker l.obj.name l.obj (l.obj.specRepr (.int l.tv))).peek)).inOrigin).atPos bp
def Descs3b.lay : List Desc3b → Lay2
  | [] => Lay2.nil
  | d :: ds => d.lay.seq (Descs3b.lay ds)
/-- the items of a static field: item structure (with its BYTE-SIZE padding), then the padding up to ITEM-BYTE-SIZE -/
def Descss3b.layStatic (n : Nat) (bso : Option Nat) : List (List Desc3b) → Lay2
  | [] => Lay2.nil
  | k :: ks => (((Lay2.sized bso (Descs3b.lay k)).seq (Lay2.padTo n)).inOrigin).seq (Descss3b.layStatic n bso ks)
/-- the items of the other fields: item structures back to back -/
def Descss3b.layDyn (bso : Option Nat) : List (List Desc3b) → Lay2
  | [] => Lay2.nil
  | k :: ks => (Lay2.sized bso (Descs3b.lay k)).seq (Descss3b.layDyn bso ks)
end

/-! ### closure steps for the compu key / count -/

/-- DYNAMIC-LENGTH-FIELD with a compu count: the `count` entry is the object of the INTERNAL count -/
theorem foot2_dynLenConv (l : DynLayout) (cd : Dop) (ci : IVal) (item : Dop) (cs : List DComp) (lb : Lay2)
    (hl : l.okConv cd ci cs.length) (hb : Foot2 (dynBodyC cs).enc lb) :
    Foot2 (DComp.dynLenFieldConv l cd ci item cs).pair.enc
      (((Lay2.obj .count l.cntObj.name l.cntObj (l.cntObj.specRepr ci)).seq (lb.atPos (some l.offset))).inOrigin) :=
  Foot2.inOrigin (Foot2.seq (ea := encStep l.cntObj ci)
    (eb := fun s => (dynBodyC cs).enc { s with cursorByte := posOf (some l.offset) s.origin s.cursorByte })
    (Foot2.obj .count _ l.cntObj ci hl.1 hl.2.1) (Foot2.atPos (some l.offset) hb))

/-- MULTIPLEXER with a compu switch key: the `switchKey` entry is the object of the INTERNAL key -/
theorem foot2_muxConv (m : MuxLayout) (kd : Dop) (ki : IVal) (c : DComp) (lc : Lay2) (hk : m.keyObj.ok) (hr : m.keyObj.inRange ki)
    (hc : Foot2 c.pair.enc lc) :
    Foot2 (DComp.muxConv m kd ki c).pair.enc
      (((Lay2.obj .switchKey m.keyObj.name m.keyObj (m.keyObj.specRepr ki)).seq (lc.atPos (some m.muxBp))).inOrigin) :=
  Foot2.inOrigin (Foot2.seq (ea := encStep m.keyObj ki)
    (eb := fun s => c.pair.enc { s with cursorByte := posOf (some m.muxBp) s.origin s.cursorByte })
    (Foot2.obj .switchKey _ m.keyObj ki hk hr) (Foot2.atPos (some m.muxBp) hc))

mutual
/-- **the second footprint law holds for every description** -/
theorem Desc3b.foot : (d : Desc3b) → (d.wf ∨ ∃ n bp rp bl t, d = .old (.matching n bp rp bl t) ∧ AllBytes t) →
    Foot2 d.mc.c.pair.enc d.lay
  | .old d, h => by
    refine Desc3.foot d ?_
    rcases h with h | ⟨n, bp, rp, bl, t, h, ht⟩
    · exact Or.inl (by simpa only [Desc3b.wf] using h)
    · cases h
      exact Or.inr ⟨n, bp, rp, bl, t, rfl, ht⟩
  | .struct name bp bso kids, h => by
    rcases h with h | ⟨_, _, _, _, _, h, _⟩
    · simp only [Desc3b.wf] at h
      exact Foot2.atPos bp (foot2_structO bso _ _ (Descs3b.foot kids h.1))
    · cases h
  | .staticField name bp n bso shape items, h => by
    rcases h with h | ⟨_, _, _, _, _, h, _⟩
    · simp only [Desc3b.wf] at h
      exact Foot2.atPos bp (Foot2.inOrigin (Descss3b.footStatic n bso items h.1))
    · cases h
  | .dynLenField name bp l bso shape items, h => by
    rcases h with h | ⟨_, _, _, _, _, h, _⟩
    · simp only [Desc3b.wf] at h
      have hF := Descss3b.footDyn bso items h.1
      have hlen : (itemsO bso (Descss3b.mcss items)).length = items.length := by
        simp only [itemsO, List.length_map, Descss3b.mcss_length]
      have hl : l.ok (itemsO bso (Descss3b.mcss items)).length := by rw [hlen]; exact h.2.2
      have hbody : Foot2 (dynBodyC (itemsO bso (Descss3b.mcss items))).enc (Lay2.dynBody items.isEmpty (Descss3b.layDyn bso items)) := by
        cases items with
        | nil => exact Foot2.touch
        | cons k ks => exact hF
      have := foot2_dynLen l (.struct bso shape) _ _ hl hbody
      rw [hlen] at this
      exact Foot2.atPos bp this
    · cases h
  | .dynLenFieldConv name bp l cd ci bso shape items, h => by
    rcases h with h | ⟨_, _, _, _, _, h, _⟩
    · simp only [Desc3b.wf] at h
      have hF := Descss3b.footDyn bso items h.1
      have hlen : (itemsO bso (Descss3b.mcss items)).length = items.length := by
        simp only [itemsO, List.length_map, Descss3b.mcss_length]
      have hl : l.okConv cd ci (itemsO bso (Descss3b.mcss items)).length := by rw [hlen]; exact h.2.2
      have hbody : Foot2 (dynBodyC (itemsO bso (Descss3b.mcss items))).enc (Lay2.dynBody items.isEmpty (Descss3b.layDyn bso items)) := by
        cases items with
        | nil => exact Foot2.touch
        | cons k ks => exact hF
      exact Foot2.atPos bp (foot2_dynLenConv l cd ci (.struct bso shape) _ _ hl hbody)
    · cases h
  | .eopField name bp mn mx bso shape items, h => by
    rcases h with h | ⟨_, _, _, _, _, h, _⟩
    · simp only [Desc3b.wf] at h
      exact Foot2.atPos bp (Foot2.inOrigin (Descss3b.footDyn bso items h.1))
    · cases h
  | .mux name bp m kids, h => by
    rcases h with h | ⟨_, _, _, _, _, h, _⟩
    · simp only [Desc3b.wf] at h
      exact Foot2.atPos bp (foot2_mux m _ _ h.2.2.2.1 h.2.2.2.2.1 (Foot2.inOrigin (Descs3b.foot kids h.1)))
    · cases h
  | .muxConv name bp m kd ki kids, h => by
    rcases h with h | ⟨_, _, _, _, _, h, _⟩
    · simp only [Desc3b.wf] at h
      exact Foot2.atPos bp (foot2_muxConv m kd ki _ _ h.2.2.2.1 h.2.2.2.2.1 (Foot2.inOrigin (Descs3b.foot kids h.1)))
    · cases h
  | .endMarkerEop name bp l bso shape items, h => by
    rcases h with h | ⟨_, _, _, _, _, h, _⟩
    · simp only [Desc3b.wf] at h
      exact Foot2.atPos bp (Foot2.inOrigin (Descss3b.footEm l bso items h.1))
    · cases h
  | .endMarkerMid name bp l bso shape items, h => by
    rcases h with h | ⟨_, _, _, _, _, h, _⟩
    · simp only [Desc3b.wf] at h
      exact Foot2.atPos bp (foot2_emMid l h.2.1 (.struct bso shape) _ _ (Descss3b.footEm l bso items h.1))
    · cases h
theorem Descs3b.foot : (ds : List Desc3b) → Descs3b.wf ds → Foot2 (Comps.pair (Descs3b.comps ds)).enc (Descs3b.lay ds)
  | [], _ => Foot2.nil
  | d :: ds, h => by
    simp only [Descs3b.wf] at h
    exact Foot2.seq (ea := d.mc.c.pair.enc) (eb := (Comps.pair (Descs3b.comps ds)).enc) (Desc3b.foot d (Or.inl h.1)) (Descs3b.foot ds h.2)
theorem Descss3b.footStatic (n : Nat) (bso : Option Nat) : (items : List (List Desc3b)) → Descss3b.wf items →
    Foot2 (Pair.list ((itemsO bso (Descss3b.mcss items)).map (staticItemC n))).enc (Descss3b.layStatic n bso items)
  | [], _ => Foot2.nil
  | k :: ks, h => by
    simp only [Descss3b.wf] at h
    exact Foot2.seq (ea := (staticItemC n (DComp.structO bso (Descs3b.comps k))).enc)
      (eb := (Pair.list ((itemsO bso (Descss3b.mcss ks)).map (staticItemC n))).enc)
      (Foot2.inOrigin (Foot2.seq (ea := (DComp.structO bso (Descs3b.comps k)).pair.enc) (eb := (Pair.padTo n).enc)
        (foot2_structO bso _ _ (Descs3b.foot k h.1)) (Foot2.padTo n))) (Descss3b.footStatic n bso ks h.2)
theorem Descss3b.footDyn (bso : Option Nat) : (items : List (List Desc3b)) → Descss3b.wf items →
    Foot2 (Pair.list ((itemsO bso (Descss3b.mcss items)).map dynItemC)).enc (Descss3b.layDyn bso items)
  | [], _ => Foot2.nil
  | k :: ks, h => by
    simp only [Descss3b.wf] at h
    exact Foot2.seq (ea := (dynItemC (DComp.structO bso (Descs3b.comps k))).enc)
      (eb := (Pair.list ((itemsO bso (Descss3b.mcss ks)).map dynItemC)).enc)
      (foot2_structO bso _ _ (Descs3b.foot k h.1)) (Descss3b.footDyn bso ks h.2)
theorem Descss3b.footEm (l : EmLayout) (bso : Option Nat) : (items : List (List Desc3b)) → Descss3b.wf items →
    Foot2 (Pair.list ((itemsO bso (Descss3b.mcss items)).map (emItemC l))).enc (Descss3b.layDyn bso items)
  | [], _ => Foot2.nil
  | k :: ks, h => by
    simp only [Descss3b.wf] at h
    exact Foot2.seq (ea := (emItemC l (DComp.structO bso (Descs3b.comps k))).enc)
      (eb := (Pair.list ((itemsO bso (Descss3b.mcss ks)).map (emItemC l))).enc)
      (foot2_structO bso _ _ (Descs3b.foot k h.1)) (Descss3b.footEm l bso ks h.2)
end

/-! ### the W23 leaf kinds as descriptions (`Desc3.conv` / `convConst`) -/

def LinFLeaf.desc (l : LinFLeaf) : Desc3 := .conv l.o l.dop (.atom l.sup) (.atom (.flt l.b)) (.int l.i)
def LinFLeaf.constDesc (l : LinFLeaf) (b : Bool) : Desc3 := .convConst l.o l.dop (.atom l.sup) (.atom (.flt l.b)) (.int l.i) b
def DtcLinLeaf.desc (l : DtcLinLeaf) (sup : PVal) : Desc3 := .conv l.o l.dop sup (.dtc l.z) (.int l.i)
def DtcLinLeaf.constDesc (l : DtcLinLeaf) (b : Bool) : Desc3 := .convConst l.o l.dop (.dtc l.z) (.dtc l.z) (.int l.i) b
def IdLeaf.desc (l : IdLeaf) : Desc3 := .conv l.o l.dop (.atom l.v) (.atom l.v) l.v
def IdLeaf.constDesc (l : IdLeaf) (b : Bool) : Desc3 := .convConst l.o l.dop (.atom l.v) (.atom l.v) l.v b

theorem LinFLeaf.desc_wf (l : LinFLeaf) (h : l.ok) : l.desc.wf := by
  simp only [LinFLeaf.desc, Desc3.wf]; exact ⟨h.1, h.2.1, l.convOk h⟩
theorem LinFLeaf.constDesc_wf (l : LinFLeaf) (h : l.ok) (hsame : l.sup = .flt l.b) (b : Bool) : (l.constDesc b).wf := by
  simp only [LinFLeaf.constDesc, Desc3.wf]
  exact ⟨h.1, h.2.1, l.convOk h, pvalEq_atom_self _, by rw [hsame]; exact pvalEq_atom_self _⟩
theorem DtcLinLeaf.desc_wf (l : DtcLinLeaf) (h : l.ok) (sup : PVal) (hs : l.supOk sup) : (l.desc sup).wf := by
  simp only [DtcLinLeaf.desc, Desc3.wf]; exact ⟨h.1, h.2.1, l.convOk h sup hs⟩
theorem DtcLinLeaf.constDesc_wf (l : DtcLinLeaf) (h : l.ok) (b : Bool) : (l.constDesc b).wf := by
  simp only [DtcLinLeaf.constDesc, Desc3.wf]; exact ⟨h.1, h.2.1, l.convOk h (.dtc l.z) rfl, by simp [pvalEq], by simp [pvalEq]⟩
theorem IdLeaf.desc_wf (l : IdLeaf) (h : l.ok) : l.desc.wf := by
  simp only [IdLeaf.desc, Desc3.wf]; exact ⟨h.1, h.2.1, l.convOk h⟩
theorem IdLeaf.constDesc_wf (l : IdLeaf) (h : l.ok) (b : Bool) : (l.constDesc b).wf := by
  simp only [IdLeaf.constDesc, Desc3.wf]; exact ⟨h.1, h.2.1, l.convOk h, pvalEq_atom_self _, pvalEq_atom_self _⟩

theorem LinFLeaf.desc_mc (l : LinFLeaf) : l.desc.mc = ⟨l.comp, false⟩ := rfl
theorem DtcLinLeaf.desc_mc (l : DtcLinLeaf) (sup : PVal) : (l.desc sup).mc = ⟨l.comp sup, false⟩ := rfl
theorem IdLeaf.desc_mc (l : IdLeaf) : l.desc.mc = ⟨l.comp, false⟩ := rfl

/-- the LINEAR switch key / count as `okConv` facts (the mirror of `DComp.mux_ok_lin` / `dynLenField_ok_lin`) -/
theorem MuxLayout.okConv_lin (m : MuxLayout) (l : LinLeaf) (sd : Dop) (hl : l.ok) (ho : l.o = m.keyObj) (hz : l.z = m.lo)
    (hsel : m.encSel sd ∧ m.decSel sd) : m.okConv l.dop (.int l.i) sd := by
  have hconv := l.convOk hl
  rw [hz] at hconv
  exact ⟨by rw [← ho]; exact hl.1, by rw [← ho]; exact hl.2.1, by rw [← ho]; exact hconv, hsel.1, hsel.2⟩
theorem DynLayout.okConv_lin (l : DynLayout) (k : LinLeaf) (n : Nat) (hk : k.ok) (ho : k.o = l.cntObj) (hz : k.z = n)
    (hoff : l.cntBp + l.cntObj.k ≤ l.offset) : l.okConv k.dop (.int k.i) n := by
  have hconv := k.convOk hk
  rw [hz] at hconv
  exact ⟨by rw [← ho]; exact hk.1, by rw [← ho]; exact hk.2.1, hoff, by rw [← ho]; exact hconv⟩

end OdxVerif.Codec
