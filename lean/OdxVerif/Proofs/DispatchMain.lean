import OdxVerif.Proofs.DispatchDecode
/-! Characterisation of `DiagLayer._decode` / `decode` / `decode_response` in the vocabulary of the
    specification (property C06). Core Lean only. -/
namespace OdxVerif.Dispatch
open Spec

/-- any mode, any candidate list: the reported messages are exactly the per-service contributions of the
    candidates; `DecodeError` iff there is none -/
theorem decodeCandidates_char {dec : Oracle} {M : Bytes} (h : NoForeign dec M) (strict : Bool) (L : Layer)
    (cands : List Service) (P : Service → Coding → Prop)
    (hP : ∀ s co, (s, co) ∈ perService dec strict L M s ↔ P s co) :
    (∀ ms, decodeCandidates dec strict L M cands = .ok ms →
        ms ≠ [] ∧ ∀ s co, (s, co) ∈ ms ↔ (s ∈ cands ∧ P s co)) ∧
    (∀ e, decodeCandidates dec strict L M cands = .error e →
        e = .decode ∧ ∀ s co, ¬ (s ∈ cands ∧ P s co)) := by
  rw [decodeCandidates_eq h]
  have key : ∀ s co, (s, co) ∈ cands.flatMap (perService dec strict L M) ↔ (s ∈ cands ∧ P s co) := by
    intro s co
    rw [mem_flatMap_perService, hP]
  by_cases h0 : cands.flatMap (perService dec strict L M) = []
  · simp only [h0, if_true]
    refine ⟨(fun ms hms => nomatch hms), fun e he => ⟨by cases he; rfl, fun s co hsc => ?_⟩⟩
    have := (key s co).mpr hsc
    rw [h0] at this
    cases this
  · simp only [h0, if_false]
    refine ⟨fun ms hms => ?_, fun e he => nomatch he⟩
    cases hms
    exact ⟨h0, key⟩

/-- strict mode -/
theorem decodeCandidates_strict_char {dec : Oracle} {M : Bytes} (h : NoForeign dec M) (L : Layer)
    (cands : List Service) :
    (∀ ms, decodeCandidates dec true L M cands = .ok ms →
        ms ≠ [] ∧ ∀ s co, (s, co) ∈ ms ↔ (s ∈ cands ∧ Interp dec L M s co)) ∧
    (∀ e, decodeCandidates dec true L M cands = .error e →
        e = .decode ∧ ∀ s co, ¬ (s ∈ cands ∧ Interp dec L M s co)) :=
  decodeCandidates_char h true L cands _ (mem_perService_strict h L)

/-- non-strict mode -/
theorem decodeCandidates_lenient_char {dec : Oracle} {M : Bytes} (h : NoForeign dec M) (L : Layer)
    (cands : List Service) :
    (∀ ms, decodeCandidates dec false L M cands = .ok ms →
        ms ≠ [] ∧ ∀ s co, (s, co) ∈ ms ↔ (s ∈ cands ∧ InterpLenient dec L M s co)) ∧
    (∀ e, decodeCandidates dec false L M cands = .error e →
        e = .decode ∧ ∀ s co, ¬ (s ∈ cands ∧ InterpLenient dec L M s co)) :=
  decodeCandidates_char h false L cands _ (mem_perService_lenient h L)

/-- if every candidate has at most one matching own coding object, the mode is irrelevant -/
theorem decodeCandidates_lenient_eq_strict {dec : Oracle} {M : Bytes} (h : NoForeign dec M) (L : Layer)
    (cands : List Service) (hU : ∀ s ∈ cands, ownMatchCount dec s M ≤ 1) :
    decodeCandidates dec false L M cands = decodeCandidates dec true L M cands := by
  rw [decodeCandidates_eq h, decodeCandidates_eq h]
  have : cands.flatMap (perService dec false L M) = cands.flatMap (perService dec true L M) := by
    induction cands with
    | nil => rfl
    | cons s rest ih =>
      simp only [List.flatMap_cons]
      rw [perService_lenient_eq_strict h L s (hU s (by simp)), ih (fun s hs => hU s (by simp [hs]))]
  rw [this]

/-- if some candidate has an interpretation, strict decoding succeeds and reports it -/
theorem decodeCandidates_reports {dec : Oracle} {M : Bytes} (h : NoForeign dec M) (L : Layer)
    (cands : List Service) {s : Service} {co : Coding} (hs : s ∈ cands) (hi : Interp dec L M s co) :
    ∃ ms, decodeCandidates dec true L M cands = .ok ms ∧ (s, co) ∈ ms := by
  obtain ⟨hok, herr⟩ := decodeCandidates_strict_char h L cands
  cases hd : decodeCandidates dec true L M cands with
  | ok ms => exact ⟨ms, rfl, ((hok ms hd).2 s co).mpr ⟨hs, hi⟩⟩
  | error e => exact absurd ⟨hs, hi⟩ ((herr e hd).2 s co)

/-- an interpretation is a matching coding object, so the service is attributed -/
theorem attributed_of_interp {dec : Oracle} {L : Layer} {M : Bytes} {s : Service} {co : Coding}
    (hs : s ∈ L.services) (hi : Interp dec L M s co) :
    co ∈ ownCodings s ++ L.gnrs ∧ Matches dec s M co ∧ Attributed dec L M s := by
  obtain ⟨hm, (⟨ho, _⟩ | ⟨hg, _⟩)⟩ := hi
  · exact ⟨by simp [ho], hm, hs, co, by simp [ho], hm⟩
  · exact ⟨by simp [hg], hm, hs, co, by simp [hg], hm⟩

theorem attributed_of_interpLenient {dec : Oracle} {L : Layer} {M : Bytes} {s : Service} {co : Coding}
    (hs : s ∈ L.services) (hi : InterpLenient dec L M s co) :
    co ∈ ownCodings s ++ L.gnrs ∧ Matches dec s M co ∧ Attributed dec L M s := by
  obtain ⟨hm, (hh | ⟨hg, _⟩)⟩ := hi
  · have ho := ((mem_ownMatches dec s M co).mp (List.mem_of_head? hh)).1
    exact ⟨by simp [ho], hm, hs, co, by simp [ho], hm⟩
  · exact ⟨by simp [hg], hm, hs, co, by simp [hg], hm⟩

/-- under the envelope, every attributed service is found and has an interpretation (strict mode) -/
theorem interp_of_attributed {dec : Oracle} {L : Layer} {M : Bytes} {s : Service}
    (hU : ownMatchCount dec s M ≤ 1)
    (hNE : ∀ co ∈ ownCodings s ++ L.gnrs, constPrefix (Spec.requestPrefix s) co.params ≠ [])
    (ha : Attributed dec L M s) : Found L M s ∧ ∃ co, Interp dec L M s co := by
  obtain ⟨_, co, hco, hm⟩ := ha
  refine ⟨found_of_matches hco hm (hNE co hco), ?_⟩
  by_cases h1 : ownMatchCount dec s M = 1
  · -- the service decodes the message itself
    have hlen : (ownMatches dec s M).length = 1 := by rw [length_ownMatches]; exact h1
    match hm' : ownMatches dec s M, hlen with
    | [x], _ =>
      have hx := (ownMatches_eq_singleton dec s M x).mp hm'
      exact ⟨x, hx.2.2, .inl ⟨hx.2.1, hx.1⟩⟩
  · -- it does not: then `co` cannot be an own coding object, so it is a global negative response
    rcases List.mem_append.mp hco with ho | hg
    · have : co ∈ ownMatches dec s M := (mem_ownMatches dec s M co).mpr ⟨ho, hm⟩
      have hpos : 0 < (ownMatches dec s M).length := List.length_pos_of_mem this
      rw [length_ownMatches] at hpos
      omega
    · exact ⟨co, hm, .inr ⟨hg, h1⟩⟩

/-- non-strict mode: no uniqueness needed -/
theorem interpLenient_of_attributed {dec : Oracle} {L : Layer} {M : Bytes} {s : Service}
    (hNE : ∀ co ∈ ownCodings s ++ L.gnrs, constPrefix (Spec.requestPrefix s) co.params ≠ [])
    (ha : Attributed dec L M s) : Found L M s ∧ ∃ co, InterpLenient dec L M s co := by
  obtain ⟨_, co, hco, hm⟩ := ha
  refine ⟨found_of_matches hco hm (hNE co hco), ?_⟩
  match hm' : ownMatches dec s M with
  | x :: r =>
    have hx : x ∈ ownMatches dec s M := by rw [hm']; simp
    exact ⟨x, ((mem_ownMatches dec s M x).mp hx).2, .inl (by rw [hm']; rfl)⟩
  | [] =>
    have hc : ownMatchCount dec s M = 0 := by rw [← length_ownMatches, hm']; rfl
    rcases List.mem_append.mp hco with ho | hg
    · have : co ∈ ownMatches dec s M := (mem_ownMatches dec s M co).mpr ⟨ho, hm⟩
      rw [hm'] at this; cases this
    · exact ⟨co, hm, .inr ⟨hg, hc⟩⟩

/-- an own coding object which matches uniquely is the interpretation -/
theorem interp_of_own {dec : Oracle} {L : Layer} {M : Bytes} {s : Service} {co : Coding}
    (ho : co ∈ ownCodings s) (hm : Matches dec s M co) (hU : ownMatchCount dec s M ≤ 1) :
    Interp dec L M s co := by
  have : co ∈ ownMatches dec s M := (mem_ownMatches dec s M co).mpr ⟨ho, hm⟩
  have hpos : 0 < (ownMatches dec s M).length := List.length_pos_of_mem this
  rw [length_ownMatches] at hpos
  exact ⟨hm, .inl ⟨ho, by omega⟩⟩

/-- from a per-candidate characterisation to "the reported services are exactly the list `A`" -/
theorem attribution_of_char (r : Except Err (List Msg)) (cands : List Service) (P : Service → Coding → Prop)
    (A : List Service)
    (hchar : (∀ ms, r = .ok ms → ms ≠ [] ∧ ∀ s co, (s, co) ∈ ms ↔ (s ∈ cands ∧ P s co)) ∧
      (∀ e, r = .error e → e = .decode ∧ ∀ s co, ¬ (s ∈ cands ∧ P s co)))
    (hiff : ∀ s, (∃ co, s ∈ cands ∧ P s co) ↔ s ∈ A) :
    (∀ ms, r = .ok ms → ms ≠ [] ∧ ∀ s, (∃ c, (s, c) ∈ ms) ↔ s ∈ A) ∧
    (∀ e, r = .error e → e = .decode ∧ A = []) := by
  obtain ⟨hok, herr⟩ := hchar
  refine ⟨fun ms hms => ?_, fun e he => ?_⟩
  · obtain ⟨hne, hmem⟩ := hok ms hms
    refine ⟨hne, fun s => ?_⟩
    rw [← hiff s]
    exact exists_congr fun c => hmem s c
  · obtain ⟨rfl, hnone⟩ := herr e he
    refine ⟨rfl, List.eq_nil_iff_forall_not_mem.mpr fun s hs => ?_⟩
    obtain ⟨c, hc⟩ := (hiff s).mpr hs
    exact hnone s c hc

end OdxVerif.Dispatch
