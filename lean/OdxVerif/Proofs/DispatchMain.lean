import OdxVerif.Proofs.DispatchDecode
/-! Characterisation of `DiagLayer._decode` / `decode` / `decode_response` in the vocabulary of the
    specification (property C06). Core Lean only. -/
namespace OdxVerif.Dispatch
open Spec

/-- strict mode, any candidate list: the reported messages are exactly the interpretations of the
    candidates; `DecodeError` iff there is none -/
theorem decodeCandidates_strict_char {dec : Oracle} {M : Bytes} (h : NoForeign dec M) (L : Layer)
    (cands : List Service) :
    (∀ ms, decodeCandidates dec true L M cands = .ok ms →
        ms ≠ [] ∧ ∀ s c, (s, c) ∈ ms ↔ (s ∈ cands ∧ Interp dec L M s c)) ∧
    (∀ e, decodeCandidates dec true L M cands = .error e →
        e = .decode ∧ ∀ s c, ¬ (s ∈ cands ∧ Interp dec L M s c)) := by
  rw [decodeCandidates_eq h]
  have key : ∀ s c, (s, c) ∈ cands.flatMap (perService dec true L M) ↔ (s ∈ cands ∧ Interp dec L M s c) := by
    intro s c
    rw [mem_flatMap_perService, mem_perService_strict h]
  by_cases h0 : cands.flatMap (perService dec true L M) = []
  · simp only [h0, if_true]
    refine ⟨(fun ms hms => nomatch hms), fun e he => ⟨by cases he; rfl, fun s c hsc => ?_⟩⟩
    have := (key s c).mpr hsc
    rw [h0] at this
    cases this
  · simp only [h0, if_false]
    refine ⟨fun ms hms => ?_, fun e he => nomatch he⟩
    cases hms
    exact ⟨h0, key⟩

/-- if some candidate has an interpretation, strict decoding succeeds and reports it -/
theorem decodeCandidates_reports {dec : Oracle} {M : Bytes} (h : NoForeign dec M) (L : Layer)
    (cands : List Service) {s : Service} {c : Option Coding} (hs : s ∈ cands) (hi : Interp dec L M s c) :
    ∃ ms, decodeCandidates dec true L M cands = .ok ms ∧ (s, c) ∈ ms := by
  obtain ⟨hok, herr⟩ := decodeCandidates_strict_char h L cands
  cases hd : decodeCandidates dec true L M cands with
  | ok ms => exact ⟨ms, rfl, ((hok ms hd).2 s c).mpr ⟨hs, hi⟩⟩
  | error e => exact absurd ⟨hs, hi⟩ ((herr e hd).2 s c)

/-- an interpretation is a matching coding object, so the service is attributed -/
theorem attributed_of_interp {dec : Oracle} {L : Layer} {M : Bytes} {s : Service} {c : Option Coding}
    (hs : s ∈ L.services) (hi : Interp dec L M s c) :
    ∃ co, c = some co ∧ co ∈ ownCodings s ++ L.gnrs ∧ Matches dec s M co ∧ Attributed dec L M s := by
  obtain ⟨co, rfl, hm, (⟨ho, _⟩ | ⟨hg, _⟩)⟩ := hi
  · exact ⟨co, rfl, by simp [ho], hm, hs, co, by simp [ho], hm⟩
  · exact ⟨co, rfl, by simp [hg], hm, hs, co, by simp [hg], hm⟩

/-- under the envelope, every attributed service is found and has an interpretation -/
theorem interp_of_attributed {dec : Oracle} {L : Layer} {M : Bytes} {s : Service}
    (hU : ownMatchCount dec s M ≤ 1)
    (hNE : ∀ co ∈ ownCodings s ++ L.gnrs, constPrefix (Spec.requestPrefix s) co.params ≠ [])
    (ha : Attributed dec L M s) : Found L M s ∧ ∃ c, Interp dec L M s c := by
  obtain ⟨_, co, hco, hm⟩ := ha
  refine ⟨found_of_matches hco hm (hNE co hco), ?_⟩
  by_cases h1 : ownMatchCount dec s M = 1
  · -- the service decodes the message itself
    have hlen : (ownMatches dec s M).length = 1 := by rw [length_ownMatches]; exact h1
    match hm' : ownMatches dec s M, hlen with
    | [x], _ =>
      have hx := (ownMatches_eq_singleton dec s M x).mp hm'
      exact ⟨some x, x, rfl, hx.2.2, .inl ⟨hx.2.1, hx.1⟩⟩
  · -- it does not: then `co` cannot be an own coding object, so it is a global negative response
    rcases List.mem_append.mp hco with ho | hg
    · have : co ∈ ownMatches dec s M := (mem_ownMatches dec s M co).mpr ⟨ho, hm⟩
      have hpos : 0 < (ownMatches dec s M).length := List.length_pos_of_mem this
      rw [length_ownMatches] at hpos
      omega
    · exact ⟨some co, co, rfl, hm, .inr ⟨hg, h1⟩⟩

/-- an own coding object which matches uniquely is the interpretation -/
theorem interp_of_own {dec : Oracle} {L : Layer} {M : Bytes} {s : Service} {co : Coding}
    (ho : co ∈ ownCodings s) (hm : Matches dec s M co) (hU : ownMatchCount dec s M ≤ 1) :
    Interp dec L M s (some co) := by
  have : co ∈ ownMatches dec s M := (mem_ownMatches dec s M co).mpr ⟨ho, hm⟩
  have hpos : 0 < (ownMatches dec s M).length := List.length_pos_of_mem this
  rw [length_ownMatches] at hpos
  exact ⟨co, rfl, hm, .inl ⟨ho, by omega⟩⟩

/-- non-strict mode, any candidate list -/
theorem decodeCandidates_lenient_char {dec : Oracle} {M : Bytes} (h : NoForeign dec M) (L : Layer)
    (cands : List Service) :
    (∀ ms, decodeCandidates dec false L M cands = .ok ms →
        ∀ s c, (s, c) ∈ ms ↔ (s ∈ cands ∧ c = (ownMatches dec s M).head?)) ∧
    (∀ e, decodeCandidates dec false L M cands = .error e → e = .decode ∧ cands = []) := by
  rw [decodeCandidates_eq h]
  have key : ∀ s c, (s, c) ∈ cands.flatMap (perService dec false L M) ↔
      (s ∈ cands ∧ c = (ownMatches dec s M).head?) := by
    intro s c
    rw [mem_flatMap_perService, perService_lenient h]
    simp
  by_cases h0 : cands.flatMap (perService dec false L M) = []
  · simp only [h0, if_true]
    refine ⟨(fun ms hms => nomatch hms), fun e he => ⟨by cases he; rfl, ?_⟩⟩
    cases cands with
    | nil => rfl
    | cons s rest =>
      have := (key s _).mpr ⟨by simp, rfl⟩
      rw [h0] at this
      cases this
  · simp only [h0, if_false]
    refine ⟨fun ms hms => ?_, fun e he => nomatch he⟩
    cases hms
    exact key

end OdxVerif.Dispatch
