import OdxVerif.Proofs.CompCore
import OdxVerif.Proofs.DynLeafLeading
/-! LENGTH-KEY / PARAM-LENGTH-INFO-TYPE (task W13), pure part.  The model's composite encoder is two-pass: the first loop
    writes a *placeholder* for every LENGTH-KEY parameter (`encodeKeyPlaceholder`: zero bytes with a zero used-mask — the
    message is padded, nothing is claimed, the position is recorded in `keyPos`), the objects whose length the key gives
    (`encodeDct .paramLen`) look the key up in `lengthKeys` or derive it from their value; the second loop
    (`encodeKeyValues`) writes every key's final value at the recorded position.  This file:
    * the association lists (`lookup` / `insertKV`);
    * the placeholder as a pure step (`holeStep`) and as a `Good` pair (`Pair.hole`: the decoder *skips* the key's bytes,
      returns the key's value and records it in `lengthKeys` — that this is what is on the wire is the key's `decPre`);
    * the second pass as a pure function on a list of cells (`enc2`), its frame law and the read-back law (`enc2_cells`):
      without an overlap warning every cell of a message that agrees with the result on the claimed bits holds its value.
    Core Lean only. -/
namespace OdxVerif.Codec
open OdxVerif.Bits OdxVerif.OdxM

/-! ### association lists -/

theorem lookup_insertKV_self {α : Type} (k : String) (v : α) (L : List (String × α)) : lookup k (insertKV k v L) = some v := by
  induction L with
  | nil => simp [insertKV, lookup]
  | cons x xs ih =>
    obtain ⟨k', v'⟩ := x
    by_cases h : k = k'
    · simp [insertKV, lookup, h]
    · simp [insertKV, lookup, h, ih]

theorem lookup_insertKV_ne {α : Type} (k k' : String) (v : α) (L : List (String × α)) (h : k' ≠ k) :
    lookup k' (insertKV k v L) = lookup k' L := by
  induction L with
  | nil => simp [insertKV, lookup, h]
  | cons x xs ih =>
    obtain ⟨k2, v2⟩ := x
    by_cases h2 : k = k2
    · subst h2; simp [insertKV, lookup, h]
    · by_cases h3 : k' = k2
      · simp [insertKV, lookup, h2, h3]
      · simp [insertKV, lookup, h2, h3, ih]

/-! ### zero bytes with a zero used-mask -/

theorem mergeBytes_zeros : (old : Bytes) → (n : Nat) → old.length = n →
    mergeBytes old (List.replicate n 0) (List.replicate n 0) = old
  | [], _, _ => by cases ‹Nat› <;> rfl
  | o :: os, 0, h => by cases h
  | o :: os, n+1, h => by
    have ih := mergeBytes_zeros os n (by simpa using h)
    simp [List.replicate_succ, mergeBytes, ih]

theorem orBytes_zeros : (old : Bytes) → (n : Nat) → old.length = n → orBytes old (List.replicate n 0) = old
  | [], _, _ => by cases ‹Nat› <;> rfl
  | o :: os, 0, h => by cases h
  | o :: os, n+1, h => by
    have ih := orBytes_zeros os n (by simpa using h)
    simp [List.replicate_succ, orBytes, ih]

theorem overlapCount_zeros : (us : Bytes) → (n : Nat) → overlapCount us (List.replicate n 0) = 0
  | [], _ => by cases ‹Nat› <;> rfl
  | u :: us, 0 => rfl
  | u :: us, n+1 => by
    have ih := overlapCount_zeros us n
    simp [List.replicate_succ, overlapCount, ih]

theorem take_mid_drop (m : Bytes) (pos n : Nat) : m.take pos ++ (m.drop pos).take n ++ m.drop (pos + n) = m := by
  rw [List.append_assoc, ← List.drop_drop, List.take_append_drop, List.take_append_drop]

theorem placeBytes_zeros (msg : Bytes) (pos n : Nat) :
    placeBytes msg pos (List.replicate n 0) (List.replicate n 0) = padTo msg (pos + n) := by
  simp only [placeBytes, List.length_replicate]
  have hl : (((padTo msg (pos + n)).drop pos).take n).length = n := by
    simp only [List.length_take, List.length_drop, padTo_length]; omega
  rw [mergeBytes_zeros _ n hl]
  exact take_mid_drop _ pos n

theorem placeUsed_zeros (used : Bytes) (pos n : Nat) :
    placeUsed used pos n (List.replicate n 0) = padTo used (pos + n) := by
  simp only [placeUsed]
  have hl : (((padTo used (pos + n)).drop pos).take n).length = n := by
    simp only [List.length_take, List.length_drop, padTo_length]; omega
  have ht : (List.replicate n (0 : Nat)).take n = List.replicate n 0 := by
    rw [List.take_of_length_le (by simp)]
  rw [ht, orBytes_zeros _ n hl]
  exact take_mid_drop _ pos n

/-! ### the placeholder of a LENGTH-KEY parameter -/

/-- the core effect of `LengthKeyParameter.encode_placeholder_into_pdu` for a key that occupies the object `o`: the message
    (and the used-mask) is padded up to the end of the key's bytes, no bit is claimed, the cursor moves behind them -/
def holeStep (o : Obj) (s : EncState) : EncState :=
  { s with msg := padTo s.msg (o.pos s.origin s.cursorByte + o.k),
           used := padTo (s.used ++ List.replicate ((padTo s.msg (o.pos s.origin s.cursorByte + o.k)).length - s.msg.length) 0)
                     (o.pos s.origin s.cursorByte + o.k),
           cursorByte := o.pos s.origin s.cursorByte + o.k, cursorBit := 0 }

theorem holeStep_warn (o : Obj) (s : EncState) : (holeStep o s).warn = s.warn := rfl
theorem holeStep_origin (o : Obj) (s : EncState) : (holeStep o s).origin = s.origin := rfl
theorem holeStep_cursor (o : Obj) (s : EncState) : (holeStep o s).cursorByte = o.pos s.origin s.cursorByte + o.k := rfl
theorem holeStep_lengthKeys (o : Obj) (s : EncState) : (holeStep o s).lengthKeys = s.lengthKeys := rfl
theorem holeStep_keyPos (o : Obj) (s : EncState) : (holeStep o s).keyPos = s.keyPos := rfl

theorem holeStep_length (o : Obj) (s : EncState) :
    (holeStep o s).msg.length = max s.msg.length (o.pos s.origin s.cursorByte + o.k) := by
  simp only [holeStep, padTo_length]

theorem holeStep_sameCore (o : Obj) (s t : EncState) (h : SameCore s t) : SameCore (holeStep o s) (holeStep o t) := by
  obtain ⟨h1, h2, h3, h4, h5⟩ := h
  simp only [SameCore, holeStep, h1, h2, h3, h4, h5, and_self]

theorem getBit_padTo (bs : Bytes) (n a : Nat) : getBit (padTo bs n) a = getBit bs a := by
  unfold getBit; rw [getD_padTo]

theorem holeStep_frame (o : Obj) (s : EncState) (a : Nat) :
    getBit (holeStep o s).msg a = getBit s.msg a ∧ getBit (holeStep o s).used a = getBit s.used a := by
  constructor
  · simp only [holeStep]; exact getBit_padTo _ _ _
  · simp only [holeStep]
    rw [getBit_padTo]
    unfold getBit
    rw [getD_append_zeros]

/-- the key's pair in the FIRST pass: the encoder leaves a hole; the decoder is the one the decoded PDU will make true —
    it skips the key's bytes, returns the key's final value `v` and records it in `length_keys`.  (That the bytes of the PDU
    hold `v` is not a consequence of the first pass: it is the key's `decPre`, established from the second pass.) -/
def Pair.hole (o : Obj) (v : Int) : Pair PVal where
  enc := holeStep o
  dec := fun d => (.atom (.int v), { d with cursorByte := o.pos d.origin d.cursorByte + o.k, cursorBit := 0,
                                            lengthKeys := insertKV o.name v d.lengthKeys })
  val := .atom (.int v)
  fits := fun d => o.pos d.origin d.cursorByte + o.k ≤ d.msg.length

theorem Good.hole (o : Obj) (v : Int) : Good (Pair.hole o v) where
  warn_mono := fun _ => Nat.le_refl _
  frame := fun s _ a hu => by
    obtain ⟨h1, h2⟩ := holeStep_frame o s a
    exact ⟨h1, by rw [show (Pair.hole o v).enc s = holeStep o s from rfl, h2]; exact hu⟩
  allBytes := fun s h => allBytes_padTo _ _ h
  len_mono := fun s => by
    show s.msg.length ≤ (holeStep o s).msg.length
    rw [holeStep_length]; omega
  origin := fun _ => rfl
  rt := by
    intro s d _ _ horig hcur _ hlen _
    have hlen' : (holeStep o s).msg.length ≤ d.msg.length := hlen
    rw [holeStep_length] at hlen'
    refine ⟨rfl, ?_, rfl, rfl, ?_⟩
    · show o.pos d.origin d.cursorByte + o.k = o.pos s.origin s.cursorByte + o.k
      rw [horig, hcur]
    · show o.pos d.origin d.cursorByte + o.k ≤ d.msg.length
      rw [horig, hcur]; omega
  core := holeStep_sameCore o

/-! ### the second pass: the keys' final values at the recorded positions -/

/-- the object of a key, to be written at the cursor -/
def Obj.atCursor (o : Obj) : Obj := { o with bytePos := none }

theorem Obj.atCursor_ok (o : Obj) (h : o.ok) : o.atCursor.ok := h
theorem Obj.atCursor_inRange (o : Obj) (v : IVal) (h : o.inRange v) : o.atCursor.inRange v := h
theorem Obj.atCursor_k (o : Obj) : o.atCursor.k = o.k := rfl

/-- a cell: the key's object, its final value and the byte position recorded for it -/
abbrev Cell := Obj × Int × Nat

/-- one step of the second pass: the key's value is emplaced at its recorded position -/
def cellStep (c : Cell) (s : EncState) : EncState :=
  encStep c.1.atCursor (.int c.2.1) { s with cursorByte := c.2.2 }

/-- the second pass -/
def enc2 : List Cell → EncState → EncState
  | [], s => s
  | c :: cs, s => enc2 cs (cellStep c s)

def Cell.ok (c : Cell) : Prop := c.1.ok ∧ c.1.inRange (.int c.2.1)

/-- the cell of the message `m` holds the key's value (and lies inside the message) -/
def Cell.holds (c : Cell) (m : Bytes) : Prop :=
  c.2.2 + c.1.k ≤ m.length ∧
  c.1.ofRaw (readNum m c.2.2 c.1.k c.1.hl / 2 ^ c.1.bp % 2 ^ c.1.bl) = .int c.2.1

theorem cellStep_warn_ge (c : Cell) (s : EncState) : s.warn ≤ (cellStep c s).warn :=
  encStep_warn_ge _ _ { s with cursorByte := c.2.2 }

theorem cellStep_frame (c : Cell) (s : EncState) (hw : (cellStep c s).warn = s.warn) (a : Nat)
    (hu : getBit s.used a = true) : getBit (cellStep c s).msg a = getBit s.msg a ∧ getBit (cellStep c s).used a = true :=
  encStep_frame _ _ { s with cursorByte := c.2.2 } hw a hu

theorem cellStep_allBytes (c : Cell) (s : EncState) (h : AllBytes s.msg) : AllBytes (cellStep c s).msg :=
  encStep_allBytes _ _ { s with cursorByte := c.2.2 } h

theorem cellStep_len (c : Cell) (s : EncState) : s.msg.length ≤ (cellStep c s).msg.length := by
  unfold cellStep
  rw [encStep_length]
  exact Nat.le_max_left _ _

theorem cellStep_sameCore (c : Cell) (s t : EncState) (h : SameCore s t) : SameCore (cellStep c s) (cellStep c t) := by
  obtain ⟨h1, h2, h3, h4, h5⟩ := h
  exact encStep_sameCore _ _ _ _ ⟨h1, h2, h3, rfl, h5⟩

theorem enc2_warn_ge : (cs : List Cell) → (s : EncState) → s.warn ≤ (enc2 cs s).warn
  | [], _ => Nat.le_refl _
  | c :: cs, s => Nat.le_trans (cellStep_warn_ge c s) (enc2_warn_ge cs _)

theorem enc2_frame : (cs : List Cell) → (s : EncState) → (enc2 cs s).warn = s.warn → ∀ a, getBit s.used a = true →
    getBit (enc2 cs s).msg a = getBit s.msg a ∧ getBit (enc2 cs s).used a = true
  | [], _, _, _, hu => ⟨rfl, hu⟩
  | c :: cs, s, hw, a, hu => by
    have h1 := cellStep_warn_ge c s
    have h2 := enc2_warn_ge cs (cellStep c s)
    have hw' : (enc2 cs (cellStep c s)).warn = s.warn := hw
    obtain ⟨m1, u1⟩ := cellStep_frame c s (by omega) a hu
    obtain ⟨m2, u2⟩ := enc2_frame cs (cellStep c s) (by omega) a u1
    exact ⟨by show getBit (enc2 cs (cellStep c s)).msg a = _; rw [m2, m1], u2⟩

theorem enc2_allBytes : (cs : List Cell) → (s : EncState) → AllBytes s.msg → AllBytes (enc2 cs s).msg
  | [], _, h => h
  | c :: cs, s, h => enc2_allBytes cs _ (cellStep_allBytes c s h)

theorem enc2_len : (cs : List Cell) → (s : EncState) → s.msg.length ≤ (enc2 cs s).msg.length
  | [], _ => Nat.le_refl _
  | c :: cs, s => Nat.le_trans (cellStep_len c s) (enc2_len cs _)

theorem enc2_sameCore : (cs : List Cell) → (s t : EncState) → SameCore s t → SameCore (enc2 cs s) (enc2 cs t)
  | [], _, _, h => h
  | c :: cs, s, t, h => enc2_sameCore cs _ _ (cellStep_sameCore c s t h)

theorem enc2_origin : (cs : List Cell) → (s : EncState) → (enc2 cs s).origin = s.origin
  | [], _ => rfl
  | c :: cs, s => by
    show (enc2 cs (cellStep c s)).origin = s.origin
    rw [enc2_origin cs]; rfl

/-- **read-back law of the second pass**: without an overlap warning, every cell of a message of bytes that agrees with the
    result of the second pass on the claimed bits holds its key's value -/
theorem enc2_cells : (cs : List Cell) → (∀ c ∈ cs, c.ok) → (s : EncState) → AllBytes s.msg → (enc2 cs s).warn = s.warn →
    ∀ (m : Bytes), AllBytes m → (enc2 cs s).msg.length ≤ m.length →
    (∀ a, getBit (enc2 cs s).used a = true → getBit m a = getBit (enc2 cs s).msg a) → ∀ c ∈ cs, c.holds m
  | [], _, _, _, _, _, _, _, _, c, hc => by cases hc
  | c0 :: cs, hok, s, hall, hw, m, hm, hlen, hagree, c, hc => by
    have h1 := cellStep_warn_ge c0 s
    have h2 := enc2_warn_ge cs (cellStep c0 s)
    have hw' : (enc2 cs (cellStep c0 s)).warn = s.warn := hw
    have hw1 : (cellStep c0 s).warn = s.warn := by omega
    have hw2 : (enc2 cs (cellStep c0 s)).warn = (cellStep c0 s).warn := by omega
    cases hc with
    | head =>
      obtain ⟨hok0, hr0⟩ := hok c0 (List.mem_cons_self ..)
      have hg := Good.ofObj c0.1.atCursor (c0.1.atCursor_ok hok0) (.int c0.2.1) (c0.1.atCursor_inRange _ hr0)
      have hagree1 : ∀ a, getBit (cellStep c0 s).used a = true → getBit m a = getBit (cellStep c0 s).msg a := by
        intro a ha
        obtain ⟨m2, u2⟩ := enc2_frame cs (cellStep c0 s) hw2 a ha
        rw [← m2]; exact hagree a u2
      obtain ⟨hv, _, _, _, hfit⟩ := hg.rt { s with cursorByte := c0.2.2 } { msg := m, origin := s.origin, cursorByte := c0.2.2 }
        hall hw1 rfl rfl hm (Nat.le_trans (enc2_len cs _) hlen) hagree1
      exact ⟨ofObj_fits_len _ _ _ hfit, hv⟩
    | tail _ hmem =>
      exact enc2_cells cs (fun x hx => hok x (List.mem_cons_of_mem _ hx)) (cellStep c0 s) (cellStep_allBytes c0 s hall) hw2
        m hm hlen hagree c hmem

end OdxVerif.Codec
