import OdxVerif.Proofs.CompExtByteSize
import OdxVerif.Proofs.DynLeafMsg
import OdxVerif.Proofs.DynLeafLeading
import OdxVerif.Proofs.CompExtTrig
import OdxVerif.Proofs.CompExtUsed
/-! Compositional components, extension W11 (3): **parameters that can only be encoded while `is_end_of_pdu` is cleared**
    (a MIN-MAX-LENGTH-TYPE object whose termination sequence is written) inside structures, at any depth.
    `Comp.Ok.encode_eq` quantifies over every encoder state, which is false for such a parameter (with the flag set the
    encoder omits the terminator).  `Comp.OkM g mid` is `Comp.Ok g` with the encoder refinement restricted to states with the
    flag cleared when `mid`, and to the states with a property `P` the parameter loop maintains (`ModelInv`);
    `Comp.OkM g false (fun _ => True) ↔ Comp.Ok g`.  The hosting composite guarantees the discipline:
    `composite_codec_encode_into_pdu` clears the flag and hands the original one to the LAST parameter only, and every
    parameter leaves a cleared flag cleared (`encodeParam_keeps_eop_false`).  Hence a STRUCTURE whose `mid` parameters are not
    in last position (`MComps.midNotLast`) is an ordinary component (`DComp.structM_ok`: a full `DComp.Ok`, from every state)
    and can be used wherever a structure component can: as the DOP of a VALUE parameter, as a field item, as a multiplexer
    case, with BYTE-SIZE.  Core Lean only. -/
namespace OdxVerif.Codec
open OdxVerif.Bits OdxVerif.OdxM

/-- a property of encoder states that depends on the message, the used-mask and the triggering request only and that every
    parameter of the model preserves: what the parameter loop can promise every parameter.  `fun _ => True` (nothing: the
    components that can be nested) and `TopInv trig` (the top level of a response to `trig`) are the instances. -/
structure ModelInv (P : EncState → Prop) : Prop where
  keeps : ∀ (fuel : Nat) (p : Param) (pv : Option PVal) (s : EncState) (st : Bool) (s' : EncState),
    encodeParam fuel p pv s st = .ok ((), s') → P s → P s'
  ext : ∀ (s t : EncState), s.msg = t.msg → s.used = t.used → s.trig = t.trig → P s → P t

theorem ModelInv.trivial : ModelInv (fun _ => True) := ⟨fun _ _ _ _ _ _ _ _ => True.intro, fun _ _ _ _ _ _ => True.intro⟩

/-- the triggering request is `trig` and the used-mask covers the message -/
def TopInv (trig : Option Bytes) (s : EncState) : Prop := s.trig = trig ∧ s.msg.length ≤ s.used.length

theorem ModelInv.top (trig : Option Bytes) : ModelInv (TopInv trig) where
  keeps := fun fuel p pv s st s' h hs =>
    ⟨by rw [encodeParam_keeps_trig fuel p pv s st s' h]; exact hs.1, encodeParam_keeps_usedCovers fuel p pv s st s' h hs.2⟩
  ext := fun s t h1 h2 h3 hs => ⟨by rw [← h3]; exact hs.1, by rw [← h1, ← h2]; exact hs.2⟩

/-- `Comp.Ok` with the encoder refinement restricted: if `mid`, only from states with `is_end_of_pdu` cleared; only from
    states with `P` -/
structure Comp.OkM (g : Comp) (mid : Bool) (P : EncState → Prop) : Prop where
  good : Good g.pair
  notKey : g.param.kind.isKey = false
  supplied : g.param.kind.required = true → g.sup.isSome = true
  sup_ne_none : g.sup ≠ some PVal.none
  encode_eq : ∀ (fuel : Nat), g.need ≤ fuel → ∀ (s : EncState), (g.eopOnly = true → s.isEndOfPdu = true) →
    (mid = true → s.isEndOfPdu = false) → P s →
    ∃ s', encodeParam fuel g.param g.sup s true = .ok ((), s') ∧ SameCore s' (g.pair.enc s)
  enc_cursor : ∀ (s : EncState), (g.pair.enc s).cursorByte = g.cur s.origin s.cursorByte
  cur_shift : ∀ (org c p : Nat), g.cur (org + p) (c + p) = g.cur org c + p
  dec_cursorBit : ∀ (d : DecState), d.cursorBit = 0 → (g.pair.dec d).2.cursorBit = 0
  dec_msg : ∀ (d : DecState), (g.pair.dec d).2.msg = d.msg
  dec_origin : ∀ (d : DecState), (g.pair.dec d).2.origin = d.origin
  decode_eq : ∀ (fuel : Nat), g.need ≤ fuel → ∀ (d : DecState), d.cursorBit = 0 → g.pair.fits d → g.decPre d →
    decodeParam fuel g.param d true = .ok ((g.pair.dec d).1, (g.pair.dec d).2)

theorem Comp.Ok.toM {g : Comp} (h : g.Ok) (mid : Bool) (P : EncState → Prop) : g.OkM mid P :=
  { good := h.good, notKey := h.notKey, supplied := h.supplied, sup_ne_none := h.sup_ne_none,
    encode_eq := fun fuel hf s he _ _ => h.encode_eq fuel hf s he,
    enc_cursor := h.enc_cursor, cur_shift := h.cur_shift, dec_cursorBit := h.dec_cursorBit, dec_msg := h.dec_msg,
    dec_origin := h.dec_origin, decode_eq := h.decode_eq }

theorem Comp.OkM.toOk {g : Comp} (h : g.OkM false (fun _ => True)) : g.Ok :=
  { good := h.good, notKey := h.notKey, supplied := h.supplied, sup_ne_none := h.sup_ne_none,
    encode_eq := fun fuel hf s he => h.encode_eq fuel hf s he (fun hm => by cases hm) True.intro,
    enc_cursor := h.enc_cursor, cur_shift := h.cur_shift, dec_cursorBit := h.dec_cursorBit,
    dec_msg := h.dec_msg, dec_origin := h.dec_origin, decode_eq := h.decode_eq }

/-- weakening: described for fewer states -/
theorem Comp.OkM.mono {g : Comp} {mid : Bool} {P Q : EncState → Prop} (h : g.OkM mid P) (hpq : ∀ s, Q s → P s) : g.OkM mid Q :=
  { good := h.good, notKey := h.notKey, supplied := h.supplied, sup_ne_none := h.sup_ne_none,
    encode_eq := fun fuel hf s he hm hq => h.encode_eq fuel hf s he hm (hpq s hq),
    enc_cursor := h.enc_cursor, cur_shift := h.cur_shift, dec_cursorBit := h.dec_cursorBit,
    dec_msg := h.dec_msg, dec_origin := h.dec_origin, decode_eq := h.decode_eq }

/-- a described parameter with its flag -/
structure MComp where
  c : Comp
  mid : Bool := false

def MComps.cs (ms : List MComp) : List Comp := ms.map MComp.c

theorem MComps.cs_nil : MComps.cs [] = [] := rfl
theorem MComps.cs_cons (m : MComp) (ms : List MComp) : MComps.cs (m :: ms) = m.c :: MComps.cs ms := rfl

def MComps.okAll (P : EncState → Prop) : List MComp → Prop
  | [] => True
  | m :: ms => m.c.OkM m.mid P ∧ MComps.okAll P ms

/-- the flag of the last parameter: a structure ending with a parameter that needs `is_end_of_pdu` cleared needs it cleared -/
def MComps.lastMid : List MComp → Bool
  | [] => false
  | [m] => m.mid
  | _ :: m2 :: rest => MComps.lastMid (m2 :: rest)

/-- parameters that need `is_end_of_pdu` cleared do not occur in the last place -/
def MComps.midNotLast (ms : List MComp) : Prop := MComps.lastMid ms = false

theorem MComps.lastMid_tail (m : MComp) (m2 : MComp) (rest : List MComp) :
    MComps.lastMid (m :: m2 :: rest) = MComps.lastMid (m2 :: rest) := rfl

theorem MComps.okAll_of_forall (P : EncState → Prop) : (ms : List MComp) → (∀ m ∈ ms, m.c.OkM m.mid P) → MComps.okAll P ms
  | [], _ => trivial
  | m :: ms, h => ⟨h m (List.mem_cons_self ..), MComps.okAll_of_forall P ms (fun x hx => h x (List.mem_cons_of_mem _ hx))⟩

theorem MComps.ok_of_mem {P : EncState → Prop} {ms : List MComp} (hok : MComps.okAll P ms) {m : MComp} (hm : m ∈ ms) :
    m.c.OkM m.mid P := by
  induction ms with
  | nil => cases hm
  | cons u us ih =>
    cases hm with
    | head => exact hok.1
    | tail _ hmem => exact ih hok.2 hmem

theorem MComps.mem_cs {ms : List MComp} {g : Comp} (hg : g ∈ MComps.cs ms) : ∃ m ∈ ms, m.c = g :=
  List.mem_map.mp hg

/-- plain components, none of them `mid` -/
def MComps.ofComps (gs : List Comp) : List MComp := gs.map (fun g => { c := g, mid := false })

theorem MComps.cs_ofComps (gs : List Comp) : MComps.cs (MComps.ofComps gs) = gs := by
  induction gs with
  | nil => rfl
  | cons g gs ih => simp only [MComps.ofComps, List.map_cons, MComps.cs_cons] at ih ⊢; rw [ih]

theorem MComps.okAll_ofComps (P : EncState → Prop) : (gs : List Comp) → Comps.okAll gs → MComps.okAll P (MComps.ofComps gs)
  | [], _ => trivial
  | _ :: gs, h => ⟨h.1.toM false P, MComps.okAll_ofComps P gs h.2⟩

theorem MComps.midNotLast_ofComps : (gs : List Comp) → MComps.midNotLast (MComps.ofComps gs)
  | [] => rfl
  | [_] => rfl
  | _ :: g2 :: rest => MComps.midNotLast_ofComps (g2 :: rest)

/-! ### the list lemmas of `Proofs/CompCore.lean` once more (only `encode_eq` differs) -/

theorem MComps.good {P : EncState → Prop} : (ms : List MComp) → MComps.okAll P ms → Good (Comps.pair (MComps.cs ms))
  | [], _ => Good.nil _
  | _ :: ms, h => (h.1.good.seq (MComps.good ms h.2)).map _

theorem MComps.lookupV_values {P : EncState → Prop} (ms : List MComp) (hok : MComps.okAll P ms) (hn : Comps.namesOk (MComps.cs ms)) (g : Comp)
    (hg : g ∈ MComps.cs ms) :
    lookupV g.name (Comps.values (MComps.cs ms)) = g.sup ∧
    (g.param.kind.required = true → (lookup g.name (Comps.values (MComps.cs ms))).isNone = false) := by
  have hl := Comps.lookup_values (MComps.cs ms) hn g hg
  obtain ⟨m, hm, rfl⟩ := MComps.mem_cs hg
  have hgok := MComps.ok_of_mem hok hm
  constructor
  · unfold lookupV
    rw [hl]
    have := hgok.sup_ne_none
    cases hv : m.c.sup with
    | none => rfl
    | some v => cases v <;> simp_all
  · intro hr
    rw [hl]
    have := hgok.supplied hr
    cases hv : m.c.sup <;> simp_all

theorem MComps.toParams_notKey {P : EncState → Prop} (ms : List MComp) (hok : MComps.okAll P ms) :
    ∀ p ∈ Comps.toParams (MComps.cs ms), p.kind.isKey = false := by
  intro p hp
  obtain ⟨g, hg, rfl⟩ := List.mem_map.mp hp
  obtain ⟨m, hm, rfl⟩ := MComps.mem_cs hg
  exact (MComps.ok_of_mem hok hm).notKey

/-- the first encoding loop over a list of components some of which need the flag cleared: all but the last parameter are
    encoded with `is_end_of_pdu` cleared (the state the loop is started from has it cleared) -/
theorem MComps.encode_eq {P : EncState → Prop} (hP : ModelInv P) : (ms : List MComp) → MComps.okAll P ms → Comps.eopLast (MComps.cs ms) →
    ∀ (values : List (String × PVal)),
    (∀ g ∈ MComps.cs ms, lookupV g.name values = g.sup ∧ (g.param.kind.required = true → (lookup g.name values).isNone = false)) →
    ∀ (fuel : Nat), Comps.need (MComps.cs ms) ≤ fuel → ∀ (eop : Bool), (Comps.anyEop (MComps.cs ms) = true → eop = true) →
    (MComps.lastMid ms = true → eop = false) →
    ∀ (s : EncState), s.isEndOfPdu = false → P s →
    ∃ s', encodeParams eop values fuel (Comps.toParams (MComps.cs ms)) s true = .ok ((), s') ∧
      SameCore s' ((Comps.pair (MComps.cs ms)).enc s) ∧ (s.cursorBit = 0 → s'.cursorBit = 0)
  | [], _, _, values, _, fuel, hf, eop, _, _, s, _, _ => by
    simp only [MComps.cs_nil, Comps.need] at hf
    obtain ⟨f, rfl⟩ : ∃ f, fuel = f + 1 := ⟨fuel - 1, by omega⟩
    exact ⟨s, by simp [MComps.cs_nil, Comps.toParams, encodeParams, pure, run_pure], SameCore.refl _, id⟩
  | m :: ms, hok, hlast, values, hlook, fuel, hf, eop, heop, hmid, s, hs0, hst => by
    simp only [MComps.okAll] at hok
    simp only [MComps.cs_cons, Comps.need] at hf
    obtain ⟨f, rfl⟩ : ∃ f, fuel = f + 1 := ⟨fuel - 1, by omega⟩
    obtain ⟨hl, hreq⟩ := hlook m.c (by rw [MComps.cs_cons]; exact List.mem_cons_self ..)
    have hemp0 : (MComps.cs ms).isEmpty = ms.isEmpty := by cases ms <;> rfl
    have hsmEop : m.c.eopOnly = true → (if ms.isEmpty then { s with isEndOfPdu := eop } else s).isEndOfPdu = true := by
      intro he
      cases ms with
      | nil =>
        have : eop = true := heop (by simp [MComps.cs, Comps.anyEop, he])
        simp [this]
      | cons m2 rest =>
        have : m.c.eopOnly = false := hlast.1
        rw [this] at he; cases he
    have hsmMid : m.mid = true → (if ms.isEmpty then { s with isEndOfPdu := eop } else s).isEndOfPdu = false := by
      intro hm
      cases ms with
      | nil =>
        have : eop = false := hmid hm
        simp [this]
      | cons m2 rest => exact hs0
    let sm : EncState := if ms.isEmpty then { s with isEndOfPdu := eop } else s
    have hsm : SameCore sm s := by
      show SameCore (if ms.isEmpty then { s with isEndOfPdu := eop } else s) s
      split
      · exact ⟨rfl, rfl, rfl, rfl, rfl⟩
      · exact SameCore.refl s
    have hsmT : P (if ms.isEmpty then { s with isEndOfPdu := eop } else s) := by
      split
      · exact hP.ext s _ rfl rfl rfl hst
      · exact hst
    obtain ⟨s1, hstep, hc1⟩ := hok.1.encode_eq f (by omega) sm hsmEop hsmMid hsmT
    have hcb1 : s1.cursorBit = 0 := encodeParam_cursorBit _ _ _ _ _ _ hstep
    have hgt := hok.1.good
    have hgts := MComps.good ms hok.2
    have hstep' : encodeParam f m.c.param m.c.sup (if ms.isEmpty then { s with isEndOfPdu := eop } else s) true
        = .ok ((), s1) := hstep
    have hl' : lookupV m.c.param.name values = m.c.sup := hl
    have hemp : (List.map Comp.param (MComps.cs ms)).isEmpty = ms.isEmpty := by cases ms <;> rfl
    cases ms with
    | nil =>
      refine ⟨s1, ?_, ?_, fun _ => hcb1⟩
      · simp only [MComps.cs_cons, MComps.cs_nil, Comps.toParams, List.map_cons, List.map_nil]
        rw [encodeParams_cons_nonkey eop values f m.c.param hok.1.notKey _ s hreq]
        rw [hl']
        have hstep2 : encodeParam f m.c.param m.c.sup (if ([] : List Param).isEmpty then { s with isEndOfPdu := eop } else s) true
            = .ok ((), s1) := hstep'
        rw [hstep2]
        obtain ⟨f', rfl⟩ : ∃ f', f = f' + 1 := ⟨f - 1, by simp only [MComps.cs_nil, Comps.need] at hf; omega⟩
        simp [encodeParams, pure, run_pure]
      · simp only [MComps.cs_cons, MComps.cs_nil, Comps.pair, Pair.map, Pair.seq, Pair.nil, id]
        exact hc1.trans (hgt.core _ _ hsm)
    | cons m2 rest =>
      have hs1 : s1.isEndOfPdu = false := encodeParam_keeps_eop_false f _ _ s true s1 hstep hs0
      have hs1t : P s1 := hP.keeps f _ _ s true s1 hstep hst
      obtain ⟨s2, hrest, hc2, hcb2⟩ := MComps.encode_eq hP (m2 :: rest) hok.2 (Comps.eopLast_tail m.c _ hlast) values
        (fun u hu => hlook u (by rw [MComps.cs_cons]; exact List.mem_cons_of_mem _ hu)) f (by omega) eop
        (fun h => heop (by simp only [MComps.cs_cons, Comps.anyEop, List.any_cons] at h ⊢; simp [h])) hmid s1 hs1 hs1t
      refine ⟨s2, ?_, ?_, fun _ => hcb2 hcb1⟩
      · simp only [MComps.cs_cons, Comps.toParams, List.map_cons]
        have hstep2 : encodeParam f m.c.param m.c.sup s true = .ok ((), s1) := hstep'
        have := encodeParams_cons_nonkey eop values f m.c.param hok.1.notKey
          (m2.c.param :: List.map Comp.param (MComps.cs rest)) s hreq
        rw [this, hl']
        simp only [List.isEmpty_cons, Bool.false_eq_true, if_false]
        rw [hstep2]
        exact hrest
      · simp only [MComps.cs_cons, Comps.pair, Pair.map, Pair.seq]
        exact hc2.trans (hgts.core _ _ (hc1.trans (hgt.core _ _ hsm)))

theorem MComps.dec_cursorBit {P : EncState → Prop} : (ms : List MComp) → MComps.okAll P ms → ∀ (d : DecState), d.cursorBit = 0 →
    ((Comps.pair (MComps.cs ms)).dec d).2.cursorBit = 0
  | [], _, _, h => h
  | m :: ms, hok, d, h => by
    simp only [MComps.cs_cons, Comps.pair, Pair.map, Pair.seq]
    exact MComps.dec_cursorBit ms hok.2 _ (hok.1.dec_cursorBit d h)

theorem MComps.dec_msg {P : EncState → Prop} : (ms : List MComp) → MComps.okAll P ms → ∀ (d : DecState),
    ((Comps.pair (MComps.cs ms)).dec d).2.msg = d.msg
  | [], _, _ => rfl
  | m :: ms, hok, d => by
    simp only [MComps.cs_cons, Comps.pair, Pair.map, Pair.seq]
    rw [MComps.dec_msg ms hok.2, hok.1.dec_msg]

theorem MComps.dec_origin {P : EncState → Prop} : (ms : List MComp) → MComps.okAll P ms → ∀ (d : DecState),
    ((Comps.pair (MComps.cs ms)).dec d).2.origin = d.origin
  | [], _, _ => rfl
  | m :: ms, hok, d => by
    simp only [MComps.cs_cons, Comps.pair, Pair.map, Pair.seq]
    rw [MComps.dec_origin ms hok.2, hok.1.dec_origin]

theorem MComps.enc_cursor {P : EncState → Prop} : (ms : List MComp) → MComps.okAll P ms → ∀ (s : EncState),
    ((Comps.pair (MComps.cs ms)).enc s).cursorByte = Comps.cur (MComps.cs ms) s.origin s.cursorByte
  | [], _, _ => rfl
  | m :: ms, hok, s => by
    have h1 := hok.1.enc_cursor s
    have h2 := MComps.enc_cursor ms hok.2 (m.c.pair.enc s)
    simp only [MComps.cs_cons, Comps.pair, Pair.map, Pair.seq, Comps.cur]
    rw [h2, h1, hok.1.good.origin]

theorem MComps.cur_shift {P : EncState → Prop} : (ms : List MComp) → MComps.okAll P ms → ∀ (org c p : Nat),
    Comps.cur (MComps.cs ms) (org + p) (c + p) = Comps.cur (MComps.cs ms) org c + p
  | [], _, _, _, _ => rfl
  | m :: ms, hok, org, c, p => by
    simp only [MComps.cs_cons, Comps.cur, hok.1.cur_shift org c p]
    exact MComps.cur_shift ms hok.2 org _ p

theorem MComps.decode_eq {P : EncState → Prop} : (ms : List MComp) → MComps.okAll P ms → ∀ (fuel : Nat), Comps.need (MComps.cs ms) ≤ fuel →
    ∀ (d : DecState), d.cursorBit = 0 → (Comps.pair (MComps.cs ms)).fits d → Comps.decPre (MComps.cs ms) d →
    decodeParams fuel (Comps.toParams (MComps.cs ms)) d true =
      .ok (((Comps.pair (MComps.cs ms)).dec d).1, ((Comps.pair (MComps.cs ms)).dec d).2)
  | [], _, fuel, hf, d, _, _, _ => by
    simp only [MComps.cs_nil, Comps.need] at hf
    obtain ⟨f, rfl⟩ : ∃ f, fuel = f + 1 := ⟨fuel - 1, by omega⟩
    simp [MComps.cs_nil, Comps.toParams, decodeParams, pure, run_pure, Comps.pair, Pair.nil]
  | m :: ms, hok, fuel, hf, d, hcb, hfit, hpre => by
    simp only [MComps.okAll] at hok
    simp only [MComps.cs_cons, Comps.need] at hf
    obtain ⟨f, rfl⟩ : ∃ f, fuel = f + 1 := ⟨fuel - 1, by omega⟩
    have hfit' : m.c.pair.fits d ∧ (Comps.pair (MComps.cs ms)).fits (m.c.pair.dec d).2 := hfit
    have hpre' : m.c.decPre d ∧ Comps.decPre (MComps.cs ms) (m.c.pair.dec d).2 := hpre
    have h1 := hok.1.decode_eq f (by omega) d hcb hfit'.1 hpre'.1
    have h2 := MComps.decode_eq ms hok.2 f (by omega) (m.c.pair.dec d).2 (hok.1.dec_cursorBit d hcb) hfit'.2 hpre'.2
    have h2' : decodeParams f (List.map Comp.param (MComps.cs ms)) (m.c.pair.dec d).2 true = _ := h2
    simp only [MComps.cs_cons, Comps.toParams, List.map_cons, decodeParams, bind, run_bind, h1, h2', pure, run_pure]
    rfl

theorem MComps.decPre_intro {P : EncState → Prop} : (ms : List MComp) → MComps.okAll P ms → Comps.endOkAll (MComps.cs ms) →
    Comps.eopLast (MComps.cs ms) → ∀ (d : DecState),
    (Comps.anyEop (MComps.cs ms) = true → ((Comps.pair (MComps.cs ms)).dec d).2.cursorByte = d.msg.length) →
    Comps.decPre (MComps.cs ms) d
  | [], _, _, _, _, _ => trivial
  | [m], _, hend, _, d, h => by
    refine ⟨?_, trivial⟩
    cases he : m.c.eopOnly with
    | false => exact hend.1.trivial he d
    | true => exact hend.1.of_end d (h (by simp [MComps.cs, Comps.anyEop, he]))
  | m :: m2 :: rest, hok, hend, hlast, d, h => by
    refine ⟨hend.1.trivial hlast.1 d, ?_⟩
    apply MComps.decPre_intro (m2 :: rest) hok.2 hend.2 hlast.2 (m.c.pair.dec d).2
    intro hany
    have := h (by simp only [MComps.cs_cons, Comps.anyEop, List.any_cons] at hany ⊢; simp [hany])
    rw [hok.1.dec_msg d]
    exact this

/-! ### closure: a STRUCTURE whose parameters are components, `mid` ones not in last position -/

/-- the encoder refinement of a structure over `ms`, from states with the triggering request the parameters are described for -/
theorem DComp.structM_encode_eq {P : EncState → Prop} (hP : ModelInv P) (ms : List MComp) (hok : MComps.okAll P ms)
    (hn : Comps.namesOk (MComps.cs ms)) (hlast : Comps.eopLast (MComps.cs ms))
    (fuel : Nat) (hf : (DComp.struct (MComps.cs ms)).need ≤ fuel) (s : EncState) (hcb : s.cursorBit = 0)
    (heop : (DComp.struct (MComps.cs ms)).eopOnly = true → s.isEndOfPdu = true)
    (hmid : MComps.lastMid ms = true → s.isEndOfPdu = false) (hst : P s) :
    ∃ s', encodeDop fuel (DComp.struct (MComps.cs ms)).dop (DComp.struct (MComps.cs ms)).sup s true = .ok ((), s') ∧
      SameCore s' ((DComp.struct (MComps.cs ms)).pair.enc s) ∧ s'.cursorBit = 0 := by
  obtain ⟨f, rfl⟩ : ∃ f, fuel = f + 1 + 1 := ⟨fuel - 2, by simp only [DComp.struct] at hf; omega⟩
  have hf' : Comps.need (MComps.cs ms) ≤ f := by simp only [DComp.struct] at hf; omega
  let sIn : EncState := { s with origin := s.cursorByte, isEndOfPdu := false, cursorBit := 0 }
  obtain ⟨sp, hrun, hcore, hspcb⟩ := MComps.encode_eq hP ms hok hlast (Comps.values (MComps.cs ms))
    (fun g hg => MComps.lookupV_values ms hok hn g hg) f hf' s.isEndOfPdu heop hmid sIn rfl (hP.ext s sIn rfl rfl rfl hst)
  obtain ⟨e, rfl⟩ : ∃ e, f = (MComps.cs ms).length + 1 + e :=
    ⟨f - ((MComps.cs ms).length + 1), by have := Comps.need_ge (MComps.cs ms); omega⟩
  have hlen : (Comps.toParams (MComps.cs ms)).length = (MComps.cs ms).length := by simp [Comps.toParams]
  have hkeys := encodeKeyValues_nonkey (Comps.toParams (MComps.cs ms)) (MComps.toParams_notKey ms hok) e
    { sp with isEndOfPdu := false } true
  rw [hlen] at hkeys
  have hg := MComps.good ms hok
  refine ⟨{ sp with isEndOfPdu := false, origin := s.origin }, ?_, ?_, hspcb rfl⟩
  · have hrun' : encodeParams s.isEndOfPdu (Comps.values (MComps.cs ms)) ((MComps.cs ms).length + 1 + e)
        (Comps.toParams (MComps.cs ms)) { s with origin := s.cursorByte, isEndOfPdu := false, cursorBit := 0 } true
        = .ok ((), sp) := hrun
    simp only [DComp.struct, encodeDop, encodeComposite, bind, pure, run_bind, run_getS, run_modifyS, run_pure, run_ite, hcb,
      Comps.known_values, Bool.false_eq_true, if_false, ne_eq, not_true_eq_false]
    rw [hrun']
    simp only []
    rw [hkeys]
  · have hin : SameCore sIn { s with origin := s.cursorByte } := ⟨rfl, rfl, rfl, rfl, rfl⟩
    have h2 := hcore.trans (hg.core _ _ hin)
    exact ⟨h2.1, h2.2.1, h2.2.2.1, h2.2.2.2.1, rfl⟩

theorem DComp.structM_good {P : EncState → Prop} (ms : List MComp) (hok : MComps.okAll P ms) :
    Good (DComp.struct (MComps.cs ms)).pair := ((MComps.good ms hok).inOrigin).map _

theorem DComp.structM_enc_cursor {P : EncState → Prop} (ms : List MComp) (hok : MComps.okAll P ms) (s : EncState) :
    ((DComp.struct (MComps.cs ms)).pair.enc s).cursorByte = s.cursorByte + (DComp.struct (MComps.cs ms)).size := by
  have h := MComps.enc_cursor ms hok { s with origin := s.cursorByte }
  have hs := MComps.cur_shift ms hok 0 0 s.cursorByte
  simp only [Nat.zero_add] at hs
  show ((Comps.pair (MComps.cs ms)).enc { s with origin := s.cursorByte }).cursorByte = _
  rw [h, hs]
  simp only [DComp.struct]
  omega

theorem DComp.structM_decode_eq {P : EncState → Prop} (ms : List MComp) (hok : MComps.okAll P ms) (fuel : Nat)
    (hf : (DComp.struct (MComps.cs ms)).need ≤ fuel) (d : DecState) (hcb : d.cursorBit = 0)
    (hfit : (DComp.struct (MComps.cs ms)).pair.fits d) (hpre : (DComp.struct (MComps.cs ms)).decPre d) :
    decodeDop fuel (DComp.struct (MComps.cs ms)).dop d true =
      .ok (((DComp.struct (MComps.cs ms)).pair.dec d).1, ((DComp.struct (MComps.cs ms)).pair.dec d).2) := by
  obtain ⟨f, rfl⟩ : ∃ f, fuel = f + 1 + 1 := ⟨fuel - 2, by simp only [DComp.struct] at hf; omega⟩
  have hf' : Comps.need (MComps.cs ms) ≤ f := by simp only [DComp.struct] at hf; omega
  have hfit' : (Comps.pair (MComps.cs ms)).fits { d with origin := d.cursorByte } := hfit
  have hrun := MComps.decode_eq ms hok f hf' { d with origin := d.cursorByte } hcb hfit' hpre
  simp only [DComp.struct, decodeDop, decodeComposite, bind, pure, run_bind, run_getS, run_modifyS, run_pure]
  rw [hrun]
  rfl

/-- **closure under STRUCTURE with `mid` parameters**: a data object that needs `is_end_of_pdu` cleared iff its LAST parameter
    does (the flag of the enclosing composite reaches the last parameter only); the parameters must be described for every
    state (all kinds but MATCHING-REQUEST-PARAM are) -/
theorem DComp.structM_okM (ms : List MComp) (hok : MComps.okAll (fun _ => True) ms) (hn : Comps.namesOk (MComps.cs ms))
    (hlast : Comps.eopLast (MComps.cs ms)) : (DComp.struct (MComps.cs ms)).OkM (MComps.lastMid ms) :=
  { good := DComp.structM_good ms hok
    sup_ne_none := by simp [DComp.struct]
    originFree := (OriginFree.inOrigin (Comps.pair (MComps.cs ms))).map _
    dec_originFree := fun _ _ => rfl
    fits_originFree := fun _ _ => rfl
    encode_eq := fun fuel hf s hcb heop hmid =>
      DComp.structM_encode_eq ModelInv.trivial ms hok hn hlast fuel hf s hcb heop hmid True.intro
    enc_cursor := DComp.structM_enc_cursor ms hok
    dec_cursorBit := fun d h => MComps.dec_cursorBit ms hok { d with origin := d.cursorByte } h
    dec_msg := fun d => MComps.dec_msg ms hok { d with origin := d.cursorByte }
    dec_origin := fun _ => rfl
    decode_eq := DComp.structM_decode_eq ms hok }

/-- … an ordinary component (from every encoder state) when no `mid` parameter is last -/
theorem DComp.structM_ok (ms : List MComp) (hok : MComps.okAll (fun _ => True) ms) (hn : Comps.namesOk (MComps.cs ms))
    (hlast : Comps.eopLast (MComps.cs ms)) (hmid : MComps.midNotLast ms) : (DComp.struct (MComps.cs ms)).Ok := by
  have h := DComp.structM_okM ms hok hn hlast
  rw [show MComps.lastMid ms = false from hmid] at h
  exact h.toOk

theorem DComp.structM_endOk {P : EncState → Prop} (ms : List MComp) (hok : MComps.okAll P ms) (hend : Comps.endOkAll (MComps.cs ms))
    (hlast : Comps.eopLast (MComps.cs ms)) : (DComp.struct (MComps.cs ms)).EndOk where
  of_end := by
    intro d h
    apply MComps.decPre_intro ms hok hend hlast
    intro _
    exact h
  trivial := fun h d => Comps.decPre_of_noEop _ hend h _

/-- a VALUE parameter typed by a data object that needs the flag cleared needs the flag cleared -/
theorem Comp.ofValueM_ok (name : String) (bp : Option Nat) (c : DComp) (mid : Bool) (hc : c.OkM mid) (P : EncState → Prop) :
    (Comp.ofValue name bp c).OkM mid P where
  good := hc.good.atPos bp
  notKey := rfl
  supplied := fun _ => rfl
  sup_ne_none := by
    have := hc.sup_ne_none
    simpa [Comp.ofValue] using this
  encode_eq := by
    intro fuel hf s heop hmid _
    obtain ⟨f, rfl⟩ : ∃ f, fuel = f + 1 := ⟨fuel - 1, by simp only [Comp.ofValue] at hf; omega⟩
    obtain ⟨s1, hrun, hcore, _⟩ := hc.encode_eq f (by simp only [Comp.ofValue] at hf; omega)
      { s with cursorByte := posOf bp s.origin s.cursorByte, cursorBit := 0 } rfl heop hmid
    refine ⟨{ s1 with cursorBit := 0 }, ?_, ?_⟩
    · simp only [Comp.ofValue]
      rw [encodeParam_value_step]
      simp only [Option.getD_none]
      rw [hrun]
    · have hin : SameCore { s with cursorByte := posOf bp s.origin s.cursorByte, cursorBit := 0 }
          { s with cursorByte := posOf bp s.origin s.cursorByte } := ⟨rfl, rfl, rfl, rfl, rfl⟩
      have h2 := hcore.trans (hc.good.core _ _ hin)
      exact ⟨h2.1, h2.2.1, h2.2.2.1, h2.2.2.2.1, h2.2.2.2.2⟩
  enc_cursor := fun s => hc.enc_cursor { s with cursorByte := posOf bp s.origin s.cursorByte }
  cur_shift := by
    intro org c p
    simp only [Comp.ofValue, posOf_shift]
    omega
  dec_cursorBit := fun d h => hc.dec_cursorBit { d with cursorByte := posOf bp d.origin d.cursorByte } h
  dec_msg := fun d => hc.dec_msg { d with cursorByte := posOf bp d.origin d.cursorByte }
  dec_origin := fun d => hc.dec_origin { d with cursorByte := posOf bp d.origin d.cursorByte }
  decode_eq := by
    intro fuel hf d hcb hfit hpre
    obtain ⟨f, rfl⟩ : ∃ f, fuel = f + 1 := ⟨fuel - 1, by simp only [Comp.ofValue] at hf; omega⟩
    have hd1 : ({ d with cursorByte := posOf bp d.origin d.cursorByte, cursorBit := 0 } : DecState) =
        { d with cursorByte := posOf bp d.origin d.cursorByte } := by rw [← hcb]
    have hrun := hc.decode_eq f (by simp only [Comp.ofValue] at hf; omega)
      { d with cursorByte := posOf bp d.origin d.cursorByte } hcb hfit hpre
    have hcb2 := hc.dec_cursorBit { d with cursorByte := posOf bp d.origin d.cursorByte } hcb
    simp only [Comp.ofValue]
    rw [decodeParam_value_step]
    simp only [Option.getD_none]
    rw [hd1, hrun]
    simp only [Pair.atPos]
    rw [DecState.cursorBit_eta _ hcb2]

/-! ### the leaves -/

theorem bytesAt_enc_cursor (bs : Bytes) (s : EncState) : ((Pair.bytesAt bs).enc s).cursorByte = s.cursorByte + bs.length := by
  by_cases h : bs = []
  · subst h; simp [Pair.bytesAt, rawStep_cursor]
  · simp only [Pair.bytesAt, h, if_false, encStep_cursor]
    show s.cursorByte + (bytesObj bs.length).k = _
    rw [bytesObj_k]

/-- every `MItem.Ok` parameter is a component in the restricted sense (given where its encoder's cursor ends up) -/
def Comp.ofMItem (m : MItem) (cur : Nat → Nat → Nat) : Comp := Comp.ofGItem m.g cur

theorem Comp.ofMItem_ok (m : MItem) (h : m.Ok) (cur : Nat → Nat → Nat)
    (hcur : ∀ (s : EncState), (m.g.pair.enc s).cursorByte = cur s.origin s.cursorByte)
    (hshift : ∀ (org c p : Nat), cur (org + p) (c + p) = cur org c + p)
    (horigin : ∀ (d : DecState), (m.g.pair.dec d).2.origin = d.origin) (P : EncState → Prop) :
    (Comp.ofMItem m cur).OkM m.mid P where
  good := h.good
  notKey := by
    rcases h.kind with ⟨_, _, _, hp⟩ | ⟨_, _, _, _, hp⟩ <;> simp [Comp.ofMItem, Comp.ofGItem, hp, Param.kind, PKind.isKey]
  supplied := fun _ => rfl
  sup_ne_none := by
    have := h.val_ne_none
    simpa [Comp.ofMItem, Comp.ofGItem] using this
  encode_eq := fun fuel hf s he hm _ => h.encode_eq fuel hf s he hm
  enc_cursor := hcur
  cur_shift := hshift
  dec_cursorBit := h.dec_cursorBit
  dec_msg := h.dec_msg
  dec_origin := horigin
  decode_eq := h.decode_eq

/-- **terminated MIN-MAX-LENGTH-TYPE parameter** (`mid`): payload, then the termination sequence -/
def Comp.ofMinMaxMid (l : MMLeaf) : Comp :=
  Comp.ofMItem l.toMid (fun org c => posOf l.bytePos org c + l.raw.length + l.tseq.length)

theorem Comp.ofMinMaxMid_ok (l : MMLeaf) (h : l.okMid) (P : EncState → Prop) : (Comp.ofMinMaxMid l).OkM true P :=
  Comp.ofMItem_ok l.toMid (l.toMid_ok h) _
    (fun s => by
      show (rawStep l.tseq ((Pair.bytesAt l.raw).enc { s with cursorByte := posOf l.bytePos s.origin s.cursorByte })).cursorByte = _
      rw [rawStep_cursor, bytesAt_enc_cursor])
    (fun org c p => by simp only [posOf_shift]; omega)
    (fun _ => rfl) P

theorem Comp.ofMinMaxMid_endOk (l : MMLeaf) : (Comp.ofMinMaxMid l).EndOk := Comp.endOk_of_plain _ rfl

/-- **MIN-MAX-LENGTH-TYPE parameter with a value of exactly MAX-LENGTH bytes**: no terminator, anywhere -/
def Comp.ofMinMaxFull (l : MMLeaf) : Comp := Comp.ofGItem l.gFull (fun org c => posOf l.bytePos org c + l.raw.length)

theorem Comp.ofMinMaxFull_ok (l : MMLeaf) (h : l.okFull) : (Comp.ofMinMaxFull l).Ok :=
  Comp.ofGItem_ok l.gFull (l.gFull_ok h) _
    (fun s => by
      show ((Pair.bytesAt l.raw).enc { s with cursorByte := posOf l.bytePos s.origin s.cursorByte }).cursorByte = _
      rw [bytesAt_enc_cursor])
    (fun org c p => by simp only [posOf_shift]; omega)
    (fun _ => rfl)

theorem Comp.ofMinMaxFull_endOk (l : MMLeaf) : (Comp.ofMinMaxFull l).EndOk := Comp.endOk_of_plain _ rfl

/-- **MIN-MAX-LENGTH-TYPE parameter ended by the end of the PDU** (any TERMINATION): `eopOnly` -/
def Comp.ofMinMaxLast (l : MMLeaf) : Comp := Comp.ofGItem l.gLast (fun org c => posOf l.bytePos org c + l.raw.length)

theorem Comp.ofMinMaxLast_ok (l : MMLeaf) (h : l.okLast) : (Comp.ofMinMaxLast l).Ok :=
  Comp.ofGItem_ok l.gLast (l.gLast_ok h) _
    (fun s => by
      show ((Pair.bytesAt l.raw).enc { s with cursorByte := posOf l.bytePos s.origin s.cursorByte }).cursorByte = _
      rw [bytesAt_enc_cursor])
    (fun org c p => by simp only [posOf_shift]; omega)
    (fun _ => rfl)

theorem Comp.ofMinMaxLast_endOk (l : MMLeaf) (h : l.okLast) : (Comp.ofMinMaxLast l).EndOk :=
  Comp.ofGItem_endOk l.gLast (l.gLast_ok h) _

/-- **LEADING-LENGTH-INFO-TYPE parameter**: the length prefix (any bit length 1–64, bit position), then the payload -/
def Comp.ofLeading (l : LeadLeaf) : Comp :=
  Comp.ofGItem l.toG (fun org c => l.lenObj.pos org c + l.lenObj.k + l.raw.length)

theorem Comp.ofLeading_ok (l : LeadLeaf) (h : l.ok) : (Comp.ofLeading l).Ok :=
  Comp.ofGItem_ok l.toG (l.toG_ok h) _
    (fun s => by
      show ((Pair.bytesAt l.raw).enc (encStep l.lenObj (.int l.raw.length) s)).cursorByte = _
      rw [bytesAt_enc_cursor, encStep_cursor])
    (fun org c p => by simp only [Obj.pos_shift]; omega)
    (fun _ => rfl)

theorem Comp.ofLeading_endOk (l : LeadLeaf) : (Comp.ofLeading l).EndOk := Comp.endOk_of_plain _ rfl

end OdxVerif.Codec
