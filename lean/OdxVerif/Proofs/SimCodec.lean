import OdxVerif.Proofs.SimAtomic
import OdxVerif.Proofs.SimCompu
/-! `Sim` for the whole composite codec model, by induction on the fuel of the mutually recursive functions. -/
namespace OdxVerif.Codec
open OdxVerif.OdxM OdxVerif.Bits

macro "sim3" : tactic => `(tactic| repeat (first
    | exact sim_emplaceAtomic _ _ _ _ _ _ | exact sim_extractAtomic _ _ _ _ | exact sim_encodeDct _ _ | exact sim_decodeDct _
    | exact sim_emplaceBytes _ _ | exact sim_keyValidCheck _ _ | exact sim_keyReprCheck _ _
    | exact sim_dopP2I _ _ | exact sim_dopI2P _ _ | exact sim_methodP2I _ _ | exact sim_methodI2P _ _ _
    | sim_step | split | dsimp only))

theorem sim_encodeKeyPlaceholder (name : String) (bytePos bitPos : Option Nat) (dop : Dop) (pv : Option PVal) :
    Sim (encodeKeyPlaceholder name bytePos bitPos dop pv) := by
  unfold encodeKeyPlaceholder
  sim3

/-- all seven mutually recursive encoding functions, by induction on the fuel -/
theorem sim_encode_all (fuel : Nat) :
    (∀ d pv, Sim (encodeDop fuel d pv)) ∧
    (∀ item eop xs, Sim (encodeItems item eop fuel xs)) ∧
    (∀ item sz eop xs, Sim (encodeStaticItems item sz eop fuel xs)) ∧
    (∀ p pv, Sim (encodeParam fuel p pv)) ∧
    (∀ eop values ps, Sim (encodeParams eop values fuel ps)) ∧
    (∀ ps, Sim (encodeKeyValues fuel ps)) ∧
    (∀ ps pv, Sim (encodeComposite fuel ps pv)) := by
  induction fuel with
  | zero =>
    refine ⟨?_, ?_, ?_, ?_, ?_, ?_, ?_⟩ <;> intros
    · unfold encodeDop; exact sim_raise _
    · unfold encodeItems; exact sim_raise _
    · unfold encodeStaticItems; exact sim_raise _
    · unfold encodeParam; exact sim_raise _
    · unfold encodeParams; exact sim_raise _
    · unfold encodeKeyValues; exact sim_raise _
    · unfold encodeComposite; exact sim_raise _
  | succ fuel ih =>
    obtain ⟨ihDop, ihItems, ihStatic, ihParam, ihParams, ihKeys, ihComp⟩ := ih
    refine ⟨?_, ?_, ?_, ?_, ?_, ?_, ?_⟩
    · intro d pv
      cases d <;> unfold encodeDop <;>
        repeat (first
          | exact ihDop _ _ | exact ihItems _ _ _ | exact ihStatic _ _ _ _ | exact ihComp _ _ | exact ihParam _ _
          | exact sim_encodeDct _ _ | exact sim_emplaceBytes _ _
          | exact sim_dopP2I _ _ | exact sim_methodP2I _ _
          | sim_step | split | dsimp only
          | (simp only [Nat.succ_eq_add_one, Nat.add_right_cancel_iff] at *; subst_vars))
    · intro item eop xs
      unfold encodeItems
      repeat (first
          | exact ihDop _ _ | exact ihItems _ _ _
          | sim_step | split | dsimp only
          | (simp only [Nat.succ_eq_add_one, Nat.add_right_cancel_iff] at *; subst_vars))
    · intro item sz eop xs
      unfold encodeStaticItems
      repeat (first
          | exact ihDop _ _ | exact ihStatic _ _ _ _ | exact sim_emplaceBytes _ _
          | sim_step | split | dsimp only
          | (simp only [Nat.succ_eq_add_one, Nat.add_right_cancel_iff] at *; subst_vars))
    · intro p pv
      unfold encodeParam
      repeat (first
          | exact ihDop _ _ | exact sim_encodeDct _ _ | exact sim_emplaceBytes _ _
          | sim_step | split | dsimp only
          | (simp only [Nat.succ_eq_add_one, Nat.add_right_cancel_iff] at *; subst_vars))
    · intro eop values ps
      unfold encodeParams
      repeat (first
          | exact ihParam _ _ | exact ihParams _ _ _ | exact sim_encodeKeyPlaceholder _ _ _ _ _
          | sim_step | split | dsimp only
          | (simp only [Nat.succ_eq_add_one, Nat.add_right_cancel_iff] at *; subst_vars))
    · intro ps
      unfold encodeKeyValues
      repeat (first
          | exact ihDop _ _ | exact ihKeys _ | exact sim_keyReprCheck _ _
          | sim_step | split | dsimp only
          | (simp only [Nat.succ_eq_add_one, Nat.add_right_cancel_iff] at *; subst_vars))
    · intro ps pv
      unfold encodeComposite
      repeat (first
          | exact ihParams _ _ _ | exact ihKeys _
          | sim_step | split | dsimp only
          | (simp only [Nat.succ_eq_add_one, Nat.add_right_cancel_iff] at *; subst_vars))


mutual
/-- the description contains no DYNAMIC-ENDMARKER-FIELD (the one catch site inside the decoder) -/
def Dop.markerFree : Dop → Bool
  | .simple .. => true
  | .struct _ ps => paramsMarkerFree ps
  | .staticField _ _ item => item.markerFree
  | .dynLenField _ _ _ cd item => cd.markerFree && item.markerFree
  | .endMarkerField .. => false
  | .eopField _ _ item => item.markerFree
  | .mux _ _ _ sd cases dflt => sd.markerFree && casesMarkerFree cases &&
      (match dflt with | some (_, some d) => d.markerFree | _ => true)
  | .unsupported => true
  | .dtc .. => true
def casesMarkerFree : List MuxCaseD → Bool
  | [] => true
  | .mk _ _ _ st :: cs => (match st with | some d => d.markerFree | none => true) && casesMarkerFree cs
def Param.markerFree : Param → Bool
  | .mk _ _ _ k => k.markerFree
def PKind.markerFree : PKind → Bool
  | .physConst d _ | .value d _ | .lengthKey d => d.markerFree
  | _ => true
def paramsMarkerFree : List Param → Bool
  | [] => true
  | p :: ps => p.markerFree && paramsMarkerFree ps
end

theorem casesMarkerFree_cons (n : String) (lo up : Int) (st : Option Dop) (cs : List MuxCaseD) :
    casesMarkerFree (.mk n lo up st :: cs) =
      ((match st with | some d => d.markerFree | none => true) && casesMarkerFree cs) := by
  cases st <;> rfl

theorem caseOfKey_markerFree (key : Int) (cs : List MuxCaseD) (h : casesMarkerFree cs = true) (c : MuxCaseD)
    (hc : caseOfKey key cs = some c) : ∀ d, c.struct = some d → d.markerFree = true := by
  induction cs with
  | nil => simp [caseOfKey] at hc
  | cons x xs ih =>
    obtain ⟨n, lo, up, st⟩ := x
    rw [casesMarkerFree_cons, Bool.and_eq_true] at h
    unfold caseOfKey at hc
    by_cases hk : (MuxCaseD.mk n lo up st).lower ≤ key ∧ key ≤ (MuxCaseD.mk n lo up st).upper
    · rw [if_pos hk] at hc
      injection hc with hc
      subst hc
      intro d hd
      have : st = some d := hd
      subst this
      exact h.1
    · rw [if_neg hk] at hc
      exact ih h.2 hc

theorem markerFree_valueParam (n : String) (bp bit : Option Nat) (d : Dop) (dflt : Option PVal) :
    (Param.mk n bp bit (.value d dflt)).markerFree = d.markerFree := rfl

theorem markerFree_mux (bp sbp : Nat) (sbit : Option Nat) (sd : Dop) (cases : List MuxCaseD) (dflt : Option (String × Option Dop)) :
    (Dop.mux bp sbp sbit sd cases dflt).markerFree =
      (sd.markerFree && casesMarkerFree cases && (match dflt with | some (_, some d) => d.markerFree | _ => true)) := by
  rcases dflt with _ | ⟨n, _ | d⟩ <;> rfl

/-- the structure of the case the decoder selects is marker free -/
theorem selCase_markerFree (cases : List MuxCaseD) (dflt : Option (String × Option Dop)) (hc : casesMarkerFree cases = true)
    (hd : (match dflt with | some (_, some d) => d.markerFree | _ => true) = true) (key : Int) (name : String) (d : Dop)
    (h : (match caseOfKey key cases with | some c => some (c.name, c.struct) | none => dflt) = some (name, some d)) :
    d.markerFree = true := by
  cases hk : caseOfKey key cases with
  | some c =>
    rw [hk] at h
    simp only [Option.some.injEq, Prod.mk.injEq] at h
    exact caseOfKey_markerFree key cases hc c hk d h.2
  | none =>
    rw [hk] at h
    simp only at h
    subst h
    simpa using hd

theorem sim_decode_all (fuel : Nat) :
    (∀ d, d.markerFree = true → Sim (decodeDop fuel d)) ∧
    (∀ item sz n, item.markerFree = true → Sim (decodeStaticItems item sz fuel n)) ∧
    (∀ item n, item.markerFree = true → Sim (decodeNItems item fuel n)) ∧
    (∀ item, item.markerFree = true → Sim (decodeToEnd item fuel)) ∧
    (∀ p, p.markerFree = true → Sim (decodeParam fuel p)) ∧
    (∀ ps, paramsMarkerFree ps = true → Sim (decodeParams fuel ps)) ∧
    (∀ ps, paramsMarkerFree ps = true → Sim (decodeComposite fuel ps)) := by
  induction fuel with
  | zero =>
    refine ⟨?_, ?_, ?_, ?_, ?_, ?_, ?_⟩ <;> intros
    · unfold decodeDop; exact sim_raise _
    · unfold decodeStaticItems; exact sim_raise _
    · unfold decodeNItems; exact sim_raise _
    · unfold decodeToEnd; exact sim_raise _
    · unfold decodeParam; exact sim_raise _
    · unfold decodeParams; exact sim_raise _
    · unfold decodeComposite; exact sim_raise _
  | succ fuel ih =>
    obtain ⟨ihDop, ihStatic, ihN, ihEnd, ihParam, ihParams, ihComp⟩ := ih
    refine ⟨?_, ?_, ?_, ?_, ?_, ?_, ?_⟩
    · intro d hd
      cases d with
      | mux bp sbp sbit sd cases dflt =>
        rw [markerFree_mux, Bool.and_eq_true, Bool.and_eq_true] at hd
        obtain ⟨⟨hsd, hcs⟩, hdf⟩ := hd
        unfold decodeDop
        repeat (first
          | exact ihDop _ hsd
          | exact ihParam _ ((markerFree_valueParam _ _ _ _ _).trans hsd)
          | exact ihDop _ (caseOfKey_markerFree _ _ hcs _ (by assumption) _ (by assumption))
          | exact ihDop _ (by simp_all)
          | exact ihParam _ ((markerFree_valueParam _ _ _ _ _).trans (caseOfKey_markerFree _ _ hcs _ (by assumption) _ (by assumption)))
          | exact ihParam _ ((markerFree_valueParam _ _ _ _ _).trans (by simp_all))
          | sim_step | split | dsimp only
          | (simp only [Nat.succ_eq_add_one, Nat.add_right_cancel_iff] at *; subst_vars))
      | simple dct phys cm =>
        unfold decodeDop
        repeat (first
          | exact sim_decodeDct _ | exact sim_dopI2P _ _
          | sim_step | split | dsimp only)
      | dtc dct phys cm dtcs =>
        unfold decodeDop
        repeat (first
          | exact sim_decodeDct _ | exact sim_methodI2P _ _ _
          | sim_step | split | dsimp only)
      | _ =>
        unfold decodeDop <;> simp only [Dop.markerFree, Bool.and_eq_true, Bool.false_eq_true] at hd <;>
        repeat (first
          | exact ihDop _ (by simp_all) | exact ihStatic _ _ _ (by simp_all) | exact ihN _ _ (by simp_all)
          | exact ihEnd _ (by simp_all) | exact ihComp _ (by simp_all)
          | exact sim_decodeDct _
          | sim_step | split | dsimp only
          | (simp only [Nat.succ_eq_add_one, Nat.add_right_cancel_iff] at *; subst_vars))
    · intro item sz n hd
      unfold decodeStaticItems
      repeat (first
          | exact ihDop _ hd | exact ihStatic _ _ _ hd
          | sim_step | split | dsimp only
          | (simp only [Nat.succ_eq_add_one, Nat.add_right_cancel_iff] at *; subst_vars))
    · intro item n hd
      unfold decodeNItems
      repeat (first
          | exact ihDop _ hd | exact ihN _ _ hd
          | sim_step | split | dsimp only
          | (simp only [Nat.succ_eq_add_one, Nat.add_right_cancel_iff] at *; subst_vars))
    · intro item hd
      unfold decodeToEnd
      repeat (first
          | exact ihDop _ hd | exact ihEnd _ hd
          | sim_step | split | dsimp only
          | (simp only [Nat.succ_eq_add_one, Nat.add_right_cancel_iff] at *; subst_vars))
    · intro p hp
      cases p with
      | mk name bytePos bitPos kind =>
        unfold decodeParam
        cases kind <;> simp only [Param.markerFree, PKind.markerFree] at hp <;>
        repeat (first
          | exact ihDop _ hp | exact sim_decodeDct _ | exact sim_extractAtomic _ _ _ _
          | sim_step | split | dsimp only
          | (simp only [Nat.succ_eq_add_one, Nat.add_right_cancel_iff] at *; subst_vars))
    · intro ps hps
      cases ps with
      | nil => unfold decodeParams; exact sim_pure _
      | cons p rest =>
        simp only [paramsMarkerFree, Bool.and_eq_true] at hps
        unfold decodeParams
        repeat (first
          | exact ihParam _ hps.1 | exact ihParams _ hps.2
          | sim_step | split | dsimp only
          | (simp only [Nat.succ_eq_add_one, Nat.add_right_cancel_iff] at *; subst_vars))
    · intro ps hps
      unfold decodeComposite
      repeat (first
          | exact ihParams _ hps
          | sim_step | split | dsimp only
          | (simp only [Nat.succ_eq_add_one, Nat.add_right_cancel_iff] at *; subst_vars))

end OdxVerif.Codec
