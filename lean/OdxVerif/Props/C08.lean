import OdxVerif.Proofs.FlatStatic
import OdxVerif.Props.C01
/-! # C08 — static descriptions of a message agree with its actual encoding
    Proved tier: flat lists of positioned `A_INT32` VALUE parameters (see `Props/C01.lean`) for the static
    length, and *any* description for "a missing required VALUE parameter makes strict encoding fail".
    The constant-prefix clause and the free-parameter clause are decided by the executable model
    (`constPrefix`, `staticBitLen`) + correspondence + the direct oracle only (`_partial`). -/
namespace OdxVerif.Codec

/-- **Static length.** -/
theorem C08_static_length_partial (ovs : List (Obj × IVal)) (hlen : ovs.length ≤ 4000) (values : List (String × PVal))
    (trig : Option Bytes)
    (hok : ∀ ov ∈ ovs, ov.1.ok ∧ ov.1.inRange ov.2)
    (hlook : ∀ ov ∈ ovs, lookup ov.1.name values = some (.atom ov.2))
    (hknown : values.any (fun kv => !((ovs.map fun ov => ov.1.toParam).any fun p => p.name == kv.1)) = false)
    (pdu : Bytes) (w : Nat)
    (henc : encodeMessage none (ovs.map fun ov => ov.1.toParam) (.dict values) trig true = .ok (pdu, w)) :
    (Dop.struct none (ovs.map fun ov => ov.1.toParam)).staticBitLen = some (8 * pdu.length) :=
  static_length_flat ovs hlen values trig hok hlook hknown pdu w henc

/-- **Required parameters (one direction, every description).** A VALUE parameter without a default is
    reported as required (`is_required`), and indeed: leaving it out of the assignment makes `encode` fail in
    strict mode — whatever else the request or response contains. -/
theorem C08_required_omission_fails (ps : List Param) (values : List (String × PVal)) (trig : Option Bytes)
    (h : ∃ p ∈ ps, (∃ d, p.kind = .value d none) ∧ lookup p.name values = none) :
    ∃ e, encodeMessage none ps (.dict values) trig true = .error e :=
  encodeMessage_missing ps values trig h

/-- **Open finding `condensed-bit-mask-static-length`, exhibited in the model.** For a condensed BIT-MASK the
    reported static length counts the one-bits of the mask while the encoder emplaces BIT-LENGTH bits: a 16-bit
    `A_UINT32` with condensed mask `0x00ff` at bit position 1 reports 16 bits but encodes (and decodes) 3 bytes.
    (The same witness runs against the real code in the corpus of `harness/props/c08.py`.) -/
theorem C08_condensed_counterexample :
    let p : Param := .mk "x" none (some 1) (.value (.simple (.std .uint32 none true 16 (some 0x00ff) true) .uint32 .identical) none)
    (Dop.struct none [p]).staticBitLen = some 16 ∧
    (encodeMessage none [p] (.dict [("x", .atom (.int 0x55))]) none true).toOption = some ([0, 0, 0xaa], 0) := by
  decide +kernel

/-- **Open finding `nested-structure-cursor-behind-last-listed-parameter`, exhibited in the model** (found while
    lifting `C08_static_length_partial` to nested structures: the lift is false). A nested STRUCTURE whose last
    *listed* parameter is not the one that extends furthest, followed by an implicitly positioned sibling: the static
    length advances by the structure's full extent (4 bytes in total), encoder and decoder continue behind the last
    listed inner parameter (3 bytes; the round trip holds). Same witness on the real code: corpus of c08.py. -/
theorem C08_nested_cursor_counterexample :
    let u8 (n : String) (bp : Option Nat) : Param :=
      .mk n bp none (.value (.simple (.std .uint32 none true 8 none false) .uint32 .identical) none)
    let ps : List Param := [.mk "s" none none (.value (.struct none [u8 "a" (some 2), u8 "b" (some 0)]) none), u8 "x" none]
    let v : PVal := .dict [("s", .dict [("a", .atom (.int 1)), ("b", .atom (.int 2))]), ("x", .atom (.int 3))]
    (Dop.struct none ps).staticBitLen = some 32 ∧
    (encodeMessage none ps v none true).toOption = some ([2, 3, 1], 0) := by
  decide +kernel

/-! non-vacuity -/
example : (Dop.struct none (exObjs.map fun ov => ov.1.toParam)).staticBitLen = some 344 := by decide
example : ∃ p ∈ exObjs.map (fun ov => ov.1.toParam), (∃ d, p.kind = .value d none) ∧ lookup p.name [("a", PVal.atom (.int 1))] = none :=
  ⟨(⟨"b", some 3, none, some .sm, false, 16, .int32⟩ : Obj).toParam, by simp [exObjs], ⟨_, rfl⟩, by simp [Obj.toParam, Param.name, lookup]⟩

end OdxVerif.Codec
