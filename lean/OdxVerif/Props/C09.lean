import OdxVerif.Proofs.Inherit
/-! # C09 — a layer sees exactly the objects ODX value inheritance prescribes
    Property theorems only; lemmas live in `Proofs/Inherit*.lean`. All statements hold for every
    hierarchy `L : Layer` (any depth, any width, any sharing of ancestors); `WF` only asks that the
    local short names of each layer are distinct. -/
namespace OdxVerif.Inherit
open OdxVerif.Gen (LayerKind)

/-! ## obligations over the tables regenerated from the source (`Gen/LayerPrio.lean`) -/

/-- **Priority table.** The priorities in `diaglayertype.py` are strict and order the layer types as
    ISO 22901-1 §7.3.2.4 demands (`odxRank`): protocol < functional group < base variant < ECU variant,
    and ECU-SHARED-DATA overrides all of them. All theorems below rest on this one. -/
theorem C09_priority_table :
    SameOrder LayerKind.prio odxRank
    ∧ (∀ a b : LayerKind, a.prio = b.prio → a = b)
    ∧ LayerKind.prio .protocol < LayerKind.prio .functionalGroup
    ∧ LayerKind.prio .functionalGroup < LayerKind.prio .baseVariant
    ∧ LayerKind.prio .baseVariant < LayerKind.prio .ecuVariant
    ∧ LayerKind.prio .ecuVariant < LayerKind.prio .ecuSharedData
    ∧ (∀ k : LayerKind, k ∈ [LayerKind.protocol, .functionalGroup, .baseVariant, .ecuVariant, .ecuSharedData]) := by
  refine ⟨?_, ?_, by decide, by decide, by decide, by decide, ?_⟩
  · intro a b; cases a <;> cases b <;> decide
  · intro a b; cases a <;> cases b <;> decide
  · intro k; cases k <;> decide

/-- **Refinement.** Whenever the merge algorithm returns a view, looking up any short name in it
    gives exactly what the specification says the layer shows for that name. -/
theorem C09_refines (L : Layer) (hwf : WF L) (objs : List Obj) (h : computeAvailable L = .ok objs)
    (n : Name) : lookup objs n = visible odxRank L n := by
  rw [← (visible_congr C09_priority_table.1).1]
  exact ((refines_both.1 L hwf).1 objs h).2.1 n

/-- the view holds one object per name, so it is exactly the set `{o | visible L o.name = some o}` -/
theorem C09_refines_mem (L : Layer) (hwf : WF L) (objs : List Obj) (h : computeAvailable L = .ok objs)
    (o : Obj) : o ∈ objs ↔ visible odxRank L o.name = some o := by
  have hnd := ((refines_both.1 L hwf).1 objs h).1
  rw [← C09_refines L hwf objs h]
  constructor
  · intro ho; exact find_of_mem_nodup objs o hnd ho
  · intro hf; exact List.mem_of_find?_eq_some hf

/-- **Conflict.** The algorithm reports an error exactly for the hierarchies the specification calls
    conflicting (`conflict_iff`, `clash_iff`, `mem_topOffers`, `mem_offersOf` spell that out: some layer
    has a name that is not local and for which two offers of highest priority are different objects). -/
theorem C09_conflict_iff (L : Layer) (hwf : WF L) :
    (∃ e, computeAvailable L = .error e) ↔ conflict odxRank L = true := by
  rw [← (conflict_congr C09_priority_table.1).1]
  have hL := refines_both.1 L hwf
  constructor
  · rintro ⟨e, he⟩; exact hL.2 e he
  · intro hc
    cases h : computeAvailable L with
    | error e => exact ⟨e, rfl⟩
    | ok objs => have := (hL.1 objs h).2.2; rw [hc] at this; cases this

/-- the specification's notion of conflict, in words of offers: the layer is no ECU-SHARED-DATA and either
    a parent is in conflict or some name without local definition has two different top offers -/
theorem C09_conflict_spec (nm : Nat) (k : LayerKind) (ls : List Obj) (ps : List (Layer × List Name)) :
    conflict odxRank (.mk nm k ls ps) = true ↔
      k ≠ .ecuSharedData ∧ ((∃ pe ∈ ps, conflict odxRank pe.1 = true)
        ∨ ∃ n, localObj ls n = none ∧
            ∃ a b, a ∈ offersOf odxRank ps n ∧ b ∈ offersOf odxRank ps n
              ∧ (∀ c ∈ offersOf odxRank ps n, odxRank c.kind ≤ odxRank a.kind)
              ∧ (∀ c ∈ offersOf odxRank ps n, odxRank c.kind ≤ odxRank b.kind)
              ∧ a.obj ≠ b.obj) := by
  rw [conflict_iff]
  simp only [clash_iff', mem_topOffers']
  constructor
  · rintro ⟨hk, h | ⟨n, hl, a, b, ha, hb, hne⟩⟩
    · exact ⟨hk, Or.inl h⟩
    · exact ⟨hk, Or.inr ⟨n, hl, a, b, ha.1, hb.1, ha.2, hb.2, hne⟩⟩
  · rintro ⟨hk, h | ⟨n, hl, a, b, ha, hb, ha', hb', hne⟩⟩
    · exact ⟨hk, Or.inl h⟩
    · exact ⟨hk, Or.inr ⟨n, hl, a, b, ⟨ha, ha'⟩, ⟨hb, hb'⟩, hne⟩⟩

/-- **Local definitions override.** Every local object is in the layer's view under its name, whatever
    the parents offer (and a name with a local definition never causes a conflict: `C09_conflict_spec`). -/
theorem C09_local_overrides (L : Layer) (hwf : WF L) (objs : List Obj)
    (h : computeAvailable L = .ok objs) (o : Obj) (ho : o ∈ L.locals) : lookup objs o.name = some o := by
  rw [C09_refines L hwf objs h]
  cases L with
  | mk nm k ls ps =>
    rw [WF] at hwf
    have : localObj ls o.name = some o := find_of_mem_nodup ls o hwf.1 ho
    rw [visible, this]

/-- **Inherited objects come from a best parent.** A name without local definition that is in the view
    is shown by a referenced parent that does not list it as NOT-INHERITED, and no other such parent
    has a higher priority. -/
theorem C09_inherited_from_best_parent (nm : Nat) (k : LayerKind) (ls : List Obj)
    (ps : List (Layer × List Name)) (hwf : WF (.mk nm k ls ps)) (objs : List Obj)
    (h : computeAvailable (.mk nm k ls ps) = .ok objs) (n : Name) (hloc : localObj ls n = none)
    (o : Obj) (ho : lookup objs n = some o) :
    ∃ pe ∈ ps, pe.2.contains n = false ∧ visible odxRank pe.1 n = some o
      ∧ ∀ qe ∈ ps, qe.2.contains n = false → visible odxRank qe.1 n ≠ none →
          odxRank qe.1.kind ≤ odxRank pe.1.kind := by
  rw [C09_refines _ hwf objs h, visible, hloc] at ho
  simp only at ho
  split at ho
  · cases ho
  · cases htop : topOffers odxRank (offersOf odxRank ps n) with
    | nil => rw [htop] at ho; cases ho
    | cons a t =>
      rw [htop] at ho
      simp only [List.head?_cons, Option.map_some, Option.some.injEq] at ho
      have ha : a ∈ topOffers odxRank (offersOf odxRank ps n) := by rw [htop]; exact List.mem_cons_self ..
      obtain ⟨hao, hmax⟩ := (mem_topOffers' _ _ a).1 ha
      obtain ⟨pe, hpe, hex, hv, hp⟩ := (mem_offersOf odxRank ps n a).1 hao
      refine ⟨pe, hpe, hex, by rw [hv, ho], fun qe hqe hqex hqv => ?_⟩
      cases hq : visible odxRank qe.1 n with
      | none => exact absurd hq hqv
      | some o' =>
        have := hmax ⟨qe.1.kind, o'⟩ ((mem_offersOf odxRank ps n _).2 ⟨qe, hqe, hqex, hq, rfl⟩)
        rw [hp] at this
        exact this

/-- **NOT-INHERITED exclusions.** A name without local definition that every offering parent reference
    excludes is not in the view. -/
theorem C09_excluded_not_inherited (nm : Nat) (k : LayerKind) (ls : List Obj)
    (ps : List (Layer × List Name)) (hwf : WF (.mk nm k ls ps)) (objs : List Obj)
    (h : computeAvailable (.mk nm k ls ps) = .ok objs) (n : Name) (hloc : localObj ls n = none)
    (hex : ∀ pe ∈ ps, visible odxRank pe.1 n ≠ none → pe.2.contains n = true) : lookup objs n = none := by
  cases hl : lookup objs n with
  | none => rfl
  | some o =>
    obtain ⟨pe, hpe, hc, hv, _⟩ := C09_inherited_from_best_parent nm k ls ps hwf objs h n hloc o hl
    have := hex pe hpe (by rw [hv]; simp)
    rw [hc] at this; cases this

/-- **A parent's own view is not altered by its children.** What the computation of a child uses for
    each referenced parent is exactly that parent's own view (the function has no other input). -/
theorem C09_parent_unchanged : ∀ (ps : List (Layer × List Name)) (rs : List ParentRes),
    computeParents ps = .ok rs →
    ps.map (fun pe => (pe.1.kind, pe.2, computeAvailable pe.1))
      = rs.map (fun r => (r.kind, r.excl, Except.ok r.objs)) := by
  intro ps
  induction ps with
  | nil => intro rs h; rw [computeParents] at h; cases h; rfl
  | cons pe rest ih =>
    intro rs h
    obtain ⟨p, ex⟩ := pe
    rw [computeParents] at h
    cases hc : computeAvailable p with
    | error e => simp only [hc] at h; cases h
    | ok objs =>
      simp only [hc] at h
      cases hcr : computeParents rest with
      | error e => simp only [hcr] at h; cases h
      | ok rs' =>
        simp only [hcr] at h
        cases h
        simp only [List.map_cons, hc, ih rs' hcr]

/-! ## the generated category tables -/

/-- every object category subject to value inheritance is merged with its own local-object getter and
    the NOT-INHERITED list ISO 22901-1 assigns to it: diag-comms (services and single-ECU jobs) ↔
    NOT-INHERITED-DIAG-COMMS, all DOP kinds ↔ NOT-INHERITED-DOPS, tables ↔ NOT-INHERITED-TABLES, global
    negative responses ↔ NOT-INHERITED-GLOBAL-NEG-RESPONSES, diag variables ↔ NOT-INHERITED-VARIABLES;
    functional classes, additional audiences, state charts, unit groups and variable groups have none.
    (The left-hand side is regenerated from `_finalize_init` & co. on every run.) -/
theorem C09_category_table : Gen.categoryTable = [
    ("self._diag_comms", "dl._get_local_diag_comms(odxlinks)", "not_inherited_diag_comms"),
    ("self._diag_services", "[dc for dc in diag_comms if isinstance(dc, DiagService)]", "(subset of self._diag_comms)"),
    ("self._single_ecu_jobs", "[dc for dc in diag_comms if isinstance(dc, SingleEcuJob)]", "(subset of self._diag_comms)"),
    ("self._global_negative_responses", "dl.diag_layer_raw.global_negative_responses", "not_inherited_global_neg_responses"),
    ("self._functional_classes", "dl.diag_layer_raw.functional_classes", ""),
    ("self._additional_audiences", "dl.diag_layer_raw.additional_audiences", ""),
    ("self._state_charts", "dl.diag_layer_raw.state_charts", ""),
    ("ddds.data_object_props", "ddd_spec.data_object_props", "not_inherited_dops"),
    ("ddds.dtc_dops", "ddd_spec.dtc_dops", "not_inherited_dops"),
    ("ddds.structures", "ddd_spec.structures", "not_inherited_dops"),
    ("ddds.static_fields", "ddd_spec.static_fields", "not_inherited_dops"),
    ("ddds.end_of_pdu_fields", "ddd_spec.end_of_pdu_fields", "not_inherited_dops"),
    ("ddds.dynamic_endmarker_fields", "ddd_spec.dynamic_endmarker_fields", "not_inherited_dops"),
    ("ddds.dynamic_length_fields", "ddd_spec.dynamic_length_fields", "not_inherited_dops"),
    ("ddds.tables", "ddd_spec.tables", "not_inherited_tables"),
    ("ddds.env_data_descs", "ddd_spec.env_data_descs", "not_inherited_dops"),
    ("ddds.env_datas", "ddd_spec.env_datas", "not_inherited_dops"),
    ("ddds.muxs", "ddd_spec.muxs", "not_inherited_dops"),
    ("ddds.unit_spec.unit_groups", "dl._get_local_unit_groups()", ""),
    ("FunctionalGroup._diag_variables", "dl.diag_layer_raw.diag_variables", "not_inherited_variables"),
    ("FunctionalGroup._variable_groups", "dl.diag_layer_raw.variable_groups", ""),
    ("BaseVariant._diag_variables", "dl.diag_layer_raw.diag_variables", "not_inherited_variables"),
    ("BaseVariant._variable_groups", "dl.diag_layer_raw.variable_groups", ""),
    ("EcuVariant._diag_variables", "dl.diag_layer_raw.diag_variables", "not_inherited_variables"),
    ("EcuVariant._variable_groups", "dl.diag_layer_raw.variable_groups", "")
  ] := by decide

/-- `ParentRef.from_et` fills each NOT-INHERITED list from the XML element of the same kind -/
theorem C09_parentref_paths : Gen.parentRefPaths = [
    ("not_inherited_diag_comms", "NOT-INHERITED-DIAG-COMMS/NOT-INHERITED-DIAG-COMM/DIAG-COMM-SNREF"),
    ("not_inherited_variables", "NOT-INHERITED-VARIABLES/NOT-INHERITED-VARIABLE/DIAG-VARIABLE-SNREF"),
    ("not_inherited_dops", "NOT-INHERITED-DOPS/NOT-INHERITED-DOP/DOP-BASE-SNREF"),
    ("not_inherited_tables", "NOT-INHERITED-TABLES/NOT-INHERITED-TABLE/TABLE-SNREF"),
    ("not_inherited_global_neg_responses", "NOT-INHERITED-GLOBAL-NEG-RESPONSES/NOT-INHERITED-GLOBAL-NEG-RESPONSE/GLOBAL-NEG-RESPONSE-SNREF")
  ] := by decide

/-! ## non-vacuity: concrete hierarchies meeting the hypotheses above -/

/-- shared data defining name 1 -/
def exS : Layer := .mk 0 .ecuSharedData [⟨1, 100⟩] []
def exP : Layer := .mk 1 .protocol [⟨1, 10⟩, ⟨2, 20⟩, ⟨3, 30⟩] []
/-- overrides name 2 of its protocol -/
def exF : Layer := .mk 2 .functionalGroup [⟨2, 21⟩] [(exP, [])]
/-- a diamond (`exP` is reached directly and through `exF`), an exclusion of name 3 on every path,
    three different priorities, one local object -/
def exB : Layer := .mk 3 .baseVariant [⟨4, 40⟩] [(exP, [3]), (exF, [3]), (exS, [])]
/-- two parents of equal priority offering different objects for name 1 … -/
def exG : Layer := .mk 4 .functionalGroup [⟨1, 11⟩] []
def exClash : Layer := .mk 5 .ecuVariant [] [(exF, []), (exG, [])]
/-- … settled by a local definition, or by excluding one of the offers -/
def exSettledLocal : Layer := .mk 6 .ecuVariant [⟨1, 12⟩] [(exF, []), (exG, [])]
def exSettledExcl : Layer := .mk 7 .ecuVariant [] [(exF, [1]), (exG, [])]
/-- the same object offered twice at equal priority is no conflict -/
def exF' : Layer := .mk 8 .functionalGroup [] [(exP, [])]
def exTwice : Layer := .mk 9 .ecuVariant [] [(exF, [2]), (exF', [2])]

example : WF exB ∧ WF exClash ∧ WF exSettledLocal ∧ WF exSettledExcl ∧ WF exTwice := by
  simp [WF, WFIn, exB, exP, exF, exS, exClash, exG, exSettledLocal, exSettledExcl, exTwice, exF']
example : computeAvailable exB = .ok [⟨1, 100⟩, ⟨2, 21⟩, ⟨4, 40⟩] := by decide
example : visible odxRank exB 1 = some ⟨1, 100⟩ ∧ visible odxRank exB 2 = some ⟨2, 21⟩
    ∧ visible odxRank exB 3 = none ∧ visible odxRank exB 4 = some ⟨4, 40⟩ ∧ conflict odxRank exB = false := by decide
example : computeAvailable exClash = .error .odx ∧ conflict odxRank exClash = true := by decide
example : computeAvailable exSettledLocal = .ok [⟨1, 12⟩, ⟨2, 21⟩, ⟨3, 30⟩] := by decide
example : computeAvailable exSettledExcl = .ok [⟨2, 21⟩, ⟨3, 30⟩, ⟨1, 11⟩] := by decide
example : computeAvailable exTwice = .ok [⟨1, 10⟩, ⟨3, 30⟩] ∧ conflict odxRank exTwice = false := by decide
/-- hypotheses of `C09_excluded_not_inherited` and `C09_inherited_from_best_parent` are met by `exB` -/
example : localObj exB.locals 3 = none
    ∧ (∀ pe ∈ exB.parents, visible odxRank pe.1 3 ≠ none → pe.2.contains 3 = true)
    ∧ localObj exB.locals 1 = none ∧ lookup [(⟨1, 100⟩ : Obj), ⟨2, 21⟩, ⟨4, 40⟩] 1 = some ⟨1, 100⟩ := by decide

end OdxVerif.Inherit
