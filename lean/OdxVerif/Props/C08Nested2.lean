import OdxVerif.Props.C08Nested
import OdxVerif.Props.C04Nested2
import OdxVerif.Proofs.CompStatic2
/-! # C08 on the compositional nested tier, second part (task W18)
    (Imports `Props/C08Nested.lean`, hence audited with it in an environment of its own — see `harness/props/c08.py`.)

    **Static length.**
    * STRUCTURE with BYTE-SIZE: `Dop.staticBitLen` reports `8 * BYTE-SIZE` whatever the content
      (`BasicStructure.get_static_bit_length`), and that is right: every accepted encoding — any supplied value — advances the
      encoder's cursor by exactly BYTE-SIZE bytes (`C08_static_length_bytesize`; content that is too long is rejected since fix
      f0ce27d, shorter content is padded).  At the message level the PDU may still be longer than the cursor position when an
      explicitly positioned parameter *inside* the structure lies behind BYTE-SIZE — the open finding
      `nested-structure-cursor-behind-last-listed-parameter`, which `Trees.cursorOkS` excludes on the tier without BYTE-SIZE;
      the shape type `Tree` of that theorem has no BYTE-SIZE, so the message-level statement is given on the example only.
    * MIN-MAX-LENGTH / LEADING-LENGTH leaves and DYNAMIC-ENDMARKER-FIELDs have no static length, and neither has anything that
      contains one without BYTE-SIZE (`C08_dynamic_kinds_none` with `C08_fields_no_static_length`).
    **Required parameters** through `DescribedP2` (VALUE leaves of all nine kinds, BYTE-SIZE structures, items with BYTE-SIZE):
    `C08_required_iff_not_omittable2`, `C08_required_nested2` (input hypothesis `wfAtoms` as in `C04_nested`),
    `C08_required_nested_depth2` (the BYTE-SIZE step of the propagation), `C08_not_required_nested2`. -/
namespace OdxVerif.Codec
open OdxVerif.Bits OdxVerif.OdxM

/-- **C08, static length of a STRUCTURE with BYTE-SIZE** over described parameters: the reported static bit length is
    `8 * BYTE-SIZE`, and every accepted strict encoding of any supplied value ends exactly BYTE-SIZE bytes behind the structure's
    first byte -/
theorem C08_static_length_bytesize (bs : Nat) (ps : List PDesc) (hd : ∀ p ∈ ps, DescribedP2 p) (hn : PDescs.namesOk ps)
    (hne : PDescs.anyEop ps = false) :
    (Dop.struct (some bs) (PDescs.toParams ps)).staticBitLen = some (8 * bs) ∧
    ∀ (pv : PVal), pv.wfAtoms = true → ∀ (fuel : Nat), (DDesc.structBS bs ps).need pv ≤ fuel → ∀ (s s' : EncState),
      s.cursorBit = 0 → encodeDop fuel (.struct (some bs) (PDescs.toParams ps)) pv s true = .ok ((), s') →
      8 * (s'.cursorByte - s.cursorByte) = 8 * bs := by
  refine ⟨rfl, ?_⟩
  intro pv hwf fuel hfu s s' hcb h
  have := (DDesc.structBS_cursor bs ps (fun p hp => (hd p hp).okW) hn hne pv hwf fuel hfu s s' hcb h).1
  omega

/-- the round-6 kinds without static length: MIN-MAX-LENGTH-TYPE and LEADING-LENGTH-INFO-TYPE leaves, DYNAMIC-ENDMARKER-FIELDs
    (`C08_fields_no_static_length`: and every structure without BYTE-SIZE / message that lists one) -/
theorem C08_dynamic_kinds_none (n : String) (bp bitp : Option Nat) (bt : BaseType) (enc : Option Enc) (hl : Bool)
    (mn bl : Nat) (mx : Option Nat) (term : Term) (cm : CCompu) (tv : IVal) (td item : Dop) (dflt : Option PVal) :
    (Param.mk n bp bitp (.value (.simple (.minmax bt enc hl mn mx term) bt cm) dflt)).kind.staticBitLen = none ∧
    (Param.mk n bp bitp (.value (.simple (.leading bt enc hl bl) bt cm) dflt)).kind.staticBitLen = none ∧
    (Param.mk n bp bitp (.value (.endMarkerField tv td item) dflt)).kind.staticBitLen = none := ⟨rfl, rfl, rfl⟩

/-- **C08, required ⇔ not omittable** for every description of `DescribedP2` -/
theorem C08_required_iff_not_omittable2 (p : PDesc) (h : DescribedP2 p) :
    (p.fill none).isSome = !p.param.kind.required := h.fill_none

/-- **C08, required parameters, `DescribedP2`**: a required parameter that is omitted (or given as `None`) makes strict `encode`
    fail with a library error (or the model's `unmodelled` at an untyped atom) -/
theorem C08_required_nested2 (ps : List PDesc) (hd : ∀ p ∈ ps, DescribedP2 p) (hn : PDescs.namesOk ps) (hl : PDescs.eopLast ps)
    (kvs : List (String × PVal)) (hwf : (PVal.dict kvs).wfAtoms = true) (trig : Option Bytes)
    (hneed : (PVal.dict kvs).needFor ps ≤ modelFuel)
    (p : PDesc) (hp : p ∈ ps) (hr : p.param.kind.required = true) (hom : lookupV p.name kvs = none) :
    ∃ e, encodeMessage none (PDescs.toParams ps) (.dict kvs) trig true = .error e ∧
      (e = .encode ∨ e = .odx ∨ (e = .unmodelled ∧ (PVal.dict kvs).typedForP ps = false)) := by
  have hnone : p.fill (lookupV p.name kvs) = none := by
    have := (hd p hp).fill_none
    rw [hr] at this
    rw [hom]
    cases h : p.fill none with
    | none => rfl
    | some g => rw [h] at this; cases this
  have hf := DDesc.struct_fill_none_of_mem ps kvs p hp hnone
  rcases encodeMessage_nested2_cases ps (fun q hq => (hd q hq).okW) hn hl (.dict kvs) hwf trig hneed with
    ⟨_, e, hrun, he⟩ | ⟨c, hc, _⟩
  · refine ⟨e, hrun, ?_⟩
    rcases he with (he | he) | he
    · exact Or.inl he
    · exact Or.inr (Or.inl he)
    · exact Or.inr (Or.inr he)
  · rw [hf] at hc; cases hc

/-- … at every depth, the BYTE-SIZE step (the others are `C08_required_nested_depth`): a STRUCTURE with BYTE-SIZE does not accept
    a dictionary one of whose parameters does not accept its value -/
theorem C08_required_nested_depth2 (bs : Nat) (ps : List PDesc) (kvs : List (String × PVal)) (p : PDesc) (hp : p ∈ ps)
    (h : p.fill (lookupV p.name kvs) = none) : (DDesc.structBS bs ps).fill (.dict kvs) = none :=
  DDesc.structBS_fill_none_of_mem bs ps kvs p hp h

/-- **C08, parameters that are not required may be omitted** (`DescribedP2`) -/
theorem C08_not_required_nested2 (ps : List PDesc) (hd : ∀ p ∈ ps, DescribedP2 p) (hn : PDescs.namesOk ps) (hl : PDescs.eopLast ps)
    (kvs kvs2 : List (String × PVal)) (hwf : (PVal.dict kvs).wfAtoms = true) (hwf2 : (PVal.dict kvs2).wfAtoms = true)
    (trig : Option Bytes)
    (hneed : (PVal.dict kvs).needFor ps ≤ modelFuel) (hneed2 : (PVal.dict kvs2).needFor ps ≤ modelFuel)
    (henc : ∃ r, encodeMessage none (PDescs.toParams ps) (.dict kvs) trig true = .ok r)
    (hknown : PDescs.unknown ps kvs2 = false)
    (hag : ∀ p ∈ ps, lookupV p.name kvs2 = lookupV p.name kvs ∨ (p.param.kind.required = false ∧ lookupV p.name kvs2 = none)) :
    ∃ r, encodeMessage none (PDescs.toParams ps) (.dict kvs2) trig true = .ok r := by
  have h1 := (C04_nested_accepts_iff2 ps hd hn hl (.dict kvs) hwf trig hneed).mp henc
  apply (C04_nested_accepts_iff2 ps hd hn hl (.dict kvs2) hwf2 trig hneed2).mpr
  simp only [PVal.acceptedByP, DDesc.struct, hknown, Bool.false_eq_true, if_false, Option.isSome_map] at h1 ⊢
  have hfill : (PDescs.fill ps kvs).isSome = true := by
    cases hu : PDescs.unknown ps kvs with
    | true => simp [hu] at h1
    | false => simpa [hu] using h1
  exact PDescs.fill_omit2 ps hd kvs kvs2 hag hfill

/-! ## non-vacuity, on the descriptions of `Props/C04Nested2.lean` -/
/-- `bDesc` = [sid; bsx : STRUCTURE BYTE-SIZE 6 {n; df : DYNAMIC-LENGTH-FIELD …}; tail]: the structure contains a field and still
    has the static length 48; the message 64 = 8 × 8 — and every accepted PDU (0, 1, 2 items) has 8 bytes -/
example : (Dop.struct (some 6) (PDescs.toParams [pu8 "n", bInner])).staticBitLen = some 48 ∧
    (Dop.struct none (PDescs.toParams bDesc)).staticBitLen = some 64 := by decide +kernel
example : [bMk [], bMk [bIt 0xA1], bMk [bIt 0xA1, bIt 0xA2]].map (fun p =>
      (encodeMessage none (PDescs.toParams bDesc) p none true).toOption.map (fun r => 8 * r.1.length)) =
    [some 64, some 64, some 64] := by decide +kernel
/-- the same structure without BYTE-SIZE has no static length (it contains a field) -/
example : (Dop.struct none (PDescs.toParams [pu8 "n", bInner])).staticBitLen = none := by decide +kernel
/-- the theorem applies -/
example : ∀ (pv : PVal), pv.wfAtoms = true → ∀ (fuel : Nat), (DDesc.structBS 6 [pu8 "n", bInner]).need pv ≤ fuel →
    ∀ (s s' : EncState), s.cursorBit = 0 →
    encodeDop fuel (.struct (some 6) (PDescs.toParams [pu8 "n", bInner])) pv s true = .ok ((), s') →
    8 * (s'.cursorByte - s.cursorByte) = 8 * 6 := by
  refine (C08_static_length_bytesize 6 [pu8 "n", bInner] (pforall2 _ _ (described_pu8' _) ?_) (pnamesOk2 _ _ (by decide)) rfl).2
  exact DescribedP2.dynLenField "df" none _ (some 2) [lv oB1] (pforall1 _ (described_lv _ kObjs_ok.2.2.2.2.2.2.2)) (pnamesOk1 _) rfl
    (by decide) (by simp [DynLayout.cntObj, Obj.ok, Obj.encOk, Obj.sizeOk]) (Or.inr rfl) (by decide)

/-- required parameters of `kDesc` (all nine leaf kinds): `sid` (constant) and `bcd` (defaulted) are not required -/
example : kDesc.map (fun p => (p.name, p.param.kind.required, (p.fill none).isSome)) =
    [("sid", false, true), ("f64", true, false), ("st", true, false), ("bcd", false, true), ("rec", true, false)] := by decide +kernel
/-- omission at depth: the byte field `b` inside an item with BYTE-SIZE inside the field inside the BYTE-SIZE structure; `n`
    inside the BYTE-SIZE structure; the float `f64` at top level; the UTF-8 leaf inside the selected multiplexer case — rejected
    with `EncodeError` -/
example :
    [ (bDesc, bMk [bIt 1, .dict []]),
      (bDesc, .dict [("bsx", .dict [("df", .list [])]), ("tail", .atom (.int 1))]),
      (kDesc, .dict (kGoodKvs.drop 1)),
      (kDesc, .dict [("f64", .atom (.flt 0)),
        ("st", .dict [("f32", .atom (.flt 0)), ("bf", .atom (.bytes [1, 2])),
          ("sf", .list [.dict [("a", .atom (.str [0x4F, 0xE9])), ("m", .pair "u" (.dict []))],
                        .dict [("a", .atom (.str [0x6F, 0x6B])), ("m", .pair "w" (.dict [("w", .atom (.str [0x3A9]))]))]])]),
        ("rec", .list [])]) ].all
      (fun q => q.2.wfAtoms && q.2.acceptedByP q.1 == false &&
        errClass (encodeMessage none (PDescs.toParams q.1) q.2 none true) == some .encode) = true := by decide +kernel
/-- omitting the defaulted `bcd` from an accepted dictionary leaves it accepted (`kGood` omits it; supplying it is accepted too) -/
example : ((PVal.dict (("bcd", .atom (.int 99)) :: kGoodKvs)).acceptedByP kDesc && kGood.acceptedByP kDesc) = true := by decide +kernel

end OdxVerif.Codec
