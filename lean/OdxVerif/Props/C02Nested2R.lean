import OdxVerif.Proofs.CompResBits
import OdxVerif.Props.C02Nested2
import OdxVerif.Props.C01Nested2R
/-! # C02, nested tier, extension W22 — bit-exact PDUs with RESERVED / NRC-CONST parameters (`Desc2R`): `Lay2.skip` wired in.
    (Separate file; imported by `Props/C03Nested2R.lean` only.) -/
namespace OdxVerif.Codec
open OdxVerif.Bits OdxVerif.OdxM

/- Full statement of C02: see `Props/C02Nested.lean`.  Proved here: the instance where every top-level parameter is a well-formed
   `Desc2R` (`Proofs/CompRes.lean`): `Desc2` plus RESERVED and NRC-CONST parameters and STRUCTUREs over them.  A skipped
   parameter has NO entry in the layout (`C02_skipped_no_entry`): it is not a "described object" in the sense of the overlap
   clause — a VALUE parameter placed over a RESERVED / NRC-CONST parameter raises no overlap warning (`exResOverlap`, `exNrcR`), in
   the model and in odxtools.  Its bits are not written: they are zero unless an entry of the layout claims them (clause (2);
   `C02_unclaimed_field_reads_zero`: the decoder then returns 0 for it).  It counts for the length of the PDU (clause (4):
   `extent` includes the skipped objects — a RESERVED parameter in last position makes the PDU longer, `exRes`).
   Still missing: RESERVED / NRC-CONST inside field items and multiplexer cases, and what `Props/C02Nested2.lean` lists. -/

/-- **C02, nested tier, with RESERVED and NRC-CONST.**  As `C02_bit_exact_nested2`, for `ds : List Desc2R`.  If strict `encode`
    returns a PDU without an overlap warning then
    (1)+(3) — provided no BYTE-SIZE padding hits a bit claimed by an earlier entry (`Descs2R.padOk`) — bit `j` of every entry's
        pattern sits at absolute bit `absBit pos k hl (j + bp)` of the PDU, and the entries are pairwise disjoint;
    (2) every bit of the PDU that no entry claims — in particular every bit of a RESERVED / NRC-CONST object that no other
        parameter overlaps — is zero;
    (4) the PDU is exactly as long as the furthest byte an entry or a skipped object reaches. -/
theorem C02_bit_exact_nested2R (ds : List Desc2R) (trig : Option Bytes) (hok : Descs2R.ok trig ds) (pdu : Bytes)
    (henc : encodeMessage none (Descs2R.params ds) (.dict (Descs2R.supplied ds)) trig true = .ok (pdu, 0)) :
    (Descs2R.padOk ds →
      (∀ e ∈ Descs2R.layout ds, ∀ j, j < e.bl → getBit pdu (absBit e.pos e.k e.hl (j + e.bp)) = e.raw.testBit j) ∧
      LDisj2 (Descs2R.layout ds)) ∧
    (∀ a, (∀ e ∈ Descs2R.layout ds, ¬ e.claims a) → getBit pdu a = false) ∧
    pdu.length = Descs2R.extent ds := by
  rw [descs2R_encodeMessage trig ds hok] at henc
  simp only [Except.ok.injEq, Prod.mk.injEq] at henc
  obtain ⟨hpdu, hwarn⟩ := henc
  subst hpdu
  refine ⟨fun hp => ?_, descs2R_pure_outside trig ds hok.1, descs2R_pure_length trig ds hok.1⟩
  have hd := descs2R_pure_disj_of trig ds hok.1 hwarn hp
  exact ⟨descs2R_pure_inside trig ds hok.1 hd, (LDisj2_iff _).mpr hd⟩

/-- **C02, overlap clause, with RESERVED and NRC-CONST**: strict `encode` never fails; pairwise disjoint entries ⇒ no warning;
    no warning ⇒ pairwise disjoint entries, unless a BYTE-SIZE padding hits a bit claimed before it.  The skipped parameters
    take no part: they have no entry. -/
theorem C02_overlap_iff_nested2R (ds : List Desc2R) (trig : Option Bytes) (hok : Descs2R.ok trig ds) :
    ∃ pdu w, encodeMessage none (Descs2R.params ds) (.dict (Descs2R.supplied ds)) trig true = .ok (pdu, w) ∧
      (LDisj2 (Descs2R.layout ds) → w = 0) ∧ (Descs2R.padOk ds → (w = 0 ↔ LDisj2 (Descs2R.layout ds))) :=
  ⟨_, _, descs2R_encodeMessage trig ds hok,
    fun hd => descs2R_pure_nowarn_of trig ds hok.1 ((LDisj2_iff _).mp hd),
    fun hp => ⟨fun hw => (LDisj2_iff _).mpr (descs2R_pure_disj_of trig ds hok.1 hw hp),
      fun hd => descs2R_pure_nowarn_of trig ds hok.1 ((LDisj2_iff _).mp hd)⟩⟩

/-- **a skipped parameter has no layout entry**; cursor and extent move behind the object -/
theorem C02_skipped_no_entry (n : String) (bp bitp : Option Nat) (bl r : Nat) (o : Obj) (values : List IVal) (v : IVal) (org c : Nat) :
    (Desc2R.reserved n bp bitp bl r).lay.ents org c = [] ∧
    (Desc2R.reserved n bp bitp bl r).lay.cur org c = posOf bp org c + (bl + bitp.getD 0 + 7) / 8 ∧
    (Desc2R.reserved n bp bitp bl r).lay.ext org c = posOf bp org c + (bl + bitp.getD 0 + 7) / 8 ∧
    (Desc2R.nrcConst o values v).lay.ents org c = [] ∧
    (Desc2R.nrcConst o values v).lay.cur org c = o.pos org c + o.k ∧ (Desc2R.nrcConst o values v).lay.ext org c = o.pos org c + o.k := by
  refine ⟨rfl, ?_, ?_, rfl, rfl, rfl⟩ <;> cases bp <;> rfl

/-- **an object none of whose bits is claimed by the layout reads as 0 in the encoded PDU** — so the decoder returns 0 for a
    RESERVED parameter that no other parameter overlaps (`reserved_reads_zero` is the same statement on the decoder state) -/
theorem C02_unclaimed_field_reads_zero (ds : List Desc2R) (trig : Option Bytes) (hok : Descs2R.ok trig ds) (pdu : Bytes)
    (henc : encodeMessage none (Descs2R.params ds) (.dict (Descs2R.supplied ds)) trig true = .ok (pdu, 0))
    (pos bl bp : Nat) (hl : Bool) (hlen : pos + (bl + bp + 7) / 8 ≤ pdu.length)
    (hfree : ∀ j, j < bl → ∀ e ∈ Descs2R.layout ds, ¬ e.claims (absBit pos ((bl + bp + 7) / 8) hl (j + bp))) :
    readNum pdu pos ((bl + bp + 7) / 8) hl / 2 ^ bp % 2 ^ bl = 0 := by
  have h2 := (C02_bit_exact_nested2R ds trig hok pdu henc).2.1
  rw [descs2R_encodeMessage trig ds hok] at henc
  simp only [Except.ok.injEq, Prod.mk.injEq] at henc
  have hall : AllBytes pdu := by rw [← henc.1]; exact descs2R_pure_allBytes trig ds hok.1
  exact field_reads_zero pdu hall pos bl bp hl hlen (fun j hj => h2 _ (hfree j hj))

theorem Descs2R.padOk_of_noSizePadding (ds : List Desc2R) (h : ∀ e ∈ Descs2R.layout ds, e.role ≠ .sizePadding) : Descs2R.padOk ds :=
  PadOk_of_noSilent _ _ h

def Descs2R.padCheck (ds : List Desc2R) : Bool := padOkB (Descs2R.layout ds) []

theorem Descs2R.padOk_of_check (ds : List Desc2R) (h : Descs2R.padCheck ds = true) : Descs2R.padOk ds :=
  padOk_of_B _ [] _ (fun _ hf => hf.elim) (fun _ hp => nomatch hp) h

/-- `Desc2` embedded: same layout -/
theorem Descs2R.ofBase_lay : (ds : List Desc2) → Descs2R.lay (Descs2R.ofBase ds) = Descs2.lay ds
  | [] => rfl
  | d :: ds => by
    show d.lay.seq (Descs2R.lay (Descs2R.ofBase ds)) = d.lay.seq (Descs2.lay ds)
    rw [Descs2R.ofBase_lay ds]

/-! ### non-vacuity: the examples of `Props/C01Nested2R.lean` -/

/-- `exRes` = [sid; a; st { k; rs : RESERVED 12 }; z; tail : RESERVED 12]: four entries, none for the RESERVED parameters -/
theorem exRes_layout : Descs2R.layout exRes =
    [⟨.codedConst, "sid", 0, 1, true, 0, 8, 0x22⟩, ⟨.value, "a", 1, 1, true, 0, 8, 5⟩, ⟨.value, "k", 2, 1, true, 0, 8, 9⟩,
     ⟨.value, "z", 5, 1, true, 0, 8, 0x77⟩] := by decide +kernel
/-- … but the extent counts them: 8 bytes (the last entry ends at byte 6) -/
example : Descs2R.extent exRes = 8 := by decide +kernel

example : Descs2R.padOk exRes := Descs2R.padOk_of_check _ (by decide +kernel)

instance Ent2.decClaimsR (e : Ent2) (a : Nat) : Decidable (e.claims a) := by unfold Ent2.claims Ent.claims; infer_instance

/-- the RESERVED parameter `tail` (12 bits from byte 6, low-high) is claimed by nobody ⇒ it reads as 0 in the PDU: the second
    half of the wire condition `exRes_wire` follows from the layout -/
example : readNum exResPdu 6 2 false / 2 ^ 0 % 2 ^ 12 = 0 :=
  C02_unclaimed_field_reads_zero exRes none exRes_ok exResPdu exRes_enc 6 12 0 false (by decide)
    (by rw [exRes_layout]; decide +kernel)

/-- `exResOverlap` = [sid; r : RESERVED 4 bits @ byte 1 bit 4; a @ byte 1 bit 4; b @ byte 1 bit 0]: `a` lies over `r`, the layout is
    disjoint all the same (three entries) — no overlap warning -/
theorem exResOverlap_layout : Descs2R.layout exResOverlap =
    [⟨.codedConst, "sid", 0, 1, true, 0, 8, 0x22⟩, ⟨.value, "a", 1, 1, true, 4, 4, 0xA⟩, ⟨.value, "b", 1, 1, true, 0, 4, 3⟩] := by
  decide +kernel

/-- `exU16Req` = [sid; s { k; txt : A_UNICODE2STRING low-high "😀A"; rs : RESERVED 8 }; z]: the string is one `value` entry of 48 bits
    whose pattern is the UTF-16LE bytes `3D D8 00 DE 41 00` read as one big-endian number; no entry for `rs` (byte 8) -/
theorem exU16Req_layout : Descs2R.layout exU16Req =
    [⟨.codedConst, "sid", 0, 1, true, 0, 8, 0x22⟩, ⟨.value, "k", 1, 1, true, 0, 8, 9⟩,
     ⟨.value, "txt", 2, 6, true, 0, 48, 0x3DD800DE4100⟩, ⟨.value, "z", 9, 1, true, 0, 8, 0x77⟩] := by decide +kernel

end OdxVerif.Codec
