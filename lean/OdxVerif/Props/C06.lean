import OdxVerif.Proofs.DispatchMain
/-! # C06 — messages are attributed to exactly the matching services

    For every decoding oracle `dec` (what `request.decode(M)` / `response.decode(M)` do: C01–C05), every
    layer `L` (any number of services, any constant prefixes — shared, nested, empty —, matching-request
    parameters, any number of global negative responses) and every message `M`.

    Envelopes, all explicit hypotheses:
    * `NoForeign dec M`   — decoding raises nothing but `DecodeError`s (property C05);
    * `Unambiguous dec L M` — no service has two own coding objects matching `M`; strict mode reports such a
      description as "cannot uniquely decode" (`C06_attribution_general` says what happens then);
    * `NoEmptyPrefix L`   — **open finding `c06-empty-prefix`**: `_find_services_for_uds` never consults the
      leaf list of the root of the prefix tree, so a coding object with an empty constant prefix cannot
      make its service a candidate. The repair (consult the root) contradicts four unit tests of odxtools
      (the somersault `schroedinger` service has such a request and the tests expect it *not* to be
      reported), so the model follows the existing code and the full statement is refuted by
      `C06_attribution_counterexample` / `C06_prefix_tree_complete_counterexample`.

    Modes: since `fix: DiagService.decode_message() always raises if no coding object applies` (460d650)
    non-strict mode differs from strict mode only when several own coding objects of one service match
    (`odxraise("cannot uniquely decode")` → the first one is returned): `C06_lenient_eq_strict`,
    `C06_lenient_attribution` (which therefore needs no `Unambiguous`), `C06_lenient_general`. -/
namespace OdxVerif.Dispatch
open Spec

/-- The full statement of the property for one `(dec, L, M)` and one mode: `decode` reports exactly the
    attributed services and raises a decode error iff there is none. -/
def AttributionHolds (dec : Oracle) (strict : Bool) (L : Layer) (M : Bytes) : Prop :=
  (∀ ms, decode dec strict L M = .ok ms → ms ≠ [] ∧ ∀ s, (∃ c, (s, c) ∈ ms) ↔ s ∈ attributed dec L M) ∧
  (∀ e, decode dec strict L M = .error e → e = .decode ∧ attributed dec L M = [])

/-- **C06 (main clause), proved part**: model `decode` = attribution spec, for all layers without an
    empty constant prefix. -/
theorem C06_attribution_partial (dec : Oracle) (L : Layer) (M : Bytes)
    (hC05 : NoForeign dec M) (hU : Unambiguous dec L M) (hNE : NoEmptyPrefix L) :
    AttributionHolds dec true L M := by
  refine attribution_of_char _ _ _ _ (decodeCandidates_strict_char hC05 L ((buildTree L).walk M)) fun s => ?_
  rw [mem_attributed]
  constructor
  · rintro ⟨c, hs, hi⟩
    exact (attributed_of_interp ((mem_candidates L M s).mp hs).1 hi).2.2
  · intro ha
    obtain ⟨hf, c, hi⟩ := interp_of_attributed (hU s ha.1) (hNE s ha.1) ha
    exact ⟨c, (mem_candidates L M s).mpr ⟨ha.1, hf⟩, hi⟩

/-- hypotheses and conclusion are met non-trivially: services `22 01 x` / `22 y` sharing a prefix, a global
    negative response `7F <sid> nrc`; message `22 01 05` is attributed to both services, `7F 22 11` to both
    through the global negative response, `33 00` to none -/
private def rqA : Coding := ⟨1, [.const [0x22], .const [0x01], .other]⟩
private def rqB : Coding := ⟨2, [.const [0x22], .other]⟩
private def prA : Coding := ⟨3, [.const [0x62], .matchReq 1 1, .other]⟩
private def prB : Coding := ⟨4, [.const [0x62], .other]⟩
private def gnr : Coding := ⟨9, [.const [0x7F], .matchReq 0 1, .other]⟩
private def svA : Service := ⟨1, some rqA, [prA], []⟩
private def svB : Service := ⟨2, some rqB, [prB], []⟩
private def L1 : Layer := ⟨[svA, svB], [gnr]⟩
/-- a decoder which needs `params.length` bytes -/
private def decLen : Oracle := fun co M => if co.params.length ≤ M.length then .ok else .error
/-- a result reduced to names: (error class, [(service, coding object)]) -/
private def view : Except Err (List Msg) → Option Err × List (Nat × Nat)
  | .ok ms => (none, ms.map fun m => (m.1.name, m.2.name))
  | .error e => (some e, [])

example : NoForeign decLen [0x22, 1, 5] := by intro co; unfold decLen; split <;> decide
example : Unambiguous decLen L1 [0x22, 1, 5] ∧ NoEmptyPrefix L1 := by
  unfold Unambiguous NoEmptyPrefix; decide
example : view (decode decLen true L1 [0x22, 1, 5]) = (none, [(2, 2), (1, 1)]) := by decide
example : attributed decLen L1 [0x22, 1, 5] = [svA, svB] := by decide
example : view (decode decLen true L1 [0x7F, 0x22, 0x11]) = (none, [(1, 9), (2, 9)]) := by decide
example : view (decode decLen true L1 [0x33, 0]) = (some .decode, []) ∧ attributed decLen L1 [0x33, 0] = [] := by decide
/-- `22 01`: the candidate `22 01 x` fails with a decode error ("expected a longer message"), `22 y` is
    still reported (fix `c06-candidate-error-aborts-decode`) -/
example : view (decode decLen true L1 [0x22, 1]) = (none, [(2, 2)]) := by decide

/-- **C06 (main clause), every layer**: what strict `decode` reports, without any envelope on the layer:
    the services *found* through a non-empty constant prefix, each with its unique matching own coding
    object or — if it has none or several — with every matching global negative response. -/
theorem C06_attribution_general (dec : Oracle) (L : Layer) (M : Bytes) (hC05 : NoForeign dec M) :
    (∀ ms, decode dec true L M = .ok ms →
        ms ≠ [] ∧ ∀ s c, (s, c) ∈ ms ↔ (s ∈ L.services ∧ Found L M s ∧ Interp dec L M s c)) ∧
    (∀ e, decode dec true L M = .error e →
        e = .decode ∧ ∀ s c, ¬ (s ∈ L.services ∧ Found L M s ∧ Interp dec L M s c)) := by
  obtain ⟨hok, herr⟩ := decodeCandidates_strict_char hC05 L ((buildTree L).walk M)
  refine ⟨fun ms hms => ?_, fun e he => ?_⟩
  · obtain ⟨hne, hmem⟩ := hok ms hms
    refine ⟨hne, fun s c => ?_⟩
    rw [hmem s c, mem_candidates, and_assoc]
  · obtain ⟨rfl, hnone⟩ := herr e he
    refine ⟨rfl, fun s c h => hnone s c ?_⟩
    rw [mem_candidates, and_assoc]; exact h

example : Found L1 [0x22, 1, 5] svA ∧ Interp decLen L1 [0x22, 1, 5] svA rqA := by
  refine ⟨⟨[0x22, 1], by decide, by decide, .inl (by decide)⟩, by decide, .inl (by decide)⟩

/-- **soundness without envelope**: whatever strict `decode` reports is a coding object of that service
    (or a global negative response) which matches the message; in particular the service is attributed. -/
theorem C06_attribution_sound (dec : Oracle) (L : Layer) (M : Bytes) (hC05 : NoForeign dec M)
    (ms : List Msg) (h : decode dec true L M = .ok ms) (s : Service) (co : Coding) (hm : (s, co) ∈ ms) :
    co ∈ ownCodings s ++ L.gnrs ∧ Matches dec s M co ∧ s ∈ attributed dec L M := by
  obtain ⟨hs, _, hi⟩ := (((C06_attribution_general dec L M hC05).1 ms h).2 s co).mp hm
  obtain ⟨h2, h3, h4⟩ := attributed_of_interp hs hi
  exact ⟨h2, h3, (mem_attributed dec L M s).mpr h4⟩

example : ∃ ms, decode decLen true L1 [0x22, 1, 5] = .ok ms ∧ (svA, rqA) ∈ ms :=
  ⟨[(svB, rqB), (svA, rqA)], by rfl, by decide⟩

/-- **the full statement is false for the existing code** (open finding `c06-empty-prefix`): a service whose
    request has no constant prefix, message `33`: attributed, but `decode` raises a decode error. -/
theorem C06_attribution_counterexample :
    ¬ ∀ (dec : Oracle) (L : Layer) (M : Bytes), NoForeign dec M → Unambiguous dec L M →
        AttributionHolds dec true L M := by
  intro h
  have := (h (fun _ _ => .ok) ⟨[⟨1, some ⟨1, [.other]⟩, [], []⟩], []⟩ [0x33]
    (by intro co; simp) (by unfold Unambiguous; decide)).2 .decode (by rfl)
  exact absurd this.2 (by decide)

/-- **C06 (prefix tree), proved part**: the tree walk returns every service of the layer having a coding
    object (or a request prefix) whose constant prefix is a *non-empty* prefix of `M`, and no other. -/
theorem C06_prefix_tree_complete_partial (L : Layer) (M : Bytes) (s : Service) :
    s ∈ (buildTree L).walk M ↔ s ∈ L.services ∧ Found L M s :=
  mem_candidates L M s

example : svA ∈ (buildTree L1).walk [0x22, 1, 5] ∧ svB ∈ (buildTree L1).walk [0x22, 1, 5] ∧
    (buildTree L1).walk [0x33] = [] := by decide

/-- the walk is *not* complete for the empty prefix: the service below has a request with the empty
    constant prefix, which is a prefix of every message, and is never returned. -/
theorem C06_prefix_tree_complete_counterexample :
    ¬ ∀ (L : Layer) (M : Bytes) (s : Service), s ∈ L.services →
        (∃ co ∈ ownCodings s ++ L.gnrs, constPrefix (Spec.requestPrefix s) co.params <+: M) →
        s ∈ (buildTree L).walk M := by
  intro h
  have := h ⟨[⟨1, some ⟨1, [.other]⟩, [], []⟩], []⟩ [0x33] ⟨1, some ⟨1, [.other]⟩, [], []⟩
    (by decide) ⟨⟨1, [.other]⟩, by decide, by decide⟩
  exact absurd this (by decide)

/-- **C06 (own encodings)**: if `M` is matched by a request/response `co` of service `s` (it starts with
    `co`'s constant prefix — as every encoding of `co` does — and `co` decodes it), no other coding object
    of `s` matches it and the prefix is not empty, then `s` is reported with `co` — whatever other services
    the layer contains and whatever prefixes they share with `s`. -/
theorem C06_own_encoding (dec : Oracle) (L : Layer) (M : Bytes) (hC05 : NoForeign dec M)
    (s : Service) (hs : s ∈ L.services) (co : Coding) (hco : co ∈ ownCodings s)
    (hm : Matches dec s M co) (hU : ownMatchCount dec s M ≤ 1)
    (hne : constPrefix (Spec.requestPrefix s) co.params ≠ []) :
    ∃ ms, decode dec true L M = .ok ms ∧ (s, co) ∈ ms := by
  have hf : Found L M s := found_of_matches (List.mem_append_left _ hco) hm hne
  exact decodeCandidates_reports hC05 L _ ((mem_candidates L M s).mpr ⟨hs, hf⟩) (interp_of_own hco hm hU)

example : svA ∈ L1.services ∧ rqA ∈ ownCodings svA ∧ Matches decLen svA [0x22, 1, 5] rqA ∧
    ownMatchCount decLen svA [0x22, 1, 5] ≤ 1 ∧ constPrefix (Spec.requestPrefix svA) rqA.params ≠ [] := by
  decide

/-- **C06 (response via request)**: `decode_response(response, request)` reports service `s` with its
    response `co` whenever `request` starts with the (non-empty) constant prefix of `s`'s request and `co`
    matches `response` uniquely. -/
theorem C06_response_via_request (dec : Oracle) (L : Layer) (response request : Bytes)
    (hC05 : NoForeign dec response) (s : Service) (hs : s ∈ L.services)
    (hrq : Spec.requestPrefix s ≠ []) (hreq : Spec.requestPrefix s <+: request)
    (co : Coding) (hco : co ∈ s.pos ++ s.neg) (hm : Matches dec s response co)
    (hU : ownMatchCount dec s response ≤ 1) :
    ∃ ms, decodeResponse dec true L response request = .ok ms ∧ (s, co) ∈ ms := by
  have hf : Found L request s := ⟨_, hrq, hreq, .inl rfl⟩
  have ho : co ∈ ownCodings s := by
    simp only [ownCodings, List.mem_append] at hco ⊢
    rcases hco with h | h
    · exact .inl (.inr h)
    · exact .inr h
  exact decodeCandidates_reports hC05 L _ ((mem_candidates L request s).mpr ⟨hs, hf⟩) (interp_of_own ho hm hU)

/-- … and only services found through the request are reported, each with a coding object matching the
    response. -/
theorem C06_response_only_via_request (dec : Oracle) (L : Layer) (response request : Bytes)
    (hC05 : NoForeign dec response) (ms : List Msg)
    (h : decodeResponse dec true L response request = .ok ms) (s : Service) (co : Coding)
    (hmem : (s, co) ∈ ms) :
    s ∈ L.services ∧ Found L request s ∧ co ∈ ownCodings s ++ L.gnrs ∧ Matches dec s response co := by
  obtain ⟨hs, hi⟩ := (((decodeCandidates_strict_char hC05 L ((buildTree L).walk request)).1 ms h).2 s co).mp hmem
  obtain ⟨hs', hf⟩ := (mem_candidates L request s).mp hs
  obtain ⟨h2, h3, _⟩ := attributed_of_interp hs' hi
  exact ⟨hs', hf, h2, h3⟩

/-- the response `62 01 07` to request `22 01 05` is found for service A only (B's response `62 r` matches
    the bytes as well, and is reported only when the request is B's) -/
example : view (decodeResponse decLen true L1 [0x62, 1, 7] [0x22, 1, 5]) = (none, [(2, 4), (1, 3)]) := by decide
example : view (decodeResponse decLen true L1 [0x62, 1, 7] [0x22, 2]) = (none, [(2, 4)]) := by decide
example : Spec.requestPrefix svA ≠ [] ∧ Spec.requestPrefix svA <+: [0x22, 1, 5] ∧ prA ∈ svA.pos ++ svA.neg ∧
    Matches decLen svA [0x62, 1, 7] prA ∧ ownMatchCount decLen svA [0x62, 1, 7] ≤ 1 := by decide

/-- **C06 (service groups)**: the group filed under key `k` consists of exactly the services whose request
    has first constant byte `k` (`none`: no request, or a request without constant first byte); hence each
    service is in exactly one group. -/
theorem C06_service_groups (L : Layer) (k : Option Byte) (s : Service) :
    s ∈ groupOf (serviceGroups L) k ↔ s ∈ L.services ∧ sidOf s = k := by
  unfold serviceGroups
  rw [mem_groupOf_foldl, extractSid_eq]
  simp [groupOf]

example : (serviceGroups ⟨[svA, ⟨3, some ⟨5, [.other]⟩, [], []⟩, svB, ⟨4, none, [], []⟩], []⟩).map
    (fun g => (g.1, g.2.map (·.name))) = [(some 0x22, [1, 2]), (none, [3, 4])] := by decide

/-- **C06 (service groups, leading constant)**: a service whose request starts with a constant parameter that puts the
    bytes `b :: bs` on the wire is filed under `b` — the first *wire* byte of that constant, whatever its length, byte order
    or base type (a 16 bit constant `0x0122` coded low byte first is `22 01` on the wire: group `0x22`) — and under no other
    key, whatever parameters follow and whatever else the layer contains. -/
theorem C06_service_groups_leading_constant (L : Layer) (s : Service) (r : Coding) (b : Byte) (bs : Bytes)
    (ps : List Param) (hs : s ∈ L.services) (hr : s.request = some r) (hp : r.params = .const (b :: bs) :: ps)
    (k : Option Byte) :
    s ∈ groupOf (serviceGroups L) k ↔ k = some b := by
  rw [C06_service_groups]
  have h : sidOf s = some b := by simp [sidOf, Spec.requestPrefix, hr, hp, constPrefix]
  simp [hs, h, eq_comm]

/-- `CODED-CONST 0x0122`, 16 bit, `IS-HIGHLOW-BYTE-ORDER="false"` (wire bytes `22 01`) next to `CODED-CONST 0x01`: the
    first is filed under `0x22`, not under the most significant byte of its value -/
example : (serviceGroups ⟨[⟨1, some ⟨1, [.const [0x22, 0x01], .other]⟩, [], []⟩,
                           ⟨2, some ⟨2, [.const [0x01], .other]⟩, [], []⟩], []⟩).map
    (fun g => (g.1, g.2.map (·.name))) = [(some 0x22, [1]), (some 0x01, [2])] := by decide

/-- **C06, non-strict mode = strict mode on unambiguous input**: `decode_message` raises the "cannot
    decode" error unconditionally, so the mode only matters when several own coding objects of one service
    match. Without such a service, `decode` and `decode_response` return literally the same result (same
    messages in the same order, or the same error) in both modes. -/
theorem C06_lenient_eq_strict (dec : Oracle) (L : Layer) (M : Bytes) (hC05 : NoForeign dec M)
    (hU : Unambiguous dec L M) :
    decode dec false L M = decode dec true L M ∧
    ∀ request, decodeResponse dec false L M request = decodeResponse dec true L M request :=
  ⟨decodeCandidates_lenient_eq_strict hC05 L _ fun s hs => hU s ((mem_candidates L M s).mp hs).1,
   fun request => decodeCandidates_lenient_eq_strict hC05 L _ fun s hs => hU s ((mem_candidates L request s).mp hs).1⟩

example : NoForeign decLen [0x22, 1] ∧ Unambiguous decLen L1 [0x22, 1] := by
  refine ⟨by intro co; unfold decLen; split <;> decide, by unfold Unambiguous; decide⟩
/-- `22 01`: the failing candidate `22 01 x` is skipped in non-strict mode as well (before 460d650 it was
    reported with `coding_object=None`) -/
example : view (decode decLen false L1 [0x22, 1]) = (none, [(2, 2)]) := by decide

/-- **C06, non-strict mode, every layer**: exact characterisation. A found service is reported with the
    *first* matching own coding object (in the order positive responses, negative responses, request), or
    — if it has none — with every matching global negative response; `DecodeError` iff there is no such pair. -/
theorem C06_lenient_general (dec : Oracle) (L : Layer) (M : Bytes) (hC05 : NoForeign dec M) :
    (∀ ms, decode dec false L M = .ok ms →
        ms ≠ [] ∧ ∀ s co, (s, co) ∈ ms ↔ (s ∈ L.services ∧ Found L M s ∧ InterpLenient dec L M s co)) ∧
    (∀ e, decode dec false L M = .error e →
        e = .decode ∧ ∀ s co, ¬ (s ∈ L.services ∧ Found L M s ∧ InterpLenient dec L M s co)) := by
  obtain ⟨hok, herr⟩ := decodeCandidates_lenient_char hC05 L ((buildTree L).walk M)
  refine ⟨fun ms hms => ?_, fun e he => ?_⟩
  · obtain ⟨hne, hmem⟩ := hok ms hms
    refine ⟨hne, fun s c => ?_⟩
    rw [hmem s c, mem_candidates, and_assoc]
  · obtain ⟨rfl, hnone⟩ := herr e he
    refine ⟨rfl, fun s c h => hnone s c ?_⟩
    rw [mem_candidates, and_assoc]; exact h

/-- a service with two matching positive responses (`62 r…`, both need ≤ 3 bytes): strict mode answers
    "cannot uniquely decode" (no global negative response applies → `DecodeError`), non-strict mode
    reports the first one (twice: the service is stored under `62` once per response) -/
private def svAmb : Service := ⟨5, some rqB, [prB, ⟨6, [.const [0x62], .other, .other]⟩], []⟩
example : view (decode decLen true ⟨[svAmb], []⟩ [0x62, 1, 2]) = (some .decode, []) ∧
    view (decode decLen false ⟨[svAmb], []⟩ [0x62, 1, 2]) = (none, [(5, 4), (5, 4)]) ∧
    ¬ Unambiguous decLen ⟨[svAmb], []⟩ [0x62, 1, 2] := by
  refine ⟨by decide, by decide, by unfold Unambiguous; decide⟩

/-- **C06 (main clause) in non-strict mode**: no `Unambiguous` needed — an ambiguous service is reported
    (with its first matching coding object), so the reported services are exactly the attributed ones for
    every layer without an empty constant prefix. -/
theorem C06_lenient_attribution (dec : Oracle) (L : Layer) (M : Bytes)
    (hC05 : NoForeign dec M) (hNE : NoEmptyPrefix L) :
    AttributionHolds dec false L M := by
  refine attribution_of_char _ _ _ _ (decodeCandidates_lenient_char hC05 L ((buildTree L).walk M)) fun s => ?_
  rw [mem_attributed]
  constructor
  · rintro ⟨c, hs, hi⟩
    exact (attributed_of_interpLenient ((mem_candidates L M s).mp hs).1 hi).2.2
  · intro ha
    obtain ⟨hf, c, hi⟩ := interpLenient_of_attributed (hNE s ha.1) ha
    exact ⟨c, (mem_candidates L M s).mpr ⟨ha.1, hf⟩, hi⟩

example : NoEmptyPrefix ⟨[svAmb], []⟩ ∧ attributed decLen ⟨[svAmb], []⟩ [0x62, 1, 2] = [svAmb] := by
  refine ⟨by unfold NoEmptyPrefix; decide, by decide⟩

end OdxVerif.Dispatch
