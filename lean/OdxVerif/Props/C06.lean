import OdxVerif.Proofs.DispatchMain
/-! # C06 — messages are attributed to exactly the matching services

    For every decoding oracle `dec` (what `request.decode(M)` / `response.decode(M)` do: C01–C05), every
    layer `L` (any number of services, any constant prefixes — shared, nested, empty —, matching-request
    parameters, any number of global negative responses) and every message `M`.

    Envelopes, all explicit hypotheses:
    * `NoForeign dec M`   — decoding raises nothing but `DecodeError`s (property C05);
    * `Unambiguous dec L M` — no service has two own coding objects matching `M`; strict mode reports such a
      description as "cannot uniquely decode" (`C06_attribution_general` says what happens then);
    * `NoEmptyPrefix L`   — **open finding `c06-empty-prefix`**: `_find_services_for_uds` never consults the
      leaf list of the root of the prefix tree, so a coding object with an empty constant prefix cannot
      make its service a candidate. The repair (consult the root) contradicts four unit tests of odxtools
      (the somersault `schroedinger` service has such a request and the tests expect it *not* to be
      reported), so the model follows the existing code and the full statement is refuted by
      `C06_attribution_counterexample` / `C06_prefix_tree_complete_counterexample`. -/
namespace OdxVerif.Dispatch
open Spec

/-- The full statement of the property for one `(dec, L, M)`: strict `decode` reports exactly the
    attributed services and raises a decode error iff there is none. -/
def AttributionHolds (dec : Oracle) (L : Layer) (M : Bytes) : Prop :=
  (∀ ms, decode dec true L M = .ok ms → ms ≠ [] ∧ ∀ s, (∃ c, (s, c) ∈ ms) ↔ s ∈ attributed dec L M) ∧
  (∀ e, decode dec true L M = .error e → e = .decode ∧ attributed dec L M = [])

/-- **C06 (main clause), proved part**: model `decode` = attribution spec, for all layers without an
    empty constant prefix. -/
theorem C06_attribution_partial (dec : Oracle) (L : Layer) (M : Bytes)
    (hC05 : NoForeign dec M) (hU : Unambiguous dec L M) (hNE : NoEmptyPrefix L) :
    AttributionHolds dec L M := by
  obtain ⟨hok, herr⟩ := decodeCandidates_strict_char hC05 L ((buildTree L).walk M)
  have hiff : ∀ s, (∃ c, s ∈ (buildTree L).walk M ∧ Interp dec L M s c) ↔ s ∈ attributed dec L M := by
    intro s
    rw [mem_attributed]
    constructor
    · rintro ⟨c, hs, hi⟩
      exact (attributed_of_interp ((mem_candidates L M s).mp hs).1 hi).choose_spec.2.2.2
    · intro ha
      obtain ⟨hf, c, hi⟩ := interp_of_attributed (hU s ha.1) (hNE s ha.1) ha
      exact ⟨c, (mem_candidates L M s).mpr ⟨ha.1, hf⟩, hi⟩
  refine ⟨fun ms hms => ?_, fun e he => ?_⟩
  · obtain ⟨hne, hmem⟩ := hok ms hms
    refine ⟨hne, fun s => ?_⟩
    rw [← hiff s]
    exact exists_congr fun c => hmem s c
  · obtain ⟨rfl, hnone⟩ := herr e he
    refine ⟨rfl, List.eq_nil_iff_forall_not_mem.mpr fun s hs => ?_⟩
    obtain ⟨c, hc⟩ := (hiff s).mpr hs
    exact hnone s c hc

/-- hypotheses and conclusion are met non-trivially: services `22 01 x` / `22 y` sharing a prefix, a global
    negative response `7F <sid> nrc`; message `22 01 05` is attributed to both services, `7F 22 11` to both
    through the global negative response, `33 00` to none -/
private def rqA : Coding := ⟨1, [.const [0x22], .const [0x01], .other]⟩
private def rqB : Coding := ⟨2, [.const [0x22], .other]⟩
private def prA : Coding := ⟨3, [.const [0x62], .matchReq 1 1, .other]⟩
private def prB : Coding := ⟨4, [.const [0x62], .other]⟩
private def gnr : Coding := ⟨9, [.const [0x7F], .matchReq 0 1, .other]⟩
private def svA : Service := ⟨1, some rqA, [prA], []⟩
private def svB : Service := ⟨2, some rqB, [prB], []⟩
private def L1 : Layer := ⟨[svA, svB], [gnr]⟩
/-- a decoder which needs `params.length` bytes -/
private def decLen : Oracle := fun co M => if co.params.length ≤ M.length then .ok else .error
/-- a result reduced to names: (error class, [(service, coding object)]) -/
private def view : Except Err (List Msg) → Option Err × List (Nat × Option Nat)
  | .ok ms => (none, ms.map fun m => (m.1.name, m.2.map (·.name)))
  | .error e => (some e, [])

example : NoForeign decLen [0x22, 1, 5] := by intro co; unfold decLen; split <;> decide
example : Unambiguous decLen L1 [0x22, 1, 5] ∧ NoEmptyPrefix L1 := by
  unfold Unambiguous NoEmptyPrefix; decide
example : view (decode decLen true L1 [0x22, 1, 5]) = (none, [(2, some 2), (1, some 1)]) := by decide
example : attributed decLen L1 [0x22, 1, 5] = [svA, svB] := by decide
example : view (decode decLen true L1 [0x7F, 0x22, 0x11]) = (none, [(1, some 9), (2, some 9)]) := by decide
example : view (decode decLen true L1 [0x33, 0]) = (some .decode, []) ∧ attributed decLen L1 [0x33, 0] = [] := by decide
/-- `22 01`: the candidate `22 01 x` fails with a decode error ("expected a longer message"), `22 y` is
    still reported (fix `c06-candidate-error-aborts-decode`) -/
example : view (decode decLen true L1 [0x22, 1]) = (none, [(2, some 2)]) := by decide

/-- **C06 (main clause), every layer**: what strict `decode` reports, without any envelope on the layer:
    the services *found* through a non-empty constant prefix, each with its unique matching own coding
    object or — if it has none or several — with every matching global negative response. -/
theorem C06_attribution_general (dec : Oracle) (L : Layer) (M : Bytes) (hC05 : NoForeign dec M) :
    (∀ ms, decode dec true L M = .ok ms →
        ms ≠ [] ∧ ∀ s c, (s, c) ∈ ms ↔ (s ∈ L.services ∧ Found L M s ∧ Interp dec L M s c)) ∧
    (∀ e, decode dec true L M = .error e →
        e = .decode ∧ ∀ s c, ¬ (s ∈ L.services ∧ Found L M s ∧ Interp dec L M s c)) := by
  obtain ⟨hok, herr⟩ := decodeCandidates_strict_char hC05 L ((buildTree L).walk M)
  refine ⟨fun ms hms => ?_, fun e he => ?_⟩
  · obtain ⟨hne, hmem⟩ := hok ms hms
    refine ⟨hne, fun s c => ?_⟩
    rw [hmem s c, mem_candidates, and_assoc]
  · obtain ⟨rfl, hnone⟩ := herr e he
    refine ⟨rfl, fun s c h => hnone s c ?_⟩
    rw [mem_candidates, and_assoc]; exact h

example : Found L1 [0x22, 1, 5] svA ∧ Interp decLen L1 [0x22, 1, 5] svA (some rqA) := by
  refine ⟨⟨[0x22, 1], by decide, by decide, .inl (by decide)⟩, rqA, rfl, by decide, .inl (by decide)⟩

/-- **soundness without envelope**: whatever strict `decode` reports is a coding object of that service
    (or a global negative response) which matches the message; in particular the service is attributed. -/
theorem C06_attribution_sound (dec : Oracle) (L : Layer) (M : Bytes) (hC05 : NoForeign dec M)
    (ms : List Msg) (h : decode dec true L M = .ok ms) (s : Service) (c : Option Coding) (hm : (s, c) ∈ ms) :
    ∃ co, c = some co ∧ co ∈ ownCodings s ++ L.gnrs ∧ Matches dec s M co ∧ s ∈ attributed dec L M := by
  obtain ⟨hs, _, hi⟩ := (((C06_attribution_general dec L M hC05).1 ms h).2 s c).mp hm
  obtain ⟨co, h1, h2, h3, h4⟩ := attributed_of_interp hs hi
  exact ⟨co, h1, h2, h3, (mem_attributed dec L M s).mpr h4⟩

example : ∃ ms, decode decLen true L1 [0x22, 1, 5] = .ok ms ∧ (svA, some rqA) ∈ ms :=
  ⟨[(svB, some rqB), (svA, some rqA)], by rfl, by decide⟩

/-- **the full statement is false for the existing code** (open finding `c06-empty-prefix`): a service whose
    request has no constant prefix, message `33`: attributed, but `decode` raises a decode error. -/
theorem C06_attribution_counterexample :
    ¬ ∀ (dec : Oracle) (L : Layer) (M : Bytes), NoForeign dec M → Unambiguous dec L M →
        AttributionHolds dec L M := by
  intro h
  have := (h (fun _ _ => .ok) ⟨[⟨1, some ⟨1, [.other]⟩, [], []⟩], []⟩ [0x33]
    (by intro co; simp) (by unfold Unambiguous; decide)).2 .decode (by rfl)
  exact absurd this.2 (by decide)

/-- **C06 (prefix tree), proved part**: the tree walk returns every service of the layer having a coding
    object (or a request prefix) whose constant prefix is a *non-empty* prefix of `M`, and no other. -/
theorem C06_prefix_tree_complete_partial (L : Layer) (M : Bytes) (s : Service) :
    s ∈ (buildTree L).walk M ↔ s ∈ L.services ∧ Found L M s :=
  mem_candidates L M s

example : svA ∈ (buildTree L1).walk [0x22, 1, 5] ∧ svB ∈ (buildTree L1).walk [0x22, 1, 5] ∧
    (buildTree L1).walk [0x33] = [] := by decide

/-- the walk is *not* complete for the empty prefix: the service below has a request with the empty
    constant prefix, which is a prefix of every message, and is never returned. -/
theorem C06_prefix_tree_complete_counterexample :
    ¬ ∀ (L : Layer) (M : Bytes) (s : Service), s ∈ L.services →
        (∃ co ∈ ownCodings s ++ L.gnrs, constPrefix (Spec.requestPrefix s) co.params <+: M) →
        s ∈ (buildTree L).walk M := by
  intro h
  have := h ⟨[⟨1, some ⟨1, [.other]⟩, [], []⟩], []⟩ [0x33] ⟨1, some ⟨1, [.other]⟩, [], []⟩
    (by decide) ⟨⟨1, [.other]⟩, by decide, by decide⟩
  exact absurd this (by decide)

/-- **C06 (own encodings)**: if `M` is matched by a request/response `co` of service `s` (it starts with
    `co`'s constant prefix — as every encoding of `co` does — and `co` decodes it), no other coding object
    of `s` matches it and the prefix is not empty, then `s` is reported with `co` — whatever other services
    the layer contains and whatever prefixes they share with `s`. -/
theorem C06_own_encoding (dec : Oracle) (L : Layer) (M : Bytes) (hC05 : NoForeign dec M)
    (s : Service) (hs : s ∈ L.services) (co : Coding) (hco : co ∈ ownCodings s)
    (hm : Matches dec s M co) (hU : ownMatchCount dec s M ≤ 1)
    (hne : constPrefix (Spec.requestPrefix s) co.params ≠ []) :
    ∃ ms, decode dec true L M = .ok ms ∧ (s, some co) ∈ ms := by
  have hf : Found L M s := found_of_matches (List.mem_append_left _ hco) hm hne
  exact decodeCandidates_reports hC05 L _ ((mem_candidates L M s).mpr ⟨hs, hf⟩) (interp_of_own hco hm hU)

example : svA ∈ L1.services ∧ rqA ∈ ownCodings svA ∧ Matches decLen svA [0x22, 1, 5] rqA ∧
    ownMatchCount decLen svA [0x22, 1, 5] ≤ 1 ∧ constPrefix (Spec.requestPrefix svA) rqA.params ≠ [] := by
  decide

/-- **C06 (response via request)**: `decode_response(response, request)` reports service `s` with its
    response `co` whenever `request` starts with the (non-empty) constant prefix of `s`'s request and `co`
    matches `response` uniquely. -/
theorem C06_response_via_request (dec : Oracle) (L : Layer) (response request : Bytes)
    (hC05 : NoForeign dec response) (s : Service) (hs : s ∈ L.services)
    (hrq : Spec.requestPrefix s ≠ []) (hreq : Spec.requestPrefix s <+: request)
    (co : Coding) (hco : co ∈ s.pos ++ s.neg) (hm : Matches dec s response co)
    (hU : ownMatchCount dec s response ≤ 1) :
    ∃ ms, decodeResponse dec true L response request = .ok ms ∧ (s, some co) ∈ ms := by
  have hf : Found L request s := ⟨_, hrq, hreq, .inl rfl⟩
  have ho : co ∈ ownCodings s := by
    simp only [ownCodings, List.mem_append] at hco ⊢
    rcases hco with h | h
    · exact .inl (.inr h)
    · exact .inr h
  exact decodeCandidates_reports hC05 L _ ((mem_candidates L request s).mpr ⟨hs, hf⟩) (interp_of_own ho hm hU)

/-- … and only services found through the request are reported, each with a coding object matching the
    response. -/
theorem C06_response_only_via_request (dec : Oracle) (L : Layer) (response request : Bytes)
    (hC05 : NoForeign dec response) (ms : List Msg)
    (h : decodeResponse dec true L response request = .ok ms) (s : Service) (c : Option Coding)
    (hmem : (s, c) ∈ ms) :
    s ∈ L.services ∧ Found L request s ∧
      ∃ co, c = some co ∧ co ∈ ownCodings s ++ L.gnrs ∧ Matches dec s response co := by
  obtain ⟨hs, hi⟩ := (((decodeCandidates_strict_char hC05 L ((buildTree L).walk request)).1 ms h).2 s c).mp hmem
  obtain ⟨hs', hf⟩ := (mem_candidates L request s).mp hs
  obtain ⟨co, h1, h2, h3, _⟩ := attributed_of_interp hs' hi
  exact ⟨hs', hf, co, h1, h2, h3⟩

/-- the response `62 01 07` to request `22 01 05` is found for service A only (B's response `62 r` matches
    the bytes as well, and is reported only when the request is B's) -/
example : view (decodeResponse decLen true L1 [0x62, 1, 7] [0x22, 1, 5]) = (none, [(2, some 4), (1, some 3)]) := by decide
example : view (decodeResponse decLen true L1 [0x62, 1, 7] [0x22, 2]) = (none, [(2, some 4)]) := by decide
example : Spec.requestPrefix svA ≠ [] ∧ Spec.requestPrefix svA <+: [0x22, 1, 5] ∧ prA ∈ svA.pos ++ svA.neg ∧
    Matches decLen svA [0x62, 1, 7] prA ∧ ownMatchCount decLen svA [0x62, 1, 7] ≤ 1 := by decide

/-- **C06 (service groups)**: the group filed under key `k` consists of exactly the services whose request
    has first constant byte `k` (`none`: no request, or a request without constant first byte); hence each
    service is in exactly one group. -/
theorem C06_service_groups (L : Layer) (k : Option Byte) (s : Service) :
    s ∈ groupOf (serviceGroups L) k ↔ s ∈ L.services ∧ sidOf s = k := by
  unfold serviceGroups
  rw [mem_groupOf_foldl, extractSid_eq]
  simp [groupOf]

example : (serviceGroups ⟨[svA, ⟨3, some ⟨5, [.other]⟩, [], []⟩, svB, ⟨4, none, [], []⟩], []⟩).map
    (fun g => (g.1, g.2.map (·.name))) = [(some 0x22, [1, 2]), (none, [3, 4])] := by decide

/-- **C06, non-strict mode**: every candidate yields one message; those carrying a coding object carry the
    first matching own coding object (so the service is attributed); a found service with a matching own
    coding object is reported with one; `coding_object=None` means none matches. Global negative
    responses are never tried in this mode (no exception reaches `_decode`). -/
theorem C06_lenient (dec : Oracle) (L : Layer) (M : Bytes) (hC05 : NoForeign dec M) (ms : List Msg)
    (h : decode dec false L M = .ok ms) :
    (∀ s co, (s, some co) ∈ ms → s ∈ L.services ∧ co ∈ ownCodings s ∧ Matches dec s M co) ∧
    (∀ s, s ∈ L.services → Found L M s → 0 < ownMatchCount dec s M → ∃ co, (s, some co) ∈ ms) ∧
    (∀ s, (s, none) ∈ ms → ownMatchCount dec s M = 0) := by
  have key := (decodeCandidates_lenient_char hC05 L ((buildTree L).walk M)).1 ms h
  refine ⟨fun s co hm => ?_, fun s hs hf hpos => ?_, fun s hm => ?_⟩
  · obtain ⟨hc, hh⟩ := (key s _).mp hm
    have : co ∈ ownMatches dec s M := List.mem_of_head? hh.symm
    exact ⟨((mem_candidates L M s).mp hc).1, (mem_ownMatches dec s M co).mp this⟩
  · rw [← length_ownMatches] at hpos
    match hm : ownMatches dec s M, hpos with
    | x :: r, _ =>
      exact ⟨x, (key s _).mpr ⟨(mem_candidates L M s).mpr ⟨hs, hf⟩, by simp [hm]⟩⟩
  · obtain ⟨_, hh⟩ := (key s _).mp hm
    rw [← length_ownMatches]
    match hm' : ownMatches dec s M, hh with
    | [], _ => rfl

example : view (decode decLen false L1 [0x22, 1]) = (none, [(2, some 2), (1, none)]) := by decide

end OdxVerif.Dispatch
